use criterion::{black_box, criterion_group, criterion_main, Criterion};

use chemical_elements::isotopic_pattern::{poisson_approximation, TheoreticalIsotopicPattern};

fn make_tid() -> TheoreticalIsotopicPattern {
    TheoreticalIsotopicPattern::new(poisson_approximation(1200.0, 8, 2), 1200.0)
}

fn tid_filter(c: &mut Criterion) {
    let tid = make_tid();
    c.bench_function("combined", |b| {
        b.iter(|| {
            black_box(
                tid.clone()
                    .truncate_after_ignore_below_shift_normalize(0.95, 0.001, 10.0),
            )
        })
    });
    c.bench_function("step_wise", |b| {
        b.iter(|| {
            black_box(
                tid.clone()
                    .truncate_after(0.95)
                    .ignore_below(0.001)
                    .shift(10.0),
            )
        })
    });
}

criterion_group!(benches, tid_filter);
criterion_main!(benches);
