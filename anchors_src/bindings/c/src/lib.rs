use std::os::raw::c_char;
use std::ptr;
use std::ffi::CStr;
use chemical_elements::{ChemicalComposition, ElementSpecification};


#[derive(Default)]
pub struct CChemicalComposition(ChemicalComposition<'static>);


#[no_mangle]
pub extern "C" fn parse_formula(formula: *mut c_char, out: *mut *mut CChemicalComposition) -> u32 {
    unsafe {
        *out = ptr::null_mut();
    }
    unsafe {
        let formula_view = CStr::from_ptr(formula);
        let encoded_view = formula_view.to_string_lossy();

        match ChemicalComposition::parse(&encoded_view) {
            Ok(composition) => {
                *out = Box::into_raw(Box::new(CChemicalComposition(composition)));
                0
            },
            Err(parse_err) => {
                (parse_err as u32) + 1
            }
        }
    }
}

#[no_mangle]
pub extern "C" fn free_chemical_composition(slf: *mut CChemicalComposition) -> u32 {
    unsafe { drop(Box::from_raw(slf)) };
    0
}


impl CChemicalComposition {
    #[no_mangle]
    pub extern "C" fn new(out: *mut *mut CChemicalComposition) -> u32 {
        unsafe {
            *out = ptr::null_mut();
            *out = Box::into_raw(Box::new(CChemicalComposition::default()))
        }
        0
    }

    #[no_mangle]
    pub extern "C" fn mass(&self) -> f64 {
        self.0.mass()
    }

    #[no_mangle]
    pub extern "C" fn copy(&self, out: *mut *mut CChemicalComposition) -> u32 {
        unsafe { *out = ptr::null_mut(); }
        unsafe { *out = Box::into_raw(Box::new(CChemicalComposition(self.0.clone()))); }
        0
    }

    #[no_mangle]
    pub extern "C" fn get(&self, element_spec: *mut c_char) -> i32 {
        unsafe {
            let spec_view = CStr::from_ptr(element_spec);
            let encoded_view = spec_view.to_string_lossy();
            self.0.get_str(&encoded_view)
        }
    }

    #[no_mangle]
    pub extern "C" fn set(&mut self, element_spec: *mut c_char, count: i32) -> u32 {
        unsafe {
            let spec_view = CStr::from_ptr(element_spec);
            let encoded_view = spec_view.to_string_lossy();
            match encoded_view.parse::<ElementSpecification>() {
                Ok(spec) => {
                    self.0.set(spec, count);
                    0
                },
                Err(e) => {
                    e as u32 + 1
                }
            }
        }
    }

    #[no_mangle]
    pub extern "C" fn increment(&mut self, element_spec: *mut c_char, count: i32) -> u32 {
        unsafe {
            let spec_view = CStr::from_ptr(element_spec);
            let encoded_view = spec_view.to_string_lossy();
            match encoded_view.parse::<ElementSpecification>() {
                Ok(spec) => {
                    self.0.inc(spec, count);
                    0
                },
                Err(e) => {
                    e as u32 + 1
                }
            }
        }
    }

    #[no_mangle]
    pub extern "C" fn add(&mut self, other: &CChemicalComposition) -> u32 {
        self.0 += &other.0;
        0
    }

    #[no_mangle]
    pub extern "C" fn subtract(&mut self, other: &CChemicalComposition) -> u32 {
        self.0 -= &other.0;
        0
    }

    #[no_mangle]
    pub extern "C" fn scale(&mut self, other: i32) -> u32 {
        self.0 *= other;
        0
    }
}
