/// A script to dynamically generate the periodic table constant in crate::table.
/// Reads the isotopic distribution data from data/nist_mass.json.
use serde_json;
use serde_json::{Map, Value};
use std::fs;
use std::io::{Cursor, Read, Write};
use std::path;

fn load_from_file(path: &path::Path) -> Map<String, Value> {
    let mut reader = fs::File::open(path).unwrap();
    let mut buf: String = String::new();
    reader.read_to_string(&mut buf).unwrap();
    let val: Value = serde_json::from_str(&buf).unwrap();
    let m: Map<String, Value> = val.as_object().unwrap().clone();
    return m;
}

//' A Dummy copy of the implementation for convenience.
#[derive(Default)]
struct Isotope {
    pub mass: f64,
    pub abundance: f64,
    pub neutrons: u16,
    pub neutron_shift: i8,
}


fn write_prelude(buffer: &mut Cursor<Vec<u8>>) {
    write!(buffer, r#"
use lazy_static::lazy_static;
use crate::element::{{Element, Isotope, PeriodicTable}};


pub fn populate_periodic_table(table: &mut PeriodicTable) {{
"#).unwrap();
}


fn prepare_element(buffer: &mut Cursor<Vec<u8>>, symbol: &String, isotopes: &Value) {
    let mut isos: Vec<Isotope> = Vec::new();
    let iso = isotopes.as_object().unwrap();
    let mut reference_entry = Isotope {
        ..Default::default()
    };
    for (isonum, mass_abundance) in iso.iter() {
        let mass_abundance = mass_abundance.as_array().unwrap();
        let isonum: u16 = isonum.parse().unwrap();
        let x = Isotope {
            mass: mass_abundance[0].as_f64().unwrap(),
            abundance: mass_abundance[1].as_f64().unwrap(),
            neutrons: isonum,
            ..Default::default()
        };
        if x.abundance == 0.0 {
            continue;
        }
        if isonum == 0 {
            reference_entry = x;
        } else {
            isos.push(x);
        }
    }
    isos.sort_by_key(|i| (i.abundance * 100.0).round() as i32);
    let n = isos.len();
    if n > 0 {
        let most_abundant_neutron_count = isos[n - 1].neutrons;
        let most_abundant_mass = isos[n - 1].mass;
        let mut element_number = 0;
        for y in &mut isos {
            y.neutron_shift = ((y.neutrons as i32) - (most_abundant_neutron_count as i32)) as i8;
            if y.neutron_shift == 0 {
                element_number = y.neutrons;
            }
        }
        writeln!(buffer, "\n\tlet mut elt = Element {{ symbol: String::from(\"{}\"), most_abundant_isotope: {}, most_abundant_mass: {:.6}, element_number: {},..Default::default() }};",
                 symbol, most_abundant_neutron_count, most_abundant_mass, element_number).unwrap();
        for y in &isos {
            writeln!(buffer, "\telt.isotopes.insert({}, Isotope {{ mass: {:.6}, abundance: {:.6}, neutrons: {}, neutron_shift: {} }});",
                        y.neutrons, y.mass, y.abundance, y.neutrons, y.neutron_shift).unwrap();
        }
    } else {
        writeln!(buffer, "\tlet mut elt = Element {{ symbol: String::from(\"{}\"), most_abundant_isotope: {}, most_abundant_mass: {:.6}, ..Default::default() }};",
                 symbol, 0, reference_entry.mass).unwrap();
        writeln!(buffer, "\telt.isotopes.insert({}, Isotope {{ mass: {:.6}, abundance: {:.6}, neutrons: {}, neutron_shift: {} }});",
                    reference_entry.neutrons, reference_entry.mass, reference_entry.abundance, reference_entry.neutrons,
                    reference_entry.neutron_shift).unwrap();
    }
    writeln!(buffer, "\telt.index_isotopes();\n\ttable.add(elt);\n").unwrap();
}

fn main() {
    println!("cargo:rerun-if-changed=src/table.rs");
    let elements = load_from_file(path::Path::new("data/nist_mass.json"));
    let mut buffer = Cursor::new(Vec::new());
    write_prelude(&mut buffer);
    for (key, val) in elements.iter() {
        prepare_element(&mut buffer, key, val);
    }
    write!(&mut buffer, r#"}}

lazy_static! {{
    pub static ref PERIODIC_TABLE: PeriodicTable = {{
        let mut t = PeriodicTable::new();
        populate_periodic_table(&mut t);
        t
    }};
}}"#).unwrap();
    buffer.set_position(0);
    let mut out = String::new();
    buffer.read_to_string(&mut out).unwrap();
    let mut destination = fs::File::create("src/table.rs").unwrap();
    destination.write(out.as_bytes()).unwrap();
    process::Command::new("rustfmt").arg("src/table.rs").status().unwrap();
}
