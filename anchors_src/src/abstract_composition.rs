#![allow(unused)]
use std::collections::hash_map::{Iter as HashMapIter, IterMut as HashMapIterMut};
use std::fmt::Display;
use std::iter::{FromIterator, FusedIterator};
use std::marker::PhantomData;
use std::ops::{Add, AddAssign, Index, IndexMut, Mul, MulAssign, Neg, Sub, SubAssign};
use std::slice::{Iter as VecIter, IterMut as VecIterMut};
use std::str::FromStr;

#[cfg(feature = "serde")]
use serde_with::SerializeDisplay;

use crate::formula::FormulaParser;
use crate::{
    ChemicalCompositionLike, ChemicalCompositionMap, ChemicalCompositionVec, ElementSpecification,
    FormulaParserError, PeriodicTable, PERIODIC_TABLE,
};

#[derive(Debug, Clone)]
#[cfg_attr(feature = "serde", derive(SerializeDisplay))]
pub enum ChemicalComposition<'lifespan> {
    Vec(ChemicalCompositionVec<'lifespan>),
    Map(ChemicalCompositionMap<'lifespan>),
}

impl<'lifespan> PartialEq for ChemicalComposition<'lifespan> {
    #[inline]
    fn eq(&self, other: &ChemicalComposition<'lifespan>) -> bool {
        if self.len() != other.len() {
            false
        } else {
            self.iter()
                .all(|(k, v)| other.iter().any(|(k2, v2)| k2 == k && v2 == v))
        }
    }
}

impl Default for ChemicalComposition<'_> {
    fn default() -> Self {
        ChemicalComposition::Vec(ChemicalCompositionVec::default())
    }
}

impl<'transient, 'inner: 'transient, 'lifespan: 'inner> ChemicalComposition<'lifespan> {
    /// Create a new, empty [`ChemicalComposition`]
    pub fn new() -> ChemicalComposition<'lifespan> {
        Self::default()
    }

    #[inline]
    /// Access a specific element's count, or `0` if that element is absent
    /// from the composition
    pub fn get(&self, elt_spec: &ElementSpecification<'lifespan>) -> i32 {
        match self {
            ChemicalComposition::Vec(v) => v.get(elt_spec),
            ChemicalComposition::Map(m) => m.get(elt_spec),
        }
    }

    pub fn get_str(&self, sym: &str) -> i32 {
        match self {
            ChemicalComposition::Vec(v) => *v.index(sym),
            ChemicalComposition::Map(m) => *m.index(sym),
        }
    }

    #[inline]
    /// Set the count for a specific element. This will invalidate the mass cache.
    pub fn set(&mut self, elt_spec: ElementSpecification<'lifespan>, count: i32) {
        match self {
            ChemicalComposition::Vec(v) => v.set(elt_spec, count),
            ChemicalComposition::Map(m) => m.set(elt_spec, count),
        }
    }

    #[inline]
    /// Add some value to the count of the specified element. This will invalidate the
    /// mass cache.
    pub fn inc(&mut self, elt_spec: ElementSpecification<'lifespan>, count: i32) {
        match self {
            ChemicalComposition::Vec(v) => v.inc(elt_spec, count),
            ChemicalComposition::Map(m) => m.inc(elt_spec, count),
        }
    }

    #[inline]
    /// Add some value to the count of the specified element. This will invalidate the
    /// mass cache.
    pub fn inc_str(&mut self, elt_spec: &str, count: i32) {
        match self {
            ChemicalComposition::Vec(v) => *v.index_mut(elt_spec) += count,
            ChemicalComposition::Map(m) => m.inc_str(elt_spec, count),
        }
    }

    /*
    # Mass calculation Methods

    [`ChemicalComposition`] has three methods for computing the monoisotopic
    mass of the composition it represents to handle mutability.
    */

    #[inline]
    /**
    Explicitly calculate the mass of the chemical composition, ignoring
    any caching.
    */
    pub fn calc_mass(&self) -> f64 {
        match self {
            ChemicalComposition::Vec(v) => v.calc_mass(),
            ChemicalComposition::Map(m) => m.calc_mass(),
        }
    }

    #[inline]
    /**
    Get the mass of this chemical composition. If the mass cache
    has been populated, return that instead of repeating the calculation.
    */
    pub fn mass(&self) -> f64 {
        match self {
            ChemicalComposition::Vec(v) => v.mass(),
            ChemicalComposition::Map(m) => m.mass(),
        }
    }

    #[inline]
    /**
    Get the mass of this chemical composition, and cache it,
    or reuse the cached value. This requires mutability, so this method
    must be called explicitly.
    */
    pub fn fmass(&mut self) -> f64 {
        match self {
            ChemicalComposition::Vec(v) => v.fmass(),
            ChemicalComposition::Map(m) => m.fmass(),
        }
    }

    #[inline]
    /// Test if the mass cache is populated.
    pub fn has_mass_cached(&self) -> bool {
        match self {
            ChemicalComposition::Vec(v) => v.has_mass_cached(),
            ChemicalComposition::Map(m) => m.has_mass_cached(),
        }
    }

    #[inline]
    pub(crate) fn _add_from(&mut self, other: &'transient ChemicalCompositionVec<'lifespan>) {
        for (key, val) in other.iter() {
            self.inc(*key, *val);
        }
    }

    #[inline]
    pub(crate) fn _sub_from(&mut self, other: &'transient ChemicalCompositionVec<'lifespan>) {
        for (key, val) in other.iter() {
            self.inc(*key, -(*val));
        }
    }

    #[inline]
    pub(crate) fn _mul_by(&mut self, scaler: i32) {
        match self {
            ChemicalComposition::Vec(c) => c._mul_by(scaler),
            ChemicalComposition::Map(c) => c._mul_by(scaler),
        }
    }

    pub fn is_empty(&self) -> bool {
        match self {
            ChemicalComposition::Vec(i) => i.is_empty(),
            ChemicalComposition::Map(i) => i.is_empty(),
        }
    }

    pub fn len(&self) -> usize {
        match self {
            ChemicalComposition::Vec(i) => i.len(),
            ChemicalComposition::Map(i) => i.len(),
        }
    }

    pub fn iter(&'inner self) -> Iter<'transient, 'lifespan> {
        match self {
            ChemicalComposition::Vec(inner) => Iter::Vec(inner.iter()),
            ChemicalComposition::Map(inner) => Iter::Map(inner.iter()),
        }
    }

    pub fn iter_mut(&'inner mut self) -> IterMut<'transient, 'lifespan> {
        match self {
            ChemicalComposition::Vec(chemical_composition_vec) => {
                IterMut::Vec(chemical_composition_vec.iter_mut())
            }
            ChemicalComposition::Map(chemical_composition_map) => {
                IterMut::Map(chemical_composition_map.iter_mut())
            }
        }
    }

    pub fn into_map(self) -> Self {
        match self {
            ChemicalComposition::Vec(c) => Self::Map(c.into()),
            ChemicalComposition::Map(c) => Self::Map(c),
        }
    }

    pub fn into_vec(self) -> Self {
        match self {
            ChemicalComposition::Vec(c) => Self::Vec(c),
            ChemicalComposition::Map(c) => Self::Vec(c.into()),
        }
    }

    /**
    # Formula String Parsing

    The formula notation supports fixed isotopes following elements enclosed in `[]`
    and parenthesized groups enclosed in `()`.

    Parse a text formula into a [`ChemicalComposition`] using the
    global [`PeriodicTable`].

    If the formula fails to parse, a [`FormulaParserError`] is returned.

    ```rust
    # use chemical_elements::ChemicalComposition;
    let hexose: ChemicalComposition = "C6O6(H2)6".parse().unwrap();
    assert_eq!(hexose["C"], 6);
    assert_eq!(hexose["O"], 6);
    assert_eq!(hexose["H"], 12);
    ```
    */
    pub fn parse(string: &str) -> Result<Self, FormulaParserError> {
        string.parse()
    }

    #[inline]
    /**
    Parse a text formula into a [`ChemicalComposition`], using the specified
    [`PeriodicTable`], otherwise behaving identically to [`ChemicalComposition::parse`].
    */
    pub fn parse_with(
        string: &str,
        periodic_table: &'lifespan PeriodicTable,
    ) -> Result<ChemicalComposition<'lifespan>, FormulaParserError> {
        let mut parser = FormulaParser::default();
        parser.parse_formula_with_table_generic(string, periodic_table)
    }
}

impl<'a> Index<&ElementSpecification<'a>> for ChemicalComposition<'a> {
    type Output = i32;

    #[inline]
    fn index(&self, key: &ElementSpecification<'a>) -> &Self::Output {
        match self {
            ChemicalComposition::Vec(c) => c.index(key),
            ChemicalComposition::Map(c) => c.index(key),
        }
    }
}

impl<'a> IndexMut<&ElementSpecification<'a>> for ChemicalComposition<'a> {
    #[inline]
    fn index_mut(&mut self, key: &ElementSpecification<'a>) -> &mut Self::Output {
        match self {
            ChemicalComposition::Vec(c) => c.index_mut(key),
            ChemicalComposition::Map(c) => c.index_mut(key),
        }
    }
}

impl Index<&str> for ChemicalComposition<'_> {
    type Output = i32;

    #[inline]
    fn index(&self, key: &str) -> &Self::Output {
        match self {
            ChemicalComposition::Vec(c) => c.index(key),
            ChemicalComposition::Map(c) => c.index(key),
        }
    }
}

impl IndexMut<&str> for ChemicalComposition<'_> {
    #[inline]
    fn index_mut(&mut self, key: &str) -> &mut Self::Output {
        match self {
            ChemicalComposition::Vec(c) => c.index_mut(key),
            ChemicalComposition::Map(c) => c.index_mut(key),
        }
    }
}

impl<'lifespan> FromIterator<(&'lifespan str, i32)> for ChemicalComposition<'lifespan> {
    #[inline]
    fn from_iter<T>(iter: T) -> Self
    where
        T: IntoIterator<Item = (&'lifespan str, i32)>,
    {
        let mut composition = ChemicalComposition::new();
        for (k, v) in iter {
            let elt_spec = ElementSpecification::parse(k).unwrap();
            composition.inc(elt_spec, v);
        }
        composition
    }
}

impl<'transient, 'lifespan: 'transient>
    FromIterator<(&'lifespan ElementSpecification<'lifespan>, &'transient i32)>
    for ChemicalComposition<'lifespan>
{
    #[inline]
    fn from_iter<T>(iter: T) -> Self
    where
        T: IntoIterator<Item = (&'lifespan ElementSpecification<'lifespan>, &'transient i32)>,
    {
        let mut composition = ChemicalComposition::new();
        for (k, v) in iter {
            let elt_spec = *k;
            composition.inc(elt_spec, *v);
        }
        composition
    }
}

impl<'lifespan> From<Vec<(&'lifespan str, i32)>> for ChemicalComposition<'lifespan> {
    #[inline]
    fn from(elements: Vec<(&'lifespan str, i32)>) -> Self {
        let composition: ChemicalComposition<'lifespan> = elements.iter().cloned().collect();
        composition
    }
}

impl<'lifespan> From<Vec<(ElementSpecification<'lifespan>, i32)>>
    for ChemicalComposition<'lifespan>
{
    fn from(elements: Vec<(ElementSpecification<'lifespan>, i32)>) -> Self {
        let mut composition = ChemicalComposition::new();
        elements.iter().cloned().for_each(|(k, v)| {
            composition.inc(k, v);
        });
        composition
    }
}

#[derive(Debug)]
#[must_use = "iterators are lazy and do nothing unless consumed"]
pub enum Iter<'inner, 'lifespan: 'inner> {
    Vec(std::slice::Iter<'inner, (ElementSpecification<'lifespan>, i32)>),
    Map(std::collections::hash_map::Iter<'inner, ElementSpecification<'lifespan>, i32>),
}

impl<'inner, 'lifespan: 'inner> FusedIterator for Iter<'inner, 'lifespan> {}

impl<'inner, 'lifespan: 'inner> ExactSizeIterator for Iter<'inner, 'lifespan> {
    fn len(&self) -> usize {
        match self {
            Iter::Vec(iter) => iter.len(),
            Iter::Map(iter) => iter.len(),
        }
    }
}

impl<'inner, 'lifespan: 'inner> Iterator for Iter<'inner, 'lifespan> {
    type Item = (&'inner ElementSpecification<'lifespan>, &'inner i32);

    fn next(&mut self) -> Option<Self::Item> {
        self.next()
    }
}

impl<'inner, 'lifespan: 'inner> Iter<'inner, 'lifespan> {
    fn next(&mut self) -> Option<(&'inner ElementSpecification<'lifespan>, &'inner i32)> {
        match self {
            Iter::Vec(iter) => iter.next().map(|(k, v)| (k, v)),
            Iter::Map(iter) => iter.next(),
        }
    }
}

#[derive(Debug)]
#[must_use = "iterators are lazy and do nothing unless consumed"]
pub enum IterMut<'inner, 'lifespan: 'inner> {
    Vec(std::slice::IterMut<'inner, (ElementSpecification<'lifespan>, i32)>),
    Map(std::collections::hash_map::IterMut<'inner, ElementSpecification<'lifespan>, i32>),
}

impl<'inner, 'lifespan: 'inner> FusedIterator for IterMut<'inner, 'lifespan> {}

impl<'inner, 'lifespan: 'inner> ExactSizeIterator for IterMut<'inner, 'lifespan> {
    fn len(&self) -> usize {
        match self {
            IterMut::Vec(iter_mut) => iter_mut.len(),
            IterMut::Map(iter_mut) => iter_mut.len(),
        }
    }
}

impl<'inner, 'lifespan: 'inner> Iterator for IterMut<'inner, 'lifespan> {
    type Item = (&'inner ElementSpecification<'inner>, &'inner mut i32);

    fn next(&mut self) -> Option<Self::Item> {
        self.next()
    }
}

impl<'inner, 'lifespan: 'inner> IterMut<'inner, 'lifespan> {
    fn next(&mut self) -> Option<(&'inner ElementSpecification<'inner>, &'inner mut i32)> {
        match self {
            IterMut::Vec(iter_mut) => iter_mut.next().map(|(k, v)| (&*k, v)),
            IterMut::Map(iter_mut) => iter_mut.next(),
        }
    }
}

impl FromStr for ChemicalComposition<'_> {
    type Err = FormulaParserError;

    fn from_str(s: &str) -> Result<Self, Self::Err> {
        let mut parser = FormulaParser::default();
        parser.parse_formula_with_table_generic(s, &PERIODIC_TABLE)
    }
}

impl Display for ChemicalComposition<'_> {
    fn fmt(&self, f: &mut std::fmt::Formatter<'_>) -> std::fmt::Result {
        f.write_str(&crate::formula::to_formula(self))
    }
}

#[derive(Debug, Clone)]
pub enum ChemicalCompositionRef<'inner, 'lifespan: 'inner> {
    Vec(&'inner ChemicalCompositionVec<'lifespan>),
    Map(&'inner ChemicalCompositionMap<'lifespan>),
}

impl PartialEq for ChemicalCompositionRef<'_, '_> {
    #[inline]
    fn eq(&self, other: &Self) -> bool {
        if self.len() != other.len() {
            false
        } else {
            self.iter()
                .all(|(k, v)| other.iter().any(|(k2, v2)| k2 == k && v2 == v))
        }
    }
}

impl<'inner, 'lifespan: 'inner> ChemicalCompositionRef<'inner, 'lifespan> {
    #[inline]
    /// Access a specific element's count, or `0` if that element is absent
    /// from the composition
    pub fn get(&self, elt_spec: &ElementSpecification<'lifespan>) -> i32 {
        match self {
            ChemicalCompositionRef::Vec(v) => v.get(elt_spec),
            ChemicalCompositionRef::Map(m) => m.get(elt_spec),
        }
    }

    #[inline]
    /**
    Explicitly calculate the mass of the chemical composition, ignoring
    any caching.
    */
    pub fn calc_mass(&self) -> f64 {
        match self {
            ChemicalCompositionRef::Vec(v) => v.calc_mass(),
            ChemicalCompositionRef::Map(m) => m.calc_mass(),
        }
    }

    #[inline]
    /**
    Get the mass of this chemical composition. If the mass cache
    has been populated, return that instead of repeating the calculation.
    */
    pub fn mass(&self) -> f64 {
        match self {
            ChemicalCompositionRef::Vec(v) => v.mass(),
            ChemicalCompositionRef::Map(m) => m.mass(),
        }
    }

    #[inline]
    /// Test if the mass cache is populated.
    pub fn has_mass_cached(&self) -> bool {
        match self {
            ChemicalCompositionRef::Vec(v) => v.has_mass_cached(),
            ChemicalCompositionRef::Map(m) => m.has_mass_cached(),
        }
    }

    pub fn is_empty(&self) -> bool {
        match self {
            ChemicalCompositionRef::Vec(i) => i.is_empty(),
            ChemicalCompositionRef::Map(i) => i.is_empty(),
        }
    }

    pub fn len(&self) -> usize {
        match self {
            ChemicalCompositionRef::Vec(i) => i.len(),
            ChemicalCompositionRef::Map(i) => i.len(),
        }
    }

    pub fn iter(&'inner self) -> Iter<'inner, 'lifespan> {
        match self {
            ChemicalCompositionRef::Vec(chemical_composition_vec) => {
                Iter::Vec(chemical_composition_vec.iter())
            }
            ChemicalCompositionRef::Map(chemical_composition_map) => {
                Iter::Map(chemical_composition_map.iter())
            }
        }
    }
}

impl<'a, 'b: 'a> Index<&ElementSpecification<'b>> for ChemicalCompositionRef<'a, 'b> {
    type Output = i32;

    fn index(&self, index: &ElementSpecification<'b>) -> &Self::Output {
        match self {
            ChemicalCompositionRef::Vec(c) => c.index(index),
            ChemicalCompositionRef::Map(c) => c.index(index),
        }
    }
}

impl<'a, 'b: 'a> Index<&str> for ChemicalCompositionRef<'a, 'b> {
    type Output = i32;

    #[inline]
    fn index(&self, key: &str) -> &Self::Output {
        match self {
            Self::Vec(c) => c.index(key),
            Self::Map(c) => c.index(key),
        }
    }
}

impl<'inner, 'lifespan: 'inner> From<&'inner ChemicalComposition<'lifespan>>
    for ChemicalCompositionRef<'inner, 'lifespan>
{
    fn from(value: &'inner ChemicalComposition<'lifespan>) -> Self {
        match value {
            ChemicalComposition::Vec(v) => Self::Vec(v),
            ChemicalComposition::Map(m) => Self::Map(m),
        }
    }
}

impl<'inner, 'lifespan: 'inner> From<&'inner ChemicalCompositionVec<'lifespan>>
    for ChemicalCompositionRef<'inner, 'lifespan>
{
    fn from(value: &'inner ChemicalCompositionVec<'lifespan>) -> Self {
        ChemicalCompositionRef::Vec(value)
    }
}

impl<'inner, 'lifespan: 'inner> From<&'inner ChemicalCompositionMap<'lifespan>>
    for ChemicalCompositionRef<'inner, 'lifespan>
{
    fn from(value: &'inner ChemicalCompositionMap<'lifespan>) -> Self {
        ChemicalCompositionRef::Map(value)
    }
}

#[cfg(test)]
mod test {
    use super::*;

    #[test]
    fn test_parse() {
        let case: ChemicalComposition = "H2O".parse().expect("Failed to parse");
        eprintln!("{}", case);
        let mut ctrl = ChemicalComposition::new();
        ctrl.set(("O").parse::<ElementSpecification>().unwrap(), 1);
        ctrl.set(("H").parse::<ElementSpecification>().unwrap(), 2);
        eprintln!("{}", ctrl);
        assert_eq!(case, ctrl);
        let case: ChemicalComposition = "H2O1".parse().expect("Failed to parse");
        assert_eq!(case, ctrl);
        let case: ChemicalComposition = "(H)2O1".parse().expect("Failed to parse");
        assert_eq!(case, ctrl);
    }

    #[test]
    fn test_from_vec_str() {
        let case = ChemicalComposition::from(vec![("O", 1), ("H", 2)]);
        let mut ctrl = ChemicalComposition::new();
        ctrl.set(("O").parse::<ElementSpecification>().unwrap(), 1);
        ctrl.set(("H").parse::<ElementSpecification>().unwrap(), 2);
        assert_eq!(case, ctrl);
    }

    #[test]
    fn test_from_vec_elt_spec() {
        let hydrogen = ("H").parse::<ElementSpecification>().unwrap();
        let oxygen = ("O").parse::<ElementSpecification>().unwrap();
        let case = ChemicalComposition::from(vec![(oxygen, 1), (hydrogen, 2)]);
        let mut ctrl = ChemicalComposition::new();

        let hydrogen = ("H").parse::<ElementSpecification>().unwrap();
        let oxygen = ("O").parse::<ElementSpecification>().unwrap();
        ctrl.set(oxygen, 1);
        ctrl.set(hydrogen, 2);
        assert_eq!(case, ctrl);
    }

    #[test]
    fn test_mass() {
        let case = ChemicalComposition::from(vec![("O", 1), ("H", 2)]);
        let mass = 18.0105646837;

        let calc = case.mass();
        assert!((mass - calc).abs() < 1e-6);
    }

    #[test]
    fn test_fmass() {
        let mut case = ChemicalComposition::from(vec![("O", 1), ("H", 2)]);
        let mass = 18.0105646837;

        let calc = case.fmass();
        assert!((mass - calc).abs() < 1e-6);
    }

    #[test]
    fn test_add() {
        let case = ChemicalComposition::from(vec![("O", 1), ("H", 2)]);
        let ctrl = ChemicalComposition::from(vec![("O", 2), ("H", 4)]);

        let combo = &case + &case;
        assert_eq!(ctrl, combo);
    }

    #[test]
    fn test_sub() {
        let case = ChemicalComposition::from(vec![("O", 2), ("H", 4)]);
        let ctrl = ChemicalComposition::from(vec![("O", 1), ("H", 2)]);

        let combo = &case - &ctrl;
        assert_eq!(ctrl, combo);
    }

    #[test]
    fn test_mul() {
        let case = ChemicalComposition::from(vec![("O", 1), ("H", 2)]);
        let ctrl = ChemicalComposition::from(vec![("O", 2), ("H", 4)]);

        let combo = &case * 2;
        assert_eq!(ctrl, combo);
    }
}
