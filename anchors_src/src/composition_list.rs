#![allow(unused)]
use std::fmt::Display;
use std::ops::{Add, AddAssign, Index, IndexMut, Mul, MulAssign, Neg, Sub, SubAssign};
use std::slice::{Iter, IterMut};
use std::str::FromStr;

#[cfg(feature = "serde")]
use serde_with::{DeserializeFromStr, SerializeDisplay};

use crate::element_specification::{ElementSpecification, ElementSpecificationLike};
use crate::formula::FormulaParser;
use crate::{FormulaParserError, PeriodicTable, PERIODIC_TABLE};

#[derive(Debug, Clone, Default)]
#[cfg_attr(feature = "serde", derive(DeserializeFromStr, SerializeDisplay))]
/**
Represents a collection of element-count pairs as found in a flat
chemical formula. Built atop [`std::collections::HashMap`], and
support addition and subtraction with other instances of the same type
and multiplication by integers.
*/
pub struct ChemicalCompositionVec<'a> {
    pub composition: Vec<(ElementSpecification<'a>, i32)>,
    mass_cache: Option<f64>,
}

/**
# Basic Operations
*/
impl<'lifespan> ChemicalCompositionVec<'lifespan> {
    /// Create a new, empty [`ChemicalCompositionVec`]
    pub fn new() -> ChemicalCompositionVec<'lifespan> {
        ChemicalCompositionVec {
            ..Default::default()
        }
    }

    fn find(&self, elt_spec: &ElementSpecification<'lifespan>) -> Option<usize> {
        let found = self
            .composition
            .iter()
            .enumerate()
            .find(|(_, (e, _))| elt_spec == e);
        if let Some((index, _)) = found {
            Some(index)
        } else {
            None
        }
    }

    fn find_str(&self, elt_str: &str) -> &i32 {
        if let Some((_, c)) = self.composition.iter().find(|(e, _)| e == elt_str) {
            c
        } else {
            &ZERO
        }
    }

    pub fn get_str(&self, elt_str: &str) -> i32 {
        *self.find_str(elt_str)
    }

    #[inline]
    /// Access a specific element's count, or `0` if that element is absent
    /// from the composition
    pub fn get(&self, elt_spec: &ElementSpecification<'lifespan>) -> i32 {
        if let Some((_, c)) = self.composition.iter().find(|(e, _)| elt_spec == e) {
            *c
        } else {
            0
        }
    }

    #[inline]
    /// Set the count for a specific element. This will invalidate the mass cache.
    pub fn set(&mut self, elt_spec: ElementSpecification<'lifespan>, count: i32) {
        if let Some(i) = self.find(&elt_spec) {
            self.composition[i].1 = count
        } else {
            self.composition.push((elt_spec, count));
        }
        self.mass_cache = None;
    }

    #[inline]
    /// Add some value to the count of the specified element. This will invalidate the
    /// mass cache.
    pub fn inc(&mut self, elt_spec: ElementSpecification<'lifespan>, count: i32) {
        let i = self.get(&elt_spec);
        self.set(elt_spec, i + count);
    }

    #[inline]
    pub fn iter(&self) -> Iter<(ElementSpecification<'lifespan>, i32)> {
        (self.composition).iter()
    }

    pub fn iter_mut(&mut self) -> IterMut<(ElementSpecification<'lifespan>, i32)> {
        self.mass_cache = None;
        self.composition.iter_mut()
    }

    pub(crate) fn get_ref(&self) -> &[(ElementSpecification<'lifespan>, i32)] {
        &self.composition
    }

    #[allow(unused)]
    pub(crate) fn get_mut(&mut self) -> &mut [(ElementSpecification<'lifespan>, i32)] {
        &mut self.composition
    }

    /**
    Return [`self.composition`], consuming the object
    */
    pub fn into_inner(self) -> Vec<(ElementSpecification<'lifespan>, i32)> {
        self.composition
    }

    /*
    # Mass calculation Methods

    [`ChemicalCompositionVec`] has three methods for computing the monoisotopic
    mass of the composition it represents to handle mutability.
    */

    #[inline]
    /**
    Explicitly calculate the mass of the chemical composition, ignoring
    any caching.
    */
    pub fn calc_mass(&self) -> f64 {
        let mut total = 0.0;
        for (elt_spec, count) in &self.composition {
            let element = elt_spec.element;
            total = if elt_spec.isotope == 0 {
                element.most_abundant_mass
            } else {
                element.isotopes[&elt_spec.isotope].mass
            }
            .mul_add(*count as f64, total);
        }
        total
    }

    #[inline]
    /**
    Get the mass of this chemical composition. If the mass cache
    has been populated, return that instead of repeating the calculation.
    */
    pub fn mass(&self) -> f64 {
        match self.mass_cache {
            None => self.calc_mass(),
            Some(val) => val,
        }
    }

    #[inline]
    /**
    Get the mass of this chemical composition, and cache it,
    or reuse the cached value. This requires mutability, so this method
    must be called explicitly.
    */
    pub fn fmass(&mut self) -> f64 {
        match self.mass_cache {
            None => {
                let total = self.mass();
                self.mass_cache = Some(total);
                total
            }
            Some(val) => val,
        }
    }

    #[inline]
    /// Test if the mass cache is populated.
    pub fn has_mass_cached(&self) -> bool {
        self.mass_cache.is_some()
    }
}

const ZERO: i32 = 0;

impl<'lifespan> Index<&ElementSpecification<'lifespan>> for ChemicalCompositionVec<'lifespan> {
    type Output = i32;

    #[inline]
    fn index(&self, key: &ElementSpecification<'lifespan>) -> &Self::Output {
        if let Some(i) = self.find(key) {
            let (_, out) = self.composition.get(i).unwrap();
            out
        } else {
            &ZERO
        }
    }
}

impl<'lifespan> IndexMut<&ElementSpecification<'lifespan>> for ChemicalCompositionVec<'lifespan> {
    #[inline]
    fn index_mut(&mut self, key: &ElementSpecification<'lifespan>) -> &mut Self::Output {
        self.mass_cache = None;
        if let Some(i) = self.find(key) {
            let (_, out) = self.composition.get_mut(i).unwrap();
            out
        } else {
            self.set(*key, 0);
            let i = self.composition.len() - 1;
            let (_, out) = self.composition.get_mut(i).unwrap();
            out
        }
    }
}

impl Index<&str> for ChemicalCompositionVec<'_> {
    type Output = i32;

    /**
    Using the [`Index`] trait to access element counts with a [`&str`] is more
    flexible than [`ChemicalCompositionVec::get_str`], supporting fixed
    isotope strings, but does slightly more string checking up-front.
    */
    #[inline]
    fn index(&self, key: &str) -> &Self::Output {
        match ElementSpecification::quick_check_str(key) {
            ElementSpecificationLike::Yes => self.find_str(key),
            ElementSpecificationLike::No => &ZERO,
            ElementSpecificationLike::Maybe => {
                let spec = key.parse::<ElementSpecification>();
                match spec {
                    Ok(spec) => self.index(&spec),
                    Err(_err) => &ZERO,
                }
            }
        }
    }
}

impl IndexMut<&str> for ChemicalCompositionVec<'_> {
    /** Using [`IndexMut`] with a [`&str`] will always construct a new
    [`ElementSpecification`] from the provided `&str`, in order to
    maintain the contract with with [`std::ops::Index`]
    */
    #[inline]
    fn index_mut(&mut self, key: &str) -> &mut Self::Output {
        self.mass_cache = None;
        let key = key.parse::<ElementSpecification>().unwrap();
        let entry = self.index_mut(&key);
        entry
    }
}

impl<'lifespan, 'transient, 'outer: 'transient> ChemicalCompositionVec<'lifespan> {
    #[inline]
    pub(crate) fn _add_from(
        &'outer mut self,
        other: &'transient ChemicalCompositionVec<'lifespan>,
    ) {
        for (key, val) in other.iter() {
            self.inc(*key, *val);
        }
    }

    #[inline]
    pub(crate) fn _sub_from(
        &'outer mut self,
        other: &'transient ChemicalCompositionVec<'lifespan>,
    ) {
        for (key, val) in other.iter() {
            self.inc(*key, -(*val));
        }
    }

    #[inline]
    pub(crate) fn _mul_by(&mut self, scaler: i32) {
        self.mass_cache = None;
        self.composition.iter_mut().for_each(|(_, v)| {
            *v *= scaler;
        })
    }

    #[inline]
    pub fn len(&self) -> usize {
        self.composition.len()
    }

    #[inline]
    pub fn is_empty(&self) -> bool {
        self.composition.is_empty()
    }
}

impl<'lifespan> PartialEq<ChemicalCompositionVec<'lifespan>> for ChemicalCompositionVec<'lifespan> {
    #[inline]
    fn eq(&self, other: &ChemicalCompositionVec<'lifespan>) -> bool {
        if self.len() != other.len() {
            false
        } else {
            self.iter()
                .all(|(k, v)| other.iter().any(|(k2, v2)| k2 == k && v2 == v))
        }
    }
}

impl<'lifespan> FromIterator<(ElementSpecification<'lifespan>, i32)>
    for ChemicalCompositionVec<'lifespan>
{
    #[inline]
    fn from_iter<T>(iter: T) -> Self
    where
        T: IntoIterator<Item = (ElementSpecification<'lifespan>, i32)>,
    {
        let mut composition = ChemicalCompositionVec::new();
        for (k, v) in iter {
            composition.inc(k, v);
        }
        composition
    }
}

impl<'lifespan> FromIterator<(&'lifespan str, i32)> for ChemicalCompositionVec<'lifespan> {
    #[inline]
    fn from_iter<T>(iter: T) -> Self
    where
        T: IntoIterator<Item = (&'lifespan str, i32)>,
    {
        let mut composition = ChemicalCompositionVec::new();
        for (k, v) in iter {
            let elt_spec = ElementSpecification::parse(k).unwrap();
            composition.inc(elt_spec, v);
        }
        composition
    }
}

impl<'lifespan> From<Vec<(&'lifespan str, i32)>> for ChemicalCompositionVec<'lifespan> {
    #[inline]
    fn from(elements: Vec<(&'lifespan str, i32)>) -> Self {
        elements.iter().cloned().collect()
    }
}

impl<'lifespan> From<Vec<(ElementSpecification<'lifespan>, i32)>>
    for ChemicalCompositionVec<'lifespan>
{
    fn from(elements: Vec<(ElementSpecification<'lifespan>, i32)>) -> Self {
        elements.into_iter().collect()
    }
}

impl FromStr for ChemicalCompositionVec<'_> {
    type Err = FormulaParserError;

    fn from_str(s: &str) -> Result<Self, Self::Err> {
        let mut parser = FormulaParser::default();
        parser.parse_formula_with_table_generic(s, &PERIODIC_TABLE)
    }
}

impl Display for ChemicalCompositionVec<'_> {
    fn fmt(&self, f: &mut std::fmt::Formatter<'_>) -> std::fmt::Result {
        f.write_str(&crate::formula::to_formula(self))
    }
}

#[cfg(test)]
mod test {
    use super::*;

    // #[test]
    // fn test_parse() {
    //     let case = ChemicalComposition::parse("H2O").expect("Failed to parse");
    //     let mut ctrl = ChemicalComposition::new();
    //     ctrl.set(("O").parse::<ElementSpecification>().unwrap(), 1);
    //     ctrl.set(("H").parse::<ElementSpecification>().unwrap(), 2);
    //     assert_eq!(case, ctrl);
    //     let case = ChemicalComposition::parse("H2O1").expect("Failed to parse");
    //     assert_eq!(case, ctrl);
    //     let case = ChemicalComposition::parse("(H)2O1").expect("Failed to parse");
    //     assert_eq!(case, ctrl);
    // }

    #[test]
    fn test_from_vec_str() {
        let case = ChemicalCompositionVec::from(vec![("O", 1), ("H", 2)]);
        let mut ctrl = ChemicalCompositionVec::new();
        ctrl.set(("O").parse::<ElementSpecification>().unwrap(), 1);
        ctrl.set(("H").parse::<ElementSpecification>().unwrap(), 2);
        assert_eq!(case, ctrl);
    }

    #[test]
    fn test_from_vec_elt_spec() {
        let hydrogen = ("H").parse::<ElementSpecification>().unwrap();
        let oxygen = ("O").parse::<ElementSpecification>().unwrap();
        let case = ChemicalCompositionVec::from(vec![(oxygen, 1), (hydrogen, 2)]);
        let mut ctrl = ChemicalCompositionVec::new();

        let hydrogen = ("H").parse::<ElementSpecification>().unwrap();
        let oxygen = ("O").parse::<ElementSpecification>().unwrap();
        ctrl.set(oxygen, 1);
        ctrl.set(hydrogen, 2);
        assert_eq!(case, ctrl);
    }

    #[test]
    fn test_mass() {
        let case = ChemicalCompositionVec::from(vec![("O", 1), ("H", 2)]);
        let mass = 18.0105646837;

        let calc = case.mass();
        assert!((mass - calc).abs() < 1e-6);
    }

    #[test]
    fn test_fmass() {
        let mut case: ChemicalCompositionVec = (vec![("O", 1), ("H", 2)]).into();
        let mass = 18.0105646837;

        let calc = case.fmass();
        assert!((mass - calc).abs() < 1e-6);
    }

    #[test]
    fn test_add() {
        let case = ChemicalCompositionVec::from(vec![("O", 1), ("H", 2)]);
        let ctrl = ChemicalCompositionVec::from(vec![("O", 2), ("H", 4)]);

        let combo = &case + &case;
        assert_eq!(ctrl, combo);
    }

    #[test]
    fn test_sub() {
        let case = ChemicalCompositionVec::from(vec![("O", 2), ("H", 4)]);
        let ctrl = ChemicalCompositionVec::from(vec![("O", 1), ("H", 2)]);

        let combo = &case - &ctrl;
        assert_eq!(ctrl, combo);
    }

    #[test]
    fn test_mul() {
        let case = ChemicalCompositionVec::from(vec![("O", 1), ("H", 2)]);
        let ctrl = ChemicalCompositionVec::from(vec![("O", 2), ("H", 4)]);

        let combo = &case * 2;
        assert_eq!(ctrl, combo);
    }
}
