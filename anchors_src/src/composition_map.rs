// #![allow(unused)]
use std::collections::hash_map::{HashMap, Iter, IterMut};
use std::fmt::Display;
use std::iter::FromIterator;
use std::ops::{Index, IndexMut};
use std::str::FromStr;

use fnv::FnvBuildHasher;

#[cfg(feature = "serde")]
use serde_with::{DeserializeFromStr, SerializeDisplay};

use crate::element_specification::{ElementSpecification, ElementSpecificationLike};
use crate::formula::FormulaParserError;

#[derive(Debug, Clone, Default)]
#[cfg_attr(feature = "serde", derive(SerializeDisplay, DeserializeFromStr))]
/**
Represents a collection of element-count pairs as found in a flat
chemical formula. Built atop [`std::collections::HashMap`], and
support addition and subtraction with other instances of the same type
and multiplication by integers.
*/
pub struct ChemicalCompositionMap<'a> {
    pub composition: HashMap<ElementSpecification<'a>, i32, FnvBuildHasher>,
    mass_cache: Option<f64>,
}

/**
# Basic Operations
*/
impl<'lifespan> ChemicalCompositionMap<'lifespan> {
    /// Create a new, empty [`ChemicalCompositionMap`]
    pub fn new() -> ChemicalCompositionMap<'lifespan> {
        ChemicalCompositionMap {
            ..Default::default()
        }
    }

    #[inline]
    /// Access a specific element's count, or `0` if that element is absent
    /// from the composition
    pub fn get(&self, elt_spec: &ElementSpecification<'lifespan>) -> i32 {
        match self.composition.get(elt_spec) {
            Some(i) => *i,
            None => 0,
        }
    }

    #[inline]
    /// Set the count for a specific element. This will invalidate the mass cache.
    pub fn set(&mut self, elt_spec: ElementSpecification<'lifespan>, count: i32) {
        self.composition.insert(elt_spec, count);
        self.mass_cache = None;
    }

    #[inline]
    /// Add some value to the count of the specified element. This will invalidate the
    /// mass cache.
    pub fn inc(&mut self, elt_spec: ElementSpecification<'lifespan>, count: i32) {
        let i = self.get(&elt_spec);
        self.set(elt_spec, i + count);
    }

    #[inline]
    pub fn iter(&self) -> Iter<ElementSpecification<'lifespan>, i32> {
        (self.composition).iter()
    }

    #[inline]
    pub fn iter_mut(&mut self) -> IterMut<ElementSpecification<'lifespan>, i32> {
        self.mass_cache = None;
        (self.composition).iter_mut()
    }

    /**
    Return [`ChemicalCompositionMap::composition`], consuming the object
    */
    pub fn into_inner(self) -> HashMap<ElementSpecification<'lifespan>, i32, FnvBuildHasher> {
        self.composition
    }

    /*
    # Mass calculation Methods

    [`ChemicalCompositionMap`] has three methods for computing the monoisotopic
    mass of the composition it represents to handle mutability.
    */

    #[inline]
    /**
    Explicitly calculate the mass of the chemical composition, ignoring
    any caching.
    */
    pub fn calc_mass(&self) -> f64 {
        let mut total = 0.0;
        for (elt_spec, count) in &self.composition {
            let element = elt_spec.element;
            total = if elt_spec.isotope == 0 {
                element.most_abundant_mass
            } else {
                element.isotopes[&elt_spec.isotope].mass
            }
            .mul_add(*count as f64, total);
        }
        total
    }

    #[inline]
    /**
    Get the mass of this chemical composition. If the mass cache
    has been populated, return that instead of repeating the calculation.
    */
    pub fn mass(&self) -> f64 {
        match self.mass_cache {
            None => self.calc_mass(),
            Some(val) => val,
        }
    }

    #[inline]
    /**
    Get the mass of this chemical composition, and cache it,
    or reuse the cached value. This requires mutability, so this method
    must be called explicitly.
    */
    pub fn fmass(&mut self) -> f64 {
        match self.mass_cache {
            None => {
                let total = self.mass();
                self.mass_cache = Some(total);
                total
            }
            Some(val) => val,
        }
    }

    #[inline]
    /// Test if the mass cache is populated.
    pub fn has_mass_cached(&self) -> bool {
        self.mass_cache.is_some()
    }
}

impl<'lifespan, 'transient, 'outer: 'transient> ChemicalCompositionMap<'lifespan> {
    #[inline]
    pub(crate) fn _add_from(
        &'outer mut self,
        other: &'transient ChemicalCompositionMap<'lifespan>,
    ) {
        for (key, val) in other.composition.iter() {
            self.inc(*key, *val);
        }
    }

    #[inline]
    pub(crate) fn _sub_from(
        &'outer mut self,
        other: &'transient ChemicalCompositionMap<'lifespan>,
    ) {
        for (key, val) in other.composition.iter() {
            self.inc(*key, -(*val));
        }
    }

    #[inline]
    pub(crate) fn _mul_by(&mut self, scaler: i32) {
        self.iter_mut().for_each(|(_, v)| *v *= scaler);
    }

    #[inline]
    pub fn len(&self) -> usize {
        self.composition.len()
    }

    #[inline]
    pub fn is_empty(&self) -> bool {
        self.composition.is_empty()
    }
}

impl<'lifespan> Index<&ElementSpecification<'lifespan>> for ChemicalCompositionMap<'lifespan> {
    type Output = i32;

    #[inline]
    fn index(&self, key: &ElementSpecification<'lifespan>) -> &Self::Output {
        self.composition.get(key).unwrap_or(&ZERO)
    }
}

impl<'lifespan> IndexMut<&ElementSpecification<'lifespan>> for ChemicalCompositionMap<'lifespan> {
    #[inline]
    fn index_mut(&mut self, key: &ElementSpecification<'lifespan>) -> &mut Self::Output {
        self.mass_cache = None;
        let entry = self.composition.entry(*key);
        entry.or_insert(0)
    }
}

/**
# String-based accessors

When performing routine manipulations of a [`ChemicalCompositionMap`] it may
be both more efficient and easier to write those operations using strings
or string literals, rather than instantiating an [`ElementSpecification`]
for each operation. These methods take advantage of the way
[`HashMap::get`](std::collections::HashMap::get) is parameterized to avoid
constructing a new [`ElementSpecification`] unless absolutely necessary.
*/
impl ChemicalCompositionMap<'_> {
    /// Get the quantity of an element by its symbol string.
    ///
    /// This method does not support fixed isotopes, but may
    /// be faster as it skips element specification parsing and
    /// [`PeriodicTable`](crate::PeriodicTable) lookup.
    pub fn get_str(&self, elt: &str) -> i32 {
        match self.find_str(elt) {
            Some(c) => *c,
            None => 0,
        }
    }

    /// Find the count of the plain (no fixed isotope) entry whose symbol is `elt`.
    ///
    /// The map cannot be probed with a bare `&str`: keys hash and borrow as their
    /// symbol only, so such a probe may land on a fixed-isotope entry of the same element.
    fn find_str(&self, elt: &str) -> Option<&i32> {
        self.composition
            .iter()
            .find(|(k, _)| k.isotope == 0 && k.element.symbol == elt)
            .map(|(_, v)| v)
    }

    /**
    Get a mutable reference of quantity of an element by its symbol string,
    if it exists. This method invalidates the mass cache.

    This method does not support fixed isotopes, but may
    be faster as it skips element specification parsing and
    [`PeriodicTable`](crate::PeriodicTable) lookup.

    # Note
    While the borrow checker should stop you from mutating the object
    while the borrowed count is still alive, unsafe use may allow the
    [`ChemicalComposition.mass_cache`] to get out of sync with updates
    to element counts.
    */
    pub fn get_str_mut(&mut self, elt: &str) -> Option<&mut i32> {
        self.mass_cache = None;
        self.composition
            .iter_mut()
            .find(|(k, _)| k.isotope == 0 && k.element.symbol == elt)
            .map(|(_, v)| v)
    }

    /// Increment of quantity of an element by its symbol string,
    /// if it exists. This method invalidates the mass cache.
    ///
    /// This method does not support fixed isotopes, but may
    /// be faster as it skips element specification parsing and
    /// [`PeriodicTable`](crate::PeriodicTable) lookup, if the element is already in
    /// the composition. Otherwise, the string is parsed and a new
    /// [`ElementSpecification`] is created using the default [`PeriodicTable`](crate::PeriodicTable).
    ///
    /// # Panics
    /// If a new [`ElementSpecification`] needs to be created and fails,
    /// this method will panic.
    pub fn inc_str(&mut self, elt: &str, count: i32) {
        self.mass_cache = None;
        if let Some(val) = self.get_str_mut(elt) {
            *val += count;
        } else {
            match ElementSpecification::parse(elt) {
                Ok(spec) => self.inc(spec, count),
                Err(err) => {
                    panic!("Failed to parse element specification {} while incrementing composition: {:?}", elt, err)
                }
            }
        }
    }
}

const ZERO: i32 = 0;

impl Index<&str> for ChemicalCompositionMap<'_> {
    type Output = i32;

    /**
    Using the [`Index`] trait to access element counts with a [`&str`] is more
    flexible than [`ChemicalCompositionMap::get_str`], supporting fixed
    isotope strings, but does slightly more string checking up-front.
    */
    #[inline]
    fn index(&self, key: &str) -> &Self::Output {
        match ElementSpecification::quick_check_str(key) {
            ElementSpecificationLike::Yes => self.find_str(key).unwrap_or(&ZERO),
            ElementSpecificationLike::No => &ZERO,
            ElementSpecificationLike::Maybe => {
                let spec = key.parse::<ElementSpecification>();
                match spec {
                    Ok(spec) => self.composition.get(&spec).unwrap_or(&ZERO),
                    Err(_err) => &ZERO,
                }
            }
        }
    }
}

impl IndexMut<&str> for ChemicalCompositionMap<'_> {
    /** Using [`IndexMut`] with a [`&str`] will always construct a new
    [`ElementSpecification`] from the provided `&str`, in order to
    maintain the contract with with [`std::ops::Index`]
    */
    #[inline]
    fn index_mut(&mut self, key: &str) -> &mut Self::Output {
        self.mass_cache = None;
        let key = key.parse::<ElementSpecification>().unwrap();
        let entry = self.composition.entry(key);
        entry.or_insert(0)
    }
}

impl<'lifespan> PartialEq<ChemicalCompositionMap<'lifespan>> for ChemicalCompositionMap<'lifespan> {
    #[inline]
    fn eq(&self, other: &ChemicalCompositionMap<'lifespan>) -> bool {
        self.composition == other.composition
    }
}

impl<'lifespan> FromIterator<(ElementSpecification<'lifespan>, i32)>
    for ChemicalCompositionMap<'lifespan>
{
    #[inline]
    fn from_iter<T>(iter: T) -> Self
    where
        T: IntoIterator<Item = (ElementSpecification<'lifespan>, i32)>,
    {
        let mut composition = ChemicalCompositionMap::new();
        for (k, v) in iter {
            composition.inc(k, v);
        }
        composition
    }
}

impl<'lifespan> FromIterator<(&'lifespan str, i32)> for ChemicalCompositionMap<'lifespan> {
    #[inline]
    fn from_iter<T>(iter: T) -> Self
    where
        T: IntoIterator<Item = (&'lifespan str, i32)>,
    {
        let mut composition = ChemicalCompositionMap::new();
        for (k, v) in iter {
            let elt_spec = ElementSpecification::parse(k).unwrap();
            composition.inc(elt_spec, v);
        }
        composition
    }
}

impl<'lifespan> From<Vec<(&'lifespan str, i32)>> for ChemicalCompositionMap<'lifespan> {
    #[inline]
    fn from(elements: Vec<(&'lifespan str, i32)>) -> Self {
        elements.iter().cloned().collect()
    }
}

impl<'lifespan> From<Vec<(ElementSpecification<'lifespan>, i32)>>
    for ChemicalCompositionMap<'lifespan>
{
    fn from(elements: Vec<(ElementSpecification<'lifespan>, i32)>) -> Self {
        elements.iter().cloned().collect()
    }
}

impl FromStr for ChemicalCompositionMap<'_> {
    type Err = FormulaParserError;

    fn from_str(s: &str) -> Result<Self, Self::Err> {
        let mut parser = crate::formula::FormulaParser::default();
        parser.parse_formula_with_table_generic(s, &crate::PERIODIC_TABLE)
    }
}

impl Display for ChemicalCompositionMap<'_> {
    fn fmt(&self, f: &mut std::fmt::Formatter<'_>) -> std::fmt::Result {
        f.write_str(&crate::formula::to_formula(self))
    }
}

#[cfg(test)]
mod test {
    use super::*;

    // #[test]
    // fn test_parse() {
    //     let case = ChemicalCompositionMap::parse("H2O").expect("Failed to parse");
    //     let mut ctrl = ChemicalCompositionMap::new();
    //     ctrl.set(("O").parse::<ElementSpecification>().unwrap(), 1);
    //     ctrl.set(("H").parse::<ElementSpecification>().unwrap(), 2);
    //     assert_eq!(case, ctrl);
    //     let case = ChemicalCompositionMap::parse("H2O1").expect("Failed to parse");
    //     assert_eq!(case, ctrl);
    //     let case = ChemicalCompositionMap::parse("(H)2O1").expect("Failed to parse");
    //     assert_eq!(case, ctrl);
    // }

    #[test]
    fn test_from_vec_str() {
        let case = ChemicalCompositionMap::from(vec![("O", 1), ("H", 2)]);
        let mut ctrl = ChemicalCompositionMap::new();
        ctrl.set(("O").parse::<ElementSpecification>().unwrap(), 1);
        ctrl.set(("H").parse::<ElementSpecification>().unwrap(), 2);
        assert_eq!(case, ctrl);
    }

    #[test]
    fn test_from_vec_elt_spec() {
        let hydrogen = ("H").parse::<ElementSpecification>().unwrap();
        let oxygen = ("O").parse::<ElementSpecification>().unwrap();
        let case = ChemicalCompositionMap::from(vec![(oxygen, 1), (hydrogen, 2)]);
        let mut ctrl = ChemicalCompositionMap::new();

        let hydrogen = ("H").parse::<ElementSpecification>().unwrap();
        let oxygen = ("O").parse::<ElementSpecification>().unwrap();
        ctrl.set(oxygen, 1);
        ctrl.set(hydrogen, 2);
        assert_eq!(case, ctrl);
    }

    #[test]
    fn test_mass() {
        let case = ChemicalCompositionMap::from(vec![("O", 1), ("H", 2)]);
        let mass = 18.0105646837;

        let calc = case.mass();
        assert!((mass - calc).abs() < 1e-6);
    }

    #[test]
    fn test_fmass() {
        let mut case = ChemicalCompositionMap::from(vec![("O", 1), ("H", 2)]);
        let mass = 18.0105646837;

        let calc = case.fmass();
        assert!((mass - calc).abs() < 1e-6);
    }

    #[test]
    fn test_add() {
        let case = ChemicalCompositionMap::from(vec![("O", 1), ("H", 2)]);
        let ctrl = ChemicalCompositionMap::from(vec![("O", 2), ("H", 4)]);

        let combo = &case + &case;
        assert_eq!(ctrl, combo);
    }

    #[test]
    fn test_sub() {
        let case = ChemicalCompositionMap::from(vec![("O", 2), ("H", 4)]);
        let ctrl = ChemicalCompositionMap::from(vec![("O", 1), ("H", 2)]);

        let combo = &case - &ctrl;
        assert_eq!(ctrl, combo);
    }

    #[test]
    fn test_mul() {
        let case = ChemicalCompositionMap::from(vec![("O", 1), ("H", 2)]);
        let ctrl = ChemicalCompositionMap::from(vec![("O", 2), ("H", 4)]);

        let combo = &case * 2;
        assert_eq!(ctrl, combo);
    }
}
