use std::cmp;
use std::collections::HashMap;
use std::fmt;
use std::hash;
use std::ops;

#[cfg(feature = "serde")]
use serde::{Deserialize, Serialize};

use fnv::FnvBuildHasher as RandomState;

type NeutronShiftType = i8;
type ElementNumberType = u8;

#[derive(Debug, Clone, Default)]
#[cfg_attr(feature = "serde", derive(Serialize, Deserialize))]
/** A known isotope of an element with a known number of neutrons,
mass, and relative abundance
*/
pub struct Isotope {
    pub mass: f64,
    pub abundance: f64,
    pub neutrons: u16,
    pub neutron_shift: NeutronShiftType,
}

impl fmt::Display for Isotope {
    fn fmt(&self, f: &mut fmt::Formatter) -> fmt::Result {
        write!(
            f,
            "Isotope({}, {}, {}, {})",
            self.mass, self.abundance, self.neutrons, self.neutron_shift
        )
    }
}

impl hash::Hash for Isotope {
    fn hash<H: hash::Hasher>(&self, state: &mut H) {
        self.neutrons.hash(state);
    }
}

impl cmp::PartialEq<Isotope> for Isotope {
    fn eq(&self, other: &Isotope) -> bool {
        if (self.mass - other.mass).abs() > 1e-3
            || (self.abundance - other.abundance).abs() > 1e-3
            || self.neutrons != other.neutrons
            || self.neutron_shift != other.neutron_shift
        {
            return false;
        }
        true
    }
}

impl cmp::PartialOrd<Isotope> for Isotope {
    fn partial_cmp(&self, other: &Isotope) -> Option<cmp::Ordering> {
        self.mass.partial_cmp(&other.mass)
    }
}

#[derive(Debug, Clone, Default)]
#[cfg_attr(feature = "serde", derive(Serialize, Deserialize))]
/** A chemical element with known masses and isotopic frequency.

This type forms the foundation of the library, and is *usually*
treated like a singleton in a [`PeriodicTable`].
*/
pub struct Element {
    pub symbol: String,
    pub isotopes: HashMap<u16, Isotope, RandomState>,
    pub most_abundant_isotope: u16,
    pub most_abundant_mass: f64,
    pub min_neutron_shift: NeutronShiftType,
    pub max_neutron_shift: NeutronShiftType,
    pub element_number: ElementNumberType,
}

impl Element {
    pub fn mass(&self) -> f64 {
        self.isotopes[&self.most_abundant_isotope].mass
    }

    pub fn calc_min_neutron_shift(&self) -> NeutronShiftType {
        if self.min_neutron_shift != 0 {
            return self.min_neutron_shift;
        }
        self.isotopes
            .values()
            .map(|iso| iso.neutron_shift)
            .min()
            .unwrap_or(0)
    }

    pub fn calc_max_neutron_shift(&self) -> NeutronShiftType {
        if self.max_neutron_shift != 0 {
            return self.max_neutron_shift;
        }
        self.isotopes
            .values()
            .map(|iso| iso.neutron_shift)
            .max()
            .unwrap_or(0)
    }

    pub fn isotope_by_shift(&self, shift: NeutronShiftType) -> Option<&Isotope> {
        let num = self.most_abundant_isotope as i16 + shift as i16;
        self.isotopes.get(&(num as u16))
    }

    pub fn index_isotopes(&mut self) {
        self.max_neutron_shift = 0;
        self.min_neutron_shift = 0;
        self.max_neutron_shift = self.calc_max_neutron_shift();
        self.min_neutron_shift = self.calc_min_neutron_shift();
    }
}

impl fmt::Display for Element {
    fn fmt(&self, f: &mut fmt::Formatter) -> fmt::Result {
        write!(
            f,
            "Element({}, {}, {})",
            self.symbol,
            self.isotopes[&self.most_abundant_isotope],
            self.isotopes.len()
        )
    }
}

impl hash::Hash for Element {
    #[inline]
    fn hash<H: hash::Hasher>(&self, state: &mut H) {
        self.symbol.hash(state);
    }
}

impl cmp::PartialEq<Element> for Element {
    #[inline]
    fn eq(&self, other: &Element) -> bool {
        if self.symbol != other.symbol || self.most_abundant_isotope != other.most_abundant_isotope
        {
            return false;
        }
        true
    }
}

#[derive(Debug, Clone, Default)]
#[cfg_attr(feature = "serde", derive(Serialize, Deserialize))]
/** A mapping connecting [`Element`] to its textual symbol.

This type is referenced indirectly through all other structures
that depend upon [`Element`] or [`ChemicalComposition`](crate::ChemicalComposition).

A global `lazy_static` constant is available as `PERIODIC_TABLE`.
*/
pub struct PeriodicTable {
    pub elements: HashMap<String, Element, RandomState>,
}

impl PeriodicTable {
    pub fn new() -> PeriodicTable {
        PeriodicTable {
            ..Default::default()
        }
    }

    pub fn add(&mut self, element: Element) {
        self.elements.insert(element.symbol.clone(), element);
    }

    pub fn get(&self, symbol: &str) -> Option<&Element> {
        self.elements.get(symbol)
    }
}

impl ops::Index<&str> for PeriodicTable {
    type Output = Element;

    #[inline]
    fn index(&self, i: &str) -> &Self::Output {
        &self.elements[i]
    }
}
