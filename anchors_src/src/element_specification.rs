use std::borrow::Borrow;
use std::cmp;
use std::fmt::{self, Display};
use std::hash;
use std::str::FromStr;

use crate::element::{Element, PeriodicTable};
use crate::table::PERIODIC_TABLE;

#[derive(Debug, Clone, Copy)]
pub enum ElementSpecificationParsingError {
    UnclosedIsotope,
    UnknownElement,
    InvalidIsotope,
}

impl Display for ElementSpecificationParsingError {
    fn fmt(&self, f: &mut fmt::Formatter<'_>) -> fmt::Result {
        write!(f, "{:?}", self)
    }
}

impl std::error::Error for ElementSpecificationParsingError {}

/// Classify a string as being an element specification
pub(crate) enum ElementSpecificationLike {
    /// Definitely an element specification, does not have an isotope
    Yes,
    /// Definitely not an element specification-like string
    No,
    /// Could be an element specification, looks element-like with an isotope
    Maybe,
}

impl From<bool> for ElementSpecificationLike {
    fn from(x: bool) -> Self {
        if x {
            ElementSpecificationLike::Yes
        } else {
            ElementSpecificationLike::No
        }
    }
}

#[derive(Debug, Clone, Copy)]
#[cfg_attr(
    feature = "serde",
    derive(serde_with::SerializeDisplay, serde_with::DeserializeFromStr)
)]
/// A hashable key referencing an element with a specific isotope
/// state. `element` is the [`Element`](crate::Element) represented, and `isotope` is
/// the isotope number, though 0 means monoisotopic.
///
/// Meant to be used as the keys for [`ChemicalCompositionLike`](crate::ChemicalCompositionLike)
pub struct ElementSpecification<'element> {
    pub element: &'element Element,
    pub isotope: u16,
}

impl cmp::PartialEq for ElementSpecification<'_> {
    #[inline]
    fn eq(&self, other: &ElementSpecification) -> bool {
        if self.element != other.element {
            return false;
        }
        self.isotope == other.isotope
    }
}

impl cmp::PartialEq<str> for ElementSpecification<'_> {
    #[inline]
    fn eq(&self, other: &str) -> bool {
        self.element.symbol == other && self.isotope == 0
    }
}

impl cmp::Eq for ElementSpecification<'_> {}

impl hash::Hash for ElementSpecification<'_> {
    #[inline]
    fn hash<H: hash::Hasher>(&self, state: &mut H) {
        self.element.hash(state);
    }
}

impl Borrow<str> for ElementSpecification<'_> {
    fn borrow(&self) -> &str {
        &self.element.symbol
    }
}

impl fmt::Display for ElementSpecification<'_> {
    fn fmt(&self, f: &mut fmt::Formatter) -> fmt::Result {
        if self.isotope == 0 {
            f.write_str(&self.element.symbol)
        } else {
            write!(f, "{}[{}]", self.element.symbol, self.isotope)
        }
    }
}

impl<'transient, 'lifespan: 'transient, 'element> ElementSpecification<'element> {
    pub fn new(element: &'element Element, isotope: u16) -> ElementSpecification<'element> {
        ElementSpecification { element, isotope }
    }

    #[inline]
    pub fn parse(
        string: &'transient str,
    ) -> Result<ElementSpecification<'lifespan>, ElementSpecificationParsingError> {
        Self::parse_with(string, &PERIODIC_TABLE)
    }

    pub(crate) fn quick_check_str(string: &str) -> ElementSpecificationLike {
        let n = string.len();
        let mut chars = string.chars();
        if n == 0 {
            ElementSpecificationLike::No
        } else if n == 1 {
            let first = chars.nth(0).unwrap();
            (first.is_alphabetic()).into()
        }
        // The one or two letter scenario, most common
        else if n < 3 {
            let first = chars.nth(0).unwrap();
            let last = chars.last().unwrap_or(first);
            (last != '[' && last != ']' && first.is_alphabetic()).into()
        } else if n == 4 {
            let first = chars.nth(0).unwrap();
            let last = chars.last().unwrap_or(first);
            if first.is_alphabetic() {
                if last == ']' {
                    ElementSpecificationLike::Maybe
                } else {
                    ElementSpecificationLike::No
                }
            } else {
                ElementSpecificationLike::No
            }
        } else {
            ElementSpecificationLike::Maybe
        }
    }

    #[inline]
    pub fn parse_with(
        string: &'transient str,
        periodic_table: &'lifespan PeriodicTable,
    ) -> Result<ElementSpecification<'lifespan>, ElementSpecificationParsingError> {
        // `symbol` or `symbol[isotope]`: everything up to the first '[' is the symbol, and a
        // bracketed isotope number must run to the closing ']' at the very end of the string.
        let (elt_sym, isotope_str) = match string.find('[') {
            Some(i) => match string[i + 1..].strip_suffix(']') {
                Some(isotope_str) => (&string[..i], Some(isotope_str)),
                None => return Err(ElementSpecificationParsingError::UnclosedIsotope),
            },
            None => (string, None),
        };
        let element = periodic_table
            .get(elt_sym)
            .ok_or(ElementSpecificationParsingError::UnknownElement)?;
        let isotope = match isotope_str {
            Some(isotope_str) => {
                let isotope = isotope_str
                    .parse::<u16>()
                    .map_err(|_| ElementSpecificationParsingError::InvalidIsotope)?;
                if !element.isotopes.contains_key(&isotope) {
                    return Err(ElementSpecificationParsingError::InvalidIsotope);
                }
                isotope
            }
            None => 0,
        };
        Ok(ElementSpecification::new(element, isotope))
    }
}

impl FromStr for ElementSpecification<'_> {
    type Err = ElementSpecificationParsingError;

    fn from_str(s: &str) -> Result<Self, Self::Err> {
        match ElementSpecification::parse(s) {
            Ok(r) => Ok(r),
            Err(err) => Err(err),
        }
    }
}

#[cfg(test)]
mod test {
    use super::*;

    #[test]
    fn test_element_spec_parse() {
        let spec = ("C[13]").parse::<ElementSpecification>().unwrap();
        assert_eq!(spec.isotope, 13);
        assert_eq!(spec.element.symbol, "C");
    }
}
