use std::fmt::Display;
use std::num::ParseIntError;

use crate::abstract_composition::{ChemicalComposition, ChemicalCompositionRef};
use crate::table::PERIODIC_TABLE;
use crate::ElementSpecification;
use crate::{Element, PeriodicTable};

#[derive(Debug, Default)]
pub enum FormulaParserState {
    #[default]
    New,
    Element,
    Isotope,
    IsotopeToCount,
    Count,
    Group,
    GroupToGroupCount,
    GroupCount,
}

#[derive(Debug, Clone, Copy)]
pub enum FormulaParserError {
    InvalidStart,
    ElementCountMalformed,
    IsotopeCountMalformed,
    GroupCountMalformed,
    IncompleteFormula,
    InvalidElement,
}

impl Display for FormulaParserError {
    fn fmt(&self, f: &mut std::fmt::Formatter<'_>) -> std::fmt::Result {
        write!(f, "{:?}", self)
    }
}

impl std::error::Error for FormulaParserError {}

#[derive(Default)]
pub struct FormulaParser {
    pub element_start: usize,
    pub element_end: usize,
    pub isotope_start: usize,
    pub isotope_end: usize,
    pub count_start: usize,
    pub count_end: usize,
    pub paren_stack: i32,
    pub group_start: usize,
    pub group_end: usize,
    pub group_count_start: usize,
    pub group_count_end: usize,
    pub state: FormulaParserState,
}

impl<'transient, 'lifespan: 'transient> FormulaParser {
    pub fn parse(string: &str) -> Result<ChemicalComposition<'lifespan>, FormulaParserError> {
        let mut parser = Self::default();
        parser.parse_formula_with_table_generic(string, &PERIODIC_TABLE)
    }

    pub fn parse_with_table(
        string: &'transient str,
        periodic_table: &'lifespan PeriodicTable,
    ) -> Result<ChemicalComposition<'lifespan>, FormulaParserError> {
        let mut parser = Self::default();
        parser.parse_formula_with_table_generic(string, periodic_table)
    }

    pub fn parse_element_from_string(
        &mut self,
        string: &str,
        periodic_table: &'lifespan PeriodicTable,
    ) -> Result<&'lifespan Element, FormulaParserError> {
        let elt_sym = &string[self.element_start..self.element_end];
        let elt = periodic_table
            .get(elt_sym)
            .ok_or(FormulaParserError::InvalidElement)?;
        self.element_start = 0;
        self.element_end = 0;
        Ok(elt)
    }

    pub fn parse_element_count(&mut self, string: &str) -> Result<i32, ParseIntError> {
        let count_parse = string[self.count_start..self.count_end].parse::<i32>();
        self.count_start = 0;
        self.count_end = 0;
        count_parse
    }

    pub fn parse_group_count(&mut self, string: &str) -> Result<i32, ParseIntError> {
        let count_parse = string[self.group_count_start..self.group_count_end].parse::<i32>();
        self.group_count_start = 0;
        self.group_count_end = 0;
        count_parse
    }

    pub fn handle_group_state(&mut self, c: char, i: usize) {
        if c == ')' {
            self.paren_stack -= 1;
            if self.paren_stack == 0 {
                self.group_end = i;
                self.state = FormulaParserState::GroupToGroupCount;
            }
        } else if c == '(' {
            self.paren_stack += 1;
        }
    }

    pub fn parse_formula_with_table_generic<C: From<ChemicalComposition<'lifespan>>>(
        &mut self,
        string: &str,
        periodic_table: &'lifespan PeriodicTable,
    ) -> Result<C, FormulaParserError> {
        let mut acc = ChemicalComposition::default();
        let n = string.len();

        for (i, c) in string.char_indices() {
            match self.state {
                FormulaParserState::New => {
                    if c.is_ascii_alphabetic() && c.is_ascii_uppercase() {
                        self.element_start = i;
                        self.state = FormulaParserState::Element;
                    } else if c == '(' {
                        self.paren_stack += 1;
                        self.group_start = i + 1;
                        self.state = FormulaParserState::Group;
                    } else {
                        return Err(FormulaParserError::InvalidStart);
                    }
                }
                FormulaParserState::Group => {
                    self.handle_group_state(c, i);
                }
                FormulaParserState::Element => {
                    if c.is_ascii_alphabetic() {
                        if c.is_uppercase() {
                            self.element_end = i;
                            let elt = self.parse_element_from_string(string, periodic_table)?;
                            let elt_spec = ElementSpecification {
                                element: elt,
                                isotope: 0,
                            };
                            acc.inc(elt_spec, 1);
                            self.state = FormulaParserState::Element;
                            self.element_start = i;
                            self.element_end = 0;
                        }
                    } else if c.is_numeric() {
                        self.element_end = i;
                        self.count_start = i;
                        self.state = FormulaParserState::Count;
                    } else if c == '[' {
                        self.element_end = i;
                        self.isotope_start = i + 1;
                        self.state = FormulaParserState::Isotope;
                    } else if c == '(' {
                        self.element_end = i;
                        let elt = self.parse_element_from_string(string, periodic_table)?;
                        let elt_spec = ElementSpecification {
                            element: elt,
                            isotope: 0,
                        };
                        acc.inc(elt_spec, 1);

                        self.paren_stack += 1;
                        self.group_start = i + 1;
                        self.state = FormulaParserState::Group;
                    }
                }
                FormulaParserState::Isotope => {
                    if c == ']' {
                        self.isotope_end = i;
                        self.state = FormulaParserState::IsotopeToCount;
                    } else if !c.is_numeric() {
                        return Err(FormulaParserError::IsotopeCountMalformed);
                    }
                }
                FormulaParserState::Count => {
                    if !c.is_numeric() {
                        self.count_end = i;
                        let count_parse = self.parse_element_count(string);
                        let count: i32 = match count_parse {
                            Ok(val) => val,
                            Err(_msg) => {
                                return Err(FormulaParserError::ElementCountMalformed);
                            }
                        };
                        let isotope: u16 = if self.isotope_end != self.isotope_start {
                            match string[self.isotope_start..self.isotope_end].parse::<u16>() {
                                Ok(val) => val,
                                Err(_msg) => {
                                    return Err(FormulaParserError::IsotopeCountMalformed);
                                }
                            }
                        } else {
                            0
                        };

                        let elt = self.parse_element_from_string(string, periodic_table)?;
                        if isotope != 0 && !elt.isotopes.contains_key(&isotope) {
                            return Err(FormulaParserError::IsotopeCountMalformed);
                        }
                        let elt_spec = ElementSpecification {
                            element: elt,
                            isotope,
                        };
                        acc.inc(elt_spec, count);
                        self.isotope_start = 0;
                        self.isotope_end = 0;

                        if c == '(' {
                            self.paren_stack = 1;
                            self.group_start = i + 1;
                            self.state = FormulaParserState::Group;
                        } else if c.is_ascii_alphabetic() && c.is_ascii_uppercase() {
                            self.element_start = i;
                            self.state = FormulaParserState::Element;
                        } else {
                            return Err(FormulaParserError::InvalidElement);
                        }
                    }
                }
                FormulaParserState::IsotopeToCount => {
                    if c.is_numeric() {
                        self.count_start = i;
                        self.state = FormulaParserState::Count;
                    } else {
                        let elt = self.parse_element_from_string(string, periodic_table)?;
                        let isotope: u16 =
                            match string[self.isotope_start..self.isotope_end].parse::<u16>() {
                                Ok(val) => val,
                                Err(_msg) => {
                                    return Err(FormulaParserError::IsotopeCountMalformed);
                                }
                            };
                        if isotope != 0 && !elt.isotopes.contains_key(&isotope) {
                            return Err(FormulaParserError::IsotopeCountMalformed);
                        }
                        let elt_spec = ElementSpecification {
                            element: elt,
                            isotope,
                        };
                        acc.inc(elt_spec, 1);
                        self.isotope_start = 0;
                        self.isotope_end = 0;

                        if c == '(' {
                            self.paren_stack += 1;
                            self.group_start = i + 1;
                            self.state = FormulaParserState::Group;
                        } else if c.is_ascii_uppercase() {
                            self.element_start = i;
                            self.state = FormulaParserState::Element;
                        } else {
                            return Err(FormulaParserError::IsotopeCountMalformed);
                        }
                    }
                }
                FormulaParserState::GroupToGroupCount => {
                    if !c.is_numeric() {
                        let group = Self::parse_with_table(
                            &string[self.group_start..self.group_end],
                            periodic_table,
                        )?;
                        self.group_start = 0;
                        self.group_end = 0;
                        acc += &group;
                        if c == '(' {
                            self.paren_stack = 1;
                            self.group_start = i + 1;
                            self.state = FormulaParserState::Group;
                        } else if c.is_ascii_alphabetic() && c.is_ascii_uppercase() {
                            self.element_start = i;
                            self.state = FormulaParserState::Element;
                        } else {
                            return Err(FormulaParserError::InvalidElement);
                        }
                    } else {
                        self.group_count_start = i;
                        self.state = FormulaParserState::GroupCount;
                    }
                }
                FormulaParserState::GroupCount => {
                    if !c.is_numeric() {
                        self.group_count_end = i;
                        let group = Self::parse_with_table(
                            &string[self.group_start..self.group_end],
                            periodic_table,
                        )?;
                        self.group_start = 0;
                        self.group_end = 0;

                        let group_count: i32 = match self.parse_group_count(string) {
                            Ok(val) => val,
                            Err(_msg) => {
                                return Err(FormulaParserError::ElementCountMalformed);
                            }
                        };
                        acc += &(&group * group_count);

                        if c == '(' {
                            self.paren_stack = 1;
                            self.group_start = i + 1;
                            self.state = FormulaParserState::Group;
                        } else if c.is_ascii_alphabetic() && c.is_ascii_uppercase() {
                            self.element_start = i;
                            self.state = FormulaParserState::Element;
                        } else {
                            return Err(FormulaParserError::InvalidElement);
                        }
                    }
                }
            }
        }

        let i = n;
        match self.state {
            FormulaParserState::Element => {
                self.element_end = i;
                let elt = self.parse_element_from_string(string, periodic_table)?;
                let elt_spec = ElementSpecification {
                    element: elt,
                    isotope: 0,
                };
                acc.inc(elt_spec, 1);
            }
            FormulaParserState::Count => {
                self.count_end = i;
                let count: i32 = match self.parse_element_count(string) {
                    Ok(val) => val,
                    Err(_msg) => {
                        return Err(FormulaParserError::ElementCountMalformed);
                    }
                };
                let isotope: u16 = if self.isotope_end != self.isotope_start {
                    match string[self.isotope_start..self.isotope_end].parse::<u16>() {
                        Ok(val) => val,
                        Err(_msg) => {
                            return Err(FormulaParserError::IsotopeCountMalformed);
                        }
                    }
                } else {
                    0
                };
                let elt = self.parse_element_from_string(string, periodic_table)?;
                if isotope != 0 && !elt.isotopes.contains_key(&isotope) {
                    return Err(FormulaParserError::IsotopeCountMalformed);
                }
                let elt_spec = ElementSpecification {
                    element: elt,
                    isotope,
                };
                acc.inc(elt_spec, count);
            }
            FormulaParserState::IsotopeToCount => {
                let elt = self.parse_element_from_string(string, periodic_table)?;
                let isotope: u16 = match string[self.isotope_start..self.isotope_end].parse::<u16>() {
                    Ok(val) => val,
                    Err(_msg) => {
                        return Err(FormulaParserError::IsotopeCountMalformed);
                    }
                };
                if isotope != 0 && !elt.isotopes.contains_key(&isotope) {
                    return Err(FormulaParserError::IsotopeCountMalformed);
                }
                let elt_spec = ElementSpecification {
                    element: elt,
                    isotope,
                };
                acc.inc(elt_spec, 1);
            }
            FormulaParserState::GroupToGroupCount => {
                let group = Self::parse_with_table(
                    &string[self.group_start..self.group_end],
                    periodic_table,
                )?;
                acc += &group;
            }
            FormulaParserState::GroupCount => {
                self.group_count_end = i;
                let group = Self::parse_with_table(
                    &string[self.group_start..self.group_end],
                    periodic_table,
                )?;
                self.group_start = 0;
                self.group_end = 0;

                let group_count: i32 = match self.parse_group_count(string) {
                    Ok(val) => val,
                    Err(_msg) => {
                        return Err(FormulaParserError::GroupCountMalformed);
                    }
                };
                acc += &(&group * group_count);
            }
            _ => return Err(FormulaParserError::IncompleteFormula),
        }
        Ok(acc.into())
    }
}

pub fn parse_formula<'transient, 'lifespan: 'transient>(
    string: &'transient str,
) -> Result<ChemicalComposition<'lifespan>, FormulaParserError> {
    FormulaParser::parse(string)
}

pub fn parse_formula_with_table<'lifespan>(
    string: &str,
    periodic_table: &'lifespan PeriodicTable,
) -> Result<ChemicalComposition<'lifespan>, FormulaParserError> {
    FormulaParser::parse_with_table(string, periodic_table)
}

pub fn to_formula<'inner, 'lifespan: 'inner, C>(composition: &'inner C) -> String
where
    &'inner C: Into<ChemicalCompositionRef<'inner, 'lifespan>> + 'inner,
{
    let composition: ChemicalCompositionRef<'inner, 'lifespan> = composition.into();
    let mut result = String::with_capacity(composition.len() * 2);
    let carbon_count = composition["C"];
    if carbon_count != 0 {
        result.push('C');
        result.push_str(&carbon_count.to_string());
    }
    let carbon_count = composition["H"];
    if carbon_count != 0 {
        result.push('H');
        result.push_str(&carbon_count.to_string());
    }
    let mut items: Vec<(&ElementSpecification, &i32)> = composition.iter().collect();
    items.sort_by(|a, b| {
        a.0.element
            .symbol
            .cmp(&b.0.element.symbol)
            .then(a.0.isotope.cmp(&b.0.isotope))
    });
    for (key, count) in items {
        // Skip the C and N
        if ((key.element.symbol == "C") || (key.element.symbol == "H")) && key.isotope == 0 {
            continue;
        } else if key.isotope != 0 {
            result.push_str(&format!("{}[{}]{}", key.element.symbol, key.isotope, count));
        } else {
            result.push_str(&format!("{}{}", key.element.symbol, count));
        }
    }
    result
}

#[cfg(test)]
mod test {
    use super::*;

    #[test]
    fn test_obj() {
        let res = FormulaParser::parse("H2O").unwrap();
        let hydrogen = ElementSpecification::parse("H").unwrap();
        let oxygen = ElementSpecification::parse_with("O", &PERIODIC_TABLE).unwrap();
        assert_eq!(res[&hydrogen], 2);
        assert_eq!(res[&oxygen], 1);
    }

    #[test]
    fn test_to_string() {
        let res = FormulaParser::parse("H12O6C6N2").unwrap();
        assert_eq!(res.to_string(), "C6H12N2O6");
    }
}
