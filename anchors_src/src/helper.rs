use crate::table::{populate_periodic_table, PERIODIC_TABLE};
use crate::{
    ChemicalComposition, ElementSpecification, ElementSpecificationParsingError,
    FormulaParserError, PeriodicTable,
};

#[allow(non_snake_case)]
/** A helper data structure that encapsulates
a [`PeriodicTable`], along with some pre-parsed
[`ElementSpecification`] and [`ChemicalComposition`]
instances for convenience.
*/
pub struct ChemicalElements<'lifespan> {
    pub periodic_table: PeriodicTable,
    pub C: ElementSpecification<'lifespan>,
    pub H: ElementSpecification<'lifespan>,
    pub O: ElementSpecification<'lifespan>,
    pub N: ElementSpecification<'lifespan>,
    pub S: ElementSpecification<'lifespan>,
    pub H2O: ChemicalComposition<'lifespan>,
    pub OH: ChemicalComposition<'lifespan>,
    pub NH2: ChemicalComposition<'lifespan>,
}

impl<'transient, 'lifespan: 'transient> ChemicalElements<'lifespan> {
    fn make_periodic_table() -> PeriodicTable {
        let mut periodic_table = PeriodicTable::new();
        populate_periodic_table(&mut periodic_table);
        periodic_table
    }

    pub fn new() -> ChemicalElements<'lifespan> {
        let periodic_table = Self::make_periodic_table();

        let ce = ChemicalElements {
            periodic_table,
            C: ElementSpecification::parse_with("C", &PERIODIC_TABLE).unwrap(),
            H: ElementSpecification::parse_with("H", &PERIODIC_TABLE).unwrap(),
            O: ElementSpecification::parse_with("O", &PERIODIC_TABLE).unwrap(),
            N: ElementSpecification::parse_with("N", &PERIODIC_TABLE).unwrap(),
            S: ElementSpecification::parse_with("S", &PERIODIC_TABLE).unwrap(),
            H2O: ChemicalComposition::parse_with("H2O", &PERIODIC_TABLE).unwrap(),
            OH: ChemicalComposition::parse("OH").unwrap(),
            NH2: ChemicalComposition::parse_with("NH2", &PERIODIC_TABLE).unwrap(),
        };
        ce
    }

    #[inline]
    pub fn parse_formula(
        &self,
        string: &'transient str,
    ) -> Result<ChemicalComposition, FormulaParserError> {
        ChemicalComposition::parse_with(string, &self.periodic_table)
    }

    #[inline]
    pub fn parse_element(
        &self,
        string: &'transient str,
    ) -> Result<ElementSpecification, ElementSpecificationParsingError> {
        ElementSpecification::parse_with(string, &self.periodic_table)
    }
}

impl Default for ChemicalElements<'_> {
    fn default() -> Self {
        Self::new()
    }
}

#[cfg(test)]
mod test {
    use super::*;

    #[test]
    fn test_ce() {
        let ce = ChemicalElements::new();
        let c_elt = ce.parse_element("C").unwrap();
        assert_eq!(ce.C, c_elt);
    }
}
