//! An implementation of the Baffling Recursive Algorithm for Isotopic distributioN (BRAIN)
//! originally published in [Dittwald, 2013](http://dx.doi.org/10.1021/ac303439m).
use std::cmp;
use std::collections::hash_map::Entry;
use std::collections::HashMap;

use crate::element::Element;
use crate::isotopic_pattern::{poisson_approximate_n_peaks_of, Peak, PeakList};
use crate::{mass_charge_ratio, ChemicalComposition, ElementSpecification};

use fnv::FnvBuildHasher as RandomState;

type DVec = Vec<f64>;

#[derive(Debug, Clone)]
struct PolynomialParameters {
    elementary_symmetric_polynomial: DVec,
    power_sum: DVec,
}

fn vietes(coefficients: &DVec) -> DVec {
    let n = coefficients.len();
    let mut esp = DVec::with_capacity(n);
    let tail = coefficients[n - 1];
    for i in 0..n {
        let sign = if i % 2 == 0 { 1.0 } else { -1.0 };
        let el = sign * coefficients[n - i - 1] / tail;
        esp.push(el);
    }
    esp
}

impl PolynomialParameters {
    pub fn update_power_sum(&mut self) {
        let begin = self.power_sum.len();
        let end = self.elementary_symmetric_polynomial.len();

        for k in begin..end {
            if k == 0 {
                self.power_sum.push(0.0);
                continue;
            }
            let mut temp_ps = 0.0;
            let mut sign = -1.0;
            for j in 1..k {
                sign *= -1.0;
                temp_ps += sign * self.elementary_symmetric_polynomial[j] * self.power_sum[k - j];
            }
            sign *= -1.0;
            temp_ps += sign * self.elementary_symmetric_polynomial[k] * (k as f64);
            self.power_sum.push(temp_ps);
        }
    }

    pub fn update_elementary_symmetric_polynomial(&mut self, order: i32) {
        let begin = self.elementary_symmetric_polynomial.len();
        let end = self.power_sum.len();
        self.elementary_symmetric_polynomial
            .reserve(end.saturating_sub(begin));
        for k in begin..end {
            if k == 0 {
                self.elementary_symmetric_polynomial.push(1.0);
            } else if k > (order as usize) {
                self.elementary_symmetric_polynomial.push(0.0);
            } else {
                let el = (1..k + 1)
                    .map(|j| {
                        let sign = if (j % 2) == 1 { 1.0 } else { -1.0 };
                        sign * self.power_sum[j] * self.elementary_symmetric_polynomial[k - j]
                    })
                    .sum::<f64>()
                    / k as f64;
                self.elementary_symmetric_polynomial.push(el);
            }
        }
    }

    pub fn newton_optimization(&mut self, order: i32) {
        let psn = self.power_sum.len();
        let espn = self.elementary_symmetric_polynomial.len();

        match psn.cmp(&espn) {
            cmp::Ordering::Less => self.update_power_sum(),
            cmp::Ordering::Equal => {}
            cmp::Ordering::Greater => self.update_elementary_symmetric_polynomial(order),
        }
    }

    pub fn isotopic_coefficients(element: &Element, with_mass: bool, accumulator: &mut DVec) {
        let max_isotope_number = element.max_neutron_shift;
        let min_neutron_shift = element.min_neutron_shift;
        let monoisotopic_number = element.element_number as usize;
        let n = element.isotopes.len();

        for z in min_neutron_shift..max_isotope_number + 1 {
            let i = (z - min_neutron_shift) as usize;
            let k = (n + monoisotopic_number - i - 1) as u16;
            // let isotope = match element.isotope_by_shift(&k) {
            let isotope = match element.isotopes.get(&k) {
                Some(isotope) => isotope,
                None => {
                    continue;
                }
            };
            let current_order = (max_isotope_number - isotope.neutron_shift) as usize;
            let coef = if with_mass { isotope.mass } else { 1.0 };
            match current_order.cmp(&accumulator.len()) {
                cmp::Ordering::Greater => {
                    for _j in accumulator.len()..(current_order) {
                        accumulator.push(0.0);
                    }
                    accumulator.push(coef * isotope.abundance);
                }
                cmp::Ordering::Equal => {
                    accumulator.push(coef * isotope.abundance);
                }
                cmp::Ordering::Less => panic!("Error! Unordered isotopes for {}", element.symbol),
            }
        }
    }

    pub fn from_element(
        element: &Element,
        with_mass: bool,
        accumulator: &mut DVec,
    ) -> PolynomialParameters {
        let n = element.max_neutron_shift;
        accumulator.reserve(n as usize);
        PolynomialParameters::isotopic_coefficients(element, with_mass, accumulator);

        let elementary_symmetric_polynomial = vietes(accumulator);
        let power_sum = DVec::with_capacity(elementary_symmetric_polynomial.len() + 4);
        let order = accumulator.len() - 1;
        let mut result = PolynomialParameters {
            elementary_symmetric_polynomial,
            power_sum,
        };
        result.newton_optimization(order as i32);
        result
    }
}

#[derive(Debug, Clone)]
pub struct PhiConstants {
    pub order: i32,
    pub element_key: String,
    element_coefficients: PolynomialParameters,
    mass_coefficients: PolynomialParameters,
}

impl PhiConstants {
    pub fn from_element(element: &Element) -> PhiConstants {
        let mut accumulator = DVec::new();
        let order = element.max_neutron_shift as i32;
        let element_coefficients =
            PolynomialParameters::from_element(element, false, &mut accumulator);
        accumulator.clear();
        let mass_coefficients = PolynomialParameters::from_element(element, true, &mut accumulator);
        PhiConstants {
            element_key: element.symbol.clone(),
            order,
            element_coefficients,
            mass_coefficients,
        }
    }
}

type PhiKey = str;

#[derive(Debug, Clone)]
pub struct IsotopicConstants<'lifespan> {
    // pub constants: HashMap<&'lifespan PhiKey, PhiConstants, RandomState>,
    pub constants: Vec<(&'lifespan PhiKey, PhiConstants)>,
    pub order: i32,
}

impl<'lifespan, 'outer: 'lifespan> IsotopicConstants<'lifespan> {
    pub fn new(size: usize) -> IsotopicConstants<'lifespan> {
        IsotopicConstants {
            constants: Vec::with_capacity(size),
            order: 0,
        }
    }

    pub fn get(&self, symbol: &PhiKey) -> Option<&PhiConstants> {
        // self.constants.get(symbol)
        self.constants
            .iter()
            .find(|(k, _)| *k == symbol)
            .map(|(_, v)| v)
    }

    pub fn set(&mut self, symbol: &'lifespan PhiKey, constants: PhiConstants) {
        // self.constants.insert(symbol, constants);
        self.constants.push((symbol, constants))
    }

    pub fn add(&mut self, element: &'outer Element) {
        if let Some(_c) = self.get(element.symbol.as_ref()) {
            return;
        };

        let phi = PhiConstants::from_element(element);
        // self.constants.insert(element.symbol.as_ref(), phi);
        self.set(element.symbol.as_ref(), phi);
    }

    pub fn update(&mut self) {
        for (_symbol, elt_params) in self.constants.iter_mut() {
            if self.order < elt_params.order {
                continue;
            }

            (elt_params.order..self.order + 1).for_each(|_| {
                elt_params
                    .element_coefficients
                    .elementary_symmetric_polynomial
                    .push(0.0);
                elt_params
                    .mass_coefficients
                    .elementary_symmetric_polynomial
                    .push(0.0);
            });

            elt_params.order = elt_params
                .element_coefficients
                .elementary_symmetric_polynomial
                .len() as i32;
            elt_params
                .element_coefficients
                .newton_optimization(elt_params.order);
            elt_params
                .mass_coefficients
                .newton_optimization(elt_params.order);
        }
    }

    pub fn nth_element_power_sum(&self, symbol: &PhiKey, order: usize) -> f64 {
        let phi = self
            .get(symbol)
            .unwrap_or_else(|| panic!("Expected element {} in constants", symbol));
        phi.element_coefficients.power_sum[order]
    }

    pub fn nth_element_power_sum_mass(&self, symbol: &str, order: usize) -> f64 {
        let phi = self
            .get(symbol)
            .unwrap_or_else(|| panic!("Expected element {} in constants", symbol));
        phi.mass_coefficients.power_sum[order]
    }
}

#[derive(Debug, Clone)]
pub struct IsotopicConstantsCache<'lifespan> {
    pub(crate) cache: HashMap<&'lifespan PhiKey, PhiConstants, RandomState>,
}

impl<'lifespan> IsotopicConstantsCache<'lifespan> {
    pub fn new() -> IsotopicConstantsCache<'lifespan> {
        IsotopicConstantsCache {
            cache: HashMap::with_capacity_and_hasher(6, RandomState::default()),
        }
    }

    pub fn checkout(&mut self, symbol: &PhiKey) -> Option<PhiConstants> {
        self.cache.remove(symbol)
    }

    pub fn receive(&mut self, symbol: &'lifespan PhiKey, constants: PhiConstants) -> bool {
        let entry = self.cache.entry(symbol);
        match entry {
            Entry::Vacant(ent) => {
                ent.insert(constants);
                true
            }
            Entry::Occupied(mut ent) => {
                if ent.get().order > constants.order {
                    false
                } else {
                    ent.insert(constants);
                    true
                }
            }
        }
    }

    pub fn receive_from(&mut self, mut params: IsotopicConstants<'lifespan>) {
        for (k, v) in params.constants.drain(..) {
            self.receive(k, v);
        }
    }
}

impl Default for IsotopicConstantsCache<'_> {
    fn default() -> Self {
        Self::new()
    }
}

fn max_variants(composition: &ChemicalComposition) -> i32 {
    let acc = composition
        .iter()
        .map(|(elt, cnt)| elt.element.max_neutron_shift as i32 * *cnt)
        .sum();
    acc
}


/// Guess the maximum number of peaks to generate for a chemical composition's isotopic pattern,
/// up to `max_npeaks`, using a [`poisson_approximate_n_peaks_of`].
pub fn guess_npeaks(composition: &ChemicalComposition, max_npeaks: i32) -> i32 {
    // let total_variants = max_variants(composition);
    // let npeaks = (total_variants as f64).sqrt() as i32 - 2;
    // let result = cmp::min(cmp::max(npeaks, 3), max_npeaks);
    let result = poisson_approximate_n_peaks_of(composition.mass(), 0.9999) as i32;
    result.min(max_npeaks)
}

struct ElementPolynomialMap<'a> {
    pub polynomials: Vec<(&'a str, DVec)>,
}

impl<'a> ElementPolynomialMap<'a> {
    pub fn new(size: usize) -> ElementPolynomialMap<'a> {
        ElementPolynomialMap {
            polynomials: Vec::with_capacity(size),
        }
    }

    pub fn set(&mut self, symbol: &'a str, polynomial: DVec) {
        self.polynomials.push((symbol, polynomial));
    }

    pub fn get(&self, symbol: &'a str) -> &DVec {
        &self
            .polynomials
            .iter()
            .find(|(k, _)| *k == symbol)
            .unwrap()
            .1
    }
}

#[derive(Debug)]
pub struct IsotopicDistribution<'lifespan, 'outer> {
    pub composition: ChemicalComposition<'outer>,
    pub constants: IsotopicConstants<'lifespan>,
    pub order: i32,
    pub average_mass: f64,
    pub monoisotopic_peak: Peak,
    pub max_variants: i32,
}

impl<'lifespan: 'transient, 'transient, 'outer: 'lifespan> IsotopicDistribution<'lifespan, 'outer> {
    pub fn from_composition(
        composition: ChemicalComposition<'lifespan>,
        order: impl Into<NumPeaksSpec>,
    ) -> IsotopicDistribution<'lifespan, 'lifespan> {
        let mut inst = IsotopicDistribution::resolve_request(composition, order.into());
        inst.populate_constants();
        inst
    }

    /// Resolve a peak request the way [`isotopic_variants`] does: a fixed count or a signal
    /// fraction names the order of the last requested peak, which is applied as it is.
    /// Handing it to `fill_from_composition` alone would read it as one peak more.
    fn resolve_request(
        composition: ChemicalComposition<'outer>,
        spec: NumPeaksSpec,
    ) -> IsotopicDistribution<'lifespan, 'outer> {
        let npeaks = spec.num_peaks(&composition);
        let mut inst = IsotopicDistribution::fill_from_composition(composition, npeaks);
        if spec != NumPeaksSpec::Guess {
            inst.update_order(npeaks);
        }
        inst
    }

    fn fill_from_composition(
        composition: ChemicalComposition<'outer>,
        order: impl Into<NumPeaksSpec>,
    ) -> IsotopicDistribution<'lifespan, 'outer> {
        let order: NumPeaksSpec = order.into();
        let order = order.num_peaks(&composition);

        let mut inst = IsotopicDistribution {
            constants: IsotopicConstants::new(composition.len()),
            max_variants: max_variants(&composition),
            composition,
            order: 0,
            average_mass: 0.0,
            monoisotopic_peak: Peak {
                mz: 0.0,
                intensity: 0.0,
            },
        };
        inst.update_order(order + 1);
        inst.monoisotopic_peak = inst.make_monoisotopic_peak();
        inst
    }

    pub fn from_composition_and_cache(
        composition: ChemicalComposition<'outer>,
        order: impl Into<NumPeaksSpec>,
        cache: &'transient mut IsotopicConstantsCache<'outer>,
    ) -> IsotopicDistribution<'lifespan, 'outer> {
        let mut inst = IsotopicDistribution::resolve_request(composition, order.into());
        inst.populate_constants_from_cache(cache);
        inst
    }

    fn populate_constants_from_cache(
        &mut self,
        cache: &'transient mut IsotopicConstantsCache<'outer>,
    ) {
        for (elt, _cnt) in self.composition.iter() {
            match cache.checkout(&elt.element.symbol) {
                None => {
                    self.constants.add(elt.element);
                }
                Some(isoconst) => {
                    self.constants.set(&elt.element.symbol, isoconst);
                }
            };
        }
        self.constants.update();
    }

    fn populate_constants(&mut self) {
        for (elt, _cnt) in self.composition.iter() {
            self.constants.add(elt.element);
        }
        self.constants.update();
    }

    fn make_monoisotopic_peak(&self) -> Peak {
        let mz = self.composition.mass();
        let mut intensity = 0.0;
        for (elt, _cnt) in self.composition.iter() {
            let element = elt.element;
            intensity += element.isotopes[&element.most_abundant_isotope]
                .abundance
                .ln();
        }
        intensity = intensity.exp();
        Peak { mz, intensity }
    }

    pub fn update_order(&mut self, order: i32) {
        if order == -1 {
            self.order = self.max_variants;
        } else {
            self.order = cmp::min(order, self.max_variants);
        }
        self.constants.order = self.order;
    }

    pub fn phi_for(&self, order: usize) -> f64 {
        let mut phi = 0.0;

        for (elt, cnt) in self.composition.iter() {
            let element = elt.element;
            phi += self
                .constants
                .nth_element_power_sum(element.symbol.as_ref(), order)
                * (*cnt as f64);
        }
        phi
    }

    pub fn phi_mass_for(&self, element: &'lifespan ElementSpecification, order: usize) -> f64 {
        let mut phi = self.composition.iter().fold(0.0, |phi, (elt, cnt)| {
            let coef = if elt.element == element.element {
                cnt - 1
            } else {
                *cnt
            };
            phi + self
                .constants
                .nth_element_power_sum(elt.element.symbol.as_ref(), order)
                * coef as f64
        });
        phi += self
            .constants
            .nth_element_power_sum_mass(element.element.symbol.as_ref(), order);
        phi
    }

    pub fn phi_values(&self, accumulator: &mut DVec) {
        accumulator.push(0.0);
        (1..(self.order as usize + 1)).for_each(|i| {
            accumulator.push(self.phi_for(i));
        });
    }

    pub fn phi_values_mass(
        &self,
        element: &'lifespan ElementSpecification,
        accumulator: &mut DVec,
    ) {
        accumulator.push(0.0);
        (1..(self.order as usize + 1)).for_each(|i| {
            accumulator.push(self.phi_mass_for(element, i));
        });
    }

    pub fn probability_vector(&self) -> DVec {
        let mut phi_vector = DVec::with_capacity(self.order as usize + 2);
        self.phi_values(&mut phi_vector);
        let n = phi_vector.len();

        // The probability vector will be in the elementary symmetric polynomoial
        let mut params = PolynomialParameters {
            power_sum: phi_vector,
            elementary_symmetric_polynomial: DVec::with_capacity(n),
        };
        params.newton_optimization(self.max_variants);

        for i in 0..params.elementary_symmetric_polynomial.len() {
            let sign = if i % 2 == 0 { 1.0 } else { -1.0 };
            params.elementary_symmetric_polynomial[i] *= self.monoisotopic_peak.intensity * sign;
        }
        params.elementary_symmetric_polynomial
    }

    fn build_polynomial_map(&self) -> ElementPolynomialMap {
        let mut power_sum = DVec::new();
        let mut ep_map = ElementPolynomialMap::new(self.composition.len());

        for (elt, _) in self.composition.iter() {
            power_sum.clear();
            self.phi_values_mass(elt, &mut power_sum);
            let elementary_symmetric_polynomial = DVec::with_capacity(power_sum.len());
            let mut param = PolynomialParameters {
                elementary_symmetric_polynomial,
                power_sum,
            };
            param.newton_optimization(self.max_variants);
            power_sum = param.power_sum;
            ep_map.set(
                elt.element.symbol.as_ref(),
                param.elementary_symmetric_polynomial,
            );
        }
        ep_map
    }

    pub fn center_mass_vector(&self, probability_vector: &DVec) -> DVec {
        let mut mass_vector = DVec::with_capacity(probability_vector.len() + 3);
        let base_intensity = self.monoisotopic_peak.intensity;

        let ep_map = self.build_polynomial_map();

        for i in 0..(self.order + 1) as usize {
            let sign = if i % 2 == 0 { 1.0 } else { -1.0 };
            let mut center = 0.0;
            for (elt, cnt) in self.composition.iter() {
                let element = elt.element;
                let ele_sym_poly = ep_map.get(element.symbol.as_ref());
                let mono_mass = element.most_abundant_mass;
                let polynomial_term = ele_sym_poly[i];
                center += (*cnt as f64) * (sign * polynomial_term) * base_intensity * mono_mass;
            }
            if probability_vector[i] == 0.0 {
                mass_vector.push(0.0);
            } else {
                mass_vector.push(center / probability_vector[i]);
            }
        }
        mass_vector
    }

    pub fn isotopic_variants(&self, charge: i32, charge_carrier: f64) -> PeakList {
        let probability_vector = self.probability_vector();
        let center_mass_vector = self.center_mass_vector(&probability_vector);

        let total: f64 = probability_vector.iter().sum();
        let mut peak_list = PeakList::with_capacity((self.order + 1) as usize);

        let mut has_real_peaks = false;
        for (center_mass_i, intensity_i) in center_mass_vector
            .iter()
            .copied()
            .zip(probability_vector)
            .take(self.order as usize + 1)
        {
            let adjusted_mz = if charge != 0 {
                mass_charge_ratio(center_mass_i, charge, charge_carrier)
            } else {
                center_mass_i
            };

            let peak = Peak {
                mz: adjusted_mz,
                intensity: intensity_i / total,
            };

            // If we've already started accumulating *real* peaks (int > 1e-10) already, we must
            // be tailing off so exit early. Otherwise, keep accumulating. Check if each
            // peak we do collect qualify as *real*.
            if peak.intensity < 1e-10 {
                if !has_real_peaks {
                    peak_list.push(peak);
                }
                // a negligible variant after a real one is skipped, not taken as the end of the
                // pattern: variants beyond an interior gap or valley can carry real signal
            } else {
                has_real_peaks = true;
                peak_list.push(peak);
            }
        }

        peak_list.sort_by(|a, b| a.mz.partial_cmp(&b.mz).unwrap());
        peak_list
    }
}


/// Generate a coarse isotopic pattern from a [`ChemicalComposition`] with the specified charge state
/// and number of peaks.
///
/// # Parameters
/// - `composition`: The chemical composition to compute the isotopic pattern for.
/// - `npeaks`: A value that coerces to [`NumPeaksSpec`] which determines how many isotopic
///             peaks to generate.
/// - `charge`: The charge state to compute the isotopic pattern in.
/// - `charge_carrier`: The mass shift of the charge carrier, e.g. the mass of a proton.
pub fn isotopic_variants<'a, C: Into<ChemicalComposition<'a>>>(
    composition: C,
    npeaks: impl Into<NumPeaksSpec>,
    charge: i32,
    charge_carrier: f64,
) -> PeakList {
    let composition = composition.into();
    let spec: NumPeaksSpec = npeaks.into();
    let npeaks = spec.num_peaks(&composition);

    let mut dist = IsotopicDistribution::fill_from_composition(composition, npeaks);
    if spec != NumPeaksSpec::Guess {
        // `npeaks` is already the order of the last requested peak; re-reading it as a request
        // would turn an order of 0 (exactly one peak) into "guess"
        dist.update_order(npeaks);
    }
    dist.populate_constants();
    dist.isotopic_variants(charge, charge_carrier)
}

/// Handle different strategies for specifying the number of isotopic peaks to generate.
///
/// This argument type tries to convert from a range of viable types.
#[derive(Debug, Default, Clone, Copy, PartialEq)]
pub enum NumPeaksSpec {
    /// Guess the number of peaks to include. By default this will be enough peaks to
    /// include 99.99% of the signal or 300, whichever is fewer. Approximated using
    /// [`poisson_approximate_n_peaks_of`].
    #[default]
    Guess,
    /// Include exactly the specified number of peaks
    FixedCount(i32),
    /// Include the specified percentage of the total signal, approximated using
    /// [`poisson_approximate_n_peaks_of`]
    PercentSignal(f32),
}

impl NumPeaksSpec {
    pub fn num_peaks(&self, composition: &ChemicalComposition) -> i32 {
        match self {
            Self::Guess => guess_npeaks(composition, 300),
            Self::FixedCount(i) => i.saturating_sub(1).max(0),
            Self::PercentSignal(val) => {
                (poisson_approximate_n_peaks_of(composition.mass(), *val as f64) as i32 - 1).max(0)
            }
        }
    }
}

impl From<f32> for NumPeaksSpec {
    fn from(value: f32) -> Self {
        Self::PercentSignal(value)
    }
}

impl From<i32> for NumPeaksSpec {
    fn from(value: i32) -> Self {
        if value == 0 {
            Self::Guess
        } else {
            Self::FixedCount(value)
        }
    }
}

impl From<usize> for NumPeaksSpec {
    fn from(value: usize) -> Self {
        match value {
            0 => Self::Guess,
            _ => Self::FixedCount(value as i32),
        }
    }
}

impl<T: Into<NumPeaksSpec>> From<Option<T>> for NumPeaksSpec {
    fn from(value: Option<T>) -> Self {
        match value {
            Some(i) => i.into(),
            None => Self::Guess,
        }
    }
}

#[derive(Debug, Clone)]
pub struct BafflingRecursiveIsotopicPatternGenerator<'lifespan> {
    parameter_cache: IsotopicConstantsCache<'lifespan>,
}

impl<'lifespan, 'outer: 'lifespan> BafflingRecursiveIsotopicPatternGenerator<'lifespan> {
    pub fn new() -> BafflingRecursiveIsotopicPatternGenerator<'lifespan> {
        BafflingRecursiveIsotopicPatternGenerator {
            parameter_cache: IsotopicConstantsCache::new(),
        }
    }

    /// Generate a coarse isotopic pattern from a [`ChemicalComposition`] with the specified charge state
    /// and number of peaks.
    ///
    /// # Parameters
    /// - `composition`: The chemical composition to compute the isotopic pattern for.
    /// - `npeaks`: A value that coerces to [`NumPeaksSpec`] which determines how many isotopic
    ///             peaks to generate.
    /// - `charge`: The charge state to compute the isotopic pattern in.
    /// - `charge_carrier`: The mass shift of the charge carrier, e.g. the mass of a proton.
    #[inline]
    pub fn isotopic_variants<C: Into<ChemicalComposition<'outer>>>(
        &mut self,
        composition: C,
        npeaks: impl Into<NumPeaksSpec>,
        charge: i32,
        charge_carrier: f64,
    ) -> PeakList {
        let composition = composition.into();
        let spec: NumPeaksSpec = npeaks.into();
        let npeaks = spec.num_peaks(&composition);
        let mut dist = IsotopicDistribution::fill_from_composition(composition, npeaks);
        if spec != NumPeaksSpec::Guess {
            dist.update_order(npeaks);
        }
        dist.populate_constants_from_cache(&mut self.parameter_cache);
        let peaks = dist.isotopic_variants(charge, charge_carrier);
        self.parameter_cache.receive_from(dist.constants);
        peaks
    }
}

impl Default for BafflingRecursiveIsotopicPatternGenerator<'_> {
    fn default() -> Self {
        Self::new()
    }
}

#[cfg(test)]
mod test {
    use super::super::poisson_approximate_n_peaks_of;
    use super::*;
    use crate::PROTON;

    #[test]
    fn test_baffling() {
        let comp = ChemicalComposition::parse("C6H12O6").unwrap();
        let peaks = isotopic_variants(comp, 5, 0, PROTON);
        assert_eq!(peaks.len(), 5);
        assert!((peaks[0].mz - 180.06339).abs() < 1e-6);
        assert!((peaks[0].intensity - 0.9226372340115745).abs() < 1e-6)
    }

    #[test]
    fn test_sulfur() {
        let comp = ChemicalComposition::parse("C6H13O5S1H3").unwrap();
        let peaks = isotopic_variants(comp, 0, 1, PROTON);
        assert_eq!(peaks.len(), 5);
        assert!((peaks[0].intensity() - 0.8782583).abs() < 1e-6);
    }

    #[test]
    fn test_baffling_generator() {
        let comp = ChemicalComposition::parse("C6H12O6").unwrap();
        let mut generator = BafflingRecursiveIsotopicPatternGenerator::new();
        let peaks = generator.isotopic_variants(comp.clone(), 5, 0, PROTON);
        assert_eq!(peaks.len(), 5);
        assert!((peaks[0].mz - 180.06339).abs() < 1e-6);
        assert!((peaks[0].intensity - 0.9226372340115745).abs() < 1e-6);
        let peaks = generator.isotopic_variants(comp.clone(), 5, 0, PROTON);
        assert_eq!(peaks.len(), 5);
        assert!((peaks[0].mz - 180.06339).abs() < 1e-6);
        assert!((peaks[0].intensity - 0.9226372340115745).abs() < 1e-6);
    }

    #[test]
    fn test_max_variants() {
        let comp = ChemicalComposition::parse("C6H12O6").unwrap();
        let comp = comp * 6;
        let m = comp.mass();
        let max_vars = guess_npeaks(&comp, 300) as usize;
        let approx = poisson_approximate_n_peaks_of(m, 0.999);
        assert!(max_vars > approx, "{} > {}", max_vars, approx);
    }

    #[test]
    fn test_burn_in() {
        let comp = ChemicalComposition::parse("C6H12O6").unwrap();
        let comp = comp * (2i32.pow(10u32));
        let peaks = isotopic_variants(comp.clone(), NumPeaksSpec::Guess, 0, PROTON);
        eprintln!("{peaks:?}");
        assert!(!peaks.is_empty())
    }
}
