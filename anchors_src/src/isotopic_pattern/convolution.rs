//! Generate fine-grained isotopic patterns using a simple convolutional algorithm.
//!
//! Isotopic fine structure may

use std::mem::swap;

use super::{Peak, PeakList, TheoreticalIsotopicPattern};
use crate::{mass_charge_ratio, ChemicalComposition};

fn convolve_with(
    dist: &[(f64, f64)],
    element: &[(f64, f64)],
    out: &mut Vec<(f64, f64)>,
    abundance_threshold: f64,
) {
    for (iso_mass, iso_abundance) in element.iter().copied() {
        for (mz, inten) in dist.iter().copied() {
            let abundance = inten * iso_abundance;
            if abundance < abundance_threshold {
                continue;
            }
            out.push((mz + iso_mass, abundance))
        }
    }
}

fn convolve_pow(
    dist: &[(f64, f64)],
    n: i32,
    out: &mut Vec<(f64, f64)>,
    abundance_threshold: f64,
) {
    if n == 0 {
        out.push((0.0, 1.0))
    } else if n == 1 {
        out.extend_from_slice(dist);
    } else {
        let mut power = 2;
        let mut buffer: Vec<_> = Vec::from(dist);

        while power <= n {
            convolve_with(&buffer, &buffer, out, abundance_threshold);
            swap(&mut buffer, out);
            out.clear();
            power *= 2;
        }

        if power / 2 < n {
            let mut out2 = Vec::with_capacity(buffer.len() / 2);
            convolve_pow(dist, n - power / 2, &mut out2, abundance_threshold);
            convolve_with(&buffer, &out2, out, abundance_threshold);
        } else {
            swap(&mut buffer, out);
        }
    }
}


/// Generate a fine-grained isotopic pattern from a [`ChemicalComposition`]
/// with the specified charge state.
///
/// # Parameters
///
/// - `composition`: The chemical composition to compute the isotopic pattern for.
/// - `charge`: The charge state to compute the isotopic pattern in.
/// - `charge_carrier`: The mass shift of the charge carrier, e.g. the mass of a proton.
/// - `abundance_threshold`: The minimum abundance of an isotopologue to consider for inclusion.
///                          This applies to both the intermediate convolutions as well as the
///                          final peak list after normalization.
/// # Notes
///
/// This method will generate isotopic fine structure, which means that
/// it will contain many, many low abundance peaks corresponding to isotopomers
/// of each isotopologue.
/// ![An isotopic fine structure diagram][fine_structure]
#[cfg_attr(feature = "doc-only", cfg_attr(all(),
doc = ::embed_doc_image::embed_image!("fine_structure", "doc/img/fine_structure.png")))]
#[cfg_attr(
not(feature = "doc-only"),
doc = "**Doc only not enabled**. Compile with feature `doc-only` and Rust version >= 1.54 \
           to enable."
)]
pub fn isotopic_convolution<'a, C: Into<ChemicalComposition<'a>>>(
    composition: C,
    charge: i32,
    charge_carrier: f64,
    abundance_threshold: f64,
) -> PeakList {
    let composition: ChemicalComposition<'a> = composition.into();
    let mut buffer = Vec::new();
    let mut out = Vec::new();
    let mut tmp = Vec::new();
    let mut tmp2 = Vec::new();
    for (i, (elt, count)) in composition.iter().enumerate() {
        buffer.extend(elt.element.isotopes.values().map(|i| (i.mass, i.abundance)));
        convolve_pow(&buffer, *count, &mut tmp, abundance_threshold);
        if i == 0 {
            swap(&mut tmp, &mut out);
        } else {
            convolve_with(&tmp, &out, &mut tmp2, abundance_threshold);
            swap(&mut out, &mut tmp2);
        }
        tmp.clear();
        tmp2.clear();
        buffer.clear();
    }
    out.sort_by(|a, b| a.0.total_cmp(&b.0));
    let peaks: Vec<_> = out.into_iter()
        .map(|(mass, intensity)| Peak {
            mz: if charge != 0 {
                mass_charge_ratio(mass, charge, charge_carrier)
            } else {
                mass
            },
            intensity,
        })
        .collect();

    let peaks = TheoreticalIsotopicPattern::from(peaks);
    peaks.normalize().ignore_below(abundance_threshold).peaks
}

#[cfg(test)]
mod test {
    use crate::PROTON;

    use super::*;

    #[test]
    fn test_base() {
        let comp = ChemicalComposition::parse("C3O4").unwrap();
        let peaks = isotopic_convolution(comp, 0, PROTON, 0.001);
        dbg!(&peaks);
    }
}
