//! Define peaks and peak lists for theoretical isotopic patterns.
//!
use std::cmp;
use std::fmt;
use std::ops;
use std::ops::Range;

#[cfg(feature = "serde")]
use serde::{Deserialize, Serialize};

#[derive(Debug, Clone, Copy, Default)]
#[cfg_attr(feature = "serde", derive(Serialize, Deserialize))]
/**A theoretical peak for an isotopic pattern */
pub struct Peak {
    /// The m/z of the isotopic peak
    pub mz: f64,
    /// The theoretical abundance of the isotopic peak, usually expressed as a
    /// percentage of total signal, unless scaled.
    pub intensity: f64,
}

impl fmt::Display for Peak {
    fn fmt(&self, f: &mut fmt::Formatter) -> fmt::Result {
        write!(f, "Peak({}, {})", self.mz, self.intensity)
    }
}

impl cmp::PartialEq<Peak> for Peak {
    #[inline]
    fn eq(&self, other: &Peak) -> bool {
        if (self.mz - other.mz).abs() > 1e-3 || (self.intensity - other.intensity).abs() > 1e-3 {
            return false;
        }
        true
    }
}

impl Eq for Peak {}

impl cmp::PartialOrd<Peak> for Peak {
    #[inline]
    fn partial_cmp(&self, other: &Peak) -> Option<cmp::Ordering> {
        self.mz.partial_cmp(&other.mz)
    }
}

impl Peak {
    #[inline]
    pub fn mz(&self) -> f64 {
        self.mz
    }

    #[inline]
    pub fn intensity(&self) -> f32 {
        self.intensity as f32
    }
}

#[cfg(feature = "mzpeaks")]
mod mzpeaks_interface {
    use super::*;
    use mzpeaks;

    impl mzpeaks::CoordinateLike<mzpeaks::MZ> for Peak {
        #[inline]
        fn coordinate(&self) -> f64 {
            self.mz
        }
    }

    impl mzpeaks::IntensityMeasurement for Peak {
        #[inline]
        fn intensity(&self) -> f32 {
            self.intensity()
        }
    }

    impl mzpeaks::IndexedCoordinate<mzpeaks::MZ> for Peak {
        fn get_index(&self) -> mzpeaks::IndexType {
            0
        }

        fn set_index(&mut self, _index: mzpeaks::IndexType) {}
    }
}

pub type PeakList = Vec<Peak>;

#[derive(Debug)]
#[cfg_attr(feature = "serde", derive(Serialize, Deserialize))]
/**
A theoretical isotopic pattern that supports a variety of mutating
transformations.
*/
pub struct TheoreticalIsotopicPattern {
    pub peaks: PeakList,
    pub origin: f64,
}

impl Clone for TheoreticalIsotopicPattern {
    fn clone(&self) -> Self {
        Self { peaks: self.peaks.clone(), origin: self.origin }
    }

    fn clone_from(&mut self, source: &Self) {
        self.peaks.clear();
        self.origin = source.origin;
        self.peaks.extend_from_slice(&source.peaks);
    }
}

impl TheoreticalIsotopicPattern {
    #[inline]
    pub fn new(peaks: PeakList, origin: f64) -> TheoreticalIsotopicPattern {
        TheoreticalIsotopicPattern { peaks, origin }
    }

    #[inline]
    pub fn len(&self) -> usize {
        self.peaks.len()
    }

    #[must_use]
    pub fn is_empty(&self) -> bool {
        self.peaks.is_empty()
    }

    #[inline]
    /**
    Clone this peak list, omitting the last peak and normalizing it
    along the way.
    */
    pub fn clone_drop_last(&self) -> TheoreticalIsotopicPattern {
        let n = self.len();
        let mut peaks = PeakList::with_capacity(n);
        for (i, peak) in self.peaks.iter().enumerate() {
            if i + 1 == n {
                break;
            }
            peaks.push(*peak);
        }

        let result = TheoreticalIsotopicPattern {
            peaks,
            origin: self.origin,
        };
        result.normalize()
    }

    /**
    Copy a slice of this isotopic pattern and re-normalize it so that slice sums to 1.0
    */
    pub fn slice_normalized(&self, range: Range<usize>) -> Self {
        let slc = &self.peaks[range];
        let subset = Self::new(slc.to_vec(), self.origin);
        subset.normalize()
    }

    /// Create an iterator that yields successively right-truncated versions of ``self`` as long as those
    /// truncations cover at least ``threshold`` percent of the original isotopic pattern
    pub fn incremental_truncation(self, threshold: f64) -> IncrementalTruncationIter {
        IncrementalTruncationIter::new(self.normalize(), threshold)
    }

    #[inline]
    /**
    Shift the m/z of each peak in the list by `offset`
    */
    pub fn shift(mut self, offset: f64) -> TheoreticalIsotopicPattern {
        self.origin += offset;
        for peak in &mut self {
            peak.mz += offset;
        }
        self
    }

    #[inline]
    /**Clone the peak list, shifting the m/z of the generated peaks by `offset`
    along the way*/
    pub fn clone_shifted(&self, offset: f64) -> TheoreticalIsotopicPattern {
        let n = self.len();
        let mut peaks = PeakList::with_capacity(n);
        for peak in self {
            let mut shifted = *peak;
            shifted.mz += offset;
            peaks.push(shifted);
        }
        TheoreticalIsotopicPattern::new(peaks, self.origin + offset)
    }

    #[inline]
    /**Compute the sum of the intensities for this peak list*/
    pub fn total(&self) -> f64 {
        self.peaks.iter().map(|p| p.intensity).sum()
    }

    #[inline]
    /**Scale the intensity of each peak by `factor` */
    pub fn scale_by(mut self, factor: f64) -> TheoreticalIsotopicPattern {
        for p in self.peaks.iter_mut() {
            p.intensity *= factor;
        }
        self
    }

    #[inline]
    /**Normalize the intensity of each peak in the isotopic pattern such that the total
    sums to 1.0*/
    pub fn normalize(self) -> TheoreticalIsotopicPattern {
        let total = self.total();
        self.scale_by(1.0 / total)
    }

    #[inline]
    /**Truncate the peak list after the cumulative intensity meets or exceeds `threshold` */
    pub fn truncate_after(mut self, threshold: f64) -> TheoreticalIsotopicPattern {
        let mut total = 0.0;
        // keep every peak when the threshold is never reached
        let mut stop_index = self.peaks.len().saturating_sub(1);
        for (i, p) in self.peaks.iter().enumerate() {
            total += p.intensity;
            if total >= threshold {
                stop_index = i;
                break;
            }
        }
        self.peaks.truncate(stop_index + 1);
        self.normalize()
    }

    #[inline]
    /**Drop any peaks in the isotopic pattern whose intensity is below `threshold` */
    pub fn ignore_below(mut self, threshold: f64) -> TheoreticalIsotopicPattern {
        let mut acc = PeakList::with_capacity(self.len());
        for peak in self.peaks.drain(..) {
            if peak.intensity >= threshold {
                acc.push(peak);
            }
        }
        self.peaks = acc;
        self.normalize()
    }

    pub fn truncate_after_ignore_below_shift_normalize(
        mut self,
        truncate_threshold: f64,
        ignore_below_threshold: f64,
        shift: f64,
    ) -> Self {
        let mut total = 0.0;
        // keep every peak when the threshold is never reached
        let mut stop_index = self.peaks.len().saturating_sub(1);
        for (i, p) in self.peaks.iter().enumerate() {
            total += p.intensity;
            if total >= truncate_threshold {
                stop_index = i;
                break;
            }
        }

        self.peaks.truncate(stop_index + 1);
        // the threshold applies to normalised intensities: p / total >= t  <=>  p >= t * total
        let ignore_below_threshold = ignore_below_threshold * total;
        let mut acc = PeakList::with_capacity(stop_index);
        for mut peak in self.peaks.into_iter() {
            if peak.intensity >= ignore_below_threshold {
                peak.mz += shift;
                acc.push(peak);
            } else {
                total -= peak.intensity;
            }
        }
        self.peaks = acc;

        for peak in self.peaks.iter_mut() {
            peak.intensity /= total;
        }

        self
    }

    #[inline]
    pub fn iter(&self) -> TheoreticalIsotopicPatternIter {
        self.peaks.iter()
    }

    #[inline]
    pub fn iter_mut(&mut self) -> TheoreticalIsotopicPatternIterMut {
        self.peaks.iter_mut()
    }
}

impl fmt::Display for TheoreticalIsotopicPattern {
    fn fmt(&self, f: &mut fmt::Formatter) -> fmt::Result {
        write!(f, "TheoreticalIsotopicPattern([")?;
        let n = self.len() - 1;
        for (i, peak) in self.into_iter().enumerate() {
            write!(f, "{}", peak)?;
            if i != n {
                write!(f, ", ")?;
            }
        }
        write!(f, "])")?;
        Ok(())
    }
}

impl ops::Index<usize> for TheoreticalIsotopicPattern {
    type Output = Peak;

    #[inline]
    fn index(&self, i: usize) -> &Self::Output {
        &(self.peaks[i])
    }
}

impl IntoIterator for TheoreticalIsotopicPattern {
    type Item = Peak;

    type IntoIter = std::vec::IntoIter<Self::Item>;

    fn into_iter(self) -> Self::IntoIter {
        self.peaks.into_iter()
    }
}

impl<'a> IntoIterator for &'a TheoreticalIsotopicPattern {
    type Item = &'a Peak;
    type IntoIter = TheoreticalIsotopicPatternIter<'a>;

    fn into_iter(self) -> Self::IntoIter {
        self.peaks.iter()
    }
}

impl<'a> IntoIterator for &'a mut TheoreticalIsotopicPattern {
    type Item = &'a mut Peak;
    type IntoIter = TheoreticalIsotopicPatternIterMut<'a>;

    fn into_iter(self) -> Self::IntoIter {
        self.peaks.iter_mut()
    }
}

impl From<PeakList> for TheoreticalIsotopicPattern {
    #[inline]
    fn from(src: PeakList) -> Self {
        let origin = src.first().map(|p| p.mz).unwrap_or(0.0);
        Self::new(src, origin)
    }
}


impl From<TheoreticalIsotopicPattern> for PeakList {
    #[inline]
    fn from(src: TheoreticalIsotopicPattern) -> Self {
        src.peaks
    }
}


impl PartialEq for TheoreticalIsotopicPattern {
    fn eq(&self, other: &Self) -> bool {
        if self.len() != other.len() {
            return false;
        }
        for (a, b) in self.iter().zip(other.iter()) {
            if a != b {
                return false;
            }
        }
        true
    }
}

impl PartialEq<[Peak]> for TheoreticalIsotopicPattern {
    fn eq(&self, other: &[Peak]) -> bool {
        if self.len() != other.len() {
            return false;
        }
        for (a, b) in self.iter().zip(other.iter()) {
            if a != b {
                return false;
            }
        }
        true
    }
}

impl Eq for TheoreticalIsotopicPattern {}

// Iterators

pub type TheoreticalIsotopicPatternIter<'a> = std::slice::Iter<'a, Peak>;
pub type TheoreticalIsotopicPatternIterMut<'a> = std::slice::IterMut<'a, Peak>;

/**
An [`Iterator`] that produces successively truncated versions of a [`TheoreticalIsotopicPattern`]
*/
pub struct IncrementalTruncationIter {
    pub threshold: f64,
    pub template: TheoreticalIsotopicPattern,
    index: usize,
    cumulative: Vec<f64>,
}

impl IncrementalTruncationIter {
    pub fn new(template: TheoreticalIsotopicPattern, threshold: f64) -> Self {
        let cumulative = template.iter().fold(
            Vec::with_capacity(template.len()),
            |mut state: Vec<f64>, p| {
                if state.is_empty() {
                    state.push(p.intensity);
                } else {
                    state.push(state.last().unwrap() + p.intensity);
                };
                state
            },
        );
        let index = template.len().saturating_sub(1);
        Self {
            template,
            threshold,
            index,
            cumulative,
        }
    }
}

impl Iterator for IncrementalTruncationIter {
    type Item = TheoreticalIsotopicPattern;

    fn next(&mut self) -> Option<Self::Item> {
        if self.index > 0 && self.cumulative[self.index] > self.threshold {
            let result = self.template.slice_normalized(0..self.index + 1);
            self.index = self.index.saturating_sub(1);
            Some(result)
        } else {
            None
        }
    }
}

#[cfg(test)]
mod test {
    use super::*;
    use crate::isotopic_pattern::poisson_approximation;

    fn make_tid() -> TheoreticalIsotopicPattern {
        TheoreticalIsotopicPattern::new(poisson_approximation(1200.0, 8, 2), 1200.0)
    }

    #[test]
    fn test_truncate_after() {
        let peaks = make_tid();
        let n = peaks.len();

        let peaks_trunc = peaks.clone().truncate_after(0.95);
        let nt = peaks_trunc.len();

        let trunc_frac: f64 = peaks.iter().take(nt).map(|p| p.intensity).sum();
        assert!(trunc_frac >= 0.95);
        let trunc_frac2: f64 = peaks.iter().take(nt - 1).map(|p| p.intensity).sum();
        assert!(trunc_frac2 <= 0.95);

        assert_eq!(n, 8);
        assert_eq!(nt, 3);
    }

    #[test]
    fn test_ignore_below() {
        let peaks = make_tid();
        let n = peaks.len();

        let peaks_trunc = peaks.clone().ignore_below(0.001);
        let nt = peaks_trunc.len();
        assert!(peaks.iter().skip(nt).all(|p| p.intensity <= 0.001));

        assert_eq!(n, 8);
        assert_eq!(nt, 5);
    }

    #[test]
    fn test_truncate_after_ignore_below() {
        let peaks = make_tid();

        let peaks_trunc = peaks
            .clone()
            .truncate_after_ignore_below_shift_normalize(0.95, 0.001, 0.0);
        let peaks_trunc2 = peaks.clone().truncate_after(0.95).ignore_below(0.001);

        assert_eq!(peaks_trunc, peaks_trunc2)
    }

    #[test]
    fn test_incremental_iter() {
        let peaks = make_tid();
        let forms: Vec<_> = peaks.clone().incremental_truncation(0.95).collect();
        assert!(forms.contains(&peaks));
        assert_eq!(forms.len(), 6);
        assert_eq!(forms.last().unwrap().len(), 3);
    }
}
