//! Approximate an isotopic distribution  for biomolecules using the Poisson distribution,
//! using the method described in [Bellew, 2006](https://doi.org/10.1093/bioinformatics/btl276).
//!
//! Bellew, M., Coram, M., Fitzgibbon, M., Igra, M., Randolph, T., Wang, P., May, D., Eng, J., Fang, R., Lin, C., Chen, J.,
//! Goodlett, D., Whiteaker, J., Paulovich, A., & Mcintosh, M. (2006). A suite of algorithms for the comprehensive analysis
//! of complex protein mixtures using high-resolution LC-MS. 22(15), 1902–1909. <https://doi.org/10.1093/bioinformatics/btl276>

use super::{Peak, PeakList};
use crate::mz::{mass_charge_ratio, PROTON};

const NEUTRON_SHIFT: f64 = 1.0033548378;
const LAMBDA_FACTOR: f64 = 1800.0;

/// See [`poisson_approximation`]
pub fn poisson_approximation_impl(
    mass: f64,
    n_peaks: usize,
    charge: i32,
    lambda_factor: f64,
) -> PeakList {
    let mut peak_list = PeakList::new();
    if n_peaks == 0 {
        return peak_list;
    }
    let lambda = mass / lambda_factor;
    let mut p_i = 1.0;
    let mut factorial_acc = 1.0;
    let mut total = 1.0;

    let mut intensities = Vec::with_capacity(n_peaks);
    intensities.push(1.0);
    for i in 1..n_peaks {
        p_i *= lambda;
        factorial_acc *= i as f64;
        let cur_intensity = p_i / factorial_acc;
        if cur_intensity.is_finite() {
            intensities.push(cur_intensity);
            total += cur_intensity;
        } else {
            intensities.push(0.0);
        }
    }
    (0..n_peaks).for_each(|i| {
        let neutral = mass + (i as f64 * NEUTRON_SHIFT);
        // charge 0 means neutral masses, as in the other pattern generators
        let mz = if charge != 0 {
            mass_charge_ratio(neutral, charge, PROTON)
        } else {
            neutral
        };
        let peak = Peak {
            mz,
            intensity: intensities[i] / total,
        };
        peak_list.push(peak);
    });

    peak_list
}

/// See [`poisson_approximate_n_peaks_of`]
pub fn poisson_approximate_n_peaks_of_impl(
    mass: f64,
    lambda_factor: f64,
    threshold: f64,
    max_iter: usize,
) -> usize {
    let lambda = mass / lambda_factor;
    let mut p_i = 1.0;
    let mut factorial_acc = 1.0;
    let mut acc = 1.0;

    let target_threshold = 1.0 - threshold;

    for i in 1..max_iter {
        p_i *= lambda;
        factorial_acc *= i as f64;
        let cur_intensity = p_i / factorial_acc;
        if cur_intensity.is_infinite() {
            return i;
        }
        acc += cur_intensity;
        if cur_intensity / acc < target_threshold {
            return i;
        }
    }
    max_iter
}

/// This algorithm approximates the isotopic pattern of `mass` at `charge`
/// with `n_peaks` peaks included.
///
/// This uses the $\lambda$ value from Bellew et al. To use another value,
/// use [`poisson_approximation_impl`]
pub fn poisson_approximation(mass: f64, n_peaks: usize, charge: i32) -> PeakList {
    poisson_approximation_impl(mass, n_peaks, charge, LAMBDA_FACTOR)
}

/// This algorithm approximates the number of peaks in an isotopic pattern of `mass`
/// until `threshold`% signal is generated.
///
/// This uses the $\lambda$ value from Bellew et al. To use another value,
/// use [`poisson_approximate_n_peaks_of_impl`]
pub fn poisson_approximate_n_peaks_of(mass: f64, threshold: f64) -> usize {
    poisson_approximate_n_peaks_of_impl(mass, LAMBDA_FACTOR, threshold, 255)
}

#[cfg(test)]
mod test {
    use crate::isotopic_pattern::poisson::NEUTRON_SHIFT;

    use super::super::{Peak, PeakList};
    use super::{poisson_approximate_n_peaks_of, poisson_approximation};

    #[test]
    fn test_approximate() {
        let peak_list: PeakList = poisson_approximation(750.0, 4, 2);
        assert_eq!(peak_list.len(), 4);

        let mut acc = 0.0;
        (0..peak_list.len()).for_each(|i| {
            let peak: &Peak = &peak_list[i];
            acc += peak.intensity;
            let mz_delta = peak.mz - 376.007276;
            if mz_delta < 0.0 {
                assert!(mz_delta > -1e-3);
            } else {
                assert!(mz_delta < NEUTRON_SHIFT * 4.0);
            }
        });
        assert!((acc - 1.0).abs() < 1e-3);
    }

    #[test]
    fn test_approximate_n_peaks() {
        let n = poisson_approximate_n_peaks_of(750.0, 0.95);
        assert_eq!(n, 3);
    }

    #[test]
    fn test_approximate_n_peaks_zero() {
        let n = poisson_approximate_n_peaks_of(0.0, 0.95);
        eprintln!("{n}");
        assert!(n > 0, "{n} should not be zero!");
    }

    #[test]
    fn test_approximate_n_peaks_overflow() {
        let n = poisson_approximate_n_peaks_of(39999000.234256, 0.9999);
        assert!(n > 0, "{n} should not be zero!");
    }
}
