pub const PROTON: f64 = 1.007276;

pub fn mass_charge_ratio(neutral_mass: f64, z: i32, charge_carrier: f64) -> f64 {
    let zf: f64 = z as f64;
    (neutral_mass + (zf * charge_carrier)) / zf.abs()
}

pub fn neutral_mass(mz: f64, z: i32, charge_carrier: f64) -> f64 {
    let zf: f64 = z as f64;
    (mz * zf.abs()) - (zf * charge_carrier)
}
