use std::ops::{Add, AddAssign, Mul, MulAssign, Neg, Sub, SubAssign};

use crate::abstract_composition::{
    ChemicalComposition as AbstractChemicalComposition, Iter as AbstractIter,
    IterMut as AbstractIterMut,
};
use crate::composition_list::ChemicalCompositionVec;
use crate::composition_map::ChemicalCompositionMap;
use crate::element_specification::ElementSpecification;

pub trait ChemicalCompositionLike<'inner, 'lifespan: 'inner> {
    /// Access a specific element's count, or `0` if that element is absent
    /// from the composition
    fn get(&self, elt_spec: &ElementSpecification<'lifespan>) -> i32;

    /// Set the count for a specific element. This will invalidate the mass cache.
    fn set(&mut self, elt_spec: ElementSpecification<'lifespan>, count: i32);

    /// Add some value to the count of the specified element. This will invalidate the
    /// mass cache.
    fn inc(&mut self, elt_spec: ElementSpecification<'lifespan>, count: i32) {
        let mut val = self.get(&elt_spec);
        val += count;
        self.set(elt_spec, val);
    }

    /*
    # Mass calculation Methods

    [`ChemicalCompositionLike`] has three methods for computing the monoisotopic
    mass of the composition it represents to handle mutability.
    */

    /**
    Get the mass of this chemical composition. If the mass cache
    has been populated, return that instead of repeating the calculation.
    */
    fn mass(&self) -> f64;

    /**
    Get the mass of this chemical composition, and cache it,
    or reuse the cached value. This requires mutability, so this method
    must be called explicitly.
    */
    fn fmass(&mut self) -> f64 {
        self.mass()
    }

    fn is_empty(&self) -> bool;

    fn len(&self) -> usize;

    fn iter(&self) -> AbstractIter<'_, 'lifespan>;

    fn iter_mut(&mut self) -> AbstractIterMut<'_, 'lifespan>;

    fn _mul_by(&mut self, scaler: i32) {
        for (_, v) in self.iter_mut() {
            *v *= scaler;
        }
    }
}

impl<'transient, 'lifespan: 'transient> ChemicalCompositionLike<'transient, 'lifespan>
    for ChemicalCompositionVec<'lifespan>
{
    fn get(&self, elt_spec: &ElementSpecification<'lifespan>) -> i32 {
        self.get(elt_spec)
    }

    fn set(&mut self, elt_spec: ElementSpecification<'lifespan>, count: i32) {
        self.set(elt_spec, count)
    }

    fn mass(&self) -> f64 {
        self.mass()
    }

    fn fmass(&mut self) -> f64 {
        self.fmass()
    }

    fn is_empty(&self) -> bool {
        self.is_empty()
    }

    fn len(&self) -> usize {
        self.len()
    }

    fn inc(&mut self, elt_spec: ElementSpecification<'lifespan>, count: i32) {
        self.inc(elt_spec, count)
    }

    fn _mul_by(&mut self, scaler: i32) {
        (*self) *= scaler;
    }

    fn iter(&self) -> AbstractIter<'_, 'lifespan> {
        AbstractIter::Vec(self.iter())
    }

    fn iter_mut(&mut self) -> AbstractIterMut<'_, 'lifespan> {
        AbstractIterMut::Vec(self.iter_mut())
    }
}

impl<'transient, 'lifespan: 'transient> ChemicalCompositionLike<'transient, 'lifespan>
    for ChemicalCompositionMap<'lifespan>
{
    fn get(&self, elt_spec: &ElementSpecification<'lifespan>) -> i32 {
        self.get(elt_spec)
    }

    fn set(&mut self, elt_spec: ElementSpecification<'lifespan>, count: i32) {
        self.set(elt_spec, count)
    }

    fn mass(&self) -> f64 {
        self.mass()
    }

    fn fmass(&mut self) -> f64 {
        self.fmass()
    }

    fn is_empty(&self) -> bool {
        self.is_empty()
    }

    fn len(&self) -> usize {
        self.len()
    }

    fn inc(&mut self, elt_spec: ElementSpecification<'lifespan>, count: i32) {
        self.inc(elt_spec, count)
    }

    fn _mul_by(&mut self, scaler: i32) {
        *self *= scaler;
    }

    fn iter(&self) -> AbstractIter<'_, 'lifespan> {
        AbstractIter::Map(self.iter())
    }

    fn iter_mut(&mut self) -> AbstractIterMut<'_, 'lifespan> {
        AbstractIterMut::Map(self.iter_mut())
    }
}

impl<'transient, 'lifespan: 'transient> ChemicalCompositionLike<'transient, 'lifespan>
    for AbstractChemicalComposition<'lifespan>
{
    fn get(&self, elt_spec: &ElementSpecification<'lifespan>) -> i32 {
        self.get(elt_spec)
    }

    fn set(&mut self, elt_spec: ElementSpecification<'lifespan>, count: i32) {
        self.set(elt_spec, count)
    }

    fn mass(&self) -> f64 {
        self.mass()
    }

    fn fmass(&mut self) -> f64 {
        self.fmass()
    }

    fn is_empty(&self) -> bool {
        self.is_empty()
    }

    fn len(&self) -> usize {
        self.len()
    }

    fn inc(&mut self, elt_spec: ElementSpecification<'lifespan>, count: i32) {
        self.inc(elt_spec, count)
    }

    fn _mul_by(&mut self, scaler: i32) {
        match self {
            AbstractChemicalComposition::Vec(c) => {
                *c *= scaler;
            }
            AbstractChemicalComposition::Map(c) => {
                *c *= scaler;
            }
        }
    }

    fn iter(&self) -> AbstractIter<'_, 'lifespan> {
        self.iter()
    }

    fn iter_mut(&mut self) -> AbstractIterMut<'_, 'lifespan> {
        self.iter_mut()
    }
}

macro_rules! impl_from {
    ($frm:ty, $to:ty) => {
        impl<'lifespan> From<$frm> for $to {
            fn from(value: $frm) -> Self {
                let mut inst = Self::default();
                value.iter().for_each(|(k, v)| {
                    inst.set(*k, *v);
                });
                inst
            }
        }
    };
}

impl_from!(
    ChemicalCompositionMap<'lifespan>,
    ChemicalCompositionVec<'lifespan>
);
impl_from!(
    ChemicalCompositionVec<'lifespan>,
    ChemicalCompositionMap<'lifespan>
);
impl_from!(
    AbstractChemicalComposition<'lifespan>,
    ChemicalCompositionVec<'lifespan>
);
impl_from!(
    AbstractChemicalComposition<'lifespan>,
    ChemicalCompositionMap<'lifespan>
);
impl_from!(
    ChemicalCompositionVec<'lifespan>,
    AbstractChemicalComposition<'lifespan>
);
impl_from!(
    ChemicalCompositionMap<'lifespan>,
    AbstractChemicalComposition<'lifespan>
);

macro_rules! impl_arithmetic {
    ($tp:ty) => {
        impl<'inner, 'lifespan: 'inner, C: ChemicalCompositionLike<'inner, 'lifespan>>
            Add<&'inner C> for &$tp
        {
            type Output = $tp;

            #[inline]
            fn add(self, other: &'inner C) -> Self::Output {
                let mut inst = self.clone();
                other.iter().for_each(|(k, v)| {
                    inst.inc(*k, *v);
                });
                return inst;
            }
        }

        impl<'inner, 'lifespan: 'inner, C: ChemicalCompositionLike<'inner, 'lifespan>>
            Sub<&'inner C> for &$tp
        {
            type Output = $tp;

            #[inline]
            fn sub(self, other: &'inner C) -> Self::Output {
                let mut inst = self.clone();
                other.iter().for_each(|(k, v)| {
                    let count = inst.get(k);
                    inst.set(*k, count - *v);
                });
                return inst;
            }
        }

        impl<'inner, 'lifespan: 'inner, C: ChemicalCompositionLike<'inner, 'lifespan>>
            Add<&'inner C> for $tp
        {
            type Output = $tp;

            #[inline]
            fn add(self, other: &'inner C) -> Self::Output {
                let mut inst = self.clone();
                other.iter().for_each(|(k, v)| {
                    inst.inc(*k, *v);
                });
                return inst;
            }
        }

        impl<'inner, 'lifespan: 'inner, C: ChemicalCompositionLike<'inner, 'lifespan>>
            Sub<&'inner C> for $tp
        {
            type Output = $tp;

            #[inline]
            fn sub(self, other: &'inner C) -> Self::Output {
                let mut inst = self.clone();
                other.iter().for_each(|(k, v)| {
                    let count = inst.get(k);
                    inst.set(*k, count - *v);
                });
                return inst;
            }
        }

        impl<'inner, 'lifespan: 'inner, C: ChemicalCompositionLike<'inner, 'lifespan>>
            AddAssign<&'inner C> for &mut $tp
        {
            #[inline]
            fn add_assign(&mut self, other: &'inner C) {
                other.iter().for_each(|(k, v)| {
                    self.inc(*k, *v);
                });
            }
        }

        impl<'inner, 'lifespan: 'inner, C: ChemicalCompositionLike<'inner, 'lifespan>>
            SubAssign<&'inner C> for &mut $tp
        {
            #[inline]
            fn sub_assign(&mut self, other: &'inner C) {
                other.iter().for_each(|(k, v)| {
                    let count = self.get(k);
                    self.set(*k, count - *v);
                });
            }
        }

        impl<'inner, 'lifespan: 'inner, C: ChemicalCompositionLike<'inner, 'lifespan>>
            AddAssign<&'inner C> for $tp
        {
            #[inline]
            fn add_assign(&mut self, other: &'inner C) {
                other.iter().for_each(|(k, v)| {
                    self.inc(*k, *v);
                });
            }
        }

        impl<'inner, 'lifespan: 'inner, C: ChemicalCompositionLike<'inner, 'lifespan>>
            SubAssign<&'inner C> for $tp
        {
            #[inline]
            fn sub_assign(&mut self, other: &'inner C) {
                other.iter().for_each(|(k, v)| {
                    let count = self.get(k);
                    self.set(*k, count - *v);
                });
            }
        }

        impl<'lifespan> Mul<i32> for &$tp {
            type Output = $tp;

            #[inline]
            fn mul(self, other: i32) -> Self::Output {
                let mut inst = self.clone();
                inst._mul_by(other);
                return inst;
            }
        }

        impl<'lifespan> Mul<i32> for $tp {
            type Output = $tp;

            #[inline]
            fn mul(self, other: i32) -> Self::Output {
                let mut inst = self.clone();
                inst._mul_by(other);
                return inst;
            }
        }

        impl<'lifespan> MulAssign<i32> for $tp {
            #[inline]
            fn mul_assign(&mut self, other: i32) {
                self._mul_by(other);
            }
        }

        impl<'lifespan> MulAssign<i32> for &mut $tp {
            #[inline]
            fn mul_assign(&mut self, other: i32) {
                self._mul_by(other);
            }
        }

        impl<'lifespan> Neg for $tp {
            type Output = $tp;

            #[inline]
            fn neg(mut self) -> Self::Output {
                self._mul_by(-1);
                self
            }
        }

        impl<'lifespan> Neg for &$tp {
            type Output = $tp;

            #[inline]
            fn neg(self) -> Self::Output {
                let mut dup = self.clone();
                dup._mul_by(-1);
                dup
            }
        }
    };
}

impl_arithmetic!(ChemicalCompositionMap<'lifespan>);
impl_arithmetic!(ChemicalCompositionVec<'lifespan>);
impl_arithmetic!(AbstractChemicalComposition<'lifespan>);

impl<'inner, 'lifespan: 'inner> IntoIterator for &'inner ChemicalCompositionMap<'lifespan> {
    type IntoIter = AbstractIter<'inner, 'lifespan>;
    type Item = <AbstractIter<'inner, 'lifespan> as Iterator>::Item;

    fn into_iter(self) -> Self::IntoIter {
        AbstractIter::Map(self.iter())
    }
}

impl<'inner, 'lifespan: 'inner> IntoIterator for &'inner ChemicalCompositionVec<'lifespan> {
    type IntoIter = AbstractIter<'inner, 'lifespan>;
    type Item = <AbstractIter<'inner, 'lifespan> as Iterator>::Item;

    fn into_iter(self) -> Self::IntoIter {
        AbstractIter::Vec(self.iter())
    }
}

impl<'inner, 'lifespan: 'inner> IntoIterator for &'inner AbstractChemicalComposition<'lifespan> {
    type IntoIter = AbstractIter<'inner, 'lifespan>;
    type Item = <AbstractIter<'inner, 'lifespan> as Iterator>::Item;

    fn into_iter(self) -> Self::IntoIter {
        self.iter()
    }
}

#[allow(unused)]
pub trait ChemicalCompositionBehavior<'inner, 'lifespan: 'inner>:
    ChemicalCompositionLike<'inner, 'lifespan> + Default
where
    &'inner Self: IntoIterator + 'inner,
    &'inner Self: Add<&'inner Self>,
    &'inner Self: Sub<&'inner Self>,
    &'inner mut Self: AddAssign<&'inner Self>,
    &'inner mut Self: SubAssign<&'inner Self>,
    Self: AddAssign<&'inner Self>,
    Self: SubAssign<&'inner Self>,
    Self: MulAssign<i32>,
    &'inner Self: Mul<i32>,
{
}

impl<'inner, 'lifespan: 'inner> ChemicalCompositionBehavior<'inner, 'lifespan>
    for ChemicalCompositionMap<'lifespan>
{
}
impl<'inner, 'lifespan: 'inner> ChemicalCompositionBehavior<'inner, 'lifespan>
    for ChemicalCompositionVec<'lifespan>
{
}
impl<'inner, 'lifespan: 'inner> ChemicalCompositionBehavior<'inner, 'lifespan>
    for AbstractChemicalComposition<'lifespan>
{
}

#[cfg(test)]
mod test {
    use super::*;

    #[test]
    fn test_process() {
        let comp = AbstractChemicalComposition::parse("C6H12O6").unwrap();
        let mut parts = 0;
        for (_, v) in &comp {
            parts += *v;
        }
        assert_eq!(24, parts)
    }
}
