//! `exec cbind`: call sequences through the exported C-ABI functions of `c_chemical_elements`.
use std::ffi::CString;
use std::os::raw::c_char;

use c_chemical_elements::{free_chemical_composition, parse_formula, CChemicalComposition};

fn unhex(s: &str) -> Option<Vec<u8>> {
    if s == "-" {
        return Some(vec![]);
    }
    if s.len() % 2 != 0 {
        return None;
    }
    (0..s.len()).step_by(2).map(|i| u8::from_str_radix(&s[i..i + 2], 16).ok()).collect()
}

fn lossy_cps(bytes: &[u8]) -> String {
    let s = String::from_utf8_lossy(bytes);
    if s.is_empty() {
        "-".into()
    } else {
        s.chars().map(|c| (c as u32).to_string()).collect::<Vec<_>>().join(",")
    }
}

const PROBES: [&str; 6] = ["C", "H", "O", "C[13]", "Cl", "Fe"];

fn observe(live: &[(usize, *mut CChemicalComposition)]) -> String {
    live.iter()
        .map(|(h, p)| {
            let c: &CChemicalComposition = unsafe { &**p };
            let mass = (c.mass() * 1e6).round() as i128;
            let gets: Vec<String> = PROBES
                .iter()
                .map(|s| {
                    let cs = CString::new(*s).unwrap();
                    c.get(cs.as_ptr() as *mut c_char).to_string()
                })
                .collect();
            format!("h{h}={mass}/{}", gets.join("/"))
        })
        .collect::<Vec<_>>()
        .join(",")
}

/// NOTE: no catch_unwind here on purpose — a panic crossing `extern "C"` aborts the process, and
/// that is exactly the observable (the orchestrator sees the child die).
pub fn run_case(line: &str) -> String {
    let f: Vec<&str> = line.split('\t').collect();
    if f.len() != 2 {
        return "bad-line".into();
    }
    let mut live: Vec<(usize, *mut CChemicalComposition)> = Vec::new();
    let mut next = 0usize;
    let mut outs: Vec<String> = Vec::new();
    let find = |live: &Vec<(usize, *mut CChemicalComposition)>, h: usize| live.iter().find(|x| x.0 == h).map(|x| x.1);
    for op in f[1].split(';').filter(|s| !s.is_empty()) {
        let w: Vec<&str> = op.split_whitespace().collect();
        let h = |i: usize| -> Option<usize> { w.get(i)?.parse().ok() };
        let mut decoded = String::new();
        let res: Option<(u32, Option<i64>, Option<usize>)> = match w[0] {
            "new" => {
                let mut out: *mut CChemicalComposition = std::ptr::null_mut();
                let rc = CChemicalComposition::new(&mut out);
                if out.is_null() { Some((rc, None, None)) } else { live.push((next, out)); next += 1; Some((rc, None, Some(next - 1))) }
            }
            "parse" => {
                let Some(bytes) = unhex(w[1]) else { return "bad-args".into() };
                decoded = lossy_cps(&bytes);
                let cs = CString::new(bytes).unwrap();
                let mut out: *mut CChemicalComposition = std::ptr::null_mut();
                let rc = parse_formula(cs.as_ptr() as *mut c_char, &mut out);
                if out.is_null() { Some((rc, None, None)) } else { live.push((next, out)); next += 1; Some((rc, None, Some(next - 1))) }
            }
            "copy" => find(&live, h(1).unwrap_or(usize::MAX)).map(|p| {
                let mut out: *mut CChemicalComposition = std::ptr::null_mut();
                let rc = unsafe { &*p }.copy(&mut out);
                if out.is_null() { (rc, None, None) } else { live.push((next, out)); next += 1; (rc, None, Some(next - 1)) }
            }),
            "get" => {
                let Some(bytes) = unhex(w[2]) else { return "bad-args".into() };
                decoded = lossy_cps(&bytes);
                let cs = CString::new(bytes).unwrap();
                find(&live, h(1).unwrap_or(usize::MAX)).map(|p| (0, Some(unsafe { &*p }.get(cs.as_ptr() as *mut c_char) as i64), None))
            }
            "set" | "inc" => {
                let Some(bytes) = unhex(w[2]) else { return "bad-args".into() };
                decoded = lossy_cps(&bytes);
                let cs = CString::new(bytes).unwrap();
                let n: i32 = w[3].parse().unwrap_or(0);
                find(&live, h(1).unwrap_or(usize::MAX)).map(|p| {
                    let c = unsafe { &mut *p };
                    let rc = if w[0] == "set" { c.set(cs.as_ptr() as *mut c_char, n) } else { c.increment(cs.as_ptr() as *mut c_char, n) };
                    (rc, None, None)
                })
            }
            "add" | "sub" => {
                let (a, b) = (h(1).unwrap_or(usize::MAX), h(2).unwrap_or(usize::MAX));
                match (find(&live, a), find(&live, b)) {
                    (Some(pa), Some(pb)) if a != b => {
                        let (ca, cb) = unsafe { (&mut *pa, &*pb) };
                        Some((if w[0] == "add" { ca.add(cb) } else { ca.subtract(cb) }, None, None))
                    }
                    _ => None,
                }
            }
            "scale" => find(&live, h(1).unwrap_or(usize::MAX)).map(|p| (unsafe { &mut *p }.scale(w[2].parse().unwrap_or(0)), None, None)),
            "mass" => find(&live, h(1).unwrap_or(usize::MAX)).map(|p| (0, Some((unsafe { &*p }.mass() * 1e6).round() as i64), None)),
            "free" => {
                let hh = h(1).unwrap_or(usize::MAX);
                find(&live, hh).map(|p| {
                    let rc = free_chemical_composition(p);
                    live.retain(|x| x.0 != hh);
                    (rc, None, None)
                })
            }
            _ => return "bad-op".into(),
        };
        match res {
            None => outs.push("contract".into()),
            Some((rc, value, handle)) => outs.push(format!(
                "{}:{}:{}|{}@{}",
                if rc == 0 { 0 } else { 1 },
                value.map(|v| v.to_string()).unwrap_or("null".into()),
                handle.map(|x| format!("h{x}")).unwrap_or("null".into()),
                observe(&live),
                decoded
            )),
        }
    }
    // the contract: every handle is freed exactly once
    for (_, p) in live.drain(..) {
        free_chemical_composition(p);
    }
    outs.join(";")
}
