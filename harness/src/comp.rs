//! `exec comp`: interpreter of composition-machine cases (C02 / C04 / C06) on the real types.
use std::ops::{Index, IndexMut};

use chemical_elements::{
    ChemicalComposition, ChemicalCompositionLike, ChemicalCompositionMap, ChemicalCompositionRef,
    ChemicalCompositionVec, ElementSpecification, PERIODIC_TABLE,
};

use crate::util::guarded;

type Spec = ElementSpecification<'static>;

#[derive(Clone)]
pub enum Reg {
    Vec(ChemicalCompositionVec<'static>),
    Map(ChemicalCompositionMap<'static>),
    Enum(ChemicalComposition<'static>),
}

/// a second `PeriodicTable` instance with the same content (what `ChemicalElements::new()` builds): keys made from it are
/// EQUAL to the global table's keys but refer to other `Element` objects
fn second_table() -> &'static chemical_elements::PeriodicTable {
    use std::sync::OnceLock;
    static T2: OnceLock<&'static chemical_elements::PeriodicTable> = OnceLock::new();
    T2.get_or_init(|| {
        let ce = chemical_elements::ChemicalElements::new();
        let mut t = chemical_elements::PeriodicTable::new();
        for e in ce.periodic_table.elements.values() {
            t.add(e.clone());
        }
        Box::leak(Box::new(t))
    })
}

/// a third table of *variant* elements, as a caller with enriched material would make them: same symbol, same isotopes,
/// but another `most_abundant_isotope` (the heaviest other isotope) and the matching `most_abundant_mass`.  Under
/// `Element::eq` these are OTHER elements than the stock ones, so `C:0~3` and `C:0` are two distinct keys that share
/// symbol text, isotope number and hash.  Elements with a single isotope have no variant.
fn third_table() -> &'static chemical_elements::PeriodicTable {
    use std::sync::OnceLock;
    static T3: OnceLock<&'static chemical_elements::PeriodicTable> = OnceLock::new();
    T3.get_or_init(|| {
        let mut t = chemical_elements::PeriodicTable::new();
        for e in PERIODIC_TABLE.elements.values() {
            let other = e.isotopes.keys().copied().filter(|k| *k != e.most_abundant_isotope).max();
            if let Some(k) = other {
                let mut v = e.clone();
                v.most_abundant_isotope = k;
                v.most_abundant_mass = e.isotopes[&k].mass;
                t.add(v);
            }
        }
        Box::leak(Box::new(t))
    })
}

/// the text the harness prints for a key's element: the symbol, with `^3` when the element is a variant
pub fn sym_text(e: &chemical_elements::Element) -> String {
    match PERIODIC_TABLE.get(&e.symbol) {
        Some(stock) if stock.most_abundant_isotope != e.most_abundant_isotope => format!("{}^3", e.symbol),
        _ => e.symbol.clone(),
    }
}

/// `Sym:iso` (global table), `Sym:iso~2` (the second table instance) or `Sym:iso~3` (the variant element)
pub fn key(s: &str) -> Option<Spec> {
    let (s, which) = match (s.strip_suffix("~2"), s.strip_suffix("~3")) {
        (Some(r), _) => (r, 2),
        (_, Some(r)) => (r, 3),
        _ => (s, 1),
    };
    let (sym, iso) = s.split_once(':')?;
    let e = match which {
        2 => second_table().get(sym)?,
        3 => third_table().get(sym)?,
        _ => PERIODIC_TABLE.get(sym)?,
    };
    Some(ElementSpecification::new(e, iso.parse().ok()?))
}

pub fn str_arg(s: &str) -> String {
    if s == "-" {
        return String::new();
    }
    s.split(',')
        .filter_map(|x| x.parse::<u32>().ok())
        .filter_map(char::from_u32)
        .collect()
}

fn micro(x: f64) -> String {
    if x.is_finite() {
        format!("{}", (x * 1e6).round() as i128)
    } else {
        format!("{x}")
    }
}

// ---- the same operations through the public trait `ChemicalCompositionLike` (generic code sees only these) ----
fn t_get<'i, C: ChemicalCompositionLike<'i, 'static>>(c: &C, k: &Spec) -> i32 {
    ChemicalCompositionLike::get(c, k)
}
fn t_set<'i, C: ChemicalCompositionLike<'i, 'static>>(c: &mut C, k: Spec, v: i32) {
    ChemicalCompositionLike::set(c, k, v)
}
fn t_inc<'i, C: ChemicalCompositionLike<'i, 'static>>(c: &mut C, k: Spec, v: i32) {
    ChemicalCompositionLike::inc(c, k, v)
}
fn t_fmass<'i, C: ChemicalCompositionLike<'i, 'static>>(c: &mut C) -> f64 {
    ChemicalCompositionLike::fmass(c)
}
fn t_mul<'i, C: ChemicalCompositionLike<'i, 'static>>(c: &mut C, k: i32) {
    ChemicalCompositionLike::_mul_by(c, k)
}
fn t_itm<'i, C: ChemicalCompositionLike<'i, 'static>>(c: &mut C, f: fn(i32) -> i32) {
    ChemicalCompositionLike::iter_mut(c).for_each(|(_, v)| *v = f(*v))
}
/// (mass, len, is_empty, sorted entries) as generic code sees them
fn t_view<'i, C: ChemicalCompositionLike<'i, 'static>>(c: &C) -> (f64, usize, bool, Vec<(String, u16, i32)>) {
    let mut v: Vec<(String, u16, i32)> =
        ChemicalCompositionLike::iter(c).map(|(k, v)| (sym_text(k.element), k.isotope, *v)).collect();
    v.sort();
    (ChemicalCompositionLike::mass(c), ChemicalCompositionLike::len(c), ChemicalCompositionLike::is_empty(c), v)
}

macro_rules! each {
    ($reg:expr, $c:ident => $body:expr) => {
        match $reg {
            Reg::Vec($c) => $body,
            Reg::Map($c) => $body,
            Reg::Enum($c) => $body,
        }
    };
}

impl Reg {
    pub fn new(form: &str) -> Reg {
        match form {
            "vec" => Reg::Vec(ChemicalCompositionVec::new()),
            "map" => Reg::Map(ChemicalCompositionMap::new()),
            "evec" => Reg::Enum(ChemicalComposition::Vec(ChemicalCompositionVec::new())),
            _ => Reg::Enum(ChemicalComposition::Map(ChemicalCompositionMap::new())),
        }
    }
    pub fn form(&self) -> &'static str {
        match self {
            Reg::Vec(_) => "vec",
            Reg::Map(_) => "map",
            Reg::Enum(ChemicalComposition::Vec(_)) => "evec",
            Reg::Enum(ChemicalComposition::Map(_)) => "emap",
        }
    }
    pub fn entries(&self) -> Vec<(String, u16, i32)> {
        let mut v: Vec<(String, u16, i32)> = match self {
            Reg::Vec(c) => c.iter().map(|(k, v)| (sym_text(k.element), k.isotope, *v)).collect(),
            Reg::Map(c) => c.iter().map(|(k, v)| (sym_text(k.element), k.isotope, *v)).collect(),
            Reg::Enum(c) => c.iter().map(|(k, v)| (sym_text(k.element), k.isotope, *v)).collect(),
        };
        v.sort();
        v
    }
    pub fn observe(&self) -> String {
        let ents = self.entries();
        let e = if ents.is_empty() {
            "-".to_string()
        } else {
            ents.iter().map(|(s, i, v)| format!("{s}:{i}={v}")).collect::<Vec<_>>().join(",")
        };
        let (cached, mass, calc, len, empty) = each!(self, c => (c.has_mass_cached(), c.mass(), c.calc_mass(), c.len(), c.is_empty()));
        let mut len_s = if empty == (len == 0) { len.to_string() } else { format!("{len}!empty={empty}") };
        // the view through the trait must be the view through the inherent methods
        let (tm, tl, te, tv) = each!(self, c => t_view(c));
        if tm.to_bits() != mass.to_bits() || tl != len || te != empty || tv != ents {
            len_s.push_str("!trait-view-differs");
        }
        // ... and so must the borrowed view `ChemicalCompositionRef`
        let rv = match self {
            Reg::Vec(c) => ChemicalCompositionRef::Vec(c),
            Reg::Map(c) => ChemicalCompositionRef::Map(c),
            Reg::Enum(c) => ChemicalCompositionRef::from(c),
        };
        let mut rents: Vec<(String, u16, i32)> = rv.iter().map(|(k, v)| (sym_text(k.element), k.isotope, *v)).collect();
        rents.sort();
        let mut same = rv.mass().to_bits() == mass.to_bits() && rv.calc_mass().to_bits() == calc.to_bits()
            && rv.has_mass_cached() == cached && rv.is_empty() == empty && rv.len() == len && rents == ents;
        let keys: Vec<Spec> = rv.iter().map(|(k, _)| *k).collect();
        for k in keys.iter() {
            let direct = each!(self, c => c.get(k));
            let text = k.to_string();
            same &= rv.get(k) == direct && rv[k] == direct && rv[text.as_str()] == each!(self, c => c[text.as_str()]);
        }
        if let Some(absent) = key("Xe:0") {
            same &= rv.get(&absent) == each!(self, c => c.get(&absent)) && rv["Xe"] == each!(self, c => c["Xe"]);
        }
        // equality of two borrowed views does not depend on the representations behind them either
        let alt = match self.as_enum() {
            ChemicalComposition::Vec(v) => ChemicalComposition::Map(v.into()),
            ChemicalComposition::Map(m) => ChemicalComposition::Vec(m.into()),
        };
        let av = ChemicalCompositionRef::from(&alt);
        if !(av == rv && rv == av && rv == rv.clone()) {
            len_s.push_str("!ref-eq-differs");
        }
        if !same {
            len_s.push_str("!ref-view-differs");
        }
        // the iterator views: `ExactSizeIterator::len` of `iter()` / `iter_mut()`, `IntoIterator for &composition`, `into_inner`
        let it_len = each!(self, c => c.iter().len());
        let itm_len = each!(self, c => c.clone().iter_mut().len());
        let mut via_ref: Vec<(String, u16, i32)> = match self {
            Reg::Vec(c) => (&*c).into_iter().map(|(k, v)| (sym_text(k.element), k.isotope, *v)).collect(),
            Reg::Map(c) => (&*c).into_iter().map(|(k, v)| (sym_text(k.element), k.isotope, *v)).collect(),
            Reg::Enum(c) => (&*c).into_iter().map(|(k, v)| (sym_text(k.element), k.isotope, *v)).collect(),
        };
        via_ref.sort();
        let mut inner: Vec<(String, u16, i32)> = match self {
            Reg::Vec(c) => c.clone().into_inner().into_iter().map(|(k, v)| (sym_text(k.element), k.isotope, v)).collect(),
            Reg::Map(c) => c.clone().into_inner().into_iter().map(|(k, v)| (sym_text(k.element), k.isotope, v)).collect(),
            Reg::Enum(_) => ents.clone(),
        };
        inner.sort();
        if it_len != len || itm_len != len || via_ref != ents || inner != ents {
            len_s.push_str("!iterator-view-differs");
        }
        // the Display text (code points), whatever the counts: compared across the representations in lock-step
        let text = each!(self, c => c.to_string());
        let disp = text.chars().map(|ch| (ch as u32).to_string()).collect::<Vec<_>>().join(".");
        format!("{}|{}|{}|{}|{}|{}|{}", self.form(), cached as u8, micro(mass), micro(calc), len_s, e, disp)
    }
    fn as_enum(&self) -> ChemicalComposition<'static> {
        match self {
            Reg::Vec(c) => ChemicalComposition::Vec(c.clone()),
            Reg::Map(c) => ChemicalComposition::Map(c.clone()),
            Reg::Enum(c) => c.clone(),
        }
    }
    fn has_plain(&self, sym: &str) -> Option<Spec> {
        let found = match self {
            Reg::Vec(c) => c.iter().map(|(k, _)| *k).find(|k| k.isotope == 0 && k.element.symbol == sym),
            Reg::Map(c) => c.iter().map(|(k, _)| *k).find(|k| k.isotope == 0 && k.element.symbol == sym),
            Reg::Enum(c) => c.iter().map(|(k, _)| *k).find(|k| k.isotope == 0 && k.element.symbol == sym),
        };
        found
    }
}

macro_rules! binop {
    ($a:expr, $b:expr, $x:ident, $y:ident => $body:expr) => {
        match ($a, $b) {
            (Reg::Vec($x), Reg::Vec($y)) => Reg::Vec($body),
            (Reg::Vec($x), Reg::Map($y)) => Reg::Vec($body),
            (Reg::Vec($x), Reg::Enum($y)) => Reg::Vec($body),
            (Reg::Map($x), Reg::Vec($y)) => Reg::Map($body),
            (Reg::Map($x), Reg::Map($y)) => Reg::Map($body),
            (Reg::Map($x), Reg::Enum($y)) => Reg::Map($body),
            (Reg::Enum($x), Reg::Vec($y)) => Reg::Enum($body),
            (Reg::Enum($x), Reg::Map($y)) => Reg::Enum($body),
            (Reg::Enum($x), Reg::Enum($y)) => Reg::Enum($body),
        }
    };
}

macro_rules! binop_inplace {
    ($a:expr, $b:expr, $x:ident, $y:ident => $body:expr) => {
        match ($a, $b) {
            (Reg::Vec($x), Reg::Vec($y)) => $body,
            (Reg::Vec($x), Reg::Map($y)) => $body,
            (Reg::Vec($x), Reg::Enum($y)) => $body,
            (Reg::Map($x), Reg::Vec($y)) => $body,
            (Reg::Map($x), Reg::Map($y)) => $body,
            (Reg::Map($x), Reg::Enum($y)) => $body,
            (Reg::Enum($x), Reg::Vec($y)) => $body,
            (Reg::Enum($x), Reg::Map($y)) => $body,
            (Reg::Enum($x), Reg::Enum($y)) => $body,
        }
    };
}

fn convert(src: &Reg, target: &str) -> Reg {
    use ChemicalComposition as CC;
    match (src.clone(), target) {
        (Reg::Vec(c), "vec") => Reg::Vec(c),
        (Reg::Map(c), "map") => Reg::Map(c),
        (Reg::Enum(c), "evec") => Reg::Enum(c.into_vec()),
        (Reg::Enum(c), "emap") => Reg::Enum(c.into_map()),
        (Reg::Vec(c), "map") => Reg::Map(ChemicalCompositionMap::from(c)),
        (Reg::Vec(c), "evec") => Reg::Enum(CC::from(c)),
        (Reg::Vec(c), "emap") => Reg::Enum(CC::from(c).into_map()),
        (Reg::Map(c), "vec") => Reg::Vec(ChemicalCompositionVec::from(c)),
        (Reg::Map(c), "evec") => Reg::Enum(CC::from(c)),
        (Reg::Map(c), "emap") => Reg::Enum(CC::from(c).into_map()),
        (Reg::Enum(c), "vec") => Reg::Vec(ChemicalCompositionVec::from(c)),
        (Reg::Enum(c), "map") => Reg::Map(ChemicalCompositionMap::from(c)),
        (r, _) => r,
    }
}

fn parse_pairs(s: &str) -> Option<Vec<(Spec, i32)>> {
    if s == "-" {
        return Some(vec![]);
    }
    s.split(',')
        .map(|kv| {
            let (k, v) = kv.split_once('=')?;
            Some((key(k)?, v.parse().ok()?))
        })
        .collect()
}

fn from_kv(form: &str, variant: &str, ps: &[(Spec, i32)]) -> Reg {
    // `…Alias` variants spell every other fixed-isotope key with a leading zero (`C[013]`): another text, the same key
    let alias = variant.ends_with("Alias");
    let variant = variant.trim_end_matches("Alias");
    let names: Vec<String> = ps
        .iter()
        .enumerate()
        .map(|(i, (k, _))| {
            if alias && i % 2 == 1 && k.isotope != 0 {
                format!("{}[0{}]", k.element.symbol, k.isotope)
            } else {
                k.to_string()
            }
        })
        .collect();
    // `&'static str` keys are required by the string constructors
    let strs: Vec<(&'static str, i32)> = names
        .iter()
        .zip(ps)
        .map(|(n, (_, v))| (&*Box::leak(n.clone().into_boxed_str()), *v))
        .collect();
    match form {
        "vec" => Reg::Vec(match variant {
            "vecES" => ChemicalCompositionVec::from(ps.to_vec()),
            "iterES" => ps.iter().cloned().collect(),
            "vecStr" => ChemicalCompositionVec::from(strs),
            _ => strs.into_iter().collect(),
        }),
        "map" => Reg::Map(match variant {
            "vecES" => ChemicalCompositionMap::from(ps.to_vec()),
            "iterES" => ps.iter().cloned().collect(),
            "vecStr" => ChemicalCompositionMap::from(strs),
            _ => strs.into_iter().collect(),
        }),
        _ => {
            let leaked: &'static [(Spec, i32)] = Box::leak(ps.to_vec().into_boxed_slice());
            let c: ChemicalComposition<'static> = match variant {
                "vecES" => ChemicalComposition::from(ps.to_vec()),
                "iterES" => leaked.iter().map(|(k, v)| (k, v)).collect(),
                "vecStr" => ChemicalComposition::from(strs),
                _ => strs.into_iter().collect(),
            };
            Reg::Enum(if form == "emap" { c.into_map() } else { c })
        }
    }
}

/// one op; returns the value read (if any)
fn step(regs: &mut Vec<Reg>, op: &str) -> Option<Option<i64>> {
    let w: Vec<&str> = op.split_whitespace().collect();
    let r = |i: usize| -> Option<usize> { w.get(i)?.parse().ok() };
    let n = |i: usize| -> Option<i32> { w.get(i)?.parse().ok() };
    // `op@t`: the same operation dispatched through the trait `ChemicalCompositionLike`
    if let Some(name) = w.first()?.strip_suffix("@t") {
        return match name {
            "set" => { let (i, k, v) = (r(1)?, key(w[2])?, n(3)?); each!(&mut regs[i], c => t_set(c, k, v)); Some(None) }
            "inc" => { let (i, k, v) = (r(1)?, key(w[2])?, n(3)?); each!(&mut regs[i], c => t_inc(c, k, v)); Some(None) }
            "get" => { let (i, k) = (r(1)?, key(w[2])?); Some(Some(each!(&regs[i], c => t_get(c, &k)) as i64)) }
            "fmass" => { let i = r(1)?; let m = each!(&mut regs[i], c => t_fmass(c)); Some(Some((m * 1e6).round() as i64)) }
            "muli" => { let (i, k) = (r(1)?, n(2)?); each!(&mut regs[i], c => t_mul(c, k)); Some(None) }
            "itm" => {
                let i = r(1)?;
                let f: fn(i32) -> i32 = match w[2] { "dbl" => |x| 2 * x, "neg" => |x| -x, "inc1" => |x| x + 1, _ => |_| 0 };
                each!(&mut regs[i], c => t_itm(c, f));
                Some(None)
            }
            _ => None,
        };
    }
    match *w.first()? {
        "new" => {
            let i = r(1)?;
            regs[i] = Reg::new(w[2]);
            Some(None)
        }
        "set" => {
            let (i, k, v) = (r(1)?, key(w[2])?, n(3)?);
            each!(&mut regs[i], c => c.set(k, v));
            Some(None)
        }
        "inc" => {
            let (i, k, v) = (r(1)?, key(w[2])?, n(3)?);
            each!(&mut regs[i], c => c.inc(k, v));
            Some(None)
        }
        "iset" => {
            let (i, k, v) = (r(1)?, key(w[2])?, n(3)?);
            each!(&mut regs[i], c => c[&k] = v);
            Some(None)
        }
        "iadd" => {
            let (i, k, v) = (r(1)?, key(w[2])?, n(3)?);
            each!(&mut regs[i], c => c[&k] += v);
            Some(None)
        }
        "sset" => {
            let (i, s, v) = (r(1)?, str_arg(w[2]), n(3)?);
            each!(&mut regs[i], c => c[s.as_str()] = v);
            Some(None)
        }
        "sadd" => {
            let (i, s, v) = (r(1)?, str_arg(w[2]), n(3)?);
            each!(&mut regs[i], c => c[s.as_str()] += v);
            Some(None)
        }
        "incs" => {
            let (i, s, v) = (r(1)?, str_arg(w[2]), n(3)?);
            match &mut regs[i] {
                Reg::Vec(c) => *c.index_mut(s.as_str()) += v,
                Reg::Map(c) => c.inc_str(&s, v),
                Reg::Enum(c) => c.inc_str(&s, v),
            }
            Some(None)
        }
        "gsm" => {
            let (i, s, v) = (r(1)?, str_arg(w[2]), n(3)?);
            if let Reg::Map(c) = &mut regs[i] {
                if let Some(x) = c.get_str_mut(&s) {
                    *x = v;
                }
            } else if let Some(k) = regs[i].has_plain(&s) {
                each!(&mut regs[i], c => c[&k] = v);
            }
            Some(None)
        }
        "fmass" => {
            let i = r(1)?;
            let m = each!(&mut regs[i], c => c.fmass());
            Some(Some((m * 1e6).round() as i64))
        }
        "mul" => {
            let (d, a, k) = (r(1)?, r(2)?, n(3)?);
            let by_ref = w[4] == "ref";
            let res = match &regs[a] {
                Reg::Vec(c) => Reg::Vec(if by_ref { c * k } else { c.clone() * k }),
                Reg::Map(c) => Reg::Map(if by_ref { c * k } else { c.clone() * k }),
                Reg::Enum(c) => Reg::Enum(if by_ref { c * k } else { c.clone() * k }),
            };
            regs[d] = res;
            Some(None)
        }
        "muli" => {
            let (i, k) = (r(1)?, n(2)?);
            if w[3] == "own" {
                each!(&mut regs[i], c => *c *= k);
            } else {
                each!(&mut regs[i], c => { let mut m = &mut *c; m *= k; });
            }
            Some(None)
        }
        "neg" => {
            let (d, a) = (r(1)?, r(2)?);
            let by_ref = w[3] == "ref";
            let res = match &regs[a] {
                Reg::Vec(c) => Reg::Vec(if by_ref { -c } else { -(c.clone()) }),
                Reg::Map(c) => Reg::Map(if by_ref { -c } else { -(c.clone()) }),
                Reg::Enum(c) => Reg::Enum(if by_ref { -c } else { -(c.clone()) }),
            };
            regs[d] = res;
            Some(None)
        }
        "add" | "sub" => {
            let (d, a, b) = (r(1)?, r(2)?, r(3)?);
            let by_ref = w[4] == "ref";
            let plus = w[0] == "add";
            let res = binop!(&regs[a], &regs[b], x, y => match (plus, by_ref) {
                (true, true) => x + y,
                (true, false) => x.clone() + y,
                (false, true) => x - y,
                (false, false) => x.clone() - y,
            });
            regs[d] = res;
            Some(None)
        }
        "addi" | "subi" => {
            let (a, b) = (r(1)?, r(2)?);
            let own = w[3] == "own";
            let plus = w[0] == "addi";
            let other = regs[b].clone();
            binop_inplace!(&mut regs[a], &other, x, y => match (plus, own) {
                (true, true) => *x += y,
                (true, false) => { let mut m = &mut *x; m += y; }
                (false, true) => *x -= y,
                (false, false) => { let mut m = &mut *x; m -= y; }
            });
            Some(None)
        }
        "itm" => {
            let i = r(1)?;
            let f: fn(i32) -> i32 = match w[2] {
                "dbl" => |x| 2 * x,
                "neg" => |x| -x,
                "inc1" => |x| x + 1,
                _ => |_| 0,
            };
            match &mut regs[i] {
                Reg::Vec(c) => c.iter_mut().for_each(|(_, v)| *v = f(*v)),
                Reg::Map(c) => c.iter_mut().for_each(|(_, v)| *v = f(*v)),
                Reg::Enum(c) => c.iter_mut().for_each(|(_, v)| *v = f(*v)),
            }
            Some(None)
        }
        "clone" => {
            let (d, a) = (r(1)?, r(2)?);
            if w.get(3) == Some(&"from") && d != a {
                // `Clone::clone_from` into the existing destination when both hold the same type
                let src = regs[a].clone();
                match (&mut regs[d], &src) {
                    (Reg::Vec(x), Reg::Vec(y)) => x.clone_from(y),
                    (Reg::Map(x), Reg::Map(y)) => x.clone_from(y),
                    (Reg::Enum(x), Reg::Enum(y)) => x.clone_from(y),
                    (x, y) => *x = y.clone(),
                }
            } else {
                regs[d] = regs[a].clone();
            }
            Some(None)
        }
        "conv" => {
            let (d, a) = (r(1)?, r(2)?);
            regs[d] = convert(&regs[a], w[3]);
            Some(None)
        }
        "fromkv" => {
            let d = r(1)?;
            let ps = parse_pairs(w[4])?;
            regs[d] = from_kv(w[2], w[3], &ps);
            Some(None)
        }
        "get" => {
            let (i, k) = (r(1)?, key(w[2])?);
            Some(Some(each!(&regs[i], c => c.get(&k)) as i64))
        }
        "idx" => {
            let (i, k) = (r(1)?, key(w[2])?);
            Some(Some(each!(&regs[i], c => *c.index(&k)) as i64))
        }
        "gets" => {
            let (i, s) = (r(1)?, str_arg(w[2]));
            Some(Some(each!(&regs[i], c => c.get_str(&s)) as i64))
        }
        "sidx" => {
            let (i, s) = (r(1)?, str_arg(w[2]));
            Some(Some(each!(&regs[i], c => *c.index(s.as_str())) as i64))
        }
        "eq" => {
            let (a, b) = (r(1)?, r(2)?);
            let e = match (&regs[a], &regs[b]) {
                (Reg::Vec(x), Reg::Vec(y)) => x == y,
                (Reg::Map(x), Reg::Map(y)) => x == y,
                (x, y) => x.as_enum() == y.as_enum(),
            };
            Some(Some(e as i64))
        }
        _ => None,
    }
}

pub fn run_case(line: &str) -> String {
    let f: Vec<&str> = line.split('\t').collect();
    if f.len() < 3 {
        return "bad-line".into();
    }
    let n: usize = f[1].parse().unwrap_or(4);
    let mut regs: Vec<Reg> = (0..n).map(|_| Reg::new("vec")).collect();
    let mut outs = Vec::new();
    for op in f[2].split(';').filter(|s| !s.is_empty()) {
        let mut trial = regs.clone();
        match guarded(|| step(&mut trial, op).map(|r| (r, trial))) {
            None => outs.push("panic".to_string()),
            Some(None) => return "bad-op".into(),
            Some(Some((read, newregs))) => {
                regs = newregs;
                let rd = read.map(|v| v.to_string()).unwrap_or("null".into());
                let obs: Vec<String> = regs.iter().map(|r| r.observe()).collect();
                outs.push(format!("{rd}#{}", obs.join("#")));
            }
        }
    }
    outs.join(";")
}
