//! `exec <mode>`: read one case per line on stdin, print one observation line per case.
use std::io::{BufRead, Write};

pub fn run(args: &[String]) {
    let mode = args.first().map(|s| s.as_str()).unwrap_or("");
    let stdin = std::io::stdin();
    let stdout = std::io::stdout();
    let mut out = std::io::BufWriter::new(stdout.lock());
    for line in stdin.lock().lines() {
        let line = match line {
            Ok(l) => l,
            Err(_) => break,
        };
        let res = match mode {
            "comp" => crate::comp::run_case(&line),
            "peaks" => crate::peaks::run_peaks(&line),
            "poisson" => crate::peaks::run_poisson(&line),
            "spec" => crate::spec::run_case(&line),
            "formula" => crate::formula::run_case(&line),
            "cbind" => crate::cbind::run_case(&line),
            "conv" => crate::gens::run_conv(&line),
            "brain" => crate::gens::run_brain(&line),
            "brainhist" => crate::gens::run_brainhist(&line),
            "brainconc" => crate::gens::run_brainconc(&line),
            _ => "bad-mode".to_string(),
        };
        let _ = writeln!(out, "{res}");
        // flush per line so that a later abort loses nothing already computed
        let _ = out.flush();
    }
}
