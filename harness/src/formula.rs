//! `exec formula`: every public formula-parsing entry point, Display, serde round trips (C01, C05, C07).
use std::str::FromStr;

use chemical_elements::{
    parse_formula, parse_formula_with_table, ChemicalComposition, ChemicalCompositionMap,
    ChemicalCompositionVec, ChemicalElements, ElementSpecification, PeriodicTable, PERIODIC_TABLE,
};

use crate::comp::{key, Reg};
use crate::util::guarded;

fn cps_arg(s: &str) -> String {
    if s == "-" {
        return String::new();
    }
    s.split_whitespace().filter_map(|x| x.parse::<u32>().ok()).filter_map(char::from_u32).collect()
}

fn show_entries(mut v: Vec<(String, u16, i32)>) -> String {
    v.sort();
    if v.is_empty() {
        "ok -".into()
    } else {
        format!("ok {}", v.iter().map(|(s, i, c)| format!("{s}:{i}={c}")).collect::<Vec<_>>().join(","))
    }
}

fn ents_cc(c: &ChemicalComposition) -> Vec<(String, u16, i32)> {
    c.iter().map(|(k, v)| (k.element.symbol.clone(), k.isotope, *v)).collect()
}

fn res<T, E>(r: Option<Result<T, E>>, f: impl Fn(&T) -> Vec<(String, u16, i32)>) -> String {
    match r {
        None => "panic".into(),
        Some(Err(_)) => "err".into(),
        Some(Ok(c)) => show_entries(f(&c)),
    }
}

pub fn parse_all(s: &str) -> String {
    let outs: Vec<(&str, String)> = vec![
        ("from_str", res(guarded(|| ChemicalComposition::from_str(s)), ents_cc)),
        ("parse", res(guarded(|| ChemicalComposition::parse(s)), ents_cc)),
        ("parse_formula", res(guarded(|| parse_formula(s)), ents_cc)),
        ("with_table", res(guarded(|| parse_formula_with_table(s, &PERIODIC_TABLE)), ents_cc)),
        ("parse_with", res(guarded(|| ChemicalComposition::parse_with(s, &PERIODIC_TABLE)), ents_cc)),
        ("helper", {
            let r = guarded(|| {
                let ce = ChemicalElements::new();
                let r = ce.parse_formula(s).map(|c| ents_cc(&c)).map_err(|_| ());
                r
            });
            match r {
                None => "panic".into(),
                Some(Err(_)) => "err".into(),
                Some(Ok(v)) => show_entries(v),
            }
        }),
        ("vec_from_str", res(guarded(|| ChemicalCompositionVec::from_str(s)), |c| {
            c.iter().map(|(k, v)| (k.element.symbol.clone(), k.isotope, *v)).collect()
        })),
        ("map_from_str", res(guarded(|| ChemicalCompositionMap::from_str(s)), |c| {
            c.iter().map(|(k, v)| (k.element.symbol.clone(), k.isotope, *v)).collect()
        })),
    ];
    let first = outs[0].1.clone();
    if outs.iter().all(|(_, o)| *o == first) {
        first
    } else {
        format!("entry-points-differ {}", outs.iter().map(|(n, o)| format!("{n}={o}")).collect::<Vec<_>>().join(";"))
    }
}

/// a caller-supplied table holding only the listed symbols of the built-in one (leaked: compositions borrow it)
fn sub_table(symbols: &str) -> &'static PeriodicTable {
    use std::collections::HashMap;
    use std::sync::{Mutex, OnceLock};
    static CACHE: OnceLock<Mutex<HashMap<String, &'static PeriodicTable>>> = OnceLock::new();
    let mut cache = CACHE.get_or_init(|| Mutex::new(HashMap::new())).lock().unwrap();
    if let Some(t) = cache.get(symbols) {
        return t;
    }
    // `…!n`: a table as a caller would build it who reads the field `neutrons` as the neutron COUNT (the doc comment says so):
    // the isotopes stay under their nucleon numbers, `neutrons` holds another number.  An isotope is identified by its key.
    let (list, recount) = match symbols.strip_suffix("!n") {
        Some(l) => (l, true),
        None => (symbols, false),
    };
    let mut t = PeriodicTable::new();
    if list != "-" {
        for sym in list.split(',') {
            if let Some(e) = PERIODIC_TABLE.get(sym) {
                let mut e = e.clone();
                if recount {
                    for (k, iso) in e.isotopes.iter_mut() {
                        iso.neutrons = k / 2 + 1;
                    }
                }
                t.add(e);
            }
        }
    }
    let leaked: &'static PeriodicTable = Box::leak(Box::new(t));
    cache.insert(symbols.to_string(), leaked);
    leaked
}

/// the entry points that take a table, on a caller-supplied one
pub fn parse_with_table(symbols: &str, s: &str) -> String {
    let table = sub_table(symbols);
    let outs: Vec<(&str, String)> = vec![
        ("with_table", res(guarded(|| parse_formula_with_table(s, table)), ents_cc)),
        ("parse_with", res(guarded(|| ChemicalComposition::parse_with(s, table)), ents_cc)),
        ("helper", {
            let r = guarded(|| {
                let mut ce = ChemicalElements::new();
                let mut t = PeriodicTable::new();
                for e in table.elements.values() {
                    t.add(e.clone());
                }
                ce.periodic_table = t;
                let r = ce.parse_formula(s).map(|c| ents_cc(&c)).map_err(|_| ());
                r
            });
            match r {
                None => "panic".into(),
                Some(Err(_)) => "err".into(),
                Some(Ok(v)) => show_entries(v),
            }
        }),
    ];
    let first = outs[0].1.clone();
    if outs.iter().all(|(_, o)| *o == first) {
        first
    } else {
        format!("entry-points-differ {}", outs.iter().map(|(n, o)| format!("{n}={o}")).collect::<Vec<_>>().join(";"))
    }
}

fn cps(s: &str) -> String {
    if s.is_empty() {
        "-".into()
    } else {
        s.chars().map(|c| (c as u32).to_string()).collect::<Vec<_>>().join(" ")
    }
}

/// `display <form> <pairs>`: Display text, the text parsed back, and the serde round trips
pub fn display(form: &str, pairs: &str) -> String {
    let mut reg = Reg::new(form);
    if pairs != "-" {
        for kv in pairs.split(',') {
            let Some((k, v)) = kv.split_once('=') else { return "bad-args".into() };
            let (Some(k), Ok(v)) = (key(k), v.parse::<i32>()) else { return "bad-args".into() };
            match &mut reg {
                Reg::Vec(c) => c.set(k, v),
                Reg::Map(c) => c.set(k, v),
                Reg::Enum(c) => c.set(k, v),
            }
        }
    }
    let text = match guarded(|| match &reg {
        Reg::Vec(c) => c.to_string(),
        Reg::Map(c) => c.to_string(),
        Reg::Enum(c) => c.to_string(),
    }) {
        Some(t) => t,
        None => return "panic".into(),
    };
    let mut back = parse_all(&text);
    // "parsing the text back yields an EQUAL composition": `==` on the same type, not just the same entries
    // ... whatever has been asked of the two values before (both with their masses computed and memoised: the parsed-back
    // value holds its entries in canonical order, the original in insertion order, so the two f64 sums may differ in the last
    // place — equality is about keys and counts)
    let eq_back = guarded(|| match &reg {
        Reg::Vec(c) => ChemicalCompositionVec::from_str(&text)
            .map(|p| {
                let (mut a, mut b) = (p.clone(), c.clone());
                let _ = (a.fmass(), b.fmass());
                p == *c && *c == p && a == b && b == a
            })
            .unwrap_or(false),
        Reg::Map(c) => ChemicalCompositionMap::from_str(&text)
            .map(|p| {
                let (mut a, mut b) = (p.clone(), c.clone());
                let _ = (a.fmass(), b.fmass());
                p == *c && *c == p && a == b && b == a
            })
            .unwrap_or(false),
        Reg::Enum(c) => ChemicalComposition::from_str(&text)
            .map(|p| {
                let (mut a, mut b) = (p.clone(), c.clone());
                let _ = (a.fmass(), b.fmass());
                p == *c && *c == p && a == b && b == a
            })
            .unwrap_or(false),
    });
    if eq_back != Some(true) && back.starts_with("ok") {
        back = format!("not-equal-to-original {back}");
    }
    // serde: compositions serialise as that text; Vec and Map deserialise from it
    let json = guarded(|| match &reg {
        Reg::Vec(c) => serde_json::to_string(c).unwrap_or_else(|e| format!("ser-err {e}")),
        Reg::Map(c) => serde_json::to_string(c).unwrap_or_else(|e| format!("ser-err {e}")),
        Reg::Enum(c) => serde_json::to_string(c).unwrap_or_else(|e| format!("ser-err {e}")),
    })
    .unwrap_or_else(|| "panic".into());
    let expect_json = serde_json::to_string(&text).unwrap();
    let ser_ok = json == expect_json;
    // "deserialize to equal values": whatever route the text takes to the Deserialize impl — borrowed from the input
    // (from_str), transient (from_reader), owned (from_value), or written with \u escapes (not borrowable)
    let escaped = format!("\"{}\"", text.chars().map(|c| format!("\\u{:04x}", c as u32)).collect::<String>());
    let vec_ents = |c: &ChemicalCompositionVec| -> Vec<(String, u16, i32)> { c.iter().map(|(k, v)| (k.element.symbol.clone(), k.isotope, *v)).collect() };
    let map_ents = |c: &ChemicalCompositionMap| -> Vec<(String, u16, i32)> { c.iter().map(|(k, v)| (k.element.symbol.clone(), k.isotope, *v)).collect() };
    let routes_vec = vec![
        res(guarded(|| serde_json::from_str::<ChemicalCompositionVec>(&expect_json)), vec_ents),
        res(guarded(|| serde_json::from_reader::<_, ChemicalCompositionVec>(expect_json.as_bytes())), vec_ents),
        res(guarded(|| serde_json::from_value::<ChemicalCompositionVec>(serde_json::Value::String(text.clone()))), vec_ents),
        res(guarded(|| serde_json::from_str::<ChemicalCompositionVec>(&escaped)), vec_ents),
    ];
    let routes_map = vec![
        res(guarded(|| serde_json::from_str::<ChemicalCompositionMap>(&expect_json)), map_ents),
        res(guarded(|| serde_json::from_reader::<_, ChemicalCompositionMap>(expect_json.as_bytes())), map_ents),
        res(guarded(|| serde_json::from_value::<ChemicalCompositionMap>(serde_json::Value::String(text.clone()))), map_ents),
        res(guarded(|| serde_json::from_str::<ChemicalCompositionMap>(&escaped)), map_ents),
    ];
    let join = |v: Vec<String>| if v.iter().all(|x| *x == v[0]) { v[0].clone() } else { format!("routes-differ str={} reader={} value={} escaped={}", v[0], v[1], v[2], v[3]) };
    let de_vec = join(routes_vec);
    let de_map = join(routes_map);
    format!("{}\t{}\t{}\t{}\t{}", cps(&text), back, if ser_ok { "ser-ok".to_string() } else { format!("ser-bad {json}") }, de_vec, de_map)
}

/// `specserde <sym:iso>`: ElementSpecification -> JSON -> ElementSpecification
pub fn spec_serde(k: &str) -> String {
    let Some(k) = key(k) else { return "bad-args".into() };
    guarded(|| {
        let j = match serde_json::to_string(&k) {
            Ok(j) => j,
            Err(e) => return format!("ser-err {e}"),
        };
        let inner: String = serde_json::from_str::<String>(&j).unwrap_or_default();
        let escaped = format!("\"{}\"", inner.chars().map(|c| format!("\\u{:04x}", c as u32)).collect::<String>());
        let others = [
            serde_json::from_reader::<_, ElementSpecification>(j.as_bytes()).map(|b| b == k).unwrap_or(false),
            serde_json::from_value::<ElementSpecification>(serde_json::Value::String(inner.clone())).map(|b| b == k).unwrap_or(false),
            serde_json::from_str::<ElementSpecification>(&escaped).map(|b| b == k).unwrap_or(false),
        ];
        match serde_json::from_str::<ElementSpecification>(&j) {
            Ok(b) => format!("{} {}:{} eq={}", j, b.element.symbol, b.isotope, b == k && others.iter().all(|x| *x)),
            Err(e) => format!("{j} de-err {e}"),
        }
    })
    .unwrap_or_else(|| "panic".into())
}

pub fn run_case(line: &str) -> String {
    let f: Vec<&str> = line.split('\t').collect();
    match (f.first().copied(), f.len()) {
        (Some("parse"), 2) => parse_all(&cps_arg(f[1])),
        (Some("parsewith"), 3) => parse_with_table(f[1], &cps_arg(f[2])),
        (Some("display"), 3) => display(f[1], f[2]),
        (Some("specserde"), 2) => spec_serde(f[1]),
        _ => "bad-line".into(),
    }
}
