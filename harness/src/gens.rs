//! `exec conv` / `exec brain`: the fine-structure convolution and the BRAIN coarse generator.
use chemical_elements::isotopic_pattern::baffling::{IsotopicConstantsCache, IsotopicDistribution, NumPeaksSpec};
use chemical_elements::isotopic_pattern::{
    isotopic_convolution, isotopic_variants, BafflingRecursiveIsotopicPatternGenerator, Peak,
};
use chemical_elements::{ChemicalComposition, ChemicalCompositionMap, ChemicalCompositionVec};

use crate::comp::key;
use crate::peaks::{parse_frac, show_peaks};
use crate::util::guarded;

/// `svec` / `smap`: the same composition reached with a STALE mass memo — built from other counts, `fmass()`, then every
/// count overwritten through the public `composition` field (which no method guards).  Pattern generation is a function
/// of the contents.
pub fn build_comp(pairs: &str, form: &str) -> Option<ChemicalComposition<'static>> {
    if form == "svec" || form == "smap" {
        let target = build_comp(pairs, &form[1..])?;
        let mut c = target.clone();
        let keys: Vec<_> = c.iter().map(|(k, _)| *k).collect();
        for k in keys.iter() {
            c.set(*k, 1);
        }
        let _ = c.fmass();
        match (&mut c, &target) {
            (ChemicalComposition::Vec(v), _) => {
                for e in v.composition.iter_mut() {
                    e.1 = target.get(&e.0);
                }
            }
            (ChemicalComposition::Map(m), _) => {
                for (k, v) in m.composition.iter_mut() {
                    *v = target.get(k);
                }
            }
        }
        return Some(c);
    }
    let mut items = Vec::new();
    if pairs != "-" {
        for kv in pairs.split(',') {
            let (k, v) = kv.split_once('=')?;
            items.push((key(k)?, v.parse::<i32>().ok()?));
        }
    }
    Some(match form {
        "map" | "emap" => {
            let mut m = ChemicalCompositionMap::new();
            for (k, v) in items {
                m.set(k, v);
            }
            ChemicalComposition::Map(m)
        }
        _ => {
            let mut m = ChemicalCompositionVec::new();
            for (k, v) in items {
                m.set(k, v);
            }
            ChemicalComposition::Vec(m)
        }
    })
}

fn show(l: &[Peak]) -> String {
    if l.iter().all(|q| q.mz.is_finite() && q.intensity.is_finite()) {
        format!("ok * {}", show_peaks(l))
    } else {
        format!("nonfinite {}", l.len())
    }
}

pub fn run_conv(line: &str) -> String {
    let f: Vec<&str> = line.split('\t').collect();
    if f.len() != 6 {
        return "bad-line".into();
    }
    let (Some(c), Ok(z), Some(carrier), Some(t)) =
        (build_comp(f[1], f[5]), f[2].parse::<i32>(), parse_frac(f[3]), parse_frac(f[4]))
    else {
        return "bad-args".into();
    };
    guarded(move || show(&isotopic_convolution(c, z, carrier, t))).unwrap_or_else(|| "panic".into())
}

/// peak request: guess | n:<i32> | u:<usize> | f:<fraction> | none | some:<i32>
fn variants(
    gen: Option<&mut BafflingRecursiveIsotopicPatternGenerator<'static>>,
    c: ChemicalComposition<'static>,
    req: &str,
    z: i32,
    carrier: f64,
) -> Option<Vec<Peak>> {
    macro_rules! call {
        ($r:expr) => {
            match gen {
                Some(g) => g.isotopic_variants(c, $r, z, carrier),
                None => isotopic_variants(c, $r, z, carrier),
            }
        };
    }
    Some(if req == "guess" {
        call!(0i32)
    } else if req == "none" {
        call!(None::<i32>)
    } else if let Some(n) = req.strip_prefix("n:") {
        call!(n.parse::<i32>().ok()?)
    } else if let Some(n) = req.strip_prefix("u:") {
        call!(n.parse::<usize>().ok()?)
    } else if let Some(n) = req.strip_prefix("some:") {
        call!(Some(n.parse::<i32>().ok()?))
    } else if let Some(x) = req.strip_prefix("f:") {
        call!(parse_frac(x)? as f32)
    } else {
        return None;
    })
}

fn spec_of(req: &str) -> Option<NumPeaksSpec> {
    Some(if req == "guess" {
        0i32.into()
    } else if req == "none" {
        None::<i32>.into()
    } else if let Some(n) = req.strip_prefix("n:") {
        n.parse::<i32>().ok()?.into()
    } else if let Some(n) = req.strip_prefix("u:") {
        n.parse::<usize>().ok()?.into()
    } else if let Some(n) = req.strip_prefix("some:") {
        Some(n.parse::<i32>().ok()?).into()
    } else if let Some(x) = req.strip_prefix("f:") {
        (parse_frac(x)? as f32).into()
    } else {
        return None;
    })
}

/// `brain <pairs> <req> <z> <carrier> <form>`; forms `dvec` / `dmap` go through the public constructor
/// `IsotopicDistribution::from_composition`, `cvec` / `cmap` through `from_composition_and_cache` (fresh cache)
pub fn run_brain(line: &str) -> String {
    let f: Vec<&str> = line.split('\t').collect();
    if f.len() != 6 {
        return "bad-line".into();
    }
    let via = f[5].chars().next().filter(|c| (*c == 'd' || *c == 'c') && f[5].len() == 4);
    let form = if via.is_some() { &f[5][1..] } else { f[5] };
    let (Some(c), Ok(z), Some(carrier)) = (build_comp(f[1], form), f[3].parse::<i32>(), parse_frac(f[4])) else {
        return "bad-args".into();
    };
    let req = f[2].to_string();
    if let Some(v) = via {
        return guarded(move || match spec_of(&req) {
            None => "bad-req".to_string(),
            Some(spec) => {
                if v == 'd' {
                    show(&IsotopicDistribution::from_composition(c, spec).isotopic_variants(z, carrier))
                } else {
                    let mut cache = IsotopicConstantsCache::new();
                    show(&IsotopicDistribution::from_composition_and_cache(c, spec, &mut cache).isotopic_variants(z, carrier))
                }
            }
        })
        .unwrap_or_else(|| "panic".into());
    }
    guarded(move || variants(None, c, &req, z, carrier).map(|l| show(&l)).unwrap_or_else(|| "bad-req".into()))
        .unwrap_or_else(|| "panic".into())
}

/// `brainhist <call>|<call>|…` with call = `pairs;req;z;carrier;form` on ONE generator; prints, per
/// call, the generator's result and the stateless function's result on the same arguments.
pub fn run_brainhist(line: &str) -> String {
    let f: Vec<&str> = line.split('\t').collect();
    if f.len() != 2 {
        return "bad-line".into();
    }
    let mut gen = BafflingRecursiveIsotopicPatternGenerator::new();
    // the same history through the public constructor with a caller-kept cache: constants checked out, handed back
    let mut cache = IsotopicConstantsCache::new();
    let mut outs = Vec::new();
    for call in f[1].split('|') {
        let a: Vec<&str> = call.split(';').collect();
        if a.len() != 5 {
            return "bad-call".into();
        }
        let (Some(c), Ok(z), Some(carrier)) = (build_comp(a[0], a[4]), a[2].parse::<i32>(), parse_frac(a[3])) else {
            return "bad-args".into();
        };
        let c2 = c.clone();
        let req = a[1].to_string();
        let req2 = req.clone();
        let g = guarded(|| variants(Some(&mut gen), c, &req, z, carrier).map(|l| show(&l)).unwrap_or_else(|| "bad-req".into()))
            .unwrap_or_else(|| "panic".into());
        let s = guarded(move || variants(None, c2, &req2, z, carrier).map(|l| show(&l)).unwrap_or_else(|| "bad-req".into()))
            .unwrap_or_else(|| "panic".into());
        let c3 = build_comp(a[0], a[4]);
        let req3 = a[1].to_string();
        let k = guarded(|| match (c3, spec_of(&req3)) {
            (Some(c3), Some(spec)) => {
                let dist = IsotopicDistribution::from_composition_and_cache(c3, spec, &mut cache);
                let peaks = dist.isotopic_variants(z, carrier);
                cache.receive_from(dist.constants);
                show(&peaks)
            }
            _ => "bad-req".to_string(),
        })
        .unwrap_or_else(|| "panic".into());
        outs.push(format!("{g}~{s}~{k}"));
    }
    outs.join("|")
}

/// `brainconc <call>|<call>|…`: every call once on the main thread (stateless), then from 16 threads at
/// once — each thread with its own generator, walking the pool in a different rotation, interleaved
/// with stateless calls — and every result compared with the single-threaded one.
pub fn run_brainconc(line: &str) -> String {
    let f: Vec<&str> = line.split('\t').collect();
    if f.len() != 2 {
        return "bad-line".into();
    }
    let calls: Vec<Vec<String>> = f[1].split('|').map(|c| c.split(';').map(|s| s.to_string()).collect()).collect();
    if calls.iter().any(|a| a.len() != 5) {
        return "bad-call".into();
    }
    let eval = |gen: Option<&mut BafflingRecursiveIsotopicPatternGenerator<'static>>, a: &Vec<String>| -> String {
        let (Some(c), Ok(z), Some(carrier)) = (build_comp(&a[0], &a[4]), a[2].parse::<i32>(), parse_frac(&a[3])) else {
            return "bad-args".into();
        };
        variants(gen, c, &a[1], z, carrier).map(|l| show(&l)).unwrap_or_else(|| "bad-req".into())
    };
    let baseline: Vec<String> = calls.iter().map(|a| guarded(|| eval(None, a)).unwrap_or_else(|| "panic".into())).collect();
    let nthreads = 16;
    let mut handles = Vec::new();
    for t in 0..nthreads {
        let calls = calls.clone();
        let baseline = baseline.clone();
        handles.push(std::thread::spawn(move || {
            let mut gen = BafflingRecursiveIsotopicPatternGenerator::new();
            let mut bad = Vec::new();
            for round in 0..3 {
                for i in 0..calls.len() {
                    let idx = (i * (t + 1) + t + round) % calls.len();
                    let g = guarded(|| eval(Some(&mut gen), &calls[idx])).unwrap_or_else(|| "panic".into());
                    let s = guarded(|| eval(None, &calls[idx])).unwrap_or_else(|| "panic".into());
                    if g != baseline[idx] || s != baseline[idx] {
                        bad.push(format!("thread {t} call {idx}: generator-equal={} stateless-equal={}", g == baseline[idx], s == baseline[idx]));
                    }
                }
            }
            bad
        }));
    }
    let mut bad = Vec::new();
    for h in handles {
        match h.join() {
            Ok(b) => bad.extend(b),
            Err(_) => bad.push("thread panicked".to_string()),
        }
    }
    if bad.is_empty() {
        format!("ok {} threads x {} calls x 3 rounds", nthreads, calls.len())
    } else {
        format!("mismatch {}", bad[..bad.len().min(5)].join("; "))
    }
}
