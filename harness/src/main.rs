//! Correspondence harness: runs the real `chemical_elements` code (path dependency on /repo,
//! rebuilt from the working tree on every check) on generated inputs and prints one
//! observation line per case.  The same op lines are fed to the Lean driver.
mod util;
mod table;
mod comp;
mod peaks;
mod gens;
mod spec;
mod formula;
mod cbind;
mod exec;

fn main() {
    let args: Vec<String> = std::env::args().collect();
    if args.len() < 2 {
        eprintln!("usage: harness <subcommand> [args]");
        std::process::exit(2);
    }
    // panics inside catch_unwind'ed cases should not spam stderr
    std::panic::set_hook(Box::new(|_| {}));
    let rest = &args[2..];
    match args[1].as_str() {
        "dump-table" => table::dump_table(),
        "exec" => exec::run(rest),
        other => {
            eprintln!("unknown subcommand {other} {rest:?}");
            std::process::exit(2);
        }
    }
}
