//! `exec peaks` / `exec poisson`: pattern operations, the Poisson approximation and m/z helpers.
use chemical_elements::isotopic_pattern::{
    poisson_approximate_n_peaks_of, poisson_approximation, Peak, TheoreticalIsotopicPattern,
};
use chemical_elements::{mass_charge_ratio, neutral_mass};

use crate::util::{frac, guarded};

pub fn parse_frac(s: &str) -> Option<f64> {
    // exact: numerators/denominators are chosen so that the quotient is representable
    let (n, d) = match s.split_once('/') {
        Some((n, d)) => (n, d),
        None => (s, "1"),
    };
    let n: f64 = n.parse().ok()?;
    if let Some(e) = d.strip_prefix("2^") {
        // n / 2^e for exponents past the range of f64 (subnormal values): scaling by powers of two is exact
        let mut e: i32 = e.parse().ok()?;
        let mut x = n;
        while e > 0 {
            let k = e.min(1000);
            x *= 2f64.powi(-k);
            e -= k;
        }
        return Some(x);
    }
    let d: f64 = d.parse().ok()?;
    Some(n / d)
}

fn parse_peaks(s: &str) -> Option<Vec<Peak>> {
    if s == "-" {
        return Some(vec![]);
    }
    s.split(',')
        .map(|pq| {
            let (a, b) = pq.split_once(':')?;
            Some(Peak { mz: parse_frac(a)?, intensity: parse_frac(b)? })
        })
        .collect()
}

pub fn show_peaks(l: &[Peak]) -> String {
    if l.is_empty() {
        return "-".into();
    }
    l.iter().map(|p| format!("{}:{}", frac(p.mz), frac(p.intensity))).collect::<Vec<_>>().join(",")
}

fn finite(p: &TheoreticalIsotopicPattern) -> bool {
    p.origin.is_finite() && p.peaks.iter().all(|q| q.mz.is_finite() && q.intensity.is_finite())
}

/// the read accessors of a pattern must all describe the `peaks` vector it holds
fn views_agree(p: &TheoreticalIsotopicPattern) -> bool {
    let n = p.peaks.len();
    let same = |a: &Peak, b: &Peak| a.mz.to_bits() == b.mz.to_bits() && a.intensity.to_bits() == b.intensity.to_bits();
    let mut ok = p.len() == n && p.is_empty() == (n == 0) && p.iter().count() == n;
    ok &= p.iter().zip(p.peaks.iter()).all(|(a, b)| same(a, b));
    ok &= (0..n).all(|i| same(&p[i], &p.peaks[i]) && p[i].mz() == p.peaks[i].mz && p[i].intensity() == p.peaks[i].intensity as f32);
    let c = p.clone();
    ok &= c.origin.to_bits() == p.origin.to_bits() && c.peaks.len() == n;
    let v: Vec<Peak> = c.into_iter().collect();
    ok &= v.len() == n && v.iter().zip(p.peaks.iter()).all(|(a, b)| same(a, b));
    // `iter_mut` walks the same peaks; `Peak`'s ordering is the ordering of m/z
    let mut c2 = p.clone();
    ok &= c2.iter_mut().count() == n && c2.iter_mut().zip(p.peaks.iter()).all(|(a, b)| same(a, b));
    ok &= p.peaks.windows(2).all(|w| w[0].partial_cmp(&w[1]) == w[0].mz.partial_cmp(&w[1].mz));
    // `clone_from` into a pattern that already holds something must leave exactly the source
    let mut d = TheoreticalIsotopicPattern::new(vec![Peak { mz: 1.0, intensity: 1.0 }, Peak { mz: 2.0, intensity: 3.0 }], 7.0);
    d.clone_from(p);
    ok &= d.origin.to_bits() == p.origin.to_bits() && d.peaks.len() == n && d.peaks.iter().zip(p.peaks.iter()).all(|(a, b)| same(a, b));
    let w: Vec<Peak> = p.clone().into();
    ok &= w.len() == n && w.iter().zip(p.peaks.iter()).all(|(a, b)| same(a, b));
    ok
}

fn show_pattern(p: &TheoreticalIsotopicPattern) -> String {
    if !finite(p) {
        return "nonfinite".into();
    }
    if !views_agree(p) {
        return "views-differ".into();
    }
    format!("ok {} {}", frac(p.origin), show_peaks(&p.peaks))
}

pub fn run_peaks(line: &str) -> String {
    let f: Vec<&str> = line.split('\t').collect();
    match f.first().copied() {
        Some("peaks") if f.len() >= 4 => {
            let (op, origin, peaks) = (f[1], parse_frac(f[2]), parse_peaks(f[3]));
            let args: Option<Vec<f64>> = f[4..].iter().map(|s| parse_frac(s)).collect();
            let (Some(o), Some(l), Some(a)) = (origin, peaks, args) else { return "bad-args".into() };
            let p = TheoreticalIsotopicPattern::new(l, o);
            let r = guarded(move || match (op, a.as_slice()) {
                ("normalize", []) => show_pattern(&p.normalize()),
                ("scale", [x]) => show_pattern(&p.scale_by(*x)),
                ("shift", [x]) => show_pattern(&p.shift(*x)),
                ("cshift", [x]) => {
                    let before = show_pattern(&p);
                    let q = p.clone_shifted(*x);
                    if show_pattern(&p) != before {
                        "input-modified".into()
                    } else {
                        show_pattern(&q)
                    }
                }
                ("trunc", [t]) => show_pattern(&p.truncate_after(*t)),
                ("ignore", [t]) => show_pattern(&p.ignore_below(*t)),
                ("fused", [t1, t2, d]) => {
                    let q = p.truncate_after_ignore_below_shift_normalize(*t1, *t2, *d);
                    if finite(&q) { format!("ok * {}", show_peaks(&q.peaks)) } else { "nonfinite".into() }
                }
                ("droplast", []) => show_pattern(&p.clone_drop_last()),
                ("slice", [a, b]) => show_pattern(&p.slice_normalized((*a as usize)..(*b as usize))),
                ("incr", [t]) => {
                    let forms: Vec<String> = p.clone().incremental_truncation(*t).map(|q| show_pattern(&q)).collect();
                    // the iterator's other ways of being consumed must walk the same sequence: nth(k), skip(k), step_by(2),
                    // last(), count(), and an exact size_hint if it gives one
                    let mut agree = p.clone().incremental_truncation(*t).count() == forms.len()
                        && p.clone().incremental_truncation(*t).last().map(|q| show_pattern(&q)) == forms.last().cloned();
                    for k in 0..forms.len() + 2 {
                        agree &= p.clone().incremental_truncation(*t).nth(k).map(|q| show_pattern(&q)) == forms.get(k).cloned();
                        let skipped: Vec<String> = p.clone().incremental_truncation(*t).skip(k).map(|q| show_pattern(&q)).collect();
                        agree &= skipped[..] == forms[k.min(forms.len())..];
                    }
                    let stepped: Vec<String> = p.clone().incremental_truncation(*t).step_by(2).map(|q| show_pattern(&q)).collect();
                    agree &= stepped == forms.iter().step_by(2).cloned().collect::<Vec<_>>();
                    let (lo, hi) = p.clone().incremental_truncation(*t).size_hint();
                    agree &= lo <= forms.len() && hi.map(|h| h >= forms.len()).unwrap_or(true);
                    if !agree {
                        return "iterator-adaptors-differ".into();
                    }
                    if forms.iter().any(|s| s == "nonfinite") && forms.len() == 0 { "nonfinite".into() } else { format!("list {}", forms.join("|")) }
                }
                ("total", []) => frac(p.total()),
                _ => "bad-op".into(),
            });
            r.unwrap_or_else(|| "panic".into())
        }
        Some("peakseq") if f.len() == 5 => {
            let (Some(a), Some(l1), Some(b), Some(l2)) = (parse_frac(f[1]), parse_peaks(f[2]), parse_frac(f[3]), parse_peaks(f[4])) else { return "bad-args".into() };
            let x = TheoreticalIsotopicPattern::new(l1, a);
            let y = TheoreticalIsotopicPattern::new(l2.clone(), b);
            let r = guarded(move || {
                let e1 = x == y;
                let e2 = x == l2[..];
                if e1 == e2 { (e1 as u8).to_string() } else { format!("{}!slice={}", e1 as u8, e2 as u8) }
            });
            r.unwrap_or_else(|| "panic".into())
        }
        _ => "bad-line".into(),
    }
}

pub fn run_poisson(line: &str) -> String {
    let f: Vec<&str> = line.split('\t').collect();
    match (f.first().copied(), f.len()) {
        (Some("poisson"), 4) => {
            let (Some(m), Ok(n), Ok(z)) = (parse_frac(f[1]), f[2].parse::<usize>(), f[3].parse::<i32>()) else { return "bad-args".into() };
            guarded(move || {
                let l = poisson_approximation(m, n, z);
                if l.iter().all(|q| q.mz.is_finite() && q.intensity.is_finite()) {
                    format!("ok * {}", show_peaks(&l))
                } else {
                    format!("nonfinite {}", l.len())
                }
            })
            .unwrap_or_else(|| "panic".into())
        }
        (Some("poissonn"), 3) => {
            let Some(m) = parse_frac(f[1]) else { return "bad-args".into() };
            let ts: Option<Vec<f64>> = f[2].split(',').map(parse_frac).collect();
            let Some(ts) = ts else { return "bad-args".into() };
            ts.iter()
                .map(|t| guarded(|| poisson_approximate_n_peaks_of(m, *t).to_string()).unwrap_or_else(|| "panic".into()))
                .collect::<Vec<_>>()
                .join(" ")
        }
        // the `_impl` entry points: another lambda factor, another iteration cap
        (Some("poissoni"), 5) => {
            let (Some(m), Ok(n), Ok(z), Some(lf)) = (parse_frac(f[1]), f[2].parse::<usize>(), f[3].parse::<i32>(), parse_frac(f[4])) else { return "bad-args".into() };
            guarded(move || {
                let l = chemical_elements::isotopic_pattern::poisson::poisson_approximation_impl(m, n, z, lf);
                if l.iter().all(|q| q.mz.is_finite() && q.intensity.is_finite()) {
                    format!("ok * {}", show_peaks(&l))
                } else {
                    format!("nonfinite {}", l.len())
                }
            })
            .unwrap_or_else(|| "panic".into())
        }
        (Some("poissonni"), 5) => {
            let (Some(m), Some(lf), Ok(mi)) = (parse_frac(f[1]), parse_frac(f[2]), f[3].parse::<usize>()) else { return "bad-args".into() };
            let ts: Option<Vec<f64>> = f[4].split(',').map(parse_frac).collect();
            let Some(ts) = ts else { return "bad-args".into() };
            ts.iter()
                .map(|t| guarded(|| chemical_elements::isotopic_pattern::poisson::poisson_approximate_n_peaks_of_impl(m, lf, *t, mi).to_string()).unwrap_or_else(|| "panic".into()))
                .collect::<Vec<_>>()
                .join(" ")
        }
        (Some("mz"), 4) => {
            let (Some(m), Ok(z), Some(c)) = (parse_frac(f[1]), f[2].parse::<i32>(), parse_frac(f[3])) else { return "bad-args".into() };
            guarded(move || {
                let x = mass_charge_ratio(m, z, c);
                format!("{}\t{}", frac(x), frac(neutral_mass(x, z, c)))
            })
            .unwrap_or_else(|| "panic".into())
        }
        _ => "bad-line".into(),
    }
}
