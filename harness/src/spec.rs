//! `exec spec`: ElementSpecification text and string-keyed reads (C16).
use std::ops::Index;
use std::str::FromStr;

use chemical_elements::{ChemicalCompositionRef, ChemicalElements, ElementSpecification};

use crate::comp::{key, Reg};
use crate::util::guarded;

fn cps_arg(s: &str) -> String {
    if s == "-" {
        return String::new();
    }
    s.split_whitespace().filter_map(|x| x.parse::<u32>().ok()).filter_map(char::from_u32).collect()
}

fn show(r: Option<Result<(String, u16), ()>>) -> String {
    match r {
        None => "panic".into(),
        Some(Ok((s, i))) => format!("ok {s}:{i}"),
        Some(Err(())) => "err".into(),
    }
}

pub fn run_case(line: &str) -> String {
    let f: Vec<&str> = line.split('\t').collect();
    match (f.first().copied(), f.len()) {
        (Some("parse"), 2) => {
            let s = cps_arg(f[1]);
            let a = show(guarded(|| ElementSpecification::parse(&s).map(|k| (k.element.symbol.clone(), k.isotope)).map_err(|_| ())));
            let b = show(guarded(|| ElementSpecification::from_str(&s).map(|k| (k.element.symbol.clone(), k.isotope)).map_err(|_| ())));
            let c = show(guarded(|| {
                let ce = ChemicalElements::new();
                let r = ce.parse_element(&s).map(|k| (k.element.symbol.clone(), k.isotope)).map_err(|_| ());
                r
            }));
            if a == b && b == c { a } else { format!("entry-points-differ parse={a} from_str={b} helper={c}") }
        }
        (Some("read"), 4) => {
            let mut reg = Reg::new(f[1]);
            if f[2] != "-" {
                for kv in f[2].split(',') {
                    let Some((k, v)) = kv.split_once('=') else { return "bad-args".into() };
                    let (Some(k), Ok(v)) = (key(k), v.parse::<i32>()) else { return "bad-args".into() };
                    match &mut reg {
                        Reg::Vec(c) => c.set(k, v),
                        Reg::Map(c) => c.set(k, v),
                        Reg::Enum(c) => c.set(k, v),
                    }
                }
            }
            let s = cps_arg(f[3]);
            let sidx = guarded(|| match &reg {
                Reg::Vec(c) => *c.index(s.as_str()),
                Reg::Map(c) => *c.index(s.as_str()),
                Reg::Enum(c) => *c.index(s.as_str()),
            });
            let gets = guarded(|| match &reg {
                Reg::Vec(c) => c.get_str(&s),
                Reg::Map(c) => c.get_str(&s),
                Reg::Enum(c) => c.get_str(&s),
            });
            // the same string key through the borrowed view `ChemicalCompositionRef`
            let rview = guarded(|| {
                let rv = match &reg {
                    Reg::Vec(c) => ChemicalCompositionRef::Vec(c),
                    Reg::Map(c) => ChemicalCompositionRef::Map(c),
                    Reg::Enum(c) => ChemicalCompositionRef::from(c),
                };
                rv[s.as_str()]
            });
            let sh = |x: Option<i32>| x.map(|v| v.to_string()).unwrap_or("panic".into());
            if rview == sidx {
                format!("{} {}", sh(sidx), sh(gets))
            } else {
                format!("{}!ref-view={} {}", sh(sidx), sh(rview), sh(gets))
            }
        }
        (Some("classify"), 2) => {
            let Some(c) = f[1].parse::<u32>().ok().and_then(char::from_u32) else { return "bad-args".into() };
            format!("{} {} {}", c.is_alphabetic(), c.is_numeric(), c.is_ascii_uppercase())
        }
        (Some("display"), 2) => {
            let Some(k) = key(f[1]) else { return "bad-args".into() };
            let s = k.to_string();
            // "parsing the text back gives an EQUAL specification": `==` itself, both ways, through every entry point — also
            // against a table of the caller's (equal content, other `Element` objects)
            let back = guarded(|| {
                let other = chemical_elements::ChemicalElements::new();
                let a = ElementSpecification::parse(&s).ok();
                let b = ElementSpecification::from_str(&s).ok();
                let c = ElementSpecification::parse_with(&s, &chemical_elements::PERIODIC_TABLE).ok();
                let d = ElementSpecification::parse_with(&s, &other.periodic_table).ok();
                let e = other.parse_element(&s).ok();
                [a, b, c, d, e].iter().all(|x| matches!(x, Some(p) if *p == k && k == *p && p.isotope == k.isotope && p.element.symbol == k.element.symbol))
            })
            .unwrap_or(false);
            let mut out = s.chars().map(|c| (c as u32).to_string()).collect::<Vec<_>>().join(" ");
            if !back {
                out.push_str(" !parse-back-unequal");
            }
            out
        }
        _ => "bad-line".into(),
    }
}
