//! `dump-table`: every public field of both periodic tables (the global `PERIODIC_TABLE` and the
//! one built by `ChemicalElements::new()`), plus the values the public accessors return.
//! This is the translator's primary front-end: the compiler itself tells us what the table is.
use chemical_elements::{ChemicalElements, PeriodicTable, PERIODIC_TABLE};
use serde_json::{json, Value};

use crate::util::guarded;

fn dump_one(name: &str, table: &PeriodicTable, out: &mut Vec<Value>) {
    let mut keys: Vec<&String> = table.elements.keys().collect();
    keys.sort();
    for key in keys {
        let e = &table.elements[key];
        let mut isos: Vec<Value> = Vec::new();
        let mut ikeys: Vec<&u16> = e.isotopes.keys().collect();
        ikeys.sort();
        for ik in ikeys {
            let iso = &e.isotopes[ik];
            isos.push(json!({
                "key": ik,
                "mass": format!("{:?}", iso.mass),
                "abundance": format!("{:?}", iso.abundance),
                "neutrons": iso.neutrons,
                "shift": iso.neutron_shift,
            }));
        }
        let api_mass = guarded(|| e.mass()).map(|m| format!("{:?}", m));
        let by_shift: Vec<Value> = (-20i16..=20)
            .map(|s| {
                let r = guarded(|| e.isotope_by_shift(s as i8).map(|i| i.neutrons)).flatten();
                json!([s, r])
            })
            .filter(|v| !v[1].is_null())
            .collect();
        // `index_isotopes` — the mechanism that records the shift bounds — run again on a copy (and on a copy whose recorded
        // bounds were spoiled first) must arrive at the recorded values
        let reindex_ok = guarded(|| {
            let mut a = e.clone();
            a.index_isotopes();
            let mut b = e.clone();
            b.min_neutron_shift = 7;
            b.max_neutron_shift = -7;
            b.index_isotopes();
            (a.min_neutron_shift, a.max_neutron_shift) == (e.min_neutron_shift, e.max_neutron_shift)
                && (b.min_neutron_shift, b.max_neutron_shift) == (e.min_neutron_shift, e.max_neutron_shift)
        })
        .unwrap_or(false);
        // (`get` and `Index<&str>` are two ways to the same element)
        let get_ok = table.get(key).map(|x| x.symbol == e.symbol && std::ptr::eq(x, &table[key.as_str()])).unwrap_or(false) && reindex_ok;
        out.push(json!({
            "table": name,
            "key": key,
            "symbol": e.symbol,
            "most_abundant_isotope": e.most_abundant_isotope,
            "most_abundant_mass": format!("{:?}", e.most_abundant_mass),
            "min": e.min_neutron_shift,
            "max": e.max_neutron_shift,
            "element_number": e.element_number,
            "isotopes": isos,
            "api": {
                "mass": api_mass,
                "calc_min": e.calc_min_neutron_shift(),
                "calc_max": e.calc_max_neutron_shift(),
                "by_shift": by_shift,
                "get_ok": get_ok,
            }
        }));
    }
}

pub fn dump_table() {
    let mut out = Vec::new();
    dump_one("global", &PERIODIC_TABLE, &mut out);
    let ce = ChemicalElements::new();
    dump_one("helper", &ce.periodic_table, &mut out);
    for v in out {
        println!("{}", v);
    }
}
