#![allow(dead_code)]
use std::collections::HashMap;
use std::io::Write;

/// xorshift64* — the single PRNG state every random choice of a run derives from.
pub struct Rng(pub u64);

impl Rng {
    pub fn new(seed: u64) -> Rng {
        let mut s = seed ^ 0x9E37_79B9_7F4A_7C15;
        if s == 0 {
            s = 0x1234_5678_9ABC_DEF1;
        }
        let mut r = Rng(s);
        for _ in 0..8 {
            r.next();
        }
        r
    }
    pub fn next(&mut self) -> u64 {
        let mut x = self.0;
        x ^= x >> 12;
        x ^= x << 25;
        x ^= x >> 27;
        self.0 = x;
        x.wrapping_mul(0x2545_F491_4F6C_DD1D)
    }
    pub fn below(&mut self, n: u64) -> u64 {
        if n == 0 {
            0
        } else {
            self.next() % n
        }
    }
    pub fn range(&mut self, lo: i64, hi: i64) -> i64 {
        lo + self.below((hi - lo + 1) as u64) as i64
    }
    pub fn chance(&mut self, num: u64, den: u64) -> bool {
        self.below(den) < num
    }
    pub fn pick<'a, T>(&mut self, xs: &'a [T]) -> &'a T {
        &xs[self.below(xs.len() as u64) as usize]
    }
    pub fn unit(&mut self) -> f64 {
        (self.next() >> 11) as f64 / (1u64 << 53) as f64
    }
}

pub struct Opts {
    pub map: HashMap<String, String>,
}

impl Opts {
    pub fn parse(args: &[String]) -> Opts {
        let mut map = HashMap::new();
        let mut i = 0;
        while i < args.len() {
            if let Some(k) = args[i].strip_prefix("--") {
                if i + 1 < args.len() && !args[i + 1].starts_with("--") {
                    map.insert(k.to_string(), args[i + 1].clone());
                    i += 2;
                } else {
                    map.insert(k.to_string(), "1".to_string());
                    i += 1;
                }
            } else {
                i += 1;
            }
        }
        Opts { map }
    }
    pub fn seed(&self) -> u64 {
        self.map.get("seed").and_then(|s| s.parse().ok()).unwrap_or(1)
    }
    pub fn thorough(&self) -> bool {
        self.map.get("tier").map(|s| s == "thorough").unwrap_or(false)
    }
    pub fn get(&self, k: &str) -> Option<&String> {
        self.map.get(k)
    }
    pub fn num(&self, k: &str, d: u64) -> u64 {
        self.map.get(k).and_then(|s| s.parse().ok()).unwrap_or(d)
    }
    pub fn out(&self) -> Box<dyn Write> {
        match self.map.get("out") {
            Some(p) => Box::new(std::io::BufWriter::with_capacity(
                1 << 20,
                std::fs::File::create(p).expect("create out"),
            )),
            None => Box::new(std::io::BufWriter::new(std::io::stdout())),
        }
    }
}

/// f64 as its exact value `num/den` (den a power of two) or a marker for non-finite values.
pub fn frac(x: f64) -> String {
    if x.is_nan() {
        return "nan".into();
    }
    if x.is_infinite() {
        return if x > 0.0 { "inf".into() } else { "-inf".into() };
    }
    if x == 0.0 {
        return "0/1".into();
    }
    let bits = x.to_bits();
    let sign = if (bits >> 63) != 0 { "-" } else { "" };
    let exp = ((bits >> 52) & 0x7ff) as i64;
    let man = bits & 0x000f_ffff_ffff_ffff;
    let (m, e) = if exp == 0 {
        (man, -1074i64)
    } else {
        (man | (1u64 << 52), exp - 1075)
    };
    // reduce
    let tz = m.trailing_zeros() as i64;
    let (m, e) = (m >> tz, e + tz);
    if e >= 0 {
        format!("{sign}{}/1", big_shl(m, e as u32))
    } else {
        format!("{sign}{}/{}", m, big_shl(1, (-e) as u32))
    }
}

/// decimal string of m * 2^k for arbitrary k (simple big-number doubling)
fn big_shl(m: u64, k: u32) -> String {
    if k < 64 && (m as u128) << k <= u128::MAX >> 1 && k < 60 && m.leading_zeros() as u32 + 64 > k {
        return ((m as u128) << k).to_string();
    }
    let mut digits: Vec<u8> = m.to_string().bytes().rev().map(|b| b - b'0').collect();
    for _ in 0..k {
        let mut carry = 0u8;
        for d in digits.iter_mut() {
            let v = *d * 2 + carry;
            *d = v % 10;
            carry = v / 10;
        }
        if carry > 0 {
            digits.push(carry);
        }
    }
    digits.iter().rev().map(|d| (b'0' + d) as char).collect()
}

/// Run `f`, mapping a panic to `None`.
pub fn guarded<T>(f: impl FnOnce() -> T) -> Option<T> {
    std::panic::catch_unwind(std::panic::AssertUnwindSafe(f)).ok()
}

/// text as space-separated code points (never empty: "-" stands for the empty string)
pub fn cps(s: &str) -> String {
    if s.is_empty() {
        return "-".into();
    }
    s.chars().map(|c| (c as u32).to_string()).collect::<Vec<_>>().join(" ")
}
