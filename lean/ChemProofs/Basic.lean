def hello := "world"
