import ChemProofs.Drv.Conv
import ChemProofs.Model.Brain
import ChemProofs.Spec.IsoDist
/- Driver for the BRAIN coarse generator (C03, C08, C09; also C10). -/
namespace Chem.Drv
open Chem

def brainK : BrainConsts :=
  { one := 1000000,
    lambdaFactor := constRat Gen.Consts.lambdaFactor,
    maxIter := Gen.Consts.poissonMaxIter.1.toNat,
    guessCap := Gen.Consts.guessCap.1,
    guessFraction := constRat Gen.Consts.guessFraction,
    cut := constRat Gen.Consts.brainCut }

/-- the constants the PROPERTIES name (C09: "the Poisson estimate for 99.99% of the signal", "at most 300"; C15: `mass/1800`,
    `1..=255`): the specification side of the check uses these literals, never what the translator read from the source -/
def specK : BrainConsts :=
  { brainK with lambdaFactor := 1800, maxIter := 255, guessCap := 300, guessFraction := 9999 / 10000 }

def wrap32 (n : Nat) : Int :=
  let m := n % 4294967296
  if m < 2147483648 then (m : Int) else (m : Int) - 4294967296

def parseReq (s : String) : Option PeakReq :=
  if s == "guess" || s == "none" then some .guess
  else if s.startsWith "n:" then ((s.drop 2).toString.toInt?).map reqOfInt
  else if s.startsWith "some:" then ((s.drop 5).toString.toInt?).map reqOfInt
  else if s.startsWith "u:" then ((s.drop 2).toString.toNat?).map (fun n => if n == 0 then .guess else .fixed (wrap32 n))
  else if s.startsWith "f:" then (parseRat? (s.drop 2).toString).map .percent
  else none

def bcompOf (T : Table) (ps : Ents) : Option BComp :=
  ps.mapM (fun e => (T.find? e.1.1).map (fun el => (el, e.2)))

def showPeakList (l : List Peak) : String := "ok * " ++ showPeaks l

def showResPeaks : Res (List Peak) → String
  | .ok l => showPeakList l
  | .err => "err"
  | .panic => "panic"

/-- model output TAB `trueV modelV order g` TAB `j:mz:prob,…` (exact aggregated variants) -/
def runBrainCase (line : String) : String :=
  let T := Gen.table
  let K := brainK
  match fields line with
  | ["brain", pairs, req, z, carrier, _form] =>
    match parsePairs pairs, parseReq req, z.toInt?, parseRat? carrier with
    | some ps, some rq, some z, some c =>
      -- the model resolves the default and the fraction request from the mass of the natural-abundance composition
      -- (`monoMassOf`); the code asks `composition.mass()`, which weighs a fixed-isotope key by that isotope.  The two
      -- agree on plain keys only: a labelled composition with such a request is outside the model
      let labelled := ps.any (fun e => e.1.2 != 0)
      if labelled && (match rq with | .fixed _ => false | _ => true) then "bad-args" else
      match bcompOf T ps with
      | none => "bad-args"
      | some bc =>
        let model := showResPeaks (brainVariants K bc rq z c)
        let order := resolveOrder K bc rq
        -- smallest relative distance of any variant's share from the cut (boundary rule)
        let margin := match (populate K bc order).bind (fun cs => rawVariants K cs bc order.toNat z c) with
          | .ok raw => minMargin (raw.map (fun q => relMargin q.int K.cut))
          | _ => "inf"
        let g := numPeaks specK bc .guess
        let nonneg := bc.all (fun x => 0 ≤ x.2) && ps.all (fun e => e.1.2 == 0)
        if !nonneg then model ++ "\tunspecified\t-\t" ++ margin else
        let nc : List (Elem × Nat) := bc.map (fun x => (x.1, x.2.toNat))
        let tv := Spec.trueVariants nc
        let want : Nat := match rq with
          | .fixed n => (max (n - 1) 0).toNat
          | .percent f => ((poissonN (monoMassOf bc K.one) K.lambdaFactor f K.maxIter : Int) - 1).toNat
          | .guess => g.toNat
        let deg := min tv (max (max order.toNat want) g.toNat)
        let deg := min deg 330
        let prob := Spec.aggProb nc K.one deg
        let mass := Spec.aggMass nc K.one deg
        let rows := (List.range (deg + 1)).map (fun j =>
          let p := prob.getD j 0
          let m := mass.getD j 0
          toString j ++ ":" ++ (if p == 0 then "-" else showRat (chargedMz (m / p) z c)) ++ ":" ++ showRat p)
        model ++ "\t" ++ s!"{tv} {maxVariants bc} {order} {g}" ++ "\t" ++ ",".intercalate rows ++ "\t" ++ margin
    | _, _, _, _ => "bad-args"
  | _ => "bad-line"

/-- `brainhist call|call|…`, call = `pairs;req;z;carrier;form`: per call `generator~stateless` -/
def runBrainHist (line : String) : String :=
  let T := Gen.table
  let K := brainK
  match fields line with
  | ["brainhist", calls] =>
    let (_, outs) := (calls.splitOn "|").foldl (fun (st : Cache × List String) call =>
      let (cache, acc) := st
      match call.splitOn ";" with
      | [pairs, req, z, carrier, _form] =>
        match parsePairs pairs, parseReq req, z.toInt?, parseRat? carrier with
        | some ps, some rq, some z, some c =>
          match bcompOf T ps with
          | none => (cache, acc ++ ["bad-args"])
          | some bc =>
            let s := showResPeaks (brainVariants K bc rq z c)
            match generatorCall K cache bc rq z c with
            | .ok (peaks, cache') => (cache', acc ++ [showPeakList peaks ++ "~" ++ s])
            | .err => (cache, acc ++ ["err~" ++ s])
            | .panic => (cache, acc ++ ["panic~" ++ s])
        | _, _, _, _ => (cache, acc ++ ["bad-args"])
      | _ => (cache, acc ++ ["bad-call"])) (([] : Cache), ([] : List String))
    "|".intercalate outs
  | _ => "bad-line"

end Chem.Drv
