import ChemProofs.Drv.Util
import ChemProofs.Model.Table
import ChemProofs.Model.BuildRs
import ChemProofs.Gen.Table
import ChemProofs.Gen.Nist
/- C12 driver: per-element clause verdicts (the "explain" mode naming failing clauses) and the
   model's value of every public accessor, for comparison with the harness dump. -/
namespace Chem.Drv
open Chem

def c12Element (one : Int) (nist : List NistElem) (e : Elem) : String :=
  let clauses : List (String × Bool) :=
    [("own_symbol", e.cOwnSymbol), ("iso_keys", e.cIsoKeys one), ("shift", e.cShift),
     ("abund_range", e.cAbundRange one), ("abund_sum", e.cAbundSum one),
     ("most_abundant", e.cMostAbundant), ("min_max", e.cMinMax), ("masses", e.cMasses one),
     ("from_nist", match nist.find? (fun n => n.sym == e.tkey) with
        | some n => builtElement n == e
        | none => false)]
  let failing := clauses.filter (fun c => !c.2) |>.map (·.1)
  let byShift := (List.range 41).filterMap (fun (k : Nat) =>
    let s : Int := Int.ofNat k - 20
    (e.isoByShift? s).map (fun i => s!"[{s},{i.neutrons}]"))
  let asum := (e.isos.map (·.abund)).foldl (· + ·) 0
  "c12\t" ++ symStr e.tkey ++ "\t" ++ ",".intercalate failing ++ "\t" ++
    showOptInt e.mass? ++ "\t" ++ toString e.calcMin ++ "\t" ++ toString e.calcMax ++ "\t" ++
    "[" ++ ",".intercalate byShift ++ "]" ++ "\t" ++ toString asum

def c12All : List String :=
  (Gen.table.map (c12Element Gen.one Gen.nist)) ++
  [s!"c12-global\t{Gen.table.length}\t{decide (Gen.table = Gen.tableHelper)}\t{Gen.nist.length}\t{nodupSyms (Gen.table.map (·.tkey))}"] ++
  -- elements of the NIST file that the table lacks
  (Gen.nist.filter (fun n => (Gen.table.find? n.sym).isNone)).map (fun n => "c12-missing\t" ++ symStr n.sym)

end Chem.Drv
