import ChemProofs.Drv.Comp
import ChemProofs.Model.CBinding
/- Driver for the C binding (C17): `cbind op;op;…` → per op `rc:value:handle|probe readings of every live handle`. -/
namespace Chem.Drv
open Chem

def parseCOp (s : String) : Option COp :=
  match words s with
  | ["new"] => some .new
  | ["parse", t] => some (.parse (parseStrArg t))
  | ["copy", h] => h.toNat?.map .copy
  | ["get", h, t] => h.toNat?.map (fun h => .get h (parseStrArg t))
  | ["set", h, t, n] => do pure (.set (← h.toNat?) (parseStrArg t) (← n.toInt?))
  | ["inc", h, t, n] => do pure (.inc (← h.toNat?) (parseStrArg t) (← n.toInt?))
  | ["add", h, g] => do pure (.add (← h.toNat?) (← g.toNat?))
  | ["sub", h, g] => do pure (.sub (← h.toNat?) (← g.toNat?))
  | ["scale", h, n] => do pure (.scale (← h.toNat?) (← n.toInt?))
  | ["mass", h] => h.toNat?.map .mass
  | ["free", h] => h.toNat?.map .free
  | _ => none

def cProbes : List Sym := [[67], [72], [79], [67, 91, 49, 51, 93], [67, 108], [70, 101]]

def showLive (T : Table) (m : Key → Int) (st : CState) : String :=
  ",".intercalate (st.live.map (fun x =>
    "h" ++ toString x.1 ++ "=" ++ toString (x.2.mass m) ++ "/" ++
      "/".intercalate (cProbes.map (fun p => toString (x.2.getStr drvCC T p)))))

def runCBindCase (line : String) : String :=
  let T := Gen.table
  let m := keyMassOf T
  match fields line with
  | ["cbind", opsStr] =>
    let opStrs := (opsStr.splitOn ";").filter (· ≠ "")
    match opStrs.mapM parseCOp with
    | none => "bad-op"
    | some ops =>
      let (_, outs, _) := ops.foldl (fun (acc : CState × List String × Bool) op =>
        let (st, outs, dead) := acc
        if dead then (st, outs, dead) else
        match cstep drvCC T m st op with
        | none => (st, outs ++ ["contract"], false)
        | some .panic => (st, outs ++ ["abort"], true)
        | some .err => (st, outs ++ ["abort"], true)
        | some (.ok (st', o)) =>
          let s := toString (if o.rc == 0 then 0 else 1) ++ ":" ++ showOptInt o.value ++ ":" ++
            (match o.handle with | some h => "h" ++ toString h | none => "null") ++ "|" ++ showLive T m st'
          (st', outs ++ [s], false)) (({ live := [], next := 0 } : CState), ([] : List String), false)
      ";".intercalate outs
  | _ => "bad-line"

end Chem.Drv
