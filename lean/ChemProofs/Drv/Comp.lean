import ChemProofs.Drv.Util
import ChemProofs.Model.CompMachine
import ChemProofs.Model.BuildRs
import ChemProofs.Gen.Table
/- Driver for the composition machine (C02 / C04 / C06): one case per line,
   `comp <TAB> op;op;…`, output: per step `read#reg#reg…` (model) and the same for the spec. -/
namespace Chem.Drv
open Chem

/-- the character classes the generators use; the harness reports Rust's verdict on the same
    characters (`classify` op) and the orchestrator checks, on EVERY character of every generated string, that the two agree
    (a disagreement is a broken check, not a finding) -/
def drvCC : CharClass where
  alpha c := isAsciiAlpha c || c == 233 || c == 20013 || c == 0x212A || c == 0x17F ||
    (0x130 ≤ c && c ≤ 0x139) || (0x430 ≤ c && c ≤ 0x439)
  numeric c := isAsciiDigit c || c == 178 || (0x660 ≤ c && c ≤ 0x669) || (0xFF10 ≤ c && c ≤ 0xFF19) ||
    (0x1D7CE ≤ c && c ≤ 0x1D7D7)
  upper c := isAsciiUpper c

def keyMassOf (T : Table) (k : Key) : Int :=
  match T.find? k.1 with
  | none => 0
  | some e => if k.2 == 0 then e.mostMass else match e.iso? k.2 with
    | some i => i.mass
    | none => 0

/-- the *variant* of an element, as the harness builds it (`third_table`): same isotopes, the heaviest other isotope taken
    as the most abundant one.  The real code holds it to be another element than the stock one (`Element::eq` compares
    `most_abundant_isotope`); the model names it by another symbol, `Sym^3`, which no formula string can spell. -/
def variantOf (e : Elem) : Option Elem :=
  let others := e.isos.filter (fun i => i.key != e.mostIso)
  match others.foldl (fun (acc : Option Iso) i => match acc with
      | none => some i
      | some a => if a.key < i.key then some i else some a) none with
  | some i => some { e with tkey := e.tkey ++ [94, 51], sym := e.sym ++ [94, 51], mostIso := i.key, mostMass := i.mass }
  | none => none

def drvTable : Table := Gen.table ++ Gen.table.filterMap variantOf

def parseKey (s : String) : Option Key :=
  match s.splitOn ":" with
  | [a, b] => b.toNat?.map (fun n => (strSym a, n))
  | _ => none

def parseForm : String → Option Form
  | "vec" => some .vec | "map" => some .map | "evec" => some .evec | "emap" => some .emap
  | _ => none

def parseIterFn : String → Option IterFn
  | "dbl" => some .dbl | "neg" => some .neg | "inc1" => some .inc1 | "zero" => some .zero
  | _ => none

def parsePairs (s : String) : Option Ents :=
  if s == "-" then some [] else
  (s.splitOn ",").mapM (fun kv => match kv.splitOn "=" with
    | [k, v] => do let k ← parseKey k; let v ← v.toInt?; pure (k, v)
    | _ => none)

def parseStrArg (s : String) : Sym :=
  if s == "-" then [] else (s.splitOn ",").filterMap String.toNat?

def parseOp (s : String) : Option Op :=
  match words s with
  | ["new", r, f] => do pure (.new (← r.toNat?) (← parseForm f))
  | ["set", r, k, v] => do pure (.set (← r.toNat?) (← parseKey k) (← v.toInt?))
  | ["inc", r, k, v] => do pure (.inc (← r.toNat?) (← parseKey k) (← v.toInt?))
  | ["iset", r, k, v] => do pure (.iset (← r.toNat?) (← parseKey k) (← v.toInt?))
  | ["iadd", r, k, v] => do pure (.iadd (← r.toNat?) (← parseKey k) (← v.toInt?))
  | ["sset", r, s, v] => do pure (.sset (← r.toNat?) (parseStrArg s) (← v.toInt?))
  | ["sadd", r, s, v] => do pure (.sadd (← r.toNat?) (parseStrArg s) (← v.toInt?))
  | ["incs", r, s, v] => do pure (.incs (← r.toNat?) (parseStrArg s) (← v.toInt?))
  | ["gsm", r, s, v] => do pure (.gsm (← r.toNat?) (parseStrArg s) (← v.toInt?))
  | ["fmass", r] => do pure (.fmass (← r.toNat?))
  | ["mul", d, a, n, _] => do pure (.mul (← d.toNat?) (← a.toNat?) (← n.toInt?))
  | ["muli", r, n, _] => do pure (.muli (← r.toNat?) (← n.toInt?))
  | ["neg", d, a, _] => do pure (.neg (← d.toNat?) (← a.toNat?))
  | ["add", d, a, b, _] => do pure (.add (← d.toNat?) (← a.toNat?) (← b.toNat?) 1)
  | ["sub", d, a, b, _] => do pure (.add (← d.toNat?) (← a.toNat?) (← b.toNat?) (-1))
  | ["addi", a, b, _] => do pure (.addi (← a.toNat?) (← b.toNat?) 1)
  | ["subi", a, b, _] => do pure (.addi (← a.toNat?) (← b.toNat?) (-1))
  | ["itm", r, f] => do pure (.itm (← r.toNat?) (← parseIterFn f))
  | ["clone", d, a] => do pure (.clone (← d.toNat?) (← a.toNat?))
  | ["conv", d, a, f] => do pure (.conv (← d.toNat?) (← a.toNat?) (← parseForm f))
  | ["fromkv", d, f, v, ps] => do pure (.fromkv (← d.toNat?) (← parseForm f) (v.endsWith "Str") (← parsePairs ps))
  | ["get", r, k] => do pure (.get (← r.toNat?) (← parseKey k))
  | ["idx", r, k] => do pure (.idx (← r.toNat?) (← parseKey k))
  | ["gets", r, s] => do pure (.gets (← r.toNat?) (parseStrArg s))
  | ["sidx", r, s] => do pure (.sidx (← r.toNat?) (parseStrArg s))
  | ["eq", a, b] => do pure (.eq (← a.toNat?) (← b.toNat?))
  | _ => none

def lexLeKey (a b : Key) : Bool := !(lexLt b.1 a.1) && (a.1 != b.1 || a.2 ≤ b.2)

def showKey (k : Key) : String := symStr k.1 ++ ":" ++ toString k.2

def showEnts (l : Ents) : String :=
  let sorted := stableSort (fun a b => lexLeKey a.1 b.1 && !(a.1 == b.1)) l
  if sorted.isEmpty then "-" else ",".intercalate (sorted.map (fun e => showKey e.1 ++ "=" ++ toString e.2))

def showForm : Form → String
  | .vec => "vec" | .map => "map" | .evec => "evec" | .emap => "emap"

def showComp (m : Key → Int) (c : Comp) : String :=
  "|".intercalate [showForm c.form, (if c.cache.isSome then "1" else "0"), toString (c.mass m),
    toString (c.calcMass m), toString c.len, showEnts c.ents, toString (c.ents.massOf m)]

def showSpec (m : Key → Int) (univ : List Key) (f : FMap) : String :=
  let ents : Ents := univ.filterMap (fun k => (f k).map (fun v => (k, v)))
  "|".intercalate [toString ents.length, showEnts ents, toString (ents.massOf m)]

def opKeys : Op → List Key
  | .set _ k _ | .inc _ k _ | .iset _ k _ | .iadd _ k _ | .get _ k | .idx _ k => [k]
  | .fromkv _ _ _ ps => ps.map (·.1)
  | _ => []

def dedupKeys (l : List Key) : List Key := l.foldl (fun acc k => if acc.contains k then acc else acc ++ [k]) []

def runCompCase (line : String) : String :=
  match fields line with
  | [_, nregs, opsStr] =>
    let T := drvTable
    let m := keyMassOf T
    let n := nregs.toNat?.getD 4
    let opStrs := (opsStr.splitOn ";").filter (· ≠ "")
    -- a typed key must be a key of the table: the real code cannot weigh `ElementSpecification::new(C, 99)` (it indexes the
    -- element's isotopes and panics) while `keyMassOf` is total — such a line is outside what the model says anything about
    let validKey (k : Key) : Bool := match T.find? k.1 with
      | some e => k.2 == 0 || (e.iso? k.2).isSome
      | none => false
    match opStrs.mapM parseOp with
    | none => "bad-op"
    | some ops =>
      if !(ops.flatMap opKeys).all validKey then "bad-op" else
      -- universe of keys: every key mentioned, plus what every string argument denotes
      let strKeys := ops.filterMap (fun o => match o with
        | .sset _ s _ | .sadd _ s _ | .incs _ s _ | .gsm _ s _ | .gets _ s | .sidx _ s =>
            (match denoteStr T s with | some k => some k | none => some (s, 0))
        | _ => none)
      let univ := dedupKeys (ops.flatMap opKeys ++ strKeys)
      let rs0 : Regs := List.replicate n (Comp.empty .vec)
      let ss0 : SRegs := List.replicate n FMap.empty
      let (_, _, outs) := ops.foldl (fun (st : Regs × SRegs × List String) op =>
        let (rs, ss, acc) := st
        let o := stepM drvCC T m rs op
        if o.panicked then (rs, ss, acc ++ ["panic"]) else
        let (ss', sread) := stepS T univ ss op
        let mo := showOptInt o.read ++ "#" ++ "#".intercalate (o.regs.map (showComp m))
        let so := showOptInt sread ++ "#" ++ "#".intercalate (ss'.map (showSpec m univ))
        (o.regs, ss', acc ++ [mo ++ "~" ++ so])) (rs0, ss0, [])
      ";".intercalate outs
  | _ => "bad-line"

end Chem.Drv
