import ChemProofs.Drv.Peaks
import ChemProofs.Drv.Comp
import ChemProofs.Model.Convolution
/- Driver for the fine-structure convolution (C11; also used by C10). -/
namespace Chem.Drv
open Chem

def micro (T : Table) (x : Int) : Rat := mkRat x 1000000

def isoDist (T : Table) (sym : Sym) : Dist :=
  match T.find? sym with
  | some e => e.isos.map (fun i => (micro T i.mass, micro T i.abund))
  | none => []

def ratLe (a b : Rat × Rat) : Bool := a.1 < b.1 || (a.1 == b.1 && a.2 ≤ b.2)

def sortPairs (l : Dist) : Dist := l.mergeSort ratLe

def showDist (l : Dist) : String :=
  if l.isEmpty then "-" else ",".intercalate (l.map (fun q => showRat q.1 ++ ":" ++ showRat q.2))

/-- `conv <pairs> <z> <carrier> <t> <form>` → model peaks (sorted) TAB spec arrangements at charge z:
    (m/z, raw probability) sorted, TAB total raw probability -/
def runConvCase (line : String) (modelOnly : Bool := false) : String :=
  let T := Gen.table
  match fields line with
  | ["conv", pairs, z, carrier, t, _form] =>
    match parsePairs pairs, z.toInt?, parseRat? carrier, parseRat? t with
    | some ps, some z, some c, some t =>
      let entries : List (Dist × Int) := ps.map (fun e => (isoDist T e.1.1, e.2))
      let model := match isotopicConvolution entries z c t with
        | some peaks => "ok * " ++ showDist (sortPairs (peaks.map (fun q => (q.mz, q.int))))
        | none => "nonfinite"
      let nonneg := ps.all (fun e => 0 ≤ e.2)
      let spec := if modelOnly then "unspecified" else if nonneg then
          let arr := arrangements (ps.map (fun e => (isoDist T e.1.1, e.2.toNat)))
          let arr := if ps.isEmpty then [] else arr
          showDist (sortPairs (arr.map (fun a => (chargedMz a.1 z c, a.2))))
        else "unspecified"
      model ++ "\t" ++ spec
    | _, _, _, _ => "bad-args"
  | _ => "bad-line"

end Chem.Drv
