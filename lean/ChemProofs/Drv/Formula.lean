import ChemProofs.Drv.Comp
import ChemProofs.Model.Formula
import ChemProofs.Spec.Grammar
/- Driver for the formula parser and formula text (C01, C05, C07). -/
namespace Chem.Drv
open Chem

def showEntsRes : Res Ents → String
  | .ok l => "ok " ++ showEnts l
  | .err => "err"
  | .panic => "panic"

/-- sum the listed pairs per key (first-occurrence order), then print sorted -/
def sumPairs (ps : Spec.Pairs) : Ents :=
  ps.foldl (fun acc e =>
    if acc.any (fun x => x.1 == e.1) then acc.map (fun x => if x.1 == e.1 then (x.1, x.2 + e.2) else x)
    else acc ++ [e]) []

def showFVerdict : Spec.FVerdict → String
  | .accept ps => "accept " ++ showEnts (sumPairs ps)
  | .reject => "reject"
  | .unspecified => "unspecified"

def runFormulaCase (line : String) : String :=
  let T := Gen.table
  match fields line with
  | ["parse", s] =>
    let s := parseCps s
    showEntsRes (parseFormula drvCC T s) ++ "\t" ++ showFVerdict (Spec.specFormula drvCC T s)
  | ["parsewith", syms, s] =>
    -- a caller-supplied table: the listed symbols of the compiled one
    -- (`…!n`: the same table with the `neutrons` fields rewritten — nothing the parser may look at)
    let syms := if syms.endsWith "!n" then (syms.dropRight 2) else syms
    let keep : List Sym := if syms == "-" then [] else (syms.splitOn ",").map (fun w => w.toList.map Char.toNat)
    let T' := T.filter (fun e => keep.contains e.sym)
    let s := parseCps s
    showEntsRes (parseFormula drvCC T' s) ++ "\t" ++ showFVerdict (Spec.specFormula drvCC T' s)
  | ["display", form, pairs] =>
    match parseForm form, parsePairs pairs with
    | some f, some ps =>
      let c : Comp := ⟨f, Ents.ofSets ps, none⟩
      let text := toFormula drvCC T c
      showCps text ++ "\t" ++ showEntsRes (parseFormula drvCC T text)
    | _, _ => "bad-args"
  | _ => "bad-line"

end Chem.Drv
