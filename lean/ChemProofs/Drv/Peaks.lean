import ChemProofs.Drv.Util
import ChemProofs.Model.Poisson
import ChemProofs.Model.PoissonRange
import ChemProofs.Spec.PeaksSpec
import ChemProofs.Gen.Consts
/- Driver for pattern operations (C13, C14), Poisson (C15) and charge handling (C10). -/
namespace Chem.Drv
open Chem

def constRat (c : Int × Nat) : Rat := mkRat c.1 (10 ^ c.2)

def parsePeaks (s : String) : Option (List Peak) :=
  if s == "-" then some [] else
  (s.splitOn ",").mapM (fun pq => match pq.splitOn ":" with
    | [a, b] => do let a ← parseRat? a; let b ← parseRat? b; pure ⟨a, b⟩
    | _ => none)

def showPeaks (l : List Peak) : String :=
  if l.isEmpty then "-" else ",".intercalate (l.map (fun q => showRat q.mz ++ ":" ++ showRat q.int))

def showPattern (p : Pattern) : String := "ok " ++ showRat p.origin ++ " " ++ showPeaks p.peaks

def showOptPattern : Option Pattern → String
  | some p => showPattern p
  | none => "nonfinite"

def showList (l : Option (List (Option Pattern))) : String :=
  match l with
  | none => "nonfinite"
  | some ps => "list " ++ "|".intercalate (ps.map showOptPattern)

def relMargin (x t : Rat) : Rat :=
  let d := ratAbs (x - t)
  let m := max (ratAbs x) (ratAbs t)
  if m = 0 then 1 else d / m

def minMargin (l : List Rat) : String :=
  match l with
  | [] => "inf"
  | x :: xs => showRat (xs.foldl min x)

def cumul (l : List Peak) : List Rat := Pattern.prefixSums (intensities l) 0

/-- model output, spec output, and the smallest relative margin of any threshold comparison -/
def runPeaksCase (line : String) : String :=
  match fields line with
  | "peaks" :: op :: origin :: peaks :: args =>
    match parseRat? origin, parsePeaks peaks, args.mapM parseRat? with
    | some o, some l, some as =>
      let p : Pattern := ⟨l, o⟩
      let tol := constRat Gen.Consts.peakEqTol
      match op, as with
      | "normalize", [] => showOptPattern p.normalize ++ "\t" ++ showOptPattern p.normalize ++ "\tinf"
      | "scale", [f] => showPattern (p.scaleBy f) ++ "\t" ++
          showPattern ⟨l.map (fun q => ⟨q.mz, q.int * f⟩), o⟩ ++ "\tinf"
      | "shift", [d] => showPattern (p.shift d) ++ "\t" ++ showPattern ⟨l.map (fun q => ⟨q.mz + d, q.int⟩), o + d⟩ ++ "\tinf"
      | "cshift", [d] => showPattern (p.cloneShifted d) ++ "\t" ++ showPattern ⟨l.map (fun q => ⟨q.mz + d, q.int⟩), o + d⟩ ++ "\tinf"
      | "trunc", [t] => showOptPattern (p.truncateAfter t) ++ "\t" ++ showOptPattern (Spec.truncateAfter p t) ++ "\t" ++
          minMargin ((cumul l).map (relMargin · t))
      | "ignore", [t] => showOptPattern (p.ignoreBelow t) ++ "\t" ++ showOptPattern (Spec.ignoreBelow p t) ++ "\t" ++
          minMargin (l.map (fun q => relMargin q.int t))
      | "fused", [t1, t2, d] =>
          let m := p.fused t1 t2 d
          let s := Spec.stepwise p t1 t2 d
          let pre := Spec.prefixReaching t1 l
          let tot := total pre
          let margins := (cumul l).map (relMargin · t1) ++ pre.map (fun q => relMargin q.int (t2 * tot))
          (match m with | some x => "ok * " ++ showPeaks x.peaks | none => "nonfinite") ++ "\t" ++
          (match s with | some x => "ok * " ++ showPeaks x | none => "nonfinite") ++ "\t" ++ minMargin margins
      | "droplast", [] => showOptPattern p.cloneDropLast ++ "\t" ++ showOptPattern (Spec.dropLast p) ++ "\tinf"
      | "slice", [a, b] =>
          let a := a.num.toNat; let b := b.num.toNat
          (match p.sliceNormalized a b with
            | .ok r => showOptPattern r
            | .error _ => "panic") ++ "\t" ++
          (if a ≤ b ∧ b ≤ l.length then showOptPattern (Spec.slice p a b) else "unspecified") ++ "\tinf"
      | "incr", [t] =>
          let margins := match p.normalize with
            | some q => (cumul q.peaks).map (relMargin · t)
            | none => []
          showList (p.incrementalTruncation t) ++ "\t" ++ showList (Spec.incremental p t) ++ "\t" ++ minMargin margins
      | "total", [] => showRat (total l) ++ "\t" ++ showRat ((l.map (·.int)).foldl (· + ·) 0) ++ "\tinf"
      | _, _ => "bad-op"
    | _, _, _ => "bad-args"
  | "peakseq" :: o1 :: p1 :: o2 :: p2 :: [] =>
    match parseRat? o1, parsePeaks p1, parseRat? o2, parsePeaks p2 with
    | some a, some l1, some b, some l2 =>
      let tol := constRat Gen.Consts.peakEqTol
      let x : Pattern := ⟨l1, a⟩; let y : Pattern := ⟨l2, b⟩
      let margins := (List.zip l1 l2).flatMap (fun (q, r) =>
        [relMargin (ratAbs (q.mz - r.mz)) tol, relMargin (ratAbs (q.int - r.int)) tol])
      -- the specification side uses the tolerance the property documents (1e-3), not the one read from the source
      (if x.eqv tol y then "1" else "0") ++ "\t" ++ (if Spec.patternEq (1 / 1000) x y then "1" else "0") ++ "\t" ++ minMargin margins
    | _, _, _, _ => "bad-args"
  | _ => "bad-line"

/-- `poisson <mass> <n> <z>` and `poissonn <mass> <t>` -/
def runPoissonCase (line : String) : String :=
  let lamF := constRat Gen.Consts.lambdaFactor
  let ns := constRat Gen.Consts.neutronShift
  let pr := constRat Gen.Consts.proton
  match fields line with
  | ["poisson", mass, n, z] =>
    match parseRat? mass, n.toNat?, z.toInt? with
    | some m, some n, some z => "ok * " ++ showPeaks (poisson m n z lamF ns pr)
    | _, _, _ => "bad-args"
  | ["poissonn", mass, ts] =>
    match parseRat? mass, (ts.splitOn ",").mapM parseRat? with
    | some m, some ts =>
      let maxIter := Gen.Consts.poissonMaxIter.1.toNat
      let lam := m / lamF
      let ratios := poissonRatios lam (maxIter - 1) 1 ⟨1, 1⟩ 1
      " ".intercalate (ts.map (fun t =>
        let n := poissonN m lamF t maxIter
        -- the count the PROPERTY defines: λ = mass/1800, cap 255 (literals, whatever the source says now)
        let nspec := poissonN m 1800 t 255
        -- margins of every comparison the loop made, for the boundary rule
        let margins := (ratios.take (min n (maxIter - 1))).map (relMargin · (1 - t))
        toString n ++ ":" ++ minMargin margins ++ ":" ++ toString nspec))
    | _, _ => "bad-args"
  | ["poissonr", mass, n, z] =>
    -- the model WITH the `is_finite` branch (Model/PoissonRange.lean), and the smallest relative distance of any loop
    -- variable from the range boundary (the two roundings of `p_i` / `factorial_acc` themselves are not modelled)
    match parseRat? mass, n.toNat?, z.toInt? with
    | some m, some n, some z =>
      let lam := m / lamF
      let states := (List.range (n - 1)).foldl (fun (acc : List PoisState × PoisState) i =>
        let s' := pNext lam acc.2 (i + 1); (acc.1 ++ [s'], s')) ([], ⟨1, 1⟩)
      let margins := states.1.flatMap (fun s => [relMargin s.p f64Max, relMargin s.f f64Max])
      "ok * " ++ showPeaks (poissonR f64Max m n z lamF ns pr) ++ "\t" ++ minMargin margins
    | _, _, _ => "bad-args"
  | ["poissonnr", mass, ts] =>
    -- the count search WITH its range behaviour: `n:ratioMargin:rangeMargin` per threshold
    match parseRat? mass, (ts.splitOn ",").mapM parseRat? with
    | some m, some ts =>
      let maxIter := Gen.Consts.poissonMaxIter.1.toNat
      let lam := m / lamF
      let states := (List.range (maxIter - 1)).foldl (fun (acc : List PoisState × PoisState) i =>
        let s' := pNext lam acc.2 (i + 1); (acc.1 ++ [s'], s')) ([], ⟨1, 1⟩)
      -- ratios as the range-aware loop sees them, while the power stays in range
      let inRange := states.1.takeWhile (fun s => s.p ≤ f64Max)
      let ratios := (inRange.foldl (fun (acc : List Rat × Rat) s =>
        let cur := if f64Max < s.f then 0 else s.cur
        let a' := acc.2 + cur
        (acc.1 ++ [cur / a'], a')) ([], 1)).1
      " ".intercalate (ts.map (fun t =>
        let n := poissonNR f64Max m lamF t maxIter
        let visited := states.1.take (min n (maxIter - 1))
        let rangeM := minMargin (visited.flatMap (fun s => [relMargin s.p f64Max, relMargin s.f f64Max]))
        let ratioM := minMargin ((ratios.take (min n (maxIter - 1))).map (relMargin · (1 - t)))
        toString n ++ ":" ++ ratioM ++ ":" ++ rangeM))
    | _, _ => "bad-args"
  | ["poissoni", mass, n, z, lf] =>
    match parseRat? mass, n.toNat?, z.toInt?, parseRat? lf with
    | some m, some n, some z, some lf => "ok * " ++ showPeaks (poisson m n z lf ns pr)
    | _, _, _, _ => "bad-args"
  | ["poissonni", mass, lf, mi, ts] =>
    match parseRat? mass, parseRat? lf, mi.toNat?, (ts.splitOn ",").mapM parseRat? with
    | some m, some lf, some maxIter, some ts =>
      let lam := m / lf
      let ratios := poissonRatios lam (maxIter - 1) 1 ⟨1, 1⟩ 1
      " ".intercalate (ts.map (fun t =>
        let n := poissonN m lf t maxIter
        let margins := (ratios.take (min n (maxIter - 1))).map (relMargin · (1 - t))
        toString n ++ ":" ++ minMargin margins ++ ":" ++ toString n))
    | _, _, _, _ => "bad-args"
  | ["mz", m, z, c] =>
    match parseRat? m, z.toInt?, parseRat? c with
    | some m, some z, some c =>
      (match mzOf m z c with
        | some x => showRat x ++ "\t" ++ showRat (neutralOf x z c)
        | none => "divzero\tdivzero")
    | _, _, _ => "bad-args"
  | _ => "bad-line"

end Chem.Drv
