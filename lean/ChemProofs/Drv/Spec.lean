import ChemProofs.Drv.Comp
import ChemProofs.Spec.SpecText
/- Driver for element-specification text and string-keyed reads (C16). -/
namespace Chem.Drv
open Chem

def showRes : Res Key → String
  | .ok k => "ok " ++ showKey k
  | .err => "err"
  | .panic => "panic"

def showVerdict : Spec.Verdict → String
  | .accept k => "accept " ++ showKey k
  | .reject => "reject"
  | .unspecified => "unspecified"

def runSpecCase (line : String) : String :=
  let T := Gen.table
  match fields line with
  | ["parse", s] =>
    let s := parseCps s
    showRes (parseSpec T s) ++ "\t" ++ showVerdict (Spec.specVerdict T s)
  | ["read", form, pairs, s] =>
    match parseForm form, parsePairs pairs with
    | some f, some ps =>
      let c : Comp := ⟨f, Ents.ofSets ps, none⟩
      let s := parseCps s
      let sidx := c.strIndex drvCC T s
      let gets := c.getStr drvCC T s
      -- spec: what the string denotes
      let v := Spec.specVerdict T s
      let specIdx : String := match v with
        | .accept k => toString (c.ents.get k)
        | .reject => "0"
        | .unspecified => "*"
      let specGets : String := match v with
        | .accept k => if !s.contains 91 then toString (c.ents.get k)
                        else (if c.ents.has k then "*" else "0")      -- bracketed text through get_str: unspecified unless absent
        | .reject => "0"
        | .unspecified => "*"
      toString sidx ++ " " ++ toString gets ++ "\t" ++ specIdx ++ " " ++ specGets
    | _, _ => "bad-args"
  | ["classify", c] =>
    match c.toNat? with
    | some c => s!"{drvCC.alpha c} {drvCC.numeric c} {drvCC.upper c}"
    | none => "bad-args"
  | ["display", k] =>
    match parseKey k with
    | some k => showCps (displayKey k)
    | none => "bad-args"
  | _ => "bad-line"

end Chem.Drv
