/- Line-protocol helpers shared by the driver's per-property handlers (import-free). -/
namespace Chem.Drv

def symStr (s : List Nat) : String := String.ofList (s.map Char.ofNat)
def strSym (s : String) : List Nat := s.toList.map Char.toNat

def fields (line : String) : List String := line.splitOn "\t"

def words (s : String) : List String := (s.splitOn " ").filter (· ≠ "")

/-- "65 99" -> [65, 99]; "-" -> [] -/
def parseCps (s : String) : List Nat :=
  if s == "-" then [] else (words s).filterMap String.toNat?

def showCps (s : List Nat) : String :=
  if s.isEmpty then "-" else " ".intercalate (s.map toString)

def showRat (q : Rat) : String := s!"{q.num}/{q.den}"

def parseRat? (s : String) : Option Rat :=
  match s.splitOn "/" with
  | [n] => n.toInt?.map (fun i => (i : Rat))
  | [n, d] =>
    let den : Option Nat := match d.splitOn "^" with
      | [b, e] => (do let b ← b.toNat?; let e ← e.toNat?; pure (b ^ e))
      | _ => d.toNat?
    match n.toInt?, den with
    | some i, some k => if k == 0 then none else some (mkRat i k)
    | _, _ => none
  | _ => none

def jsonStr (s : String) : String := "\"" ++ s ++ "\""

def showOptInt : Option Int → String
  | none => "null"
  | some i => toString i

end Chem.Drv
