import ChemProofs.Props.C01
import ChemProofs.Gen.Table
/-
C01 — instantiation at the table regenerated from /repo: the symbol hypothesis of `parse_render`
holds of it (kernel evaluation over the whole table), for every character class that is right on ASCII.
-/
namespace Chem.Inst
open Chem Chem.Gen

theorem table_symbolsOKAscii : symbolsOKAscii table = true := by decide +kernel

theorem table_symbolsOK (cc : CharClass) (hcc : cc.AsciiOK) : SymbolsOK cc table :=
  symbolsOK_of_ascii cc hcc table table_symbolsOKAscii

/-- `parse_render` at the compiled table -/
theorem parse_render_table (cc : CharClass) (hcc : cc.AsciiOK) (ts : Spec.Terms)
    (hne : ts ≠ .nil) (hwf : WF table ts) :
    ∃ ents, parseFormula cc table ts.render = .ok ents ∧ (∀ k, ents.get k = ts.denote k) ∧
            (∀ k ∈ ents.keys, k ∈ ts.mentioned) :=
  parse_render cc hcc table (table_symbolsOK cc hcc) ts hne hwf

end Chem.Inst
