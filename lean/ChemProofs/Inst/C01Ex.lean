import ChemProofs.Inst.C01
/-
C01 — non-vacuity of `parse_render` / `parse_render_table`: a concrete nested formula, `(CH3)2C[13]O`
(a group with a count, an implicit count, an explicit count, a fixed isotope), satisfies the
hypotheses over the compiled table, and the conclusion is spelled out for it.
-/
namespace Chem.Inst
open Chem Chem.Gen Chem.Spec

/-- `(CH3)2C[13]O` as a syntax tree -/
def acetone13 : Terms :=
  .cons (.group (.cons (.elem [67] none none) (.cons (.elem [72] none (some 3)) .nil)) (some 2))
    (.cons (.elem [67] (some 13) none) (.cons (.elem [79] none none) .nil))

/-- its text is the string `(CH3)2C[13]O` -/
theorem acetone13_render :
    acetone13.render = [40, 67, 72, 51, 41, 50, 67, 91, 49, 51, 93, 79] := by decide +kernel

theorem acetone13_ne : acetone13 ≠ .nil := by intro h; cases h

/-- the well-formedness hypothesis (symbols in the table under their own name, `countOK`, `isoOK`: 13 is an
    isotope carbon has, group body non-empty) holds over the compiled table -/
theorem acetone13_wf : WF table acetone13 := by decide +kernel

/-- what the grammar assigns: C 2, H 6, C[13] 1, O 1 (and 0 to, e.g., N and C[14]) -/
theorem acetone13_denote :
    acetone13.denote ([67], 0) = 2 ∧ acetone13.denote ([72], 0) = 6 ∧ acetone13.denote ([67], 13) = 1 ∧
    acetone13.denote ([79], 0) = 1 ∧ acetone13.denote ([78], 0) = 0 ∧ acetone13.denote ([67], 14) = 0 := by
  decide +kernel

theorem acetone13_mentioned :
    acetone13.mentioned = [([67], 0), ([72], 0), ([67], 13), ([79], 0)] := by decide +kernel

/-- **`parse_render_table` applies to `(CH3)2C[13]O`**: for every character class that is right on ASCII the
    parser accepts the text `(CH3)2C[13]O` and returns a composition with C 2, H 6, C[13] 1, O 1, zero for
    every other key, and no entries besides those four keys -/
theorem parse_acetone13 (cc : CharClass) (hcc : cc.AsciiOK) :
    ∃ ents, parseFormula cc table [40, 67, 72, 51, 41, 50, 67, 91, 49, 51, 93, 79] = .ok ents ∧
      (∀ k, ents.get k = acetone13.denote k) ∧
      ents.get ([67], 0) = 2 ∧ ents.get ([72], 0) = 6 ∧ ents.get ([67], 13) = 1 ∧ ents.get ([79], 0) = 1 ∧
      (∀ k ∈ ents.keys, k ∈ [(([67] : Sym), 0), ([72], 0), ([67], 13), ([79], 0)]) := by
  obtain ⟨ents, hp, hg, hk⟩ := parse_render_table cc hcc acetone13 acetone13_ne acetone13_wf
  rw [acetone13_render] at hp
  rw [acetone13_mentioned] at hk
  obtain ⟨d1, d2, d3, d4, _⟩ := acetone13_denote
  exact ⟨ents, hp, hg, by rw [hg, d1], by rw [hg, d2], by rw [hg, d3], by rw [hg, d4], hk⟩

/-- the plain ASCII character class satisfies `AsciiOK`, so the theorem above is not vacuous in `cc` -/
def asciiCC : CharClass := ⟨isAsciiAlpha, isAsciiDigit, isAsciiUpper⟩

theorem asciiCC_ok : asciiCC.AsciiOK := fun _ _ => ⟨rfl, rfl, rfl⟩

/-- cross-check by direct evaluation of the parser model at the ASCII class -/
example : parseFormula asciiCC table [40, 67, 72, 51, 41, 50, 67, 91, 49, 51, 93, 79] =
    .ok [(([67], 0), 2), (([72], 0), 6), (([67], 13), 1), (([79], 0), 1)] := by decide +kernel

end Chem.Inst

