import ChemProofs.Props.C02
import ChemProofs.Gen.Table
/-
C02 — instantiation of `run_mass` at the real key-mass function of the compiled table:
"the mass of the fixed isotope, or of the most abundant isotope when none is fixed".
-/
namespace Chem.Inst
open Chem Chem.Gen

/-- mass of a key over the compiled table (micro-units): `Elem.mostMass` for isotope 0, the isotope's
    `mass` for a fixed isotope the element has, 0 for a key that is not a table key -/
def tableKeyMass (k : Key) : Int :=
  match table.find? k.1 with
  | none => 0
  | some e =>
    if k.2 == 0 then e.mostMass
    else match e.iso? k.2 with
      | some i => i.mass
      | none => 0

/-- the three cases of the definition, as equations -/
theorem tableKeyMass_plain (s : Sym) (e : Elem) (h : table.find? s = some e) :
    tableKeyMass (s, 0) = e.mostMass := by simp [tableKeyMass, h]

theorem tableKeyMass_iso (s : Sym) (n : Nat) (e : Elem) (i : Iso) (h : table.find? s = some e)
    (hn : n ≠ 0) (hi : e.iso? n = some i) : tableKeyMass (s, n) = i.mass := by
  simp [tableKeyMass, h, hn, hi]

theorem tableKeyMass_unknown (s : Sym) (n : Nat) (h : table.find? s = none) :
    tableKeyMass (s, n) = 0 := by simp [tableKeyMass, h]

/-- **C02 at the compiled table**: after any finite history of public operations, on every register,
    `mass()`, `fmass()` and `calc_mass()` return the real mass of the current contents -/
theorem run_mass_table (cc : CharClass) (n : Nat) (ops : List Op) :
    ∀ c ∈ runM cc table tableKeyMass (List.replicate n (Comp.empty .vec)) ops,
      c.mass tableKeyMass = c.ents.massOf tableKeyMass ∧
      (c.fmass tableKeyMass).2 = c.ents.massOf tableKeyMass ∧
      c.calcMass tableKeyMass = c.ents.massOf tableKeyMass :=
  run_mass cc table tableKeyMass n ops

/-- H2O weighs 18.010565 (2 × 1.007825 + 15.994915), in micro-units -/
example : Ents.massOf tableKeyMass [((([72] : Sym), 0), 2), ((([79] : Sym), 0), 1)] = 18010565 := by
  decide +kernel

/-- the mass function on single keys: H, O, the fixed isotope H[2], an isotope H does not have, a non-symbol -/
example : tableKeyMass ([72], 0) = 1007825 ∧ tableKeyMass ([79], 0) = 15994915 ∧
    tableKeyMass ([72], 2) = 2014102 ∧ tableKeyMass ([72], 99) = 0 ∧ tableKeyMass ([88, 120], 0) = 0 := by
  decide +kernel

/-- end to end: the history `H := 2; O := 1; fmass` on one register leaves the contents H2O and the cache
    holding exactly its mass; `mass()` then reports it -/
example :
    let rs := runM ⟨fun _ => false, fun _ => false, fun _ => false⟩ table tableKeyMass [Comp.empty .vec]
                [.set 0 ([72], 0) 2, .set 0 ([79], 0) 1, .fmass 0]
    rs.map (fun c => (c.ents, c.cache, c.mass tableKeyMass)) =
      [([((([72] : Sym), 0), 2), ((([79] : Sym), 0), 1)], some 18010565, 18010565)] := by
  decide +kernel

end Chem.Inst

