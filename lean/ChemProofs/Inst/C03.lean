import ChemProofs.Props.C03
import ChemProofs.Gen.Table
/-
C03 — which elements of the regenerated table lie in the domain `Dom` of the exactness theorems
(`probabilityVector_spec`, `centerMassVector_spec`, `rawVariants_spec`): a gap-free isotope ladder
whose lightest isotope is the most abundant one.  Evaluated by the kernel over the whole table.
-/
namespace Chem.Inst
open Chem Chem.Gen

/-- Boolean form of `Dom` plus the numeric side conditions of `rawVariants_spec` -/
def domB (e : Elem) : Bool :=
  !e.isos.isEmpty &&
  (e.isos.zipIdx.all fun (i, j) => i.key == e.elemNum + j && i.shift == (j : Int)) &&
  e.minShift == 0 && e.maxShift == (e.isos.length : Int) - 1 &&
  (e.isos.all fun i => decide (0 < i.abund) && decide (0 < i.mass)) &&
  (e.isos.head?.map (·.mass)) == some e.mostMass

theorem domB_sound (e : Elem) (h : domB e = true) : Dom e := by
  simp only [domB, Bool.and_eq_true, Bool.not_eq_true', beq_iff_eq, List.all_eq_true] at h
  obtain ⟨⟨⟨⟨⟨hne, hz⟩, hmin⟩, hmax⟩, _⟩, _⟩ := h
  have hkey : ∀ j (hj : j < e.isos.length), (e.isos[j]).key = e.elemNum + j ∧ (e.isos[j]).shift = (j : Int) := by
    intro j hj
    have hm : (e.isos[j], j) ∈ e.isos.zipIdx := by
      rw [List.mem_zipIdx_iff_getElem?]
      simp [hj]
    have := hz _ hm
    simpa using this
  exact { ne := by intro hnil; simp [hnil] at hne
          key := fun j hj => (hkey j hj).1
          shift := fun j hj => (hkey j hj).2
          minShift := hmin
          maxShift := hmax }

/-- the elements of the table the exactness theorems apply to (symbols as code points) -/
def domSymbols : List Sym := (table.filter domB).map (·.sym)

theorem dom_count : domSymbols.length = 67 ∧ table.length = 120 := by decide +kernel

/-- carbon, hydrogen, nitrogen, oxygen, silicon, magnesium, potassium and neon are in the domain -/
theorem dom_chnosi : [[67], [72], [78], [79], [83, 105], [77, 103], [75], [78, 101]].all (fun s => domSymbols.contains s) = true := by
  decide +kernel

theorem dom_table : ∀ e ∈ table, domB e = true → Dom e := fun e _ h => domB_sound e h

end Chem.Inst
