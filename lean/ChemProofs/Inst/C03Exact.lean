import ChemProofs.Props.C03Exact
import ChemProofs.Inst.C03
/-
C03Exact on the regenerated table: every composition over `domB` elements (see Inst/C03.lean: gap-free
ladder, lightest isotope = reference, positive abundances and masses, recorded monoisotopic mass = mass
of the lightest isotope) with pairwise distinct symbols satisfies `ExactHyp`, so `variants_exact`,
`variants_ratio_pos`, … apply to it; with increasing isotope masses (`massIncB`) so does
`variants_mz_in_range`.
-/
namespace Chem.Inst
open Chem Chem.Gen

theorem domB_facts (e : Elem) (h : domB e = true) :
    (∀ i ∈ e.isos, 0 < i.abund) ∧ e.isos.head?.map (·.mass) = some e.mostMass ∧ e.mostMass ≠ 0 := by
  simp only [domB, Bool.and_eq_true, Bool.not_eq_true', beq_iff_eq, List.all_eq_true,
    decide_eq_true_eq] at h
  obtain ⟨⟨_, hpos⟩, hmm⟩ := h
  refine ⟨fun i hi => (hpos i hi).1, hmm, ?_⟩
  cases hl : e.isos with
  | nil => rw [hl] at hmm; simp at hmm
  | cons a t =>
    rw [hl] at hmm
    simp only [List.head?_cons, Option.map_some, Option.some.injEq] at hmm
    have := (hpos a (by rw [hl]; exact List.mem_cons_self)).2
    omega

/-- `ExactHyp` for every composition over `domB` elements with distinct symbols -/
theorem exactHyp_of_domB (K : BrainConsts) (hone : K.one ≠ 0) (c : List (Elem × Nat)) (req : PeakReq)
    (h : ∀ x ∈ c, domB x.1 = true) (hnodup : (c.map fun x => x.1.sym).Nodup) :
    ExactHyp K c req (resolveOrder K (toB c) req).toNat :=
  ExactHyp.of_table K c req hone (fun x hx => domB_sound x.1 (h x hx))
    (fun x hx i hi => ne_of_gt ((domB_facts x.1 (h x hx)).1 i hi))
    (fun x hx => (domB_facts x.1 (h x hx)).2.1) (fun x hx => (domB_facts x.1 (h x hx)).2.2) hnodup

/-- isotope masses listed in (weakly) increasing order -/
def massIncB (e : Elem) : Bool := decide (e.isos.Pairwise (fun a b => a.mass ≤ b.mass))

/-- every element of the regenerated table lists its isotope masses in increasing order -/
theorem table_massInc : table.all massIncB = true := by decide +kernel

/-- the returned pattern of any composition over `domB` table elements lies in the mass range -/
theorem table_mz_in_range (K : BrainConsts) (hone : 0 < K.one) (c : List (Elem × Nat)) (req : PeakReq)
    (z : Int) (carrier : Rat) (hT : ∀ x ∈ c, x.1 ∈ table) (h : ∀ x ∈ c, domB x.1 = true)
    (hnodup : (c.map fun x => x.1.sym).Nodup) :
    ∃ peaks, brainVariants K (toB c) req z carrier = .ok peaks ∧
      ∀ p ∈ peaks, 0 < p.int ∧
        chargedMz (monoMassOf (toB c) K.one) z carrier ≤ p.mz ∧
        p.mz ≤ chargedMz (massBound (fun e => (heaviest e : Rat) / K.one) c) z carrier :=
  variants_mz_in_range K c req z carrier _ (exactHyp_of_domB K (ne_of_gt hone) c req h hnodup) hone
    (fun x hx => (domB_facts x.1 (h x hx)).1)
    (fun x hx => by
      have := List.all_eq_true.1 table_massInc x.1 (hT x hx)
      simpa [massIncB] using this)

end Chem.Inst
