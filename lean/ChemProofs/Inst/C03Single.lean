import ChemProofs.Inst.C03Exact
import ChemProofs.Inst.Consts
/-
C03 "single atom" on the regenerated table: for every element of the table that lies in the domain (`domB`, the 67 elements
of `dom_count`), one atom of it gives exactly one peak per tabulated isotope, at that isotope's mass, with its normalised
abundance (`single_atom_all`, all per-element hypotheses discharged by the kernel over the whole table).
-/
namespace Chem.Inst
open Chem Chem.Gen Chem.Drv

/-- the share of every isotope of `e` reaches the cut `1e-10` -/
def shareB (e : Elem) : Bool :=
  e.isos.all fun i => decide ((1 : Rat) / 10000000000 ≤ (i.abund : Rat) / (e.isos.map fun k => (k.abund : Rat)).sum)

theorem shareB_sound (e : Elem) (h : shareB e = true) :
    ∀ i ∈ e.isos, (1 : Rat) / 10000000000 ≤ (i.abund : Rat) / (e.isos.map fun k => (k.abund : Rat)).sum := by
  intro i hi
  have := List.all_eq_true.1 h i hi
  simpa using this

/-- every domain element of the table has all its isotope shares at or above `1e-10` -/
theorem table_share : table.all (fun e => !domB e || shareB e) = true := by decide +kernel

/-- C03, single atoms, for any constants with positive unit and a cut of at most `1e-10` -/
theorem single_atom_table_of (K : BrainConsts) (hone : 0 < K.one) (hcut : K.cut ≤ 1 / 10000000000)
    (e : Elem) (he : e ∈ table) (hd : domB e = true) (z : Int) (carrier : Rat) :
    brainVariants K (toB [(e, 1)]) (.fixed e.isos.length) z carrier =
      .ok (e.isos.map (isoPeak e K.one z carrier)) := by
  have hf := domB_facts e hd
  have hinc : e.isos.Pairwise (fun a b => a.mass ≤ b.mass) := by
    have := List.all_eq_true.1 table_massInc e he
    simpa [massIncB] using this
  have hsh : shareB e = true := by
    have := List.all_eq_true.1 table_share e he
    simpa [hd] using this
  exact single_atom_all K e z carrier (domB_sound e hd) hone (fun i hi => ne_of_gt (hf.1 i hi)) hf.2.1 hf.2.2 hinc
    (fun i hi => le_trans hcut (shareB_sound e hsh i hi))

theorem brainK_one_cut : 0 < brainK.one ∧ brainK.cut ≤ 1 / 10000000000 ∧ brainK.one = 1000000 := by decide +kernel

/-- C03, single atoms, with the constants translated from the source (`one = 10^6`, `cut = 1e-10`) -/
theorem single_atom_table (e : Elem) (he : e ∈ table) (hd : domB e = true) (z : Int) (carrier : Rat) :
    brainVariants brainK (toB [(e, 1)]) (.fixed e.isos.length) z carrier =
      .ok (e.isos.map (isoPeak e brainK.one z carrier)) :=
  single_atom_table_of brainK brainK_one_cut.1 brainK_one_cut.2.1 e he hd z carrier

/-- the same for the constants the properties name -/
theorem single_atom_table_spec (e : Elem) (he : e ∈ table) (hd : domB e = true) (z : Int) (carrier : Rat) :
    brainVariants specK (toB [(e, 1)]) (.fixed e.isos.length) z carrier =
      .ok (e.isos.map (isoPeak e specK.one z carrier)) :=
  single_atom_table_of specK brainK_one_cut.1 brainK_one_cut.2.1 e he hd z carrier

/-- non-vacuity: 67 elements satisfy the hypotheses -/
theorem single_atom_count : (table.filter domB).length = 67 := by decide +kernel

end Chem.Inst
