import ChemProofs.Props.C05Sound
import ChemProofs.Props.C05Rejects
import ChemProofs.Gen.Table
/-
C05 — the two directions at the table regenerated from /repo.
-/
namespace Chem.Inst
open Chem Chem.Gen

/-- parsing never panics on the compiled table, whatever the string -/
theorem parse_no_panic_table (cc : CharClass) (s : List Nat) : parseFormula cc table s ≠ .panic :=
  parse_no_panic cc table s

/-- C05 converse at the compiled table: whatever the parser accepts is the rendering of a non-empty syntax
    tree that is well-formed over the compiled table (every symbol a table key with an upper-case initial, every
    bracketed isotope one the element has, every count a digit string that fits `i32`), and the composition
    returned is its denotation -/
theorem parse_sound_table (cc : CharClass) (hcc : cc.AsciiOK) (s : List Nat) (ents : Ents)
    (h : parseFormula cc table s = .ok ents) :
    ∃ ts : Spec.RTerms, ts.nonEmpty = true ∧ ts.wf table = true ∧ ts.render = s ∧
      ents.NoDupKeys ∧ ∀ k, ents.get k = ts.denote table k :=
  parse_sound cc hcc table s ents h

/-- every string is either rejected with an error value or is a well-formed formula over the compiled table -/
theorem parse_total_table (cc : CharClass) (hcc : cc.AsciiOK) (s : List Nat) :
    parseFormula cc table s = .err ∨
    ∃ ents, parseFormula cc table s = .ok ents ∧
      ∃ ts : Spec.RTerms, ts.nonEmpty = true ∧ ts.wf table = true ∧ ts.render = s ∧ ∀ k, ents.get k = ts.denote table k := by
  cases h : parseFormula cc table s with
  | err => exact Or.inl rfl
  | panic => exact absurd h (parse_no_panic cc table s)
  | ok ents =>
    obtain ⟨ts, h1, h2, h3, _, h5⟩ := parse_sound cc hcc table s ents h
    exact Or.inr ⟨ents, rfl, ts, h1, h2, h3, h5⟩

/-- no key of the compiled table contains a parenthesis (kernel evaluation over the whole table) -/
theorem table_noParenKeys : noParenKeys table = true := by decide +kernel

/-- whitespace, NUL, non-ASCII letters and superscripts are not characters of the compiled table's formulas -/
theorem table_foreign : formulaChar table 32 = false ∧ formulaChar table 0 = false ∧ formulaChar table 233 = false ∧
    formulaChar table 178 = false ∧ formulaChar table 20013 = false ∧ formulaChar table 45 = false := by decide +kernel

/-- at the compiled table: a string holding a space, NUL, `é`, `²`, `中` or `-` is rejected with an error value -/
theorem reject_junk_table (cc : CharClass) (hcc : cc.AsciiOK) (s : List Nat) (c : Nat)
    (hc : c = 32 ∨ c = 0 ∨ c = 233 ∨ c = 178 ∨ c = 20013 ∨ c = 45) (hs : c ∈ s) : parseFormula cc table s = .err := by
  have h := table_foreign
  refine reject_foreign_char cc hcc table s c ?_ hs
  rcases hc with rfl | rfl | rfl | rfl | rfl | rfl
  · exact h.1
  · exact h.2.1
  · exact h.2.2.1
  · exact h.2.2.2.1
  · exact h.2.2.2.2.1
  · exact h.2.2.2.2.2

/-- at the compiled table: unbalanced parentheses and empty groups are rejected with an error value -/
theorem reject_unbalanced_table (cc : CharClass) (hcc : cc.AsciiOK) (s : List Nat) (h : balanced s = false) :
    parseFormula cc table s = .err :=
  reject_unbalanced cc hcc table table_noParenKeys s h

theorem reject_empty_group_table (cc : CharClass) (hcc : cc.AsciiOK) (pre post : List Nat) :
    parseFormula cc table (pre ++ [40, 41] ++ post) = .err :=
  reject_empty_group cc hcc table table_noParenKeys pre post

end Chem.Inst
