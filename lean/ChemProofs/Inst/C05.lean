import ChemProofs.Props.C05Sound
import ChemProofs.Gen.Table
/-
C05 — the two directions at the table regenerated from /repo.
-/
namespace Chem.Inst
open Chem Chem.Gen

/-- parsing never panics on the compiled table, whatever the string -/
theorem parse_no_panic_table (cc : CharClass) (s : List Nat) : parseFormula cc table s ≠ .panic :=
  parse_no_panic cc table s

/-- C05 converse at the compiled table: whatever the parser accepts is the rendering of a non-empty syntax
    tree that is well-formed over the compiled table (every symbol a table key with an upper-case initial, every
    bracketed isotope one the element has, every count a digit string that fits `i32`), and the composition
    returned is its denotation -/
theorem parse_sound_table (cc : CharClass) (hcc : cc.AsciiOK) (s : List Nat) (ents : Ents)
    (h : parseFormula cc table s = .ok ents) :
    ∃ ts : Spec.RTerms, ts.nonEmpty = true ∧ ts.wf table = true ∧ ts.render = s ∧
      ents.NoDupKeys ∧ ∀ k, ents.get k = ts.denote table k :=
  parse_sound cc hcc table s ents h

/-- every string is either rejected with an error value or is a well-formed formula over the compiled table -/
theorem parse_total_table (cc : CharClass) (hcc : cc.AsciiOK) (s : List Nat) :
    parseFormula cc table s = .err ∨
    ∃ ents, parseFormula cc table s = .ok ents ∧
      ∃ ts : Spec.RTerms, ts.nonEmpty = true ∧ ts.wf table = true ∧ ts.render = s ∧ ∀ k, ents.get k = ts.denote table k := by
  cases h : parseFormula cc table s with
  | err => exact Or.inl rfl
  | panic => exact absurd h (parse_no_panic cc table s)
  | ok ents =>
    obtain ⟨ts, h1, h2, h3, _, h5⟩ := parse_sound cc hcc table s ents h
    exact Or.inr ⟨ents, rfl, ts, h1, h2, h3, h5⟩

end Chem.Inst
