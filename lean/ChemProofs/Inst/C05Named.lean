import ChemProofs.Props.C05Named
import ChemProofs.Gen.Table
/-
C05 — the named rejection theorems of Props/C05Named.lean at the regenerated table.
-/
namespace Chem.Inst
open Chem Chem.Gen

theorem table_no_space : table.all (fun e => !e.tkey.contains 32) = true := by decide +kernel

/-- a formula containing a blank is rejected -/
theorem reject_space_table (cc : CharClass) (hcc : cc.AsciiOK) (s : List Nat) (hs : 32 ∈ s) :
    parseFormula cc table s = .err := reject_space cc hcc table table_no_space s hs

/-- `Xx…` : a symbol that is not in the table -/
theorem reject_Xx_table (cc : CharClass) (hcc : cc.AsciiOK) (rest : List Nat)
    (hrest : ∀ c, rest.head? = some c → isAsciiUpper c = true ∨ isAsciiDigit c = true ∨ c = 91 ∨ c = 40) :
    parseFormula cc table ([88, 120] ++ rest) = .err :=
  reject_unknown_symbol cc hcc table 88 [120] rest (by decide) (by decide) hrest (by decide +kernel)

/-- `C[15]…` : carbon has no isotope 15 -/
theorem reject_C15_table (cc : CharClass) (hcc : cc.AsciiOK) (rest : List Nat) :
    parseFormula cc table ([67] ++ [91] ++ [49, 53] ++ [93] ++ rest) = .err := by
  apply reject_unknown_isotope cc hcc table 67 [] [49, 53] rest (by decide) (by decide) (by decide) (by decide)
  intro e v hf hv
  have hv' : v = 15 := by
    have : parseU16 [49, 53] = some 15 := by decide
    rw [this] at hv; injection hv with hv; exact hv.symm
  subst hv'
  have hk : ((table.find? [67]).bind (fun e => e.iso? 15)).isSome = false := by decide +kernel
  rw [hf] at hk
  simp only [Option.bind_some] at hk
  refine ⟨by decide, ?_⟩
  cases h : e.iso? 15 with
  | none => rfl
  | some i => rw [h] at hk; cases hk

/-- `C2147483648…` : a count above `i32::MAX` -/
theorem reject_bigcount_table (cc : CharClass) (hcc : cc.AsciiOK) (rest : List Nat)
    (hrest : ∀ c, rest.head? = some c → cc.numeric c = false) :
    parseFormula cc table ([67] ++ [50, 49, 52, 55, 52, 56, 51, 54, 52, 56] ++ rest) = .err :=
  reject_oversized_count cc hcc table 67 [] _ rest 2147483648 (by decide) (by decide) (by decide) (by decide) hrest


end Chem.Inst
