import ChemProofs.Props.C06Keys
import ChemProofs.Gen.Table
/-
C06 — instantiation at the regenerated table: the table hypothesis `Table.Own` of Props/C06Keys.lean holds (kernel
enumeration), so the lock-step theorems hold for every history whose typed keys are table keys, with no `RunOK` hypothesis.
-/
namespace Chem.Inst
open Chem Chem.Gen

theorem table_own_bool : table.all (fun e => e.tkey == e.sym && !e.sym.contains 91) = true := by decide +kernel

/-- every element of the table is stored under its own symbol, and no symbol contains '[' -/
theorem table_own : Table.Own table := by
  intro e he
  have h := List.all_eq_true.1 table_own_bool e he
  simp only [Bool.and_eq_true, beq_iff_eq, Bool.not_eq_true', List.contains_eq_mem, decide_eq_false_iff_not] at h
  exact h

/-- **lock-step at the real table**: list-backed, map-backed and enum-wrapped runs of any history over table keys, started
    from empty registers, give the same observations (values read, panics) step by step -/
theorem lockstep_trace_table (cc : CharClass) (m : Key → Int) (φ : Form → Form)
    (hφ : ∀ f, (φ f).isEnum = f.isEnum) (ops : List Op) (n : Nat) (f f' : Form) (hf : f'.isEnum = f.isEnum)
    (hops : ∀ op ∈ ops, op.KeysIn table) :
    traceM cc table m (List.replicate n (Comp.empty f)) ops =
      traceM cc table m (List.replicate n (Comp.empty f')) (ops.map (Op.mapForm φ)) :=
  lockstep_trace_fresh cc table table_own m φ hφ ops n f f' hf hops

/-- non-vacuity: `C`, `C[13]` are table keys; `C[15]` and `Xx` are not -/
example : Key.InT table ([67], 0) :=
  parseSpec_inT table table_own [67] _ (by decide +kernel : parseSpec table [67] = .ok ([67], 0))
example : Key.InT table ([67], 13) :=
  parseSpec_inT table table_own [67, 91, 49, 51, 93] _ (by decide +kernel : parseSpec table [67, 91, 49, 51, 93] = .ok ([67], 13))
example : ¬ Key.InT table ([88, 120], 0) := by
  rintro ⟨_, e, he, _⟩
  have : table.find? [88, 120] = none := by decide +kernel
  simp only at he; rw [this] at he; cases he
example : ¬ Key.InT table ([67], 15) := by
  rintro ⟨_, e, he, _, h | h⟩
  · cases h
  · have hk : ((table.find? [67]).bind (fun e => e.iso? 15)).isSome = false := by decide +kernel
    simp only at he h; rw [he] at hk; simp only [Option.bind_some] at hk; rw [hk] at h; cases h


end Chem.Inst
