import ChemProofs.Props.C07
import ChemProofs.Inst.C01
/-
C07 — the display / parse round trip at the table regenerated from /repo: every non-empty composition whose keys are table
keys (`tableKeyB`: symbol stored in the table and beginning with an upper-case letter — the table also holds the electron
`e*`, which the parser cannot read, see the counterexample at the end —, isotope 0 or an isotope the element has), with pairwise distinct keys and
positive (i32) counts is `Displayable`, so `display_roundtrip` applies to it, for every character class right on ASCII.
-/
namespace Chem.Inst
open Chem Chem.Gen

/-- a key of the table: the symbol is stored and begins with an upper-case letter (i.e. is not the electron `e*`), and the
    isotope is 0 ("natural") or one the element has -/
def tableKeyB (k : Key) : Bool :=
  match table.find? k.1 with
  | some el => isUpperHead k.1 && (k.2 == 0 || (el.iso? k.2).isSome)
  | none => false

/-- what `KeyOK` needs of an element, beyond being found -/
def elemKeyB (el : Elem) : Bool :=
  el.sym == el.tkey && el.isos.all fun i => decide (i.key ≤ 65535)

/-- every element of the table is stored under its symbol and its isotope numbers fit `u16` -/
theorem table_elemKey : table.all elemKeyB = true := by decide +kernel

theorem find?_facts (T : Table) (s : Sym) (el : Elem) (h : T.find? s = some el) : el ∈ T ∧ el.tkey = s := by
  unfold Table.find? at h
  have h1 := List.mem_of_find?_eq_some h
  have h2 := List.find?_some h
  exact ⟨h1, by simpa using h2⟩

theorem iso?_facts (el : Elem) (n : Nat) (h : (el.iso? n).isSome = true) : ∃ i ∈ el.isos, i.key = n := by
  unfold Elem.iso? at h
  obtain ⟨i, hi⟩ := Option.isSome_iff_exists.1 h
  exact ⟨i, List.mem_of_find?_eq_some hi, by simpa using List.find?_some hi⟩

/-- table keys are keys the parser reads back -/
theorem tableKeyB_sound (k : Key) (h : tableKeyB k = true) : KeyOK table k := by
  unfold tableKeyB at h
  unfold KeyOK
  cases hf : table.find? k.1 with
  | none => rw [hf] at h; cases h
  | some el =>
    rw [hf] at h
    obtain ⟨hmem, hkey⟩ := find?_facts table k.1 el hf
    have hel := List.all_eq_true.1 table_elemKey el hmem
    simp only [elemKeyB, Bool.and_eq_true, beq_iff_eq, List.all_eq_true, decide_eq_true_eq] at hel
    obtain ⟨hsym, hiso⟩ := hel
    simp only [Bool.and_eq_true, Bool.or_eq_true, beq_iff_eq] at h
    obtain ⟨hup, h⟩ := h
    refine ⟨by rw [hsym, hkey], hup, ?_⟩
    rcases h with h | h
    · exact Or.inl h
    · obtain ⟨i, hi, hik⟩ := iso?_facts el k.2 h
      exact Or.inr ⟨by rw [← hik]; exact hiso i hi, h⟩

/-- all the keys of the table: every symbol with isotope 0 and with each of its isotopes -/
def allKeys : List Key := table.flatMap fun e => (e.tkey, 0) :: e.isos.map fun i => (e.tkey, i.key)

/-- the keys the round trip covers: all but the electron's -/
def goodKeys : List Key := allKeys.filter fun k => isUpperHead k.1

/-- there are 444 keys (counted as the table lists them: the 35 elements without natural isotopes list one isotope
    numbered 0, so their key `(sym, 0)` is counted twice; 409 are distinct); the electron contributes `(e*, 0)` twice; the
    other 442 (408 distinct) are table keys in the sense of `tableKeyB` (non-vacuity of `tableKeyB`) -/
theorem allKeys_facts : allKeys.length = 444 ∧ goodKeys.length = 442 ∧ goodKeys.all tableKeyB = true ∧
    allKeys.filter (fun k => !isUpperHead k.1) = [([101, 42], 0), ([101, 42], 0)] := by
  decide +kernel

/-- the number of distinct keys among the 442 (positions that are the first occurrence of their key) -/
theorem goodKeys_distinct :
    ((List.range goodKeys.length).filter fun j => decide (goodKeys.idxOf (goodKeys.getD j ([], 0)) = j)).length = 408 := by
  decide +kernel

theorem goodKeys_keyOK : ∀ k ∈ goodKeys, KeyOK table k := fun k hk =>
  tableKeyB_sound k (List.all_eq_true.1 allKeys_facts.2.2.1 k hk)

/-- conversely every table key is one of them -/
theorem tableKeyB_mem_goodKeys (k : Key) (h : tableKeyB k = true) : k ∈ goodKeys := by
  unfold tableKeyB at h
  cases hf : table.find? k.1 with
  | none => rw [hf] at h; cases h
  | some el =>
    rw [hf] at h
    obtain ⟨hmem, hkey⟩ := find?_facts table k.1 el hf
    simp only [Bool.and_eq_true, Bool.or_eq_true, beq_iff_eq] at h
    obtain ⟨hup, h⟩ := h
    refine List.mem_filter.2 ⟨List.mem_flatMap.2 ⟨el, hmem, ?_⟩, hup⟩
    rcases h with h | h
    · exact List.mem_cons.2 (Or.inl (Prod.ext hkey.symm h))
    · obtain ⟨i, hi, hik⟩ := iso?_facts el k.2 h
      exact List.mem_cons_of_mem _ (List.mem_map.2 ⟨i, hi, Prod.ext hkey hik⟩)

/-- the hypotheses on a composition over the table, as a Boolean -/
def tableCompB (c : Comp) : Bool :=
  !c.ents.isEmpty && decide c.ents.keys.Nodup &&
  c.ents.all fun e => decide (0 < e.2) && decide (e.2 ≤ 2147483647) && tableKeyB e.1

theorem displayable_table (c : Comp) (hnd : c.ents.keys.Nodup)
    (hpos : ∀ e ∈ c.ents, 0 < e.2 ∧ e.2 ≤ 2147483647) (hkeys : ∀ e ∈ c.ents, tableKeyB e.1 = true) :
    Displayable table c :=
  ⟨hnd, hpos, fun e he => tableKeyB_sound e.1 (hkeys e he)⟩

/-- **C07 at the compiled table**: a non-empty composition with pairwise distinct table keys and positive (i32) counts
    displays as a text that parses back to a composition with the same count for every key, pairwise distinct keys
    and the same finite map -/
theorem roundtrip_table (cc : CharClass) (hcc : cc.AsciiOK) (c : Comp) (hne : c.ents ≠ [])
    (hnd : c.ents.keys.Nodup) (hpos : ∀ e ∈ c.ents, 0 < e.2 ∧ e.2 ≤ 2147483647)
    (hkeys : ∀ e ∈ c.ents, tableKeyB e.1 = true) :
    ∃ ents', parseFormula cc table (toFormula cc table c) = .ok ents' ∧ (∀ k, ents'.get k = c.ents.get k) ∧
      ents'.NoDupKeys ∧ (∀ k, Ents.abs ents' k = Ents.abs c.ents k) :=
  display_roundtrip cc hcc table (table_symbolsOK cc hcc) c (displayable_table c hnd hpos hkeys) hne

/-- the same from the Boolean check -/
theorem roundtrip_table_of_check (cc : CharClass) (hcc : cc.AsciiOK) (c : Comp) (h : tableCompB c = true) :
    ∃ ents', parseFormula cc table (toFormula cc table c) = .ok ents' ∧ (∀ k, ents'.get k = c.ents.get k) ∧
      ents'.NoDupKeys ∧ (∀ k, Ents.abs ents' k = Ents.abs c.ents k) := by
  simp only [tableCompB, Bool.and_eq_true, Bool.not_eq_true', decide_eq_true_eq, List.all_eq_true] at h
  obtain ⟨⟨hne, hnd⟩, hall⟩ := h
  refine roundtrip_table cc hcc c ?_ hnd (fun e he => ⟨(hall e he).1.1, (hall e he).1.2⟩) (fun e he => (hall e he).2)
  intro hnil
  rw [hnil] at hne
  cases hne

/-- ... and displaying the parsed composition again gives the same text -/
theorem display_parse_display_table (cc : CharClass) (hcc : cc.AsciiOK) (c : Comp) (h : tableCompB c = true)
    (f : Form) (cache : Option Int) :
    ∃ ents', parseFormula cc table (toFormula cc table c) = .ok ents' ∧
      toFormula cc table ⟨f, ents', cache⟩ = toFormula cc table c := by
  obtain ⟨ents', h1, _, hnd, habs⟩ := roundtrip_table_of_check cc hcc c h
  simp only [tableCompB, Bool.and_eq_true, decide_eq_true_eq] at h
  exact ⟨ents', h1, toFormula_canonical cc table ⟨f, ents', cache⟩ c hnd h.1.2 habs⟩

/-! ### non-vacuity: glucose with one fixed carbon-13 -/

/-- O6 H12 C5 C[13]1, in some insertion order -/
def glucose13 : Comp := ⟨.vec, [(([79], 0), 6), (([72], 0), 12), (([67], 13), 1), (([67], 0), 5)], none⟩

example : tableCompB glucose13 = true := by decide +kernel

example (cc : CharClass) (hcc : cc.AsciiOK) :
    ∃ ents', parseFormula cc table (toFormula cc table glucose13) = .ok ents' ∧
      (∀ k, ents'.get k = glucose13.ents.get k) ∧ ents'.NoDupKeys ∧
      (∀ k, Ents.abs ents' k = Ents.abs glucose13.ents k) :=
  roundtrip_table_of_check cc hcc glucose13 (by decide +kernel)

-- "C5H12C[13]1O6", and what it parses to
example : toFormula asciiCC table glucose13 = [67, 53, 72, 49, 50, 67, 91, 49, 51, 93, 49, 79, 54] := by
  decide +kernel
example : parseFormula asciiCC table (toFormula asciiCC table glucose13)
    = .ok [(([67], 0), 5), (([72], 0), 12), (([67], 13), 1), (([79], 0), 6)] := by decide +kernel

-- the restriction to upper-case symbols matters: one electron displays as "e*1", which does not parse
example : toFormula asciiCC table ⟨.vec, [(([101, 42], 0), 1)], none⟩ = [101, 42, 49] ∧
    parseFormula asciiCC table (toFormula asciiCC table ⟨.vec, [(([101, 42], 0), 1)], none⟩) = .err := by
  decide +kernel

-- keys that are not table keys: an unknown symbol, an isotope carbon does not have
example : tableKeyB ([88, 120], 0) = false ∧ tableKeyB ([67], 99) = false := by decide +kernel

end Chem.Inst
