import ChemProofs.Props.C08
import ChemProofs.Gen.Table
/- The table hypothesis of the purity theorem (`history_pure`), discharged for the compiled table. -/
namespace Chem

/-- a symbol determines its element in the compiled table -/
theorem table_symInj : SymInj Gen.table := by
  unfold SymInj
  decide +kernel

/-- so the purity theorem applies to every history over the compiled table -/
example : SymInj Gen.table := table_symInj

end Chem
