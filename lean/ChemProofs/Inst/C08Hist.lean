import ChemProofs.Inst.C08
/-
C08 — the purity theorem (`history_pure`, Props/C08.lean) at the compiled table: the table hypothesis (`SymInj`) is
discharged by `table_symInj`; what is left is that the compositions of the history and of the call are over table elements.
`history_pure` has no hypothesis on the constants `K`, so none appears here: `K` stays arbitrary.
-/
namespace Chem
open Chem.Gen

/-- **purity over the compiled table**: for any constants `K`, any history of generator calls whose compositions are over
    elements of the compiled table, and any such composition `c`, the call after the history returns exactly what the
    stateless function returns -/
theorem history_pure_table {K : BrainConsts} (hist : List Call)
    (hh : ∀ q ∈ hist, CompOK table q.1) {c : BComp} (hc : CompOK table c) (req : PeakReq) (z : Int) (carrier : Rat) :
    peaksOf (generatorCall K (runHist K hist) c req z carrier) = brainVariants K c req z carrier :=
  history_pure table_symInj hist hh hc req z carrier

/-- the cache invariant holds after any such history -/
theorem runHist_inv_table {K : BrainConsts} (hist : List Call) (hh : ∀ q ∈ hist, CompOK table q.1) :
    CacheInv K table (runHist K hist) :=
  runHist_inv table_symInj hist hh

/-- two histories over the table cannot be told apart by a later call -/
theorem history_irrelevant_table {K : BrainConsts} (hist1 hist2 : List Call)
    (h1 : ∀ q ∈ hist1, CompOK table q.1) (h2 : ∀ q ∈ hist2, CompOK table q.1) {c : BComp} (hc : CompOK table c)
    (req : PeakReq) (z : Int) (carrier : Rat) :
    peaksOf (generatorCall K (runHist K hist1) c req z carrier) =
      peaksOf (generatorCall K (runHist K hist2) c req z carrier) := by
  rw [history_pure_table hist1 h1 hc, history_pure_table hist2 h2 hc]

/-! non-vacuity: a concrete two-call history over the table -/
namespace C08Hist

/-- the table's element stored under a symbol (the default element if there is none) -/
def tel (s : Sym) : Elem := (table.find? s).getD default

def glucose : BComp := [(tel [67], 6), (tel [72], 12), (tel [79], 6)]
def water : BComp := [(tel [72], 2), (tel [79], 1)]

/-- C6H12O6 with 5 peaks, then H2O with 3 (charge 1, carrier mass 0) -/
def hist2 : List Call := [(glucose, .fixed 5, 1, 0), (water, .fixed 3, 1, 0)]

instance (T : List Elem) (c : BComp) : Decidable (CompOK T c) := by unfold CompOK; infer_instance

/-- the elements are the table's C, H, O (not the default element) -/
example : (tel [67]).sym = [67] ∧ (tel [72]).sym = [72] ∧ (tel [79]).sym = [79] := by decide +kernel

theorem glucose_ok : CompOK table glucose := by decide +kernel
theorem water_ok : CompOK table water := by decide +kernel

theorem hist2_ok : ∀ q ∈ hist2, CompOK table q.1 := by
  intro q hq
  simp only [hist2, List.mem_cons, List.not_mem_nil, or_false] at hq
  rcases hq with rfl | rfl
  · exact glucose_ok
  · exact water_ok

/-- so `history_pure_table` applies: after those two calls, a request for glucose (any request, charge, carrier) gives
    what the stateless function gives -/
example {K : BrainConsts} (req : PeakReq) (z : Int) (carrier : Rat) :
    peaksOf (generatorCall K (runHist K hist2) glucose req z carrier) = brainVariants K glucose req z carrier :=
  history_pure_table hist2 hist2_ok glucose_ok req z carrier

end C08Hist
end Chem

