import ChemProofs.Props.C09Mz
import ChemProofs.Inst.C09Strict
import ChemProofs.Inst.C03Exact
import ChemProofs.Drv.Brain
/-
C09 — strictly increasing m/z of the RETURNED coarse pattern, at the regenerated table.

For any composition over `domB` elements of the compiled table with pairwise distinct symbols (any counts,
any size), any constants `K` with `K.one = one` (the table's scale, 10⁶), any request whose resolved order
is at most 108 (i.e. at most 109 variants computed: `table_centre_strict` covers the steps `j → j+1`, `j ≤ 107`),
any charge `z` (0 included) and any carrier: whenever `brainVariants` returns `.ok out`, the m/z values of
`out` are STRICTLY increasing.

* `table_mz_strict`        the statement above (hypothesis on the resolved order)
* `table_mz_strict_fixed`  request `fixed n` with `n ≤ 109` (any `n`, also `n ≤ 0`): hypothesis discharged
* `table_mz_strict_brainK` the same at the translated constants `brainK`
* `glucose_*`              non-vacuity: C₆H₁₂O₆ with 5 peaks, charge 1, satisfies every hypothesis, and
                           `brainVariants` does return `.ok`
Nothing is `_partial`.
-/
namespace Chem.Inst
open Chem Chem.Gen

/-- **C09 at the compiled table, returned list**: resolved order ≤ 108 ⇒ strictly increasing m/z -/
theorem table_mz_strict (K : BrainConsts) (hK : K.one = (one : Rat)) (c : List (Elem × Nat)) (req : PeakReq)
    (z : Int) (carrier : Rat) (hT : ∀ x ∈ c, x.1 ∈ table) (h : ∀ x ∈ c, domB x.1 = true)
    (hnodup : (c.map fun x => x.1.sym).Nodup)
    (hord : (resolveOrder K (toB c) req).toNat ≤ 108)
    (out : List Peak) (hout : brainVariants K (toB c) req z carrier = .ok out) :
    out.Pairwise (fun a b => a.mz < b.mz) := by
  have hone : 0 < K.one := by rw [hK]; norm_num [one]
  have H := exactHyp_of_domB K (ne_of_gt hone) c req h hnodup
  refine variants_mz_strict K c req z carrier _ H hone (fun x hx => (domB_facts x.1 (h x hx)).1)
    (fun e => (e.mostMass : Rat) / (one : Rat)) tDlo tDhi ?_ ?_ out hout
  · intro x hx
    rw [hK]
    exact table_incrOK x.1 (hT x hx) (h x hx)
  · intro j hj
    exact table_gap j (by omega)

/-- a `fixed n` request with `n ≤ 109` resolves to an order `≤ 108`, whatever the composition -/
theorem resolve_fixed_le (K : BrainConsts) (c : BComp) (n : Int) (hn : n ≤ 109) :
    (resolveOrder K c (.fixed n)).toNat ≤ 108 := by
  rw [resolveOrder_fixed_eq]
  omega

theorem table_mz_strict_fixed (K : BrainConsts) (hK : K.one = (one : Rat)) (c : List (Elem × Nat)) (n : Int)
    (hn : n ≤ 109) (z : Int) (carrier : Rat) (hT : ∀ x ∈ c, x.1 ∈ table) (h : ∀ x ∈ c, domB x.1 = true)
    (hnodup : (c.map fun x => x.1.sym).Nodup)
    (out : List Peak) (hout : brainVariants K (toB c) (.fixed n) z carrier = .ok out) :
    out.Pairwise (fun a b => a.mz < b.mz) :=
  table_mz_strict K hK c (.fixed n) z carrier hT h hnodup (resolve_fixed_le K _ n hn) out hout

theorem brainK_one : Drv.brainK.one = (one : Rat) := by decide +kernel

theorem table_mz_strict_brainK (c : List (Elem × Nat)) (n : Int)
    (hn : n ≤ 109) (z : Int) (carrier : Rat) (hT : ∀ x ∈ c, x.1 ∈ table) (h : ∀ x ∈ c, domB x.1 = true)
    (hnodup : (c.map fun x => x.1.sym).Nodup)
    (out : List Peak) (hout : brainVariants Drv.brainK (toB c) (.fixed n) z carrier = .ok out) :
    out.Pairwise (fun a b => a.mz < b.mz) :=
  table_mz_strict_fixed Drv.brainK brainK_one c n hn z carrier hT h hnodup out hout

/-! ## non-vacuity: glucose C₆H₁₂O₆, 5 peaks -/

def elemOf (s : Sym) : Elem := (table.find? s).getD default

/-- C₆H₁₂O₆ over the compiled table (symbols as code points: C = 67, H = 72, O = 79) -/
def glucose : List (Elem × Nat) := [(elemOf [67], 6), (elemOf [72], 12), (elemOf [79], 6)]

theorem glucose_table : ∀ x ∈ glucose, x.1 ∈ table := by decide +kernel
theorem glucose_dom : ∀ x ∈ glucose, domB x.1 = true := by decide +kernel
theorem glucose_nodup : (glucose.map fun x => x.1.sym).Nodup := by decide +kernel
theorem glucose_syms : glucose.map (fun x => (x.1.sym, x.2)) = [([67], 6), ([72], 12), ([79], 6)] := by
  decide +kernel

/-- the hypotheses are satisfiable and the conclusion is not vacuous: for glucose with 5 peaks, at any
    charge and carrier, `brainVariants` returns a list, and its m/z values increase strictly -/
theorem glucose_strict (z : Int) (carrier : Rat) :
    ∃ out, brainVariants Drv.brainK (toB glucose) (.fixed 5) z carrier = .ok out ∧
      out.Pairwise (fun a b => a.mz < b.mz) := by
  have hone : Drv.brainK.one ≠ 0 := by rw [brainK_one]; norm_num [one]
  have H := exactHyp_of_domB Drv.brainK hone glucose (.fixed 5) glucose_dom glucose_nodup
  exact ⟨_, H.raw z carrier, table_mz_strict_brainK glucose 5 (by norm_num) z carrier glucose_table
    glucose_dom glucose_nodup _ (H.raw z carrier)⟩

end Chem.Inst

