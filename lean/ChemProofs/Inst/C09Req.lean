import ChemProofs.Props.C09
import ChemProofs.Inst.Consts
/-
C09 — the request-resolution theorems of `Props/C09.lean` instantiated at the constants the translator read from the source
(`Drv.brainK`), with the hypotheses on the constants (`1 ≤ maxIter`, `1 ≤ guessCap`, `maxIter ≤ i32::MAX`) discharged by
`brainK_facts`.  The hypothesis on the composition (`0 ≤ maxVariants c`) stays explicit where the general theorem has it.
-/
namespace Chem
open Chem.Drv

theorem brainK_maxIter_pos : 1 ≤ brainK.maxIter := brainK_facts.2.1
theorem brainK_maxIter_i32 : brainK.maxIter ≤ 2147483647 := brainK_facts.2.2.1
theorem brainK_guessCap_pos : 1 ≤ brainK.guessCap := brainK_facts.2.2.2.1

/-- `guess` resolves to `min (min poissonN guessCap) V` at the real constants -/
theorem resolve_guess_brainK (c : BComp) :
    resolveOrder brainK c .guess =
      min (min (poissonN (monoMassOf c brainK.one) brainK.lambdaFactor brainK.guessFraction brainK.maxIter : Int)
        brainK.guessCap) (maxVariants c) :=
  resolve_guess brainK c brainK_maxIter_pos brainK_guessCap_pos

/-- ... hence never above the default cap, which is the literal 300 -/
theorem resolve_guess_cap_brainK (c : BComp) : resolveOrder brainK c .guess ≤ brainK.guessCap :=
  resolve_guess_cap brainK c brainK_maxIter_pos brainK_guessCap_pos

theorem resolve_guess_le_300 (c : BComp) : resolveOrder brainK c .guess ≤ 300 := by
  have h := resolve_guess_cap_brainK c
  have h300 : brainK.guessCap = 300 := brainK_eq_spec.2.2.2.1
  omega

/-- `percent f` resolves like `fixed (poissonN … f …)` -/
theorem resolve_percent_brainK (c : BComp) (f : Rat) :
    resolveOrder brainK c (.percent f) =
      resolveOrder brainK c (.fixed (poissonN (monoMassOf c brainK.one) brainK.lambdaFactor f brainK.maxIter)) :=
  resolve_percent brainK c brainK_maxIter_pos brainK_maxIter_i32 f

theorem resolve_percent_val_brainK (c : BComp) (f : Rat) :
    resolveOrder brainK c (.percent f) =
      min ((poissonN (monoMassOf c brainK.one) brainK.lambdaFactor f brainK.maxIter : Int) - 1) (maxVariants c) :=
  resolve_percent_val brainK c brainK_maxIter_pos f

/-- every request resolves to an order in `0 ..= V` (this one needs nothing of the constants) -/
theorem resolve_bounds_brainK (c : BComp) (hV : 0 ≤ maxVariants c) (req : PeakReq) :
    0 ≤ resolveOrder brainK c req ∧ resolveOrder brainK c req ≤ maxVariants c :=
  resolve_bounds brainK c hV req

theorem resolve_toNat_brainK (c : BComp) (hV : 0 ≤ maxVariants c) (req : PeakReq) :
    ((resolveOrder brainK c req).toNat : Int) = resolveOrder brainK c req :=
  resolve_toNat brainK c hV req

end Chem

