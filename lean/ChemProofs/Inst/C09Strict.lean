import ChemProofs.Props.C09Strict
import ChemProofs.Inst.C03Exact
/-
C09 — strict increase of the centre masses on an explicit prefix, at the regenerated table.

For every `domB` element of the compiled table (gap-free ladder starting at the most abundant isotope) each
further neutron adds between `dlo = 0.997` and `dhi = 1.0063` mass units (kernel evaluation over the whole
table).  By `centre_strict_prefix` the centre masses of ANY composition over those elements increase
strictly from variant `j` to variant `j + 1` for every `j` with `j * (dhi - dlo) < dlo`, i.e. for `j ≤ 107` —
whatever the size of the composition.
-/
namespace Chem.Inst
open Chem Chem.Gen

def tDlo : Rat := 997 / 1000
def tDhi : Rat := 10063 / 10000

/-- per-neutron mass increments of every `domB` table element lie in `[0.997, 1.0063]` -/
theorem table_incr :
    table.all (fun e => !domB e || incrOKB e (one : Rat) ((e.mostMass : Rat) / (one : Rat)) tDlo tDhi) = true := by
  decide +kernel

theorem table_incrOK (e : Elem) (he : e ∈ table) (hd : domB e = true) :
    IncrOK e (one : Rat) ((e.mostMass : Rat) / (one : Rat)) tDlo tDhi := by
  have h := List.all_eq_true.1 table_incr e he
  rw [hd] at h
  exact incrOK_of_B e _ _ _ _ (by simpa using h)

/-- the gap condition `j * (dhi - dlo) < dlo` holds for every `j ≤ 107` -/
theorem table_gap (j : Nat) (hj : j ≤ 107) : (j : Rat) * (tDhi - tDlo) < tDlo := by
  have h : (j : Rat) ≤ 107 := by exact_mod_cast hj
  unfold tDhi tDlo
  have : (j : Rat) * (10063 / 10000 - 997 / 1000) ≤ 107 * (10063 / 10000 - 997 / 1000) :=
    mul_le_mul_of_nonneg_right h (by norm_num)
  calc (j : Rat) * (10063 / 10000 - 997 / 1000) ≤ 107 * (10063 / 10000 - 997 / 1000) := this
    _ < 997 / 1000 := by norm_num

/-- **C09 at the compiled table**: for any composition over `domB` table elements, the exact centre masses of
    two consecutive variants `j`, `j + 1 ≤ 108` that both have non-zero probability are strictly increasing -/
theorem table_centre_strict (c : List (Elem × Nat)) (hT : ∀ x ∈ c, x.1 ∈ table) (h : ∀ x ∈ c, domB x.1 = true)
    (deg j : Nat) (hj : j + 1 ≤ deg) (hj' : j ≤ 107)
    (hp : exProb c (one : Rat) deg j ≠ 0) (hp' : exProb c (one : Rat) deg (j + 1) ≠ 0) :
    exCentre c (one : Rat) deg j < exCentre c (one : Rat) deg (j + 1) :=
  centre_strict_prefix c (by norm_num [one]) (fun x hx i hi => le_of_lt ((domB_facts x.1 (h x hx)).1 i hi))
    (fun e => (e.mostMass : Rat) / (one : Rat)) tDlo tDhi
    (fun x hx => table_incrOK x.1 (hT x hx) (h x hx)) deg j hj hp hp' (table_gap j hj')

end Chem.Inst
