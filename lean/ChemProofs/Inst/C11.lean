import ChemProofs.Props.C11T
import ChemProofs.Gen.Table
/-
The hypotheses the convolution theorems put on the isotope distributions, discharged for every element of the compiled
table: abundances lie in [0, 1] (`Unit01`), they sum to at most 1 — in fact to exactly 1 — (`mass ≤ 1`, the bound without
which the threshold theorem is false: `threshold_counterexample`), and the distribution is not empty.
-/
namespace Chem
open Chem.Gen

/-- the isotope distribution of a table element as the convolution sees it: (mass, abundance) in table units -/
def distOf (e : Elem) : Dist := e.isos.map fun i => ((i.mass : Rat) / one, (i.abund : Rat) / one)

def unit01B (d : Dist) : Bool := d.all fun x => decide (0 ≤ x.2) && decide (x.2 ≤ 1)

theorem unit01B_sound (d : Dist) (h : unit01B d = true) : Unit01 d := by
  intro x hx
  have := List.all_eq_true.mp h x hx
  simp only [Bool.and_eq_true, decide_eq_true_eq] at this
  exact this

/-- every element of the compiled table: abundances in [0, 1], summing to exactly 1, at least one isotope -/
theorem table_dists : table.all (fun e => unit01B (distOf e) && decide (mass (distOf e) = 1) && !(distOf e).isEmpty) = true := by
  decide +kernel

theorem table_unit01 (e : Elem) (he : e ∈ table) : Unit01 (distOf e) ∧ mass (distOf e) ≤ 1 := by
  have := List.all_eq_true.mp table_dists e he
  simp only [Bool.and_eq_true, decide_eq_true_eq] at this
  exact ⟨unit01B_sound _ this.1.1, le_of_eq this.1.2⟩

/-- so the threshold theorem applies to every composition over the table: for counts `n`, a positive threshold that some
    arrangement reaches, and more than one atom in all, the result is exactly the arrangements of probability at least `t`,
    renormalised over themselves, sorted, each at least `t` -/
theorem threshold_table {t : Rat} (ht : 0 < t) (es : List (Elem × Nat)) (hne : es ≠ []) (hT : ∀ x ∈ es, x.1 ∈ table)
    (hnd : ¬ Degenerate (es.map fun x => (distOf x.1, x.2)))
    (hK : (arrangements (es.map fun x => (distOf x.1, x.2))).filter (fun x => decide (t ≤ x.2)) ≠ []) (z : Int) (c : Rat) :
    ∃ peaks, isotopicConvolution ((es.map fun x => (distOf x.1, x.2)).map (fun e => (e.1, (e.2 : Int)))) z c t = some peaks ∧
      total peaks = 1 ∧ peaks.Pairwise (fun p q => p.mz ≤ q.mz) ∧ (∀ p ∈ peaks, t ≤ p.int) := by
  have hes : ∀ x ∈ es.map (fun x => (distOf x.1, x.2)), Unit01 x.1 := by
    intro x hx; obtain ⟨y, hy, rfl⟩ := List.mem_map.mp hx; exact (table_unit01 y.1 (hT y hy)).1
  have hsub : ∀ x ∈ es.map (fun x => (distOf x.1, x.2)), mass x.1 ≤ 1 := by
    intro x hx; obtain ⟨y, hy, rfl⟩ := List.mem_map.mp hx; exact (table_unit01 y.1 (hT y hy)).2
  obtain ⟨p, h1, h2, h3, _, h5⟩ :=
    isotopicConvolution_threshold_partial' ht (by simpa using hne) hes hsub hnd hK z c
  exact ⟨p, h1, h2, h3, h5⟩

end Chem
