import ChemProofs.Props.C12
import ChemProofs.Gen.Table
import ChemProofs.Gen.Nist
/-
C12 — instantiation at the table and NIST data regenerated from /repo on this run.
The quantifier of the property *is* this finite table; every theorem below is kernel evaluation
over the whole of it (no sampling).
-/
namespace Chem.Inst
open Chem Chem.Gen

theorem table_size : table.length = 120 := by decide +kernel
theorem table_nonempty : 100 ≤ table.length ∧ 300 ≤ (table.map (·.isos.length)).foldl (· + ·) 0 := by
  decide +kernel
theorem table_keys_distinct : nodupSyms (table.map (·.tkey)) = true := by decide +kernel

theorem c_own_symbol   : table.all (·.cOwnSymbol) = true := by decide +kernel
theorem c_iso_keys     : table.all (·.cIsoKeys one) = true := by decide +kernel
theorem c_shift        : table.all (·.cShift) = true := by decide +kernel
theorem c_abund_range  : table.all (·.cAbundRange one) = true := by decide +kernel
theorem c_abund_sum    : table.all (·.cAbundSum one) = true := by decide +kernel
theorem c_most_abundant: table.all (·.cMostAbundant) = true := by decide +kernel
theorem c_min_max      : table.all (·.cMinMax) = true := by decide +kernel
theorem c_masses       : table.all (·.cMasses one) = true := by decide +kernel

theorem table_wf : table.all (·.wf one) = true := by decide +kernel

/-- every element of the compiled table satisfies the Prop-level reading of the clauses -/
theorem table_wf_sound : ∀ e ∈ table, ElemWF one e := by
  intro e he
  have := table_wf
  rw [List.all_eq_true] at this
  exact wf_sound one e (this e he)

/-- the compiled table is, value for value at six decimals, what `data/build.rs` produces from
    `data/nist_mass.json` (bit-exact model of the generator's float steps) -/
theorem table_from_nist : tableFromNist nist table = true := by decide +kernel

/-- the global table and the one built by `ChemicalElements::new()` are identical -/
theorem tables_identical : table = tableHelper := by decide +kernel

end Chem.Inst
