import ChemProofs.Props.C16
import ChemProofs.Gen.Table
/-
C16 — instantiation at the regenerated table: the quantifier "every element of the table and
every isotope it has (or none)" is finite and is enumerated completely by the kernel.
-/
namespace Chem.Inst
open Chem Chem.Gen

/-- the character classes used by the driver (ASCII behaviour is what matters here) -/
def instCC : CharClass where
  alpha c := isAsciiAlpha c || c == 233 || c == 20013
  numeric c := isAsciiDigit c || c == 178
  upper c := isAsciiUpper c

theorem keys_count : (Spec.allKeys table).length = 120 + ((table.map (fun e => (e.isos.filter (fun i => i.key != 0)).length)).foldl (· + ·) 0) := by
  decide +kernel

/-- **round trip for every (element, isotope | none) pair of the table** -/
theorem spec_roundtrip_table : (Spec.allKeys table).all (fun k => parseSpec table (displayKey k) == .ok k) = true := by
  decide +kernel

/-- the parser and the independent specification agree on every rendered key -/
theorem spec_verdict_table :
    (Spec.allKeys table).all (fun k => Spec.specVerdict table (displayKey k) == .accept k) = true := by
  decide +kernel

/-- the quick pre-check never dismisses a rendered key, and says "yes" only to bracket-free text -/
theorem quick_ok_table :
    (Spec.allKeys table).all (fun k => quickCheckStr instCC (displayKey k) != .no &&
      (quickCheckStr instCC (displayKey k) != .yes || !(displayKey k).contains 91)) = true := by
  decide +kernel

/-- elements are found under their own symbol (hypothesis `hown` of the read theorems) -/
theorem own_symbol_table : table.all (fun e => match table.find? e.tkey with
    | some e' => e'.sym == e.tkey | none => false) = true := by decide +kernel

/-- no table symbol contains a bracket -/
theorem symbols_no_bracket : table.all (fun e => !e.sym.contains 91 && !e.sym.contains 93) = true := by
  decide +kernel

end Chem.Inst
