import ChemProofs.Inst.C16
/-
C16 — bridge from the Boolean `own_symbol_table` (Inst/C16) to the hypothesis `hown` of
`str_read_agrees` / `getStr_agrees` (Props/C16), and the two read theorems at `T := Gen.table`
with `hown` discharged.

NOTE: `hown` (`∀ x e, T.find? x = some e → e.sym = x`) mentions only the table, not the composition,
so it is proved here once for `Gen.table` and therefore holds for *every* composition — in particular
for every composition whose keys are table keys (`KeysInTable`, defined below for reference; the
`_table` theorems do not need it as a hypothesis, which makes them strictly stronger).
-/
namespace Chem.Inst
open Chem Chem.Gen

/-- parametric bridge: the Boolean own-symbol check over a table gives the `hown` hypothesis -/
theorem hown_of_own_symbol (T : Table)
    (h : T.all (fun e => match T.find? e.tkey with
      | some e' => e'.sym == e.tkey | none => false) = true) :
    ∀ x e, T.find? x = some e → e.sym = x := by
  intro x e hf
  have hm : e ∈ T := List.mem_of_find?_eq_some hf
  have hk : e.tkey = x := by simpa using List.find?_some hf
  have := List.all_eq_true.1 h e hm
  rw [hk, hf] at this
  simpa using this

/-- **`hown` for the compiled table** -/
theorem hown_table : ∀ x e, table.find? x = some e → e.sym = x :=
  hown_of_own_symbol table own_symbol_table

/-- every key of the composition is a key of the table: the symbol is a table symbol and the isotope
    number is 0 or one the element has -/
def KeysInTable (T : Table) (c : Comp) : Prop :=
  c.ents.all (fun p => match T.find? p.1.1 with
    | some e => p.1.2 == 0 || (e.iso? p.1.2).isSome
    | none => false) = true

instance (T : Table) (c : Comp) : Decidable (KeysInTable T c) := by unfold KeysInTable; exact inferInstance

/-- for a composition over the table, every present key's symbol names an element stored under that very
    symbol (the property's reading of `hown`) -/
theorem keys_own_symbol (c : Comp) (hc : KeysInTable table c) :
    ∀ p ∈ c.ents, ∃ e, table.find? p.1.1 = some e ∧ e.sym = p.1.1 := by
  intro p hp
  have := List.all_eq_true.1 hc p hp
  cases he : table.find? p.1.1 with
  | none => rw [he] at this; cases this
  | some e => exact ⟨e, rfl, hown_table _ e he⟩

theorem str_read_agrees_table (cc : CharClass) (c : Comp) (s : Sym) (k : Key)
    (hk : parseSpec table s = .ok k) (hq : quickCheckStr cc s ≠ .no)
    (hyes : quickCheckStr cc s = .yes → 91 ∉ s) :
    c.strIndex cc table s = c.ents.get k :=
  str_read_agrees cc table c s k hown_table hk hq hyes

theorem getStr_agrees_table (c : Comp) (s : Sym) (k : Key)
    (hnb : 91 ∉ s) (hk : parseSpec table s = .ok k) :
    c.ents.getStr s = c.ents.get k :=
  getStr_agrees table c s k hown_table hnb hk

/-- non-vacuity: the hypotheses of the two `_table` theorems hold for the strings `H` and `H[2]` (the latter
    for the string index only) with the driver's character classes, and a composition over the table -/
example : KeysInTable table ⟨.vec, [((([72] : Sym), 0), 2), (([72], 2), 5), (([79], 0), 1)], none⟩ := by
  decide +kernel

example :
    let c : Comp := ⟨.vec, [((([72] : Sym), 0), 2), (([72], 2), 5), (([79], 0), 1)], none⟩
    parseSpec table [72] = .ok ([72], 0) ∧ quickCheckStr instCC [72] ≠ .no ∧
    parseSpec table [72, 91, 50, 93] = .ok ([72], 2) ∧ quickCheckStr instCC [72, 91, 50, 93] ≠ .no ∧
    quickCheckStr instCC [72, 91, 50, 93] ≠ .yes ∧
    c.strIndex instCC table [72] = 2 ∧ c.ents.getStr [72] = 2 ∧ c.strIndex instCC table [72, 91, 50, 93] = 5 := by
  decide +kernel

end Chem.Inst

