import ChemProofs.Inst.C16
/-
C16 — the quick pre-check statement `quick_ok_table` for EVERY character table that behaves as
specified on ASCII (`CharClass.AsciiOK`), not only for the concrete `instCC`.
-/
namespace Chem.Inst
open Chem Chem.Gen

/-- two character tables that agree below 128 give the same verdict on ASCII-only text -/
theorem quickCheckStr_congr_ascii (cc cc' : CharClass)
    (h : ∀ c, c < 128 → cc.alpha c = cc'.alpha c ∧ cc.numeric c = cc'.numeric c ∧
      cc.upper c = cc'.upper c)
    (s : List Nat) (hs : ∀ c ∈ s, c < 128) : quickCheckStr cc s = quickCheckStr cc' s := by
  cases s with
  | nil => rfl
  | cons first rest =>
    have ha : cc.alpha first = cc'.alpha first := (h first (hs first List.mem_cons_self)).1
    unfold quickCheckStr
    simp only [ha]

theorem instCC_asciiOK : instCC.AsciiOK := by
  intro c hc
  refine ⟨?_, ?_, ?_⟩
  · have h1 : (c == 233) = false := by simp; omega
    have h2 : (c == 20013) = false := by simp; omega
    simp [instCC, h1, h2]
  · have h1 : (c == 178) = false := by simp; omega
    simp [instCC, h1]
  · rfl

/-- every rendered key of the table is ASCII -/
theorem keys_ascii_table :
    (Spec.allKeys table).all (fun k => (displayKey k).all (fun c => decide (c < 128))) = true := by
  decide +kernel

/-- on every rendered key, any ASCII-correct character table gives the verdict of `instCC` -/
theorem quick_eq_instCC (cc : CharClass) (hcc : cc.AsciiOK) (k : Key)
    (hk : k ∈ Spec.allKeys table) :
    quickCheckStr cc (displayKey k) = quickCheckStr instCC (displayKey k) := by
  apply quickCheckStr_congr_ascii
  · intro c hc
    obtain ⟨a1, a2, a3⟩ := hcc c hc
    obtain ⟨b1, b2, b3⟩ := instCC_asciiOK c hc
    exact ⟨a1.trans b1.symm, a2.trans b2.symm, a3.trans b3.symm⟩
  · intro c hc
    have h := List.all_eq_true.1 keys_ascii_table k hk
    exact of_decide_eq_true (List.all_eq_true.1 h c hc)

/-- **`quick_ok_table` for every character table that is correct on ASCII** -/
theorem quick_ok_table_any (cc : CharClass) (hcc : cc.AsciiOK) :
    (Spec.allKeys table).all (fun k => quickCheckStr cc (displayKey k) != .no &&
      (quickCheckStr cc (displayKey k) != .yes || !(displayKey k).contains 91)) = true := by
  rw [List.all_eq_true]
  intro k hk
  rw [quick_eq_instCC cc hcc k hk]
  exact List.all_eq_true.1 quick_ok_table k hk

end Chem.Inst

