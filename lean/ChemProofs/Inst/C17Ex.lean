import ChemProofs.Props.C17Handles
import ChemProofs.Gen.Table
/-
C17 — a concrete instance of the C-binding model (`cstep`, Model/CBinding.lean) and of the handle invariant
(`crun`, `crun_wf`, Props/C17Handles.lean): the compiled table, the plain ASCII character class, the table's key masses,
and a ten-call sequence evaluated by the kernel (`decide +kernel`; no `native_decide`).

  new; parse "H2O"; copy 1; set 0 "C[13]" 5; add 0 1; get 0 "H"; mass 2; parse "h2o" (error); free 1; free 0
-/
namespace Chem.Inst.C17Ex
open Chem Chem.Gen

/-- the plain ASCII character class -/
def asciiCC : CharClass := ⟨isAsciiAlpha, isAsciiDigit, isAsciiUpper⟩

theorem asciiCC_ok : asciiCC.AsciiOK := by
  unfold CharClass.AsciiOK asciiCC
  intro c _
  exact ⟨rfl, rfl, rfl⟩

/-- mass of a key over the compiled table (micro-units): `Elem.mostMass` for isotope 0, the isotope's `mass` for a fixed
    isotope the element has, 0 for a key that is not a table key -/
def tableKeyMass (k : Key) : Int :=
  match table.find? k.1 with
  | none => 0
  | some e =>
    if k.2 == 0 then e.mostMass
    else match e.iso? k.2 with
      | some i => i.mass
      | none => 0

/-- `crun` that also collects what each call returned -/
def ctrace (cc : CharClass) (T : Table) (m : Key → Int) : CState → List COp → Option (List COut × CState)
  | st, [] => some ([], st)
  | st, op :: ops => match cstep cc T m st op with
    | some (.ok (st', o)) => (ctrace cc T m st' ops).map fun r => (o :: r.1, r.2)
    | _ => none

/-- `ctrace` ends in the state `crun` ends in (and is defined exactly when `crun` is) -/
theorem ctrace_snd (cc : CharClass) (T : Table) (m : Key → Int) (ops : List COp) (st : CState) :
    (ctrace cc T m st ops).map (·.2) = crun cc T m st ops := by
  induction ops generalizing st with
  | nil => rfl
  | cons op ops ih =>
    simp only [ctrace, crun]
    cases hs : cstep cc T m st op with
    | none => rfl
    | some r =>
      cases r with
      | ok p => obtain ⟨s1, o⟩ := p; simp only [Option.map_map]; rw [← ih s1]; rfl
      | err => rfl
      | panic => rfl

/-- what is observable of a handle table: handle ↦ entries, and the next handle (`Comp` has no decidable equality) -/
def view (st : CState) : List (Nat × Ents) × Nat := (st.live.map fun x => (x.1, x.2.ents), st.next)

instance instDecEqEntry : DecidableEq (Nat × Ents) := inferInstance

def init : CState := ⟨[], 0⟩

/-- "H2O", "C[13]", "H", "h2o" as code points -/
def sH2O : List Nat := [72, 50, 79]
def sC13 : List Nat := [67, 91, 49, 51, 93]
def sH : List Nat := [72]
def sh2o : List Nat := [104, 50, 111]

/-- the calls before the failing parse, the failing parse, the calls after it -/
def pre : List COp := [.new, .parse sH2O, .copy 1, .set 0 sC13 5, .add 0 1, .get 0 sH, .mass 2]
def bad : COp := .parse sh2o
def post : List COp := [.free 1, .free 0]
def ops : List COp := pre ++ bad :: post

abbrev run (l : List COp) : Option CState := crun asciiCC table tableKeyMass init l
abbrev trace (l : List COp) : Option (List COut × CState) := ctrace asciiCC table tableKeyMass init l

/-- **the whole evaluation**: return codes / values / out-handles of the ten calls, and the final handle table.
    `get 0 "H"` returns 2 (after `add 0 1`), `mass 2` returns 18.010565 u (micro-units), the lower-case parse returns
    rc = 1 with a null handle, everything else rc = 0; at the end only handle 2 (the copy of H2O) is live -/
theorem trace_ops :
    (trace ops).map (fun r => (r.1, view r.2)) = some
      ([⟨0, none, some 0⟩, ⟨0, none, some 1⟩, ⟨0, none, some 2⟩, ⟨0, none, none⟩, ⟨0, none, none⟩,
        ⟨0, some 2, none⟩, ⟨0, some 18010565, none⟩, ⟨1, none, none⟩, ⟨0, none, none⟩, ⟨0, none, none⟩],
       ([(2, [(([72], 0), 2), (([79], 0), 1)])], 3)) := by decide +kernel

/-- the state just before the failing parse: handle 0 = C[13]5 H2 O, handles 1 and 2 = H2O -/
theorem view_pre :
    (run pre).map view = some
      ([(0, [(([67], 13), 5), (([72], 0), 2), (([79], 0), 1)]), (1, [(([72], 0), 2), (([79], 0), 1)]),
        (2, [(([72], 0), 2), (([79], 0), 1)])], 3) := by decide +kernel

/-- **the run stays inside the contract** -/
theorem run_ok : ∃ st', run ops = some st' := by
  have h : (run ops).isSome = true := by decide +kernel
  exact Option.isSome_iff_exists.mp h

/-- **... and every state it ends in is well-formed, has exactly one live handle (handle 2, holding H2O), next = 3** -/
theorem run_final (st' : CState) (h : run ops = some st') :
    st'.WF ∧ st'.live.length = 1 ∧ st'.live.map (·.1) = [2] ∧ st'.find 2 ≠ none ∧ st'.find 0 = none ∧ st'.find 1 = none ∧
      view st' = ([(2, [(([72], 0), 2), (([79], 0), 1)])], 3) := by
  have hw : st'.WF := crun_wf asciiCC table tableKeyMass ops init st' CState.init_wf h
  have hv : (run ops).map view = some ([(2, [(([72], 0), 2), (([79], 0), 1)])], 3) := by decide +kernel
  rw [h] at hv
  simp only [Option.map_some, Option.some.injEq] at hv
  obtain ⟨live, next⟩ := st'
  simp only [view, Prod.mk.injEq] at hv
  obtain ⟨hl, hn⟩ := hv
  match live, hl with
  | [x], hl =>
    simp only [List.map_cons, List.map_nil, List.cons.injEq, Prod.mk.injEq, and_true] at hl
    obtain ⟨h1, h2⟩ := hl
    obtain ⟨a, b⟩ := x
    simp only at h1 h2
    subst h1 hn
    refine ⟨hw, rfl, rfl, ?_, ?_, ?_, ?_⟩
    · simp [CState.find]
    · simp [CState.find]
    · simp [CState.find]
    · simp [view, h2]

/-- **the failed parse is an error value, not an abort, and leaves the handle table untouched** — on the parser: -/
theorem parse_h2o_err : parseFormula asciiCC table sh2o = .err := by decide +kernel

/-- ... on the binding: from *any* state the call returns rc = 1, a null out-handle, and the same state -/
theorem bad_step (st : CState) :
    cstep asciiCC table tableKeyMass st bad = some (.ok (st, { rc := 1, handle := none })) := by
  simp only [bad, cstep, parse_h2o_err]

/-- ... in the run: the state before the failing call is the state after it -/
theorem bad_untouched : run (pre ++ [bad]) = run pre ∧ (run pre).isSome = true := by
  constructor
  · have h : (run pre).isSome = true := by decide +kernel
    obtain ⟨st, hst⟩ := Option.isSome_iff_exists.mp h
    have key : ∀ (l : List COp) (s : CState), crun asciiCC table tableKeyMass s (l ++ [bad]) =
        (crun asciiCC table tableKeyMass s l).bind fun s' => some s' := by
      intro l
      induction l with
      | nil => intro s; simp only [List.nil_append, crun, bad_step, Option.bind_some]
      | cons op l ih =>
        intro s
        simp only [List.cons_append, crun]
        cases hs : cstep asciiCC table tableKeyMass s op with
        | none => rfl
        | some r =>
          cases r with
          | ok p => exact ih p.1
          | err => rfl
          | panic => rfl
    show crun asciiCC table tableKeyMass init (pre ++ [bad]) = crun asciiCC table tableKeyMass init pre
    rw [key]; cases crun asciiCC table tableKeyMass init pre <;> rfl
  · decide +kernel

/-- **`get 0 "H"` returned 2 after the add**, stated on the step itself: in the state the five calls before it lead to -/
theorem get_H (st : CState) (h : crun asciiCC table tableKeyMass init (pre.take 5) = some st) :
    (cstep asciiCC table tableKeyMass st (.get 0 sH)).map (fun r => match r with | .ok p => some p.2 | _ => none) =
      some (some { rc := 0, value := some 2 }) := by
  have hv : (crun asciiCC table tableKeyMass init (pre.take 5)).map
      (fun s => (cstep asciiCC table tableKeyMass s (.get 0 sH)).map
        (fun r => match r with | .ok p => some p.2 | _ => none)) = some (some (some { rc := 0, value := some 2 })) := by
    decide +kernel
  rw [h] at hv
  simpa using hv

/-- cross-checks of the pieces on their own: the parser, the spec parser, the masses -/
example : parseFormula asciiCC table sH2O = .ok [(([72], 0), 2), (([79], 0), 1)] := by decide +kernel
example : parseSpec table sC13 = .ok ([67], 13) := by decide +kernel
example : tableKeyMass ([72], 0) = 1007825 ∧ tableKeyMass ([79], 0) = 15994915 ∧ tableKeyMass ([67], 13) = 13003355 ∧
    tableKeyMass ([104], 0) = 0 := by decide +kernel

/-- outside the contract: a freed handle used again has no successor state -/
example : (run (ops ++ [.get 0 sH])).isSome = false := by decide +kernel

end Chem.Inst.C17Ex

