import ChemProofs.Drv.Brain
/-
The hypotheses the parametric theorems put on the *constants* and on the *table*, discharged for what the translator read from
the source on this run (`Gen/Consts.lean`, `Gen/Table.lean`) — the values the driver instantiates the model with (`brainK`) —
and for the literals the properties themselves name (`specK`).
-/
namespace Chem
open Chem.Drv

/-- the constants of the coarse generator as translated from `/repo`: units, Poisson iteration cap, default cap, cut -/
theorem brainK_facts :
    brainK.one ≠ 0 ∧ 1 ≤ brainK.maxIter ∧ brainK.maxIter ≤ 2147483647 ∧ 1 ≤ brainK.guessCap ∧
    0 < brainK.lambdaFactor ∧ 0 < brainK.cut ∧ 0 ≤ brainK.guessFraction ∧ brainK.guessFraction ≤ 1 := by
  decide +kernel

/-- ... and they are the literals the properties name: λ = mass/1800, at most 255 iterations, at most 300 peaks by default,
    99.99 % of the signal, cut at 1e-10 -/
theorem brainK_eq_spec : brainK.one = specK.one ∧ brainK.lambdaFactor = 1800 ∧ brainK.maxIter = 255 ∧ brainK.guessCap = 300 ∧
    brainK.guessFraction = 9999 / 10000 ∧ brainK.cut = 1 / 10000000000 := by
  decide +kernel

end Chem
