import ChemProofs.Drv.Comp
/-
The *variant elements* of the composition correspondence (DESIGN §7.6): what the harness builds as a third table of
caller-made `Element` records — same symbol and isotopes as the stock element, the heaviest other isotope declared most
abundant — the driver carries as further table rows under symbols no formula string spells (`Sym^3`).  These theorems are
what makes that sound: the extended table still has pairwise distinct keys (so `find?` on a stock symbol is never shadowed and a
variant symbol finds its own row), a variant keeps the isotopes of its element, names one of them as most abundant with that
isotope's mass, and differs from the stock element in exactly the field `Element::eq` compares besides the symbol.
-/
namespace Chem
open Chem.Drv

/-- the extended table of the driver has pairwise distinct keys -/
theorem drvTable_keys_distinct : nodupSyms (drvTable.map (·.tkey)) = true := by decide +kernel

/-- looking up a stock symbol in the extended table gives the stock row -/
theorem drvTable_find_stock : Gen.table.all (fun e => drvTable.find? e.tkey == some e) = true := by decide +kernel

/-- ... and a variant symbol is not a stock symbol -/
theorem variant_fresh : (Gen.table.filterMap variantOf).all (fun v => (Gen.table.find? v.tkey).isNone) = true := by
  decide +kernel

/-- every element with at least two isotopes has a variant; it is found under its own symbol, keeps the isotope list, and its
    most abundant isotope is another isotope of the element, at that isotope's mass -/
theorem variant_rows : Gen.table.all (fun e =>
    match variantOf e with
    | none => e.isos.length ≤ 1
    | some v => drvTable.find? v.tkey == some v && v.isos == e.isos && v.mostIso != e.mostIso &&
        (v.iso? v.mostIso).map (·.mass) == some v.mostMass && (e.iso? v.mostIso).isSome) = true := by
  decide +kernel

/-- non-vacuity: the five elements the variant histories draw on have variants -/
example : (["C", "H", "O", "Cl", "Fe"].map (fun s => (Gen.table.find? (strSym s)).bind variantOf |>.isSome)) =
    [true, true, true, true, true] := by decide +kernel

/-- the character-class table the driver instantiates the models with agrees with ASCII on ASCII: every theorem that asks for
    `cc.AsciiOK` (the parser's totality, soundness and completeness; the specification text theorems) applies to the driver's
    instance.  Beyond ASCII the table lists the characters the generators use; the orchestrator compares it with Rust's
    `char::is_alphabetic` / `is_numeric` on every generated character on every run. -/
theorem drvCC_asciiOK : drvCC.AsciiOK := by
  unfold CharClass.AsciiOK
  decide +kernel

end Chem
