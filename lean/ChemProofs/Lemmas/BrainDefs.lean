import ChemProofs.Model.Brain
import ChemProofs.Spec.IsoDist
import Mathlib.RingTheory.PowerSeries.Basic
/-
Shared vocabulary of the C03 proofs (BRAIN = Newton identities over exact rationals).
Nothing is proved here; only definitions used to *state* the lemmas of the other `Brain*` files.
-/
namespace Chem

/-- the power series whose coefficients are the entries of a coefficient list (0 beyond the end) -/
noncomputable def toPS (l : List Rat) : PowerSeries Rat := PowerSeries.mk fun i => l.getD i 0

/-- the power series `Σ (−1)^i e_i x^i` of a list of (sign-alternated) elementary symmetric
    polynomials: if `esp = vietes (reverse P)` this is `P(x) / P(0)` -/
noncomputable def fE (esp : List Rat) : PowerSeries Rat :=
  PowerSeries.mk fun i => (-1 : Rat) ^ i * esp.getD i 0

/-- every entry of `ps` is what `nextPowerSum` computes from the entries before it -/
def PsInv (esp ps : DVec) : Prop := ∀ k, k < ps.length → ps.getD k 0 = nextPowerSum esp ps k

/-- every entry of `esp` is what `nextEsp` computes from the entries before it -/
def EspInv (ps esp : DVec) (order : Int) : Prop :=
  ∀ k, k < esp.length → esp.getD k 0 = nextEsp esp ps k order

/-- Domain condition of the BRAIN correspondence: a gap-free isotope ladder that starts at the
    key `elemNum` (this is what the key walk of `isotopic_coefficients` visits, defect D5), whose
    lightest isotope is the reference (shift 0, i.e. the most abundant) one, with the recorded
    min/max shifts those of the ladder. -/
structure Dom (e : Elem) : Prop where
  ne : e.isos ≠ []
  key : ∀ j (h : j < e.isos.length), (e.isos[j]).key = e.elemNum + j
  shift : ∀ j (h : j < e.isos.length), (e.isos[j]).shift = (j : Int)
  minShift : e.minShift = 0
  maxShift : e.maxShift = (e.isos.length : Int) - 1

/-- the constant coefficient `c₀ₑ` of the element polynomial (abundance of the lightest isotope) -/
def c0 (e : Elem) (one : Rat) : Rat := (Spec.elemPoly e one false).getD 0 0

/-- what the BRAIN constants of one element must satisfy for the probability vector up to `order`:
    `esp` is the normalised sign-alternated coefficient list of the element polynomial (possibly
    zero-padded), `ps` is a Newton-consistent power-sum prefix of length ≥ order + 1 -/
structure GoodPhi (e : Elem) (one : Rat) (order : Nat) (phi : Phi) : Prop where
  esp : ∀ i, phi.elem.esp.getD i 0 = altSign i * (Spec.elemPoly e one false).getD i 0 / c0 e one
  inv : PsInv phi.elem.esp phi.elem.ps
  len : order + 1 ≤ phi.elem.ps.length

end Chem
