import ChemProofs.Lemmas.BrainDefs
/-
C03 (BRAIN): under the domain condition `Dom e` the element polynomial of the specification is the
isotope list read in order, and the key walk of `isotopic_coefficients` returns it reversed.
-/
namespace Chem

/-- `find?` on a list whose `g`-values follow an injective ladder `c 0, c 1, …` -/
theorem find?_ladder {α β : Type} [BEq β] [LawfulBEq β] (g : α → β) :
    ∀ (l : List α) (c : Nat → β), (∀ i j, c i = c j → i = j) →
      (∀ j (h : j < l.length), g l[j] = c j) →
      ∀ j (h : j < l.length), l.find? (fun i => g i == c j) = some l[j]
  | [], _, _, _, j, h => by simp at h
  | x :: xs, c, inj, hl, j, h => by
    cases j with
    | zero =>
      have h0 : g x = c 0 := hl 0 (by simp)
      simp [h0]
    | succ j =>
      have h0 : g x = c 0 := hl 0 (by simp)
      have hne : (g x == c (j + 1)) = false := by
        rw [h0]
        apply beq_false_of_ne
        intro hc
        have := inj _ _ hc
        omega
      have hj : j < xs.length := by simpa using h
      have ih := find?_ladder g xs (fun i => c (i + 1))
        (fun a b hab => by have := inj _ _ hab; omega)
        (fun i hi => by
          have := hl (i + 1) (by simpa using hi)
          simpa using this) j hj
      simp only [List.find?_cons, hne, List.getElem_cons_succ]
      exact ih

theorem foldl_min_of_le : ∀ (l : List Int) (a : Int), (∀ x ∈ l, a ≤ x) → l.foldl min a = a
  | [], _, _ => rfl
  | x :: xs, a, h => by
    have hx : a ≤ x := h x (by simp)
    have : min a x = a := by omega
    simp only [List.foldl_cons, this]
    exact foldl_min_of_le xs a (fun y hy => h y (by simp [hy]))

theorem foldl_max_ladder : ∀ (l : List Int) (b s : Int), b ≤ s → l ≠ [] →
    (∀ j (h : j < l.length), l[j] = s + (j : Int)) → l.foldl max b = s + (l.length : Int) - 1
  | [], _, _, _, hne, _ => absurd rfl hne
  | x :: xs, b, s, hb, _, hl => by
    have hx : x = s := by
      have := hl 0 (by simp)
      simp only [List.getElem_cons_zero] at this
      omega
    have hm : max b x = s := by omega
    simp only [List.foldl_cons, hm]
    cases xs with
    | nil => simp
    | cons y ys =>
      have ih := foldl_max_ladder (y :: ys) s (s + 1) (by omega) (by simp)
        (fun j hj => by
          have := hl (j + 1) (by simpa using hj)
          simp only [List.getElem_cons_succ] at this
          rw [this]; push_cast; omega)
      rw [ih]
      simp only [List.length_cons]; push_cast; omega

/-- the value the BRAIN code and the specification attach to one isotope -/
def isoVal (one : Rat) (wm : Bool) (i : Iso) : Rat :=
  (if wm then (i.mass : Rat) / one else 1) * ((i.abund : Rat) / one)

theorem Dom.length_pos {e : Elem} (h : Dom e) : 0 < e.isos.length :=
  List.length_pos_iff.mpr h.ne

theorem Dom.lo {e : Elem} (h : Dom e) : (e.isos.map (·.shift)).foldl min 0 = 0 := by
  apply foldl_min_of_le
  intro x hx
  obtain ⟨j, hj, rfl⟩ := List.getElem_of_mem hx
  have hj' : j < e.isos.length := by simpa using hj
  rw [List.getElem_map, h.shift j hj']
  omega

theorem Dom.hi {e : Elem} (h : Dom e) :
    (e.isos.map (·.shift)).foldl max 0 = (e.isos.length : Int) - 1 := by
  have := foldl_max_ladder (e.isos.map (·.shift)) 0 0 (Int.le_refl 0)
    (by simpa using h.ne)
    (fun j hj => by
      have hj' : j < e.isos.length := by simpa using hj
      rw [List.getElem_map, h.shift j hj']; omega)
  rw [this, List.length_map]; omega

theorem Dom.find_shift {e : Elem} (h : Dom e) (k : Nat) (hk : k < e.isos.length) :
    e.isos.find? (fun i => i.shift == (0 : Int) + Int.ofNat k) = some e.isos[k] := by
  have := find?_ladder (fun i : Iso => i.shift) e.isos (fun j => (0 : Int) + Int.ofNat j)
    (fun a b hab => by simp only [Int.ofNat_eq_natCast] at hab; omega)
    (fun j hj => by rw [h.shift j hj]; simp) k hk
  exact this

theorem Dom.find_key {e : Elem} (h : Dom e) (k : Nat) (hk : k < e.isos.length) :
    e.iso? (e.elemNum + k) = some e.isos[k] := by
  have := find?_ladder (fun i : Iso => i.key) e.isos (fun j => e.elemNum + j)
    (fun a b hab => by omega) (fun j hj => h.key j hj) k hk
  exact this

/-- under `Dom` the element polynomial is just the isotope list read in order -/
theorem elemPoly_of_dom {e : Elem} (h : Dom e) (one : Rat) (wm : Bool) :
    Spec.elemPoly e one wm =
      e.isos.map fun i => (if wm then (i.mass : Rat) / one else 1) * ((i.abund : Rat) / one) := by
  have hpos := h.length_pos
  unfold Spec.elemPoly
  simp only [h.lo, h.hi]
  have hn : ((e.isos.length : Int) - 1 - 0).toNat + 1 = e.isos.length := by omega
  rw [hn]
  apply List.ext_getElem
  · simp
  · intro k h1 h2
    have hk : k < e.isos.length := by simpa using h1
    simp only [List.getElem_map, List.getElem_range]
    rw [h.find_shift k hk]

theorem elemPoly_length_of_dom {e : Elem} (h : Dom e) (one : Rat) (wm : Bool) :
    (Spec.elemPoly e one wm).length = e.isos.length := by
  rw [elemPoly_of_dom h, List.length_map]

theorem isoCoefLoop_of_dom {e : Elem} (h : Dom e) (one : Rat) (wm : Bool) :
    ∀ (d m : Nat) (acc : DVec), m + d = e.isos.length → acc.length = m →
      isoCoefLoop e wm one (List.range' m d) acc =
        .ok (acc ++ ((e.isos.map (isoVal one wm)).reverse.drop m))
  | 0, m, acc, hmd, _ => by
    have : ((e.isos.map (isoVal one wm)).reverse.drop m) = [] := by
      apply List.drop_eq_nil_of_le; simp; omega
    simp [this, isoCoefLoop]
  | d + 1, m, acc, hmd, hacc => by
    have hidx : e.isos.length - 1 - m < e.isos.length := by omega
    have hk : ((e.isos.length : Int) + (e.elemNum : Int) - (m : Int) - 1).toNat
        = e.elemNum + (e.isos.length - 1 - m) := by omega
    have hk0 : ¬ ((e.isos.length : Int) + (e.elemNum : Int) - (m : Int) - 1) < 0 := by omega
    have hord : (e.maxShift - (e.isos[e.isos.length - 1 - m]).shift).toNat = m := by
      rw [h.maxShift, h.shift _ hidx]; omega
    have hdrop : (e.isos.map (isoVal one wm)).reverse.drop m =
        isoVal one wm e.isos[e.isos.length - 1 - m] ::
          (e.isos.map (isoVal one wm)).reverse.drop (m + 1) := by
      rw [List.drop_eq_getElem_cons (by simp; omega)]
      congr 1
      simp [List.getElem_reverse]
    have ih := isoCoefLoop_of_dom h one wm d (m + 1)
      (acc ++ [isoVal one wm e.isos[e.isos.length - 1 - m]]) (by omega) (by simp [hacc])
    rw [List.range'_succ, isoCoefLoop]
    simp only [hk0, if_false, hk, h.find_key _ hidx, hord, hacc, Nat.lt_irrefl, beq_self_eq_true,
      if_true]
    rw [hdrop]
    simpa [isoVal] using ih

/-- the key walk of `isotopic_coefficients` returns the reversed element polynomial -/
theorem isotopicCoefficients_of_dom {e : Elem} (h : Dom e) (one : Rat) (wm : Bool) :
    isotopicCoefficients e wm one = .ok (Spec.elemPoly e one wm).reverse := by
  have hpos := h.length_pos
  unfold isotopicCoefficients
  have hn : (e.maxShift - e.minShift).toNat + 1 = e.isos.length := by
    rw [h.maxShift, h.minShift]; omega
  rw [hn, List.range_eq_range', isoCoefLoop_of_dom h one wm e.isos.length 0 [] (by omega) rfl,
    elemPoly_of_dom h]
  simp [isoVal]

end Chem
