import ChemProofs.Lemmas.BrainDefs
/-
List-level facts about the two BRAIN recurrences (`updatePowerSum`, `updateEsp`): lengths,
prefix-stability, and the invariants `PsInv` / `EspInv` (every entry is what the recurrence
computes from the entries before it).
-/
namespace Chem

theorem getD_append_left' (l t : List Rat) (i : Nat) (h : i < l.length) :
    (l ++ t).getD i 0 = l.getD i 0 := by
  simp only [List.getD_eq_getElem?_getD, List.getElem?_append_left h]

theorem getD_append_replicate_zero (l : List Rat) (m i : Nat) :
    (l ++ List.replicate m (0 : Rat)).getD i 0 = l.getD i 0 := by
  simp only [List.getD_eq_getElem?_getD]
  by_cases h : i < l.length
  · rw [List.getElem?_append_left h]
  · rw [List.getElem?_append_right (by omega), List.getElem?_eq_none (by omega : l.length ≤ i)]
    simp only [List.getElem?_replicate]
    split <;> rfl

theorem getD_append_self_length (l : List Rat) (a : Rat) : (l ++ [a]).getD l.length 0 = a := by
  simp only [List.getD_eq_getElem?_getD, List.getElem?_append_right (Nat.le_refl _), Nat.sub_self,
    List.getElem?_cons_zero, Option.getD_some]

/-! ### `nextPowerSum` reads only the entries before `k` -/

theorem nextPowerSum_append (esp ps t : DVec) (k : Nat) (hk : k ≤ ps.length) :
    nextPowerSum esp (ps ++ t) k = nextPowerSum esp ps k := by
  unfold nextPowerSum
  split
  · rfl
  · congr 2
    apply List.map_congr_left
    intro j0 hj
    have : j0 < k - 1 := List.mem_range.mp hj
    simp only
    rw [getD_append_left' _ _ _ (by omega)]

theorem nextPowerSum_congr_esp (esp esp' ps : DVec) (k : Nat)
    (h : ∀ i, esp.getD i 0 = esp'.getD i 0) : nextPowerSum esp ps k = nextPowerSum esp' ps k := by
  unfold nextPowerSum
  simp only [h]

theorem PsInv_nil (esp : DVec) : PsInv esp [] := by
  intro k hk; simp at hk

theorem PsInv_congr_esp {esp esp' ps : DVec} (h : ∀ i, esp.getD i 0 = esp'.getD i 0)
    (hp : PsInv esp ps) : PsInv esp' ps := by
  intro k hk
  rw [hp k hk, nextPowerSum_congr_esp esp esp' ps k h]

theorem PsInv_snoc {esp ps : DVec} (hp : PsInv esp ps) :
    PsInv esp (ps ++ [nextPowerSum esp ps ps.length]) := by
  intro k hk
  rw [List.length_append, List.length_singleton] at hk
  by_cases h : k < ps.length
  · rw [getD_append_left' _ _ _ h, nextPowerSum_append _ _ _ _ (by omega)]
    exact hp k h
  · have : k = ps.length := by omega
    subst this
    rw [getD_append_self_length, nextPowerSum_append _ _ _ _ (Nat.le_refl _)]

theorem updatePowerSum_inv (esp : DVec) : ∀ (fuel : Nat) (ps : DVec), PsInv esp ps →
    PsInv esp (updatePowerSum esp fuel ps)
  | 0, ps, hp => hp
  | fuel + 1, ps, hp => by
    unfold updatePowerSum
    split
    · exact updatePowerSum_inv esp fuel _ (PsInv_snoc hp)
    · exact hp

theorem updatePowerSum_length (esp : DVec) : ∀ (fuel : Nat) (ps : DVec),
    ps.length ≤ esp.length → esp.length - ps.length ≤ fuel →
    (updatePowerSum esp fuel ps).length = esp.length
  | 0, ps, h1, h2 => by unfold updatePowerSum; omega
  | fuel + 1, ps, h1, h2 => by
    unfold updatePowerSum
    split
    · apply updatePowerSum_length esp fuel
      · simp only [List.length_append, List.length_singleton]; omega
      · simp only [List.length_append, List.length_singleton]; omega
    · omega

theorem updatePowerSum_prefix (esp : DVec) : ∀ (fuel : Nat) (ps : DVec),
    ∃ t, updatePowerSum esp fuel ps = ps ++ t
  | 0, ps => ⟨[], by simp [updatePowerSum]⟩
  | fuel + 1, ps => by
    unfold updatePowerSum
    split
    · obtain ⟨t, ht⟩ := updatePowerSum_prefix esp fuel (ps ++ [nextPowerSum esp ps ps.length])
      exact ⟨_ :: t, by rw [ht, List.append_assoc]; rfl⟩
    · exact ⟨[], by simp⟩

/-! ### `nextEsp` reads only the entries before `k` -/

theorem nextEsp_append (esp ps t : DVec) (k : Nat) (order : Int) (hk : k ≤ esp.length) :
    nextEsp (esp ++ t) ps k order = nextEsp esp ps k order := by
  unfold nextEsp
  split
  · rfl
  · split
    · rfl
    · congr 2
      apply List.map_congr_left
      intro j0 hj
      have : j0 < k := List.mem_range.mp hj
      have hk0 : k ≠ 0 := by simp_all
      simp only
      rw [getD_append_left' _ _ _ (by omega)]

theorem EspInv_nil (ps : DVec) (order : Int) : EspInv ps [] order := by
  intro k hk; simp at hk

theorem EspInv_snoc {ps esp : DVec} {order : Int} (hp : EspInv ps esp order) :
    EspInv ps (esp ++ [nextEsp esp ps esp.length order]) order := by
  intro k hk
  rw [List.length_append, List.length_singleton] at hk
  by_cases h : k < esp.length
  · rw [getD_append_left' _ _ _ h, nextEsp_append _ _ _ _ _ (by omega)]
    exact hp k h
  · have : k = esp.length := by omega
    subst this
    rw [getD_append_self_length, nextEsp_append _ _ _ _ _ (Nat.le_refl _)]

theorem updateEsp_inv (ps : DVec) (order : Int) : ∀ (fuel : Nat) (esp : DVec), EspInv ps esp order →
    EspInv ps (updateEsp ps order fuel esp) order
  | 0, esp, hp => hp
  | fuel + 1, esp, hp => by
    unfold updateEsp
    split
    · exact updateEsp_inv ps order fuel _ (EspInv_snoc hp)
    · exact hp

theorem updateEsp_length (ps : DVec) (order : Int) : ∀ (fuel : Nat) (esp : DVec),
    esp.length ≤ ps.length → ps.length - esp.length ≤ fuel →
    (updateEsp ps order fuel esp).length = ps.length
  | 0, esp, h1, h2 => by unfold updateEsp; omega
  | fuel + 1, esp, h1, h2 => by
    unfold updateEsp
    split
    · apply updateEsp_length ps order fuel
      · simp only [List.length_append, List.length_singleton]; omega
      · simp only [List.length_append, List.length_singleton]; omega
    · omega

/-- `espOfPs`: length and invariant -/
theorem espOfPs_length (ps : DVec) (V : Int) : (espOfPs ps V).length = ps.length := by
  unfold espOfPs PolyParams.newton
  simp only [List.length_nil, Nat.not_lt_zero, if_false, Nat.sub_zero]
  split
  · exact updateEsp_length ps V _ [] (Nat.zero_le _) (by simp)
  · simp_all

theorem espOfPs_inv (ps : DVec) (V : Int) : EspInv ps (espOfPs ps V) V := by
  unfold espOfPs PolyParams.newton
  simp only [List.length_nil, Nat.not_lt_zero, if_false, Nat.sub_zero]
  split
  · exact updateEsp_inv ps V _ [] (EspInv_nil ps V)
  · exact EspInv_nil ps V

end Chem
