import ChemProofs.Lemmas.BrainProb
import ChemProofs.Lemmas.BrainSpecMass

namespace Chem
open PowerSeries

/-- power-sum series of the inverse -/
theorem IsPS.inv {F P : ℚ⟦X⟧} (hF : constantCoeff F ≠ 0) (h : IsPS F P) : IsPS F⁻¹ (-P) := by
  unfold IsPS at *
  have hGi := PowerSeries.mul_inv_cancel F hF
  have hd : F * derivative ℚ F⁻¹ + F⁻¹ * derivative ℚ F = 0 := by
    have := congrArg (derivative ℚ) hGi
    rw [Derivation.leibniz, smul_eq_mul, smul_eq_mul, derivative_one] at this
    exact this
  have hdi : derivative ℚ F⁻¹ = -(F⁻¹ * F⁻¹ * derivative ℚ F) := by
    linear_combination F⁻¹ * hd - (derivative ℚ F⁻¹) * hGi
  rw [hdi]
  linear_combination (-(F⁻¹ * F⁻¹)) * h + (F⁻¹ * P) * hGi

/-- the elementary symmetric polynomials recovered from the first `order` power sums of a series
    `G` with constant term 1 are (up to the alternating sign) the coefficients of `G` -/
theorem espOfPs_coeff {P G : ℚ⟦X⟧} (hG : IsPS G P) (hG1 : constantCoeff G = 1) (order : ℕ) (V : Int)
    (hV : (order : Int) ≤ V) :
    (espOfPs (0 :: (List.range order).map fun i => coeff (i + 1) P) V).length = order + 1 ∧
    ∀ i, i ≤ order →
      (-1 : ℚ) ^ i * (espOfPs (0 :: (List.range order).map fun i => coeff (i + 1) P) V).getD i 0 =
        coeff i G := by
  generalize hPS : (0 : Rat) :: ((List.range order).map fun i => coeff (i + 1) P) = PS
  have hPSlen : PS.length = order + 1 := by rw [← hPS]; simp
  have hPS0 : PS.getD 0 0 = 0 := by rw [← hPS]; rfl
  have hP0 : coeff 0 P = 0 := by
    have := congrArg (coeff 0) hG
    rw [IsPS] at *
    rw [map_add, coeff_zero_X_mul, add_zero, coeff_mul] at this
    simpa [hG1] using this
  have hPSdvd : X ^ (order + 1) ∣ toPS PS - P := by
    rw [X_pow_dvd_iff]
    intro m hm
    rw [map_sub, coeff_toPS, ← hPS]
    cases m with
    | zero => rw [hP0]; simp
    | succ k =>
      rw [List.getD_cons_succ, List.getD_eq_getElem _ _ (by simp; omega)]
      simp
  have hel := espOfPs_length PS V
  have hei := espOfPs_inv PS V
  generalize espOfPs PS V = esp' at hel hei
  have hne' : esp' ≠ [] := List.ne_nil_of_length_pos (by omega)
  have hF' : constantCoeff (fE esp') = 1 := by rw [constantCoeff_fE, hei.head hne']
  have h1 := hei.dvd (by omega) hPS0
  rw [hel, hPSlen] at h1
  have h3 := IsPS.esp_unique hF' hG1 h1 hG hPSdvd
  refine ⟨by omega, ?_⟩
  intro i hi
  have hc := coeff_eq_of_dvd_sub h3 (by omega : i < order + 1)
  rw [coeff_fE] at hc
  exact hc

theorem sum_map_mul_ite_eq {α} [DecidableEq α] (g : α → ℚ) (x : α) : ∀ (c : List α),
    c.Nodup → x ∈ c → (c.map fun y => g y * (if y = x then 1 else 0)).sum = g x
  | [], _, h => by simp at h
  | y :: c, hn, h => by
    rw [List.nodup_cons] at hn
    rw [List.map_cons, List.sum_cons]
    by_cases hy : y = x
    · subst hy
      have : (c.map fun z => g z * (if z = y then (1 : ℚ) else 0)).sum = 0 := by
        apply List.sum_eq_zero
        intro a ha
        obtain ⟨z, hz, rfl⟩ := List.mem_map.mp ha
        have : z ≠ y := by rintro rfl; exact hn.1 hz
        simp [this]
      rw [this]; simp
    · have hx : x ∈ c := by
        rcases List.mem_cons.mp h with h | h
        · exact absurd h.symm hy
        · exact h
      rw [sum_map_mul_ite_eq g x c hn.2 hx]; simp [hy]

theorem find?_map_key {α β} (key : α → Sym) (val : α → β) (x : α) : ∀ (l : List α),
    (l.map key).Nodup → x ∈ l →
    (l.map fun y => (key y, val y)).find? (fun q => q.1 == key x) = some (key x, val x)
  | [], _, h => by simp at h
  | y :: l, hn, h => by
    rw [List.map_cons, List.nodup_cons] at hn
    rw [List.map_cons, List.find?_cons]
    by_cases hy : key y = key x
    · have : y = x := by
        rcases List.mem_cons.mp h with h | h
        · exact h.symm
        · exfalso; apply hn.1; rw [hy]; exact List.mem_map.mpr ⟨x, h, rfl⟩
      subst this
      simp
    · have hx : x ∈ l := by
        rcases List.mem_cons.mp h with h | h
        · subst h; exact absurd rfl hy
        · exact h
      have hb : (key y == key x) = false := by simpa using hy
      simp only [hb]
      exact find?_map_key key val x l hn.2 hx

theorem sum_map_mul_sub {α} (a b d : α → ℚ) : ∀ (c : List α),
    (c.map fun y => a y * (b y - d y)).sum =
      (c.map fun y => a y * b y).sum - (c.map fun y => a y * d y).sum
  | [] => by simp
  | y :: c => by
    simp only [List.map_cons, List.sum_cons]
    rw [sum_map_mul_sub a b d c]; ring

theorem mapRes_map_ok {α β γ} (F : β → Res γ) (f : α → β) (g : α → γ) : ∀ (l : List α),
    (∀ x ∈ l, F (f x) = .ok (g x)) → mapRes F (l.map f) = .ok (l.map g)
  | [], _ => rfl
  | x :: l, h => by
    rw [List.map_cons]
    unfold mapRes
    rw [h x (List.mem_cons_self),
      mapRes_map_ok F f g l (fun y hy => h y (List.mem_cons_of_mem _ hy))]
    rfl

/-- the constant coefficient of the mass polynomial `Mₑ` -/
def m0 (e : Elem) (one : Rat) : Rat := (Spec.elemPoly e one true).getD 0 0

/-- the normalised mass polynomial `Mₑ(x)/Mₑ(0)` as a power series -/
noncomputable def FM (one : Rat) (e : Elem) : ℚ⟦X⟧ :=
  C (m0 e one)⁻¹ * toPS (Spec.elemPoly e one true)

theorem constantCoeff_FM {one : Rat} {e : Elem} (h : m0 e one ≠ 0) : constantCoeff (FM one e) = 1 := by
  rw [← coeff_zero_eq_constantCoeff_apply, FM, coeff_C_mul, coeff_toPS]
  exact inv_mul_cancel₀ h

theorem fE_of_goodM {e : Elem} {one : Rat} {ord : Nat} {phi : Phi} (hg : GoodPhiM e one ord phi) :
    fE phi.mass.esp = FM one e := by
  ext i
  rw [coeff_fE, hg.esp i, FM, coeff_C_mul, coeff_toPS, altSign_eq_pow]
  have : (-1 : ℚ) ^ i * (-1) ^ i = 1 := by rw [← mul_pow]; simp
  rw [div_eq_mul_inv, m0]
  linear_combination
    ((Spec.elemPoly e one true).getD i 0 * ((Spec.elemPoly e one true).getD 0 0)⁻¹) * this

/-- the series whose coefficients the centre-mass polynomial of entry `x` recovers:
    `M̃ₓ · F̃ₓ^(nₓ−1) · ∏_{y≠x} F̃_y^{n_y}`, written as `(∏ F̃_y^{n_y}) · F̃ₓ⁻¹ · M̃ₓ` -/
noncomputable def Gmass (one : Rat) (c : List (Elem × Nat)) (x : Elem × Nat) : ℚ⟦X⟧ :=
  (c.map fun y => Fx one y.1 ^ y.2).prod * (Fx one x.1)⁻¹ * FM one x.1

/-- the numerator of the centre mass of variant `i` as BRAIN computes it -/
noncomputable def centerNum (one base : Rat) (c : List (Elem × Nat)) (i : ℕ) : ℚ :=
  (c.map fun x => (x.2 : ℚ) * coeff i (Gmass one c x) * base * ((x.1.mostMass : ℚ) / one)).sum

/-- (N4, abstract form, BRAIN side) -/
theorem centerMassVector_of_good (consts : IsoConstants) (c : List (Elem × Nat)) (one : Rat)
    (order : Nat) (V : Int) (base : Rat) (prob : DVec) (hV : (order : Int) ≤ V)
    (hc0 : ∀ x ∈ c, c0 x.1 one ≠ 0) (hm0 : ∀ x ∈ c, m0 x.1 one ≠ 0)
    (hnodup : (c.map fun x => x.1.sym).Nodup)
    (hgood : ∀ x ∈ c, ∃ phi, consts.get x.1.sym = some phi ∧ GoodPhi x.1 one order phi ∧
      GoodPhiM x.1 one order phi)
    (hplen : prob.length = order + 1) :
    ∃ cm, centerMassVector consts (toB c) order V base one prob = .ok cm ∧ cm.length = order + 1 ∧
      ∀ i, i ≤ order → cm.getD i 0 =
        if prob.getD i 0 = 0 then 0 else centerNum one base c i / prob.getD i 0 := by
  have hFx1 : ∀ x ∈ c, constantCoeff (Fx one x.1) = 1 := fun x hx => constantCoeff_Fx (hc0 x hx)
  have hFM1 : ∀ x ∈ c, constantCoeff (FM one x.1) = 1 := fun x hx => constantCoeff_FM (hm0 x hx)
  have hG := isPS_list_prod (fun x : Elem × Nat => Fx one x.1) (fun x => psOf (Fx one x.1))
    (fun x => x.2) c (fun x hx => isPS_psOf (hFx1 x hx))
  have hG1 := constantCoeff_list_prod_pow (fun x : Elem × Nat => Fx one x.1) (fun x => x.2) c hFx1
  unfold centerNum Gmass
  generalize hPtot : (c.map fun x : Elem × Nat => C (x.2 : ℚ) * psOf (Fx one x.1)).sum = Ptot at hG
  generalize hGdef : (c.map fun x : Elem × Nat => Fx one x.1 ^ x.2).prod = G at hG hG1
  have hnth : ∀ x ∈ c, ∀ k, k ≤ order →
      nthPs consts x.1.sym k false = .ok (coeff k (psOf (Fx one x.1))) := by
    intro x hx k hk
    obtain ⟨phi, hget, hg, _⟩ := hgood x hx
    have hlen := hg.len
    have hF := fE_of_good hg
    have h0 : phi.elem.esp.getD 0 0 = 1 := by rw [← constantCoeff_fE, hF]; exact hFx1 x hx
    unfold nthPs
    rw [hget]
    simp only [Bool.false_eq_true, if_false]
    rw [if_pos (by omega)]
    congr 1
    exact hg.inv.coeff_eq h0 (by rw [hF]; exact isPS_psOf (hFx1 x hx)) (by omega)
  have hnthM : ∀ x ∈ c, ∀ k, k ≤ order →
      nthPs consts x.1.sym k true = .ok (coeff k (psOf (FM one x.1))) := by
    intro x hx k hk
    obtain ⟨phi, hget, _, hg⟩ := hgood x hx
    have hlen := hg.len
    have hF := fE_of_goodM hg
    have h0 : phi.mass.esp.getD 0 0 = 1 := by rw [← constantCoeff_fE, hF]; exact hFM1 x hx
    unfold nthPs
    rw [hget]
    simp only [if_true]
    rw [if_pos (by omega)]
    congr 1
    exact hg.inv.coeff_eq h0 (by rw [hF]; exact isPS_psOf (hFM1 x hx)) (by omega)
  have hcN : c.Nodup := List.Nodup.of_map _ hnodup
  have hinj : ∀ x ∈ c, ∀ y ∈ c, y.1.sym = x.1.sym → y = x :=
    fun x hx y hy h => List.inj_on_of_nodup_map hnodup hy hx h
  have hpm : ∀ x ∈ c, ∀ k, k ≤ order → phiMassFor consts (toB c) x.1 k =
      .ok (coeff k (Ptot - psOf (Fx one x.1) + psOf (FM one x.1))) := by
    intro x hx k hk
    unfold phiMassFor toB
    rw [List.map_map, List.map_congr_left (g := fun y : Elem × Nat =>
        Res.ok (coeff k (psOf (Fx one y.1)) * ((y.2 : ℚ) - (if y = x then 1 else 0)))),
      sumRes_ok, hnthM x hx k hk, sum_map_mul_sub, sum_map_mul_ite_eq _ x c hcN hx]
    · show Res.ok _ = _
      congr 1
      rw [map_add, map_sub, ← hPtot, map_list_sum, List.map_map]
      congr 3
      apply List.map_congr_left
      intro y _
      simp only [Function.comp_apply, coeff_C_mul]
      ring
    · intro y hy
      simp only [Function.comp_apply]
      rw [hnth y hy k hk]
      show Res.ok _ = _
      congr 1
      by_cases hyx : y = x
      · subst hyx; simp
      · have : y.1.sym ≠ x.1.sym := fun h => hyx (hinj x hx y hy h)
        simp [this, hyx]
  -- the series recovered for entry `x`
  have hGx : ∀ x ∈ c, IsPS (G * (Fx one x.1)⁻¹ * FM one x.1)
      (Ptot - psOf (Fx one x.1) + psOf (FM one x.1)) ∧
      constantCoeff (G * (Fx one x.1)⁻¹ * FM one x.1) = 1 := by
    intro x hx
    have hne : constantCoeff (Fx one x.1) ≠ 0 := by rw [hFx1 x hx]; exact one_ne_zero
    refine ⟨?_, ?_⟩
    · rw [sub_eq_add_neg]
      exact (hG.mul ((isPS_psOf (hFx1 x hx)).inv hne)).mul (isPS_psOf (hFM1 x hx))
    · rw [map_mul, map_mul, constantCoeff_inv, hG1, hFx1 x hx, hFM1 x hx]; norm_num
  have hpolys : mapRes (fun (x : Elem × Int) =>
        (mapRes (fun i => phiMassFor consts (toB c) x.1 (i + 1)) (List.range order)).bind fun phis =>
          Res.ok (x.1.sym, espOfPs (0 :: phis) V)) (toB c) =
      .ok (c.map fun x => (x.1.sym, espOfPs (0 :: (List.range order).map fun i =>
        coeff (i + 1) (Ptot - psOf (Fx one x.1) + psOf (FM one x.1))) V)) := by
    unfold toB
    apply mapRes_map_ok
    intro x hx
    simp only
    rw [mapRes_ok _ (fun i => coeff (i + 1) (Ptot - psOf (Fx one x.1) + psOf (FM one x.1)))]
    · rfl
    · intro i hi
      have := List.mem_range.mp hi
      exact hpm x hx (i + 1) (by omega)
  have hcenter : ∀ i, i ≤ order →
      ((toB c).map fun x =>
        match (c.map fun x : Elem × Nat => (x.1.sym, espOfPs (0 :: (List.range order).map fun i =>
            coeff (i + 1) (Ptot - psOf (Fx one x.1) + psOf (FM one x.1))) V)).find?
            (fun q => q.1 == x.1.sym) with
        | some q => (x.2 : Rat) * (altSign i * q.2.getD i 0) * base * ((x.1.mostMass : Rat) / one)
        | none => 0).sum =
      (c.map fun x : Elem × Nat => (x.2 : ℚ) * coeff i (G * (Fx one x.1)⁻¹ * FM one x.1) * base *
        ((x.1.mostMass : ℚ) / one)).sum := by
    intro i hi
    unfold toB
    rw [List.map_map]
    congr 1
    apply List.map_congr_left
    intro x hx
    simp only [Function.comp_apply]
    rw [find?_map_key (fun x : Elem × Nat => x.1.sym) _ x c hnodup hx]
    simp only
    rw [altSign_eq_pow, (espOfPs_coeff (hGx x hx).1 (hGx x hx).2 order V hV).2 i hi]
    simp
  refine ⟨(List.range (order + 1)).map fun i => if prob.getD i 0 = 0 then 0 else
    (c.map fun x : Elem × Nat => (x.2 : ℚ) * coeff i (G * (Fx one x.1)⁻¹ * FM one x.1) * base *
        ((x.1.mostMass : ℚ) / one)).sum / prob.getD i 0, ?_, by simp, ?_⟩
  · unfold centerMassVector
    rw [hpolys]
    show mapRes _ _ = _
    apply mapRes_ok
    intro i hi
    have hi' : i ≤ order := by have := List.mem_range.mp hi; omega
    simp only
    rw [if_pos (by omega)]
    by_cases hp : prob.getD i 0 = 0
    · have hb : (prob.getD i 0 == 0) = true := by rw [hp]; rfl
      rw [hb, if_pos hp]
      rfl
    · have hb : (prob.getD i 0 == 0) = false := by simpa using hp
      rw [hb, if_neg hp]
      simp only [Bool.false_eq_true, if_false]
      congr 2
      exact hcenter i hi'
  · intro i hi
    rw [List.getD_eq_getElem _ _ (by simp; omega)]
    simp

/-! ### the numerator is `κ · aggMass` -/

theorem prod_map_eraseIdx_rat {α} (f : α → ℚ) : ∀ (l : List α) (idx : Nat) (h : idx < l.length),
    (l.map f).prod = f l[idx] * ((l.eraseIdx idx).map f).prod
  | x :: l, 0, _ => by simp
  | x :: l, idx + 1, h => by
    simp only [List.map_cons, List.prod_cons, List.eraseIdx_cons_succ, List.getElem_cons_succ]
    rw [prod_map_eraseIdx_rat f l idx (by simpa using h)]; ring

theorem centerTerm_eq (one base : Rat) (c : List (Elem × Nat)) (x : Elem × Nat) (idx : Nat)
    (hidx : idx < c.length) (hx : c[idx] = x) (hc0 : c0 x.1 one ≠ 0) (hm0 : m0 x.1 one ≠ 0)
    (hmost : m0 x.1 one = (x.1.mostMass : ℚ) / one * c0 x.1 one) (i : ℕ) :
    (x.2 : ℚ) * coeff i (Gmass one c x) * base * ((x.1.mostMass : ℚ) / one) =
      base / (c.map fun y => c0 y.1 one ^ y.2).prod *
        (if x.2 = 0 then 0 else (x.2 : ℚ) * coeff i
          (toPS (Spec.elemPoly x.1 one true) * toPS (Spec.elemPoly x.1 one false) ^ (x.2 - 1) *
            ((c.eraseIdx idx).map fun y => toPS (Spec.elemPoly y.1 one false) ^ y.2).prod)) := by
  obtain ⟨e, n⟩ := x
  cases n with
  | zero => simp
  | succ m =>
    rw [if_neg (Nat.succ_ne_zero m)]
    simp only [Nat.add_sub_cancel] at *
    have hcancel : Fx one e * (Fx one e)⁻¹ = 1 :=
      PowerSeries.mul_inv_cancel _ (by rw [constantCoeff_Fx hc0]; exact one_ne_zero)
    have key : Gmass one c (e, m + 1) =
        C (((c0 e one)⁻¹) ^ m * ((c.eraseIdx idx).map fun y => c0 y.1 one ^ y.2).prod⁻¹ *
            (m0 e one)⁻¹) *
          (toPS (Spec.elemPoly e one true) * toPS (Spec.elemPoly e one false) ^ m *
            ((c.eraseIdx idx).map fun y => toPS (Spec.elemPoly y.1 one false) ^ y.2).prod) := by
      unfold Gmass
      rw [prod_map_eraseIdx (fun y : Elem × Nat => Fx one y.1 ^ y.2) c idx hidx, hx,
        Fx_list_prod one (c.eraseIdx idx), map_mul, map_mul, map_pow]
      simp only
      have h2 : Fx one e = C (c0 e one)⁻¹ * toPS (Spec.elemPoly e one false) := rfl
      have h3 : FM one e = C (m0 e one)⁻¹ * toPS (Spec.elemPoly e one true) := rfl
      rw [pow_succ]
      have hFm : Fx one e ^ m = C (c0 e one)⁻¹ ^ m * toPS (Spec.elemPoly e one false) ^ m := by
        rw [h2, mul_pow]
      rw [h3]
      generalize ((c.eraseIdx idx).map fun y => toPS (Spec.elemPoly y.1 one false) ^ y.2).prod = R
      generalize C ((c.eraseIdx idx).map fun y => c0 y.1 one ^ y.2).prod⁻¹ = K
      linear_combination
        (Fx one e ^ m * (K * R) * (C (m0 e one)⁻¹ * toPS (Spec.elemPoly e one true))) * hcancel +
        (K * R * C (m0 e one)⁻¹ * toPS (Spec.elemPoly e one true)) * hFm
    rw [key, coeff_C_mul, prod_map_eraseIdx_rat (fun y : Elem × Nat => c0 y.1 one ^ y.2) c idx hidx,
      hx]
    simp only
    have hmm : ((e.mostMass : ℚ) / one) ≠ 0 := by
      intro h; apply hm0; rw [hmost, h, zero_mul]
    have h : ((e.mostMass : ℚ) / one * c0 e one)⁻¹ * ((e.mostMass : ℚ) / one) = (c0 e one)⁻¹ := by
      rw [mul_inv, mul_comm _ (c0 e one)⁻¹, mul_assoc, inv_mul_cancel₀ hmm, mul_one]
    rw [hmost]
    generalize ((c.eraseIdx idx).map fun y : Elem × Nat => c0 y.1 one ^ y.2).prod = E
    generalize (coeff i : ℚ⟦X⟧ →ₗ[ℚ] ℚ) _ = t
    push_cast
    linear_combination (((m : ℚ) + 1) * t * base * ((c0 e one)⁻¹) ^ m * E⁻¹) * h

/-- the numerator BRAIN computes for the centre mass of variant `i` is `κ · aggMass i` -/
theorem centerNum_eq (one base : Rat) (c : List (Elem × Nat)) (order i : ℕ) (hi : i ≤ order)
    (hc0 : ∀ x ∈ c, c0 x.1 one ≠ 0) (hm0 : ∀ x ∈ c, m0 x.1 one ≠ 0)
    (hmost : ∀ x ∈ c, m0 x.1 one = (x.1.mostMass : ℚ) / one * c0 x.1 one) :
    centerNum one base c i =
      base / (c.map fun y => c0 y.1 one ^ y.2).prod * (Spec.aggMass c one order).getD i 0 := by
  rw [← coeff_toPS, coeff_toPS_aggMass' c one order i hi, ← List.sum_map_mul_left]
  unfold centerNum
  have hz : ∀ (h : Elem × Nat → ℚ), c.map h = c.zipIdx.map fun p => h p.1 := by
    intro h
    conv_lhs => rw [← List.zipIdx_map_fst 0 c]
    rw [List.map_map]; rfl
  rw [hz]
  congr 1
  apply List.map_congr_left
  intro p hp
  have hget := List.mem_zipIdx_iff_getElem?.mp hp
  obtain ⟨hidx, hx⟩ := List.getElem?_eq_some_iff.mp hget
  have hmem : p.1 ∈ c := hx ▸ List.getElem_mem hidx
  exact centerTerm_eq one base c p.1 p.2 hidx hx (hc0 _ hmem) (hm0 _ hmem) (hmost _ hmem) i

/-- (N4, abstract form) with good constants, a probability vector that is `κ · aggProb`
    (`κ ≠ 0`) and pairwise distinct symbols, the centre-mass vector is `aggMass / aggProb`
    (both sides are 0 where `aggProb` vanishes). -/
theorem centerMassVector_of_good' (consts : IsoConstants) (c : List (Elem × Nat)) (one : Rat)
    (order : Nat) (V : Int) (base : Rat) (prob : DVec) (hV : (order : Int) ≤ V)
    (hc0 : ∀ x ∈ c, c0 x.1 one ≠ 0) (hm0 : ∀ x ∈ c, m0 x.1 one ≠ 0)
    (hmost : ∀ x ∈ c, m0 x.1 one = (x.1.mostMass : ℚ) / one * c0 x.1 one)
    (hnodup : (c.map fun x => x.1.sym).Nodup)
    (hgood : ∀ x ∈ c, ∃ phi, consts.get x.1.sym = some phi ∧ GoodPhi x.1 one order phi ∧
      GoodPhiM x.1 one order phi)
    (hbase : base ≠ 0)
    (hplen : prob.length = order + 1)
    (hprob : ∀ i, i ≤ order → prob.getD i 0 =
      base / (c.map fun x => c0 x.1 one ^ x.2).prod * (Spec.aggProb c one order).getD i 0) :
    ∃ cm, centerMassVector consts (toB c) order V base one prob = .ok cm ∧ cm.length = order + 1 ∧
      ∀ i, i ≤ order →
        cm.getD i 0 = (Spec.aggMass c one order).getD i 0 / (Spec.aggProb c one order).getD i 0 := by
  obtain ⟨cm, hcm, hlen, hval⟩ := centerMassVector_of_good consts c one order V base prob hV hc0 hm0
    hnodup hgood hplen
  refine ⟨cm, hcm, hlen, ?_⟩
  intro i hi
  rw [hval i hi, centerNum_eq one base c order i hi hc0 hm0 hmost, hprob i hi]
  have hprod : (c.map fun x : Elem × Nat => c0 x.1 one ^ x.2).prod ≠ 0 := by
    apply List.prod_ne_zero
    intro h0
    obtain ⟨x, hx, hx0⟩ := List.mem_map.mp h0
    exact pow_ne_zero _ (hc0 x hx) hx0
  have hk : base / (c.map fun x : Elem × Nat => c0 x.1 one ^ x.2).prod ≠ 0 :=
    div_ne_zero hbase hprod
  generalize base / (c.map fun x : Elem × Nat => c0 x.1 one ^ x.2).prod = κ at hk
  by_cases ha : (Spec.aggProb c one order).getD i 0 = 0
  · rw [ha]; simp
  · rw [if_neg (mul_ne_zero hk ha), mul_div_mul_left _ _ hk]

/-- under `Dom`, if the recorded monoisotopic mass is the mass of the lightest isotope, then
    `Mₑ(0) = (mostMass/one) · Pₑ(0)` -/
theorem m0_eq_of_dom {e : Elem} (h : Dom e) (one : Rat)
    (hmm : e.isos.head?.map (·.mass) = some e.mostMass) :
    m0 e one = (e.mostMass : ℚ) / one * c0 e one := by
  unfold m0 c0
  rw [elemPoly_of_dom h one true, elemPoly_of_dom h one false]
  have hne := h.ne
  cases hl : e.isos with
  | nil => exact absurd hl hne
  | cons i0 rest =>
    rw [hl] at hmm
    simp only [List.head?_cons, Option.map_some, Option.some.injEq] at hmm
    simp only [List.map_cons, List.getD_cons_zero, if_true, Bool.false_eq_true, if_false, hmm]
    ring

/-- (N4) For a composition inside the domain (`Dom`, pairwise distinct symbols, the recorded
    monoisotopic mass is the lightest isotope's, non-zero lightest mass and abundance) the constants
    built by `populate` exist, and from a probability vector `prob = κ·aggProb` (`base ≠ 0`) the
    centre-mass vector is `aggMass j / aggProb j` for every `j ≤ order ≤ maxVariants`. -/
theorem centerMassVector_spec (K : BrainConsts) (c : List (Elem × Nat)) (order : Nat) (base : Rat)
    (prob : DVec)
    (hdom : ∀ x ∈ c, Dom x.1) (hc0 : ∀ x ∈ c, c0 x.1 K.one ≠ 0) (hm0 : ∀ x ∈ c, m0 x.1 K.one ≠ 0)
    (hmm : ∀ x ∈ c, x.1.isos.head?.map (·.mass) = some x.1.mostMass)
    (hnodup : (c.map fun x => x.1.sym).Nodup)
    (hV : (order : Int) ≤ maxVariants (toB c)) (hbase : base ≠ 0)
    (hplen : prob.length = order + 1)
    (hprob : ∀ i, i ≤ order → prob.getD i 0 =
      base / (c.map fun x => c0 x.1 K.one ^ x.2).prod * (Spec.aggProb c K.one order).getD i 0) :
    ∃ consts cm, populate K (toB c) (order : Int) = .ok consts ∧
      centerMassVector consts (toB c) order (maxVariants (toB c)) base K.one prob = .ok cm ∧
      cm.length = order + 1 ∧
      ∀ i, i ≤ order → cm.getD i 0 =
        (Spec.aggMass c K.one order).getD i 0 / (Spec.aggProb c K.one order).getD i 0 := by
  have hsym : ∀ x ∈ c, ∀ y ∈ c, x.1.sym = y.1.sym → x.1 = y.1 := by
    intro x hx y hy h
    rw [List.inj_on_of_nodup_map hnodup hx hy h]
  obtain ⟨consts, hpop, hgood⟩ := populate_good_mass K (toB c) (order : Int) (Int.natCast_nonneg _)
    (by intro x hx; obtain ⟨y, hy, rfl⟩ := mem_toB hx; exact hdom y hy)
    (by
      intro x hx x' hx' h
      obtain ⟨y, hy, rfl⟩ := mem_toB hx
      obtain ⟨y', hy', rfl⟩ := mem_toB hx'
      exact hsym y hy y' hy' h)
    (by
      intro x hx wm
      obtain ⟨y, hy, rfl⟩ := mem_toB hx
      exact isotopicCoefficients_of_dom (hdom y hy) K.one wm)
    (by
      intro x hx wm
      obtain ⟨y, hy, rfl⟩ := mem_toB hx
      exact elemPoly_length_of_dom (hdom y hy) K.one wm)
  obtain ⟨cm, hcm⟩ := centerMassVector_of_good' consts c K.one order (maxVariants (toB c)) base prob
    hV hc0 hm0 (fun x hx => m0_eq_of_dom (hdom x hx) K.one (hmm x hx)) hnodup
    (by
      intro x hx
      have hx' : (x.1, (x.2 : Int)) ∈ toB c := List.mem_map.mpr ⟨x, hx, rfl⟩
      obtain ⟨phi, hget, hg, hgm⟩ := hgood _ hx'
      exact ⟨phi, hget, hg.mono (by simp), ⟨hgm.esp, hgm.inv, by have := hgm.len; simp at this; omega⟩⟩)
    hbase hplen hprob
  exact ⟨consts, cm, hpop, hcm⟩

end Chem
