import ChemProofs.Lemmas.BrainLists
import ChemProofs.Lemmas.BrainSpecPS
import Mathlib.RingTheory.PowerSeries.Derivative
import Mathlib.RingTheory.PowerSeries.Inverse
/-
Newton's identities as a statement about formal power series over ℚ.

For a series `F` the series `P` is its *power-sum series* when `F·P + X·F' = 0`
(i.e. `P = −X·F'/F`, minus the logarithmic derivative).  Coefficient-wise, for
`F = Σ (−1)^i e_i x^i` this is exactly the recurrence of `nextPowerSum` (solved for `p_k`) and of
`nextEsp` (solved for `e_k`).
-/
namespace Chem
open PowerSeries

/-- `P` is the power-sum series of `F` -/
def IsPS (F P : ℚ⟦X⟧) : Prop := F * P + X * derivative ℚ F = 0

theorem IsPS.one : IsPS 1 0 := by
  unfold IsPS
  rw [mul_zero, zero_add, derivative_one, mul_zero]

/-- (N2) additivity: the power-sum series of a product is the sum of the power-sum series -/
theorem IsPS.mul {F G P Q : ℚ⟦X⟧} (hF : IsPS F P) (hG : IsPS G Q) : IsPS (F * G) (P + Q) := by
  unfold IsPS at *
  rw [Derivation.leibniz, smul_eq_mul, smul_eq_mul]
  linear_combination G * hF + F * hG

/-- (N2) the power-sum series of `F^n` is `n` times that of `F` -/
theorem IsPS.pow {F P : ℚ⟦X⟧} (hF : IsPS F P) : ∀ n : ℕ, IsPS (F ^ n) ((n : ℚ⟦X⟧) * P)
  | 0 => by rw [pow_zero, Nat.cast_zero, zero_mul]; exact IsPS.one
  | n + 1 => by
    have := (IsPS.pow hF n).mul hF
    rw [pow_succ, Nat.cast_succ, add_mul, one_mul]
    exact this

/-- every series with non-zero constant term has a power-sum series -/
theorem IsPS.exists_of_ne {F : ℚ⟦X⟧} (hF : constantCoeff F ≠ 0) :
    IsPS F (-(X * derivative ℚ F) * F⁻¹) := by
  unfold IsPS
  have h := PowerSeries.mul_inv_cancel F hF
  linear_combination (-(X * derivative ℚ F)) * h

/-- the power-sum series is determined by `F`, also modulo `X^N` -/
theorem IsPS.ps_unique {F P Q : ℚ⟦X⟧} {N : ℕ} (hF : constantCoeff F ≠ 0)
    (h1 : X ^ N ∣ F * P + X * derivative ℚ F) (h2 : IsPS F Q) : X ^ N ∣ P - Q := by
  unfold IsPS at h2
  have h := PowerSeries.inv_mul_cancel F hF
  have : P - Q = F⁻¹ * (F * P + X * derivative ℚ F) := by
    linear_combination (Q - P) * h - F⁻¹ * h2
  rw [this]
  exact Dvd.dvd.mul_left h1 _

/-- a series with constant term 1 is determined by its power-sum series, also modulo `X^N` -/
theorem IsPS.esp_unique {F G P P' : ℚ⟦X⟧} {N : ℕ} (hF : constantCoeff F = 1)
    (hG : constantCoeff G = 1)
    (h1 : X ^ N ∣ F * P + X * derivative ℚ F) (h2 : IsPS G P') (h3 : X ^ N ∣ P - P') :
    X ^ N ∣ F - G := by
  unfold IsPS at h2
  have hG0 : constantCoeff G ≠ 0 := by rw [hG]; exact one_ne_zero
  have hGi := PowerSeries.mul_inv_cancel G hG0
  -- derivative of the inverse
  have hd : G * derivative ℚ G⁻¹ + G⁻¹ * derivative ℚ G = 0 := by
    have := congrArg (derivative ℚ) hGi
    rw [Derivation.leibniz, smul_eq_mul, smul_eq_mul, derivative_one] at this
    exact this
  have hdi : derivative ℚ G⁻¹ = -(G⁻¹ * G⁻¹ * derivative ℚ G) := by
    linear_combination G⁻¹ * hd - (derivative ℚ G⁻¹) * hGi
  -- H = F / G has X·H' ≡ 0
  have hH : X * derivative ℚ (F * G⁻¹) =
      G⁻¹ * (F * P + X * derivative ℚ F) - G⁻¹ * F * (P - P') := by
    rw [Derivation.leibniz, smul_eq_mul, smul_eq_mul, hdi]
    linear_combination (-(F * G⁻¹ * G⁻¹)) * h2 + (F * G⁻¹ * P') * hGi
  have hdvd : X ^ N ∣ X * derivative ℚ (F * G⁻¹) := by
    rw [hH]
    exact dvd_sub (Dvd.dvd.mul_left h1 _) (Dvd.dvd.mul_left h3 _)
  have hH1 : X ^ N ∣ F * G⁻¹ - 1 := by
    rw [X_pow_dvd_iff] at hdvd ⊢
    intro m hm
    cases m with
    | zero =>
      rw [map_sub, coeff_zero_eq_constantCoeff_apply, coeff_zero_eq_constantCoeff_apply, map_mul,
        constantCoeff_inv, hF, hG, map_one]
      norm_num
    | succ k =>
      have := hdvd (k + 1) hm
      rw [coeff_succ_X_mul, coeff_derivative] at this
      have hk : ((k : ℚ) + 1) ≠ 0 := by positivity
      rw [map_sub, coeff_one, if_neg (Nat.succ_ne_zero k), sub_zero]
      exact (mul_eq_zero.mp this).resolve_right hk
  have : F - G = G * (F * G⁻¹ - 1) := by linear_combination (-F) * hGi
  rw [this]
  exact Dvd.dvd.mul_left hH1 _

/-! ### from the list recurrences to power series -/

theorem altSign_succ (i : Nat) : altSign (i + 1) = -altSign i := by
  unfold altSign
  rcases Nat.mod_two_eq_zero_or_one i with h | h
  · have : (i + 1) % 2 = 1 := by omega
    simp [h, this]
  · have : (i + 1) % 2 = 0 := by omega
    simp [h, this]

theorem altSign_eq_pow (i : Nat) : altSign i = (-1 : ℚ) ^ i := by
  induction i with
  | zero => simp [altSign]
  | succ n ih => rw [altSign_succ, ih, pow_succ]; ring

theorem altSign_mul_self (i : Nat) : altSign i * altSign i = 1 := by
  rw [altSign_eq_pow, ← mul_pow]; simp

theorem list_range_sum (g : ℕ → ℚ) (n : ℕ) :
    ((List.range n).map g).sum = ∑ j ∈ Finset.range n, g j := by
  induction n with
  | zero => simp
  | succ n ih =>
    rw [List.range_succ, List.map_append, List.sum_append, ih, Finset.sum_range_succ]; simp

theorem coeff_fE (esp : List Rat) (i : Nat) : coeff i (fE esp) = (-1 : ℚ) ^ i * esp.getD i 0 :=
  coeff_mk _ _

theorem constantCoeff_fE (esp : List Rat) : constantCoeff (fE esp) = esp.getD 0 0 := by
  rw [← coeff_zero_eq_constantCoeff_apply, coeff_fE, pow_zero, one_mul]

/-- coefficient `k+1` of a product, with the two end terms split off -/
theorem coeff_succ_mul_split (A B : ℚ⟦X⟧) (k : ℕ) :
    coeff (k + 1) (A * B) =
      ∑ j ∈ Finset.range k, coeff (j + 1) A * coeff (k - j) B
        + coeff 0 A * coeff (k + 1) B + coeff (k + 1) A * coeff 0 B := by
  rw [coeff_mul, Finset.Nat.sum_antidiagonal_eq_sum_range_succ (fun i j => coeff i A * coeff j B),
    Finset.sum_range_succ, Finset.sum_range_succ']
  simp only [Nat.sub_zero, Nat.sub_self, Nat.add_sub_add_right]

theorem nextPowerSum_succ (esp ps : DVec) (k : ℕ) :
    nextPowerSum esp ps (k + 1) =
      -(∑ j ∈ Finset.range k, coeff (j + 1) (fE esp) * coeff (k - j) (toPS ps))
        - coeff (k + 1) (fE esp) * ((k : ℚ) + 1) := by
  unfold nextPowerSum
  rw [if_neg (by simp)]
  simp only [Nat.add_sub_cancel, Nat.add_sub_add_right]
  rw [list_range_sum, ← Finset.sum_neg_distrib]
  simp only [coeff_fE, coeff_toPS, altSign_eq_pow]
  push_cast
  rw [sub_eq_add_neg]
  congr 1
  · apply Finset.sum_congr rfl
    intro j _
    rw [pow_succ]; ring
  · rw [pow_succ]; ring

/-- (N1, power sums) a list produced by the first recurrence is, coefficient by coefficient,
    a power-sum series of `fE esp` modulo `X^length` -/
theorem PsInv.dvd {esp ps : DVec} (h : PsInv esp ps) (h0 : esp.getD 0 0 = 1) :
    X ^ ps.length ∣ fE esp * toPS ps + X * derivative ℚ (fE esp) := by
  rw [X_pow_dvd_iff]
  intro m hm
  have hp0 : coeff 0 (toPS ps) = 0 := by
    rw [coeff_toPS, h 0 (by omega)]; rfl
  cases m with
  | zero =>
    rw [map_add, coeff_zero_X_mul, add_zero, coeff_mul]
    simp [hp0]
  | succ k =>
    rw [map_add, coeff_succ_X_mul, coeff_derivative, coeff_succ_mul_split, hp0]
    have : coeff (k + 1) (toPS ps) = nextPowerSum esp ps (k + 1) := by
      rw [coeff_toPS]; exact h _ hm
    rw [this, nextPowerSum_succ, coeff_zero_eq_constantCoeff_apply, constantCoeff_fE, h0]
    ring

theorem neg_one_pow_mul_of_le {j k : ℕ} (h : j ≤ k) :
    (-1 : ℚ) ^ (k + 1) * (-1) ^ j = -(-1) ^ (k - j) := by
  obtain ⟨m, rfl⟩ := Nat.exists_eq_add_of_le h
  rw [Nat.add_sub_cancel_left]
  have : (-1 : ℚ) ^ j * (-1) ^ j = 1 := by rw [← mul_pow]; simp
  rw [pow_succ, pow_add]
  linear_combination (-(-1 : ℚ) ^ m) * this

theorem nextEsp_succ (esp ps : DVec) (k : ℕ) (order : Int)
    (hord : ¬(0 ≤ order ∧ order < ((k + 1 : ℕ) : Int))) :
    (-1 : ℚ) ^ (k + 1) * nextEsp esp ps (k + 1) order * ((k : ℚ) + 1) =
      -(∑ j ∈ Finset.range (k + 1), coeff (j + 1) (toPS ps) * coeff (k - j) (fE esp)) := by
  unfold nextEsp
  rw [if_neg (by simp), if_neg hord]
  simp only [Nat.add_sub_add_right]
  rw [list_range_sum]
  push_cast
  have hk : ((k : ℚ) + 1) ≠ 0 := by positivity
  rw [mul_assoc, div_mul_cancel₀ _ hk, Finset.mul_sum, ← Finset.sum_neg_distrib]
  apply Finset.sum_congr rfl
  intro j hj
  have hjk : j ≤ k := by have := Finset.mem_range.mp hj; omega
  simp only [coeff_fE, coeff_toPS, altSign_eq_pow]
  linear_combination (ps.getD (j + 1) 0 * esp.getD (k - j) 0) * neg_one_pow_mul_of_le hjk

/-- (N1, elementary symmetric polynomials) a list produced by the second recurrence (with the
    truncation `order` not reached) has the given list as power sums modulo `X^length` -/
theorem EspInv.dvd {ps esp : DVec} {order : Int} (h : EspInv ps esp order)
    (hord : order < 0 ∨ (esp.length : Int) ≤ order + 1) (h0 : ps.getD 0 0 = 0) :
    X ^ esp.length ∣ fE esp * toPS ps + X * derivative ℚ (fE esp) := by
  rw [X_pow_dvd_iff]
  intro m hm
  have hp0 : coeff 0 (toPS ps) = 0 := by rw [coeff_toPS, h0]
  cases m with
  | zero =>
    rw [map_add, coeff_zero_X_mul, add_zero, coeff_mul]
    simp [hp0]
  | succ k =>
    have hno : ¬(0 ≤ order ∧ order < ((k + 1 : ℕ) : Int)) := by omega
    have hk := nextEsp_succ esp ps k order hno
    rw [← h (k + 1) hm] at hk
    rw [map_add, coeff_succ_X_mul, coeff_derivative, mul_comm (fE esp), coeff_mul,
      Finset.Nat.sum_antidiagonal_eq_sum_range_succ (fun i j => coeff i (toPS ps) * coeff j (fE esp)),
      Finset.sum_range_succ', hp0, coeff_fE esp (k + 1)]
    simp only [Nat.add_sub_add_right, Nat.sub_zero]
    linear_combination hk

theorem EspInv.head {ps esp : DVec} {order : Int} (h : EspInv ps esp order) (hne : esp ≠ []) :
    esp.getD 0 0 = 1 := by
  rw [h 0 (List.length_pos_iff.mpr hne)]
  rfl

end Chem
