import ChemProofs.Lemmas.BrainLists
/-
`populate` (BRAIN `populate_constants`) succeeds on a composition of `Dom` elements and every
element of the composition ends up with constants satisfying `GoodPhi`.
-/
namespace Chem

/-! ### `vietes` on a reversed coefficient list -/

theorem getD_reverse_sub (p : List Rat) (i : Nat) (h : i < p.length) :
    p.reverse.getD (p.length - i - 1) 0 = p.getD i 0 := by
  simp only [List.getD_eq_getElem?_getD]
  rw [List.getElem?_reverse (by omega)]
  congr 2
  omega

theorem vietes_reverse (p : List Rat) (hp : p ≠ []) :
    ∃ esp, vietes p.reverse = .ok esp ∧ esp.length = p.length ∧
      ∀ i, esp.getD i 0 = altSign i * p.getD i 0 / p.getD 0 0 := by
  cases p with
  | nil => exact absurd rfl hp
  | cons a t =>
    refine ⟨(List.range (a :: t).length).map fun i =>
      altSign i * (a :: t).reverse.getD ((a :: t).length - i - 1) 0 / a, ?_, ?_, ?_⟩
    · unfold vietes
      rw [List.getLast?_reverse]
      simp only [List.head?_cons, List.length_reverse]
    · simp only [List.length_map, List.length_range]
    · intro i
      by_cases h : i < (a :: t).length
      · rw [List.getD_eq_getElem?_getD, List.getElem?_map, List.getElem?_range h]
        simp only [Option.map_some, Option.getD_some]
        rw [getD_reverse_sub _ _ h]
        rfl
      · rw [List.getD_eq_getElem?_getD, List.getElem?_eq_none (by simpa using h)]
        have h0 : (a :: t).getD i 0 = 0 := by
          rw [List.getD_eq_getElem?_getD, List.getElem?_eq_none (by omega)]; rfl
        rw [h0]
        simp only [Option.getD_none, mul_zero, zero_div]

/-! ### `newton` when the power sums are the shorter list -/

theorem newton_of_lt (p : PolyParams) (o : Int) (h : p.ps.length < p.esp.length) :
    p.newton o = { p with ps := updatePowerSum p.esp (p.esp.length - p.ps.length) p.ps } := by
  unfold PolyParams.newton
  rw [if_pos h]

/-! ### `PolyParams.fromElement` -/

theorem PolyParams.fromElement_ok (e : Elem) (wm : Bool) (one : Rat) (hne : e.isos ≠ [])
    (hiso : isotopicCoefficients e wm one = .ok (Spec.elemPoly e one wm).reverse)
    (hlen : (Spec.elemPoly e one wm).length = e.isos.length) :
    ∃ pp, PolyParams.fromElement e wm one = .ok pp ∧ pp.esp.length = e.isos.length ∧
      (∀ i, pp.esp.getD i 0 =
        altSign i * (Spec.elemPoly e one wm).getD i 0 / (Spec.elemPoly e one wm).getD 0 0) ∧
      PsInv pp.esp pp.ps ∧ pp.ps.length = e.isos.length := by
  have hpos : 0 < e.isos.length := List.length_pos_iff.mpr hne
  have hp : Spec.elemPoly e one wm ≠ [] := by
    intro h
    rw [h] at hlen
    simp only [List.length_nil] at hlen
    omega
  obtain ⟨esp, hv, hl, hg⟩ := vietes_reverse _ hp
  have hel : esp.length = e.isos.length := hl.trans hlen
  have hlt : (PolyParams.mk esp []).ps.length < (PolyParams.mk esp []).esp.length := by
    show ([] : DVec).length < esp.length
    simp only [List.length_nil]; omega
  refine ⟨PolyParams.newton ⟨esp, []⟩ (((Spec.elemPoly e one wm).reverse.length : Int) - 1),
    ?_, ?_, ?_, ?_, ?_⟩
  · unfold PolyParams.fromElement
    rw [hiso]
    simp only [Res.bind]
    rw [hv]
  · rw [newton_of_lt _ _ hlt]; exact hel
  · rw [newton_of_lt _ _ hlt]; exact hg
  · rw [newton_of_lt _ _ hlt]
    exact updatePowerSum_inv esp _ [] (PsInv_nil esp)
  · rw [newton_of_lt _ _ hlt]
    show (updatePowerSum esp (esp.length - ([] : DVec).length) []).length = e.isos.length
    rw [updatePowerSum_length esp _ [] (Nat.zero_le _) (Nat.le_refl _)]
    exact hel

/-! ### `Phi.fromElement` -/

/-- what `Phi.fromElement` produces for a `Dom` element (before `update`) -/
structure BasePhi (e : Elem) (one : Rat) (phi : Phi) : Prop where
  order : phi.order = (e.isos.length : Int) - 1
  espLen : phi.elem.esp.length = e.isos.length
  esp : ∀ i, phi.elem.esp.getD i 0 =
    altSign i * (Spec.elemPoly e one false).getD i 0 / c0 e one
  inv : PsInv phi.elem.esp phi.elem.ps
  psLen : phi.elem.ps.length = e.isos.length

theorem Phi.fromElement_ok (e : Elem) (one : Rat) (hdom : Dom e)
    (hiso : ∀ wm, isotopicCoefficients e wm one = .ok (Spec.elemPoly e one wm).reverse)
    (hlen : ∀ wm, (Spec.elemPoly e one wm).length = e.isos.length) :
    ∃ phi, Phi.fromElement e one = .ok phi ∧ BasePhi e one phi := by
  obtain ⟨ec, hec, h1, h2, h3, h4⟩ :=
    PolyParams.fromElement_ok e false one hdom.ne (hiso false) (hlen false)
  obtain ⟨mc, hmc, -⟩ :=
    PolyParams.fromElement_ok e true one hdom.ne (hiso true) (hlen true)
  refine ⟨{ order := e.maxShift, key := e.sym, elem := ec, mass := mc }, ?_, ?_⟩
  · unfold Phi.fromElement
    rw [hec, hmc]
    rfl
  · exact ⟨hdom.maxShift, h1, h2, h3, h4⟩

/-! ### `Phi.update` -/

theorem Phi.update_good (e : Elem) (one : Rat) (phi : Phi) (order : Int) (horder : 0 ≤ order)
    (hne : e.isos ≠ []) (hb : BasePhi e one phi) :
    GoodPhi e one (order.toNat + 1) (phi.update order) := by
  have hpos : 0 < e.isos.length := List.length_pos_iff.mpr hne
  unfold Phi.update
  split
  · rename_i hlt
    refine ⟨hb.esp, hb.inv, ?_⟩
    rw [hb.psLen]
    rw [hb.order] at hlt
    omega
  · rename_i hlt
    rw [hb.order] at hlt
    have hpadlen : (phi.elem.esp ++
        List.replicate (order + 1 - phi.order).toNat (0 : Rat)).length = order.toNat + 2 := by
      rw [List.length_append, List.length_replicate, hb.espLen, hb.order]
      omega
    have hlt' : (PolyParams.mk (phi.elem.esp ++
        List.replicate (order + 1 - phi.order).toNat (0 : Rat)) phi.elem.ps).ps.length <
        (PolyParams.mk (phi.elem.esp ++
        List.replicate (order + 1 - phi.order).toNat (0 : Rat)) phi.elem.ps).esp.length := by
      show phi.elem.ps.length < _
      rw [hpadlen, hb.psLen]
      omega
    have hcongr : ∀ i, phi.elem.esp.getD i 0 = (phi.elem.esp ++
        List.replicate (order + 1 - phi.order).toNat (0 : Rat)).getD i 0 :=
      fun i => (getD_append_replicate_zero _ _ i).symm
    dsimp only
    rw [newton_of_lt _ _ hlt']
    refine ⟨?_, ?_, ?_⟩
    · intro i
      show (phi.elem.esp ++ List.replicate (order + 1 - phi.order).toNat (0 : Rat)).getD i 0 = _
      rw [getD_append_replicate_zero]
      exact hb.esp i
    · exact updatePowerSum_inv _ _ _ (PsInv_congr_esp hcongr hb.inv)
    · show order.toNat + 1 + 1 ≤ (updatePowerSum _ _ _).length
      rw [updatePowerSum_length]
      · show _ ≤ (phi.elem.esp ++
          List.replicate (order + 1 - phi.order).toNat (0 : Rat)).length
        rw [hpadlen]
      · exact Nat.le_of_lt hlt'
      · exact Nat.le_refl _

/-! ### `IsoConstants.get` / `add` / `update` -/

theorem IsoConstants.get_mem {cs : IsoConstants} {s : Sym} {phi : Phi}
    (h : cs.get s = some phi) : (s, phi) ∈ cs.consts := by
  unfold IsoConstants.get at h
  cases hf : cs.consts.find? (fun x => x.1 == s) with
  | none => rw [hf] at h; exact absurd h (by simp)
  | some x =>
    rw [hf] at h
    simp only [Option.map_some, Option.some.injEq] at h
    have hm := List.mem_of_find?_eq_some hf
    have hp := List.find?_some hf
    have hs : x.1 = s := by simpa using hp
    have : x = (s, phi) := by
      cases x; simp only at hs h; rw [hs, h]
    rw [← this]; exact hm

theorem IsoConstants.get_update (cs : IsoConstants) (s : Sym) :
    cs.update.get s = (cs.get s).map (·.update cs.order) := by
  unfold IsoConstants.get IsoConstants.update
  simp only [List.find?_map, Option.map_map]
  rfl

/-- the fold invariant of `populate` -/
structure PopInv (K : BrainConsts) (c : BComp) (order : Int) (cs : IsoConstants) : Prop where
  order : cs.order = order
  src : ∀ s phi, (s, phi) ∈ cs.consts →
    ∃ y ∈ c, y.1.sym = s ∧ Phi.fromElement y.1 K.one = .ok phi

theorem IsoConstants.add_ok (K : BrainConsts) (c : BComp) (order : Int) (cs : IsoConstants)
    (x : Elem × Int) (hx : x ∈ c) (hfe : ∃ phi, Phi.fromElement x.1 K.one = .ok phi)
    (hinv : PopInv K c order cs) :
    ∃ cs', cs.add x.1 K.one = .ok cs' ∧ PopInv K c order cs' ∧
      (∀ s, (cs.get s).isSome → (cs'.get s).isSome) ∧ (cs'.get x.1.sym).isSome := by
  unfold IsoConstants.add
  cases hg : cs.get x.1.sym with
  | some phi0 =>
    refine ⟨cs, rfl, hinv, fun _ h => h, ?_⟩
    rw [hg]; rfl
  | none =>
    obtain ⟨phi, hphi⟩ := hfe
    refine ⟨{ cs with consts := cs.consts ++ [(x.1.sym, phi)] }, ?_, ⟨hinv.order, ?_⟩, ?_, ?_⟩
    · simp only [hphi, Res.bind]
    · intro s p hm
      rcases List.mem_append.mp hm with hm | hm
      · exact hinv.src s p hm
      · have : (s, p) = (x.1.sym, phi) := by simpa using hm
        injection this with h1 h2
        exact ⟨x, hx, h1.symm, by rw [h2]; exact hphi⟩
    · intro s hs
      unfold IsoConstants.get at hs ⊢
      simp only [List.find?_append]
      cases hf : cs.consts.find? (fun x => x.1 == s) with
      | none => rw [hf] at hs; exact absurd hs (by simp)
      | some y => simp
    · unfold IsoConstants.get at hg ⊢
      simp only [List.find?_append]
      cases hf : cs.consts.find? (fun y => y.1 == x.1.sym) with
      | none => simp
      | some y => simp

theorem populate_fold (K : BrainConsts) (c : BComp) (order : Int)
    (hfe : ∀ x ∈ c, ∃ phi, Phi.fromElement x.1 K.one = .ok phi) :
    ∀ (l : List (Elem × Int)), (∀ x ∈ l, x ∈ c) → ∀ cs, PopInv K c order cs →
      ∃ cs', l.foldl (fun (acc : Res IsoConstants) x => acc.bind fun cs => cs.add x.1 K.one)
          (Res.ok cs) = .ok cs' ∧ PopInv K c order cs' ∧
        (∀ s, (cs.get s).isSome → (cs'.get s).isSome) ∧ ∀ x ∈ l, (cs'.get x.1.sym).isSome := by
  intro l
  induction l with
  | nil =>
    intro _ cs hinv
    exact ⟨cs, rfl, hinv, fun _ h => h, fun x hx => absurd hx (by simp)⟩
  | cons a t ih =>
    intro hl cs hinv
    have ha : a ∈ c := hl a (List.mem_cons_self)
    obtain ⟨cs1, h1, hinv1, hmono1, hget1⟩ := IsoConstants.add_ok K c order cs a ha (hfe a ha) hinv
    obtain ⟨cs2, h2, hinv2, hmono2, hget2⟩ :=
      ih (fun x hx => hl x (List.mem_cons_of_mem _ hx)) cs1 hinv1
    refine ⟨cs2, ?_, hinv2, fun s h => hmono2 s (hmono1 s h), ?_⟩
    · rw [List.foldl_cons]
      simp only [Res.bind]
      rw [h1]
      exact h2
    · intro x hx
      rcases List.mem_cons.mp hx with rfl | hx
      · exact hmono2 _ hget1
      · exact hget2 x hx

/-! ### the main statement -/

theorem populate_good (K : BrainConsts) (c : BComp) (order : Int) (horder : 0 ≤ order)
    (hdom : ∀ x ∈ c, Dom x.1)
    (hsym : ∀ x ∈ c, ∀ y ∈ c, x.1.sym = y.1.sym → x.1 = y.1)
    (hiso : ∀ x ∈ c, ∀ wm, isotopicCoefficients x.1 wm K.one = .ok (Spec.elemPoly x.1 K.one wm).reverse)
    (hlen : ∀ x ∈ c, ∀ wm, (Spec.elemPoly x.1 K.one wm).length = x.1.isos.length) :
    ∃ consts, populate K c order = .ok consts ∧
      ∀ x ∈ c, ∃ phi, consts.get x.1.sym = some phi ∧ GoodPhi x.1 K.one (order.toNat + 1) phi := by
  have hfe : ∀ x ∈ c, ∃ phi, Phi.fromElement x.1 K.one = .ok phi := by
    intro x hx
    obtain ⟨phi, h, -⟩ := Phi.fromElement_ok x.1 K.one (hdom x hx) (hiso x hx) (hlen x hx)
    exact ⟨phi, h⟩
  have hinv0 : PopInv K c order ⟨[], order⟩ := ⟨rfl, fun s p hm => absurd hm (by simp)⟩
  obtain ⟨cs, hfold, hinv, -, hget⟩ := populate_fold K c order hfe c (fun _ h => h) _ hinv0
  refine ⟨cs.update, ?_, ?_⟩
  · unfold populate
    rw [hfold]
    rfl
  · intro x hx
    have hsome := hget x hx
    cases hg : cs.get x.1.sym with
    | none => rw [hg] at hsome; exact absurd hsome (by simp)
    | some phi =>
      refine ⟨phi.update cs.order, ?_, ?_⟩
      · rw [IsoConstants.get_update, hg]; rfl
      · obtain ⟨y, hy, hys, hyphi⟩ := hinv.src _ _ (IsoConstants.get_mem hg)
        have hyx : y.1 = x.1 := hsym y hy x hx hys
        rw [hyx] at hyphi
        obtain ⟨phi', hphi', hb⟩ :=
          Phi.fromElement_ok x.1 K.one (hdom x hx) (hiso x hx) (hlen x hx)
        rw [hphi'] at hyphi
        injection hyphi with hyphi
        rw [hinv.order, ← hyphi]
        exact Phi.update_good x.1 K.one phi' order horder (hdom x hx).ne hb

/-! ### the mass analogue -/

/-- the mass constants of one element: normalised sign-alternated coefficient list of the mass
    polynomial (possibly zero-padded), Newton-consistent power sums of length ≥ order + 1 -/
structure GoodPhiM (e : Elem) (one : Rat) (order : Nat) (phi : Phi) : Prop where
  esp : ∀ i, phi.mass.esp.getD i 0 =
    altSign i * (Spec.elemPoly e one true).getD i 0 / (Spec.elemPoly e one true).getD 0 0
  inv : PsInv phi.mass.esp phi.mass.ps
  len : order + 1 ≤ phi.mass.ps.length

/-- what `Phi.fromElement` produces for the mass half of a `Dom` element (before `update`) -/
structure BasePhiM (e : Elem) (one : Rat) (phi : Phi) : Prop where
  order : phi.order = (e.isos.length : Int) - 1
  espLen : phi.mass.esp.length = e.isos.length
  esp : ∀ i, phi.mass.esp.getD i 0 =
    altSign i * (Spec.elemPoly e one true).getD i 0 / (Spec.elemPoly e one true).getD 0 0
  inv : PsInv phi.mass.esp phi.mass.ps
  psLen : phi.mass.ps.length = e.isos.length

theorem Phi.fromElement_ok_mass (e : Elem) (one : Rat) (hdom : Dom e)
    (hiso : ∀ wm, isotopicCoefficients e wm one = .ok (Spec.elemPoly e one wm).reverse)
    (hlen : ∀ wm, (Spec.elemPoly e one wm).length = e.isos.length) :
    ∃ phi, Phi.fromElement e one = .ok phi ∧ BasePhi e one phi ∧ BasePhiM e one phi := by
  obtain ⟨ec, hec, h1, h2, h3, h4⟩ :=
    PolyParams.fromElement_ok e false one hdom.ne (hiso false) (hlen false)
  obtain ⟨mc, hmc, m1, m2, m3, m4⟩ :=
    PolyParams.fromElement_ok e true one hdom.ne (hiso true) (hlen true)
  refine ⟨{ order := e.maxShift, key := e.sym, elem := ec, mass := mc }, ?_, ?_, ?_⟩
  · unfold Phi.fromElement
    rw [hec, hmc]
    rfl
  · exact ⟨hdom.maxShift, h1, h2, h3, h4⟩
  · exact ⟨hdom.maxShift, m1, m2, m3, m4⟩

theorem Phi.update_good_mass (e : Elem) (one : Rat) (phi : Phi) (order : Int) (horder : 0 ≤ order)
    (hne : e.isos ≠ []) (hb : BasePhiM e one phi) :
    GoodPhiM e one (order.toNat + 1) (phi.update order) := by
  have hpos : 0 < e.isos.length := List.length_pos_iff.mpr hne
  unfold Phi.update
  split
  · rename_i hlt
    refine ⟨hb.esp, hb.inv, ?_⟩
    rw [hb.psLen]
    rw [hb.order] at hlt
    omega
  · rename_i hlt
    rw [hb.order] at hlt
    have hpadlen : (phi.mass.esp ++
        List.replicate (order + 1 - phi.order).toNat (0 : Rat)).length = order.toNat + 2 := by
      rw [List.length_append, List.length_replicate, hb.espLen, hb.order]
      omega
    have hlt' : (PolyParams.mk (phi.mass.esp ++
        List.replicate (order + 1 - phi.order).toNat (0 : Rat)) phi.mass.ps).ps.length <
        (PolyParams.mk (phi.mass.esp ++
        List.replicate (order + 1 - phi.order).toNat (0 : Rat)) phi.mass.ps).esp.length := by
      show phi.mass.ps.length < _
      rw [hpadlen, hb.psLen]
      omega
    have hcongr : ∀ i, phi.mass.esp.getD i 0 = (phi.mass.esp ++
        List.replicate (order + 1 - phi.order).toNat (0 : Rat)).getD i 0 :=
      fun i => (getD_append_replicate_zero _ _ i).symm
    dsimp only
    rw [newton_of_lt (PolyParams.mk (phi.mass.esp ++
        List.replicate (order + 1 - phi.order).toNat (0 : Rat)) phi.mass.ps) _ hlt']
    refine ⟨?_, ?_, ?_⟩
    · intro i
      show (phi.mass.esp ++ List.replicate (order + 1 - phi.order).toNat (0 : Rat)).getD i 0 = _
      rw [getD_append_replicate_zero]
      exact hb.esp i
    · exact updatePowerSum_inv _ _ _ (PsInv_congr_esp hcongr hb.inv)
    · show order.toNat + 1 + 1 ≤ (updatePowerSum _ _ _).length
      rw [updatePowerSum_length]
      · show _ ≤ (phi.mass.esp ++
          List.replicate (order + 1 - phi.order).toNat (0 : Rat)).length
        rw [hpadlen]
      · exact Nat.le_of_lt hlt'
      · exact Nat.le_refl _

theorem populate_good_mass (K : BrainConsts) (c : BComp) (order : Int) (horder : 0 ≤ order)
    (hdom : ∀ x ∈ c, Dom x.1)
    (hsym : ∀ x ∈ c, ∀ y ∈ c, x.1.sym = y.1.sym → x.1 = y.1)
    (hiso : ∀ x ∈ c, ∀ wm, isotopicCoefficients x.1 wm K.one = .ok (Spec.elemPoly x.1 K.one wm).reverse)
    (hlen : ∀ x ∈ c, ∀ wm, (Spec.elemPoly x.1 K.one wm).length = x.1.isos.length) :
    ∃ consts, populate K c order = .ok consts ∧
      ∀ x ∈ c, ∃ phi, consts.get x.1.sym = some phi ∧ GoodPhi x.1 K.one (order.toNat + 1) phi ∧
        GoodPhiM x.1 K.one (order.toNat + 1) phi := by
  have hfe : ∀ x ∈ c, ∃ phi, Phi.fromElement x.1 K.one = .ok phi := by
    intro x hx
    obtain ⟨phi, h, -⟩ := Phi.fromElement_ok x.1 K.one (hdom x hx) (hiso x hx) (hlen x hx)
    exact ⟨phi, h⟩
  have hinv0 : PopInv K c order ⟨[], order⟩ := ⟨rfl, fun s p hm => absurd hm (by simp)⟩
  obtain ⟨cs, hfold, hinv, -, hget⟩ := populate_fold K c order hfe c (fun _ h => h) _ hinv0
  refine ⟨cs.update, ?_, ?_⟩
  · unfold populate
    rw [hfold]
    rfl
  · intro x hx
    have hsome := hget x hx
    cases hg : cs.get x.1.sym with
    | none => rw [hg] at hsome; exact absurd hsome (by simp)
    | some phi =>
      refine ⟨phi.update cs.order, ?_, ?_⟩
      · rw [IsoConstants.get_update, hg]; rfl
      · obtain ⟨y, hy, hys, hyphi⟩ := hinv.src _ _ (IsoConstants.get_mem hg)
        have hyx : y.1 = x.1 := hsym y hy x hx hys
        rw [hyx] at hyphi
        obtain ⟨phi', hphi', hb, hbm⟩ :=
          Phi.fromElement_ok_mass x.1 K.one (hdom x hx) (hiso x hx) (hlen x hx)
        rw [hphi'] at hyphi
        injection hyphi with hyphi
        rw [hinv.order, ← hyphi]
        exact ⟨Phi.update_good x.1 K.one phi' order horder (hdom x hx).ne hb,
          Phi.update_good_mass x.1 K.one phi' order horder (hdom x hx).ne hbm⟩

end Chem
