import ChemProofs.Lemmas.BrainNewton
import ChemProofs.Lemmas.BrainIso
import ChemProofs.Lemmas.BrainPopulate

namespace Chem
open PowerSeries

/-! ## (N1) the two recurrences are mutually inverse -/

/-- the canonical power-sum series `−X·F'/F` -/
noncomputable def psOf (F : ℚ⟦X⟧) : ℚ⟦X⟧ := -(X * derivative ℚ F) * F⁻¹

theorem isPS_psOf {F : ℚ⟦X⟧} (h : constantCoeff F = 1) : IsPS F (psOf F) :=
  IsPS.exists_of_ne (by rw [h]; exact one_ne_zero)

theorem coeff_eq_of_dvd_sub {A B : ℚ⟦X⟧} {N k : ℕ} (h : X ^ N ∣ A - B) (hk : k < N) :
    coeff k A = coeff k B := by
  have := (X_pow_dvd_iff.mp h) k hk
  rw [map_sub] at this
  exact sub_eq_zero.mp this

/-- the entries of a Newton-consistent power-sum list are the coefficients of any power-sum
    series of `fE esp` -/
theorem PsInv.coeff_eq {esp ps : DVec} (h : PsInv esp ps) (h0 : esp.getD 0 0 = 1) {Q : ℚ⟦X⟧}
    (hQ : IsPS (fE esp) Q) {k : ℕ} (hk : k < ps.length) : ps.getD k 0 = coeff k Q := by
  have hF : constantCoeff (fE esp) ≠ 0 := by rw [constantCoeff_fE, h0]; exact one_ne_zero
  have := coeff_eq_of_dvd_sub (IsPS.ps_unique hF (h.dvd h0) hQ) hk
  rw [coeff_toPS] at this
  exact this

theorem updatePowerSum_nil_head {esp : DVec} {fuel : Nat} (hne : esp ≠ []) (hf : esp.length ≤ fuel) :
    (updatePowerSum esp fuel []).getD 0 0 = 0 := by
  have hlen := updatePowerSum_length esp fuel [] (Nat.zero_le _) (by simpa using hf)
  have hinv := updatePowerSum_inv esp fuel [] (PsInv_nil esp)
  have hpos : 0 < esp.length := List.length_pos_iff.mpr hne
  rw [hinv 0 (by omega)]
  rfl

theorem list_eq_of_getD {a b : List Rat} (hl : a.length = b.length)
    (h : ∀ i, i < a.length → a.getD i 0 = b.getD i 0) : a = b := by
  apply List.ext_getElem hl
  intro i h1 h2
  have := h i h1
  rwa [List.getD_eq_getElem _ _ h1, List.getD_eq_getElem _ _ h2] at this

/-- (N1) `updateEsp` recovers, entry by entry, the list `esp` (leading entry 1) from the power sums
    that `updatePowerSum` computed from it, provided the truncation order is not reached
    (a negative order never truncates). -/
theorem updateEsp_updatePowerSum (esp : DVec) (order : Int) (f1 f2 : Nat)
    (h0 : esp.getD 0 0 = 1) (hord : order < 0 ∨ (esp.length : Int) ≤ order + 1)
    (hf1 : esp.length ≤ f1) (hf2 : esp.length ≤ f2) :
    updateEsp (updatePowerSum esp f1 []) order f2 [] = esp := by
  have hne : esp ≠ [] := by
    intro h; rw [h] at h0; simp at h0
  have hpl := updatePowerSum_length esp f1 [] (Nat.zero_le _) (by simpa using hf1)
  have hpi := updatePowerSum_inv esp f1 [] (PsInv_nil esp)
  have hp0 := updatePowerSum_nil_head hne hf1
  generalize updatePowerSum esp f1 [] = ps at *
  have hel := updateEsp_length ps order f2 [] (Nat.zero_le _) (by simp; omega)
  have hei := updateEsp_inv ps order f2 [] (EspInv_nil ps order)
  generalize updateEsp ps order f2 [] = esp' at *
  have hne' : esp' ≠ [] := by
    intro h; rw [h] at hel; simp at hel
    exact hne (List.eq_nil_of_length_eq_zero (by omega))
  have hF : constantCoeff (fE esp) = 1 := by rw [constantCoeff_fE, h0]
  have hF' : constantCoeff (fE esp') = 1 := by rw [constantCoeff_fE, hei.head hne']
  have h1 := hei.dvd (by omega) hp0
  have h2 : X ^ esp'.length ∣ toPS ps - psOf (fE esp) := by
    rw [hel]
    exact IsPS.ps_unique (by rw [hF]; exact one_ne_zero) (hpi.dvd h0) (isPS_psOf hF)
  have h3 := IsPS.esp_unique hF' hF h1 (isPS_psOf hF) h2
  apply list_eq_of_getD (by omega)
  intro i hi
  have := coeff_eq_of_dvd_sub h3 hi
  rw [coeff_fE, coeff_fE] at this
  have hs : ((-1 : ℚ) ^ i) ≠ 0 := pow_ne_zero _ (by norm_num)
  exact mul_left_cancel₀ hs this

/-- (N1, converse) `updatePowerSum` recovers the power-sum list `ps` (leading entry 0) from the
    elementary symmetric polynomials that `updateEsp` computed from it. -/
theorem updatePowerSum_updateEsp (ps : DVec) (order : Int) (f1 f2 : Nat)
    (h0 : ps.getD 0 0 = 0) (hord : order < 0 ∨ (ps.length : Int) ≤ order + 1)
    (hf1 : ps.length ≤ f1) (hf2 : ps.length ≤ f2) :
    updatePowerSum (updateEsp ps order f2 []) f1 [] = ps := by
  have hel := updateEsp_length ps order f2 [] (Nat.zero_le _) (by simpa using hf2)
  have hei := updateEsp_inv ps order f2 [] (EspInv_nil ps order)
  generalize updateEsp ps order f2 [] = esp at *
  have hpl := updatePowerSum_length esp f1 [] (Nat.zero_le _) (by simp; omega)
  have hpi := updatePowerSum_inv esp f1 [] (PsInv_nil esp)
  generalize updatePowerSum esp f1 [] = ps' at *
  apply list_eq_of_getD (by omega)
  intro i hi
  have hne : esp ≠ [] := List.ne_nil_of_length_pos (by omega)
  have he0 := hei.head hne
  have hF : constantCoeff (fE esp) = 1 := by rw [constantCoeff_fE, he0]
  have h1 := hei.dvd (by omega) h0
  have h2 := IsPS.ps_unique (by rw [hF]; exact one_ne_zero) h1 (isPS_psOf hF)
  have := coeff_eq_of_dvd_sub h2 (by omega : i < esp.length)
  rw [coeff_toPS] at this
  rw [this]
  exact hpi.coeff_eq he0 (isPS_psOf hF) hi

/-! ## (N3) the probability vector -/

theorem sumRes_ok_aux {α} (g : α → Rat) : ∀ (l : List α) (a : Rat),
    (l.map fun x => Res.ok (g x)).foldl
      (fun acc x => acc.bind fun a => x.bind fun b => Res.ok (a + b)) (Res.ok a) =
      Res.ok (a + (l.map g).sum)
  | [], a => by simp
  | x :: l, a => by
    rw [List.map_cons, List.foldl_cons, List.map_cons, List.sum_cons, ← add_assoc]
    exact sumRes_ok_aux g l (a + g x)

theorem sumRes_ok {α} (g : α → Rat) (l : List α) :
    sumRes (l.map fun x => Res.ok (g x)) = .ok (l.map g).sum := by
  unfold sumRes
  rw [sumRes_ok_aux g l 0, zero_add]

theorem mapRes_ok {α β} (f : α → Res β) (g : α → β) : ∀ (l : List α),
    (∀ x ∈ l, f x = .ok (g x)) → mapRes f l = .ok (l.map g)
  | [], _ => rfl
  | x :: l, h => by
    unfold mapRes
    rw [h x (List.mem_cons_self), mapRes_ok f g l (fun y hy => h y (List.mem_cons_of_mem _ hy))]
    rfl

/-- the normalised element polynomial `Pₑ(x)/Pₑ(0)` as a power series -/
noncomputable def Fx (one : Rat) (e : Elem) : ℚ⟦X⟧ :=
  C (c0 e one)⁻¹ * toPS (Spec.elemPoly e one false)

theorem constantCoeff_Fx {one : Rat} {e : Elem} (h : c0 e one ≠ 0) : constantCoeff (Fx one e) = 1 := by
  rw [← coeff_zero_eq_constantCoeff_apply, Fx, coeff_C_mul, coeff_toPS]
  exact inv_mul_cancel₀ h

theorem fE_of_good {e : Elem} {one : Rat} {ord : Nat} {phi : Phi} (hg : GoodPhi e one ord phi) :
    fE phi.elem.esp = Fx one e := by
  ext i
  rw [coeff_fE, hg.esp i, Fx, coeff_C_mul, coeff_toPS, altSign_eq_pow]
  have : (-1 : ℚ) ^ i * (-1) ^ i = 1 := by rw [← mul_pow]; simp
  rw [div_eq_mul_inv]
  linear_combination ((Spec.elemPoly e one false).getD i 0 * (c0 e one)⁻¹) * this

/-- power-sum series of a product of powers -/
theorem isPS_list_prod {α} (F Ψ : α → ℚ⟦X⟧) (n : α → ℕ) : ∀ (c : List α),
    (∀ x ∈ c, IsPS (F x) (Ψ x)) →
    IsPS (c.map fun x => F x ^ n x).prod (c.map fun x => C (n x : ℚ) * Ψ x).sum
  | [], _ => by simpa using IsPS.one
  | x :: c, h => by
    rw [List.map_cons, List.prod_cons, List.map_cons, List.sum_cons]
    have h1 := (h x List.mem_cons_self).pow (n x)
    rw [← map_natCast (C : ℚ →+* ℚ⟦X⟧)] at h1
    exact h1.mul (isPS_list_prod F Ψ n c fun y hy => h y (List.mem_cons_of_mem _ hy))

theorem constantCoeff_list_prod_pow {α} (F : α → ℚ⟦X⟧) (n : α → ℕ) : ∀ (c : List α),
    (∀ x ∈ c, constantCoeff (F x) = 1) → constantCoeff (c.map fun x => F x ^ n x).prod = 1
  | [], _ => by simp
  | x :: c, h => by
    rw [List.map_cons, List.prod_cons, map_mul, map_pow, h x List.mem_cons_self, one_pow, one_mul]
    exact constantCoeff_list_prod_pow F n c fun y hy => h y (List.mem_cons_of_mem _ hy)

theorem Fx_list_prod (one : Rat) : ∀ (c : List (Elem × Nat)),
    (c.map fun x => Fx one x.1 ^ x.2).prod =
      C ((c.map fun x => c0 x.1 one ^ x.2).prod)⁻¹ *
        (c.map fun x => toPS (Spec.elemPoly x.1 one false) ^ x.2).prod
  | [] => by simp
  | x :: c => by
    simp only [List.map_cons, List.prod_cons]
    rw [Fx_list_prod one c, Fx, mul_pow, mul_inv, map_mul, ← map_pow, inv_pow]
    ring

/-- a natural-abundance composition with natural-number counts, as the generator sees it -/
def toB (c : List (Elem × Nat)) : BComp := c.map fun x => (x.1, (x.2 : Int))

theorem getD_zipIdx_map (l : List Rat) (f : Rat → Nat → Rat) (i : Nat) (hi : i < l.length) :
    (l.zipIdx.map fun (x, j) => f x j).getD i 0 = f (l.getD i 0) i := by
  rw [List.getD_eq_getElem _ _ (by simpa using hi), List.getD_eq_getElem _ _ hi]
  simp

/-- (N3, abstract form) if the constants of every element of the composition are good up to
    `order`, the probability vector is `κ · aggProb` with `κ = base / ∏ c₀ₑ^nₑ`. -/
theorem probabilityVector_of_good (consts : IsoConstants) (c : List (Elem × Nat)) (one : Rat)
    (order : Nat) (V : Int) (base : Rat) (hV : (order : Int) ≤ V)
    (hc0 : ∀ x ∈ c, c0 x.1 one ≠ 0)
    (hgood : ∀ x ∈ c, ∃ phi, consts.get x.1.sym = some phi ∧ GoodPhi x.1 one order phi) :
    ∃ v, probabilityVector consts (toB c) order V base = .ok v ∧ v.length = order + 1 ∧
      ∀ i, i ≤ order → v.getD i 0 =
        base / (c.map fun x => c0 x.1 one ^ x.2).prod * (Spec.aggProb c one order).getD i 0 := by
  have hFx1 : ∀ x ∈ c, constantCoeff (Fx one x.1) = 1 := fun x hx => constantCoeff_Fx (hc0 x hx)
  -- the power-sum series of the whole composition
  have hG := isPS_list_prod (fun x : Elem × Nat => Fx one x.1) (fun x => psOf (Fx one x.1))
    (fun x => x.2) c (fun x hx => isPS_psOf (hFx1 x hx))
  have hG1 := constantCoeff_list_prod_pow (fun x : Elem × Nat => Fx one x.1) (fun x => x.2) c hFx1
  generalize hPtot : (c.map fun x : Elem × Nat => C (x.2 : ℚ) * psOf (Fx one x.1)).sum = Ptot at hG
  generalize hGdef : (c.map fun x : Elem × Nat => Fx one x.1 ^ x.2).prod = G at hG hG1
  -- the stored power sums are the coefficients of the element's power-sum series
  have hnth : ∀ x ∈ c, ∀ k, k ≤ order →
      nthPs consts x.1.sym k false = .ok (coeff k (psOf (Fx one x.1))) := by
    intro x hx k hk
    obtain ⟨phi, hget, hg⟩ := hgood x hx
    have hlen := hg.len
    have hF := fE_of_good hg
    have h0 : phi.elem.esp.getD 0 0 = 1 := by rw [← constantCoeff_fE, hF]; exact hFx1 x hx
    unfold nthPs
    rw [hget]
    simp only [Bool.false_eq_true, if_false]
    rw [if_pos (by omega)]
    congr 1
    exact hg.inv.coeff_eq h0 (by rw [hF]; exact isPS_psOf (hFx1 x hx)) (by omega)
  have hphi : ∀ k, k ≤ order → phiFor consts (toB c) k = .ok (coeff k Ptot) := by
    intro k hk
    unfold phiFor toB
    rw [List.map_map,
      List.map_congr_left (g := fun x : Elem × Nat => Res.ok (coeff k (psOf (Fx one x.1)) * (x.2 : ℚ))),
      sumRes_ok, ← hPtot, map_list_sum, List.map_map]
    · congr 2
      apply List.map_congr_left
      intro x _
      simp only [Function.comp_apply, coeff_C_mul]
      ring
    · intro x hx
      simp only [Function.comp_apply]
      rw [hnth x hx k hk]
      simp [Res.bind]
  have hphis : mapRes (fun i => phiFor consts (toB c) (i + 1)) (List.range order) =
      .ok ((List.range order).map fun i => coeff (i + 1) Ptot) := by
    apply mapRes_ok
    intro i hi
    have := List.mem_range.mp hi
    exact hphi (i + 1) (by omega)
  generalize hPS : (0 : Rat) :: ((List.range order).map fun i => coeff (i + 1) Ptot) = PS
  have hPSlen : PS.length = order + 1 := by rw [← hPS]; simp
  have hPS0 : PS.getD 0 0 = 0 := by rw [← hPS]; rfl
  have hP0 : coeff 0 Ptot = 0 := by
    have := congrArg (coeff 0) hG
    rw [IsPS] at *
    rw [map_add, coeff_zero_X_mul, add_zero, coeff_mul] at this
    simpa [hG1] using this
  have hPSdvd : X ^ (order + 1) ∣ toPS PS - Ptot := by
    rw [X_pow_dvd_iff]
    intro m hm
    rw [map_sub, coeff_toPS, ← hPS]
    cases m with
    | zero => rw [hP0]; simp
    | succ k =>
      rw [List.getD_cons_succ, List.getD_eq_getElem _ _ (by simp; omega)]
      simp
  -- the recovered elementary symmetric polynomials
  have hel := espOfPs_length PS V
  have hei := espOfPs_inv PS V
  generalize hesp : espOfPs PS V = esp' at hel hei
  have hne' : esp' ≠ [] := List.ne_nil_of_length_pos (by omega)
  have hF' : constantCoeff (fE esp') = 1 := by rw [constantCoeff_fE, hei.head hne']
  have h1 := hei.dvd (by omega) hPS0
  rw [hel, hPSlen] at h1
  have h3 := IsPS.esp_unique hF' hG1 h1 hG hPSdvd
  refine ⟨esp'.zipIdx.map fun (x, i) => x * (base * altSign i), ?_, by simp; omega, ?_⟩
  · unfold probabilityVector
    rw [hphis]
    show Res.ok ((espOfPs (0 :: _) V).zipIdx.map _) = _
    rw [hPS, hesp]
  · intro i hi
    rw [getD_zipIdx_map esp' (fun x j => x * (base * altSign j)) i (by omega)]
    have hc := coeff_eq_of_dvd_sub h3 (by omega : i < order + 1)
    rw [coeff_fE, ← hGdef, Fx_list_prod, coeff_C_mul, ← coeff_toPS_aggProb c one order i hi,
      coeff_toPS] at hc
    rw [altSign_eq_pow, div_eq_mul_inv, mul_assoc base, ← hc]
    ring

theorem GoodPhi.mono {e : Elem} {one : Rat} {o o' : Nat} {phi : Phi} (h : GoodPhi e one o phi)
    (ho : o' ≤ o) : GoodPhi e one o' phi :=
  ⟨h.esp, h.inv, by have := h.len; omega⟩

theorem mem_toB {c : List (Elem × Nat)} {x : Elem × Int} (hx : x ∈ toB c) :
    ∃ y ∈ c, x = (y.1, (y.2 : Int)) := by
  unfold toB at hx
  obtain ⟨y, hy, rfl⟩ := List.mem_map.mp hx
  exact ⟨y, hy, rfl⟩

/-- (N3) For a composition whose elements satisfy the domain condition `Dom` (with non-zero
    lightest abundance, and equal symbols meaning equal elements), the constants built by
    `populate` exist and the probability vector computed from them is, coefficient by coefficient
    up to `order ≤ maxVariants`, `κ · aggProb` with `κ = base / ∏ c₀ₑ^nₑ`. -/
theorem probabilityVector_spec (K : BrainConsts) (c : List (Elem × Nat)) (order : Nat) (base : Rat)
    (hdom : ∀ x ∈ c, Dom x.1) (hc0 : ∀ x ∈ c, c0 x.1 K.one ≠ 0)
    (hsym : ∀ x ∈ c, ∀ y ∈ c, x.1.sym = y.1.sym → x.1 = y.1)
    (hV : (order : Int) ≤ maxVariants (toB c)) :
    ∃ consts v, populate K (toB c) (order : Int) = .ok consts ∧
      probabilityVector consts (toB c) order (maxVariants (toB c)) base = .ok v ∧
      v.length = order + 1 ∧
      ∀ i, i ≤ order → v.getD i 0 =
        base / (c.map fun x => c0 x.1 K.one ^ x.2).prod * (Spec.aggProb c K.one order).getD i 0 := by
  obtain ⟨consts, hpop, hgood⟩ := populate_good K (toB c) (order : Int) (Int.natCast_nonneg _)
    (by intro x hx; obtain ⟨y, hy, rfl⟩ := mem_toB hx; exact hdom y hy)
    (by
      intro x hx x' hx' h
      obtain ⟨y, hy, rfl⟩ := mem_toB hx
      obtain ⟨y', hy', rfl⟩ := mem_toB hx'
      exact hsym y hy y' hy' h)
    (by
      intro x hx wm
      obtain ⟨y, hy, rfl⟩ := mem_toB hx
      exact isotopicCoefficients_of_dom (hdom y hy) K.one wm)
    (by
      intro x hx wm
      obtain ⟨y, hy, rfl⟩ := mem_toB hx
      exact elemPoly_length_of_dom (hdom y hy) K.one wm)
  obtain ⟨v, hv⟩ := probabilityVector_of_good consts c K.one order (maxVariants (toB c)) base hV hc0
    (by
      intro x hx
      have hx' : (x.1, (x.2 : Int)) ∈ toB c := List.mem_map.mpr ⟨x, hx, rfl⟩
      obtain ⟨phi, hget, hg⟩ := hgood _ hx'
      exact ⟨phi, hget, hg.mono (by simp)⟩)
  exact ⟨consts, v, hpop, hv⟩

/-! ## (N2) additivity of power sums, list forms -/

/-- (N2, list form) if the alternating series of `ab` is the product of those of `a` and `b`
    (`fE l = Σ (−1)^i l_i x^i`), Newton-consistent power-sum lists add up entry by entry -/
theorem powerSum_add_of_mul {a b ab pa pb pab : DVec} (ha0 : a.getD 0 0 = 1) (hb0 : b.getD 0 0 = 1)
    (hab : fE ab = fE a * fE b) (hpa : PsInv a pa) (hpb : PsInv b pb) (hpab : PsInv ab pab)
    {k : ℕ} (hka : k < pa.length) (hkb : k < pb.length) (hkab : k < pab.length) :
    pab.getD k 0 = pa.getD k 0 + pb.getD k 0 := by
  have hFa : constantCoeff (fE a) = 1 := by rw [constantCoeff_fE, ha0]
  have hFb : constantCoeff (fE b) = 1 := by rw [constantCoeff_fE, hb0]
  have hab0 : ab.getD 0 0 = 1 := by rw [← constantCoeff_fE, hab, map_mul, hFa, hFb, one_mul]
  have hm := (isPS_psOf hFa).mul (isPS_psOf hFb)
  rw [← hab] at hm
  rw [hpab.coeff_eq hab0 hm hkab, map_add, ← hpa.coeff_eq ha0 (isPS_psOf hFa) hka,
    ← hpb.coeff_eq hb0 (isPS_psOf hFb) hkb]

/-- (N2, list form) power sums of an `n`-th power are `n` times the power sums -/
theorem powerSum_smul_of_pow {a an pa pan : DVec} (n : ℕ) (ha0 : a.getD 0 0 = 1)
    (han : fE an = fE a ^ n) (hpa : PsInv a pa) (hpan : PsInv an pan)
    {k : ℕ} (hka : k < pa.length) (hkan : k < pan.length) :
    pan.getD k 0 = (n : ℚ) * pa.getD k 0 := by
  have hFa : constantCoeff (fE a) = 1 := by rw [constantCoeff_fE, ha0]
  have han0 : an.getD 0 0 = 1 := by rw [← constantCoeff_fE, han, map_pow, hFa, one_pow]
  have hm := (isPS_psOf hFa).pow n
  rw [← han, ← map_natCast (C : ℚ →+* ℚ⟦X⟧)] at hm
  rw [hpan.coeff_eq han0 hm hkan, coeff_C_mul, ← hpa.coeff_eq ha0 (isPS_psOf hFa) hka]

theorem dvd_X_mul_derivative {A : ℚ⟦X⟧} {N : ℕ} (h : X ^ N ∣ A) : X ^ N ∣ X * derivative ℚ A := by
  rw [X_pow_dvd_iff] at h ⊢
  intro m hm
  cases m with
  | zero => exact coeff_zero_X_mul _
  | succ k => rw [coeff_succ_X_mul, coeff_derivative, h (k + 1) hm, zero_mul]

/-- the Newton relation modulo `X^N` only depends on `F` modulo `X^N` -/
theorem newton_dvd_congr {F G P : ℚ⟦X⟧} {N : ℕ} (hFG : X ^ N ∣ F - G)
    (h : X ^ N ∣ F * P + X * derivative ℚ F) : X ^ N ∣ G * P + X * derivative ℚ G := by
  have hd := dvd_X_mul_derivative hFG
  rw [map_sub] at hd
  have : G * P + X * derivative ℚ G =
      (F * P + X * derivative ℚ F) - ((F - G) * P + X * (derivative ℚ F - derivative ℚ G)) := by ring
  rw [this]
  exact dvd_sub h (dvd_add (Dvd.dvd.mul_right hFG _) hd)

/-- `vietes` on the reversed coefficient list `A` yields the alternating form of `A(x)/A(0)` -/
theorem fE_vietes {A esp : List Rat} (hA : A ≠ []) (h : vietes A.reverse = .ok esp) :
    fE esp = C (A.getD 0 0)⁻¹ * toPS A := by
  obtain ⟨esp', h', _, hget⟩ := vietes_reverse A hA
  rw [h] at h'
  cases h'
  ext i
  rw [coeff_fE, hget i, coeff_C_mul, coeff_toPS, altSign_eq_pow]
  have : (-1 : ℚ) ^ i * (-1) ^ i = 1 := by rw [← mul_pow]; simp
  rw [div_eq_mul_inv]
  linear_combination (A.getD i 0 * (A.getD 0 0)⁻¹) * this

/-- (N2, concrete form) the power sums that BRAIN computes (`vietes` then `updatePowerSum`) for
    the truncated product `Spec.polyMul deg A B` of two coefficient lists with non-zero constant
    terms are, up to index `deg`, the sums of the power sums computed for `A` and for `B`. -/
theorem powerSum_polyMul {A B ea eb eab pa pb pab : List Rat} {deg : ℕ}
    (hA : A.getD 0 0 ≠ 0) (hB : B.getD 0 0 ≠ 0)
    (hea : vietes A.reverse = .ok ea) (heb : vietes B.reverse = .ok eb)
    (heab : vietes (Spec.polyMul deg A B).reverse = .ok eab)
    (hpa : PsInv ea pa) (hpb : PsInv eb pb) (hpab : PsInv eab pab)
    {k : ℕ} (hk : k ≤ deg) (hka : k < pa.length) (hkb : k < pb.length) (hkab : k < pab.length) :
    pab.getD k 0 = pa.getD k 0 + pb.getD k 0 := by
  have hAne : A ≠ [] := by intro h; rw [h] at hA; simp at hA
  have hBne : B ≠ [] := by intro h; rw [h] at hB; simp at hB
  have hAB0 : (Spec.polyMul deg A B).getD 0 0 = A.getD 0 0 * B.getD 0 0 := by
    have := coeff_toPS_polyMul deg A B 0 (Nat.zero_le _)
    rw [coeff_toPS, coeff_mul] at this
    simpa [coeff_toPS] using this
  have hABne : Spec.polyMul deg A B ≠ [] := by
    intro h; rw [h] at hAB0; simp at hAB0
    rcases hAB0 with h | h
    · exact hA h
    · exact hB h
  have hFa := fE_vietes hAne hea
  have hFb := fE_vietes hBne heb
  have hFab := fE_vietes hABne heab
  have hFa1 : constantCoeff (fE ea) = 1 := by
    rw [hFa, ← coeff_zero_eq_constantCoeff_apply, coeff_C_mul, coeff_toPS]; exact inv_mul_cancel₀ hA
  have hFb1 : constantCoeff (fE eb) = 1 := by
    rw [hFb, ← coeff_zero_eq_constantCoeff_apply, coeff_C_mul, coeff_toPS]; exact inv_mul_cancel₀ hB
  have hab0 : eab.getD 0 0 = 1 := by
    rw [← constantCoeff_fE, hFab, ← coeff_zero_eq_constantCoeff_apply, coeff_C_mul, coeff_toPS]
    exact inv_mul_cancel₀ (by rw [hAB0]; exact mul_ne_zero hA hB)
  -- the alternating series agree modulo X^(k+1)
  have hcong : X ^ (k + 1) ∣ fE eab - fE ea * fE eb := by
    rw [X_pow_dvd_iff]
    intro m hm
    have hmul : fE ea * fE eb = C ((A.getD 0 0)⁻¹ * (B.getD 0 0)⁻¹) * (toPS A * toPS B) := by
      rw [hFa, hFb, map_mul]; ring
    rw [map_sub, hFab, hmul, coeff_C_mul, coeff_C_mul, coeff_toPS_polyMul deg A B m (by omega),
      hAB0, mul_inv, sub_self]
  have h1 : X ^ (k + 1) ∣ fE eab * toPS pab + X * derivative ℚ (fE eab) :=
    dvd_trans (pow_dvd_pow X (by omega)) (hpab.dvd hab0)
  have h2 := newton_dvd_congr hcong h1
  have hG0 : constantCoeff (fE ea * fE eb) ≠ 0 := by
    rw [map_mul, hFa1, hFb1, one_mul]; exact one_ne_zero
  have h3 := IsPS.ps_unique hG0 h2 ((isPS_psOf hFa1).mul (isPS_psOf hFb1))
  have := coeff_eq_of_dvd_sub h3 (Nat.lt_succ_self k)
  rw [coeff_toPS, map_add] at this
  rw [this, ← hpa.coeff_eq (by rw [← constantCoeff_fE, hFa1]) (isPS_psOf hFa1) hka,
    ← hpb.coeff_eq (by rw [← constantCoeff_fE, hFb1]) (isPS_psOf hFb1) hkb]

end Chem
