import ChemProofs.Lemmas.BrainSpecPS
/-
`Spec.aggMass` coefficient by coefficient, as a sum over the positions of the composition with the
"other elements" product expressed through `List.eraseIdx`.
-/
namespace Chem
open PowerSeries

theorem prod_map_eraseIdx {α} (f : α → PowerSeries Rat) (l : List α) (idx : Nat) (h : idx < l.length) :
    (l.map f).prod = f l[idx] * ((l.eraseIdx idx).map f).prod := by
  induction l generalizing idx with
  | nil => exact absurd h (Nat.not_lt_zero _)
  | cons a l ih =>
    cases idx with
    | zero => rw [List.eraseIdx_cons_zero, List.map_cons, List.prod_cons, List.getElem_cons_zero]
    | succ n =>
      have h' : n < l.length := by
        rw [List.length_cons] at h
        omega
      rw [List.eraseIdx_cons_succ, List.map_cons, List.prod_cons, List.map_cons, List.prod_cons,
        List.getElem_cons_succ, ih n h', mul_left_comm]

theorem zipIdx_filter_ne_lt {α} (l : List α) (k j : Nat) (hj : j < k) :
    ((l.zipIdx k).filter (fun y => y.2 != j)).map (·.1) = l := by
  induction l generalizing k with
  | nil => rfl
  | cons a l ih =>
    have hk : (k != j) = true := by
      rw [bne_iff_ne]
      omega
    rw [List.zipIdx_cons, List.filter_cons, if_pos hk, List.map_cons, ih (k + 1) (by omega)]

theorem zipIdx_filter_ne_eq_eraseIdx_aux {α} (l : List α) (k idx : Nat) :
    ((l.zipIdx k).filter (fun y => y.2 != k + idx)).map (·.1) = l.eraseIdx idx := by
  induction l generalizing k idx with
  | nil => rfl
  | cons a l ih =>
    cases idx with
    | zero =>
      have hk : ¬ ((k != k + 0) = true) := by
        rw [bne_iff_ne]
        omega
      rw [List.zipIdx_cons, List.filter_cons, if_neg hk, List.eraseIdx_cons_zero, Nat.add_zero,
        zipIdx_filter_ne_lt l (k + 1) k (by omega)]
    | succ n =>
      have hk : (k != k + (n + 1)) = true := by
        rw [bne_iff_ne]
        omega
      have e : k + (n + 1) = (k + 1) + n := by omega
      rw [List.zipIdx_cons, List.filter_cons, if_pos hk, List.map_cons, List.eraseIdx_cons_succ, e,
        ih (k + 1) n]

theorem zipIdx_filter_ne_eq_eraseIdx {α} (l : List α) (idx : Nat) :
    ((l.zipIdx.filter (fun y => y.2 != idx)).map (·.1)) = l.eraseIdx idx := by
  have h := zipIdx_filter_ne_eq_eraseIdx_aux l 0 idx
  rw [Nat.zero_add] at h
  exact h

theorem range_map_getElem?_eq_zipIdx_map {α β} (g : Nat → Option α → β) (l : List α) :
    (List.range l.length).map (fun i => g i l[i]?) = l.zipIdx.map (fun p => g p.2 (some p.1)) := by
  apply List.ext_getElem
  · rw [List.length_map, List.length_map, List.length_range, List.length_zipIdx]
  · intro n h1 h2
    have hn : n < l.length := by
      rw [List.length_map, List.length_range] at h1
      exact h1
    rw [List.getElem_map, List.getElem_map, List.getElem_range, List.getElem_zipIdx,
      List.getElem?_eq_getElem hn, Nat.zero_add]

theorem coeff_toPS_aggMass' (c : List (Elem × Nat)) (one : Rat) (deg i : Nat) (hi : i ≤ deg) :
    PowerSeries.coeff i (toPS (Spec.aggMass c one deg)) =
      (c.zipIdx.map fun (p : (Elem × Nat) × Nat) =>
        if p.1.2 = 0 then (0 : Rat) else
          (p.1.2 : Rat) * PowerSeries.coeff i
            (toPS (Spec.elemPoly p.1.1 one true) * toPS (Spec.elemPoly p.1.1 one false) ^ (p.1.2 - 1)
              * ((c.eraseIdx p.2).map fun y => toPS (Spec.elemPoly y.1 one false) ^ y.2).prod)).sum := by
  rw [eqUpTo_aggMass c one deg i hi, map_list_sum, List.map_map]
  have h := range_map_getElem?_eq_zipIdx_map (fun idx o => PowerSeries.coeff i
    (match o with
      | none => (0 : PowerSeries Rat)
      | some x =>
        if x.2 = 0 then 0 else
          PowerSeries.C (x.2 : Rat) * (toPS (Spec.elemPoly x.1 one true) *
            toPS (Spec.elemPoly x.1 one false) ^ (x.2 - 1) *
            (((c.zipIdx.filter (fun y => y.2 != idx)).map (·.1)).map fun y =>
              toPS (Spec.elemPoly y.1 one false) ^ y.2).prod))) c
  refine (congrArg List.sum h).trans (congrArg List.sum ?_)
  apply List.map_congr_left
  intro p _
  dsimp only
  by_cases hp : p.1.2 = 0
  · rw [if_pos hp, if_pos hp, map_zero]
  · rw [if_neg hp, if_neg hp, PowerSeries.coeff_C_mul, zipIdx_filter_ne_eq_eraseIdx]

end Chem
