import ChemProofs.Lemmas.BrainDefs
/-
The list-polynomial arithmetic of `Spec.IsoDist` (`polyAdd`, `polyScale`, truncated `polyMul`,
`polyPow`, `aggProb`, `aggMass`) agrees, coefficient by coefficient up to the truncation degree,
with the arithmetic of power series over `Rat`.
-/
namespace Chem
open PowerSeries

theorem coeff_toPS (l : List Rat) (i : Nat) : PowerSeries.coeff i (toPS l) = l.getD i 0 := by
  unfold toPS
  rw [PowerSeries.coeff_mk]

theorem toPS_nil : toPS [] = 0 := by
  ext i
  rw [coeff_toPS]
  simp

theorem toPS_cons (a : Rat) (p : List Rat) : toPS (a :: p) = PowerSeries.C a + PowerSeries.X * toPS p := by
  ext i
  cases i with
  | zero =>
    rw [coeff_toPS, map_add, PowerSeries.coeff_zero_X_mul, PowerSeries.coeff_zero_C]
    simp
  | succ n =>
    rw [coeff_toPS, map_add, PowerSeries.coeff_succ_X_mul, PowerSeries.coeff_C, coeff_toPS]
    simp

theorem toPS_zero_cons (p : List Rat) : toPS (0 :: p) = PowerSeries.X * toPS p := by
  rw [toPS_cons]
  simp

theorem toPS_one : toPS [1] = 1 := by
  rw [toPS_cons, toPS_nil]
  simp

theorem toPS_polyAdd (p q : List Rat) : toPS (Spec.polyAdd p q) = toPS p + toPS q := by
  fun_induction Spec.polyAdd p q with
  | case1 q => rw [toPS_nil, zero_add]
  | case2 p hp => rw [toPS_nil, add_zero]
  | case3 a p b q ih =>
    rw [toPS_cons, toPS_cons, toPS_cons, ih, map_add]
    ring

theorem toPS_polyScale (a : Rat) (p : List Rat) :
    toPS (Spec.polyScale a p) = PowerSeries.C a * toPS p := by
  induction p with
  | nil =>
    unfold Spec.polyScale
    rw [List.map_nil, toPS_nil, mul_zero]
  | cons b p ih =>
    unfold Spec.polyScale at ih ⊢
    rw [List.map_cons, toPS_cons, toPS_cons, ih, map_mul]
    ring

/-- agreement of all coefficients of index `≤ d` -/
def EqUpTo (d : Nat) (A B : PowerSeries Rat) : Prop :=
  ∀ i, i ≤ d → PowerSeries.coeff i A = PowerSeries.coeff i B

theorem EqUpTo.refl (d : Nat) (A : PowerSeries Rat) : EqUpTo d A A := fun _ _ => rfl

theorem EqUpTo.of_eq {d : Nat} {A B : PowerSeries Rat} (h : A = B) : EqUpTo d A B := by
  subst h
  exact EqUpTo.refl d A

theorem EqUpTo.symm {d : Nat} {A B : PowerSeries Rat} (h : EqUpTo d A B) : EqUpTo d B A :=
  fun i hi => (h i hi).symm

theorem EqUpTo.trans {d : Nat} {A B C : PowerSeries Rat} (h1 : EqUpTo d A B) (h2 : EqUpTo d B C) :
    EqUpTo d A C := fun i hi => (h1 i hi).trans (h2 i hi)

theorem EqUpTo.add {d : Nat} {A A' B B' : PowerSeries Rat} (h1 : EqUpTo d A A')
    (h2 : EqUpTo d B B') : EqUpTo d (A + B) (A' + B') := by
  intro i hi
  rw [map_add, map_add, h1 i hi, h2 i hi]

theorem EqUpTo.mul {d : Nat} {A A' B B' : PowerSeries Rat} (h1 : EqUpTo d A A')
    (h2 : EqUpTo d B B') : EqUpTo d (A * B) (A' * B') := by
  intro i hi
  rw [PowerSeries.coeff_mul, PowerSeries.coeff_mul]
  apply Finset.sum_congr rfl
  intro x hx
  have hx' := Finset.mem_antidiagonal.mp hx
  rw [h1 x.1 (by omega), h2 x.2 (by omega)]

theorem EqUpTo.pow {d : Nat} {A A' : PowerSeries Rat} (h : EqUpTo d A A') (n : Nat) :
    EqUpTo d (A ^ n) (A' ^ n) := by
  induction n with
  | zero => rw [pow_zero, pow_zero]; exact EqUpTo.refl d 1
  | succ n ih => rw [pow_succ, pow_succ]; exact ih.mul h

theorem eqUpTo_take (deg : Nat) (l : List Rat) : EqUpTo deg (toPS (l.take (deg + 1))) (toPS l) := by
  intro i hi
  rw [coeff_toPS, coeff_toPS, List.getD_eq_getElem?_getD, List.getD_eq_getElem?_getD,
    List.getElem?_take, if_pos (by omega)]

theorem eqUpTo_polyMul (deg : Nat) (p q : List Rat) :
    EqUpTo deg (toPS (Spec.polyMul deg p q)) (toPS p * toPS q) := by
  induction p with
  | nil =>
    unfold Spec.polyMul
    rw [toPS_nil, zero_mul]
    exact EqUpTo.refl _ _
  | cons a p ih =>
    unfold Spec.polyMul
    refine (eqUpTo_take deg _).trans ?_
    rw [toPS_polyAdd, toPS_polyScale, toPS_zero_cons, toPS_cons, add_mul, mul_assoc]
    exact (EqUpTo.refl _ _).add ((EqUpTo.refl _ _).mul ih)

theorem coeff_toPS_polyMul (deg : Nat) (p q : List Rat) (i : Nat) (hi : i ≤ deg) :
    PowerSeries.coeff i (toPS (Spec.polyMul deg p q)) = PowerSeries.coeff i (toPS p * toPS q) :=
  eqUpTo_polyMul deg p q i hi

theorem eqUpTo_polyPow (deg : Nat) (p : List Rat) (n : Nat) :
    EqUpTo deg (toPS (Spec.polyPow deg p n)) (toPS p ^ n) := by
  induction n with
  | zero =>
    unfold Spec.polyPow
    rw [toPS_one, pow_zero]
    exact EqUpTo.refl _ _
  | succ n ih =>
    unfold Spec.polyPow
    rw [pow_succ']
    exact (eqUpTo_polyMul deg p _).trans ((EqUpTo.refl _ _).mul ih)

theorem coeff_toPS_polyPow (deg : Nat) (p : List Rat) (n i : Nat) (hi : i ≤ deg) :
    PowerSeries.coeff i (toPS (Spec.polyPow deg p n)) = PowerSeries.coeff i (toPS p ^ n) :=
  eqUpTo_polyPow deg p n i hi

/-- the `foldl` of `aggProb` (and of the `rest` factor of `aggMass`) from any accumulator -/
theorem eqUpTo_foldl_prod (deg : Nat) (one : Rat) (c : List (Elem × Nat)) (acc : List Rat) :
    EqUpTo deg
      (toPS (c.foldl (fun acc x =>
        Spec.polyMul deg acc (Spec.polyPow deg (Spec.elemPoly x.1 one false) x.2)) acc))
      (toPS acc * (c.map fun x => toPS (Spec.elemPoly x.1 one false) ^ x.2).prod) := by
  induction c generalizing acc with
  | nil =>
    rw [List.foldl_nil, List.map_nil, List.prod_nil, mul_one]
    exact EqUpTo.refl _ _
  | cons x c ih =>
    rw [List.foldl_cons, List.map_cons, List.prod_cons, ← mul_assoc]
    refine (ih _).trans (EqUpTo.mul ?_ (EqUpTo.refl _ _))
    exact (eqUpTo_polyMul deg _ _).trans ((EqUpTo.refl _ _).mul (eqUpTo_polyPow deg _ _))

theorem eqUpTo_aggProb (c : List (Elem × Nat)) (one : Rat) (deg : Nat) :
    EqUpTo deg (toPS (Spec.aggProb c one deg))
      ((c.map fun x => toPS (Spec.elemPoly x.1 one false) ^ x.2).prod) := by
  unfold Spec.aggProb
  have h := eqUpTo_foldl_prod deg one c [1]
  rw [toPS_one, one_mul] at h
  exact h

/-- MAIN 1 -/
theorem coeff_toPS_aggProb (c : List (Elem × Nat)) (one : Rat) (deg i : Nat) (hi : i ≤ deg) :
    PowerSeries.coeff i (toPS (Spec.aggProb c one deg)) =
      PowerSeries.coeff i ((c.map fun x => toPS (Spec.elemPoly x.1 one false) ^ x.2).prod) :=
  eqUpTo_aggProb c one deg i hi

/-- a `foldl` whose every step adds (up to degree `deg`) a term `F idx` to the accumulator -/
theorem eqUpTo_foldl_sum {ι : Type} (deg : Nat) (step : List Rat → ι → List Rat)
    (F : ι → PowerSeries Rat)
    (hstep : ∀ acc idx, EqUpTo deg (toPS (step acc idx)) (toPS acc + F idx))
    (l : List ι) (acc : List Rat) :
    EqUpTo deg (toPS (l.foldl step acc)) (toPS acc + (l.map F).sum) := by
  induction l generalizing acc with
  | nil =>
    rw [List.foldl_nil, List.map_nil, List.sum_nil, add_zero]
    exact EqUpTo.refl _ _
  | cons x l ih =>
    rw [List.foldl_cons, List.map_cons, List.sum_cons, ← add_assoc]
    exact (ih _).trans ((hstep acc x).add (EqUpTo.refl _ _))

/-- the summand of `aggMass` contributed by position `idx` of the composition -/
noncomputable def massTerm (c : List (Elem × Nat)) (one : Rat) (idx : Nat) : PowerSeries Rat :=
  match c[idx]? with
  | none => (0 : PowerSeries Rat)
  | some x =>
    if x.2 = 0 then 0 else
      PowerSeries.C (x.2 : Rat) * (toPS (Spec.elemPoly x.1 one true) *
        toPS (Spec.elemPoly x.1 one false) ^ (x.2 - 1) *
        (((c.zipIdx.filter (fun y => y.2 != idx)).map (·.1)).map fun y =>
          toPS (Spec.elemPoly y.1 one false) ^ y.2).prod)

theorem eqUpTo_aggMass (c : List (Elem × Nat)) (one : Rat) (deg : Nat) :
    EqUpTo deg (toPS (Spec.aggMass c one deg))
      (((List.range c.length).map (massTerm c one)).sum) := by
  unfold Spec.aggMass
  have h := eqUpTo_foldl_sum deg (fun acc idx =>
      match c[idx]? with
      | none => acc
      | some x =>
        if x.2 == 0 then acc else
        let others := (c.zipIdx.filter (fun y => y.2 != idx)).map (·.1)
        let rest := others.foldl (fun a y =>
          Spec.polyMul deg a (Spec.polyPow deg (Spec.elemPoly y.1 one false) y.2)) [1]
        let own := Spec.polyMul deg (Spec.elemPoly x.1 one true)
          (Spec.polyPow deg (Spec.elemPoly x.1 one false) (x.2 - 1))
        Spec.polyAdd acc (Spec.polyScale (x.2 : Rat) (Spec.polyMul deg own rest)))
    (massTerm c one) ?_ (List.range c.length) []
  · rw [toPS_nil, zero_add] at h
    exact h
  · intro acc idx
    unfold massTerm
    cases hc : c[idx]? with
    | none =>
      dsimp only
      rw [add_zero]
      exact EqUpTo.refl _ _
    | some x =>
      dsimp only
      by_cases hx : x.2 = 0
      · rw [if_pos (by simp [hx]), if_pos hx, add_zero]
        exact EqUpTo.refl _ _
      · rw [if_neg (by simp [hx]), if_neg hx, toPS_polyAdd, toPS_polyScale]
        refine (EqUpTo.refl _ _).add ((EqUpTo.refl _ _).mul ?_)
        refine (eqUpTo_polyMul deg _ _).trans (EqUpTo.mul ?_ ?_)
        · exact (eqUpTo_polyMul deg _ _).trans ((EqUpTo.refl _ _).mul (eqUpTo_polyPow deg _ _))
        · have h := eqUpTo_foldl_prod deg one
            ((c.zipIdx.filter (fun y => y.2 != idx)).map (·.1)) [1]
          rw [toPS_one, one_mul] at h
          exact h

/-- MAIN 2 -/
theorem coeff_toPS_aggMass (c : List (Elem × Nat)) (one : Rat) (deg i : Nat) (hi : i ≤ deg) :
    PowerSeries.coeff i (toPS (Spec.aggMass c one deg)) =
      PowerSeries.coeff i (((List.range c.length).map fun idx =>
        match c[idx]? with
        | none => (0 : PowerSeries Rat)
        | some x =>
          if x.2 = 0 then 0 else
            PowerSeries.C (x.2 : Rat) * (toPS (Spec.elemPoly x.1 one true) * toPS (Spec.elemPoly x.1 one false) ^ (x.2 - 1)
              * (((c.zipIdx.filter (fun y => y.2 != idx)).map (·.1)).map fun y => toPS (Spec.elemPoly y.1 one false) ^ y.2).prod)).sum) :=
  eqUpTo_aggMass c one deg i hi

end Chem
