import ChemProofs.Model.ElemSpec
/-
(L1) Decimal rendering and the integer parsers: `natDigits n` is a non-empty run of ASCII digits whose
value is `n`; hence `parseI32` / `parseU16` read it back (within range).  Core Lean only.
-/
namespace Chem

theorem natDigits_ne_nil (n : Nat) : natDigits n ≠ [] := by
  unfold natDigits
  intro h
  exact Nat.toDigits_ne_nil (List.map_eq_nil_iff.1 h)

theorem isAsciiDigit_of_isDigit (c : Char) (h : c.isDigit = true) : isAsciiDigit c.toNat = true := by
  simp only [Char.isDigit, Bool.and_eq_true, decide_eq_true_eq, ge_iff_le, UInt32.le_iff_toNat_le] at h
  simp only [isAsciiDigit, Bool.and_eq_true, decide_eq_true_eq]
  exact h

theorem natDigits_all_digit (n : Nat) : ∀ c ∈ natDigits n, isAsciiDigit c = true := by
  intro c hc
  unfold natDigits at hc
  obtain ⟨ch, hch, rfl⟩ := List.mem_map.1 hc
  exact isAsciiDigit_of_isDigit ch (Nat.isDigit_of_mem_toDigits (by decide) (by decide) hch)

theorem foldl_map_toNat (l : List Char) (init : Nat) :
    (l.map Char.toNat).foldl (fun n d => 10 * n + (d - 48)) init = Nat.ofDigitChars 10 l init := by
  induction l generalizing init with
  | nil => simp
  | cons c cs ih =>
    simp only [List.map_cons, List.foldl_cons, Nat.ofDigitChars_cons]
    rw [ih]
    rfl

theorem digitsVal_natDigits (n : Nat) : digitsVal (natDigits n) = some n := by
  have hne := natDigits_ne_nil n
  have hall : (natDigits n).all isAsciiDigit = true := by
    rw [List.all_eq_true]; exact natDigits_all_digit n
  have hval : (natDigits n).foldl (fun n d => 10 * n + (d - 48)) 0 = n := by
    unfold natDigits
    rw [foldl_map_toNat]
    exact Nat.ofDigitChars_ten_toDigits
  unfold digitsVal
  split
  · exact absurd (by assumption) hne
  · rw [if_pos hall, hval]

/-- the first character of a decimal rendering is a digit, so it is neither '+' nor '-' -/
theorem natDigits_cons (n : Nat) : ∃ d ds, natDigits n = d :: ds ∧ isAsciiDigit d = true := by
  cases h : natDigits n with
  | nil => exact absurd h (natDigits_ne_nil n)
  | cons d ds =>
    refine ⟨d, ds, rfl, ?_⟩
    apply natDigits_all_digit n
    rw [h]; exact List.mem_cons_self

theorem parseI32_natDigits (n : Nat) (h : n ≤ 2147483647) : parseI32 (natDigits n) = some (n : Int) := by
  obtain ⟨d, ds, hd, hdig⟩ := natDigits_cons n
  have hv := digitsVal_natDigits n
  rw [hd] at hv ⊢
  simp only [isAsciiDigit, Bool.and_eq_true, decide_eq_true_eq] at hdig
  unfold parseI32
  split
  · rename_i heq; injection heq with h1 _; omega
  · rename_i heq; injection heq with h1 _; omega
  · rw [hv]; simp only [h, if_true]

theorem parseU16_natDigits (n : Nat) (h : n ≤ 65535) : parseU16 (natDigits n) = some n := by
  obtain ⟨d, ds, hd, hdig⟩ := natDigits_cons n
  have hv := digitsVal_natDigits n
  rw [hd] at hv ⊢
  simp only [isAsciiDigit, Bool.and_eq_true, decide_eq_true_eq] at hdig
  unfold parseU16
  dsimp only
  split
  · rename_i v heq
    split at heq
    · rename_i h2; injection h2 with h1 _; omega
    · rw [hv] at heq; injection heq with heq; subst heq; simp only [h, if_true]
  · rename_i heq
    split at heq
    · rename_i h2; injection h2 with h1 _; omega
    · rw [hv] at heq; cases heq

end Chem
