import ChemProofs.Model.Comp
/- Helper lemmas about the entry-list functions of `Model/Comp.lean` (core Lean only). -/
namespace Chem
namespace Ents

/-- the finite-map view of an entry list: first match wins, absence is `none` -/
def abs (l : Ents) (k : Key) : Option Int := (l.find? (fun e => e.1 == k)).map (·.2)

/-- sum of the counts listed for `k` -/
def sumFor (l : Ents) (k : Key) : Int := ((l.filter (fun e => e.1 == k)).map (·.2)).sum

def NoDupKeys (l : Ents) : Prop := l.keys.Nodup

theorem get_eq_abs (l : Ents) (k : Key) : l.get k = (abs l k).getD 0 := by
  unfold get abs
  cases l.find? (fun e => e.1 == k) <;> rfl

theorem has_eq_abs (l : Ents) (k : Key) : l.has k = (abs l k).isSome := by
  unfold has abs
  induction l with
  | nil => rfl
  | cons e rest ih =>
    simp only [List.any_cons, List.find?_cons]
    cases h : (e.1 == k) <;> simp_all

@[simp] theorem get_nil (k : Key) : get [] k = 0 := rfl

theorem get_cons (e : Key × Int) (l : Ents) (k : Key) :
    get (e :: l) k = if e.1 = k then e.2 else get l k := by
  unfold get
  simp only [List.find?_cons]
  by_cases h : e.1 = k
  · simp [h]
  · have : (e.1 == k) = false := by simpa using h
    simp [this, h]

theorem abs_cons (e : Key × Int) (l : Ents) (k : Key) :
    abs (e :: l) k = if e.1 = k then some e.2 else abs l k := by
  unfold abs
  simp only [List.find?_cons]
  by_cases h : e.1 = k
  · simp [h]
  · have : (e.1 == k) = false := by simpa using h
    simp [this, h]

/-- `set` is the finite-map update -/
theorem set_cons_eq (e : Key × Int) (l : Ents) (k : Key) (v : Int) (h : e.1 = k) :
    set (e :: l) k v = (e.1, v) :: l := by
  have : (e.1 == k) = true := by simpa using h
  simp [set, this]

theorem set_cons_ne (e : Key × Int) (l : Ents) (k : Key) (v : Int) (h : ¬ e.1 = k) :
    set (e :: l) k v = e :: set l k v := by
  have : (e.1 == k) = false := by simpa using h
  simp [set, this]

theorem abs_set (l : Ents) (k : Key) (v : Int) (k' : Key) :
    abs (l.set k v) k' = if k' = k then some v else abs l k' := by
  induction l with
  | nil =>
    simp only [set, abs_cons]
    by_cases h : k = k'
    · simp [h]
    · have : ¬ k' = k := fun h' => h h'.symm
      simp [h, this, abs]
  | cons e rest ih =>
    by_cases hk : e.1 = k
    · rw [set_cons_eq _ _ _ _ hk, abs_cons, abs_cons]
      by_cases h : k' = k
      · simp [h, hk]
      · have : ¬ e.1 = k' := by rw [hk]; exact fun h' => h h'.symm
        simp [h, this]
    · rw [set_cons_ne _ _ _ _ hk, abs_cons, abs_cons, ih]
      by_cases h : k' = k
      · subst h
        simp [hk]
      · simp [h]

theorem get_set (l : Ents) (k : Key) (v : Int) (k' : Key) :
    (l.set k v).get k' = if k' = k then v else l.get k' := by
  rw [get_eq_abs, abs_set, get_eq_abs]
  by_cases h : k' = k <;> simp [h]

theorem get_inc (l : Ents) (k : Key) (v : Int) (k' : Key) :
    (l.inc k v).get k' = l.get k' + (if k' = k then v else 0) := by
  unfold inc
  rw [get_set]
  by_cases h : k' = k <;> simp [h]

theorem has_cons (e : Key × Int) (l : Ents) (k : Key) :
    has (e :: l) k = (decide (e.1 = k) || has l k) := by
  simp only [has, List.any_cons]
  congr 1
  by_cases h : e.1 = k <;> simp [h]

theorem keys_cons (e : Key × Int) (l : Ents) : keys (e :: l) = e.1 :: keys l := rfl

theorem keys_set (l : Ents) (k : Key) (v : Int) :
    (l.set k v).keys = if l.has k then l.keys else l.keys ++ [k] := by
  induction l with
  | nil => simp [set, keys, has]
  | cons e rest ih =>
    rw [has_cons]
    by_cases hk : e.1 = k
    · rw [set_cons_eq _ _ _ _ hk]; simp [hk, keys]
    · rw [set_cons_ne _ _ _ _ hk, keys_cons, ih, keys_cons]
      simp only [hk, decide_false, Bool.false_or]
      split <;> simp

theorem has_iff_mem_keys (l : Ents) (k : Key) : l.has k = true ↔ k ∈ l.keys := by
  induction l with
  | nil => simp [has, keys]
  | cons e rest ih =>
    rw [has_cons, keys_cons]
    simp only [Bool.or_eq_true, decide_eq_true_eq, List.mem_cons, ih]
    constructor
    · rintro (h | h)
      · exact Or.inl h.symm
      · exact Or.inr h
    · rintro (h | h)
      · exact Or.inl h.symm
      · exact Or.inr h

/-- every public mutator keeps keys unique -/
theorem nodup_set (l : Ents) (k : Key) (v : Int) (h : l.NoDupKeys) : (l.set k v).NoDupKeys := by
  unfold NoDupKeys at *
  rw [keys_set]
  split
  · exact h
  · rename_i hh
    rw [List.nodup_append]
    refine ⟨h, by simp, ?_⟩
    intro a ha b hb
    simp only [List.mem_singleton] at hb
    subst hb
    intro heq
    subst heq
    exact hh ((has_iff_mem_keys l a).2 ha)

theorem nodup_inc (l : Ents) (k : Key) (v : Int) (h : l.NoDupKeys) : (l.inc k v).NoDupKeys :=
  nodup_set l k _ h

theorem nodup_nil : NoDupKeys [] := by simp [NoDupKeys, keys]

theorem nodup_addFrom (a b : Ents) (s : Int) (h : a.NoDupKeys) : (a.addFrom b s).NoDupKeys := by
  unfold addFrom
  induction b generalizing a with
  | nil => exact h
  | cons e rest ih => exact ih _ (nodup_inc a e.1 _ h)

theorem nodup_ofPairs (ps : Ents) : (ofPairs ps).NoDupKeys := nodup_addFrom [] ps 1 nodup_nil

theorem nodup_ofSets_aux (acc ps : Ents) (h : acc.NoDupKeys) :
    (ps.foldl (fun acc e => acc.set e.1 e.2) acc).NoDupKeys := by
  induction ps generalizing acc with
  | nil => exact h
  | cons e rest ih => exact ih _ (nodup_set acc e.1 e.2 h)

theorem nodup_ofSets (ps : Ents) : (ofSets ps).NoDupKeys := nodup_ofSets_aux [] ps nodup_nil

theorem keys_mapCounts (l : Ents) (f : Int → Int) : (l.mapCounts f).keys = l.keys := by
  simp [mapCounts, keys, Function.comp_def]

theorem nodup_mapCounts (l : Ents) (f : Int → Int) (h : l.NoDupKeys) : (l.mapCounts f).NoDupKeys := by
  unfold NoDupKeys; rw [keys_mapCounts]; exact h

theorem abs_mapCounts (l : Ents) (f : Int → Int) (k : Key) :
    abs (l.mapCounts f) k = (abs l k).map f := by
  induction l with
  | nil => rfl
  | cons e rest ih =>
    simp only [mapCounts, List.map_cons] at *
    rw [abs_cons, abs_cons]
    by_cases h : e.1 = k <;> simp [h, ih]

theorem get_mapCounts_mul (l : Ents) (n : Int) (k : Key) :
    (l.mapCounts (n * ·)).get k = n * l.get k := by
  rw [get_eq_abs, abs_mapCounts, get_eq_abs]
  cases abs l k <;> simp

/-- `+`/`-`/collecting: every key receives the signed sum of the counts listed for it -/
theorem sumFor_cons (e : Key × Int) (l : Ents) (k : Key) :
    sumFor (e :: l) k = (if e.1 = k then e.2 else 0) + sumFor l k := by
  simp only [sumFor, List.filter_cons]
  by_cases h : e.1 = k
  · have : (e.1 == k) = true := by simpa using h
    simp [this, h]
  · have : (e.1 == k) = false := by simpa using h
    simp [this, h]

theorem get_addFrom (a b : Ents) (s : Int) (k : Key) :
    (a.addFrom b s).get k = a.get k + s * sumFor b k := by
  unfold addFrom
  induction b generalizing a with
  | nil => simp [sumFor]
  | cons e rest ih =>
    simp only [List.foldl_cons]
    rw [ih, get_inc, sumFor_cons]
    by_cases h : e.1 = k
    · subst h
      simp only [if_true, Int.mul_add]
      omega
    · have h' : ¬ k = e.1 := fun x => h x.symm
      simp only [h, h', if_false, Int.zero_add, Int.add_zero]

theorem sumFor_of_not_mem (l : Ents) (k : Key) (h : k ∉ l.keys) : sumFor l k = 0 := by
  induction l with
  | nil => rfl
  | cons e rest ih =>
    simp only [keys, List.map_cons, List.mem_cons, not_or] at h
    have h1 : ¬ e.1 = k := fun x => h.1 x.symm
    rw [sumFor_cons]
    simp only [h1, if_false, Int.zero_add]
    exact ih h.2

theorem get_of_not_mem (l : Ents) (k : Key) (h : k ∉ l.keys) : l.get k = 0 := by
  induction l with
  | nil => rfl
  | cons e rest ih =>
    simp only [keys, List.map_cons, List.mem_cons, not_or] at h
    rw [get_cons]
    have : ¬ e.1 = k := fun x => h.1 x.symm
    simp [this]
    exact ih h.2

/-- with unique keys the listed sum is just the count -/
theorem sumFor_nodup (l : Ents) (k : Key) (h : l.NoDupKeys) : sumFor l k = l.get k := by
  induction l with
  | nil => rfl
  | cons e rest ih =>
    unfold NoDupKeys keys at h
    simp only [List.map_cons, List.nodup_cons] at h
    rw [get_cons, sumFor_cons]
    by_cases hk : e.1 = k
    · simp only [hk, if_true]
      have hz := sumFor_of_not_mem rest k (by rw [← hk]; exact h.1)
      rw [hz]; simp
    · simp only [hk, if_false, Int.zero_add]
      exact ih h.2

/-! ### mass -/

theorem massOf_nil (m : Key → Int) : massOf m [] = 0 := rfl

theorem massOf_cons (m : Key → Int) (e : Key × Int) (l : Ents) :
    massOf m (e :: l) = e.2 * m e.1 + massOf m l := by
  simp [massOf]

theorem massOf_append (m : Key → Int) (a b : Ents) : massOf m (a ++ b) = massOf m a + massOf m b := by
  simp [massOf, List.sum_append]

theorem massOf_set (m : Key → Int) (l : Ents) (k : Key) (v : Int) :
    massOf m (l.set k v) = massOf m l + (v - l.get k) * m k := by
  induction l with
  | nil => simp [set, massOf]
  | cons e rest ih =>
    rw [get_cons]
    by_cases hk : e.1 = k
    · rw [set_cons_eq _ _ _ _ hk]
      simp only [hk, if_true, massOf_cons]
      rw [Int.sub_mul]; omega
    · rw [set_cons_ne _ _ _ _ hk]
      simp only [hk, if_false, massOf_cons, ih]
      omega

theorem massOf_inc (m : Key → Int) (l : Ents) (k : Key) (v : Int) :
    massOf m (l.inc k v) = massOf m l + v * m k := by
  unfold inc; rw [massOf_set]; congr 1; congr 1; omega

/-- mass is additive over `+` and `-` -/
theorem massOf_addFrom (m : Key → Int) (a b : Ents) (s : Int) :
    massOf m (a.addFrom b s) = massOf m a + s * massOf m b := by
  unfold addFrom
  induction b generalizing a with
  | nil => simp [massOf]
  | cons e rest ih =>
    simp only [List.foldl_cons]
    rw [ih, massOf_inc, massOf_cons, Int.mul_add, Int.mul_assoc]
    omega

/-- mass is linear over `*` -/
theorem massOf_mul (m : Key → Int) (l : Ents) (n : Int) :
    massOf m (l.mapCounts (n * ·)) = n * massOf m l := by
  induction l with
  | nil => simp [mapCounts, massOf]
  | cons e rest ih =>
    simp only [mapCounts, List.map_cons] at *
    rw [massOf_cons, massOf_cons, ih, Int.mul_add, Int.mul_assoc]

end Ents
end Chem

namespace Chem
namespace Ents

theorem abs_nil (k : Key) : abs [] k = none := rfl

theorem abs_inc (l : Ents) (k : Key) (v : Int) (k' : Key) :
    abs (l.inc k v) k' = if k' = k then some (l.get k + v) else abs l k' := by
  unfold inc; rw [abs_set]

/-- general form: after `±=` every listed key is present with the signed listed sum added -/
theorem abs_addFrom (a b : Ents) (s : Int) (k : Key) :
    abs (a.addFrom b s) k = if b.has k then some (a.get k + s * sumFor b k) else abs a k := by
  unfold addFrom
  induction b generalizing a with
  | nil => simp [has]
  | cons e rest ih =>
    simp only [List.foldl_cons]
    rw [ih, has_cons, sumFor_cons, get_inc, abs_inc]
    by_cases hk : e.1 = k
    · subst hk
      simp only [decide_true, Bool.true_or, if_true]
      by_cases hr : has rest e.1 = true
      · rw [if_pos hr, Int.mul_add]; congr 1; omega
      · have hz : sumFor rest e.1 = 0 :=
          sumFor_of_not_mem rest e.1 (fun hm => hr ((has_iff_mem_keys rest e.1).2 hm))
        rw [if_neg hr, hz, Int.add_zero]
    · have hk' : ¬ k = e.1 := fun x => hk x.symm
      simp only [hk, hk', decide_false, Bool.false_or, if_false, Int.add_zero, Int.zero_add]

/-- `default()` + `set` per entry copies a duplicate-free composition exactly -/
theorem abs_ofSets_aux (acc l : Ents) (h : l.NoDupKeys) (k : Key) :
    abs (l.foldl (fun acc e => acc.set e.1 e.2) acc) k = if l.has k then abs l k else abs acc k := by
  induction l generalizing acc with
  | nil => simp [has]
  | cons e rest ih =>
    unfold NoDupKeys keys at h
    simp only [List.map_cons, List.nodup_cons] at h
    simp only [List.foldl_cons]
    rw [ih _ h.2, has_cons, abs_cons, abs_set]
    by_cases hk : e.1 = k
    · subst hk
      have hr : ¬ has rest e.1 = true := fun hh => h.1 ((has_iff_mem_keys rest e.1).1 hh)
      rw [if_neg hr]
      simp
    · have hk' : ¬ k = e.1 := fun x => hk x.symm
      simp only [hk, hk', decide_false, Bool.false_or, if_false]

theorem abs_ofSets (l : Ents) (h : l.NoDupKeys) (k : Key) : abs (ofSets l) k = abs l k := by
  unfold ofSets
  rw [abs_ofSets_aux [] l h]
  by_cases hh : l.has k = true
  · rw [if_pos hh]
  · rw [if_neg hh]
    have : l.has k = false := by simpa using hh
    rw [has_eq_abs] at this
    cases hx : abs l k
    · rfl
    · simp [hx] at this

end Ents
end Chem
