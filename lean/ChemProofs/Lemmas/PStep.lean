import ChemProofs.Model.Formula
import ChemProofs.Lemmas.Ents
import ChemProofs.Lemmas.Digits
/-
Single-step and simple multi-step facts about the parser machine of `Model/Formula.lean`
(`pstep`, `ploop`), and slice / list helpers.  Core Lean only.
-/
namespace Chem

/-- a character that the `Element` and `Group` states of the machine pass over -/
def inert (cc : CharClass) (c : Nat) : Bool :=
  !isAsciiUpper c && !cc.numeric c && c != 91 && c != 40 && c != 41

@[simp] theorem Res.ok_bind {α β} (a : α) (f : α → Res β) : (Res.ok a).bind f = f a := rfl

theorem numeric_of_digit {cc : CharClass} (hcc : cc.AsciiOK) {c : Nat} (h : isAsciiDigit c = true) :
    cc.numeric c = true := by
  have h' := h
  simp only [isAsciiDigit, Bool.and_eq_true, decide_eq_true_eq] at h'
  rw [(hcc c (by omega)).2.1]; exact h

theorem digit_facts {c : Nat} (h : isAsciiDigit c = true) :
    isAsciiAlpha c = false ∧ c ≠ 93 ∧ c ≠ 40 ∧ c ≠ 41 ∧ c ≠ 91 := by
  simp only [isAsciiDigit, Bool.and_eq_true, decide_eq_true_eq] at h
  refine ⟨?_, by omega, by omega, by omega, by omega⟩
  simp only [isAsciiAlpha, isAsciiUpper, isAsciiLower, Bool.or_eq_false_iff, Bool.and_eq_false_iff,
    decide_eq_false_iff_not]
  omega

theorem upperStart_facts {c : Nat} (h : isUpperStart c = true) :
    isAsciiAlpha c = true ∧ isAsciiUpper c = true ∧ c ≠ 40 ∧ c ≠ 41 := by
  simp only [isUpperStart, Bool.and_eq_true] at h
  refine ⟨h.1, h.2, ?_, ?_⟩ <;>
  · have := h.2
    simp only [isAsciiUpper, Bool.and_eq_true, decide_eq_true_eq] at this
    omega

theorem isUpperStart_of_upper {c : Nat} (h : isAsciiUpper c = true) : isUpperStart c = true := by
  simp only [isUpperStart, isAsciiAlpha, h, Bool.true_or, Bool.and_self]

section
variable (cc : CharClass) (T : Table) (sub : List Nat → Res Ents) (s : List Nat)

theorem ploop_nil (i : Nat) (p : PState) (acc : Ents) : ploop cc T sub s [] i p acc = .ok (p, acc) := rfl

theorem ploop_cons (c : Nat) (rest : List Nat) (i : Nat) (p : PState) (acc : Ents) :
    ploop cc T sub s (c :: rest) i p acc =
      (pstep cc T sub s p acc i c).bind fun x => ploop cc T sub s rest (i + 1) x.1 x.2 := rfl

theorem ploop_cons_ok {c : Nat} {rest : List Nat} {i : Nat} {p p' : PState} {acc acc' : Ents}
    (h : pstep cc T sub s p acc i c = .ok (p', acc')) :
    ploop cc T sub s (c :: rest) i p acc = ploop cc T sub s rest (i + 1) p' acc' := by
  rw [ploop_cons, h]; rfl

theorem ploop_append_ok {a b : List Nat} {i : Nat} {p p' : PState} {acc acc' : Ents}
    (h : ploop cc T sub s a i p acc = .ok (p', acc')) :
    ploop cc T sub s (a ++ b) i p acc = ploop cc T sub s b (i + a.length) p' acc' := by
  induction a generalizing i p acc with
  | nil =>
    rw [ploop_nil] at h
    injection h with h; injection h with h1 h2
    subst h1; subst h2; rfl
  | cons c rest ih =>
    rw [List.cons_append, ploop_cons]
    rw [ploop_cons] at h
    cases hs : pstep cc T sub s p acc i c with
    | ok x =>
      rw [hs] at h
      simp only [Res.ok_bind] at h ⊢
      rw [ih h]
      simp only [List.length_cons]
      congr 1; omega
    | err => rw [hs] at h; cases h
    | panic => rw [hs] at h; cases h

/-- a run of characters on each of which the machine stays put -/
theorem ploop_stay {w : List Nat} {p : PState} {acc : Ents}
    (h : ∀ c ∈ w, ∀ i, pstep cc T sub s p acc i c = .ok (p, acc)) (i : Nat) :
    ploop cc T sub s w i p acc = .ok (p, acc) := by
  induction w generalizing i with
  | nil => rfl
  | cons c rest ih =>
    rw [ploop_cons_ok cc T sub s (h c List.mem_cons_self i)]
    exact ih (fun c hc => h c (List.mem_cons_of_mem _ hc)) _

/-! ### single steps -/

theorem step_elem_inert {p : PState} {acc : Ents} {c : Nat} (i : Nat) (hst : p.st = .element)
    (hc : inert cc c = true) : pstep cc T sub s p acc i c = .ok (p, acc) := by
  simp only [inert, Bool.and_eq_true, Bool.not_eq_true', bne_iff_ne, ne_eq] at hc
  obtain ⟨⟨⟨⟨h1, h2⟩, h3⟩, h4⟩, _⟩ := hc
  unfold pstep
  simp only [hst, h1, h2]
  have h3' : (c == 91) = false := by simpa using h3
  have h4' : (c == 40) = false := by simpa using h4
  simp only [h3', h4']
  cases isAsciiAlpha c <;> simp

theorem step_elem_digit (hcc : cc.AsciiOK) {p : PState} {acc : Ents} {c : Nat} (i : Nat)
    (hst : p.st = .element) (hc : isAsciiDigit c = true) :
    pstep cc T sub s p acc i c = .ok ({ p with ee := i, cs := i, st := .count }, acc) := by
  unfold pstep
  simp only [hst, (digit_facts hc).1, numeric_of_digit hcc hc]
  simp

theorem step_elem_lbr (hcc : cc.AsciiOK) {p : PState} {acc : Ents} (i : Nat) (hst : p.st = .element) :
    pstep cc T sub s p acc i 91 = .ok ({ p with ee := i, is := i + 1, st := .isotope }, acc) := by
  have hn : cc.numeric 91 = false := by rw [(hcc 91 (by omega)).2.1]; rfl
  have ha : isAsciiAlpha 91 = false := by decide
  unfold pstep
  simp only [hst, hn, ha]
  simp

theorem step_iso_digit (hcc : cc.AsciiOK) {p : PState} {acc : Ents} {c : Nat} (i : Nat)
    (hst : p.st = .isotope) (hc : isAsciiDigit c = true) :
    pstep cc T sub s p acc i c = .ok (p, acc) := by
  have h93 : (c == 93) = false := by simpa using (digit_facts hc).2.1
  unfold pstep
  simp only [hst, h93, numeric_of_digit hcc hc]
  simp

theorem step_iso_rbr {p : PState} {acc : Ents} (i : Nat) (hst : p.st = .isotope) :
    pstep cc T sub s p acc i 93 = .ok ({ p with ie := i, st := .isotopeToCount }, acc) := by
  unfold pstep
  simp only [hst]
  simp

theorem step_i2c_digit (hcc : cc.AsciiOK) {p : PState} {acc : Ents} {c : Nat} (i : Nat)
    (hst : p.st = .isotopeToCount) (hc : isAsciiDigit c = true) :
    pstep cc T sub s p acc i c = .ok ({ p with cs := i, st := .count }, acc) := by
  unfold pstep
  simp only [hst, numeric_of_digit hcc hc]
  simp

theorem step_count_digit (hcc : cc.AsciiOK) {p : PState} {acc : Ents} {c : Nat} (i : Nat)
    (hst : p.st = .count) (hc : isAsciiDigit c = true) :
    pstep cc T sub s p acc i c = .ok (p, acc) := by
  unfold pstep
  simp only [hst, numeric_of_digit hcc hc]
  simp

theorem step_g2gc_digit (hcc : cc.AsciiOK) {p : PState} {acc : Ents} {c : Nat} (i : Nat)
    (hst : p.st = .groupToGroupCount) (hc : isAsciiDigit c = true) :
    pstep cc T sub s p acc i c = .ok ({ p with gcs := i, st := .groupCount }, acc) := by
  unfold pstep
  simp only [hst, numeric_of_digit hcc hc]
  simp

theorem step_gc_digit (hcc : cc.AsciiOK) {p : PState} {acc : Ents} {c : Nat} (i : Nat)
    (hst : p.st = .groupCount) (hc : isAsciiDigit c = true) :
    pstep cc T sub s p acc i c = .ok (p, acc) := by
  unfold pstep
  simp only [hst, numeric_of_digit hcc hc]
  simp

theorem step_group_other {p : PState} {acc : Ents} {c : Nat} (i : Nat) (hst : p.st = .group)
    (h40 : c ≠ 40) (h41 : c ≠ 41) : pstep cc T sub s p acc i c = .ok (p, acc) := by
  have h40' : (c == 40) = false := by simpa using h40
  have h41' : (c == 41) = false := by simpa using h41
  unfold pstep
  simp only [hst, h40', h41']
  simp

theorem step_group_open {p : PState} {acc : Ents} (i : Nat) (hst : p.st = .group) :
    pstep cc T sub s p acc i 40 = .ok ({ p with paren := p.paren + 1 }, acc) := by
  unfold pstep
  simp only [hst]
  simp

theorem step_group_close_ne {p : PState} {acc : Ents} (i : Nat) (hst : p.st = .group)
    (h : p.paren - 1 ≠ 0) :
    pstep cc T sub s p acc i 41 = .ok ({ p with paren := p.paren - 1 }, acc) := by
  have h' : (p.paren - 1 == 0) = false := by simpa using h
  unfold pstep
  simp only [hst]
  simp [h']

theorem step_group_close_z {p : PState} {acc : Ents} (i : Nat) (hst : p.st = .group)
    (h : p.paren = 1) :
    pstep cc T sub s p acc i 41 = .ok ({ p with paren := 0, ge := i, st := .groupToGroupCount }, acc) := by
  unfold pstep
  simp only [hst]
  simp [h]

/-! ### runs of digits -/

theorem ploop_digits_iso (hcc : cc.AsciiOK) {w : List Nat} {p : PState} {acc : Ents} (i : Nat)
    (hst : p.st = .isotope) (hw : ∀ c ∈ w, isAsciiDigit c = true) :
    ploop cc T sub s w i p acc = .ok (p, acc) :=
  ploop_stay cc T sub s (fun c hc j => step_iso_digit cc T sub s hcc j hst (hw c hc)) i

theorem ploop_digits_count (hcc : cc.AsciiOK) {w : List Nat} {p : PState} {acc : Ents} (i : Nat)
    (hst : p.st = .count) (hw : ∀ c ∈ w, isAsciiDigit c = true) :
    ploop cc T sub s w i p acc = .ok (p, acc) :=
  ploop_stay cc T sub s (fun c hc j => step_count_digit cc T sub s hcc j hst (hw c hc)) i

theorem ploop_digits_gc (hcc : cc.AsciiOK) {w : List Nat} {p : PState} {acc : Ents} (i : Nat)
    (hst : p.st = .groupCount) (hw : ∀ c ∈ w, isAsciiDigit c = true) :
    ploop cc T sub s w i p acc = .ok (p, acc) :=
  ploop_stay cc T sub s (fun c hc j => step_gc_digit cc T sub s hcc j hst (hw c hc)) i

theorem ploop_inert_elem {w : List Nat} {p : PState} {acc : Ents} (i : Nat)
    (hst : p.st = .element) (hw : ∀ c ∈ w, inert cc c = true) :
    ploop cc T sub s w i p acc = .ok (p, acc) :=
  ploop_stay cc T sub s (fun c hc j => step_elem_inert cc T sub s j hst (hw c hc)) i

theorem ploop_group_flat {w : List Nat} {p : PState} {acc : Ents} (i : Nat)
    (hst : p.st = .group) (hw : ∀ c ∈ w, c ≠ 40 ∧ c ≠ 41) :
    ploop cc T sub s w i p acc = .ok (p, acc) :=
  ploop_stay cc T sub s (fun c hc j => step_group_other cc T sub s j hst (hw c hc).1 (hw c hc).2) i

end

/-! ### slices -/

theorem slice_mid {s pre mid post : List Nat} {a b : Nat} (hs : s = pre ++ mid ++ post)
    (ha : a = pre.length) (hb : b = pre.length + mid.length) : slice s a b = .ok mid := by
  subst hs ha hb
  unfold slice
  have h1 : pre.length ≤ pre.length + mid.length ∧ pre.length + mid.length ≤ (pre ++ mid ++ post).length := by
    simp only [List.length_append]; omega
  rw [if_pos h1]
  congr 1
  have : pre.length + mid.length = (pre ++ mid).length := by simp
  rw [this, List.take_left', List.drop_left']
  rfl
  rfl

end Chem
