import Mathlib.Tactic.FieldSimp
import Mathlib.Tactic.Ring
import Mathlib.Tactic.Linarith
import Mathlib.Algebra.Order.Field.Rat
import ChemProofs.Model.Peaks
import ChemProofs.Spec.PeaksSpec
/- Helper lemmas for C13 / C14. -/
namespace Chem

theorem total_nil : total [] = 0 := rfl
theorem total_cons (q : Peak) (l : List Peak) : total (q :: l) = q.int + total l := by
  simp [total, intensities]
theorem total_append (a b : List Peak) : total (a ++ b) = total a + total b := by
  simp [total, intensities, List.sum_append]

theorem total_scale (l : List Peak) (f : Rat) :
    total (l.map (fun q => { q with int := q.int * f })) = total l * f := by
  induction l with
  | nil => simp [total, intensities]
  | cons q rest ih => simp only [List.map_cons, total_cons, ih]; ring

theorem total_nonneg (l : List Peak) (h : ∀ q ∈ l, 0 < q.int) : 0 ≤ total l := by
  induction l with
  | nil => simp [total_nil]
  | cons q rest ih =>
    rw [total_cons]
    have := h q (by simp)
    have := ih (fun x hx => h x (by simp [hx]))
    linarith

theorem total_pos (l : List Peak) (hne : l ≠ []) (h : ∀ q ∈ l, 0 < q.int) : 0 < total l := by
  cases l with
  | nil => exact absurd rfl hne
  | cons q rest =>
    rw [total_cons]
    have := h q (by simp)
    have := total_nonneg rest (fun x hx => h x (by simp [hx]))
    linarith

/-- characterisation of the truncation loop -/
theorem stopLoop_char (t : Rat) (l pre : List Peak) (acc : Rat) (hacc : acc = total pre)
    (hpre : ∀ j, j < pre.length → ¬ t ≤ total ((pre ++ l).take (j + 1))) :
    (Pattern.stopLoop t l acc pre.length).2 = total ((pre ++ l).take ((Pattern.stopLoop t l acc pre.length).1 + 1)) ∧
    ((t ≤ total ((pre ++ l).take ((Pattern.stopLoop t l acc pre.length).1 + 1)) ∧
        (Pattern.stopLoop t l acc pre.length).1 < (pre ++ l).length ∧
        ∀ j, j < (Pattern.stopLoop t l acc pre.length).1 → ¬ t ≤ total ((pre ++ l).take (j + 1))) ∨
     ((Pattern.stopLoop t l acc pre.length).1 = (pre ++ l).length - 1 ∧
        ∀ j, j < (pre ++ l).length → ¬ t ≤ total ((pre ++ l).take (j + 1)))) := by
  induction l generalizing pre acc with
  | nil =>
    simp only [Pattern.stopLoop, List.append_nil]
    refine ⟨?_, Or.inr ⟨by trivial, by simpa using hpre⟩⟩
    rw [hacc]
    cases pre with
    | nil => simp [total_nil]
    | cons x xs => simp
  | cons q rest ih =>
    simp only [Pattern.stopLoop]
    have hacc' : acc + q.int = total ((pre ++ q :: rest).take (pre.length + 1)) := by
      rw [List.take_append]
      have h1 : List.take (pre.length + 1) pre = pre := List.take_of_length_le (by omega)
      simp [total_append, total_cons, total_nil, hacc, h1]
    by_cases hge : t ≤ acc + q.int
    · simp only [hge, if_true]
      exact ⟨hacc', Or.inl ⟨hacc' ▸ hge, by simp, hpre⟩⟩
    · simp only [hge, if_false]
      have happ : (pre ++ [q]) ++ rest = pre ++ q :: rest := by simp
      have hlen : (pre ++ [q]).length = pre.length + 1 := by simp
      have := ih (pre ++ [q]) (acc + q.int) (by simp [total_append, total_cons, total_nil, hacc]) (by
        intro j hj
        rw [happ]
        rw [hlen] at hj
        by_cases hjl : j < pre.length
        · exact hpre j hjl
        · have : j = pre.length := by omega
          subst this
          rw [← hacc']; exact hge)
      rw [hlen, happ] at this
      exact this

/-- the loop's prefix is the specified one -/
theorem stopLoop_prefix (t : Rat) (l : List Peak) :
    l.take ((Pattern.stopLoop t l 0 0).1 + 1) = Spec.prefixReaching t l ∧
    (Pattern.stopLoop t l 0 0).2 = total (Spec.prefixReaching t l) := by
  have h := stopLoop_char t l [] 0 (by simp [total_nil]) (by simp)
  simp only [List.nil_append, List.length_nil] at h
  obtain ⟨h2, h3⟩ := h
  have key : l.take ((Pattern.stopLoop t l 0 0).1 + 1) = Spec.prefixReaching t l := by
    unfold Spec.prefixReaching
    rcases h3 with ⟨hge, hlt, hmin⟩ | ⟨hk, hall⟩
    · have : (List.range l.length).find? (fun k => decide (t ≤ total (l.take (k + 1)))) = some (Pattern.stopLoop t l 0 0).1 := by
        rw [List.find?_range_eq_some]
        refine ⟨by simpa using hge, by simpa using hlt, ?_⟩
        intro j hj
        simpa using hmin j hj
      simp only [this]
    · have : (List.range l.length).find? (fun k => decide (t ≤ total (l.take (k + 1)))) = none := by
        rw [List.find?_range_eq_none]
        intro i hi
        simpa using hall i hi
      simp only [this, hk]
      cases l with
      | nil => rfl
      | cons x xs => simp
  exact ⟨key, by rw [h2, key]⟩

end Chem
