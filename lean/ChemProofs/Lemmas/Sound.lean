import ChemProofs.Model.Formula
import ChemProofs.Spec.RawGrammar
import ChemProofs.Lemmas.Ents
import ChemProofs.Lemmas.Digits
import ChemProofs.Lemmas.PStep
/-
Helpers for `Props/C05Sound.lean` (the converse direction of C05): appending a term at the end of a
raw syntax tree, inversion lemmas for the fallible helpers of the parser model, digit strings, and
the accumulator bookkeeping of one flushed term.  Core Lean only.
-/
namespace Chem
open Spec

/-! ## `snoc` on raw term lists -/

namespace Spec

def RTerms.snoc : RTerms → RTerm → RTerms
  | .nil, t => .cons t .nil
  | .cons u us, t => .cons u (us.snoc t)

theorem RTerms.render_snoc : ∀ (ts : RTerms) (t : RTerm), (ts.snoc t).render = ts.render ++ t.render
  | .nil, t => by simp [RTerms.snoc, RTerms.render]
  | .cons u us, t => by simp [RTerms.snoc, RTerms.render, RTerms.render_snoc us t]

theorem RTerms.wf_snoc (T : Table) : ∀ (ts : RTerms) (t : RTerm),
    (ts.snoc t).wf T = (ts.wf T && t.wf T)
  | .nil, t => by simp [RTerms.snoc, RTerms.wf]
  | .cons u us, t => by simp [RTerms.snoc, RTerms.wf, RTerms.wf_snoc T us t, Bool.and_assoc]

theorem RTerms.denote_snoc (T : Table) (k : Key) : ∀ (ts : RTerms) (t : RTerm),
    (ts.snoc t).denote T k = ts.denote T k + t.denote T k
  | .nil, t => by simp [RTerms.snoc, RTerms.denote]
  | .cons u us, t => by
    simp only [RTerms.snoc, RTerms.denote, RTerms.denote_snoc T k us t]; omega

theorem RTerms.nonEmpty_snoc : ∀ (ts : RTerms) (t : RTerm), (ts.snoc t).nonEmpty = true
  | .nil, _ => rfl
  | .cons _ _, _ => rfl

end Spec

/-! ## inversion of `Res.bind` and of the helpers -/

theorem Res.bind_ok_inv {α β} {r : Res α} {f : α → Res β} {b : β} (h : r.bind f = .ok b) :
    ∃ a, r = .ok a ∧ f a = .ok b := by
  cases r with
  | ok a => exact ⟨a, rfl, h⟩
  | err => cases h
  | panic => cases h

theorem slice_ok {s : List Nat} {a b : Nat} {r : List Nat} (h : slice s a b = .ok r) :
    a ≤ b ∧ b ≤ s.length ∧ r = (s.take b).drop a := by
  unfold slice at h
  split at h
  · rename_i hh
    injection h with h
    exact ⟨hh.1, hh.2, h.symm⟩
  · cases h

/-- a slice that is known to succeed, computed from a decomposition of the text -/
theorem slice_val {s pre mid post r : List Nat} {a b : Nat} (h : slice s a b = .ok r)
    (hs : s = pre ++ (mid ++ post)) (ha : a = pre.length) (hb : b = pre.length + mid.length) :
    r = mid := by
  have := slice_mid (s := s) (pre := pre) (mid := mid) (post := post) (a := a) (b := b)
    (by rw [hs, List.append_assoc]) ha hb
  rw [this] at h
  injection h with h
  exact h.symm

theorem lookupElem_ok {T : Table} {s : List Nat} {p p' : PState} {e : Elem}
    (h : lookupElem T s p = .ok (e, p')) :
    ∃ sym, slice s p.es p.ee = .ok sym ∧ T.find? sym = some e ∧ p' = { p with es := 0, ee := 0 } := by
  unfold lookupElem at h
  obtain ⟨sym, hs, h⟩ := Res.bind_ok_inv h
  refine ⟨sym, hs, ?_⟩
  cases hf : T.find? sym with
  | none => rw [hf] at h; cases h
  | some e' =>
    rw [hf] at h
    injection h with h
    injection h with h1 h2
    subst h1
    exact ⟨rfl, h2.symm⟩

theorem elemCount_ok {s : List Nat} {p p' : PState} {n : Int}
    (h : elemCount s p = .ok (n, p')) :
    ∃ ds, slice s p.cs p.ce = .ok ds ∧ parseI32 ds = some n ∧ p' = { p with cs := 0, ce := 0 } := by
  unfold elemCount at h
  obtain ⟨ds, hs, h⟩ := Res.bind_ok_inv h
  refine ⟨ds, hs, ?_⟩
  cases hf : parseI32 ds with
  | none => rw [hf] at h; cases h
  | some e' =>
    rw [hf] at h
    injection h with h
    injection h with h1 h2
    subst h1
    exact ⟨rfl, h2.symm⟩

theorem groupCount_inv {s : List Nat} {p p' : PState} {n : Int}
    (h : groupCount s p = .ok (n, p')) :
    ∃ ds, slice s p.gcs p.gce = .ok ds ∧ parseI32 ds = some n ∧ p' = { p with gcs := 0, gce := 0 } := by
  unfold groupCount at h
  obtain ⟨ds, hs, h⟩ := Res.bind_ok_inv h
  refine ⟨ds, hs, ?_⟩
  cases hf : parseI32 ds with
  | none => rw [hf] at h; cases h
  | some e' =>
    rw [hf] at h
    injection h with h
    injection h with h1 h2
    subst h1
    exact ⟨rfl, h2.symm⟩

theorem isoNumber_ok {s : List Nat} {p : PState} {v : Nat} (h : isoNumber s p = .ok v) :
    ∃ ds, slice s p.is p.ie = .ok ds ∧ parseU16 ds = some v := by
  unfold isoNumber at h
  obtain ⟨ds, hs, h⟩ := Res.bind_ok_inv h
  refine ⟨ds, hs, ?_⟩
  cases hf : parseU16 ds with
  | none => rw [hf] at h; cases h
  | some e' =>
    rw [hf] at h
    injection h with h
    subst h
    rfl

theorem mkKey_ok {e : Elem} {iso : Nat} {k : Key} (h : mkKey e iso = .ok k) :
    k = (e.sym, iso) ∧ (iso = 0 ∨ (e.iso? iso).isSome = true) := by
  unfold mkKey at h
  split at h
  · cases h
  · rename_i hh
    injection h with h
    refine ⟨h.symm, ?_⟩
    by_cases h0 : iso = 0
    · exact Or.inl h0
    · right
      cases hi : e.iso? iso with
      | none => simp [hi, h0] at hh
      | some _ => rfl

theorem flushElem_inv {T : Table} {s : List Nat} {p p' : PState} {acc acc' : Ents}
    (h : flushElem T s p acc = .ok (p', acc')) :
    ∃ sym e, slice s p.es p.ee = .ok sym ∧ T.find? sym = some e ∧
      p' = { p with es := 0, ee := 0 } ∧ acc' = acc.inc (e.sym, 0) 1 := by
  unfold flushElem at h
  obtain ⟨⟨e, q⟩, h1, h⟩ := Res.bind_ok_inv h
  obtain ⟨sym, hs, hf, hq⟩ := lookupElem_ok h1
  injection h with h
  injection h with h2 h3
  exact ⟨sym, e, hs, hf, by rw [← h2, hq], h3.symm⟩

theorem flushIso_inv {T : Table} {s : List Nat} {p p' : PState} {acc acc' : Ents}
    (h : flushIso T s p acc = .ok (p', acc')) :
    ∃ sym e ds v, slice s p.es p.ee = .ok sym ∧ T.find? sym = some e ∧
      slice s p.is p.ie = .ok ds ∧ parseU16 ds = some v ∧ (v = 0 ∨ (e.iso? v).isSome = true) ∧
      p' = { p with es := 0, ee := 0, is := 0, ie := 0 } ∧ acc' = acc.inc (e.sym, v) 1 := by
  unfold flushIso at h
  obtain ⟨⟨e, q⟩, h1, h⟩ := Res.bind_ok_inv h
  obtain ⟨sym, hs, hf, hq⟩ := lookupElem_ok h1
  subst hq
  obtain ⟨v, h2, h⟩ := Res.bind_ok_inv h
  obtain ⟨ds, hds, hv⟩ := isoNumber_ok h2
  obtain ⟨k, h3, h⟩ := Res.bind_ok_inv h
  obtain ⟨hk, hiso⟩ := mkKey_ok h3
  subst hk
  injection h with h
  injection h with h4 h5
  exact ⟨sym, e, ds, v, hs, hf, hds, hv, hiso, h4.symm, h5.symm⟩

theorem flushCount_inv {T : Table} {s : List Nat} {p p' : PState} {acc acc' : Ents}
    (h : flushCount T s p acc = .ok (p', acc')) :
    ∃ cds n sym e v, slice s p.cs p.ce = .ok cds ∧ parseI32 cds = some n ∧
      slice s p.es p.ee = .ok sym ∧ T.find? sym = some e ∧
      ((p.ie = p.is ∧ v = 0) ∨ (p.ie ≠ p.is ∧ ∃ ds, slice s p.is p.ie = .ok ds ∧ parseU16 ds = some v)) ∧
      (v = 0 ∨ (e.iso? v).isSome = true) ∧
      p' = { p with cs := 0, ce := 0, es := 0, ee := 0, is := 0, ie := 0 } ∧
      acc' = acc.inc (e.sym, v) n := by
  unfold flushCount at h
  obtain ⟨⟨n, q⟩, h1, h⟩ := Res.bind_ok_inv h
  obtain ⟨cds, hcs, hn, hq⟩ := elemCount_ok h1
  subst hq
  obtain ⟨v, h2, h⟩ := Res.bind_ok_inv h
  obtain ⟨⟨e, q⟩, h3, h⟩ := Res.bind_ok_inv h
  obtain ⟨sym, hs, hf, hq⟩ := lookupElem_ok h3
  subst hq
  obtain ⟨k, h4, h⟩ := Res.bind_ok_inv h
  obtain ⟨hk, hiso⟩ := mkKey_ok h4
  subst hk
  injection h with h
  injection h with h5 h6
  refine ⟨cds, n, sym, e, v, hcs, hn, hs, hf, ?_, hiso, h5.symm, h6.symm⟩
  dsimp only at h2
  split at h2
  · rename_i hne
    have hne : p.ie ≠ p.is := by simpa using hne
    obtain ⟨ds, hds, hv⟩ := isoNumber_ok h2
    exact Or.inr ⟨hne, ds, hds, hv⟩
  · rename_i heq
    have heq : p.ie = p.is := by simpa using heq
    injection h2 with h2
    exact Or.inl ⟨heq, h2.symm⟩

/-! ## digit strings -/

theorem digitsVal_some_all {ds : List Nat} {v : Nat} (h : digitsVal ds = some v) :
    ds ≠ [] ∧ ds.all isAsciiDigit = true := by
  unfold digitsVal at h
  split at h
  · cases h
  · rename_i hne
    split at h
    · rename_i hall
      exact ⟨by intro e; exact hne e, hall⟩
    · cases h

theorem not_numeric_sign {cc : CharClass} (hcc : cc.AsciiOK) :
    cc.numeric 43 = false ∧ cc.numeric 45 = false := by
  constructor
  · rw [(hcc 43 (by omega)).2.1]; rfl
  · rw [(hcc 45 (by omega)).2.1]; rfl

/-- a successful `parse::<i32>()` on `cc.numeric` characters: a non-empty run of ASCII digits -/
theorem parseI32_numeric {cc : CharClass} (hcc : cc.AsciiOK) {ds : List Nat} {n : Int}
    (hnum : ∀ c ∈ ds, cc.numeric c = true) (h : parseI32 ds = some n) :
    ds ≠ [] ∧ ds.all isAsciiDigit = true := by
  obtain ⟨h43, h45⟩ := not_numeric_sign hcc
  unfold parseI32 at h
  split at h
  · have := hnum 45 (by simp)
    rw [h45] at this; cases this
  · have := hnum 43 (by simp)
    rw [h43] at this; cases this
  · cases hd : digitsVal ds with
    | none => rw [hd] at h; cases h
    | some v => exact digitsVal_some_all hd

/-- a successful `parse::<u16>()` on `cc.numeric` characters: a non-empty run of ASCII digits -/
theorem parseU16_numeric {cc : CharClass} (hcc : cc.AsciiOK) {ds : List Nat} {v : Nat}
    (hnum : ∀ c ∈ ds, cc.numeric c = true) (h : parseU16 ds = some v) :
    ds ≠ [] ∧ ds.all isAsciiDigit = true := by
  obtain ⟨h43, _⟩ := not_numeric_sign hcc
  unfold parseU16 at h
  dsimp only at h
  split at h
  · rename_i v' heq
    split at heq
    · have := hnum 43 (by simp)
      rw [h43] at this; cases this
    · exact digitsVal_some_all heq
  · cases h

theorem cntOK_of_parse {cc : CharClass} (hcc : cc.AsciiOK) {ds : List Nat} {n : Int}
    (hnum : ∀ c ∈ ds, cc.numeric c = true) (h : parseI32 ds = some n) :
    cntOK (some ds) = true ∧ cntVal (some ds) = n := by
  obtain ⟨hne, hall⟩ := parseI32_numeric hcc hnum h
  constructor
  · cases ds with
    | nil => exact absurd rfl hne
    | cons d ds => simp only [cntOK, hall, h, List.isEmpty_cons, Bool.not_false, Bool.and_self,
        Option.isSome_some]
  · simp only [cntVal, h, Option.getD_some]

theorem isoOKr_of_parse {cc : CharClass} (hcc : cc.AsciiOK) {e : Elem} {ds : List Nat} {v : Nat}
    (hnum : ∀ c ∈ ds, cc.numeric c = true) (h : parseU16 ds = some v)
    (hv : v = 0 ∨ (e.iso? v).isSome = true) :
    isoOKr e (some ds) = true ∧ isoVal (some ds) = v := by
  obtain ⟨_, hall⟩ := parseU16_numeric hcc hnum h
  constructor
  · simp only [isoOKr, hall, h, Bool.true_and, Bool.or_eq_true, beq_iff_eq]
    right; exact hv
  · simp only [isoVal, h, Option.getD_some]

theorem isoOKr_empty (e : Elem) : isoOKr e (some []) = true ∧ isoVal (some []) = 0 := by
  constructor
  · rfl
  · rfl

/-! ## what has been flushed so far -/

/-- `acc` is the denotation of the well-formed terms `ts` -/
structure Done (T : Table) (ts : RTerms) (acc : Ents) : Prop where
  wf : ts.wf T = true
  nodup : acc.NoDupKeys
  den : ∀ k, acc.get k = ts.denote T k

theorem done_nil (T : Table) : Done T .nil [] :=
  ⟨rfl, Ents.nodup_nil, fun _ => rfl⟩

/-- one more element term -/
theorem Done.snoc_elem {T : Table} {ts : RTerms} {acc : Ents} (hd : Done T ts acc)
    {sym : Sym} {e : Elem} {iso cnt : Option (List Nat)} {v : Nat} {n : Int}
    (hf : T.find? sym = some e) (hu : upperHead sym = true)
    (hiso : isoOKr e iso = true) (hv : isoVal iso = v)
    (hcnt : cntOK cnt = true) (hn : cntVal cnt = n) :
    Done T (ts.snoc (.elem sym iso cnt)) (acc.inc (e.sym, v) n) := by
  refine ⟨?_, Ents.nodup_inc _ _ _ hd.nodup, ?_⟩
  · rw [RTerms.wf_snoc, hd.wf]
    simp only [RTerm.wf, hf, hu, hiso, hcnt, Bool.and_self]
  · intro k
    rw [Ents.get_inc, RTerms.denote_snoc, hd.den]
    simp only [RTerm.denote, hf, hv, hn]

/-- one more group term -/
theorem Done.snoc_group {T : Table} {ts body : RTerms} {acc g : Ents} (hd : Done T ts acc)
    (hb : Done T body g) (hne : body.nonEmpty = true)
    {cnt : Option (List Nat)} {n : Int} (hcnt : cntOK cnt = true) (hn : cntVal cnt = n) :
    Done T (ts.snoc (.group body cnt)) (acc.addFrom (g.mapCounts (n * ·)) 1) := by
  refine ⟨?_, Ents.nodup_addFrom _ _ _ hd.nodup, ?_⟩
  · rw [RTerms.wf_snoc, hd.wf]
    simp only [RTerm.wf, hne, hb.wf, hcnt, Bool.and_self]
  · intro k
    rw [Ents.get_addFrom, Ents.sumFor_nodup _ _ (Ents.nodup_mapCounts _ _ hb.nodup),
      Ents.get_mapCounts_mul, RTerms.denote_snoc, hd.den, hb.den]
    simp only [RTerm.denote, hn]
    omega

/-- one more group term without a count -/
theorem Done.snoc_group_one {T : Table} {ts body : RTerms} {acc g : Ents} (hd : Done T ts acc)
    (hb : Done T body g) (hne : body.nonEmpty = true) :
    Done T (ts.snoc (.group body none)) (acc.addFrom g 1) := by
  refine ⟨?_, Ents.nodup_addFrom _ _ _ hd.nodup, ?_⟩
  · rw [RTerms.wf_snoc, hd.wf]
    simp only [RTerm.wf, hne, hb.wf, cntOK, Bool.and_self]
  · intro k
    rw [Ents.get_addFrom, Ents.sumFor_nodup _ _ hb.nodup, RTerms.denote_snoc, hd.den, hb.den]
    simp only [RTerm.denote, cntVal]

end Chem
