import ChemProofs.Model.Poisson
import ChemProofs.Model.Comp
import ChemProofs.Model.Formula
/-
Model of `src/isotopic_pattern/baffling.rs` (BRAIN; as repaired for D13/D14/D26, and WITH the
recorded defect D5: the isotope key walk of `isotopic_coefficients` is transcribed as written)
over exact rationals.  `exp(Σ ln a)` is idealised as `∏ a` (a common scale factor).
-/
namespace Chem

abbrev DVec := List Rat

def altSign (i : Nat) : Rat := if i % 2 == 0 then 1 else -1

/-- `vietes`: panics (index out of range) on an empty coefficient vector -/
def vietes (c : DVec) : Res DVec :=
  match c.getLast? with
  | none => .panic
  | some tail => .ok ((List.range c.length).map fun i => altSign i * c.getD (c.length - i - 1) 0 / tail)

structure PolyParams where
  esp : DVec
  ps : DVec
deriving Repr, Inhabited

/-- one new power sum from the elementary symmetric polynomials (Newton's identity, as written) -/
def nextPowerSum (esp ps : DVec) (k : Nat) : Rat :=
  if k == 0 then 0 else
  ((List.range (k - 1)).map fun j0 =>
      let j := j0 + 1
      altSign j0 * esp.getD j 0 * ps.getD (k - j) 0).sum
    + altSign (k - 1) * esp.getD k 0 * (k : Rat)

/-- `update_power_sum`: extend `ps` up to the length of `esp` -/
def updatePowerSum (esp : DVec) : Nat → DVec → DVec
  | 0, ps => ps
  | fuel + 1, ps =>
    if ps.length < esp.length then updatePowerSum esp fuel (ps ++ [nextPowerSum esp ps ps.length]) else ps

/-- one new elementary symmetric polynomial from the power sums -/
def nextEsp (esp ps : DVec) (k : Nat) (order : Int) : Rat :=
  if k == 0 then 1
  else if 0 ≤ order ∧ order < (k : Int) then 0     -- `k > (order as usize)`: a negative order wraps to a huge usize
  else ((List.range k).map fun j0 =>
      let j := j0 + 1
      altSign j0 * ps.getD j 0 * esp.getD (k - j) 0).sum / (k : Rat)

/-- `update_elementary_symmetric_polynomial(order)`: extend `esp` up to the length of `ps` -/
def updateEsp (ps : DVec) (order : Int) : Nat → DVec → DVec
  | 0, esp => esp
  | fuel + 1, esp =>
    if esp.length < ps.length then updateEsp ps order fuel (esp ++ [nextEsp esp ps esp.length order]) else esp

/-- `newton_optimization(order)` -/
def PolyParams.newton (p : PolyParams) (order : Int) : PolyParams :=
  if p.ps.length < p.esp.length then { p with ps := updatePowerSum p.esp (p.esp.length - p.ps.length) p.ps }
  else if p.esp.length < p.ps.length then { p with esp := updateEsp p.ps order (p.ps.length - p.esp.length) p.esp }
  else p

/-- `isotopic_coefficients`: the walk over `k = n + element_number - i - 1` exactly as written -/
def isoCoefLoop (e : Elem) (withMass : Bool) (one : Rat) : List Nat → DVec → Res DVec
  | [], acc => .ok acc
  | i :: rest, acc =>
    let k : Int := (e.isos.length : Int) + (e.elemNum : Int) - (i : Int) - 1
    if k < 0 then .panic else
    match e.iso? k.toNat with
    | none => isoCoefLoop e withMass one rest acc
    | some iso =>
      let order := (e.maxShift - iso.shift).toNat
      let coef : Rat := if withMass then (iso.mass : Rat) / one else 1
      let v := coef * ((iso.abund : Rat) / one)
      if acc.length < order then isoCoefLoop e withMass one rest (acc ++ List.replicate (order - acc.length) 0 ++ [v])
      else if acc.length == order then isoCoefLoop e withMass one rest (acc ++ [v])
      else .panic

def isotopicCoefficients (e : Elem) (withMass : Bool) (one : Rat) : Res DVec :=
  isoCoefLoop e withMass one (List.range ((e.maxShift - e.minShift).toNat + 1)) []

/-- `PolynomialParameters::from_element` -/
def PolyParams.fromElement (e : Elem) (withMass : Bool) (one : Rat) : Res PolyParams :=
  (isotopicCoefficients e withMass one).bind fun acc =>
    (vietes acc).bind fun esp =>
      .ok (PolyParams.newton ⟨esp, []⟩ ((acc.length : Int) - 1))

structure Phi where
  order : Int
  key : Sym
  elem : PolyParams
  mass : PolyParams
deriving Repr, Inhabited

/-- `PhiConstants::from_element` -/
def Phi.fromElement (e : Elem) (one : Rat) : Res Phi :=
  (PolyParams.fromElement e false one).bind fun ec =>
    (PolyParams.fromElement e true one).bind fun mc =>
      .ok { order := e.maxShift, key := e.sym, elem := ec, mass := mc }

/-- `IsotopicConstants`: a vector of (symbol, constants) and an order -/
structure IsoConstants where
  consts : List (Sym × Phi)
  order : Int
deriving Repr, Inhabited

def IsoConstants.get (c : IsoConstants) (s : Sym) : Option Phi := (c.consts.find? (fun x => x.1 == s)).map (·.2)

/-- `add`: nothing if the symbol is already present -/
def IsoConstants.add (c : IsoConstants) (e : Elem) (one : Rat) : Res IsoConstants :=
  match c.get e.sym with
  | some _ => .ok c
  | none => (Phi.fromElement e one).bind fun phi => .ok { c with consts := c.consts ++ [(e.sym, phi)] }

/-- the body of `update` for one entry -/
def Phi.update (phi : Phi) (order : Int) : Phi :=
  if order < phi.order then phi else
  let pad := List.replicate (order + 1 - phi.order).toNat (0 : Rat)
  let ec : PolyParams := { phi.elem with esp := phi.elem.esp ++ pad }
  let mc : PolyParams := { phi.mass with esp := phi.mass.esp ++ pad }
  let o : Int := ec.esp.length
  { phi with order := o, elem := ec.newton o, mass := mc.newton o }

def IsoConstants.update (c : IsoConstants) : IsoConstants :=
  { c with consts := c.consts.map fun x => (x.1, x.2.update c.order) }

/-- a natural-abundance composition as the generator sees it: (element, count) in iteration order -/
abbrev BComp := List (Elem × Int)

def maxVariants (c : BComp) : Int := (c.map fun x => x.1.maxShift * x.2).sum

def monoMassOf (c : BComp) (one : Rat) : Rat := (c.map fun x => ((x.1.mostMass : Rat) / one) * (x.2 : Rat)).sum

/-- `make_monoisotopic_peak`'s intensity: one factor per *entry* (as written), idealised `exp∘Σln = ∏` -/
def baseIntensity (c : BComp) (one : Rat) : Rat :=
  (c.map fun x => match x.1.iso? x.1.mostIso with
    | some i => (i.abund : Rat) / one
    | none => 1).foldl (· * ·) 1

inductive PeakReq where
  | guess
  | fixed (n : Int)
  | percent (f : Rat)
deriving Repr, DecidableEq

structure BrainConsts where
  one : Rat              -- units of the table's integers
  lambdaFactor : Rat
  maxIter : Nat
  guessCap : Int
  guessFraction : Rat
  cut : Rat

/-- `NumPeaksSpec::num_peaks` (i32 saturating arithmetic as written) -/
def numPeaks (K : BrainConsts) (c : BComp) : PeakReq → Int
  | .guess => min (poissonN (monoMassOf c K.one) K.lambdaFactor K.guessFraction K.maxIter : Int) K.guessCap
  | .fixed n => max ((max (n - 1) (-2147483648))) 0
  | .percent f => max ((poissonN (monoMassOf c K.one) K.lambdaFactor f K.maxIter : Int) - 1) 0

/-- `From<i32> for NumPeaksSpec` -/
def reqOfInt (n : Int) : PeakReq := if n == 0 then .guess else .fixed n

/-- `update_order` -/
def updateOrder (V : Int) (x : Int) : Int := if x == -1 then V else min x V

/-- the order the distribution ends up with: `fill_from_composition(npeaks)` (second conversion,
    `update_order(order + 1)`), then, for non-guess requests, `update_order(npeaks)` -/
def resolveOrder (K : BrainConsts) (c : BComp) (req : PeakReq) : Int :=
  let V := maxVariants c
  let npeaks := numPeaks K c req
  let order2 := numPeaks K c (reqOfInt npeaks)
  let o1 := updateOrder V (order2 + 1)
  if req == .guess then o1 else updateOrder V npeaks

/-- `nth_element_power_sum` / `_mass` (panic: missing symbol or index out of range) -/
def nthPs (c : IsoConstants) (s : Sym) (k : Nat) (mass : Bool) : Res Rat :=
  match c.get s with
  | none => .panic
  | some phi =>
    let v := if mass then phi.mass.ps else phi.elem.ps
    if k < v.length then .ok (v.getD k 0) else .panic

def sumRes (l : List (Res Rat)) : Res Rat :=
  l.foldl (fun acc x => acc.bind fun a => x.bind fun b => .ok (a + b)) (.ok 0)

def mapRes {α β} (f : α → Res β) : List α → Res (List β)
  | [] => .ok []
  | x :: xs => (f x).bind fun y => (mapRes f xs).bind fun ys => .ok (y :: ys)

/-- `phi_for(order)` -/
def phiFor (consts : IsoConstants) (c : BComp) (k : Nat) : Res Rat :=
  sumRes (c.map fun x => (nthPs consts x.1.sym k false).bind fun v => .ok (v * (x.2 : Rat)))

/-- `phi_mass_for(element, order)` -/
def phiMassFor (consts : IsoConstants) (c : BComp) (e : Elem) (k : Nat) : Res Rat :=
  (sumRes (c.map fun x =>
      let coef : Int := if x.1.sym == e.sym && x.1.mostIso == e.mostIso then x.2 - 1 else x.2
      (nthPs consts x.1.sym k false).bind fun v => .ok (v * (coef : Rat)))).bind fun s =>
    (nthPs consts e.sym k true).bind fun m => .ok (s + m)

/-- esp of a power-sum vector: `newton_optimization(max_variants)` on `{ps, esp := []}` -/
def espOfPs (ps : DVec) (V : Int) : DVec := (PolyParams.newton ⟨[], ps⟩ V).esp

/-- `probability_vector` -/
def probabilityVector (consts : IsoConstants) (c : BComp) (order : Nat) (V : Int) (base : Rat) : Res DVec :=
  (mapRes (fun i => phiFor consts c (i + 1)) (List.range order)).bind fun phis =>
    let esp := espOfPs (0 :: phis) V
    .ok (esp.zipIdx.map fun (x, i) => x * (base * altSign i))

/-- `center_mass_vector` -/
def centerMassVector (consts : IsoConstants) (c : BComp) (order : Nat) (V : Int) (base one : Rat) (prob : DVec) :
    Res DVec :=
  (mapRes (fun (x : Elem × Int) =>
      (mapRes (fun i => phiMassFor consts c x.1 (i + 1)) (List.range order)).bind fun phis =>
        .ok (x.1.sym, espOfPs (0 :: phis) V)) c).bind fun polys =>
    mapRes (fun i =>
      let center := (c.map fun x =>
        match polys.find? (fun q => q.1 == x.1.sym) with
        | some q => (x.2 : Rat) * (altSign i * q.2.getD i 0) * base * ((x.1.mostMass : Rat) / one)
        | none => 0).sum
      if i < prob.length then
        (if prob.getD i 0 == 0 then .ok 0 else .ok (center / prob.getD i 0))
      else .panic) (List.range (order + 1))

def insertByMz (x : Peak) : List Peak → List Peak
  | [] => [x]
  | y :: ys => if x.mz < y.mz then x :: y :: ys else y :: insertByMz x ys

/-- stable sort by m/z -/
def sortByMz (l : List Peak) : List Peak := l.foldl (fun acc x => insertByMz x acc) []

/-- the cut loop of `isotopic_variants` (as repaired: a negligible variant after a real one is skipped) -/
def cutLoop (cut : Rat) : List Peak → Bool → List Peak
  | [], _ => []
  | p :: rest, hasReal =>
    if p.int < cut then (if hasReal then cutLoop cut rest hasReal else p :: cutLoop cut rest hasReal)
    else p :: cutLoop cut rest true

/-- the (m/z, intensity) of every variant `0..=order` before the cut and the sort -/
def rawVariants (K : BrainConsts) (consts : IsoConstants) (c : BComp) (order : Nat) (z : Int) (carrier : Rat) :
    Res (List Peak) :=
  let V := maxVariants c
  let base := baseIntensity c K.one
  (probabilityVector consts c order V base).bind fun prob =>
    (centerMassVector consts c order V base K.one prob).bind fun cm =>
      let total := prob.sum
      .ok (((cm.zip prob).take (order + 1)).map fun (m, p) =>
        ({ mz := chargedMz m z carrier, int := p / total } : Peak))

/-- `IsotopicDistribution::isotopic_variants` given populated constants -/
def variantsWith (K : BrainConsts) (consts : IsoConstants) (c : BComp) (order : Nat) (z : Int) (carrier : Rat) :
    Res (List Peak) :=
  (rawVariants K consts c order z carrier).bind fun peaks => .ok (sortByMz (cutLoop K.cut peaks false))

/-- `populate_constants`: `add` per entry, then `update` -/
def populate (K : BrainConsts) (c : BComp) (order : Int) : Res IsoConstants :=
  (c.foldl (fun (acc : Res IsoConstants) x => acc.bind fun cs => cs.add x.1 K.one) (Res.ok ⟨[], order⟩)).bind fun cs => .ok cs.update

/-- the stateless `isotopic_variants(composition, npeaks, charge, carrier)` -/
def brainVariants (K : BrainConsts) (c : BComp) (req : PeakReq) (z : Int) (carrier : Rat) : Res (List Peak) :=
  let order := resolveOrder K c req
  (populate K c order).bind fun consts => variantsWith K consts c order.toNat z carrier

/-! ### the reusable generator: a cache of per-element constants -/

abbrev Cache := List (Sym × Phi)

def Cache.checkout (c : Cache) (s : Sym) : Option Phi × Cache :=
  match c.find? (fun x => x.1 == s) with
  | some x => (some x.2, c.filter (fun y => !(y.1 == s)))
  | none => (none, c)

/-- `receive`: insert unless a strictly higher order is already stored -/
def Cache.receive (c : Cache) (s : Sym) (phi : Phi) : Cache :=
  match c.find? (fun x => x.1 == s) with
  | none => c ++ [(s, phi)]
  | some x => if phi.order < x.2.order then c else c.map (fun y => if y.1 == s then (s, phi) else y)

/-- `populate_constants_from_cache` -/
def populateFromCache (K : BrainConsts) (c : BComp) (order : Int) (cache : Cache) : Res (IsoConstants × Cache) :=
  (c.foldl (fun (acc : Res (IsoConstants × Cache)) x => acc.bind fun (cs, cache) =>
      match Cache.checkout cache x.1.sym with
      | (some phi, cache') => .ok ({ cs with consts := cs.consts ++ [(x.1.sym, phi)] }, cache')
      | (none, cache') => (cs.add x.1 K.one).bind fun cs' => .ok (cs', cache'))
    (Res.ok (⟨[], order⟩, cache))).bind fun (cs, cache) => .ok (cs.update, cache)

/-- one call on a generator: result and new cache (`receive_from` drains the constants in order) -/
def generatorCall (K : BrainConsts) (cache : Cache) (c : BComp) (req : PeakReq) (z : Int) (carrier : Rat) :
    Res (List Peak × Cache) :=
  let order := resolveOrder K c req
  (populateFromCache K c order cache).bind fun (consts, cache) =>
    (variantsWith K consts c order.toNat z carrier).bind fun peaks =>
      .ok (peaks, consts.consts.foldl (fun ch x => Cache.receive ch x.1 x.2) cache)

end Chem
