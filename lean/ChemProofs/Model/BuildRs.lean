import ChemProofs.Model.Table
/-
Model of the table generator `data/build.rs` (`prepare_element`), bit-exact for the three places
where binary floating point decides the outcome:

* a JSON decimal becomes the nearest `f64` (`roundF64`, round-to-nearest-even to 53 bits),
* the sort key is `(abundance * 100.0).round() as i32` (one more `roundF64`, then half-away),
* masses and abundances are printed with `{:.6}` (exact value of the double, half-to-even).

Everything is `Nat` arithmetic so that the kernel can evaluate it over the whole data file.
-/
namespace Chem

/-- a non-negative decimal literal `man / 10^exp` -/
structure Dec where
  man : Nat
  exp : Nat
deriving DecidableEq, Repr, Inhabited

/-- a non-negative dyadic or general fraction `num / den` -/
structure Frac where
  num : Nat
  den : Nat
deriving DecidableEq, Repr, Inhabited

def Dec.toFrac (d : Dec) : Frac := ⟨d.man, 10 ^ d.exp⟩

def roundHalfEven (n d : Nat) : Nat :=
  let q := n / d
  let r := n % d
  if 2 * r < d then q else if d < 2 * r then q + 1 else if q % 2 == 0 then q else q + 1

def roundHalfAway (n d : Nat) : Nat :=
  let q := n / d
  let r := n % d
  if 2 * r < d then q else q + 1

/-- nearest binary64 to `p/q` (normal range, positive; 0 ↦ 0), ties to even -/
def roundF64 (x : Frac) : Frac :=
  if x.num == 0 || x.den == 0 then ⟨0, 1⟩ else
  let a := Nat.log2 x.num
  let b := Nat.log2 x.den
  -- L = ⌊log2 (p/q)⌋ as an Int
  let L0 : Int := (a : Int) - (b : Int)
  let ge (L : Int) : Bool :=   -- p/q ≥ 2^L ?
    if 0 ≤ L then decide (x.den * 2 ^ L.toNat ≤ x.num) else decide (x.den ≤ x.num * 2 ^ (-L).toNat)
  let L : Int := if ge L0 then L0 else L0 - 1
  let E : Int := L - 52
  -- mantissa = round-half-even (p / (q * 2^E))
  let M : Nat := if 0 ≤ E then roundHalfEven x.num (x.den * 2 ^ E.toNat)
                 else roundHalfEven (x.num * 2 ^ (-E).toNat) x.den
  if 0 ≤ E then ⟨M * 2 ^ E.toNat, 1⟩ else ⟨M, 2 ^ (-E).toNat⟩

def Frac.mulNat (x : Frac) (k : Nat) : Frac := ⟨x.num * k, x.den⟩

/-- `{:.6}` of a double whose exact value is `x`, in units of 10^-6 -/
def fmt6 (x : Frac) : Nat := roundHalfEven (x.num * 1000000) x.den

/-- one entry of `data/nist_mass.json`: the isotope key as text, mass and abundance literals -/
structure NistIso where
  key : List Nat      -- decimal digits (code points) of the JSON object key
  mass : Dec
  abund : Dec
deriving DecidableEq, Repr, Inhabited

structure NistElem where
  sym : Sym
  isos : List NistIso   -- in file order
deriving Repr, Inhabited

def lexLt : List Nat → List Nat → Bool
  | [], [] => false
  | [], _ :: _ => true
  | _ :: _, [] => false
  | a :: as, b :: bs => if a < b then true else if b < a then false else lexLt as bs

/-- stable insertion of `x` into a list sorted by `lt` (after every element not greater) -/
def insertSorted {α} (lt : α → α → Bool) (x : α) : List α → List α
  | [] => [x]
  | y :: ys => if lt x y then x :: y :: ys else y :: insertSorted lt x ys

def stableSort {α} (lt : α → α → Bool) (l : List α) : List α :=
  l.foldl (fun acc x => insertSorted lt x acc) []

def parseNat (ds : List Nat) : Nat := ds.foldl (fun n d => 10 * n + (d - 48)) 0

/-- the local `Isotope` of build.rs after `as_f64()` -/
structure BIso where
  mass : Frac
  abund : Frac
  neutrons : Nat
deriving Repr, Inhabited

def BIso.sortKey (i : BIso) : Nat :=
  let p := roundF64 (i.abund.mulNat 100)
  roundHalfAway p.num p.den

/-- `prepare_element` : the `Element` literal build.rs writes for one symbol (before
    `index_isotopes`, i.e. with min/max shift 0). -/
def prepareElement (e : NistElem) : Elem :=
  -- serde_json::Map (no preserve_order) iterates in key-string order
  let ordered := stableSort (fun a b => lexLt a.key b.key) e.isos
  let conv : List BIso := ordered.map (fun n =>
    { mass := roundF64 n.mass.toFrac, abund := roundF64 n.abund.toFrac, neutrons := parseNat n.key })
  let nonzero := conv.filter (fun i => i.abund.num != 0)
  let reference : BIso := (nonzero.filter (fun i => i.neutrons == 0)).getLast?.getD
      { mass := ⟨0, 1⟩, abund := ⟨0, 1⟩, neutrons := 0 }
  let isos := stableSort (fun a b => a.sortKey < b.sortKey) (nonzero.filter (fun i => i.neutrons != 0))
  match isos.getLast? with
  | some top =>
    let mk (y : BIso) : Iso :=
      { key := y.neutrons, mass := fmt6 y.mass, abund := fmt6 y.abund, neutrons := y.neutrons,
        shift := (y.neutrons : Int) - (top.neutrons : Int) }
    { tkey := e.sym, sym := e.sym,
      isos := stableSort (fun a b => a.key < b.key) (isos.map mk),
      mostIso := top.neutrons, mostMass := fmt6 top.mass,
      minShift := 0, maxShift := 0,
      elemNum := top.neutrons % 256 }   -- `element_number: u8` literal; the shift-0 isotope is `top`
  | none =>
    { tkey := e.sym, sym := e.sym,
      isos := [{ key := reference.neutrons, mass := fmt6 reference.mass, abund := fmt6 reference.abund,
                 neutrons := reference.neutrons, shift := 0 }],
      mostIso := 0, mostMass := fmt6 reference.mass, minShift := 0, maxShift := 0, elemNum := 0 }

/-- what the compiled table holds for that element: the literal, then `index_isotopes()` -/
def builtElement (e : NistElem) : Elem := (prepareElement e).indexIsotopes

def elemsAgree (a b : Elem) : Bool := a == b

/-- every generated element is in the table, verbatim, and nothing else is -/
def tableFromNist (nist : List NistElem) (T : Table) : Bool :=
  nist.length == T.length &&
  nist.all (fun n => match T.find? n.sym with
    | some e => elemsAgree (builtElement n) e
    | none => false)

end Chem
