import ChemProofs.Model.Formula
/-
Model of the C binding `bindings/c/src/lib.rs`: a table of live handles, one transition per
exported function, each defined FROM the models of the Rust API it calls (formula parser,
element-specification parser, enum composition).  A Rust panic inside an `extern "C"` function
aborts the process: outcome `.panic`.  Byte strings arrive already converted by
`CStr::to_string_lossy` (the conversion is performed by the real code and passed to the model).
-/
namespace Chem

structure CState where
  live : List (Nat × Comp)
  next : Nat
deriving Repr, Inhabited

inductive COp where
  | new
  | parse (s : List Nat)
  | copy (h : Nat)
  | get (h : Nat) (s : List Nat)
  | set (h : Nat) (s : List Nat) (n : Int)
  | inc (h : Nat) (s : List Nat) (n : Int)
  | add (h h2 : Nat)
  | sub (h h2 : Nat)
  | scale (h : Nat) (n : Int)
  | mass (h : Nat)
  | free (h : Nat)
deriving Repr

structure COut where
  rc : Nat                      -- return code (0 = success); reads return their value in `value`
  value : Option Int := none
  handle : Option Nat := none   -- the out-pointer: `none` = null
deriving Repr, DecidableEq

def CState.find (st : CState) (h : Nat) : Option Comp := (st.live.find? (fun x => x.1 == h)).map (·.2)

def CState.put (st : CState) (h : Nat) (c : Comp) : CState :=
  { st with live := st.live.map (fun x => if x.1 == h then (h, c) else x) }

def CState.alloc (st : CState) (c : Comp) : CState × Nat :=
  ({ live := st.live ++ [(st.next, c)], next := st.next + 1 }, st.next)

/-- one call; `none` when the call is outside the contract (dead handle, aliased add) -/
def cstep (cc : CharClass) (T : Table) (m : Key → Int) (st : CState) : COp → Option (Res (CState × COut))
  | .new => let (st', h) := st.alloc (Comp.empty .evec); some (.ok (st', { rc := 0, handle := some h }))
  | .parse s =>
    match parseFormula cc T s with
    | .ok ents => let (st', h) := st.alloc ⟨.evec, ents, none⟩; some (.ok (st', { rc := 0, handle := some h }))
    | .err => some (.ok (st, { rc := 1, handle := none }))
    | .panic => some .panic
  | .copy h => (st.find h).map fun c =>
      let (st', h') := st.alloc c; .ok (st', { rc := 0, handle := some h' })
  | .get h s => (st.find h).map fun c => .ok (st, { rc := 0, value := some (c.getStr cc T s) })
  | .set h s n => (st.find h).map fun c =>
      match parseSpec T s with
      | .ok k => .ok (st.put h (c.set k n), { rc := 0 })
      | .err => .ok (st, { rc := 1 })
      | .panic => .panic
  | .inc h s n => (st.find h).map fun c =>
      match parseSpec T s with
      | .ok k => .ok (st.put h (c.inc k n), { rc := 0 })
      | .err => .ok (st, { rc := 1 })
      | .panic => .panic
  | .add h h2 => if h == h2 then none else
      match st.find h, st.find h2 with
      | some a, some b => some (.ok (st.put h (a.addFrom b.ents 1), { rc := 0 }))
      | _, _ => none
  | .sub h h2 => if h == h2 then none else
      match st.find h, st.find h2 with
      | some a, some b => some (.ok (st.put h (a.addFrom b.ents (-1)), { rc := 0 }))
      | _, _ => none
  | .scale h n => (st.find h).map fun c => .ok (st.put h (c.mulBy n), { rc := 0 })
  | .mass h => (st.find h).map fun c => .ok (st, { rc := 0, value := some (c.mass m) })
  | .free h => (st.find h).map fun _ =>
      .ok ({ st with live := st.live.filter (fun x => !(x.1 == h)) }, { rc := 0 })

end Chem
