import ChemProofs.Model.ElemSpec
/-
Model of the composition stores (as repaired): `ChemicalCompositionVec` (src/composition_list.rs),
`ChemicalCompositionMap` (src/composition_map.rs), the enum `ChemicalComposition`
(src/abstract_composition.rs) and the operator impls of src/props.rs.

A store is a list of (key, count) entries plus the mass cache.  The list form is the `Vec` it is
(first match wins, new keys are pushed at the end).  The map form is an association list whose
*order is not observable*: `HashMap::insert` on a list with unique keys is "replace the entry or
add one", which is the same list function; every observation that iterates is compared up to
permutation.  Counts are unbounded `Int` (i32 overflow is excluded by every property).
Masses are `Int` in units of 10^-6 u, supplied by a function `m : Key → Int`.
-/
namespace Chem

abbrev Ents := List (Key × Int)

namespace Ents

def get (l : Ents) (k : Key) : Int :=
  match l.find? (fun e => e.1 == k) with
  | some e => e.2
  | none => 0

def has (l : Ents) (k : Key) : Bool := l.any (fun e => e.1 == k)

/-- replace the first entry for `k`, or push `(k, v)` at the end -/
def set : Ents → Key → Int → Ents
  | [], k, v => [(k, v)]
  | e :: rest, k, v => if e.1 == k then (e.1, v) :: rest else e :: set rest k v

def inc (l : Ents) (k : Key) (v : Int) : Ents := l.set k (l.get k + v)

def mapCounts (l : Ents) (f : Int → Int) : Ents := l.map (fun e => (e.1, f e.2))

/-- `for (k, v) in other { self.inc(k, sign * v) }` -/
def addFrom (l : Ents) (other : Ents) (sign : Int) : Ents :=
  other.foldl (fun acc e => acc.inc e.1 (sign * e.2)) l

/-- collect through `inc` (FromIterator, From<Vec<..>>) -/
def ofPairs (ps : Ents) : Ents := addFrom [] ps 1

/-- `default()` then `set` for every entry (the `impl_from!` conversions) -/
def ofSets (ps : Ents) : Ents := ps.foldl (fun acc e => acc.set e.1 e.2) []

def keys (l : Ents) : List Key := l.map (·.1)

/-- `find_str`: the entry whose symbol is `s` and which has no fixed isotope -/
def getStr (l : Ents) (s : Sym) : Int := l.get (s, 0)

/-- `len == len && all (k,v) in self: other has (k,v)` (list / enum equality, as repaired);
    `HashMap ==` is the same relation on unique-key lists -/
def eqv (a b : Ents) : Bool :=
  a.length == b.length && a.all (fun e => b.any (fun e2 => e2.1 == e.1 && e2.2 == e.2))

def massOf (m : Key → Int) (l : Ents) : Int := (l.map (fun e => e.2 * m e.1)).sum

end Ents

inductive Form where | vec | map | evec | emap
deriving DecidableEq, Repr, Inhabited

def Form.isMap : Form → Bool
  | .map | .emap => true
  | _ => false

def Form.isEnum : Form → Bool
  | .evec | .emap => true
  | _ => false

structure Comp where
  form : Form
  ents : Ents
  cache : Option Int
deriving Repr, Inhabited

namespace Comp

def empty (f : Form) : Comp := ⟨f, [], none⟩

def get (c : Comp) (k : Key) : Int := c.ents.get k
def set (c : Comp) (k : Key) (v : Int) : Comp := { c with ents := c.ents.set k v, cache := none }
def inc (c : Comp) (k : Key) (v : Int) : Comp := c.set k (c.get k + v)

/-- `c[&k] = v` / `c[&k] += v` through `IndexMut<&ElementSpecification>`: the cache is cleared,
    the entry is found or created with 0, then written -/
def idxSet (c : Comp) (k : Key) (v : Int) : Comp := { c with ents := c.ents.set k v, cache := none }
def idxAdd (c : Comp) (k : Key) (v : Int) : Comp :=
  { c with ents := c.ents.set k (c.ents.get k + v), cache := none }

def mass (m : Key → Int) (c : Comp) : Int :=
  match c.cache with
  | some v => v
  | none => c.ents.massOf m
def calcMass (m : Key → Int) (c : Comp) : Int := c.ents.massOf m
def fmass (m : Key → Int) (c : Comp) : Comp × Int :=
  match c.cache with
  | some v => (c, v)
  | none => ({ c with cache := some (c.ents.massOf m) }, c.ents.massOf m)

/-- `_mul_by` (as repaired: clears the cache) -/
def mulBy (c : Comp) (n : Int) : Comp := { c with ents := c.ents.mapCounts (n * ·), cache := none }
/-- `iter_mut()` handing out `&mut i32` for every count: an arbitrary update of every count -/
def iterMut (c : Comp) (f : Int → Int) : Comp := { c with ents := c.ents.mapCounts f, cache := none }

/-- `for (k,v) in other.iter() { self.inc(k, ±v) }` : the body of every `+`/`-` arm -/
def addFrom (c : Comp) (other : Ents) (sign : Int) : Comp :=
  other.foldl (fun acc e => acc.inc e.1 (sign * e.2)) c

/-- by-value / by-reference `+`, `-`: `let mut inst = self.clone(); …inc…; inst` -/
def addNew (a b : Comp) (sign : Int) : Comp := a.addFrom b.ents sign
/-- `*`: `self.clone()` then `_mul_by` -/
def mulNew (a : Comp) (n : Int) : Comp := a.mulBy n

/-- the `impl_from!` conversions and `into_map` / `into_vec` : `default()` + `set` per entry -/
def convert (c : Comp) (f : Form) : Comp := ⟨f, Ents.ofSets c.ents, none⟩
/-- `into_map` on a map-holding enum (and `into_vec` on a vec-holding one) is the identity -/
def intoForm (c : Comp) (f : Form) : Comp :=
  if c.form == f then c else c.convert f

def ofPairs (f : Form) (ps : Ents) : Comp := ⟨f, Ents.ofPairs ps, none⟩

def len (c : Comp) : Nat := c.ents.length
def isEmpty (c : Comp) : Bool := c.ents.isEmpty

/-- string `Index` (both stores, as repaired): quick check, then symbol lookup or spec parse -/
def strIndex (cc : CharClass) (T : Table) (c : Comp) (s : Sym) : Int :=
  match quickCheckStr cc s with
  | .yes => c.ents.getStr s
  | .no => 0
  | .maybe => match parseSpec T s with
    | .ok k => c.ents.get k
    | _ => 0

/-- `get_str`: the inherent method of the list and map types is the bare symbol lookup; the
    enum's goes through the string `Index` -/
def getStr (cc : CharClass) (T : Table) (c : Comp) (s : Sym) : Int :=
  if c.form.isEnum then c.strIndex cc T s else c.ents.getStr s

/-- `c["s"] = v` through `IndexMut<&str>`: `parse().unwrap()`, then as for a key -/
def strIdxSet (T : Table) (c : Comp) (s : Sym) (v : Int) : Res Comp :=
  match parseSpec T s with
  | .ok k => .ok (c.idxSet k v)
  | _ => .panic
def strIdxAdd (T : Table) (c : Comp) (s : Sym) (v : Int) : Res Comp :=
  match parseSpec T s with
  | .ok k => .ok (c.idxAdd k v)
  | _ => .panic

/-- `inc_str`: enum-of-vec is `*index_mut(s) += v`; map (and enum-of-map) first tries the plain
    symbol entry, then parses -/
def incStr (T : Table) (c : Comp) (s : Sym) (v : Int) : Res Comp :=
  if c.form.isMap then
    if c.ents.has (s, 0) then .ok (c.idxAdd (s, 0) v)
    else match parseSpec T s with
      | .ok k => .ok (c.inc k v)
      | _ => .panic
  else c.strIdxAdd T s v

def eqv (a b : Comp) : Bool := a.ents.eqv b.ents

end Comp

end Chem
