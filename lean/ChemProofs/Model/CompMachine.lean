import ChemProofs.Model.Comp
import ChemProofs.Spec.FinMap
/-
The public mutation / arithmetic API of the three composition types as one machine over a small
register file, so that binary operators between registers of different representations are
ordinary operations and a *history* is a list of `Op`s.  `stepM` is the model of the code,
`stepS` the specification (finite maps, no caches).
-/
namespace Chem

inductive IterFn where | dbl | neg | inc1 | zero
deriving DecidableEq, Repr

def IterFn.fn : IterFn → Int → Int
  | .dbl => (2 * ·)
  | .neg => (-·)
  | .inc1 => (· + 1)
  | .zero => fun _ => 0

inductive Op where
  | new (r : Nat) (f : Form)
  | set (r : Nat) (k : Key) (v : Int)
  | inc (r : Nat) (k : Key) (v : Int)
  | iset (r : Nat) (k : Key) (v : Int)          -- c[&k] = v
  | iadd (r : Nat) (k : Key) (v : Int)          -- c[&k] += v
  | sset (r : Nat) (s : Sym) (v : Int)          -- c["s"] = v
  | sadd (r : Nat) (s : Sym) (v : Int)          -- c["s"] += v
  | incs (r : Nat) (s : Sym) (v : Int)          -- inc_str
  | gsm (r : Nat) (s : Sym) (v : Int)           -- if let Some(x) = get_str_mut(s) { *x = v }
  | fmass (r : Nat)
  | mul (d a : Nat) (n : Int)                   -- d = &a * n   |  a.clone() * n
  | muli (r : Nat) (n : Int)                    -- r *= n       |  (&mut r) *= n
  | neg (d a : Nat)                             -- d = -&a      |  -(a.clone())
  | add (d a b : Nat) (sign : Int)              -- d = &a ± &b  |  a.clone() ± &b
  | addi (a b : Nat) (sign : Int)               -- a ±= &b      |  (&mut a) ±= &b
  | itm (r : Nat) (f : IterFn)                  -- for (_, v) in r.iter_mut() { *v = f(*v) }
  | clone (d a : Nat)
  | conv (d a : Nat) (f : Form)                 -- From / into_map / into_vec chains
  | fromkv (d : Nat) (f : Form) (viaStr : Bool) (ps : Ents)
  -- reads
  | get (r : Nat) (k : Key)
  | idx (r : Nat) (k : Key)
  | gets (r : Nat) (s : Sym)
  | sidx (r : Nat) (s : Sym)
  | eq (a b : Nat)
deriving Repr

abbrev Regs := List Comp

def Regs.at (rs : Regs) (i : Nat) : Comp := rs.getD i (Comp.empty .vec)
def Regs.put (rs : Regs) (i : Nat) (c : Comp) : Regs := rs.set i c

/-- the conversion chain the harness performs to reach form `f` from `c.form` -/
def convChain (c : Comp) (f : Form) : Comp :=
  match c.form, f with
  | .vec, .vec | .map, .map => c                     -- clone
  | .evec, .evec | .emap, .emap => c                 -- into_vec / into_map on the same arm: identity
  | .vec, .emap | .map, .emap => (c.convert .evec).convert .emap   -- From → enum (Vec arm), into_map
  | _, _ => c.convert f

structure StepOut where
  regs : Regs
  read : Option Int := none
  panicked : Bool := false

/-- the model of the code -/
def stepM (cc : CharClass) (T : Table) (m : Key → Int) (rs : Regs) : Op → StepOut
  | .new r f => ⟨rs.put r (Comp.empty f), none, false⟩
  | .set r k v => ⟨rs.put r ((rs.at r).set k v), none, false⟩
  | .inc r k v => ⟨rs.put r ((rs.at r).inc k v), none, false⟩
  | .iset r k v => ⟨rs.put r ((rs.at r).idxSet k v), none, false⟩
  | .iadd r k v => ⟨rs.put r ((rs.at r).idxAdd k v), none, false⟩
  | .sset r s v => match (rs.at r).strIdxSet T s v with
    | .ok c => ⟨rs.put r c, none, false⟩
    | _ => ⟨rs, none, true⟩
  | .sadd r s v => match (rs.at r).strIdxAdd T s v with
    | .ok c => ⟨rs.put r c, none, false⟩
    | _ => ⟨rs, none, true⟩
  | .incs r s v => match (rs.at r).incStr T s v with
    | .ok c => ⟨rs.put r c, none, false⟩
    | _ => ⟨rs, none, true⟩
  | .gsm r s v =>
    let c := rs.at r
    if c.ents.has (s, 0) then ⟨rs.put r (c.idxSet (s, 0) v), none, false⟩
    else if c.form == .map then ⟨rs.put r { c with cache := none }, none, false⟩
    else ⟨rs, none, false⟩
  | .fmass r => let (c, v) := (rs.at r).fmass m; ⟨rs.put r c, some v, false⟩
  | .mul d a n => ⟨rs.put d ((rs.at a).mulNew n), none, false⟩
  | .muli r n => ⟨rs.put r ((rs.at r).mulBy n), none, false⟩
  | .neg d a => ⟨rs.put d ((rs.at a).mulNew (-1)), none, false⟩
  | .add d a b sign => ⟨rs.put d ((rs.at a).addNew (rs.at b) sign), none, false⟩
  | .addi a b sign => ⟨rs.put a ((rs.at a).addFrom (rs.at b).ents sign), none, false⟩
  | .itm r f => ⟨rs.put r ((rs.at r).iterMut f.fn), none, false⟩
  | .clone d a => ⟨rs.put d (rs.at a), none, false⟩
  | .conv d a f => ⟨rs.put d (convChain (rs.at a) f), none, false⟩
  | .fromkv d f _ ps =>
    let base : Comp := Comp.ofPairs (if f == .emap then .evec else f) ps
    ⟨rs.put d (if f == .emap then base.convert .emap else base), none, false⟩
  | .get r k => ⟨rs, some ((rs.at r).get k), false⟩
  | .idx r k => ⟨rs, some ((rs.at r).get k), false⟩
  | .gets r s => ⟨rs, some ((rs.at r).getStr cc T s), false⟩
  | .sidx r s => ⟨rs, some ((rs.at r).strIndex cc T s), false⟩
  | .eq a b => ⟨rs, some (if (rs.at a).eqv (rs.at b) then 1 else 0), false⟩

/-! ### specification machine: registers are finite maps, no caches, no representation -/

abbrev SRegs := List FMap
def SRegs.at (rs : SRegs) (i : Nat) : FMap := rs.getD i FMap.empty
def SRegs.put (rs : SRegs) (i : Nat) (c : FMap) : SRegs := rs.set i c

/-- what a string denotes as a read key: a table symbol, or `symbol[isotope]` for an isotope the
    element has; anything else denotes nothing -/
def denoteStr (T : Table) (s : Sym) : Option Key :=
  match parseSpec T s with
  | .ok k => some k
  | _ => none

/-- spec step; `univ` is the finite universe of keys over which equality is decided -/
def stepS (T : Table) (univ : List Key) (rs : SRegs) : Op → SRegs × Option Int
  | .new r _ => (rs.put r FMap.empty, none)
  | .set r k v | .iset r k v => (rs.put r ((rs.at r).set k v), none)
  | .inc r k v | .iadd r k v => (rs.put r ((rs.at r).inc k v), none)
  | .sset r s v => match denoteStr T s with
    | some k => (rs.put r ((rs.at r).set k v), none)
    | none => (rs, none)
  | .sadd r s v | .incs r s v => match denoteStr T s with
    | some k => (rs.put r ((rs.at r).inc k v), none)
    | none => (rs, none)
  | .gsm r s v => if ((rs.at r) (s, 0)).isSome then (rs.put r ((rs.at r).set (s, 0) v), none) else (rs, none)
  | .fmass _ => (rs, none)
  | .mul d a n => (rs.put d ((rs.at a).scale (n * ·)), none)
  | .muli r n => (rs.put r ((rs.at r).scale (n * ·)), none)
  | .neg d a => (rs.put d ((rs.at a).scale (fun x => -x)), none)
  | .add d a b sign => (rs.put d ((rs.at a).add (rs.at b) sign), none)
  | .addi a b sign => (rs.put a ((rs.at a).add (rs.at b) sign), none)
  | .itm r f => (rs.put r ((rs.at r).scale f.fn), none)
  | .clone d a | .conv d a _ => (rs.put d (rs.at a), none)
  | .fromkv d _ _ ps => (rs.put d (FMap.ofPairs ps), none)
  | .get r k | .idx r k => (rs, some ((rs.at r).get k))
  | .gets r s => (rs, some (if (T.find? s).isSome then (rs.at r).get (s, 0) else 0))   -- valid bracket-free symbol
  | .sidx r s => (rs, some (match denoteStr T s with | some k => (rs.at r).get k | none => 0))
  | .eq a b => (rs, some (if univ.all (fun k => (rs.at a) k == (rs.at b) k) then 1 else 0))

end Chem
