import ChemProofs.Model.Peaks
import ChemProofs.Model.Comp
/-
Model of `src/isotopic_pattern/convolution.rs` over exact rationals: `convolve_with`,
`convolve_pow` (repeated squaring with remainder recursion; fuel bounds the recursion), the
per-entry accumulation of `isotopic_convolution`, sort by mass, charge step, normalise,
`ignore_below`.  A distribution is a list of (mass, abundance) pairs.
-/
namespace Chem

abbrev Dist := List (Rat × Rat)

/-- `convolve_with(dist, element, out, t)`: outer loop over `element`, inner over `dist`,
    products below the threshold are skipped -/
def convolveWith (dist element : Dist) (t : Rat) : Dist :=
  element.flatMap fun e =>
    dist.filterMap fun d =>
      let a := d.2 * e.2
      if a < t then none else some (d.1 + e.1, a)

/-- the `while power <= n` loop: squares the buffer; returns (buffer, power) -/
def squareLoop (t : Rat) (n : Int) : Nat → Dist → Int → Dist × Int
  | 0, buf, power => (buf, power)
  | fuel + 1, buf, power =>
    if power ≤ n then squareLoop t n fuel (convolveWith buf buf t) (power * 2) else (buf, power)

/-- `convolve_pow(dist, n, out, t)` -/
def convolvePow (dist : Dist) (t : Rat) : Nat → Int → Dist
  | 0, _ => []          -- out of fuel (never reached with fuel ≥ bit length of n)
  | fuel + 1, n =>
    if n == 0 then [(0, 1)]
    else if n == 1 then dist
    else
      let (buf, power) := squareLoop t n (n.toNat + 1) dist 2
      if power / 2 < n then convolveWith buf (convolvePow dist t fuel (n - power / 2)) t
      else buf

/-- the accumulation over the composition's entries, in iteration order:
    `entries` = (isotopes of the element as (mass, abundance), count) -/
def convolveEntries (t : Rat) : List (Dist × Int) → Nat → Dist → Dist
  | [], _, out => out
  | (isos, cnt) :: rest, i, out =>
    let tmp := convolvePow isos t (cnt.toNat + 2) cnt
    let out' := if i == 0 then tmp else convolveWith tmp out t
    convolveEntries t rest (i + 1) out'

/-- `out.sort_by(|a, b| a.0.total_cmp(&b.0))`: a stable sort by mass -/
def sortByMass (l : Dist) : Dist := l.mergeSort (fun a b => decide (a.1 ≤ b.1))

/-- `isotopic_convolution` -/
def isotopicConvolution (entries : List (Dist × Int)) (z : Int) (carrier t : Rat) : Option (List Peak) :=
  let out := sortByMass (convolveEntries t entries 0 [])
  let peaks : List Peak := out.map fun (m, a) => { mz := chargedMz m z carrier, int := a }
  let p : Pattern := { peaks := peaks, origin := (peaks.head?.map (·.mz)).getD 0 }
  match p.normalize with
  | none => none
  | some q => (q.ignoreBelow t).map (·.peaks)

/-! ### specification: every ordered assignment of an isotope to each atom -/

/-- arrangements of `n` atoms of one element -/
def arrangementsOf (isos : Dist) : Nat → Dist
  | 0 => [(0, 1)]
  | n + 1 => isos.flatMap fun i => (arrangementsOf isos n).map fun a => (a.1 + i.1, a.2 * i.2)

/-- arrangements of a whole composition (counts ≥ 0) -/
def arrangements : List (Dist × Nat) → Dist
  | [] => [(0, 1)]
  | (isos, n) :: rest =>
    (arrangementsOf isos n).flatMap fun a => (arrangements rest).map fun b => (a.1 + b.1, a.2 * b.2)

end Chem
