import ChemProofs.Model.Table
/-
Model of `src/element_specification.rs` (as repaired): `ElementSpecification::parse_with`,
`quick_check_str`, `Display`.  Text is a list of code points; UTF-8 byte lengths are computed
where the code uses `str::len`.  `char::is_alphabetic` on non-ASCII input is a parameter.
-/
namespace Chem

abbrev Key := Sym × Nat

inductive Res (α : Type) where
  | ok : α → Res α
  | err : Res α          -- an error *value* (Result::Err); kinds are not part of any property
  | panic : Res α        -- unwinding panic
deriving Repr, DecidableEq

def utf8Len (c : Nat) : Nat :=
  if c < 128 then 1 else if c < 2048 then 2 else if c < 65536 then 3 else 4

def byteLen (s : List Nat) : Nat := (s.map utf8Len).sum

def isAsciiDigit (c : Nat) : Bool := 48 ≤ c && c ≤ 57
def isAsciiUpper (c : Nat) : Bool := 65 ≤ c && c ≤ 90
def isAsciiLower (c : Nat) : Bool := 97 ≤ c && c ≤ 122
def isAsciiAlpha (c : Nat) : Bool := isAsciiUpper c || isAsciiLower c

/-- Unicode predicates used by the code; only their ASCII behaviour is fixed. -/
structure CharClass where
  alpha : Nat → Bool      -- char::is_alphabetic
  numeric : Nat → Bool    -- char::is_numeric
  upper : Nat → Bool      -- char::is_uppercase

def CharClass.AsciiOK (cc : CharClass) : Prop :=
  ∀ c, c < 128 → cc.alpha c = isAsciiAlpha c ∧ cc.numeric c = isAsciiDigit c ∧ cc.upper c = isAsciiUpper c

/-- digits (no sign) → value; `none` on an empty run or a non-digit -/
def digitsVal : List Nat → Option Nat
  | [] => none
  | ds => if ds.all isAsciiDigit then some (ds.foldl (fun n d => 10 * n + (d - 48)) 0) else none

/-- `str::parse::<u16>()`: optional '+', at least one ASCII digit, value ≤ 65535 -/
def parseU16 (s : List Nat) : Option Nat :=
  let body := match s with
    | 43 :: rest => rest
    | _ => s
  match digitsVal body with
  | some v => if v ≤ 65535 then some v else none
  | none => none

/-- `str::parse::<i32>()`: optional '+' or '-', at least one ASCII digit, range check -/
def parseI32 (s : List Nat) : Option Int :=
  match s with
  | 45 :: rest => match digitsVal rest with
    | some v => if v ≤ 2147483648 then some (-(v : Int)) else none
    | none => none
  | 43 :: rest => match digitsVal rest with
    | some v => if v ≤ 2147483647 then some (v : Int) else none
    | none => none
  | _ => match digitsVal s with
    | some v => if v ≤ 2147483647 then some (v : Int) else none
    | none => none

/-- split at the first occurrence of `c`: (before, after) -/
def splitFirst (c : Nat) : List Nat → Option (List Nat × List Nat)
  | [] => none
  | x :: xs => if x == c then some ([], xs) else
      match splitFirst c xs with
      | some (a, b) => some (x :: a, b)
      | none => none

/-- `str::strip_suffix(']')` -/
def stripLast (c : Nat) (s : List Nat) : Option (List Nat) :=
  match s.getLast? with
  | some l => if l == c then some s.dropLast else none
  | none => none

/-- `ElementSpecification::parse_with` -/
def parseSpec (T : Table) (s : List Nat) : Res Key :=
  match splitFirst 91 s with
  | none => match T.find? s with
    | some e => .ok (e.sym, 0)
    | none => .err
  | some (sym, rest) =>
    match stripLast 93 rest with
    | none => .err
    | some num =>
      match T.find? sym with
      | none => .err
      | some e =>
        match parseU16 num with
        | none => .err
        | some iso => if (e.iso? iso).isSome then .ok (e.sym, iso) else .err

/-- decimal rendering of a natural number -/
def natDigits (n : Nat) : List Nat := (Nat.toDigits 10 n).map Char.toNat

/-- `Display for ElementSpecification` -/
def displayKey (k : Key) : List Nat :=
  if k.2 == 0 then k.1 else k.1 ++ [91] ++ natDigits k.2 ++ [93]

inductive QC where | yes | no | maybe
deriving DecidableEq, Repr

/-- `quick_check_str`: the tests are on the UTF-8 *byte* length, the characters on the char view -/
def quickCheckStr (cc : CharClass) (s : List Nat) : QC :=
  let n := byteLen s
  match s with
  | [] => .no
  | first :: rest =>
    if n == 1 then (if cc.alpha first then .yes else .no)
    else if n < 3 then
      let last := rest.getLast?.getD first
      if last != 91 && last != 93 && cc.alpha first then .yes else .no
    else if n == 4 then
      let last := rest.getLast?.getD first
      if cc.alpha first then (if last == 93 then .maybe else .no) else .no
    else .maybe

end Chem
