import ChemProofs.Model.Peaks
/-
The standard model of floating-point arithmetic (Higham, *Accuracy and Stability of Numerical
Algorithms*, §2.2) over exact rationals: every arithmetic operation returns the exact result rounded by
a function `rnd` with relative error at most `u` (no overflow / underflow).  For IEEE-754 binary64 with
round-to-nearest `u = 2^-53`.  The functions below transcribe `TheoreticalIsotopicPattern::total`
(`iter().map(..).sum()`: a left-to-right sum starting from 0.0), `normalize` (`scale_by(1.0 / total)`:
one reciprocal, then one multiplication per peak), `mass_charge_ratio` and `neutral_mass` (src/mz.rs;
`z as f64` and `abs` are exact) operation by operation.
-/
namespace Chem

structure FlModel where
  rnd : Rat → Rat
  u : Rat

/-- `rnd` has relative error at most `u` -/
def FlModel.OK (F : FlModel) : Prop :=
  0 ≤ F.u ∧ ∀ x : Rat, ratAbs (F.rnd x - x) ≤ F.u * ratAbs x

/-- `self.peaks.iter().map(|p| p.intensity).sum()` -/
def flSum (F : FlModel) (l : List Rat) : Rat := l.foldl (fun acc x => F.rnd (acc + x)) 0

/-- `normalize`: `let total = self.total(); self.scale_by(1.0 / total)` on the intensities -/
def flNormalize (F : FlModel) (l : List Rat) : List Rat :=
  let r := F.rnd (1 / flSum F l)
  l.map (fun x => F.rnd (x * r))

/-- `mass_charge_ratio(m, z, c) = (m + zf * c) / zf.abs()` -/
def flMz (F : FlModel) (m : Rat) (z : Int) (c : Rat) : Rat :=
  F.rnd (F.rnd (m + F.rnd ((z : Rat) * c)) / ((z.natAbs : Nat) : Rat))

/-- `neutral_mass(x, z, c) = (x * zf.abs()) - (zf * c)` -/
def flNeutral (F : FlModel) (x : Rat) (z : Int) (c : Rat) : Rat :=
  F.rnd (F.rnd (x * ((z.natAbs : Nat) : Rat)) - F.rnd ((z : Rat) * c))

end Chem
