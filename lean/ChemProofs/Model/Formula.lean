import ChemProofs.Model.Comp
/-
Model of the formula parser `FormulaParser::parse_formula_with_table_generic` (src/formula.rs, as
repaired), layer A: the code that exists — the twelve fields of `FormulaParser`, the eight
states, every offset assignment and reset, every slice (a slice out of range is a `panic`
outcome, not a totalised default), the fallible table lookup, `str::parse::<i32>/<u16>`, the
recursive parse of group bodies (with fuel), and the end-of-input `match`.

Offsets are character positions: `formula.rs` takes byte offsets only from `char_indices()` and
`i + 1` after an ASCII character, so byte offsets and character positions are in monotone
bijection and every slice is on a character boundary.
-/
namespace Chem

inductive PSt where
  | new | element | isotope | isotopeToCount | count | group | groupToGroupCount | groupCount
deriving DecidableEq, Repr, Inhabited

structure PState where
  es : Nat := 0      -- element_start
  ee : Nat := 0      -- element_end
  is : Nat := 0      -- isotope_start
  ie : Nat := 0      -- isotope_end
  cs : Nat := 0      -- count_start
  ce : Nat := 0      -- count_end
  paren : Int := 0   -- paren_stack
  gs : Nat := 0      -- group_start
  ge : Nat := 0      -- group_end
  gcs : Nat := 0     -- group_count_start
  gce : Nat := 0     -- group_count_end
  st : PSt := .new
deriving Repr, Inhabited

/-- `&string[a..b]` -/
def slice (s : List Nat) (a b : Nat) : Res (List Nat) :=
  if a ≤ b ∧ b ≤ s.length then .ok ((s.take b).drop a) else .panic

def Res.bind {α β} (r : Res α) (f : α → Res β) : Res β :=
  match r with
  | .ok a => f a
  | .err => .err
  | .panic => .panic

/-- `parse_element_from_string`: slice, fallible lookup, reset of both offsets -/
def lookupElem (T : Table) (s : List Nat) (p : PState) : Res (Elem × PState) :=
  (slice s p.es p.ee).bind fun sym =>
    match T.find? sym with
    | some e => .ok (e, { p with es := 0, ee := 0 })
    | none => .err

/-- `parse_element_count` -/
def elemCount (s : List Nat) (p : PState) : Res (Int × PState) :=
  (slice s p.cs p.ce).bind fun ds =>
    match parseI32 ds with
    | some v => .ok (v, { p with cs := 0, ce := 0 })
    | none => .err

/-- `parse_group_count` -/
def groupCount (s : List Nat) (p : PState) : Res (Int × PState) :=
  (slice s p.gcs p.gce).bind fun ds =>
    match parseI32 ds with
    | some v => .ok (v, { p with gcs := 0, gce := 0 })
    | none => .err

/-- the bracketed isotope number: `string[isotope_start..isotope_end].parse::<u16>()` -/
def isoNumber (s : List Nat) (p : PState) : Res Nat :=
  (slice s p.is p.ie).bind fun ds =>
    match parseU16 ds with
    | some v => .ok v
    | none => .err

/-- the key for an element and a parsed isotope number (0 = none); an isotope the element does
    not have is an error -/
def mkKey (e : Elem) (iso : Nat) : Res Key :=
  if iso != 0 && (e.iso? iso).isNone then .err else .ok (e.sym, iso)

def isUpperStart (c : Nat) : Bool := isAsciiAlpha c && isAsciiUpper c

/-- what follows a completed term: `(` opens a group, an upper-case letter starts an element,
    anything else is an error.  `setParen` distinguishes `paren_stack = 1` from `+= 1`. -/
def afterTerm (p : PState) (i c : Nat) (setParen : Bool) (upper : Nat → Bool) : Res PState :=
  if c == 40 then
    .ok { p with paren := if setParen then 1 else p.paren + 1, gs := i + 1, st := .group }
  else if upper c then .ok { p with es := i, st := .element }
  else .err

/-- flush of the `Count` state (shared by the loop and the end of input) -/
def flushCount (T : Table) (s : List Nat) (p : PState) (acc : Ents) : Res (PState × Ents) :=
  (elemCount s p).bind fun (count, p) =>
    (if p.ie != p.is then isoNumber s p else .ok 0).bind fun iso =>
      (lookupElem T s p).bind fun (e, p) =>
        (mkKey e iso).bind fun k =>
          .ok ({ p with is := 0, ie := 0 }, acc.inc k count)

/-- flush of the `IsotopeToCount` state -/
def flushIso (T : Table) (s : List Nat) (p : PState) (acc : Ents) : Res (PState × Ents) :=
  (lookupElem T s p).bind fun (e, p) =>
    (isoNumber s p).bind fun iso =>
      (mkKey e iso).bind fun k =>
        .ok ({ p with is := 0, ie := 0 }, acc.inc k 1)

/-- flush of a plain element (count 1, no isotope) -/
def flushElem (T : Table) (s : List Nat) (p : PState) (acc : Ents) : Res (PState × Ents) :=
  (lookupElem T s p).bind fun (e, p) => .ok (p, acc.inc (e.sym, 0) 1)

/-- one iteration of the `for (i, c) in string.char_indices()` loop.  `sub` is the recursive
    parser used for group bodies. -/
def pstep (cc : CharClass) (T : Table) (sub : List Nat → Res Ents) (s : List Nat)
    (p : PState) (acc : Ents) (i c : Nat) : Res (PState × Ents) :=
  match p.st with
  | .new =>
    if isUpperStart c then .ok ({ p with es := i, st := .element }, acc)
    else if c == 40 then .ok ({ p with paren := p.paren + 1, gs := i + 1, st := .group }, acc)
    else .err
  | .group =>
    if c == 41 then
      let paren := p.paren - 1
      if paren == 0 then .ok ({ p with paren := paren, ge := i, st := .groupToGroupCount }, acc)
      else .ok ({ p with paren := paren }, acc)
    else if c == 40 then .ok ({ p with paren := p.paren + 1 }, acc)
    else .ok (p, acc)
  | .element =>
    if isAsciiAlpha c then
      if isAsciiUpper c then
        (flushElem T s { p with ee := i } acc).bind fun (p, acc) =>
          .ok ({ p with st := .element, es := i, ee := 0 }, acc)
      else .ok (p, acc)
    else if cc.numeric c then .ok ({ p with ee := i, cs := i, st := .count }, acc)
    else if c == 91 then .ok ({ p with ee := i, is := i + 1, st := .isotope }, acc)
    else if c == 40 then
      (flushElem T s { p with ee := i } acc).bind fun (p, acc) =>
        .ok ({ p with paren := p.paren + 1, gs := i + 1, st := .group }, acc)
    else .ok (p, acc)
  | .isotope =>
    if c == 93 then .ok ({ p with ie := i, st := .isotopeToCount }, acc)
    else if !cc.numeric c then .err
    else .ok (p, acc)
  | .count =>
    if !cc.numeric c then
      (flushCount T s { p with ce := i } acc).bind fun (p, acc) =>
        (afterTerm p i c true isUpperStart).bind fun p => .ok (p, acc)
    else .ok (p, acc)
  | .isotopeToCount =>
    if cc.numeric c then .ok ({ p with cs := i, st := .count }, acc)
    else
      (flushIso T s p acc).bind fun (p, acc) =>
        (afterTerm p i c false isAsciiUpper).bind fun p => .ok (p, acc)
  | .groupToGroupCount =>
    if !cc.numeric c then
      (slice s p.gs p.ge).bind fun body =>
        (sub body).bind fun g =>
          (afterTerm { p with gs := 0, ge := 0 } i c true isUpperStart).bind fun p =>
            .ok (p, acc.addFrom g 1)
    else .ok ({ p with gcs := i, st := .groupCount }, acc)
  | .groupCount =>
    if !cc.numeric c then
      (slice s p.gs p.ge).bind fun body =>
        (sub body).bind fun g =>
          (groupCount s { p with gce := i, gs := 0, ge := 0 }).bind fun (n, p) =>
            (afterTerm p i c true isUpperStart).bind fun p =>
              .ok (p, acc.addFrom (g.mapCounts (n * ·)) 1)
    else .ok (p, acc)

/-- the whole loop over the characters from position `i` on -/
def ploop (cc : CharClass) (T : Table) (sub : List Nat → Res Ents) (s : List Nat) :
    List Nat → Nat → PState → Ents → Res (PState × Ents)
  | [], _, p, acc => .ok (p, acc)
  | c :: rest, i, p, acc =>
    (pstep cc T sub s p acc i c).bind fun (p, acc) => ploop cc T sub s rest (i + 1) p acc

/-- the `match self.state` after the loop -/
def pfinish (T : Table) (sub : List Nat → Res Ents) (s : List Nat) (p : PState) (acc : Ents) : Res Ents :=
  let n := s.length
  match p.st with
  | .element => (flushElem T s { p with ee := n } acc).bind fun (_, acc) => .ok acc
  | .count => (flushCount T s { p with ce := n } acc).bind fun (_, acc) => .ok acc
  | .isotopeToCount => (flushIso T s p acc).bind fun (_, acc) => .ok acc
  | .groupToGroupCount =>
    (slice s p.gs p.ge).bind fun body => (sub body).bind fun g => .ok (acc.addFrom g 1)
  | .groupCount =>
    (slice s p.gs p.ge).bind fun body =>
      (sub body).bind fun g =>
        (groupCount s { p with gce := n, gs := 0, ge := 0 }).bind fun (k, _) =>
          .ok (acc.addFrom (g.mapCounts (k * ·)) 1)
  | _ => .err

/-- `parse_formula_with_table_generic` with recursion depth bounded by `fuel`
    (running out of fuel is reported as `panic`: it stands for unbounded recursion) -/
def parseA (cc : CharClass) (T : Table) : Nat → List Nat → Res Ents
  | 0, _ => .panic
  | fuel + 1, s =>
    (ploop cc T (parseA cc T fuel) s s 0 {} []).bind fun (p, acc) => pfinish T (parseA cc T fuel) s p acc

/-- the parser: a nested group body is at least two characters shorter than its parent, so
    `s.length + 1` levels always suffice (`Props/C05.lean`) -/
def parseFormula (cc : CharClass) (T : Table) (s : List Nat) : Res Ents := parseA cc T (s.length + 1) s

/-- `to_formula` (as repaired): C, then H, then every other entry ordered by (symbol, isotope);
    `i32::to_string` for counts -/
def intDigits (n : Int) : List Nat :=
  if n < 0 then 45 :: natDigits n.natAbs else natDigits n.natAbs

def keyLt (a b : Key) : Bool := lexLtSym a.1 b.1 || (a.1 == b.1 && a.2 < b.2)
where
  lexLtSym : List Nat → List Nat → Bool
    | [], [] => false
    | [], _ :: _ => true
    | _ :: _, [] => false
    | x :: xs, y :: ys => if x < y then true else if y < x then false else lexLtSym xs ys

def insertKey (e : Key × Int) : Ents → Ents
  | [] => [e]
  | y :: ys => if keyLt e.1 y.1 then e :: y :: ys else y :: insertKey e ys

def sortEnts (l : Ents) : Ents := l.foldl (fun acc e => insertKey e acc) []

def toFormula (cc : CharClass) (T : Table) (c : Comp) : List Nat :=
  let cC := c.strIndex cc T [67]
  let cH := c.strIndex cc T [72]
  let head := (if cC != 0 then 67 :: intDigits cC else []) ++ (if cH != 0 then 72 :: intDigits cH else [])
  let rest := (sortEnts c.ents).filter (fun e => !((e.1.1 == [67] || e.1.1 == [72]) && e.1.2 == 0))
  head ++ rest.flatMap (fun e =>
    if e.1.2 != 0 then e.1.1 ++ [91] ++ natDigits e.1.2 ++ [93] ++ intDigits e.2
    else e.1.1 ++ intDigits e.2)

end Chem
