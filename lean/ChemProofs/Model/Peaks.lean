/-
Model of `src/isotopic_pattern/peak.rs` (as repaired) and `src/mz.rs` over exact rationals.
`f64` rounding is not modelled (DESIGN §3): the theorems are exact statements over ℚ and the
correspondence compares within the tolerances the properties state.
-/
namespace Chem

structure Peak where
  mz : Rat
  int : Rat
deriving DecidableEq, Repr, Inhabited

structure Pattern where
  peaks : List Peak
  origin : Rat
deriving DecidableEq, Repr, Inhabited

/-- `mass_charge_ratio`; `none` for z = 0 (the real code divides by 0.0) -/
def mzOf (m : Rat) (z : Int) (c : Rat) : Option Rat :=
  if z = 0 then none else some ((m + (z : Rat) * c) / ((z.natAbs : Nat) : Rat))

/-- `neutral_mass` -/
def neutralOf (x : Rat) (z : Int) (c : Rat) : Rat := x * ((z.natAbs : Nat) : Rat) - (z : Rat) * c

/-- the guarded conversion used by the generators: charge 0 means neutral masses -/
def chargedMz (m : Rat) (z : Int) (c : Rat) : Rat :=
  if z = 0 then m else (m + (z : Rat) * c) / ((z.natAbs : Nat) : Rat)

def intensities (l : List Peak) : List Rat := l.map (·.int)
def total (l : List Peak) : Rat := (intensities l).sum

namespace Pattern

def shift (p : Pattern) (o : Rat) : Pattern :=
  { peaks := p.peaks.map (fun q => { q with mz := q.mz + o }), origin := p.origin + o }

/-- `clone_shifted` builds the same value from a borrowed pattern -/
def cloneShifted (p : Pattern) (o : Rat) : Pattern := p.shift o

def scaleBy (p : Pattern) (f : Rat) : Pattern :=
  { p with peaks := p.peaks.map (fun q => { q with int := q.int * f }) }

/-- `normalize`: `scale_by(1.0 / total)`.  `none` stands for the non-finite result the real code
    produces when a non-empty pattern has total 0 (outside every property's domain). -/
def normalize (p : Pattern) : Option Pattern :=
  if p.peaks.isEmpty then some p
  else if total p.peaks = 0 then none
  else some (p.scaleBy (1 / total p.peaks))

/-- the loop of `truncate_after`: index of the first peak at which the running total reaches `t`,
    or the last index when it never does (as repaired); also returns the running total there -/
def stopLoop (t : Rat) : List Peak → Rat → Nat → Nat × Rat
  | [], acc, i => (i - 1, acc)
  | q :: rest, acc, i =>
    let acc' := acc + q.int
    if t ≤ acc' then (i, acc') else stopLoop t rest acc' (i + 1)

def truncateAfter (p : Pattern) (t : Rat) : Option Pattern :=
  let (stop, _) := stopLoop t p.peaks 0 0
  normalize { p with peaks := p.peaks.take (stop + 1) }

def ignoreBelow (p : Pattern) (t : Rat) : Option Pattern :=
  normalize { p with peaks := p.peaks.filter (fun q => t ≤ q.int) }

/-- `truncate_after_ignore_below_shift_normalize` (as repaired) -/
def fused (p : Pattern) (t1 t2 o : Rat) : Option Pattern :=
  let (stop, tot) := stopLoop t1 p.peaks 0 0
  let pre := p.peaks.take (stop + 1)
  let thr := t2 * tot
  let kept := pre.filter (fun q => thr ≤ q.int)
  let dropped := pre.filter (fun q => !(thr ≤ q.int))
  let tot' := tot - total dropped
  if kept.isEmpty then some { p with peaks := [] }
  else if tot' = 0 then none
  else some { p with peaks := kept.map (fun q => { mz := q.mz + o, int := q.int / tot' }) }

/-- `clone_drop_last` (as repaired) -/
def cloneDropLast (p : Pattern) : Option Pattern := normalize { p with peaks := p.peaks.dropLast }

/-- `slice_normalized(a..b)`: `Err` is the slice-index panic -/
def sliceNormalized (p : Pattern) (a b : Nat) : Except Unit (Option Pattern) :=
  if a ≤ b ∧ b ≤ p.peaks.length then .ok (normalize { p with peaks := (p.peaks.take b).drop a })
  else .error ()

def prefixSums : List Rat → Rat → List Rat
  | [], _ => []
  | x :: xs, acc => (acc + x) :: prefixSums xs (acc + x)

/-- the iterator state of `IncrementalTruncationIter` and its `next` -/
structure IncrIter where
  template : Pattern
  threshold : Rat
  index : Nat
  cumulative : List Rat

def IncrIter.new (template : Pattern) (t : Rat) : IncrIter :=
  { template, threshold := t, index := template.peaks.length - 1,
    cumulative := prefixSums (intensities template.peaks) 0 }

def IncrIter.next (it : IncrIter) : Option (Option Pattern × IncrIter) :=
  if 0 < it.index ∧ it.threshold < it.cumulative.getD it.index 0 then
    match it.template.sliceNormalized 0 (it.index + 1) with
    | .ok r => some (r, { it with index := it.index - 1 })
    | .error _ => none
  else none

/-- `incremental_truncation(t).collect()` (fuel = number of peaks bounds the iteration) -/
def incrCollect : Nat → IncrIter → List (Option Pattern)
  | 0, _ => []
  | fuel + 1, it => match it.next with
    | some (r, it') => r :: incrCollect fuel it'
    | none => []

def incrementalTruncation (p : Pattern) (t : Rat) : Option (List (Option Pattern)) :=
  match p.normalize with
  | none => none
  | some tp => some (incrCollect (tp.peaks.length + 1) (IncrIter.new tp t))

end Pattern

def ratAbs (x : Rat) : Rat := if x < 0 then -x else x

/-- `Peak == Peak`: both coordinates within 1e-3 -/
def Peak.eqv (tol : Rat) (a b : Peak) : Bool :=
  !(tol < ratAbs (a.mz - b.mz) || tol < ratAbs (a.int - b.int))

def zipAll {α} (f : α → α → Bool) : List α → List α → Bool
  | a :: as, b :: bs => f a b && zipAll f as bs
  | _, _ => true

/-- `TheoreticalIsotopicPattern == TheoreticalIsotopicPattern` (as repaired: lengths first) -/
def Pattern.eqv (tol : Rat) (a b : Pattern) : Bool :=
  a.peaks.length == b.peaks.length && zipAll (Peak.eqv tol) a.peaks b.peaks

end Chem
