import ChemProofs.Model.Peaks
/-
Model of `src/isotopic_pattern/poisson.rs` over ℚ (no overflow: the `is_finite` / `is_infinite`
branches never fire).  The loops carry the same variables as the code (`p_i`, `factorial_acc`,
`total` / `acc`).  `firstBelow` is an order-generic version of the peak-count search loop of
which both the ℚ model and the `f64` code are instances.
-/
namespace Chem

/-- loop variables `(p_i, factorial_acc)` -/
structure PoisState where
  p : Rat
  f : Rat
deriving Repr

/-- body of iteration `i ≥ 1`: `p_i *= lambda; factorial_acc *= i` -/
def pNext (lam : Rat) (s : PoisState) (i : Nat) : PoisState := ⟨s.p * lam, s.f * (i : Rat)⟩

def PoisState.cur (s : PoisState) : Rat := s.p / s.f

/-- the intensities pushed by iterations `i, i+1, …` (`k` of them) -/
def poissonInts (lam : Rat) : Nat → Nat → PoisState → List Rat
  | 0, _, _ => []
  | k + 1, i, s => let s' := pNext lam s i; s'.cur :: poissonInts lam k (i + 1) s'

/-- `poisson_approximation_impl` -/
def poisson (mass : Rat) (n : Nat) (z : Int) (lambdaFactor neutronShift proton : Rat) : List Peak :=
  if n = 0 then [] else
  let lam := mass / lambdaFactor
  let ints := 1 :: poissonInts lam (n - 1) 1 ⟨1, 1⟩
  let tot := ints.sum
  ints.zipIdx.map (fun (x, i) =>
    { mz := chargedMz (mass + ((i : Nat) : Rat) * neutronShift) z proton, int := x / tot })

/-- `poisson_approximate_n_peaks_of_impl`: the `for i in 1..max_iter` loop -/
def poissonNLoop (lam target : Rat) (maxIter : Nat) : Nat → Nat → PoisState → Rat → Nat
  | 0, _, _, _ => maxIter
  | fuel + 1, i, s, acc =>
    if i < maxIter then
      let s' := pNext lam s i
      let acc' := acc + s'.cur
      if s'.cur / acc' < target then i else poissonNLoop lam target maxIter fuel (i + 1) s' acc'
    else maxIter

def poissonN (mass lambdaFactor t : Rat) (maxIter : Nat) : Nat :=
  poissonNLoop (mass / lambdaFactor) (1 - t) maxIter maxIter 1 ⟨1, 1⟩ 1

/-- the ratios `cur/acc` the loop compares, for iterations `i, i+1, …` (`k` of them) -/
def poissonRatios (lam : Rat) : Nat → Nat → PoisState → Rat → List Rat
  | 0, _, _, _ => []
  | k + 1, i, s, acc =>
    let s' := pNext lam s i
    let acc' := acc + s'.cur
    (s'.cur / acc') :: poissonRatios lam k (i + 1) s' acc'

/-- order-generic search loop: `ratio i` is `cur/acc` at iteration `i` in whatever arithmetic,
    `below x target` the comparison `x < target` (false on NaN) -/
def firstBelow {α : Type} (below : α → α → Bool) (ratio : Nat → α) (target : α) (maxIter : Nat) : Nat → Nat → Nat
  | 0, _ => maxIter
  | fuel + 1, i =>
    if i < maxIter then
      (if below (ratio i) target then i else firstBelow below ratio target maxIter fuel (i + 1))
    else maxIter

end Chem
