import ChemProofs.Model.Poisson
/-
`poisson_approximation_impl` WITH the branch the ℚ model of `Model/Poisson.lean` leaves out: in `f64` the loop variables
`p_i = lambda^i` and `factorial_acc = i!` leave the range of a double for long ladders on heavy masses (i > 170, or
`lambda^i > f64::MAX`), and the code pushes `0.0` for such a term:

    let cur_intensity = p_i / factorial_acc;
    if cur_intensity.is_finite() { push(cur); total += cur } else { push(0.0) }

`p_i = inf` gives `inf` or `NaN` (not finite: 0 is pushed); `factorial_acc = inf` with `p_i` finite gives `0.0` (finite: 0 is
pushed all the same).  Both variables are monotone (for `lambda ≥ 1`; for `lambda < 1` `p_i` never overflows), so "has
overflowed" is the same as "exceeds Ω" for the exact values.  `Ω` is the largest finite double; rounding of the loop variables
themselves is not modelled (the comparison skips cases within 1e-6 of the boundary).
-/
namespace Chem

/-- the value iteration `i` pushes, given the loop variables after their update -/
def pushR (Ω : Rat) (s : PoisState) : Rat := if s.p ≤ Ω ∧ s.f ≤ Ω then s.cur else 0

/-- the intensities pushed by iterations `i, i+1, …` (`k` of them) -/
def poissonIntsR (Ω lam : Rat) : Nat → Nat → PoisState → List Rat
  | 0, _, _ => []
  | k + 1, i, s => let s' := pNext lam s i; pushR Ω s' :: poissonIntsR Ω lam k (i + 1) s'

/-- `poisson_approximation_impl` with the `is_finite` branch -/
def poissonR (Ω mass : Rat) (n : Nat) (z : Int) (lambdaFactor neutronShift proton : Rat) : List Peak :=
  if n = 0 then [] else
  let lam := mass / lambdaFactor
  let ints := 1 :: poissonIntsR Ω lam (n - 1) 1 ⟨1, 1⟩
  let tot := ints.sum
  ints.zipIdx.map (fun (x, i) =>
    { mz := chargedMz (mass + ((i : Nat) : Rat) * neutronShift) z proton, int := x / tot })

/-- `poisson_approximate_n_peaks_of_impl` with its range behaviour:

        let cur_intensity = p_i / factorial_acc;
        if cur_intensity.is_infinite() { return i; }
        acc += cur_intensity;
        if cur_intensity / acc < target_threshold { return i; }

    `p_i` beyond Ω with `factorial_acc` in range: `inf`, the early return.  Both beyond Ω: `inf / inf = NaN` — not infinite,
    `acc` becomes NaN and no later comparison holds: the loop runs out and `max_iter` is returned.  Only the factorial beyond
    Ω: the term is `0.0`. -/
def poissonNLoopR (Ω lam target : Rat) (maxIter : Nat) : Nat → Nat → PoisState → Rat → Nat
  | 0, _, _, _ => maxIter
  | fuel + 1, i, s, acc =>
    if i < maxIter then
      let s' := pNext lam s i
      if Ω < s'.p then (if Ω < s'.f then maxIter else i)
      else
        let cur := if Ω < s'.f then 0 else s'.cur
        let acc' := acc + cur
        if cur / acc' < target then i else poissonNLoopR Ω lam target maxIter fuel (i + 1) s' acc'
    else maxIter

def poissonNR (Ω mass lambdaFactor t : Rat) (maxIter : Nat) : Nat :=
  poissonNLoopR Ω (mass / lambdaFactor) (1 - t) maxIter maxIter 1 ⟨1, 1⟩ 1

/-- the largest finite binary64 value: (2 − 2^-52) · 2^1023 -/
def f64Max : Rat := (2 ^ 1024 - 2 ^ 971 : Int)

end Chem
