/-
Import-free data model of `Element` / `Isotope` / `PeriodicTable` (src/element.rs) and the
clause-by-clause well-formedness predicate of property C12.

Numbers: every mass and abundance is an `Int` in units of 10^-k (k = `Gen.scale`'s exponent,
normally 6: the table's literals have six decimals).  Text is a list of code points.
-/
namespace Chem

abbrev Sym := List Nat

structure Iso where
  key : Nat          -- key of the isotope in `Element::isotopes`
  mass : Int
  abund : Int
  neutrons : Nat
  shift : Int
deriving DecidableEq, Repr, Inhabited

structure Elem where
  tkey : Sym         -- key under which the element is stored in `PeriodicTable::elements`
  sym : Sym
  isos : List Iso    -- ascending by `key` (the dump sorts; the map itself is unordered)
  mostIso : Nat
  mostMass : Int
  minShift : Int
  maxShift : Int
  elemNum : Nat
deriving DecidableEq, Repr, Inhabited

abbrev Table := List Elem

def Table.find? (T : Table) (s : Sym) : Option Elem := List.find? (fun e => e.tkey == s) T

def Elem.iso? (e : Elem) (k : Nat) : Option Iso := e.isos.find? (fun i => i.key == k)

/-- `Element::mass` : `self.isotopes[&self.most_abundant_isotope].mass` (panics if absent). -/
def Elem.mass? (e : Elem) : Option Int := (e.iso? e.mostIso).map (·.mass)

/-- `Element::isotope_by_shift`. -/
def Elem.isoByShift? (e : Elem) (s : Int) : Option Iso :=
  let num : Int := (e.mostIso : Int) + s
  if num < 0 then none else e.iso? num.toNat

def minInt : List Int → Option Int
  | [] => none
  | x :: xs => some (xs.foldl min x)

def maxInt : List Int → Option Int
  | [] => none
  | x :: xs => some (xs.foldl max x)

/-- `calc_min_neutron_shift`: the "non-zero means cached" shortcut, as written. -/
def Elem.calcMin (e : Elem) : Int :=
  if e.minShift ≠ 0 then e.minShift else (minInt (e.isos.map (·.shift))).getD 0

def Elem.calcMax (e : Elem) : Int :=
  if e.maxShift ≠ 0 then e.maxShift else (maxInt (e.isos.map (·.shift))).getD 0

/-- `index_isotopes`: reset both, then recompute max, then min. -/
def Elem.indexIsotopes (e : Elem) : Elem :=
  let e0 := { e with maxShift := 0, minShift := 0 }
  let e1 := { e0 with maxShift := e0.calcMax }
  { e1 with minShift := e1.calcMin }

/-! ### C12 clauses (all `Bool`, evaluated by the kernel over the regenerated table) -/

/-- stored under its own symbol -/
def Elem.cOwnSymbol (e : Elem) : Bool := e.tkey == e.sym && !e.sym.isEmpty

/-- each isotope is stored under its nucleon number; an element without natural isotopes carries
    exactly one entry numbered 0 with abundance 1 -/
def Elem.cIsoKeys (one : Int) (e : Elem) : Bool :=
  e.isos.all (fun i => i.key == i.neutrons) &&
  !e.isos.isEmpty &&
  (if e.isos.any (fun i => i.key == 0) then
      e.isos.length == 1 && e.isos.all (fun i => i.abund == one) && e.mostIso == 0
   else true)

/-- neutron shift = nucleon number − most abundant isotope's -/
def Elem.cShift (e : Elem) : Bool :=
  e.isos.all (fun i => i.shift == (i.key : Int) - (e.mostIso : Int))

/-- abundances lie in (0,1] -/
def Elem.cAbundRange (one : Int) (e : Elem) : Bool :=
  e.isos.all (fun i => decide (0 < i.abund) && decide (i.abund ≤ one))

/-- abundances sum to 1 (to 1e-3) -/
def Elem.cAbundSum (one : Int) (e : Elem) : Bool :=
  let s := (e.isos.map (·.abund)).foldl (· + ·) 0
  decide (1000 * (s - one) ≤ one) && decide (1000 * (one - s) ≤ one)

/-- the recorded most abundant isotope is one of maximal abundance, and the recorded monoisotopic
    mass is its mass -/
def Elem.cMostAbundant (e : Elem) : Bool :=
  match e.iso? e.mostIso with
  | none => false
  | some m => e.isos.all (fun i => decide (i.abund ≤ m.abund)) && e.mostMass == m.mass

/-- recorded min / max neutron shifts are those of the isotopes -/
def Elem.cMinMax (e : Elem) : Bool :=
  minInt (e.isos.map (·.shift)) == some e.minShift &&
  maxInt (e.isos.map (·.shift)) == some e.maxShift

def strictlyIncreasingBy (f : Iso → Int) : List Iso → Bool
  | [] => true
  | [_] => true
  | a :: b :: rest => decide (f a < f b) && strictlyIncreasingBy f (b :: rest)

/-- keys ascending (the dump's order), masses strictly increasing with nucleon number and within
    0.15 u of it (isotope 0 of an element without natural isotopes is exempt from the latter) -/
def Elem.cMasses (one : Int) (e : Elem) : Bool :=
  strictlyIncreasingBy (fun i => (i.key : Int)) e.isos &&
  strictlyIncreasingBy (·.mass) e.isos &&
  e.isos.all (fun i => i.key == 0 ||
    (decide (100 * (i.mass - (i.key : Int) * one) ≤ 15 * one) &&
     decide (100 * ((i.key : Int) * one - i.mass) ≤ 15 * one)))

def Elem.wf (one : Int) (e : Elem) : Bool :=
  e.cOwnSymbol && e.cIsoKeys one && e.cShift && e.cAbundRange one && e.cAbundSum one &&
  e.cMostAbundant && e.cMinMax && e.cMasses one

def nodupSyms : List Sym → Bool
  | [] => true
  | s :: rest => !rest.contains s && nodupSyms rest

end Chem
