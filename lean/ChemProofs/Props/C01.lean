import ChemProofs.Model.Formula
import ChemProofs.Spec.Grammar
import ChemProofs.Lemmas.Ents
import ChemProofs.Lemmas.Digits
import ChemProofs.Lemmas.PStep
/-
C01 — a well-formed formula parses to exactly what it denotes.

PROVED (everything in this file is fully proved; core Lean only; standard axioms only):

  theorem parse_render (cc) (hcc : cc.AsciiOK) (T) (hT : SymbolsOK cc T) (ts : Spec.Terms)
      (hne : ts ≠ .nil) (hwf : WF T ts) :
      ∃ ents, parseFormula cc T ts.render = .ok ents ∧ (∀ k, ents.get k = ts.denote k) ∧
              (∀ k ∈ ents.keys, k ∈ ts.mentioned)

  for the FULL grammar (elements with optional isotope and count, arbitrarily nested groups with
  optional count), together with `parse_render_nodup` (the result has pairwise distinct keys) and
  `parseA_ok` (any fuel exceeding the length of the text suffices).

Hypotheses (defined here):
  * `SymbolsOK cc T`: every table element whose symbol begins with an ASCII upper-case letter is stored
    under its own symbol (`T.find? e.sym = some e`) and has shape `symShape`: non-empty, first character
    ASCII upper-case, every later character `inert` (`Lemmas/PStep.lean`): not ASCII-upper-case, not
    `cc.numeric`, not `[` (91), not `(` (40), and — needed, see below — not `)` (41).
    It is restricted to upper-case-initial symbols because the real table contains the electron `e*`,
    which the parser can never read (a lower-case first character is an error in state `New`).
  * `WF T ts`: every `.elem sym iso cnt` has `T.find? sym = some e`, `e.sym = sym`, `isUpperHead sym`
    (for the same reason), `iso = some i → i ≠ 0 ∧ i ≤ 65535 ∧ (e.iso? i).isSome`,
    `cnt = some n → n ≤ 2147483647`; every `.group body cnt` has `body ≠ .nil`, `WF T body`,
    `cnt = some n → n ≤ 2147483647`.
  Two deviations from the literal task text, both forced by counterexamples:
    (a) `)` must be excluded from symbol tails: with a symbol `A)` the text `(A))` is cut at the first `)`.
    (b) the upper-case-initial requirement sits in `WF`, and `SymbolsOK` only speaks about such symbols;
        otherwise `SymbolsOK` is false of the generated table (`e*`).
  Both predicates are checkable: `SymbolsOK` is `Decidable`; `WF T ts ↔ wfTermsB T ts = true`
  (`wfTermsB_iff`, with `Decidable` instances); `symbolsOK_of_ascii` derives `SymbolsOK cc T` for every
  ASCII-correct `cc` from the `cc`-free Boolean `symbolsOKAscii T` (true of `Gen.table`, see `Inst/C01.lean`).

Structure of the proof (named lemmas):
  (L1) `Lemmas/Digits.lean`: `digitsVal_natDigits`, `parseI32_natDigits`, `parseU16_natDigits`,
       `natDigits_ne_nil`, `natDigits_all_digit`.
  (L2) `Lemmas/PStep.lean`: one lemma per machine step; runs of digits / inert characters; `slice_mid`.
       Here: `Pending t i p` (the state in which a completely read term waits to be flushed),
       `elem_pending` / `group_pending` / `term_pending` (reading a term leaves it pending, accumulator
       untouched), `FlushTo` and `elem_flush` / `group_flush` / `term_flush` (the pending term is flushed
       by the first character of the next term or by the end of input, adding exactly its denotation).
  (L3) `skip_term` / `skip_terms`: in state `Group` the machine only counts parentheses and `render` is
       balanced, so the body slice is exactly `body.render`.
  (L4) `level` (one nesting level, by recursion on the term list), `parseA_ok` (induction on fuel).

NOT PROVED: nothing of the goal is left open.
-/
set_option linter.unusedSimpArgs false
set_option linter.unusedSectionVars false
namespace Chem
open Spec

/-! ## Hypotheses of the theorem -/

/-- shape of a table symbol: an ASCII upper-case letter followed by characters that are inert for the
    machine (`inert`, `Lemmas/PStep.lean`: not ASCII-upper-case, not `cc.numeric`, not `[`, `(`, `)`) -/
def symShape (cc : CharClass) : Sym → Bool
  | [] => false
  | c :: rest => isAsciiUpper c && rest.all (inert cc)

/-- does the symbol begin with an ASCII upper-case letter? (the table also holds the electron, `e*`) -/
def isUpperHead : Sym → Bool
  | [] => false
  | c :: _ => isAsciiUpper c

/-- every element of the table whose symbol begins with an upper-case letter is stored under its own
    symbol, and that symbol is well shaped -/
def SymbolsOK (cc : CharClass) (T : Table) : Prop :=
  ∀ e ∈ T, isUpperHead e.sym = true → T.find? e.sym = some e ∧ symShape cc e.sym = true

instance (cc : CharClass) (T : Table) : Decidable (SymbolsOK cc T) := by
  unfold SymbolsOK; exact inferInstance

def countOK : Option Nat → Prop
  | none => True
  | some n => n ≤ 2147483647

def isoOK (e : Elem) : Option Nat → Prop
  | none => True
  | some i => i ≠ 0 ∧ i ≤ 65535 ∧ (e.iso? i).isSome = true

mutual
  def WFt (T : Table) : Term → Prop
    | .elem sym iso cnt =>
      (match T.find? sym with
        | some e => e.sym = sym ∧ isUpperHead sym = true ∧ isoOK e iso
        | none => False) ∧ countOK cnt
    | .group body cnt => body ≠ .nil ∧ WF T body ∧ countOK cnt
  def WF (T : Table) : Terms → Prop
    | .nil => True
    | .cons t ts => WFt T t ∧ WF T ts
end

theorem wft_elem {T : Table} {sym : Sym} {iso cnt : Option Nat} (h : WFt T (.elem sym iso cnt)) :
    ∃ e, T.find? sym = some e ∧ e.sym = sym ∧ isUpperHead sym = true ∧ isoOK e iso ∧ countOK cnt := by
  simp only [WFt] at h
  cases hf : T.find? sym with
  | none => rw [hf] at h; exact h.1.elim
  | some e => rw [hf] at h; exact ⟨e, rfl, h.1.1, h.1.2.1, h.1.2.2, h.2⟩

theorem wft_group {T : Table} {body : Terms} {cnt : Option Nat} (h : WFt T (.group body cnt)) :
    body ≠ .nil ∧ WF T body ∧ countOK cnt := by
  simpa only [WFt] using h

theorem wf_cons {T : Table} {t : Term} {ts : Terms} (h : WF T (.cons t ts)) : WFt T t ∧ WF T ts := by
  simpa only [WF] using h

/-! ## Accumulator bookkeeping -/

/-- `acc'` is `acc` with the contribution `d` added, touching only keys of `m` -/
structure Ext (acc : Ents) (d : Key → Int) (m : List Key) (acc' : Ents) : Prop where
  nodup : acc'.NoDupKeys
  get : ∀ k, acc'.get k = acc.get k + d k
  keys : ∀ k ∈ acc'.keys, k ∈ acc.keys ∨ k ∈ m

theorem Ext.trans {a b c : Ents} {d1 d2 : Key → Int} {m1 m2 : List Key}
    (h1 : Ext a d1 m1 b) (h2 : Ext b d2 m2 c) : Ext a (fun k => d1 k + d2 k) (m1 ++ m2) c := by
  refine ⟨h2.nodup, ?_, ?_⟩
  · intro k; rw [h2.get, h1.get]; omega
  · intro k hk
    rcases h2.keys k hk with h | h
    · rcases h1.keys k h with h | h
      · exact Or.inl h
      · exact Or.inr (List.mem_append_left _ h)
    · exact Or.inr (List.mem_append_right _ h)

theorem ext_inc (acc : Ents) (key : Key) (v : Int) (h : acc.NoDupKeys) :
    Ext acc (fun k => if k = key then v else 0) [key] (acc.inc key v) := by
  refine ⟨Ents.nodup_inc acc key v h, fun k => Ents.get_inc acc key v k, ?_⟩
  intro k hk
  unfold Ents.inc at hk
  rw [Ents.keys_set] at hk
  split at hk
  · exact Or.inl hk
  · rcases List.mem_append.1 hk with h | h
    · exact Or.inl h
    · exact Or.inr h

theorem keys_addFrom (a b : Ents) (sg : Int) (k : Key) (hk : k ∈ (a.addFrom b sg).keys) :
    k ∈ a.keys ∨ k ∈ b.keys := by
  unfold Ents.addFrom at hk
  induction b generalizing a with
  | nil => exact Or.inl hk
  | cons e rest ih =>
    simp only [List.foldl_cons] at hk
    rcases ih _ hk with h | h
    · unfold Ents.inc at h
      rw [Ents.keys_set] at h
      split at h
      · exact Or.inl h
      · rcases List.mem_append.1 h with h | h
        · exact Or.inl h
        · simp only [List.mem_singleton] at h
          subst h
          exact Or.inr (by simp [Ents.keys])
    · exact Or.inr (by simp only [Ents.keys_cons, List.mem_cons]; exact Or.inr h)

theorem ext_addFrom (acc g : Ents) (ha : acc.NoDupKeys) (hg : g.NoDupKeys) :
    Ext acc (fun k => g.get k) g.keys (acc.addFrom g 1) := by
  refine ⟨Ents.nodup_addFrom acc g 1 ha, ?_, keys_addFrom acc g 1⟩
  intro k
  rw [Ents.get_addFrom, Ents.sumFor_nodup g k hg]; omega

/-- the result of parsing a group body -/
def SubOK (sub : List Nat → Res Ents) (b : Terms) : Prop :=
  ∃ g, sub b.render = .ok g ∧ Ext [] b.denote b.mentioned g

/-! ## Flushes -/

section
variable (cc : CharClass) (T : Table) (sub : List Nat → Res Ents) (s : List Nat)

theorem mkKey_zero (e : Elem) : mkKey e 0 = .ok (e.sym, 0) := by
  simp [mkKey]

theorem mkKey_iso (e : Elem) (k : Nat) (h : (e.iso? k).isSome = true) : mkKey e k = .ok (e.sym, k) := by
  cases hh : e.iso? k with
  | none => rw [hh] at h; cases h
  | some v => simp [mkKey, hh]

theorem flushElem_ok {p : PState} {acc : Ents} {sym : Sym} {e : Elem}
    (hsl : slice s p.es p.ee = .ok sym) (hf : T.find? sym = some e) :
    ∃ p2, flushElem T s p acc = .ok (p2, acc.inc (e.sym, 0) 1) ∧
      p2.is = p.is ∧ p2.ie = p.ie ∧ p2.paren = p.paren := by
  refine ⟨{ p with es := 0, ee := 0 }, ?_, rfl, rfl, rfl⟩
  simp only [flushElem, lookupElem, hsl, Res.ok_bind, hf]

theorem flushCount_noiso_ok {p : PState} {acc : Ents} {sym : Sym} {e : Elem} {n : Nat}
    (hc : slice s p.cs p.ce = .ok (natDigits n)) (hn : n ≤ 2147483647)
    (his : p.is = 0) (hie : p.ie = 0)
    (hsl : slice s p.es p.ee = .ok sym) (hf : T.find? sym = some e) :
    ∃ p2, flushCount T s p acc = .ok (p2, acc.inc (e.sym, 0) (n : Int)) ∧
      p2.is = 0 ∧ p2.ie = 0 ∧ p2.paren = p.paren := by
  refine ⟨{ p with cs := 0, ce := 0, es := 0, ee := 0, is := 0, ie := 0 }, ?_, rfl, rfl, rfl⟩
  simp only [flushCount, elemCount, hc, Res.ok_bind, parseI32_natDigits n hn, his, hie, bne_self_eq_false,
    lookupElem, hsl, hf]
  rfl

theorem flushCount_iso_ok {p : PState} {acc : Ents} {sym : Sym} {e : Elem} {n k : Nat}
    (hc : slice s p.cs p.ce = .ok (natDigits n)) (hn : n ≤ 2147483647)
    (hne : p.ie ≠ p.is) (hisl : slice s p.is p.ie = .ok (natDigits k)) (hk : k ≤ 65535)
    (hiso : (e.iso? k).isSome = true)
    (hsl : slice s p.es p.ee = .ok sym) (hf : T.find? sym = some e) :
    ∃ p2, flushCount T s p acc = .ok (p2, acc.inc (e.sym, k) (n : Int)) ∧
      p2.is = 0 ∧ p2.ie = 0 ∧ p2.paren = p.paren := by
  refine ⟨{ p with cs := 0, ce := 0, es := 0, ee := 0, is := 0, ie := 0 }, ?_, rfl, rfl, rfl⟩
  have hne' : (p.ie != p.is) = true := by simpa using hne
  simp only [flushCount, elemCount, hc, Res.ok_bind, parseI32_natDigits n hn, hne', if_true,
    isoNumber, hisl, parseU16_natDigits k hk, lookupElem, hsl, hf, mkKey_iso e k hiso]

theorem flushIso_ok {p : PState} {acc : Ents} {sym : Sym} {e : Elem} {k : Nat}
    (hisl : slice s p.is p.ie = .ok (natDigits k)) (hk : k ≤ 65535)
    (hiso : (e.iso? k).isSome = true)
    (hsl : slice s p.es p.ee = .ok sym) (hf : T.find? sym = some e) :
    ∃ p2, flushIso T s p acc = .ok (p2, acc.inc (e.sym, k) 1) ∧
      p2.is = 0 ∧ p2.ie = 0 ∧ p2.paren = p.paren := by
  refine ⟨{ p with es := 0, ee := 0, is := 0, ie := 0 }, ?_, rfl, rfl, rfl⟩
  simp only [flushIso, lookupElem, hsl, Res.ok_bind, hf, isoNumber, hisl, parseU16_natDigits k hk,
    mkKey_iso e k hiso]

theorem groupCount_ok {p : PState} {n : Nat}
    (hc : slice s p.gcs p.gce = .ok (natDigits n)) (hn : n ≤ 2147483647) :
    groupCount s p = .ok ((n : Int), { p with gcs := 0, gce := 0 }) := by
  simp only [groupCount, hc, Res.ok_bind, parseI32_natDigits n hn]

/-! ## Start states -/

/-- a character that starts a term -/
def Starts (c : Nat) : Prop := isUpperStart c = true ∨ c = 40

/-- the machine state just after the first character `c` (at position `j`) of a term was read -/
def StartAt (c j : Nat) (p : PState) : Prop :=
  p.is = 0 ∧ p.ie = 0 ∧
  ((isUpperStart c = true ∧ p.st = .element ∧ p.es = j ∧ p.paren = 0) ∨
   (c = 40 ∧ p.st = .group ∧ p.gs = j + 1 ∧ p.paren = 1))

theorem afterTerm_start {p : PState} {j c : Nat} (b : Bool) (up : Nat → Bool)
    (hup : isUpperStart c = true → up c = true)
    (his : p.is = 0) (hie : p.ie = 0) (hp : p.paren = 0) (hc : Starts c) :
    ∃ p', afterTerm p j c b up = .ok p' ∧ StartAt c j p' := by
  rcases hc with hc | hc
  · have h40 : (c == 40) = false := by simpa using (upperStart_facts hc).2.2.1
    refine ⟨{ p with es := j, st := .element }, ?_, his, hie, Or.inl ⟨hc, rfl, rfl, hp⟩⟩
    simp only [afterTerm, h40, hup hc, if_true]
    rfl
  · subst hc
    refine ⟨{ p with paren := if b then 1 else p.paren + 1, gs := j + 1, st := .group }, ?_, his, hie,
      Or.inr ⟨rfl, rfl, rfl, ?_⟩⟩
    · simp [afterTerm]
    · show (if b then 1 else p.paren + 1) = 1
      rw [hp]; cases b <;> rfl

theorem step_new_start {p : PState} {acc : Ents} {j c : Nat} (hst : p.st = .new)
    (his : p.is = 0) (hie : p.ie = 0) (hp : p.paren = 0) (hc : Starts c) :
    ∃ p', pstep cc T sub s p acc j c = .ok (p', acc) ∧ StartAt c j p' := by
  rcases hc with hc | hc
  · refine ⟨{ p with es := j, st := .element }, ?_, his, hie, Or.inl ⟨hc, rfl, rfl, hp⟩⟩
    unfold pstep
    simp only [hst, hc, if_true]
  · subst hc
    refine ⟨{ p with paren := p.paren + 1, gs := j + 1, st := .group }, ?_, his, hie,
      Or.inr ⟨rfl, rfl, rfl, ?_⟩⟩
    · unfold pstep
      simp only [hst]
      simp [isUpperStart, isAsciiAlpha, isAsciiUpper, isAsciiLower]
    · show p.paren + 1 = 1
      rw [hp]; rfl

end

/-! ## Rendering facts -/

def isoR : Option Nat → List Nat
  | none => []
  | some i => 91 :: (natDigits i ++ [93])

theorem render_elem (sym : Sym) (iso cnt : Option Nat) :
    (Term.elem sym iso cnt).render = sym ++ (isoR iso ++ renderCount cnt) := by
  cases iso <;> simp [Term.render, isoR]

theorem render_group (body : Terms) (cnt : Option Nat) :
    (Term.group body cnt).render = 40 :: (body.render ++ 41 :: renderCount cnt) := by
  simp [Term.render]

theorem render_cons (t : Term) (ts : Terms) : (Terms.cons t ts).render = t.render ++ ts.render := by
  simp [Terms.render]

theorem render_nil : Terms.nil.render = [] := by simp [Terms.render]

theorem symShape_cons {cc : CharClass} {sym : Sym} (h : symShape cc sym = true) :
    ∃ c0 symtl, sym = c0 :: symtl ∧ isAsciiUpper c0 = true ∧ ∀ c ∈ symtl, inert cc c = true := by
  cases sym with
  | nil => simp [symShape] at h
  | cons c0 symtl =>
    simp only [symShape, Bool.and_eq_true, List.all_eq_true] at h
    exact ⟨c0, symtl, rfl, h.1, h.2⟩

theorem inert_ne {cc : CharClass} {c : Nat} (h : inert cc c = true) : c ≠ 40 ∧ c ≠ 41 := by
  simp only [inert, Bool.and_eq_true, bne_iff_ne, ne_eq] at h
  exact ⟨h.1.2, h.2⟩

theorem find_mem {T : Table} {sym : Sym} {e : Elem} (h : T.find? sym = some e) : e ∈ T :=
  List.mem_of_find?_eq_some h

/-- everything the hypotheses say about an element term -/
theorem elem_facts {cc : CharClass} {T : Table} (hT : SymbolsOK cc T) {sym : Sym} {iso cnt : Option Nat}
    (h : WFt T (.elem sym iso cnt)) :
    ∃ e c0 symtl, T.find? sym = some e ∧ e.sym = sym ∧ isoOK e iso ∧ countOK cnt ∧
      sym = c0 :: symtl ∧ isAsciiUpper c0 = true ∧ ∀ c ∈ symtl, inert cc c = true := by
  obtain ⟨e, hf, hsym, hhead, hiso, hcnt⟩ := wft_elem h
  have hsh := (hT e (find_mem hf) (by rw [hsym]; exact hhead)).2
  rw [hsym] at hsh
  obtain ⟨c0, symtl, h1, h2, h3⟩ := symShape_cons hsh
  exact ⟨e, c0, symtl, hf, hsym, hiso, hcnt, h1, h2, h3⟩

theorem digits_tail {n d : Nat} {ds : List Nat} (hd : natDigits n = d :: ds) :
    ∀ c ∈ ds, isAsciiDigit c = true := by
  intro c hc
  apply natDigits_all_digit n
  rw [hd]; exact List.mem_cons_of_mem _ hc

/-! ## The state in which a completely read term is pending -/

def Pending : Term → Nat → PState → Prop
  | .elem _ none none, i, p =>
    p.st = .element ∧ p.es = i ∧ p.is = 0 ∧ p.ie = 0 ∧ p.paren = 0
  | .elem sym none (some _), i, p =>
    p.st = .count ∧ p.es = i ∧ p.ee = i + sym.length ∧ p.cs = i + sym.length ∧
      p.is = 0 ∧ p.ie = 0 ∧ p.paren = 0
  | .elem sym (some k) none, i, p =>
    p.st = .isotopeToCount ∧ p.es = i ∧ p.ee = i + sym.length ∧ p.is = i + sym.length + 1 ∧
      p.ie = i + sym.length + 1 + (natDigits k).length ∧ p.paren = 0
  | .elem sym (some k) (some _), i, p =>
    p.st = .count ∧ p.es = i ∧ p.ee = i + sym.length ∧ p.is = i + sym.length + 1 ∧
      p.ie = i + sym.length + 1 + (natDigits k).length ∧
      p.cs = i + sym.length + 1 + (natDigits k).length + 1 ∧ p.paren = 0
  | .group body none, i, p =>
    p.st = .groupToGroupCount ∧ p.gs = i + 1 ∧ p.ge = i + 1 + body.render.length ∧
      p.is = 0 ∧ p.ie = 0 ∧ p.paren = 0
  | .group body (some _), i, p =>
    p.st = .groupCount ∧ p.gs = i + 1 ∧ p.ge = i + 1 + body.render.length ∧
      p.gcs = i + 1 + body.render.length + 1 ∧ p.is = 0 ∧ p.ie = 0 ∧ p.paren = 0

section
variable (cc : CharClass) (hcc : cc.AsciiOK) (T : Table) (hT : SymbolsOK cc T)
  (sub : List Nat → Res Ents) (s : List Nat)
include hcc hT

/-- reading the rest of an element term -/
theorem elem_pending {sym : Sym} {iso cnt : Option Nat} (hwf : WFt T (.elem sym iso cnt))
    {c : Nat} {tl : List Nat} (hr : (Term.elem sym iso cnt).render = c :: tl)
    {i : Nat} {p : PState} (acc : Ents) (hstart : StartAt c i p) :
    ∃ p', ploop cc T sub s tl (i + 1) p acc = .ok (p', acc) ∧ Pending (.elem sym iso cnt) i p' := by
  obtain ⟨e, c0, symtl, hf, hsym, hiso, hcnt, hs0, hup, hin⟩ := elem_facts hT hwf
  rw [render_elem, hs0, List.cons_append] at hr
  injection hr with hc htl
  subst hc
  obtain ⟨his, hie, hbr⟩ := hstart
  have hus := isUpperStart_of_upper hup
  have hbr' : p.st = .element ∧ p.es = i ∧ p.paren = 0 := by
    rcases hbr with ⟨_, h⟩ | ⟨h40, _⟩
    · exact h
    · exact absurd h40 (upperStart_facts hus).2.2.1
  obtain ⟨hst, hes, hpar⟩ := hbr'
  have hlen : sym.length = symtl.length + 1 := by rw [hs0]; rfl
  have h1 := ploop_inert_elem cc T sub s (acc := acc) (i + 1) hst hin
  cases iso with
  | none =>
    cases cnt with
    | none =>
      simp only [isoR, renderCount, List.append_nil] at htl
      subst htl
      exact ⟨p, h1, hst, hes, his, hie, hpar⟩
    | some n =>
      obtain ⟨d, ds, hd, hdig⟩ := natDigits_cons n
      simp only [isoR, renderCount, List.nil_append, hd] at htl
      subst htl
      rw [ploop_append_ok cc T sub s h1,
        ploop_cons_ok cc T sub s (step_elem_digit cc T sub s hcc _ hst hdig)]
      refine ⟨_, ploop_digits_count cc T sub s hcc _ rfl (digits_tail hd), rfl, hes, ?_, ?_, his, hie, hpar⟩
      · show i + 1 + symtl.length = i + sym.length
        omega
      · show i + 1 + symtl.length = i + sym.length
        omega
  | some k =>
    have hkd := natDigits_all_digit k
    cases cnt with
    | none =>
      simp only [isoR, renderCount, List.append_nil] at htl
      subst htl
      rw [ploop_append_ok cc T sub s h1,
        ploop_cons_ok cc T sub s (step_elem_lbr cc T sub s hcc _ hst),
        ploop_append_ok cc T sub s (ploop_digits_iso cc T sub s hcc _ rfl hkd),
        ploop_cons_ok cc T sub s (step_iso_rbr cc T sub s _ rfl)]
      refine ⟨_, rfl, rfl, hes, ?_, ?_, ?_, hpar⟩
      · show i + 1 + symtl.length = i + sym.length
        omega
      · show i + 1 + symtl.length + 1 = i + sym.length + 1
        omega
      · show i + 1 + symtl.length + 1 + (natDigits k).length = i + sym.length + 1 + (natDigits k).length
        omega
    | some n =>
      obtain ⟨d, ds, hd, hdig⟩ := natDigits_cons n
      simp only [isoR, renderCount, List.cons_append, List.append_assoc, List.nil_append, hd] at htl
      subst htl
      rw [ploop_append_ok cc T sub s h1,
        ploop_cons_ok cc T sub s (step_elem_lbr cc T sub s hcc _ hst),
        ploop_append_ok cc T sub s (ploop_digits_iso cc T sub s hcc _ rfl hkd),
        ploop_cons_ok cc T sub s (step_iso_rbr cc T sub s _ rfl),
        ploop_cons_ok cc T sub s (step_i2c_digit cc T sub s hcc _ rfl hdig)]
      refine ⟨_, ploop_digits_count cc T sub s hcc _ rfl (digits_tail hd), rfl, hes, ?_, ?_, ?_, ?_, hpar⟩
      · show i + 1 + symtl.length = i + sym.length
        omega
      · show i + 1 + symtl.length + 1 = i + sym.length + 1
        omega
      · show i + 1 + symtl.length + 1 + (natDigits k).length = i + sym.length + 1 + (natDigits k).length
        omega
      · show i + 1 + symtl.length + 1 + (natDigits k).length + 1
          = i + sym.length + 1 + (natDigits k).length + 1
        omega

end

/-! ## Groups: the machine only counts parentheses -/

theorem isoR_flat (iso : Option Nat) : ∀ c ∈ isoR iso, c ≠ 40 ∧ c ≠ 41 := by
  intro c hc
  cases iso with
  | none => simp [isoR] at hc
  | some k =>
    simp only [isoR, List.mem_cons, List.mem_append, List.not_mem_nil, or_false] at hc
    rcases hc with h | h | h
    · subst h; decide
    · have := digit_facts (natDigits_all_digit k c h); exact ⟨this.2.2.1, this.2.2.2.1⟩
    · subst h; decide

theorem renderCount_flat (cnt : Option Nat) : ∀ c ∈ renderCount cnt, c ≠ 40 ∧ c ≠ 41 := by
  intro c hc
  cases cnt with
  | none => simp [renderCount] at hc
  | some n =>
    have := digit_facts (natDigits_all_digit n c hc); exact ⟨this.2.2.1, this.2.2.2.1⟩

theorem renderCount_digits (cnt : Option Nat) : ∀ c ∈ renderCount cnt, isAsciiDigit c = true := by
  intro c hc
  cases cnt with
  | none => simp [renderCount] at hc
  | some n => exact natDigits_all_digit n c hc

theorem elem_flat {cc : CharClass} {T : Table} (hT : SymbolsOK cc T) {sym : Sym} {iso cnt : Option Nat}
    (hwf : WFt T (.elem sym iso cnt)) : ∀ c ∈ (Term.elem sym iso cnt).render, c ≠ 40 ∧ c ≠ 41 := by
  obtain ⟨e, c0, symtl, hf, hsym, hiso, hcnt, hs0, hup, hin⟩ := elem_facts hT hwf
  intro c hc
  rw [render_elem, hs0] at hc
  simp only [List.mem_cons, List.mem_append] at hc
  rcases hc with (h | h) | h | h
  · subst h
    have := upperStart_facts (isUpperStart_of_upper hup)
    exact ⟨this.2.2.1, this.2.2.2⟩
  · exact inert_ne (hin c h)
  · exact isoR_flat iso c h
  · exact renderCount_flat cnt c h

section
variable (cc : CharClass) (T : Table) (hT : SymbolsOK cc T)
  (sub : List Nat → Res Ents) (s : List Nat)
include hT

mutual
  theorem skip_term : (t : Term) → WFt T t → ∀ (i : Nat) (p : PState) (acc : Ents),
      p.st = .group → 1 ≤ p.paren → ploop cc T sub s t.render i p acc = .ok (p, acc)
    | .elem sym iso cnt, hwf, i, p, acc, hst, _ =>
      ploop_group_flat cc T sub s i hst (elem_flat hT hwf)
    | .group body cnt, hwf, i, p, acc, hst, hp => by
      obtain ⟨_, hwfb, _⟩ := wft_group hwf
      rw [render_group, ploop_cons_ok cc T sub s (step_group_open cc T sub s i hst),
        ploop_append_ok cc T sub s
          (skip_terms body hwfb (i + 1) { p with paren := p.paren + 1 } acc hst
            (by show 1 ≤ p.paren + 1; omega)),
        ploop_cons_ok cc T sub s (step_group_close_ne cc T sub s (p := { p with paren := p.paren + 1 }) _ hst
            (by show p.paren + 1 - 1 ≠ 0; omega))]
      have hp2 : ({ p with paren := p.paren + 1 - 1 } : PState) = p := by
        cases p; simp only [PState.mk.injEq, and_true, true_and]; omega
      show ploop cc T sub s (renderCount cnt) _ { p with paren := p.paren + 1 - 1 } acc = _
      rw [hp2]
      exact ploop_group_flat cc T sub s _ hst (renderCount_flat cnt)
  theorem skip_terms : (ts : Terms) → WF T ts → ∀ (i : Nat) (p : PState) (acc : Ents),
      p.st = .group → 1 ≤ p.paren → ploop cc T sub s ts.render i p acc = .ok (p, acc)
    | .nil, _, i, p, acc, _, _ => by rw [render_nil]; rfl
    | .cons t ts, hwf, i, p, acc, hst, hp => by
      rw [render_cons, ploop_append_ok cc T sub s (skip_term t (wf_cons hwf).1 i p acc hst hp)]
      exact skip_terms ts (wf_cons hwf).2 _ p acc hst hp
end

end

section
variable (cc : CharClass) (hcc : cc.AsciiOK) (T : Table) (hT : SymbolsOK cc T)
  (sub : List Nat → Res Ents) (s : List Nat)
include hcc hT

/-- reading the rest of a group term -/
theorem group_pending {body : Terms} {cnt : Option Nat} (hwf : WFt T (.group body cnt))
    {c : Nat} {tl : List Nat} (hr : (Term.group body cnt).render = c :: tl)
    {i : Nat} {p : PState} (acc : Ents) (hstart : StartAt c i p) :
    ∃ p', ploop cc T sub s tl (i + 1) p acc = .ok (p', acc) ∧ Pending (.group body cnt) i p' := by
  obtain ⟨_, hwfb, _⟩ := wft_group hwf
  rw [render_group] at hr
  injection hr with hc htl
  subst hc
  obtain ⟨his, hie, hbr⟩ := hstart
  have hbr' : p.st = .group ∧ p.gs = i + 1 ∧ p.paren = 1 := by
    rcases hbr with ⟨h, _⟩ | ⟨_, h⟩
    · exact absurd h (by decide)
    · exact h
  obtain ⟨hst, hgs, hpar⟩ := hbr'
  have h1 := skip_terms cc T hT sub s body hwfb (i + 1) p acc hst (by omega)
  cases cnt with
  | none =>
    simp only [renderCount] at htl
    subst htl
    rw [ploop_append_ok cc T sub s h1, ploop_cons_ok cc T sub s (step_group_close_z cc T sub s _ hst hpar)]
    exact ⟨_, rfl, rfl, hgs, rfl, his, hie, rfl⟩
  | some n =>
    obtain ⟨d, ds, hd, hdig⟩ := natDigits_cons n
    simp only [renderCount, hd] at htl
    subst htl
    rw [ploop_append_ok cc T sub s h1, ploop_cons_ok cc T sub s (step_group_close_z cc T sub s _ hst hpar),
      ploop_cons_ok cc T sub s (step_g2gc_digit cc T sub s hcc _ rfl hdig)]
    exact ⟨_, ploop_digits_gc cc T sub s hcc _ rfl (digits_tail hd), rfl, hgs, rfl, rfl, his, hie, rfl⟩

/-- (L2/L3) reading the rest of any term leaves it pending, the accumulator untouched -/
theorem term_pending (t : Term) (hwf : WFt T t) {c : Nat} {tl : List Nat} (hr : t.render = c :: tl)
    {i : Nat} {p : PState} (acc : Ents) (hstart : StartAt c i p) :
    ∃ p', ploop cc T sub s tl (i + 1) p acc = .ok (p', acc) ∧ Pending t i p' := by
  cases t with
  | elem sym iso cnt => exact elem_pending cc hcc T hT sub s hwf hr acc hstart
  | group body cnt => exact group_pending cc hcc T hT sub s hwf hr acc hstart

end

/-! ## Flushing a pending term: at the next term's first character, or at the end of input -/

theorem starts_not_numeric {cc : CharClass} (hcc : cc.AsciiOK) {c : Nat} (hc : Starts c) :
    cc.numeric c = false := by
  have hlt : c < 128 ∧ isAsciiDigit c = false := by
    rcases hc with h | h
    · have := (upperStart_facts h).2.1
      simp only [isAsciiUpper, Bool.and_eq_true, decide_eq_true_eq] at this
      refine ⟨by omega, ?_⟩
      simp only [isAsciiDigit, Bool.and_eq_false_iff, decide_eq_false_iff_not]; omega
    · subst h; exact ⟨by omega, by decide⟩
  rw [(hcc c hlt.1).2.1]; exact hlt.2

section
variable (cc : CharClass) (hcc : cc.AsciiOK) (T : Table) (sub : List Nat → Res Ents) (s : List Nat)

/-- from state `p` with accumulator `acc`, the term pending at `j` is flushed into `acc'` both by the
    first character of a following term and by the end of the input -/
def FlushTo (p : PState) (acc : Ents) (j : Nat) (acc' : Ents) : Prop :=
  (∀ c, Starts c → ∃ p', pstep cc T sub s p acc j c = .ok (p', acc') ∧ StartAt c j p') ∧
  (s.length = j → pfinish T sub s p acc = .ok acc')

include hcc

theorem elem_flushTo {p : PState} {acc acc' : Ents} {j : Nat} (hst : p.st = .element)
    (hfl : ∃ p2, flushElem T s { p with ee := j } acc = .ok (p2, acc') ∧
      p2.is = 0 ∧ p2.ie = 0 ∧ p2.paren = 0) : FlushTo cc T sub s p acc j acc' := by
  obtain ⟨p2, hfl, his, hie, hpar⟩ := hfl
  simp only [hst] at hfl
  constructor
  · intro c hc
    rcases hc with hc | hc
    · have hf := upperStart_facts hc
      refine ⟨{ p2 with st := .element, es := j, ee := 0 }, ?_, his, hie, Or.inl ⟨hc, rfl, rfl, hpar⟩⟩
      unfold pstep
      simp only [hst, hf.1, hf.2.1, if_true, hfl, Res.ok_bind]
    · subst hc
      refine ⟨{ p2 with paren := p2.paren + 1, gs := j + 1, st := .group }, ?_, his, hie,
        Or.inr ⟨rfl, rfl, rfl, by show p2.paren + 1 = 1; rw [hpar]; rfl⟩⟩
      have hn : cc.numeric 40 = false := starts_not_numeric hcc (Or.inr rfl)
      have ha : isAsciiAlpha 40 = false := by decide
      unfold pstep
      simp only [hst, ha, hn]
      simp [hfl]
  · intro hlen
    unfold pfinish
    simp only [hst, hlen, hfl, Res.ok_bind]

theorem count_flushTo {p : PState} {acc acc' : Ents} {j : Nat} (hst : p.st = .count)
    (hfl : ∃ p2, flushCount T s { p with ce := j } acc = .ok (p2, acc') ∧
      p2.is = 0 ∧ p2.ie = 0 ∧ p2.paren = 0) : FlushTo cc T sub s p acc j acc' := by
  obtain ⟨p2, hfl, his, hie, hpar⟩ := hfl
  simp only [hst] at hfl
  constructor
  · intro c hc
    obtain ⟨p', hp', hs'⟩ := afterTerm_start (j := j) true isUpperStart (fun h => h) his hie hpar hc
    refine ⟨p', ?_, hs'⟩
    unfold pstep
    simp only [hst, starts_not_numeric hcc hc, Bool.not_false, if_true, hfl, Res.ok_bind, hp']
  · intro hlen
    unfold pfinish
    simp only [hst, hlen, hfl, Res.ok_bind]

theorem i2c_flushTo {p : PState} {acc acc' : Ents} {j : Nat} (hst : p.st = .isotopeToCount)
    (hfl : ∃ p2, flushIso T s p acc = .ok (p2, acc') ∧
      p2.is = 0 ∧ p2.ie = 0 ∧ p2.paren = 0) : FlushTo cc T sub s p acc j acc' := by
  obtain ⟨p2, hfl, his, hie, hpar⟩ := hfl
  constructor
  · intro c hc
    obtain ⟨p', hp', hs'⟩ := afterTerm_start (j := j) false isAsciiUpper
      (fun h => (upperStart_facts h).2.1) his hie hpar hc
    refine ⟨p', ?_, hs'⟩
    unfold pstep
    simp only [hst, starts_not_numeric hcc hc, hfl, Res.ok_bind, hp']
    simp
  · intro hlen
    unfold pfinish
    simp only [hst, hfl, Res.ok_bind]

theorem g2gc_flushTo {p : PState} {acc g : Ents} {j : Nat} {body : List Nat}
    (hst : p.st = .groupToGroupCount) (hsl : slice s p.gs p.ge = .ok body) (hsub : sub body = .ok g)
    (his : p.is = 0) (hie : p.ie = 0) (hpar : p.paren = 0) :
    FlushTo cc T sub s p acc j (acc.addFrom g 1) := by
  constructor
  · intro c hc
    obtain ⟨p', hp', hs'⟩ := afterTerm_start (p := { p with gs := 0, ge := 0 }) (j := j) true isUpperStart
      (fun h => h) his hie hpar hc
    simp only [hst] at hp'
    refine ⟨p', ?_, hs'⟩
    unfold pstep
    simp only [hst, starts_not_numeric hcc hc, Bool.not_false, if_true, hsl, hsub, Res.ok_bind, hp']
  · intro hlen
    unfold pfinish
    simp only [hst, hsl, hsub, Res.ok_bind]

theorem gc_flushTo {p : PState} {acc g : Ents} {j n : Nat} {body : List Nat}
    (hst : p.st = .groupCount) (hsl : slice s p.gs p.ge = .ok body) (hsub : sub body = .ok g)
    (hgc : slice s p.gcs j = .ok (natDigits n)) (hn : n ≤ 2147483647)
    (his : p.is = 0) (hie : p.ie = 0) (hpar : p.paren = 0) :
    FlushTo cc T sub s p acc j (acc.addFrom (g.mapCounts ((n : Int) * ·)) 1) := by
  have hg := groupCount_ok s (p := { p with gce := j, gs := 0, ge := 0 }) hgc hn
  simp only [hst] at hg
  constructor
  · intro c hc
    obtain ⟨p', hp', hs'⟩ := afterTerm_start
      (p := { p with gce := 0, gs := 0, ge := 0, gcs := 0 }) (j := j) true isUpperStart
      (fun h => h) his hie hpar hc
    simp only [hst] at hp'
    refine ⟨p', ?_, hs'⟩
    unfold pstep
    simp only [hst, starts_not_numeric hcc hc, Bool.not_false, if_true, hsl, hsub, Res.ok_bind, hg, hp']
  · intro hlen
    unfold pfinish
    simp only [hst, hlen, hsl, hsub, Res.ok_bind, hg]

end

/-! ## What a flushed term adds to the accumulator -/

theorem ext_elem (acc : Ents) (sym : Sym) (iso cnt : Option Nat) (hacc : acc.NoDupKeys) :
    Ext acc (Term.elem sym iso cnt).denote (Term.elem sym iso cnt).mentioned
      (acc.inc (sym, iso.getD 0) ((cnt.getD 1 : Nat) : Int)) := by
  have h := ext_inc acc (sym, iso.getD 0) ((cnt.getD 1 : Nat) : Int) hacc
  have hd : (Term.elem sym iso cnt).denote
      = fun k => if k = (sym, iso.getD 0) then ((cnt.getD 1 : Nat) : Int) else 0 := by
    funext k; simp only [Term.denote]
  have hm : (Term.elem sym iso cnt).mentioned = [(sym, iso.getD 0)] := by simp only [Term.mentioned]
  rw [hd, hm]; exact h

theorem ext_group (acc g : Ents) (body : Terms) (cnt : Option Nat) (m : Int)
    (hm : m = ((cnt.getD 1 : Nat) : Int)) (hacc : acc.NoDupKeys)
    (hg : Ext [] body.denote body.mentioned g) :
    Ext acc (Term.group body cnt).denote (Term.group body cnt).mentioned
      (acc.addFrom (g.mapCounts (m * ·)) 1) := by
  have h := ext_addFrom acc (g.mapCounts (m * ·)) hacc (Ents.nodup_mapCounts g _ hg.nodup)
  refine ⟨h.nodup, ?_, ?_⟩
  · intro k
    rw [h.get, Ents.get_mapCounts_mul, hg.get]
    simp only [Term.denote, Ents.get_nil, Int.zero_add, hm]
  · intro k hk
    rcases h.keys k hk with h1 | h1
    · exact Or.inl h1
    · rw [Ents.keys_mapCounts] at h1
      rcases hg.keys k h1 with h2 | h2
      · simp [Ents.keys] at h2
      · exact Or.inr (by simpa only [Term.mentioned] using h2)

theorem mapCounts_one (g : Ents) : g.mapCounts ((1 : Int) * ·) = g := by
  unfold Ents.mapCounts
  induction g with
  | nil => rfl
  | cons e rest ih => rw [List.map_cons, ih]; simp

section
variable (cc : CharClass) (hcc : cc.AsciiOK) (T : Table) (hT : SymbolsOK cc T)
  (sub : List Nat → Res Ents) (s : List Nat)
include hcc hT

theorem elem_flush {sym : Sym} {iso cnt : Option Nat} (hwf : WFt T (.elem sym iso cnt))
    {pre rest : List Nat} (hs : s = pre ++ (Term.elem sym iso cnt).render ++ rest) {p : PState}
    (hpend : Pending (.elem sym iso cnt) pre.length p) {acc : Ents} (hacc : acc.NoDupKeys) :
    ∃ acc', FlushTo cc T sub s p acc (pre.length + (Term.elem sym iso cnt).render.length) acc' ∧
      Ext acc (Term.elem sym iso cnt).denote (Term.elem sym iso cnt).mentioned acc' := by
  obtain ⟨e, c0, symtl, hf, hsym, hiso, hcnt, -, -, -⟩ := elem_facts hT hwf
  refine ⟨_, ?_, ext_elem acc sym iso cnt hacc⟩
  cases iso with
  | none =>
    cases cnt with
    | none =>
      obtain ⟨hst, hes, his, hie, hpar⟩ := hpend
      have hr : (Term.elem sym none none).render = sym := by simp [render_elem, isoR, renderCount]
      rw [hr] at hs ⊢
      apply elem_flushTo cc hcc T sub s hst
      have hsl : slice s p.es (pre.length + sym.length) = .ok sym := slice_mid hs hes rfl
      obtain ⟨p2, h1, h2, h3, h4⟩ := flushElem_ok T s (p := { p with ee := pre.length + sym.length })
        (acc := acc) hsl hf
      rw [hsym] at h1
      exact ⟨p2, h1, h2.trans his, h3.trans hie, h4.trans hpar⟩
    | some n =>
      obtain ⟨hst, hes, hee, hcs, his, hie, hpar⟩ := hpend
      have hr : (Term.elem sym none (some n)).render = sym ++ natDigits n := by
        simp [render_elem, isoR, renderCount]
      rw [hr] at hs ⊢
      apply count_flushTo cc hcc T sub s hst
      have hsl : slice s p.es p.ee = .ok sym :=
        slice_mid (pre := pre) (post := natDigits n ++ rest) (by rw [hs]; simp) hes hee
      have hc : slice s p.cs (pre.length + (sym ++ natDigits n).length) = .ok (natDigits n) :=
        slice_mid (pre := pre ++ sym) (post := rest) (by rw [hs]; simp) (by simp only [hcs, List.length_append, List.length_cons, List.length_nil] <;> omega)
          (by simp only [hcs, List.length_append, List.length_cons, List.length_nil] <;> omega)
      obtain ⟨p2, h1, h2, h3, h4⟩ := flushCount_noiso_ok T s
        (p := { p with ce := pre.length + (sym ++ natDigits n).length }) (acc := acc) hc hcnt his hie hsl hf
      rw [hsym] at h1
      exact ⟨p2, h1, h2, h3, h4.trans hpar⟩
  | some k =>
    simp only [isoOK] at hiso
    obtain ⟨_, hk, hiso⟩ := hiso
    cases cnt with
    | none =>
      obtain ⟨hst, hes, hee, his, hie, hpar⟩ := hpend
      have hr : (Term.elem sym (some k) none).render = sym ++ 91 :: (natDigits k ++ [93]) := by
        simp [render_elem, isoR, renderCount]
      rw [hr] at hs ⊢
      apply i2c_flushTo cc hcc T sub s hst
      have hsl : slice s p.es p.ee = .ok sym :=
        slice_mid (pre := pre) (post := 91 :: (natDigits k ++ [93]) ++ rest) (by rw [hs]; simp) hes hee
      have hisl : slice s p.is p.ie = .ok (natDigits k) :=
        slice_mid (pre := pre ++ sym ++ [91]) (post := 93 :: rest) (by rw [hs]; simp)
          (by simp only [his, hie, List.length_append, List.length_cons, List.length_nil] <;> omega)
          (by simp only [his, hie, List.length_append, List.length_cons, List.length_nil] <;> omega)
      obtain ⟨p2, h1, h2, h3, h4⟩ := flushIso_ok T s (p := p) (acc := acc) hisl hk hiso hsl hf
      rw [hsym] at h1
      exact ⟨p2, h1, h2, h3, h4.trans hpar⟩
    | some n =>
      obtain ⟨hst, hes, hee, his, hie, hcs, hpar⟩ := hpend
      have hr : (Term.elem sym (some k) (some n)).render
          = sym ++ 91 :: (natDigits k ++ 93 :: natDigits n) := by
        simp [render_elem, isoR, renderCount]
      rw [hr] at hs ⊢
      apply count_flushTo cc hcc T sub s hst
      have hsl : slice s p.es p.ee = .ok sym :=
        slice_mid (pre := pre) (post := 91 :: (natDigits k ++ 93 :: natDigits n) ++ rest)
          (by rw [hs]; simp) hes hee
      have hisl : slice s p.is p.ie = .ok (natDigits k) :=
        slice_mid (pre := pre ++ sym ++ [91]) (post := 93 :: natDigits n ++ rest) (by rw [hs]; simp)
          (by simp only [his, hie, List.length_append, List.length_cons, List.length_nil] <;> omega)
          (by simp only [his, hie, List.length_append, List.length_cons, List.length_nil] <;> omega)
      have hc : slice s p.cs (pre.length + (sym ++ 91 :: (natDigits k ++ 93 :: natDigits n)).length)
          = .ok (natDigits n) :=
        slice_mid (pre := pre ++ sym ++ [91] ++ natDigits k ++ [93]) (post := rest) (by rw [hs]; simp)
          (by simp only [hcs, List.length_append, List.length_cons, List.length_nil] <;> omega)
          (by simp only [hcs, List.length_append, List.length_cons, List.length_nil] <;> omega)
      have hpos : 0 < (natDigits k).length := List.length_pos_iff.2 (natDigits_ne_nil k)
      have hne : p.ie ≠ p.is := by rw [hie, his]; omega
      obtain ⟨p2, h1, h2, h3, h4⟩ := flushCount_iso_ok T s
        (p := { p with ce := pre.length + (sym ++ 91 :: (natDigits k ++ 93 :: natDigits n)).length })
        (acc := acc) hc hcnt hne hisl hk hiso hsl hf
      rw [hsym] at h1
      exact ⟨p2, h1, h2, h3, h4.trans hpar⟩

end

section
variable (cc : CharClass) (hcc : cc.AsciiOK) (T : Table) (hT : SymbolsOK cc T)
  (sub : List Nat → Res Ents) (s : List Nat)
include hcc hT

theorem group_flush {body : Terms} {cnt : Option Nat} (hwf : WFt T (.group body cnt))
    {pre rest : List Nat} (hs : s = pre ++ (Term.group body cnt).render ++ rest) {p : PState}
    (hpend : Pending (.group body cnt) pre.length p) {acc : Ents} (hacc : acc.NoDupKeys)
    (hsub : SubOK sub body) :
    ∃ acc', FlushTo cc T sub s p acc (pre.length + (Term.group body cnt).render.length) acc' ∧
      Ext acc (Term.group body cnt).denote (Term.group body cnt).mentioned acc' := by
  obtain ⟨_, _, hcnt⟩ := wft_group hwf
  obtain ⟨g, hg, hext⟩ := hsub
  cases cnt with
  | none =>
    obtain ⟨hst, hgs, hge, his, hie, hpar⟩ := hpend
    have hr : (Term.group body none).render = 40 :: (body.render ++ [41]) := by
      simp [render_group, renderCount]
    rw [hr] at hs ⊢
    have hsl : slice s p.gs p.ge = .ok body.render :=
      slice_mid (pre := pre ++ [40]) (post := 41 :: rest) (by rw [hs]; simp)
        (by simp only [hgs, hge, List.length_append, List.length_cons, List.length_nil] <;> omega)
        (by simp only [hgs, hge, List.length_append, List.length_cons, List.length_nil] <;> omega)
    refine ⟨acc.addFrom g 1, g2gc_flushTo cc hcc T sub s hst hsl hg his hie hpar, ?_⟩
    have := ext_group acc g body none 1 (by simp) hacc hext
    rw [mapCounts_one] at this
    exact this
  | some n =>
    obtain ⟨hst, hgs, hge, hgcs, his, hie, hpar⟩ := hpend
    have hr : (Term.group body (some n)).render = 40 :: (body.render ++ 41 :: natDigits n) := by
      simp [render_group, renderCount]
    rw [hr] at hs ⊢
    have hsl : slice s p.gs p.ge = .ok body.render :=
      slice_mid (pre := pre ++ [40]) (post := 41 :: natDigits n ++ rest) (by rw [hs]; simp)
        (by simp only [hgs, hge, List.length_append, List.length_cons, List.length_nil] <;> omega)
        (by simp only [hgs, hge, List.length_append, List.length_cons, List.length_nil] <;> omega)
    have hgc : slice s p.gcs (pre.length + (40 :: (body.render ++ 41 :: natDigits n)).length)
        = .ok (natDigits n) :=
      slice_mid (pre := pre ++ [40] ++ body.render ++ [41]) (post := rest) (by rw [hs]; simp)
        (by simp only [hgcs, List.length_append, List.length_cons, List.length_nil] <;> omega)
        (by simp only [hgcs, List.length_append, List.length_cons, List.length_nil] <;> omega)
    exact ⟨_, gc_flushTo cc hcc T sub s hst hsl hg hgc hcnt his hie hpar,
      ext_group acc g body (some n) (n : Int) (by simp) hacc hext⟩

/-- (L2/L3) a pending term is flushed, adding exactly its denotation -/
theorem term_flush (t : Term) (hwf : WFt T t) {pre rest : List Nat} (hs : s = pre ++ t.render ++ rest)
    {p : PState} (hpend : Pending t pre.length p) {acc : Ents} (hacc : acc.NoDupKeys)
    (hsub : ∀ b, b ≠ .nil → WF T b → b.render.length + 2 ≤ s.length → SubOK sub b) :
    ∃ acc', FlushTo cc T sub s p acc (pre.length + t.render.length) acc' ∧
      Ext acc t.denote t.mentioned acc' := by
  cases t with
  | elem sym iso cnt => exact elem_flush cc hcc T hT sub s hwf hs hpend hacc
  | group body cnt =>
    obtain ⟨hne, hwfb, _⟩ := wft_group hwf
    refine group_flush cc hcc T hT sub s hwf hs hpend hacc (hsub body hne hwfb ?_)
    rw [hs, render_group]
    simp only [List.length_append, List.length_cons]
    omega

omit hcc in
theorem term_starts (t : Term) (hwf : WFt T t) : ∃ c tl, t.render = c :: tl ∧ Starts c := by
  cases t with
  | elem sym iso cnt =>
    obtain ⟨e, c0, symtl, _, _, _, _, hs0, hup, _⟩ := elem_facts hT hwf
    refine ⟨c0, symtl ++ (isoR iso ++ renderCount cnt), ?_, Or.inl (isUpperStart_of_upper hup)⟩
    rw [render_elem, hs0]; rfl
  | group body cnt => exact ⟨40, _, render_group body cnt, Or.inr rfl⟩

omit hcc in
theorem terms_starts (ts : Terms) (hne : ts ≠ .nil) (hwf : WF T ts) :
    ∃ c tl, ts.render = c :: tl ∧ Starts c := by
  cases ts with
  | nil => exact absurd rfl hne
  | cons t ts' =>
    obtain ⟨c, tl, hr, hc⟩ := term_starts cc T hT t (wf_cons hwf).1
    exact ⟨c, tl ++ ts'.render, by rw [render_cons, hr]; rfl, hc⟩

/-- (L4, one nesting level) from the state just after the first character of `ts`, the loop followed by
    the end-of-input `match` adds exactly the denotation of `ts` -/
theorem level (hsub : ∀ b, b ≠ .nil → WF T b → b.render.length + 2 ≤ s.length → SubOK sub b) :
    (ts : Terms) → ts ≠ .nil → WF T ts → ∀ (pre : List Nat) (c : Nat) (tl : List Nat) (p : PState)
      (acc : Ents), ts.render = c :: tl → s = pre ++ ts.render → StartAt c pre.length p → acc.NoDupKeys →
      ∃ p' acc', ploop cc T sub s tl (pre.length + 1) p acc = .ok (p', acc') ∧
        ∃ ents, pfinish T sub s p' acc' = .ok ents ∧ Ext acc ts.denote ts.mentioned ents
  | .nil, hne, _, _, _, _, _, _, _, _, _, _ => absurd rfl hne
  | .cons t ts', _, hwf, pre, c, tl, p, acc, hr, hs, hstart, hacc => by
    obtain ⟨hwt, hwts⟩ := wf_cons hwf
    obtain ⟨c1, tl1, hr1, _⟩ := term_starts cc T hT t hwt
    rw [render_cons] at hs
    rw [render_cons, hr1, List.cons_append] at hr
    injection hr with hc htl
    subst hc
    obtain ⟨p1, hl1, hpend⟩ := term_pending cc hcc T hT sub s t hwt hr1 acc hstart
    obtain ⟨acc1, ⟨hstep, hend⟩, hext1⟩ :=
      term_flush cc hcc T hT sub s t hwt (rest := ts'.render) (by rw [hs, List.append_assoc]) hpend hacc hsub
    have hden : (Terms.cons t ts').denote = fun k => t.denote k + ts'.denote k := by
      funext k; simp only [Terms.denote]
    have hmen : (Terms.cons t ts').mentioned = t.mentioned ++ ts'.mentioned := by
      simp only [Terms.mentioned]
    have hlen1 : t.render.length = tl1.length + 1 := by rw [hr1]; rfl
    cases hts : ts' with
    | nil =>
      subst hts
      rw [render_nil, List.append_nil] at htl hs
      subst htl
      refine ⟨p1, acc, hl1, acc1, hend (by rw [hs, List.length_append]), ?_⟩
      rw [hden, hmen]
      refine ⟨hext1.nodup, ?_, ?_⟩
      · intro k; rw [hext1.get]; simp only [Terms.denote]; omega
      · intro k hk
        rcases hext1.keys k hk with h | h
        · exact Or.inl h
        · exact Or.inr (List.mem_append_left _ h)
    | cons t2 ts2 =>
      have hne2 : ts' ≠ .nil := by rw [hts]; intro h; cases h
      obtain ⟨c2, tl2, hr2, hst2⟩ := terms_starts cc T hT ts' hne2 hwts
      obtain ⟨p2, hp2, hstart2⟩ := hstep c2 hst2
      have hpl : (pre ++ t.render).length = pre.length + t.render.length := List.length_append
      rw [← hpl] at hstart2 hp2
      obtain ⟨p', acc', hl2, ents, hfin, hext2⟩ :=
        level hsub ts' hne2 hwts (pre ++ t.render) c2 tl2 p2 acc1 hr2 (by rw [hs, List.append_assoc])
          hstart2 hext1.nodup
      have hidx : pre.length + 1 + tl1.length = (pre ++ t.render).length := by rw [hpl, hlen1]; omega
      refine ⟨p', acc', ?_, ents, hfin, ?_⟩
      · rw [← htl, hr2, ploop_append_ok cc T sub s hl1, hidx, ploop_cons_ok cc T sub s hp2]
        exact hl2
      · rw [← hts, hden, hmen]
        exact hext1.trans hext2

end

/-! ## Fuel, and the theorem -/

theorem parseA_succ_of {cc : CharClass} {T : Table} {fuel : Nat} {s tl : List Nat} {c : Nat}
    {p0 p' : PState} {acc' ents : Ents} (hs : s = c :: tl)
    (h1 : pstep cc T (parseA cc T fuel) s {} [] 0 c = .ok (p0, []))
    (h2 : ploop cc T (parseA cc T fuel) s tl (0 + 1) p0 [] = .ok (p', acc'))
    (h3 : pfinish T (parseA cc T fuel) s p' acc' = .ok ents) :
    parseA cc T (fuel + 1) s = .ok ents := by
  have h : ploop cc T (parseA cc T fuel) s s 0 {} [] = .ok (p', acc') := by
    have : ploop cc T (parseA cc T fuel) s s 0 {} [] = ploop cc T (parseA cc T fuel) s (c :: tl) 0 {} [] := by
      rw [← hs]
    rw [this, ploop_cons_ok cc T _ s h1]
    exact h2
  unfold parseA
  rw [h]
  exact h3

/-- (L4) enough fuel: any recursion budget exceeding the length of the text suffices -/
theorem parseA_ok (cc : CharClass) (hcc : cc.AsciiOK) (T : Table) (hT : SymbolsOK cc T) :
    ∀ (fuel : Nat) (ts : Terms), ts ≠ .nil → WF T ts → ts.render.length < fuel →
      ∃ ents, parseA cc T fuel ts.render = .ok ents ∧ Ext [] ts.denote ts.mentioned ents := by
  intro fuel
  induction fuel with
  | zero => intro ts _ _ h; omega
  | succ fuel ih =>
    intro ts hne hwf hlen
    obtain ⟨c, tl, hr, hst⟩ := terms_starts cc T hT ts hne hwf
    obtain ⟨p0, hp0, hstart0⟩ := step_new_start cc T (parseA cc T fuel) ts.render
      (p := {}) (acc := []) (j := 0) rfl rfl rfl rfl hst
    have hsub : ∀ b, b ≠ .nil → WF T b → b.render.length + 2 ≤ ts.render.length →
        SubOK (parseA cc T fuel) b := fun b hb hwb hl => ih b hb hwb (by omega)
    obtain ⟨p', acc', hl, ents, hfin, hext⟩ :=
      level cc hcc T hT (parseA cc T fuel) ts.render hsub ts hne hwf [] c tl p0 [] hr rfl hstart0
        Ents.nodup_nil
    exact ⟨ents, parseA_succ_of hr hp0 hl hfin, hext⟩

/-- **C01.** A well-formed formula parses to exactly what it denotes: the parser accepts the text of
    every non-empty well-formed term list, the composition it returns gives every key the count the
    grammar assigns, and it has no entries other than for the specifications the formula mentions. -/
theorem parse_render (cc : CharClass) (hcc : cc.AsciiOK) (T : Table) (hT : SymbolsOK cc T) (ts : Spec.Terms)
    (hne : ts ≠ .nil) (hwf : WF T ts) :
    ∃ ents, parseFormula cc T (ts.render) = .ok ents ∧ (∀ k, ents.get k = ts.denote k) ∧
            (∀ k ∈ ents.keys, k ∈ ts.mentioned) := by
  obtain ⟨ents, h, hext⟩ := parseA_ok cc hcc T hT (ts.render.length + 1) ts hne hwf (by omega)
  refine ⟨ents, h, ?_, ?_⟩
  · intro k; rw [hext.get]; simp
  · intro k hk
    rcases hext.keys k hk with h | h
    · simp [Ents.keys] at h
    · exact h

/-- the parsed composition also has pairwise distinct keys -/
theorem parse_render_nodup (cc : CharClass) (hcc : cc.AsciiOK) (T : Table) (hT : SymbolsOK cc T)
    (ts : Spec.Terms) (hne : ts ≠ .nil) (hwf : WF T ts) :
    ∃ ents, parseFormula cc T (ts.render) = .ok ents ∧ ents.NoDupKeys := by
  obtain ⟨ents, h, hext⟩ := parseA_ok cc hcc T hT (ts.render.length + 1) ts hne hwf (by omega)
  exact ⟨ents, h, hext.nodup⟩

/-! ## The hypotheses are checkable

`SymbolsOK` is decidable as it stands (instance above).  `WF` is equivalent to a Boolean checker, and
`SymbolsOK` follows, for every `cc` that is right on ASCII, from a `cc`-free Boolean check of the table. -/

def countOKB : Option Nat → Bool
  | none => true
  | some n => decide (n ≤ 2147483647)

def isoOKB (e : Elem) : Option Nat → Bool
  | none => true
  | some i => i != 0 && decide (i ≤ 65535) && (e.iso? i).isSome

def isNilB : Terms → Bool
  | .nil => true
  | .cons _ _ => false

mutual
  def wfTermB (T : Table) : Term → Bool
    | .elem sym iso cnt =>
      (match T.find? sym with
        | some e => e.sym == sym && isUpperHead sym && isoOKB e iso
        | none => false) && countOKB cnt
    | .group body cnt => !isNilB body && wfTermsB T body && countOKB cnt
  def wfTermsB (T : Table) : Terms → Bool
    | .nil => true
    | .cons t ts => wfTermB T t && wfTermsB T ts
end

theorem countOKB_iff (c : Option Nat) : countOKB c = true ↔ countOK c := by
  cases c <;> simp [countOKB, countOK]

theorem isoOKB_iff (e : Elem) (i : Option Nat) : isoOKB e i = true ↔ isoOK e i := by
  cases i <;> simp [isoOKB, isoOK, and_assoc]

theorem isNilB_iff (b : Terms) : isNilB b = false ↔ b ≠ .nil := by
  cases b <;> simp [isNilB]

mutual
  theorem wfTermB_iff (T : Table) : (t : Term) → (wfTermB T t = true ↔ WFt T t)
    | .elem sym iso cnt => by
      simp only [wfTermB, WFt, Bool.and_eq_true, countOKB_iff]
      cases T.find? sym with
      | none => simp
      | some e => simp only [Bool.and_eq_true, beq_iff_eq, isoOKB_iff, and_assoc]
    | .group body cnt => by
      simp only [wfTermB, WFt, Bool.and_eq_true, countOKB_iff, Bool.not_eq_true', isNilB_iff,
        wfTermsB_iff T body, and_assoc]
  theorem wfTermsB_iff (T : Table) : (ts : Terms) → (wfTermsB T ts = true ↔ WF T ts)
    | .nil => by simp [wfTermsB, WF]
    | .cons t ts => by
      simp only [wfTermsB, WF, Bool.and_eq_true, wfTermB_iff T t, wfTermsB_iff T ts]
end

instance (T : Table) (ts : Terms) : Decidable (WF T ts) := decidable_of_iff _ (wfTermsB_iff T ts)
instance (T : Table) (t : Term) : Decidable (WFt T t) := decidable_of_iff _ (wfTermB_iff T t)

/-- `cc`-free shape check: ASCII only, upper-case first, then no upper-case letter, digit, `[`, `(`, `)` -/
def symShapeAscii : Sym → Bool
  | [] => false
  | c :: rest => isAsciiUpper c &&
      rest.all (fun c => decide (c < 128) && !isAsciiUpper c && !isAsciiDigit c && c != 91 && c != 40 && c != 41)

def symbolsOKAscii (T : Table) : Bool :=
  T.all (fun e => !isUpperHead e.sym || (T.find? e.sym == some e && symShapeAscii e.sym))

theorem symbolsOK_of_ascii (cc : CharClass) (hcc : cc.AsciiOK) (T : Table)
    (h : symbolsOKAscii T = true) : SymbolsOK cc T := by
  intro e he hhead
  simp only [symbolsOKAscii, List.all_eq_true] at h
  have h' := h e he
  simp only [hhead, Bool.not_true, Bool.false_or, Bool.and_eq_true, beq_iff_eq] at h'
  obtain ⟨h1, h2⟩ := h'
  refine ⟨h1, ?_⟩
  cases hs : e.sym with
  | nil => rw [hs] at h2; simp [symShapeAscii] at h2
  | cons c rest =>
    rw [hs] at h2
    simp only [symShapeAscii, Bool.and_eq_true, List.all_eq_true, decide_eq_true_eq,
      Bool.not_eq_true', bne_iff_ne, ne_eq] at h2
    simp only [symShape, Bool.and_eq_true, List.all_eq_true]
    refine ⟨h2.1, ?_⟩
    intro x hx
    obtain ⟨⟨⟨⟨⟨hlt, hu⟩, hd⟩, h91⟩, h40⟩, h41⟩ := h2.2 x hx
    have hnum : cc.numeric x = false := by rw [(hcc x hlt).2.1]; exact hd
    simp [inert, hu, hnum, h91, h40, h41]

end Chem
