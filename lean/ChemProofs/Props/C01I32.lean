import ChemProofs.Spec.Grammar
import ChemProofs.Props.C04I32
/-
The i32 layer of C01.  `Spec.Terms.denote` counts in unbounded `Int`; the Rust parser (`src/formula.rs`) counts in `i32`.
C01 quantifies over formulas "with counts such that every per-key total fits in i32".  That is enough only if no
*intermediate* value of the parser leaves i32 while the totals fit.  What the parser computes for one key `k`
(read off `src/formula.rs`):

* `Sym[iso]count`: `acc.inc(key, count)` = `acc[key] + count` (only the term's own key is touched);
* `( body )count`: `body` is parsed into a fresh composition `g` (so: every value of the body's own computation, started
  from 0), then `&g * count` (per key `g[k] * count`), then `acc += ...` (per key `acc[k] + g[k] * count`).

`values` lists these values for a key, threading the running total.  (For a group whose body does not mention `k` the list
contains `0 * count` and `acc + 0`, which the code does not compute: a superset, so the theorems are only stronger.)

Results:
* `values_nonneg`: every value is ≥ 0 (counts are `Nat` in the syntax tree: nothing to assume);
* `values_le_total`: when every group multiplier is ≥ 1 (`PosMult`), every value is ≤ the per-key total of the whole formula;
  `values_fit`: hence in i32 when the total is;
* the restriction is necessary: `zero_mult_overflows` — with a group multiplier 0 (accepted by the parser: `"0".parse::<i32>()`
  succeeds) the body is still parsed and summed, so a value can leave i32 while every total is 0;
* without the restriction: `values_le_total1` / `values_fit1` bound the values by the total of the formula in which every
  multiplier 0 is replaced by 1 (`Terms.unzero`), which is what actually has to fit.
-/
namespace Chem
namespace Spec

mutual
  /-- the values computed for key `k` while processing a term, the running total of `k` being `acc` before it -/
  def Term.values : Term → Key → Int → List Int
    | .elem sym iso cnt, k, acc =>
      if k = (sym, iso.getD 0) then incValues acc ((cnt.getD 1 : Nat) : Int) else []
    | .group body cnt, k, acc =>
      body.values k 0 ++ mulValues (body.denote k) ((cnt.getD 1 : Nat) : Int)
        ++ addValues acc (body.denote k * ((cnt.getD 1 : Nat) : Int))
  def Terms.values : Terms → Key → Int → List Int
    | .nil, _, _ => []
    | .cons t ts, k, acc => t.values k acc ++ ts.values k (acc + t.denote k)
end

mutual
  /-- every group multiplier is ≥ 1 (an absent multiplier is 1) -/
  def Term.PosMult : Term → Prop
    | .elem _ _ _ => True
    | .group body cnt => 1 ≤ cnt.getD 1 ∧ body.PosMult
  def Terms.PosMult : Terms → Prop
    | .nil => True
    | .cons t ts => t.PosMult ∧ ts.PosMult
end

mutual
  /-- the same tree with every group multiplier 0 replaced by 1 -/
  def Term.unzero : Term → Term
    | .elem sym iso cnt => .elem sym iso cnt
    | .group body cnt => .group body.unzero (if cnt.getD 1 = 0 then some 1 else cnt)
  def Terms.unzero : Terms → Terms
    | .nil => .nil
    | .cons t ts => .cons t.unzero ts.unzero
end

/-! ## totals are non-negative -/

mutual
  theorem Term.denote_nonneg : ∀ (t : Term) (k : Key), 0 ≤ t.denote k
    | .elem sym iso cnt, k => by
      simp only [Term.denote]; split
      · exact Int.natCast_nonneg _
      · exact Int.le_refl 0
    | .group body cnt, k => by
      simp only [Term.denote]
      exact Int.mul_nonneg (Int.natCast_nonneg _) (Terms.denote_nonneg body k)
  theorem Terms.denote_nonneg : ∀ (ts : Terms) (k : Key), 0 ≤ ts.denote k
    | .nil, _ => by simp [Terms.denote]
    | .cons t ts, k => by
      simp only [Terms.denote]
      exact Int.add_nonneg (Term.denote_nonneg t k) (Terms.denote_nonneg ts k)
end

/-! ## 1. every value is ≥ 0 -/

mutual
  theorem Term.values_nonneg' : ∀ (t : Term) (k : Key) (acc : Int), 0 ≤ acc → ∀ x ∈ t.values k acc, 0 ≤ x
    | .elem sym iso cnt, k, acc, hacc, x, hx => by
      simp only [Term.values] at hx
      split at hx
      · simp only [incValues, List.mem_singleton] at hx
        subst hx; exact Int.add_nonneg hacc (Int.natCast_nonneg _)
      · simp at hx
    | .group body cnt, k, acc, hacc, x, hx => by
      simp only [Term.values, List.mem_append, mulValues, addValues, incValues, List.mem_singleton] at hx
      have hb := Terms.denote_nonneg body k
      have hp : 0 ≤ body.denote k * ((cnt.getD 1 : Nat) : Int) := Int.mul_nonneg hb (Int.natCast_nonneg _)
      rcases hx with (hx | hx) | hx
      · exact Terms.values_nonneg' body k 0 (Int.le_refl 0) x hx
      · subst hx; exact hp
      · subst hx; exact Int.add_nonneg hacc hp
  theorem Terms.values_nonneg' : ∀ (ts : Terms) (k : Key) (acc : Int), 0 ≤ acc → ∀ x ∈ ts.values k acc, 0 ≤ x
    | .nil, _, _, _, x, hx => by simp [Terms.values] at hx
    | .cons t ts, k, acc, hacc, x, hx => by
      simp only [Terms.values, List.mem_append] at hx
      rcases hx with hx | hx
      · exact Term.values_nonneg' t k acc hacc x hx
      · exact Terms.values_nonneg' ts k _ (Int.add_nonneg hacc (Term.denote_nonneg t k)) x hx
end

/-- every value the parser computes for a key is ≥ 0 -/
theorem values_nonneg (ts : Terms) (k : Key) : ∀ x ∈ ts.values k 0, 0 ≤ x :=
  Terms.values_nonneg' ts k 0 (Int.le_refl 0)

/-! ## 2. every value is ≤ the total, when no multiplier is 0 -/

theorem le_mul_of_one_le {b : Int} {c : Nat} (hb : 0 ≤ b) (hc : 1 ≤ c) : b ≤ b * (c : Int) := by
  have h1 : (1 : Int) ≤ (c : Int) := by omega
  have := Int.mul_le_mul_of_nonneg_left h1 hb
  simpa using this

mutual
  theorem Term.values_le' : ∀ (t : Term) (k : Key) (acc : Int), 0 ≤ acc → t.PosMult →
      ∀ x ∈ t.values k acc, x ≤ acc + t.denote k
    | .elem sym iso cnt, k, acc, _, _, x, hx => by
      simp only [Term.values] at hx
      split at hx
      · rename_i hk
        simp only [incValues, List.mem_singleton] at hx
        subst hx; simp only [Term.denote, if_pos hk]; exact Int.le_refl _
      · simp at hx
    | .group body cnt, k, acc, hacc, hp, x, hx => by
      simp only [Term.values, List.mem_append, mulValues, addValues, incValues, List.mem_singleton] at hx
      simp only [Term.PosMult] at hp
      have hb := Terms.denote_nonneg body k
      have hm := le_mul_of_one_le hb hp.1
      simp only [Term.denote]
      rw [Int.mul_comm ((cnt.getD 1 : Nat) : Int)]
      rcases hx with (hx | hx) | hx
      · have := Terms.values_le' body k 0 (Int.le_refl 0) hp.2 x hx
        omega
      · subst hx; omega
      · subst hx; omega
  theorem Terms.values_le' : ∀ (ts : Terms) (k : Key) (acc : Int), 0 ≤ acc → ts.PosMult →
      ∀ x ∈ ts.values k acc, x ≤ acc + ts.denote k
    | .nil, _, _, _, _, x, hx => by simp [Terms.values] at hx
    | .cons t ts, k, acc, hacc, hp, x, hx => by
      simp only [Terms.values, List.mem_append] at hx
      simp only [Terms.PosMult] at hp
      simp only [Terms.denote]
      rcases hx with hx | hx
      · have := Term.values_le' t k acc hacc hp.1 x hx
        have := Terms.denote_nonneg ts k
        omega
      · have := Terms.values_le' ts k _ (Int.add_nonneg hacc (Term.denote_nonneg t k)) hp.2 x hx
        omega
end

/-- every value the parser computes for a key is ≤ the key's total in the whole formula (multipliers ≥ 1) -/
theorem values_le_total (ts : Terms) (k : Key) (hp : ts.PosMult) : ∀ x ∈ ts.values k 0, x ≤ ts.denote k := by
  intro x hx
  have := Terms.values_le' ts k 0 (Int.le_refl 0) hp x hx
  omega

/-- 3. if the key's total fits in i32, so does every value the parser computes for the key (multipliers ≥ 1) -/
theorem values_fit (ts : Terms) (k : Key) (hp : ts.PosMult) (h : InI32 (ts.denote k)) :
    ∀ x ∈ ts.values k 0, InI32 x := by
  intro x hx
  have h0 := values_nonneg ts k x hx
  have h1 := values_le_total ts k hp x hx
  unfold InI32 at *
  omega

/-! ## the restriction to multipliers ≥ 1 is necessary -/

/-- `(C2000000000C2000000000)0`: accepted by the grammar (every literal ≤ i32::MAX), every total is 0, and the body's running
total 4000000000 is computed -/
def zeroMultTree : Terms :=
  .cons (.group (.cons (.elem [67] none (some 2000000000)) (.cons (.elem [67] none (some 2000000000)) .nil)) (some 0)) .nil

theorem zero_mult_overflows :
    (∀ k, zeroMultTree.denote k = 0) ∧ ∃ x ∈ zeroMultTree.values ([67], 0) 0, ¬ InI32 x := by
  refine ⟨?_, 4000000000, ?_, by decide⟩
  · intro k; simp [zeroMultTree, Terms.denote, Term.denote]
  · simp [zeroMultTree, Terms.values, Term.values, Terms.denote, Term.denote, incValues, mulValues, addValues]

/-! ## without the restriction: the bound is the total of the tree with multipliers 0 read as 1 -/

mutual
  theorem Term.unzero_posMult : ∀ t : Term, t.unzero.PosMult
    | .elem _ _ _ => by simp [Term.unzero, Term.PosMult]
    | .group body cnt => by
      simp only [Term.unzero, Term.PosMult]
      refine ⟨?_, Terms.unzero_posMult body⟩
      split
      · simp
      · omega
  theorem Terms.unzero_posMult : ∀ ts : Terms, ts.unzero.PosMult
    | .nil => by simp [Terms.unzero, Terms.PosMult]
    | .cons t ts => by
      simp only [Terms.unzero, Terms.PosMult]
      exact ⟨Term.unzero_posMult t, Terms.unzero_posMult ts⟩
end

mutual
  theorem Term.denote_le_unzero : ∀ (t : Term) (k : Key), t.denote k ≤ t.unzero.denote k
    | .elem _ _ _, _ => by simp only [Term.unzero]; exact Int.le_refl _
    | .group body cnt, k => by
      simp only [Term.unzero, Term.denote]
      have h0 := Terms.denote_nonneg body k
      have h1 := Terms.denote_le_unzero body k
      split
      · rename_i hz; rw [hz]; simp only [Option.getD_some]; omega
      · exact Int.mul_le_mul_of_nonneg_left h1 (Int.natCast_nonneg _)
  theorem Terms.denote_le_unzero : ∀ (ts : Terms) (k : Key), ts.denote k ≤ ts.unzero.denote k
    | .nil, _ => by simp only [Terms.unzero]; exact Int.le_refl _
    | .cons t ts, k => by
      simp only [Terms.unzero, Terms.denote]
      exact Int.add_le_add (Term.denote_le_unzero t k) (Terms.denote_le_unzero ts k)
end

mutual
  theorem Term.values_le1' : ∀ (t : Term) (k : Key) (acc : Int), 0 ≤ acc →
      ∀ x ∈ t.values k acc, x ≤ acc + t.unzero.denote k
    | .elem sym iso cnt, k, acc, _, x, hx => by
      simp only [Term.values] at hx
      split at hx
      · rename_i hk
        simp only [incValues, List.mem_singleton] at hx
        subst hx; simp only [Term.unzero, Term.denote, if_pos hk]; exact Int.le_refl _
      · simp at hx
    | .group body cnt, k, acc, hacc, x, hx => by
      simp only [Term.values, List.mem_append, mulValues, addValues, incValues, List.mem_singleton] at hx
      have hb := Terms.denote_nonneg body k
      have hbu := Terms.denote_le_unzero body k
      have hbody := Terms.values_le1' body k 0 (Int.le_refl 0)
      simp only [Term.unzero, Term.denote]
      by_cases hz : cnt.getD 1 = 0
      · rw [hz] at hx
        simp only [if_pos hz, Option.getD_some]
        rcases hx with (hx | hx) | hx
        · have := hbody x hx; omega
        · subst hx; omega
        · subst hx; omega
      · simp only [if_neg hz]
        have hc : 1 ≤ cnt.getD 1 := by omega
        have hu0 : 0 ≤ body.unzero.denote k := by omega
        have hm := le_mul_of_one_le hu0 hc
        have hmm : body.denote k * ((cnt.getD 1 : Nat) : Int) ≤ body.unzero.denote k * ((cnt.getD 1 : Nat) : Int) :=
          Int.mul_le_mul_of_nonneg_right hbu (Int.natCast_nonneg _)
        rw [Int.mul_comm ((cnt.getD 1 : Nat) : Int)]
        rcases hx with (hx | hx) | hx
        · have := hbody x hx; omega
        · subst hx; omega
        · subst hx; omega
  theorem Terms.values_le1' : ∀ (ts : Terms) (k : Key) (acc : Int), 0 ≤ acc →
      ∀ x ∈ ts.values k acc, x ≤ acc + ts.unzero.denote k
    | .nil, _, _, _, x, hx => by simp [Terms.values] at hx
    | .cons t ts, k, acc, hacc, x, hx => by
      simp only [Terms.values, List.mem_append] at hx
      simp only [Terms.unzero, Terms.denote]
      rcases hx with hx | hx
      · have := Term.values_le1' t k acc hacc x hx
        have := Terms.denote_nonneg ts.unzero k
        omega
      · have := Terms.values_le1' ts k _ (Int.add_nonneg hacc (Term.denote_nonneg t k)) x hx
        have := Term.denote_le_unzero t k
        omega
end

/-- general form: every value is ≤ the key's total in the formula with multipliers 0 read as 1 -/
theorem values_le_total1 (ts : Terms) (k : Key) : ∀ x ∈ ts.values k 0, x ≤ ts.unzero.denote k := by
  intro x hx
  have := Terms.values_le1' ts k 0 (Int.le_refl 0) x hx
  omega

theorem values_fit1 (ts : Terms) (k : Key) (h : InI32 (ts.unzero.denote k)) : ∀ x ∈ ts.values k 0, InI32 x := by
  intro x hx
  have h0 := values_nonneg ts k x hx
  have h1 := values_le_total1 ts k x hx
  unfold InI32 at *
  omega

/-! ## example: `(CH3)2CO` -/

def acetone : Terms :=
  .cons (.group (.cons (.elem [67] none none) (.cons (.elem [72] none (some 3)) .nil)) (some 2))
    (.cons (.elem [67] none none) (.cons (.elem [79] none none) .nil))

example : acetone.values ([67], 0) 0 = [1, 2, 2, 3] := by decide
example : acetone.values ([72], 0) 0 = [3, 6, 6] := by decide
example : acetone.values ([79], 0) 0 = [0, 0, 1] := by decide
example : acetone.denote ([67], 0) = 3 ∧ acetone.denote ([72], 0) = 6 ∧ acetone.denote ([79], 0) = 1 := by decide
example : ∀ x ∈ acetone.values ([72], 0) 0, InI32 x :=
  values_fit acetone _ (by simp [acetone, Terms.PosMult, Term.PosMult]) (by decide)

end Spec
end Chem
