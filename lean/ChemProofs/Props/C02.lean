import ChemProofs.Lemmas.Ents
import ChemProofs.Model.CompMachine
/-
C02 — reported mass always equals the mass of the current contents.

`massOf m ents = Σ (k, n) ∈ ents, n * m k` is literally the property's right-hand side ("the sum
over current entries of count times the mass of the fixed isotope, or of the most abundant
isotope when none is fixed"; `m` is that mass function).  The theorems hold for every mass
function, every history of operations of any length, all four forms of a composition and every
interleaving of cache-populating calls.
-/
namespace Chem

/-- cache invariant of one composition -/
def Comp.Inv (m : Key → Int) (c : Comp) : Prop :=
  c.cache = none ∨ c.cache = some (c.ents.massOf m)

def Regs.Inv (m : Key → Int) (rs : Regs) : Prop := ∀ c ∈ rs, c.Inv m

theorem Comp.inv_of_cache_none {m : Key → Int} {c : Comp} (h : c.cache = none) : c.Inv m := Or.inl h

/-- under the invariant all three mass accessors return the mass of the contents -/
theorem mass_correct (m : Key → Int) (c : Comp) (h : c.Inv m) :
    c.mass m = c.ents.massOf m ∧ (c.fmass m).2 = c.ents.massOf m ∧ c.calcMass m = c.ents.massOf m ∧
    (c.fmass m).1.ents = c.ents := by
  rcases h with h | h <;> simp [Comp.mass, Comp.fmass, Comp.calcMass, h]

theorem fmass_inv (m : Key → Int) (c : Comp) (h : c.Inv m) : (c.fmass m).1.Inv m := by
  rcases h with h | h
  · right; simp [Comp.fmass, h]
  · right; simp [Comp.fmass, h]

theorem Regs.at_inv {m : Key → Int} {rs : Regs} (h : rs.Inv m) (i : Nat) : (rs.at i).Inv m := by
  unfold Regs.at
  rw [List.getD_eq_getElem?_getD]
  cases hi : rs[i]? with
  | none => exact Or.inl rfl
  | some c => exact h c (List.mem_of_getElem? hi)

theorem Regs.put_inv {m : Key → Int} {rs : Regs} (h : rs.Inv m) (i : Nat) (c : Comp) (hc : c.Inv m) :
    (rs.put i c).Inv m := by
  intro x hx
  rcases List.mem_or_eq_of_mem_set hx with hx | hx
  · exact h x hx
  · exact hx ▸ hc

theorem Comp.inc_inv (m : Key → Int) (c : Comp) (k : Key) (v : Int) : (c.inc k v).Inv m := Or.inl rfl

theorem Comp.addFrom_inv (m : Key → Int) (c : Comp) (l : Ents) (s : Int) (h : c.Inv m) :
    (c.addFrom l s).Inv m := by
  unfold Comp.addFrom
  induction l generalizing c with
  | nil => exact h
  | cons e rest ih => exact ih _ (Comp.inc_inv m c e.1 _)

theorem convChain_inv (m : Key → Int) (c : Comp) (f : Form) (h : c.Inv m) : (convChain c f).Inv m := by
  unfold convChain
  split <;> first | exact h | exact Or.inl rfl

/-- one step of any public operation preserves the invariant in every register -/
theorem step_inv (cc : CharClass) (T : Table) (m : Key → Int) (rs : Regs) (op : Op) (h : rs.Inv m) :
    (stepM cc T m rs op).regs.Inv m := by
  cases op <;> simp only [stepM]
  case new r f => exact Regs.put_inv h _ _ (Or.inl rfl)
  case set r k v => exact Regs.put_inv h _ _ (Or.inl rfl)
  case inc r k v => exact Regs.put_inv h _ _ (Or.inl rfl)
  case iset r k v => exact Regs.put_inv h _ _ (Or.inl rfl)
  case iadd r k v => exact Regs.put_inv h _ _ (Or.inl rfl)
  case sset r s v =>
    unfold Comp.strIdxSet
    split <;> first | exact h | skip
    rename_i c hc
    split at hc <;> first | (injection hc with hc; subst hc; exact Regs.put_inv h _ _ (Or.inl rfl)) | cases hc
  case sadd r s v =>
    unfold Comp.strIdxAdd
    split <;> first | exact h | skip
    rename_i c hc
    split at hc <;> first | (injection hc with hc; subst hc; exact Regs.put_inv h _ _ (Or.inl rfl)) | cases hc
  case incs r s v =>
    unfold Comp.incStr Comp.strIdxAdd
    split <;> first | exact h | skip
    rename_i c hc
    split at hc
    · split at hc
      · injection hc with hc; subst hc; exact Regs.put_inv h _ _ (Or.inl rfl)
      · split at hc <;> first | (injection hc with hc; subst hc; exact Regs.put_inv h _ _ (Or.inl rfl)) | cases hc
    · split at hc <;> first | (injection hc with hc; subst hc; exact Regs.put_inv h _ _ (Or.inl rfl)) | cases hc
  case gsm r s v =>
    split
    · exact Regs.put_inv h _ _ (Or.inl rfl)
    · split
      · exact Regs.put_inv h _ _ (Or.inl rfl)
      · exact h
  case fmass r => exact Regs.put_inv h _ _ (fmass_inv m _ (Regs.at_inv h r))
  case mul d a n => exact Regs.put_inv h _ _ (Or.inl rfl)
  case muli r n => exact Regs.put_inv h _ _ (Or.inl rfl)
  case neg d a => exact Regs.put_inv h _ _ (Or.inl rfl)
  case add d a b sign => exact Regs.put_inv h _ _ (Comp.addFrom_inv m _ _ _ (Regs.at_inv h a))
  case addi a b sign => exact Regs.put_inv h _ _ (Comp.addFrom_inv m _ _ _ (Regs.at_inv h a))
  case itm r f => exact Regs.put_inv h _ _ (Or.inl rfl)
  case clone d a => exact Regs.put_inv h _ _ (Regs.at_inv h a)
  case conv d a f => exact Regs.put_inv h _ _ (convChain_inv m _ f (Regs.at_inv h a))
  case fromkv d f v ps =>
    apply Regs.put_inv h
    split <;> exact Or.inl rfl
  case get r k => exact h
  case idx r k => exact h
  case gets r s => exact h
  case sidx r s => exact h
  case eq a b => exact h

/-- running a whole history -/
def runM (cc : CharClass) (T : Table) (m : Key → Int) (rs : Regs) (ops : List Op) : Regs :=
  ops.foldl (fun rs op => (stepM cc T m rs op).regs) rs

theorem run_inv (cc : CharClass) (T : Table) (m : Key → Int) (rs : Regs) (ops : List Op) (h : rs.Inv m) :
    (runM cc T m rs ops).Inv m := by
  unfold runM
  induction ops generalizing rs with
  | nil => exact h
  | cons op rest ih => exact ih _ (step_inv cc T m rs op h)

/-- **C02**: after any finite history of public operations, on every register, `mass()`,
    `fmass()` and `calc_mass()` all return the mass of the current contents — a cached mass is
    never returned after the contents changed. -/
theorem run_mass (cc : CharClass) (T : Table) (m : Key → Int) (n : Nat) (ops : List Op) :
    ∀ c ∈ runM cc T m (List.replicate n (Comp.empty .vec)) ops,
      c.mass m = c.ents.massOf m ∧ (c.fmass m).2 = c.ents.massOf m ∧ c.calcMass m = c.ents.massOf m := by
  intro c hc
  have hinv : Regs.Inv m (List.replicate n (Comp.empty .vec)) := by
    intro x hx
    rw [List.mem_replicate] at hx
    exact Or.inl (by rw [hx.2]; rfl)
  have := mass_correct m c (run_inv cc T m _ ops hinv c hc)
  exact ⟨this.1, this.2.1, this.2.2.1⟩

/-- the same from any starting register file that satisfies the invariant (e.g. parsed formulas) -/
theorem run_mass_from (cc : CharClass) (T : Table) (m : Key → Int) (rs : Regs) (ops : List Op)
    (h : rs.Inv m) : ∀ c ∈ runM cc T m rs ops, c.mass m = c.ents.massOf m :=
  fun c hc => (mass_correct m c (run_inv cc T m rs ops h c hc)).1

/-- mass is additive over `+` / `-` (every operator form is `addFrom`) -/
theorem mass_add (m : Key → Int) (a b : Comp) (sign : Int) :
    (a.addNew b sign).ents.massOf m = a.ents.massOf m + sign * b.ents.massOf m := by
  have : (a.addNew b sign).ents = a.ents.addFrom b.ents sign := by
    unfold Comp.addNew Comp.addFrom Ents.addFrom
    generalize b.ents = l
    induction l generalizing a with
    | nil => rfl
    | cons e rest ih => simp only [List.foldl_cons]; rw [ih]; rfl
  rw [this, Ents.massOf_addFrom]

/-- mass is linear over `*` (and unary minus) -/
theorem mass_mul (m : Key → Int) (a : Comp) (n : Int) :
    (a.mulNew n).ents.massOf m = n * a.ents.massOf m := by
  simp [Comp.mulNew, Comp.mulBy, Ents.massOf_mul]

/-- non-vacuity: a register with a *populated* cache satisfies the invariant, and the history
    `set; fmass; *= 2` really goes through a populated cache -/
example : (⟨.map, [((([72] : Sym), 0), 2)], some 14⟩ : Comp).Inv (fun _ => 7) := by
  right; simp [Ents.massOf]

example :
    let m : Key → Int := fun _ => 7
    let rs := runM ⟨fun _ => false, fun _ => false, fun _ => false⟩ [] m [Comp.empty .vec]
                [.set 0 ([72], 0) 2, .fmass 0]
    (rs.map (·.cache)) = [some 14] := by decide

/-- the witness of the repaired defect D4, on the *pre-repair* `_mul_by` (which left the cache
    alone): the stale value 14 is reported for contents weighing 28. -/
def legacyMulBy (c : Comp) (n : Int) : Comp := { c with ents := c.ents.mapCounts (n * ·) }
example :
    let m : Key → Int := fun _ => 7
    let c : Comp := (⟨.vec, [((([72] : Sym), 0), 2)], none⟩ : Comp)
    ((legacyMulBy (c.fmass m).1 2).mass m, (legacyMulBy (c.fmass m).1 2).ents.massOf m) = (14, 28) := by
  decide

end Chem
