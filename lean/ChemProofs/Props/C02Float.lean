import ChemProofs.Props.C15Float
/-
Floating-point error bound (standard model, `Model/Float.lean`) for the mass of a composition (C02):
the Rust code folds left to right from `0.0` with ONE fused multiply-add per entry,
`total = mass_i.mul_add(count_i as f64, total)` (src/composition_list.rs:135-141,
src/composition_map.rs:99-105; `count as f64` is exact for `i32`).
-/
namespace Chem

/-- the computed mass: one rounding per entry `(mass_i, count_i)` (fused multiply-add) -/
def flMass (F : FlModel) (l : List (Rat × Rat)) : Rat :=
  l.foldl (fun acc p => F.rnd (p.1 * p.2 + acc)) 0

/-- the exact mass -/
def exMass (l : List (Rat × Rat)) : Rat := (l.map fun p => p.1 * p.2).sum

/-- the fused fold is the plain left-to-right sum of the exact products -/
theorem flMass_eq_flSum (F : FlModel) (l : List (Rat × Rat)) :
    flMass F l = flSum F (l.map fun p => p.1 * p.2) := by
  unfold flMass flSum
  rw [List.foldl_map]
  congr 1
  funext acc p
  rw [add_comm]

/-- generalised accumulator: start the fused fold at an arbitrary `acc` -/
theorem flMass_foldl_abs_bound {F : FlModel} (hF : F.OK) (l : List (ℚ × ℚ)) (acc : ℚ) :
    |l.foldl (fun acc p => F.rnd (p.1 * p.2 + acc)) acc - (acc + exMass l)|
      ≤ ((1 + F.u) ^ l.length - 1) * (|acc| + (l.map fun p => |p.1 * p.2|).sum) := by
  have h := foldl_abs_bound hF (l.map fun p => p.1 * p.2) acc
  rw [List.foldl_map, List.length_map, List.map_map] at h
  have e : (fun (acc : ℚ) (p : ℚ × ℚ) => F.rnd (acc + p.1 * p.2))
      = fun acc p => F.rnd (p.1 * p.2 + acc) := by
    funext acc p; rw [add_comm]
  rw [e] at h
  exact h

/-- the standard bound for recursive summation with signed terms, one rounding per term
(no smallness condition on `u` is needed) -/
theorem flMass_abs_bound {F : FlModel} (hF : F.OK) (l : List (ℚ × ℚ)) :
    |flMass F l - exMass l| ≤ ((1 + F.u) ^ l.length - 1) * (l.map fun p => |p.1 * p.2|).sum := by
  have := flMass_foldl_abs_bound hF l 0
  simpa [flMass] using this

theorem sum_abs_terms_nonneg (l : List (ℚ × ℚ)) : 0 ≤ (l.map fun p => |p.1 * p.2|).sum :=
  List.sum_nonneg fun y hy => by
    obtain ⟨z, _, rfl⟩ := List.mem_map.mp hy
    exact abs_nonneg _

/-- first-order (Bernoulli) form: at most `N` entries with `N u < 1` -/
theorem flMass_linear {F : FlModel} (hF : F.OK) {l : List (ℚ × ℚ)} {N : Nat} (hN : l.length ≤ N)
    (hNu : (N : ℚ) * F.u < 1) :
    |flMass F l - exMass l|
      ≤ ((N : ℚ) * F.u / (1 - (N : ℚ) * F.u)) * (l.map fun p => |p.1 * p.2|).sum := by
  have h0 := hF.1
  refine le_trans (flMass_abs_bound hF l) ?_
  apply mul_le_mul_of_nonneg_right _ (sum_abs_terms_nonneg l)
  have hmono : (1 + F.u) ^ l.length ≤ (1 + F.u) ^ N := pow_le_pow_right₀ (by linarith) hN
  have hb := one_add_pow_mul_le h0 N hNu.le
  have hd : 0 < 1 - (N : ℚ) * F.u := by linarith
  have hN' : (1 + F.u) ^ N ≤ 1 / (1 - (N : ℚ) * F.u) := by
    rw [le_div_iff₀ hd]; exact hb
  have e : (N : ℚ) * F.u / (1 - (N : ℚ) * F.u) = 1 / (1 - (N : ℚ) * F.u) - 1 := by
    field_simp; ring
  rw [e]; linarith

/-- binary64, at most 64 entries, at most `10^8` Da of absolute mass: the computed mass is within one
micro-dalton of the exact one (`64 · 2^-53 · 10^8 ≈ 7.1e-7`) -/
theorem flMass_f64 {F : FlModel} (hF : F.OK) (hu : F.u = 1 / 2 ^ 53) {l : List (ℚ × ℚ)}
    (hn : l.length ≤ 64) (hS : (l.map fun p => |p.1 * p.2|).sum ≤ 10 ^ 8) :
    |flMass F l - exMass l| ≤ 1 / 10 ^ 6 := by
  have h := flMass_linear hF hn (by rw [hu]; norm_num)
  rw [hu] at h
  have hc : (0 : ℚ) ≤ ((64 : Nat) : ℚ) * (1 / 2 ^ 53) / (1 - ((64 : Nat) : ℚ) * (1 / 2 ^ 53)) := by
    norm_num
  refine le_trans h (le_trans (mul_le_mul_of_nonneg_left hS hc) ?_)
  norm_num

/-- binary64, at most 8 entries, at most a gigadalton of absolute mass
(`8 · 2^-53 · 10^9 ≈ 8.9e-7`) -/
theorem flMass_f64_giga {F : FlModel} (hF : F.OK) (hu : F.u = 1 / 2 ^ 53) {l : List (ℚ × ℚ)}
    (hn : l.length ≤ 8) (hS : (l.map fun p => |p.1 * p.2|).sum ≤ 10 ^ 9) :
    |flMass F l - exMass l| ≤ 1 / 10 ^ 6 := by
  have h := flMass_linear hF hn (by rw [hu]; norm_num)
  rw [hu] at h
  have hc : (0 : ℚ) ≤ ((8 : Nat) : ℚ) * (1 / 2 ^ 53) / (1 - ((8 : Nat) : ℚ) * (1 / 2 ^ 53)) := by
    norm_num
  refine le_trans h (le_trans (mul_le_mul_of_nonneg_left hS hc) ?_)
  norm_num

/-! ### the hypotheses are satisfiable -/

/-- exact arithmetic with the binary64 unit roundoff -/
def exactModel64 : FlModel := ⟨id, 1 / 2 ^ 53⟩

theorem exactModel64_OK : exactModel64.OK := by
  refine ⟨by norm_num [exactModel64], fun x => ?_⟩
  show ratAbs (x - x) ≤ 1 / 2 ^ 53 * ratAbs x
  rw [ratAbs_eq_abs, ratAbs_eq_abs, sub_self, abs_zero]
  exact mul_nonneg (by norm_num) (abs_nonneg _)

/-- water, H2 O1 (masses in micro-dalton precision; a negative count is allowed too) -/
example :
    exactModel64.OK ∧ exactModel64.u = 1 / 2 ^ 53 ∧
    ([(1007825 / 1000000, 2), (15994915 / 1000000, 1)] : List (ℚ × ℚ)).length ≤ 64 ∧
    (([(1007825 / 1000000, 2), (15994915 / 1000000, 1)] : List (ℚ × ℚ)).map
      fun p => |p.1 * p.2|).sum ≤ 10 ^ 8 := by
  refine ⟨exactModel64_OK, rfl, by simp, ?_⟩
  simp only [List.map_cons, List.map_nil, List.sum_cons, List.sum_nil]
  norm_num [abs_of_nonneg]

example : flMass exactModel64 [(1007825 / 1000000, 2), (15994915 / 1000000, 1)]
    = exMass [(1007825 / 1000000, 2), (15994915 / 1000000, 1)] := by decide +kernel

example : exMass [(1007825 / 1000000, 2), (15994915 / 1000000, 1)] = 18010565 / 1000000 := by
  decide +kernel

/-- the conclusion of `flMass_f64` for a model that really perturbs (every result off by the full
relative error `2^-53`), signed counts -/
example : |flMass ⟨fun x => x * (1 + 1 / 2 ^ 53), 1 / 2 ^ 53⟩ [(12, 6), (1007825 / 1000000, -2)]
      - exMass [(12, 6), (1007825 / 1000000, -2)]| ≤ 1 / 10 ^ 6 := by
  apply flMass_f64 (F := ⟨fun x => x * (1 + 1 / 2 ^ 53), 1 / 2 ^ 53⟩) _ rfl (by simp)
  · simp only [List.map_cons, List.map_nil, List.sum_cons, List.sum_nil]
    norm_num [abs_of_nonneg]
  · refine ⟨by norm_num, fun x => ?_⟩
    show ratAbs (x * (1 + 1 / 2 ^ 53) - x) ≤ 1 / 2 ^ 53 * ratAbs x
    rw [ratAbs_eq_abs, ratAbs_eq_abs]
    have : x * (1 + 1 / 2 ^ 53) - x = 1 / 2 ^ 53 * x := by ring
    rw [this, abs_mul, abs_of_nonneg (by norm_num : (0 : ℚ) ≤ 1 / 2 ^ 53)]

end Chem

