import ChemProofs.Props.C02Float
/-
C02, floating point: the list representation and the hash-map representation of a composition sum the SAME entries
in different orders.  The two computed masses differ by at most twice the recursive-summation bound.
-/
namespace Chem

theorem exMass_perm {l l' : List (ℚ × ℚ)} (h : l.Perm l') : exMass l = exMass l' := by
  unfold exMass
  exact (h.map _).sum_eq

theorem sumAbs_perm {l l' : List (ℚ × ℚ)} (h : l.Perm l') :
    (l.map fun p => |p.1 * p.2|).sum = (l'.map fun p => |p.1 * p.2|).sum :=
  (h.map _).sum_eq

/-- **order-independence up to rounding**: two orders of the same entries give computed masses within
    `2 ((1+u)^n − 1) Σ|mass_i · count_i|` of each other -/
theorem flMass_perm {F : FlModel} (hF : F.OK) {l l' : List (ℚ × ℚ)} (h : l.Perm l') :
    |flMass F l - flMass F l'| ≤ 2 * ((1 + F.u) ^ l.length - 1) * (l.map fun p => |p.1 * p.2|).sum := by
  have h1 := flMass_abs_bound hF l
  have h2 := flMass_abs_bound hF l'
  rw [← exMass_perm h, ← h.length_eq, ← sumAbs_perm h] at h2
  have e : flMass F l - flMass F l' = (flMass F l - exMass l) - (flMass F l' - exMass l) := by ring
  rw [e]
  have h3 := abs_sub (flMass F l - exMass l) (flMass F l' - exMass l)
  linarith

/-- binary64, at most 64 entries, at most `10^8` Da of absolute mass: the list order and the map order give masses
    within two micro-dalton of each other -/
theorem flMass_perm_f64 {F : FlModel} (hF : F.OK) (hu : F.u = 1 / 2 ^ 53) {l l' : List (ℚ × ℚ)} (h : l.Perm l')
    (hn : l.length ≤ 64) (hS : (l.map fun p => |p.1 * p.2|).sum ≤ 10 ^ 8) :
    |flMass F l - flMass F l'| ≤ 2 / 10 ^ 6 := by
  have h1 := flMass_f64 hF hu hn hS
  have h2 := flMass_f64 hF hu (l := l') (by rw [← h.length_eq]; exact hn) (by rw [← sumAbs_perm h]; exact hS)
  rw [← exMass_perm h] at h2
  have e : flMass F l - flMass F l' = (flMass F l - exMass l) - (flMass F l' - exMass l) := by ring
  rw [e]
  have h3 := abs_sub (flMass F l - exMass l) (flMass F l' - exMass l)
  have : (2 : ℚ) / 10 ^ 6 = 1 / 10 ^ 6 + 1 / 10 ^ 6 := by norm_num
  linarith

/-- non-vacuity: a perturbing model, two orders of the same signed entries -/
example : ([(12, 6), (1007825 / 1000000, -2)] : List (ℚ × ℚ)).Perm [(1007825 / 1000000, -2), (12, 6)] :=
  List.Perm.swap _ _ _

example : flMass ⟨fun x => x * (1 + 1 / 2 ^ 53), 1 / 2 ^ 53⟩ [(12, 6), (1007825 / 1000000, -2)]
    ≠ flMass ⟨fun x => x * (1 + 1 / 2 ^ 53), 1 / 2 ^ 53⟩ [(1007825 / 1000000, -2), (12, 6)] := by decide +kernel

end Chem
