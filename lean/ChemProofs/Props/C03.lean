/-
C03 — the BRAIN recurrences compute the coefficients of a product of polynomials
(Newton's identities, exact rational arithmetic).  Everything below is fully proved
(axioms: propext, Classical.choice, Quot.sound only).

Vocabulary (ChemProofs/Lemmas/BrainDefs.lean):
  toPS l = Σ l_i x^i,   fE esp = Σ (−1)^i esp_i x^i  (if esp = vietes (reverse P): P(x)/P(0)),
  IsPS F P :⇔ F·P + X·F' = 0   (P is the power-sum series −X·F'/F of F),
  PsInv esp ps / EspInv ps esp order: every entry is what nextPowerSum / nextEsp computes from the
  entries before it (established for updatePowerSum / updateEsp / espOfPs in Lemmas/BrainLists.lean),
  Dom e: gap-free isotope ladder with keys elemNum, elemNum+1, … (what the key walk of
  isotopic_coefficients visits, defect D5), lightest isotope = reference (shift 0),
  minShift = 0, maxShift = n − 1;   c0 e one = Pₑ(0),  m0 e one = Mₑ(0).

Where the results are:
  Lemmas/BrainNewton.lean   IsPS.mul, IsPS.pow                (N2, power-series form: power sums add
                            under products, scale under powers), IsPS.ps_unique, IsPS.esp_unique
                            (uniqueness mod X^N both ways), PsInv.dvd, EspInv.dvd (the list
                            recurrences ARE the coefficient identities of F·P + X·F' = 0)
  Lemmas/BrainProb.lean     updateEsp_updatePowerSum, updatePowerSum_updateEsp        (N1, both ways)
                            powerSum_add_of_mul, powerSum_smul_of_pow, powerSum_polyMul (N2, lists)
                            probabilityVector_of_good, probabilityVector_spec              (N3)
  Lemmas/BrainIso.lean      isotopicCoefficients_of_dom, elemPoly_of_dom   (Dom ⇒ isotopic_coefficients
                            returns the reversed Spec.elemPoly, with and without masses)
  Lemmas/BrainPopulate.lean populate_good, populate_good_mass (populate succeeds, constants are good)
  Lemmas/BrainSpecPS.lean, BrainSpecMass.lean   Spec.polyMul/polyPow/aggProb/aggMass = power-series
                            arithmetic up to the truncation degree
  Lemmas/BrainMass.lean     centerMassVector_of_good, centerNum_eq, centerMassVector_spec          (N4)
  this file                 rawVariants_spec (N3 + N4 combined on `rawVariants`), non-vacuity examples

Hypotheses that are really needed (and are spelled out in the statements):
  * `order ≤ maxVariants` (otherwise `nextEsp` truncates);
  * (N3) equal symbols ⇒ equal elements; (N4) pairwise distinct symbols (`phi_mass_for` subtracts 1
    from EVERY entry carrying the element's symbol, so a repeated entry would be off);
  * (N4) recorded `mostMass` = mass of the lightest isotope, and Mₑ(0) ≠ 0, Pₑ(0) ≠ 0, base ≠ 0.
Not proved here: nothing about `cutLoop` / `sortByMz` / `resolveOrder` (those are C08/C09 territory).
-/
import ChemProofs.Lemmas.BrainMass

namespace Chem
open PowerSeries

/-- (N3 + N4 together) the peaks of `rawVariants` (before the cut and the sort): intensities are
    the exact aggregated probabilities normalised over the `order + 1` computed variants, m/z
    values are the charged exact centre masses `aggMass j / aggProb j`. -/
theorem rawVariants_spec (K : BrainConsts) (c : List (Elem × Nat)) (order : Nat) (z : Int)
    (carrier : Rat)
    (hdom : ∀ x ∈ c, Dom x.1) (hc0 : ∀ x ∈ c, c0 x.1 K.one ≠ 0) (hm0 : ∀ x ∈ c, m0 x.1 K.one ≠ 0)
    (hmm : ∀ x ∈ c, x.1.isos.head?.map (·.mass) = some x.1.mostMass)
    (hnodup : (c.map fun x => x.1.sym).Nodup)
    (hV : (order : Int) ≤ maxVariants (toB c)) (hbase : baseIntensity (toB c) K.one ≠ 0) :
    ∃ consts peaks, populate K (toB c) (order : Int) = .ok consts ∧
      rawVariants K consts (toB c) order z carrier = .ok peaks ∧ peaks.length = order + 1 ∧
      ∀ i (hi : i < peaks.length),
        peaks[i].int = (Spec.aggProb c K.one order).getD i 0 /
          ((List.range (order + 1)).map fun j => (Spec.aggProb c K.one order).getD j 0).sum ∧
        peaks[i].mz = chargedMz
          ((Spec.aggMass c K.one order).getD i 0 / (Spec.aggProb c K.one order).getD i 0) z carrier := by
  have hsym : ∀ x ∈ c, ∀ y ∈ c, x.1.sym = y.1.sym → x.1 = y.1 := by
    intro x hx y hy h
    rw [List.inj_on_of_nodup_map hnodup hx hy h]
  obtain ⟨consts, prob, hpop, hprob, hplen, hpval⟩ :=
    probabilityVector_spec K c order (baseIntensity (toB c) K.one) hdom hc0 hsym hV
  obtain ⟨consts', cm, hpop', hcm, hclen, hcval⟩ :=
    centerMassVector_spec K c order (baseIntensity (toB c) K.one) prob hdom hc0 hm0 hmm hnodup hV
      hbase hplen hpval
  have hcc : consts' = consts := by
    rw [hpop] at hpop'; exact (Res.ok.inj hpop').symm
  subst hcc
  have hprod : (c.map fun x : Elem × Nat => c0 x.1 K.one ^ x.2).prod ≠ 0 := by
    apply List.prod_ne_zero
    intro h0
    obtain ⟨x, hx, hx0⟩ := List.mem_map.mp h0
    exact pow_ne_zero _ (hc0 x hx) hx0
  have hk : baseIntensity (toB c) K.one / (c.map fun x : Elem × Nat => c0 x.1 K.one ^ x.2).prod ≠ 0 :=
    div_ne_zero hbase hprod
  generalize baseIntensity (toB c) K.one / (c.map fun x : Elem × Nat => c0 x.1 K.one ^ x.2).prod = κ
    at hk hpval
  have hpeq : prob = (List.range (order + 1)).map fun j => κ * (Spec.aggProb c K.one order).getD j 0 := by
    apply list_eq_of_getD (by rw [List.length_map, List.length_range, hplen])
    intro i hi
    rw [hpval i (by omega),
      List.getD_eq_getElem ((List.range (order + 1)).map fun j =>
        κ * (Spec.aggProb c K.one order).getD j 0) 0
        (by rw [List.length_map, List.length_range]; omega),
      List.getElem_map, List.getElem_range]
  have hsum : prob.sum =
      κ * ((List.range (order + 1)).map fun j => (Spec.aggProb c K.one order).getD j 0).sum := by
    rw [hpeq, List.sum_map_mul_left]
  refine ⟨consts', ((cm.zip prob).take (order + 1)).map fun (m, p) =>
    ({ mz := chargedMz m z carrier, int := p / prob.sum } : Peak), hpop, ?_, ?_, ?_⟩
  · unfold rawVariants
    simp only
    rw [hprob]
    show (centerMassVector _ _ _ _ _ _ prob).bind _ = _
    rw [hcm]
    rfl
  · simp [hclen, hplen]
  · intro i hi
    have hi' : i < order + 1 := by simpa [hclen, hplen] using hi
    simp only [List.getElem_map, List.getElem_take, List.getElem_zip]
    refine ⟨?_, ?_⟩
    · rw [← List.getD_eq_getElem prob 0 (by omega), hpval i (by omega), hsum,
        mul_div_mul_left _ _ hk]
    · rw [← List.getD_eq_getElem cm 0 (by omega), hcval i (by omega)]

/-! ## non-vacuity: a hand-made composition inside the domain -/

/-- a two-isotope element (keys 1, 2 = `elemNum`, `elemNum + 1`; abundances 0.9 / 0.1) -/
def exH : Elem :=
  { tkey := [72], sym := [72],
    isos := [{ key := 1, mass := 10, abund := 9, neutrons := 1, shift := 0 },
             { key := 2, mass := 20, abund := 1, neutrons := 2, shift := 1 }],
    mostIso := 1, mostMass := 10, minShift := 0, maxShift := 1, elemNum := 1 }

/-- a three-isotope element (abundances 0.6 / 0.3 / 0.1) -/
def exQ : Elem :=
  { tkey := [81], sym := [81],
    isos := [{ key := 5, mass := 50, abund := 6, neutrons := 5, shift := 0 },
             { key := 6, mass := 61, abund := 3, neutrons := 6, shift := 1 },
             { key := 7, mass := 69, abund := 1, neutrons := 7, shift := 2 }],
    mostIso := 5, mostMass := 50, minShift := 0, maxShift := 2, elemNum := 5 }

def exK : BrainConsts :=
  { one := 10, lambdaFactor := 1 / 1800, maxIter := 100, guessCap := 100,
    guessFraction := 999 / 1000, cut := 0 }

def exComp : List (Elem × Nat) := [(exH, 3), (exQ, 2)]

def normalise (l : List Rat) : List Rat := l.map (· / l.sum)

theorem exH_dom : Dom exH :=
  ⟨by decide, by decide, by decide, rfl, rfl⟩

theorem exQ_dom : Dom exQ :=
  ⟨by decide, by decide, by decide, rfl, rfl⟩

/-- the intensities `brainVariants` returns for H₃Q₂ (5 peaks requested) are the normalised exact
    aggregated distribution -/
theorem brainVariants_example_intensities :
    (match brainVariants exK (toB exComp) (.fixed 5) 0 0 with
      | .ok peaks => some (intensities peaks)
      | _ => none) = some (normalise (Spec.aggProb exComp 10 4)) := by decide +kernel

/-- … and the m/z values are the probability-weighted centre masses `aggMass / aggProb` -/
theorem brainVariants_example_masses :
    (match brainVariants exK (toB exComp) (.fixed 5) 0 0 with
      | .ok peaks => some (peaks.map (·.mz))
      | _ => none) =
      some ((Spec.aggMass exComp 10 4).zipWith (· / ·) (Spec.aggProb exComp 10 4)) := by
  decide +kernel

/-- the hypotheses of `probabilityVector_spec` are satisfiable: its instance at the example -/
theorem probabilityVector_example (base : Rat) :
    ∃ consts v, populate exK (toB exComp) 4 = .ok consts ∧
      probabilityVector consts (toB exComp) 4 (maxVariants (toB exComp)) base = .ok v ∧
      v.length = 5 ∧
      ∀ i, i ≤ 4 → v.getD i 0 =
        base / (exComp.map fun x => c0 x.1 exK.one ^ x.2).prod *
          (Spec.aggProb exComp exK.one 4).getD i 0 := by
  have hmem : ∀ x ∈ exComp, x = (exH, 3) ∨ x = (exQ, 2) := by
    intro x hx; simpa [exComp] using hx
  refine probabilityVector_spec exK exComp 4 base ?_ ?_ ?_ ?_
  · intro x hx
    rcases hmem x hx with rfl | rfl
    · exact exH_dom
    · exact exQ_dom
  · intro x hx
    rcases hmem x hx with rfl | rfl <;> decide +kernel
  · intro x hx y hy h
    rcases hmem x hx with rfl | rfl <;> rcases hmem y hy with rfl | rfl
    · rfl
    · exact absurd h (by decide)
    · exact absurd h (by decide)
    · rfl
  · decide


/-- the hypotheses of `rawVariants_spec` (hence of `centerMassVector_spec`) are satisfiable: its
    instance at the example composition H₃Q₂ -/
theorem rawVariants_example (z : Int) (carrier : Rat) :
    ∃ consts peaks, populate exK (toB exComp) 4 = .ok consts ∧
      rawVariants exK consts (toB exComp) 4 z carrier = .ok peaks ∧ peaks.length = 5 ∧
      ∀ i (hi : i < peaks.length),
        peaks[i].int = (Spec.aggProb exComp exK.one 4).getD i 0 /
          ((List.range 5).map fun j => (Spec.aggProb exComp exK.one 4).getD j 0).sum ∧
        peaks[i].mz = chargedMz
          ((Spec.aggMass exComp exK.one 4).getD i 0 / (Spec.aggProb exComp exK.one 4).getD i 0)
          z carrier := by
  have hmem : ∀ x ∈ exComp, x = (exH, 3) ∨ x = (exQ, 2) := by
    intro x hx; simpa [exComp] using hx
  refine rawVariants_spec exK exComp 4 z carrier ?_ ?_ ?_ ?_ ?_ ?_ ?_
  · intro x hx
    rcases hmem x hx with rfl | rfl
    · exact exH_dom
    · exact exQ_dom
  · intro x hx
    rcases hmem x hx with rfl | rfl <;> decide +kernel
  · intro x hx
    rcases hmem x hx with rfl | rfl <;> decide +kernel
  · intro x hx
    rcases hmem x hx with rfl | rfl <;> rfl
  · decide
  · decide
  · decide +kernel

end Chem
