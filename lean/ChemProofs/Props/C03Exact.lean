import ChemProofs.Props.C03
import ChemProofs.Props.C09
/-
C03 (exactness, continued) / C09 (mass range) — from the raw variants to the returned pattern.
Everything below is fully proved (axioms: propext, Classical.choice, Quot.sound only); there is no
`_partial` result and no unproved target.

Vocabulary (§0): `exProb c one order j` / `exMass …` = entry `j` of `Spec.aggProb` / `Spec.aggMass`,
`exTotal` = Σ_{j ≤ order} exProb j, `exCentre j = exMass j / exProb j`,
`exactPeak j = (chargedMz (exCentre j) z carrier, exProb j / exTotal)`, `exactRaw = [exactPeak 0, …, exactPeak order]`.
`ExactHyp K c req order` bundles the hypotheses of `rawVariants_spec` together with
`order = (resolveOrder K (toB c) req).toNat`; `ExactHyp.of_table` derives them from plain facts
(`Dom`, distinct symbols, abundances ≠ 0, `mostMass` = mass of the first isotope ≠ 0, `K.one ≠ 0`).
(`order ≤ maxVariants` is NOT a hypothesis any more: it follows from `resolve_bounds`.)

1. exactness of the returned pattern
   * `variants_exact_raw` / `ExactHyp.raw`   brainVariants = ok (sortByMz (cutLoop K.cut exactRaw false))
   * `variants_exact`     index form: the result is `js.map exactPeak` for a duplicate-free list `js`
                          of indices ≤ order (different positions ⇒ different j, no hypothesis needed),
                          sorted by m/z, with `0 ∈ js` and `j ∈ js` for every j whose share is ≥ K.cut
   * `variants_mem`       the same in membership form (mz / int of every returned peak spelled out)
   * `variants_distinct`  centre masses pairwise distinct (hypothesis) ⇒ `j ↦ exactPeak j` injective,
                          the returned list is `Nodup`, every returned peak has exactly one `j`
   * `exactPeak_ratio`, `variants_ratio` (hyp. `exTotal ≠ 0`), `variants_ratio_pos` (positive abundances)
                          ratio of two returned intensities = ratio of the exact probabilities
   helpers: `cutLoopBy`, `cutLoop_map` (the cut loop acts on indices), `perm_map_exists`,
            `chargedMz_injective`, `chargedMz_mono`, `maxVariants_toB_nonneg`
2. a single atom
   * `polyMul_one_right`, `polyMul_one_left`, `aggProb_single_take`, `aggMass_single_take`
     (for ANY element and degree: `aggProb [(e,1)] = take (deg+1) (elemPoly e false)`, same for masses)
   * `aggProb_single`, `aggMass_single` (degree covers the element ⇒ equality with `elemPoly`),
     `aggProb_single_dom`, `aggMass_single_dom` (`Dom`, order = isos.length − 1: the abundances / mass·abundance)
   * `exactRaw_single`    the exact raw list of one atom is `isos.map isoPeak`
                          (`isoPeak i = (chargedMz (mass_i/one), abund_i / Σ abund)`)
   * `single_atom`        brainVariants [(e,1)] (fixed isos.length) = ok (sortByMz (cutLoop cut (isos.map isoPeak)))
   * `single_atom_sorted` masses weakly increasing ⇒ no sorting; `single_atom_all` and all shares ≥ cut
                          ⇒ the result IS `isos.map isoPeak` (one peak per tabulated isotope)
3. mass range (power-series coefficients; `NN`, `CLe`, `PosUpTo` = coefficient-wise ≥ 0 / ≤ / > 0 up to a degree)
   * `elemPoly_entry`     entry k of Pₑ and Mₑ comes from one and the same isotope (no `Dom` needed)
   * `exProb_nonneg`      abundances ≥ 0 ⇒ every exact probability ≥ 0
   * `aggMass_bounds`     (Σ nₑ loₑ)·aggProb j ≤ aggMass j ≤ (Σ nₑ hiₑ)·aggProb j, any composition, any
                          per-element bounds lo/hi on the isotope masses (no `Dom` needed)
   * `mz_in_range`        hence Σ nₑ loₑ ≤ aggMass j / aggProb j ≤ Σ nₑ hiₑ when aggProb j ≠ 0
   * `mz_in_range_sorted` lo/hi := first / last tabulated isotope when masses increase;
     `massBound_lightest` the lower bound is `monoMassOf`
   * `exProb_pos`, `exTotal_pos`  `Dom` + positive abundances ⇒ aggProb j > 0 for all j ≤ maxVariants
   * `variants_mz_in_range`  every peak `brainVariants` returns has int > 0 and
                          chargedMz monoMass ≤ mz ≤ chargedMz (Σ nₑ heaviestₑ)
4. non-vacuity: `C03ExactEx` (instances of every main theorem at H₃Q₂ / one atom of Q, and kernel
   evaluations with and without a real cut)
-/

namespace Chem
open PowerSeries

/-! ## 0. vocabulary -/

/-- exact probability of the `j`-th aggregated variant (coefficient of `x^j` in `∏ Pₑ^nₑ`) -/
def exProb (c : List (Elem × Nat)) (one : Rat) (order j : Nat) : Rat :=
  (Spec.aggProb c one order).getD j 0

/-- exact probability-weighted mass of the `j`-th aggregated variant -/
def exMass (c : List (Elem × Nat)) (one : Rat) (order j : Nat) : Rat :=
  (Spec.aggMass c one order).getD j 0

/-- the normalising constant: total probability of the variants `0 ..= order` -/
def exTotal (c : List (Elem × Nat)) (one : Rat) (order : Nat) : Rat :=
  ((List.range (order + 1)).map fun j => exProb c one order j).sum

/-- centre mass of the `j`-th variant -/
def exCentre (c : List (Elem × Nat)) (one : Rat) (order j : Nat) : Rat :=
  exMass c one order j / exProb c one order j

/-- the exact `j`-th peak -/
def exactPeak (c : List (Elem × Nat)) (one : Rat) (order : Nat) (z : Int) (carrier : Rat) (j : Nat) :
    Peak :=
  { mz := chargedMz (exCentre c one order j) z carrier,
    int := exProb c one order j / exTotal c one order }

/-- the exact raw list: one peak per variant `0 ..= order`, in order of neutron excess -/
def exactRaw (c : List (Elem × Nat)) (one : Rat) (order : Nat) (z : Int) (carrier : Rat) : List Peak :=
  (List.range (order + 1)).map (exactPeak c one order z carrier)

/-! ## 1. exactness of the returned pattern -/

theorem maxVariants_toB_nonneg (c : List (Elem × Nat)) (hdom : ∀ x ∈ c, Dom x.1) :
    0 ≤ maxVariants (toB c) := by
  unfold maxVariants toB
  apply List.sum_nonneg
  intro v hv
  simp only [List.map_map, List.mem_map, Function.comp] at hv
  obtain ⟨x, hx, rfl⟩ := hv
  have h := hdom x hx
  have hp := h.length_pos
  rw [h.maxShift]
  apply Int.mul_nonneg <;> omega

/-- a permutation of an image list is the image of a permutation -/
theorem perm_map_exists {α β} [DecidableEq α] (f : α → β) :
    ∀ (l : List β) (js : List α), l.Perm (js.map f) → ∃ js' : List α, js'.Perm js ∧ l = js'.map f
  | [], js, h => by
    have : js.map f = [] := List.Perm.eq_nil h.symm
    have : js = [] := List.map_eq_nil_iff.1 this
    subst this
    exact ⟨[], List.Perm.refl _, rfl⟩
  | b :: l, js, h => by
    have hb : b ∈ js.map f := h.subset List.mem_cons_self
    obtain ⟨a, ha, rfl⟩ := List.mem_map.1 hb
    have hp : js.Perm (a :: js.erase a) := List.perm_cons_erase ha
    have h2 : (f a :: l).Perm (f a :: (js.erase a).map f) := by
      refine h.trans ?_
      simpa using hp.map f
    obtain ⟨js'', hp'', rfl⟩ := perm_map_exists f l (js.erase a) (List.Perm.cons_inv h2)
    exact ⟨a :: js'', (hp''.cons a).trans hp.symm, rfl⟩

/-- **exactness, list form**: under the hypotheses of `rawVariants_spec`, `brainVariants` returns
    the sorted cut of the exact raw list -/
theorem variants_exact_raw (K : BrainConsts) (c : List (Elem × Nat)) (req : PeakReq) (z : Int)
    (carrier : Rat) (order : Nat) (horder : order = (resolveOrder K (toB c) req).toNat)
    (hdom : ∀ x ∈ c, Dom x.1) (hc0 : ∀ x ∈ c, c0 x.1 K.one ≠ 0) (hm0 : ∀ x ∈ c, m0 x.1 K.one ≠ 0)
    (hmm : ∀ x ∈ c, x.1.isos.head?.map (·.mass) = some x.1.mostMass)
    (hnodup : (c.map fun x => x.1.sym).Nodup) (hbase : baseIntensity (toB c) K.one ≠ 0) :
    brainVariants K (toB c) req z carrier =
      .ok (sortByMz (cutLoop K.cut (exactRaw c K.one order z carrier) false)) := by
  have hV0 := maxVariants_toB_nonneg c hdom
  have hb := resolve_bounds K (toB c) hV0 req
  have ht := resolve_toNat K (toB c) hV0 req
  rw [← horder] at ht
  obtain ⟨consts, peaks, hpop, hraw, hlen, hval⟩ :=
    rawVariants_spec K c order z carrier hdom hc0 hm0 hmm hnodup (by omega) hbase
  have hpk : peaks = exactRaw c K.one order z carrier := by
    apply List.ext_getElem
    · simp [exactRaw, hlen]
    · intro i h1 h2
      obtain ⟨hi, hm⟩ := hval i h1
      simp only [exactRaw, List.getElem_map, List.getElem_range, exactPeak, exCentre, exProb,
        exMass, exTotal]
      cases hp : peaks[i]
      rw [hp] at hi hm
      simp only at hi hm
      rw [hi, hm]
  subst hpk
  rw [ht] at hpop
  unfold brainVariants
  show (populate K (toB c) (resolveOrder K (toB c) req)).bind _ = _
  rw [hpop, ← horder]
  exact variantsWith_eq K consts (toB c) order z carrier _ hraw

/-- the hypotheses shared by the exactness theorems (those of `rawVariants_spec`, with the order
    resolved from the request) -/
structure ExactHyp (K : BrainConsts) (c : List (Elem × Nat)) (req : PeakReq) (order : Nat) : Prop where
  order_eq : order = (resolveOrder K (toB c) req).toNat
  dom : ∀ x ∈ c, Dom x.1
  c0 : ∀ x ∈ c, c0 x.1 K.one ≠ 0
  m0 : ∀ x ∈ c, m0 x.1 K.one ≠ 0
  mostMass : ∀ x ∈ c, x.1.isos.head?.map (·.mass) = some x.1.mostMass
  nodup : (c.map fun x => x.1.sym).Nodup
  base : baseIntensity (toB c) K.one ≠ 0

theorem ExactHyp.raw {K : BrainConsts} {c : List (Elem × Nat)} {req : PeakReq} {order : Nat}
    (H : ExactHyp K c req order) (z : Int) (carrier : Rat) :
    brainVariants K (toB c) req z carrier =
      .ok (sortByMz (cutLoop K.cut (exactRaw c K.one order z carrier) false)) :=
  variants_exact_raw K c req z carrier order H.order_eq H.dom H.c0 H.m0 H.mostMass H.nodup H.base

/-- the cut loop transported to an index list (`cutLoop` only looks at the peaks `f a`) -/
def cutLoopBy {α} (cut : Rat) (f : α → Peak) : List α → Bool → List α
  | [], _ => []
  | a :: rest, hasReal =>
    if (f a).int < cut then
      (if hasReal then cutLoopBy cut f rest hasReal else a :: cutLoopBy cut f rest hasReal)
    else a :: cutLoopBy cut f rest true

theorem cutLoop_map {α} (cut : Rat) (f : α → Peak) (l : List α) (b : Bool) :
    cutLoop cut (l.map f) b = (cutLoopBy cut f l b).map f := by
  induction l generalizing b with
  | nil => rfl
  | cons a rest ih =>
    simp only [List.map_cons, cutLoop, cutLoopBy]
    split
    · split
      · exact ih _
      · rw [List.map_cons, ih]
    · rw [List.map_cons, ih]

theorem cutLoopBy_sublist {α} (cut : Rat) (f : α → Peak) (l : List α) (b : Bool) :
    (cutLoopBy cut f l b).Sublist l := by
  induction l generalizing b with
  | nil => exact List.Sublist.refl _
  | cons a rest ih =>
    simp only [cutLoopBy]
    split
    · split
      · exact (ih _).cons _
      · exact (ih _).cons_cons _
    · exact (ih _).cons_cons _

theorem cutLoopBy_keeps {α} (cut : Rat) (f : α → Peak) (l : List α) (b : Bool) (a : α) (ha : a ∈ l)
    (hc : cut ≤ (f a).int) : a ∈ cutLoopBy cut f l b := by
  induction l generalizing b with
  | nil => cases ha
  | cons q rest ih =>
    simp only [cutLoopBy]
    rcases List.mem_cons.1 ha with rfl | ha'
    · have : ¬ (f a).int < cut := not_lt.2 hc
      simp only [this, if_false]
      exact List.mem_cons_self
    · split
      · split
        · exact ih _ ha'
        · exact List.mem_cons_of_mem _ (ih _ ha')
      · exact List.mem_cons_of_mem _ (ih _ ha')

theorem cutLoopBy_head {α} (cut : Rat) (f : α → Peak) (a : α) (rest : List α) :
    a ∈ cutLoopBy cut f (a :: rest) false := by
  simp only [cutLoopBy]
  split
  · exact List.mem_cons_self
  · exact List.mem_cons_self

/-- **exactness, index form**: the returned peaks are the exact peaks `exactPeak j` of a duplicate-free
    list `js` of indices `j ≤ order` (so different returned positions come from different `j`),
    sorted by m/z; index `0` (the monoisotopic variant) is always among them, and so is every `j`
    whose exact share is `≥ K.cut`. -/
theorem variants_exact (K : BrainConsts) (c : List (Elem × Nat)) (req : PeakReq) (z : Int)
    (carrier : Rat) (order : Nat) (H : ExactHyp K c req order) :
    ∃ js : List Nat, js.Nodup ∧ (∀ j ∈ js, j ≤ order) ∧ 0 ∈ js ∧
      (∀ j, j ≤ order → K.cut ≤ exProb c K.one order j / exTotal c K.one order → j ∈ js) ∧
      brainVariants K (toB c) req z carrier = .ok (js.map (exactPeak c K.one order z carrier)) ∧
      (js.map (exactPeak c K.one order z carrier)).Pairwise (fun a b => a.mz ≤ b.mz) := by
  have hraw := H.raw z carrier
  unfold exactRaw at hraw
  rw [cutLoop_map] at hraw
  generalize hjs0 : cutLoopBy K.cut (exactPeak c K.one order z carrier) (List.range (order + 1)) false
    = js0 at hraw
  have hsub : js0.Sublist (List.range (order + 1)) := hjs0 ▸ cutLoopBy_sublist _ _ _ _
  obtain ⟨js, hjs, hout⟩ := perm_map_exists _ _ _ (sortByMz_perm (js0.map (exactPeak c K.one order z carrier)))
  refine ⟨js, ?_, ?_, ?_, ?_, ?_, ?_⟩
  · exact hjs.nodup_iff.2 (List.Nodup.sublist hsub List.nodup_range)
  · intro j hj
    have := hsub.subset (hjs.subset hj)
    rw [List.mem_range] at this
    omega
  · apply hjs.symm.subset
    rw [← hjs0, List.range_eq_range', List.range'_succ]
    exact cutLoopBy_head _ _ _ _
  · intro j hj hc
    apply hjs.symm.subset
    rw [← hjs0]
    exact cutLoopBy_keeps _ _ _ _ j (List.mem_range.2 (by omega)) hc
  · rw [hraw, hout]
  · rw [← hout]
    exact sortByMz_sorted _

/-- membership form: every returned peak is the exact peak of some `j ≤ order` -/
theorem variants_mem (K : BrainConsts) (c : List (Elem × Nat)) (req : PeakReq) (z : Int)
    (carrier : Rat) (order : Nat) (H : ExactHyp K c req order) :
    ∃ peaks, brainVariants K (toB c) req z carrier = .ok peaks ∧
      (∀ p ∈ peaks, ∃ j, j ≤ order ∧
        p.mz = chargedMz (exMass c K.one order j / exProb c K.one order j) z carrier ∧
        p.int = exProb c K.one order j / exTotal c K.one order) ∧
      (∀ j, j ≤ order → K.cut ≤ exProb c K.one order j / exTotal c K.one order →
        exactPeak c K.one order z carrier j ∈ peaks) ∧
      exactPeak c K.one order z carrier 0 ∈ peaks := by
  obtain ⟨js, _, hle, h0, hkeep, hbv, _⟩ := variants_exact K c req z carrier order H
  refine ⟨_, hbv, ?_, ?_, ?_⟩
  · intro p hp
    obtain ⟨j, hj, rfl⟩ := List.mem_map.1 hp
    exact ⟨j, hle j hj, rfl, rfl⟩
  · intro j hj hc
    exact List.mem_map_of_mem (hkeep j hj hc)
  · exact List.mem_map_of_mem h0

theorem chargedMz_injective (z : Int) (carrier : Rat) {m m' : Rat}
    (h : chargedMz m z carrier = chargedMz m' z carrier) : m = m' := by
  unfold chargedMz at h
  split at h
  · exact h
  · rename_i hz
    have hne : ((z.natAbs : Nat) : Rat) ≠ 0 := by
      exact_mod_cast (Int.natAbs_ne_zero.2 hz)
    have := (div_left_inj' hne).1 h
    exact add_right_cancel this

/-- **distinctness**: when the centre masses of the variants `0 ..= order` are pairwise distinct,
    `j ↦ exactPeak j` is injective there; hence the returned list has no repeated peak and every
    returned peak comes from exactly one `j`. -/
theorem variants_distinct (K : BrainConsts) (c : List (Elem × Nat)) (req : PeakReq) (z : Int)
    (carrier : Rat) (order : Nat) (H : ExactHyp K c req order)
    (hdist : ∀ i j, i ≤ order → j ≤ order →
      exCentre c K.one order i = exCentre c K.one order j → i = j) :
    ∃ peaks, brainVariants K (toB c) req z carrier = .ok peaks ∧ peaks.Nodup ∧
      ∀ p ∈ peaks, ∃! j, j ≤ order ∧ p = exactPeak c K.one order z carrier j := by
  obtain ⟨js, hnd, hle, _, _, hbv, _⟩ := variants_exact K c req z carrier order H
  have hinj : ∀ i j, i ≤ order → j ≤ order →
      exactPeak c K.one order z carrier i = exactPeak c K.one order z carrier j → i = j := by
    intro i j hi hj h
    apply hdist i j hi hj
    have := congrArg Peak.mz h
    exact chargedMz_injective z carrier this
  refine ⟨_, hbv, ?_, ?_⟩
  · rw [List.nodup_map_iff_inj_on hnd]
    intro i hi j hj h
    exact hinj i j (hle i hi) (hle j hj) h
  · intro p hp
    obtain ⟨j, hj, rfl⟩ := List.mem_map.1 hp
    refine ⟨j, ⟨hle j hj, rfl⟩, ?_⟩
    rintro j' ⟨hj', he⟩
    exact hinj j' j hj' (hle j hj) he.symm

/-- the ratio of two exact intensities is the ratio of the exact probabilities -/
theorem exactPeak_ratio (c : List (Elem × Nat)) (one : Rat) (order : Nat) (z : Int) (carrier : Rat)
    (hS : exTotal c one order ≠ 0) (i j : Nat) :
    (exactPeak c one order z carrier i).int / (exactPeak c one order z carrier j).int =
      exProb c one order i / exProb c one order j := by
  simp only [exactPeak]
  exact div_div_div_cancel_right₀ hS _ _

/-- **ratios**: any two returned peaks come from indices `i, j ≤ order` and the ratio of their
    intensities is the ratio of the exact aggregated probabilities (the normalisation cancels;
    `exTotal ≠ 0` holds e.g. when all abundances are positive, see `exTotal_pos`). -/
theorem variants_ratio (K : BrainConsts) (c : List (Elem × Nat)) (req : PeakReq) (z : Int)
    (carrier : Rat) (order : Nat) (H : ExactHyp K c req order) (hS : exTotal c K.one order ≠ 0) :
    ∃ peaks, brainVariants K (toB c) req z carrier = .ok peaks ∧
      ∀ p ∈ peaks, ∀ q ∈ peaks, ∃ i j, i ≤ order ∧ j ≤ order ∧
        p = exactPeak c K.one order z carrier i ∧ q = exactPeak c K.one order z carrier j ∧
        p.int / q.int = exProb c K.one order i / exProb c K.one order j := by
  obtain ⟨js, _, hle, _, _, hbv, _⟩ := variants_exact K c req z carrier order H
  refine ⟨_, hbv, ?_⟩
  intro p hp q hq
  obtain ⟨i, hi, rfl⟩ := List.mem_map.1 hp
  obtain ⟨j, hj, rfl⟩ := List.mem_map.1 hq
  exact ⟨i, j, hle i hi, hle j hj, rfl, rfl, exactPeak_ratio c K.one order z carrier hS i j⟩

/-! ## 2. a single atom -/

theorem polyAdd_nil_right (p : Spec.Poly) : Spec.polyAdd p [] = p := by
  cases p <;> rfl

theorem polyMul_one_right (deg : Nat) (p : Spec.Poly) : Spec.polyMul deg p [1] = p.take (deg + 1) := by
  induction p generalizing deg with
  | nil => rfl
  | cons a p ih =>
    simp only [Spec.polyMul, Spec.polyScale, List.map_cons, List.map_nil, Spec.polyAdd, ih,
      mul_one, add_zero, List.take_succ_cons, List.take_take]
    congr 1
    rw [Nat.min_eq_left (Nat.le_succ deg)]

theorem polyMul_one_left (deg : Nat) (q : Spec.Poly) (hq : q ≠ []) :
    Spec.polyMul deg [1] q = q.take (deg + 1) := by
  cases q with
  | nil => exact absurd rfl hq
  | cons b q =>
    simp only [Spec.polyMul, Spec.polyScale, List.map_cons, Spec.polyAdd, polyAdd_nil_right, one_mul,
      add_zero]
    congr 2
    simp

theorem elemPoly_ne_nil (e : Elem) (one : Rat) (wm : Bool) : Spec.elemPoly e one wm ≠ [] := by
  unfold Spec.elemPoly
  simp

/-- one atom: the aggregated probabilities are the element polynomial (the abundances) -/
theorem aggProb_single_take (e : Elem) (one : Rat) (deg : Nat) :
    Spec.aggProb [(e, 1)] one deg = (Spec.elemPoly e one false).take (deg + 1) := by
  have hne := elemPoly_ne_nil e one false
  simp only [Spec.aggProb, List.foldl_cons, List.foldl_nil, Spec.polyPow, polyMul_one_right]
  rw [polyMul_one_left, List.take_take, Nat.min_self]
  cases h : Spec.elemPoly e one false with
  | nil => exact absurd h hne
  | cons a t => simp

/-- one atom: the aggregated weighted masses are the mass polynomial (mass · abundance) -/
theorem aggMass_single_take (e : Elem) (one : Rat) (deg : Nat) :
    Spec.aggMass [(e, 1)] one deg = (Spec.elemPoly e one true).take (deg + 1) := by
  simp [Spec.aggMass, Spec.polyPow, polyMul_one_right, Spec.polyAdd, Spec.polyScale]

/-- `aggProb [(e,1)] = elemPoly e false` as soon as the truncation degree covers the element -/
theorem aggProb_single (e : Elem) (one : Rat) (deg : Nat)
    (hdeg : (Spec.elemPoly e one false).length ≤ deg + 1) :
    Spec.aggProb [(e, 1)] one deg = Spec.elemPoly e one false := by
  rw [aggProb_single_take, List.take_of_length_le hdeg]

theorem aggMass_single (e : Elem) (one : Rat) (deg : Nat)
    (hdeg : (Spec.elemPoly e one true).length ≤ deg + 1) :
    Spec.aggMass [(e, 1)] one deg = Spec.elemPoly e one true := by
  rw [aggMass_single_take, List.take_of_length_le hdeg]

/-- `Dom` element, `order = e.isos.length - 1`: the aggregated probabilities of one atom are the
    tabulated abundances -/
theorem aggProb_single_dom {e : Elem} (h : Dom e) (one : Rat) :
    Spec.aggProb [(e, 1)] one (e.isos.length - 1) = Spec.elemPoly e one false ∧
      Spec.elemPoly e one false = e.isos.map fun i => (i.abund : Rat) / one := by
  have hp := h.length_pos
  refine ⟨aggProb_single _ _ _ (by rw [elemPoly_length_of_dom h]; omega), ?_⟩
  rw [elemPoly_of_dom h]
  simp

/-- … and the aggregated weighted masses are mass · abundance of the tabulated isotopes -/
theorem aggMass_single_dom {e : Elem} (h : Dom e) (one : Rat) :
    Spec.aggMass [(e, 1)] one (e.isos.length - 1) = Spec.elemPoly e one true ∧
      Spec.elemPoly e one true = e.isos.map fun i => (i.mass : Rat) / one * ((i.abund : Rat) / one) := by
  have hp := h.length_pos
  refine ⟨aggMass_single _ _ _ (by rw [elemPoly_length_of_dom h]; omega), ?_⟩
  rw [elemPoly_of_dom h]
  simp

/-- the peak of one tabulated isotope: its mass, and its abundance normalised over the element -/
def isoPeak (e : Elem) (one : Rat) (z : Int) (carrier : Rat) (i : Iso) : Peak :=
  { mz := chargedMz ((i.mass : Rat) / one) z carrier,
    int := (i.abund : Rat) / (e.isos.map fun k => (k.abund : Rat)).sum }

theorem range_map_getD (l : List Rat) : (List.range l.length).map (fun j => l.getD j 0) = l := by
  apply List.ext_getElem
  · simp
  · intro i h1 h2
    simp only [List.getElem_map, List.getElem_range]
    exact List.getD_eq_getElem _ _ _

/-- one atom of a `Dom` element, all `e.isos.length` variants: the exact raw list is the list of
    tabulated isotopes, each at its own mass with its normalised abundance -/
theorem exactRaw_single (e : Elem) (one : Rat) (z : Int) (carrier : Rat) (hdom : Dom e)
    (hone : one ≠ 0) (hab : ∀ i ∈ e.isos, i.abund ≠ 0) :
    exactRaw [(e, 1)] one (e.isos.length - 1) z carrier = e.isos.map (isoPeak e one z carrier) := by
  have hpos := hdom.length_pos
  have hlen : e.isos.length - 1 + 1 = e.isos.length := by omega
  have hP : Spec.aggProb [(e, 1)] one (e.isos.length - 1) =
      e.isos.map fun i => (i.abund : Rat) / one := by
    rw [aggProb_single _ _ _ (by rw [elemPoly_length_of_dom hdom]; omega), elemPoly_of_dom hdom]
    simp
  have hM : Spec.aggMass [(e, 1)] one (e.isos.length - 1) =
      e.isos.map fun i => (i.mass : Rat) / one * ((i.abund : Rat) / one) := by
    rw [aggMass_single _ _ _ (by rw [elemPoly_length_of_dom hdom]; omega), elemPoly_of_dom hdom]
    simp
  have hT : exTotal [(e, 1)] one (e.isos.length - 1) =
      (e.isos.map fun k => (k.abund : Rat)).sum / one := by
    unfold exTotal exProb
    rw [hP, hlen]
    have := range_map_getD (e.isos.map fun i => (i.abund : Rat) / one)
    rw [List.length_map] at this
    rw [this, ← sum_map_div, List.map_map]
    rfl
  apply List.ext_getElem
  · simp [exactRaw, hlen]
  · intro j h1 h2
    have hj : j < e.isos.length := by simpa using h2
    have hne : ((e.isos[j]).abund : Rat) / one ≠ 0 :=
      div_ne_zero (by exact_mod_cast hab _ (List.getElem_mem hj)) hone
    simp only [exactRaw, List.getElem_map, List.getElem_range, exactPeak, isoPeak, exCentre, hT]
    simp only [exProb, exMass, hP, hM]
    rw [List.getD_eq_getElem _ _ (by simpa using hj), List.getD_eq_getElem _ _ (by simpa using hj)]
    simp only [List.getElem_map]
    rw [mul_div_assoc, div_self hne, mul_one, div_div_div_cancel_right₀ hone]

/-! ### the numeric side conditions from plain table facts -/

theorem c0_eq_of_dom {e : Elem} (h : Dom e) (one : Rat) :
    ∃ i0 rest, e.isos = i0 :: rest ∧ c0 e one = (i0.abund : Rat) / one := by
  unfold c0
  rw [elemPoly_of_dom h one false]
  cases hl : e.isos with
  | nil => exact absurd hl h.ne
  | cons i0 rest => exact ⟨i0, rest, rfl, by simp⟩

theorem c0_ne_zero_of_dom {e : Elem} (h : Dom e) {one : Rat} (hone : one ≠ 0)
    (hab : ∀ i ∈ e.isos, i.abund ≠ 0) : c0 e one ≠ 0 := by
  obtain ⟨i0, rest, hl, hc⟩ := c0_eq_of_dom h one
  rw [hc]
  exact div_ne_zero (by exact_mod_cast hab i0 (by rw [hl]; exact List.mem_cons_self)) hone

theorem m0_ne_zero_of_dom {e : Elem} (h : Dom e) {one : Rat} (hone : one ≠ 0)
    (hab : ∀ i ∈ e.isos, i.abund ≠ 0) (hmm : e.isos.head?.map (·.mass) = some e.mostMass)
    (hm : e.mostMass ≠ 0) : m0 e one ≠ 0 := by
  rw [m0_eq_of_dom h one hmm]
  exact mul_ne_zero (div_ne_zero (by exact_mod_cast hm) hone) (c0_ne_zero_of_dom h hone hab)

theorem foldl_mul_ne_zero : ∀ (l : List Rat) (a : Rat), a ≠ 0 → (∀ x ∈ l, x ≠ 0) →
    l.foldl (· * ·) a ≠ 0
  | [], _, ha, _ => ha
  | x :: l, a, ha, hl => by
    rw [List.foldl_cons]
    exact foldl_mul_ne_zero l (a * x) (mul_ne_zero ha (hl x List.mem_cons_self))
      (fun y hy => hl y (List.mem_cons_of_mem _ hy))

theorem baseIntensity_ne_zero (c : List (Elem × Nat)) {one : Rat} (hone : one ≠ 0)
    (hab : ∀ x ∈ c, ∀ i ∈ x.1.isos, i.abund ≠ 0) : baseIntensity (toB c) one ≠ 0 := by
  unfold baseIntensity
  apply foldl_mul_ne_zero _ _ one_ne_zero
  intro v hv
  obtain ⟨y, hy, rfl⟩ := List.mem_map.1 hv
  obtain ⟨x, hx, rfl⟩ := List.mem_map.1 hy
  dsimp only
  cases hf : x.1.iso? x.1.mostIso with
  | none => exact one_ne_zero
  | some i =>
    have hi : i ∈ x.1.isos := List.mem_of_find?_eq_some hf
    exact div_ne_zero (by exact_mod_cast hab x hx i hi) hone

/-- `ExactHyp` from plain facts about the table entries: `Dom`, pairwise distinct symbols, non-zero
    abundances, the recorded monoisotopic mass is the (non-zero) mass of the lightest isotope -/
theorem ExactHyp.of_table (K : BrainConsts) (c : List (Elem × Nat)) (req : PeakReq)
    (hone : K.one ≠ 0) (hdom : ∀ x ∈ c, Dom x.1)
    (hab : ∀ x ∈ c, ∀ i ∈ x.1.isos, i.abund ≠ 0)
    (hmm : ∀ x ∈ c, x.1.isos.head?.map (·.mass) = some x.1.mostMass)
    (hm : ∀ x ∈ c, x.1.mostMass ≠ 0)
    (hnodup : (c.map fun x => x.1.sym).Nodup) :
    ExactHyp K c req (resolveOrder K (toB c) req).toNat :=
  { order_eq := rfl
    dom := hdom
    c0 := fun x hx => c0_ne_zero_of_dom (hdom x hx) hone (hab x hx)
    m0 := fun x hx => m0_ne_zero_of_dom (hdom x hx) hone (hab x hx) (hmm x hx) (hm x hx)
    mostMass := hmm
    nodup := hnodup
    base := baseIntensity_ne_zero c hone hab }

theorem chargedMz_mono (z : Int) (carrier : Rat) {m m' : Rat} (h : m ≤ m') :
    chargedMz m z carrier ≤ chargedMz m' z carrier := by
  unfold chargedMz
  split
  · exact h
  · exact div_le_div_of_nonneg_right (by linarith) (Nat.cast_nonneg _)

theorem resolveOrder_single (K : BrainConsts) (e : Elem) (hdom : Dom e) :
    (resolveOrder K (toB [(e, 1)]) (.fixed e.isos.length)).toNat = e.isos.length - 1 := by
  have hpos := hdom.length_pos
  rw [resolveOrder_fixed_eq]
  have : maxVariants (toB [(e, 1)]) = (e.isos.length : Int) - 1 := by
    simp [maxVariants, toB, hdom.maxShift]
  rw [this]
  omega

/-- **single atom**: for one atom of a `Dom` element with non-zero abundances, asking for as many
    peaks as there are tabulated isotopes returns the sorted cut of the isotope list itself:
    one candidate peak per tabulated isotope, at that isotope's mass, with its normalised abundance -/
theorem single_atom (K : BrainConsts) (e : Elem) (z : Int) (carrier : Rat) (hdom : Dom e)
    (hone : K.one ≠ 0) (hab : ∀ i ∈ e.isos, i.abund ≠ 0)
    (hmm : e.isos.head?.map (·.mass) = some e.mostMass) (hm : e.mostMass ≠ 0) :
    brainVariants K (toB [(e, 1)]) (.fixed e.isos.length) z carrier =
      .ok (sortByMz (cutLoop K.cut (e.isos.map (isoPeak e K.one z carrier)) false)) := by
  have H := ExactHyp.of_table K [(e, 1)] (.fixed e.isos.length) hone
    (by intro x hx; rw [List.mem_singleton.1 hx]; exact hdom)
    (by intro x hx; rw [List.mem_singleton.1 hx]; exact hab)
    (by intro x hx; rw [List.mem_singleton.1 hx]; exact hmm)
    (by intro x hx; rw [List.mem_singleton.1 hx]; exact hm)
    (by simp)
  rw [resolveOrder_single K e hdom] at H
  rw [H.raw z carrier, exactRaw_single e K.one z carrier hdom hone hab]

/-- … if moreover the isotope masses increase (weakly) along the list, no sorting happens -/
theorem single_atom_sorted (K : BrainConsts) (e : Elem) (z : Int) (carrier : Rat) (hdom : Dom e)
    (hone : 0 < K.one) (hab : ∀ i ∈ e.isos, i.abund ≠ 0)
    (hmm : e.isos.head?.map (·.mass) = some e.mostMass) (hm : e.mostMass ≠ 0)
    (hinc : e.isos.Pairwise (fun a b => a.mass ≤ b.mass)) :
    brainVariants K (toB [(e, 1)]) (.fixed e.isos.length) z carrier =
      .ok (cutLoop K.cut (e.isos.map (isoPeak e K.one z carrier)) false) := by
  rw [single_atom K e z carrier hdom (ne_of_gt hone) hab hmm hm]
  congr 1
  apply sortByMz_id_of_sorted
  apply List.Pairwise.sublist (cutLoop_sublist _ _ _)
  rw [List.pairwise_map]
  refine hinc.imp ?_
  intro a b hle
  apply chargedMz_mono
  exact div_le_div_of_nonneg_right (by exact_mod_cast hle) (le_of_lt hone)

/-- … and if every isotope's share reaches the cut, the result IS the isotope list: one peak per
    tabulated isotope, at its mass, with its normalised abundance -/
theorem single_atom_all (K : BrainConsts) (e : Elem) (z : Int) (carrier : Rat) (hdom : Dom e)
    (hone : 0 < K.one) (hab : ∀ i ∈ e.isos, i.abund ≠ 0)
    (hmm : e.isos.head?.map (·.mass) = some e.mostMass) (hm : e.mostMass ≠ 0)
    (hinc : e.isos.Pairwise (fun a b => a.mass ≤ b.mass))
    (hcut : ∀ i ∈ e.isos, K.cut ≤ (i.abund : Rat) / (e.isos.map fun k => (k.abund : Rat)).sum) :
    brainVariants K (toB [(e, 1)]) (.fixed e.isos.length) z carrier =
      .ok (e.isos.map (isoPeak e K.one z carrier)) := by
  rw [single_atom_sorted K e z carrier hdom hone hab hmm hm hinc]
  congr 1
  rw [cutLoop_leading]
  have hall : ∀ p ∈ e.isos.map (isoPeak e K.one z carrier), K.cut ≤ p.int := by
    intro p hp
    obtain ⟨i, hi, rfl⟩ := List.mem_map.1 hp
    exact hcut i hi
  generalize e.isos.map (isoPeak e K.one z carrier) = raw at hall
  have htw : raw.takeWhile (fun p => decide (p.int < K.cut)) = [] := by
    cases raw with
    | nil => rfl
    | cons q rest =>
      have : ¬ q.int < K.cut := not_lt.2 (hall q List.mem_cons_self)
      simp [this]
  have hdw : raw.dropWhile (fun p => decide (p.int < K.cut)) = raw := by
    have := List.takeWhile_append_dropWhile (p := fun p : Peak => decide (p.int < K.cut)) (l := raw)
    rw [htw] at this
    simpa using this
  rw [htw, hdw, List.nil_append, List.filter_eq_self]
  intro p hp
  simpa using hall p hp

/-! ## 3. the mass range (a convex-combination argument, coefficient by coefficient) -/

/-- all coefficients non-negative -/
def NN (A : ℚ⟦X⟧) : Prop := ∀ i, 0 ≤ coeff i A

/-- coefficient-wise order -/
def CLe (A B : ℚ⟦X⟧) : Prop := ∀ i, coeff i A ≤ coeff i B

theorem NN.one : NN (1 : ℚ⟦X⟧) := by
  intro i
  rw [coeff_one]
  split <;> norm_num

theorem NN.mul {A B : ℚ⟦X⟧} (ha : NN A) (hb : NN B) : NN (A * B) := by
  intro i
  rw [coeff_mul]
  exact Finset.sum_nonneg fun p _ => mul_nonneg (ha _) (hb _)

theorem NN.pow {A : ℚ⟦X⟧} (ha : NN A) (n : Nat) : NN (A ^ n) := by
  induction n with
  | zero => rw [pow_zero]; exact NN.one
  | succ n ih => rw [pow_succ]; exact ih.mul ha

theorem NN.list_prod : ∀ (l : List ℚ⟦X⟧), (∀ A ∈ l, NN A) → NN l.prod
  | [], _ => by rw [List.prod_nil]; exact NN.one
  | A :: l, h => by
    rw [List.prod_cons]
    exact (h A List.mem_cons_self).mul (NN.list_prod l fun B hB => h B (List.mem_cons_of_mem _ hB))

theorem CLe.mul_right {A B C : ℚ⟦X⟧} (h : CLe A B) (hc : NN C) : CLe (A * C) (B * C) := by
  intro i
  rw [coeff_mul, coeff_mul]
  exact Finset.sum_le_sum fun p _ => mul_le_mul_of_nonneg_right (h _) (hc _)

/-- entry `k` of the two element polynomials: both `0`, or the abundance and mass·abundance of one
    and the same isotope (no `Dom` needed) -/
theorem elemPoly_entry (e : Elem) (one : Rat) (k : Nat) :
    ((Spec.elemPoly e one false).getD k 0 = 0 ∧ (Spec.elemPoly e one true).getD k 0 = 0) ∨
    ∃ i ∈ e.isos, (Spec.elemPoly e one false).getD k 0 = (i.abund : Rat) / one ∧
      (Spec.elemPoly e one true).getD k 0 = (i.mass : Rat) / one * ((i.abund : Rat) / one) := by
  unfold Spec.elemPoly
  simp only [List.getD_eq_getElem?_getD, List.getElem?_map]
  generalize (List.foldl max 0 (List.map (fun x => x.shift) e.isos) -
    List.foldl min 0 (List.map (fun x => x.shift) e.isos)).toNat + 1 = n
  generalize List.foldl min 0 (List.map (fun x => x.shift) e.isos) = lo
  by_cases hk : k < n
  · rw [List.getElem?_range hk]
    simp only [Option.map_some, Option.getD_some]
    cases hf : List.find? (fun x => x.shift == lo + Int.ofNat k) e.isos with
    | none => left; exact ⟨rfl, rfl⟩
    | some i =>
      right
      exact ⟨i, List.mem_of_find?_eq_some hf, by simp, by simp⟩
  · rw [List.getElem?_eq_none (by simpa using hk)]
    left; exact ⟨rfl, rfl⟩

theorem elemP_nn (e : Elem) {one : Rat} (hone : 0 ≤ one) (hab : ∀ i ∈ e.isos, 0 ≤ i.abund) :
    NN (toPS (Spec.elemPoly e one false)) := by
  intro k
  rw [coeff_toPS]
  rcases elemPoly_entry e one k with ⟨h, _⟩ | ⟨i, hi, h, _⟩
  · rw [h]
  · rw [h]
    exact div_nonneg (by exact_mod_cast hab i hi) hone

theorem elemM_le (e : Elem) {one : Rat} (hone : 0 ≤ one) (hab : ∀ i ∈ e.isos, 0 ≤ i.abund)
    (hi : Rat) (hhi : ∀ i ∈ e.isos, (i.mass : Rat) / one ≤ hi) :
    CLe (toPS (Spec.elemPoly e one true)) (C hi * toPS (Spec.elemPoly e one false)) := by
  intro k
  rw [coeff_C_mul, coeff_toPS, coeff_toPS]
  rcases elemPoly_entry e one k with ⟨h, h'⟩ | ⟨i, hi', h, h'⟩
  · rw [h, h', mul_zero]
  · rw [h, h']
    exact mul_le_mul_of_nonneg_right (hhi i hi') (div_nonneg (by exact_mod_cast hab i hi') hone)

theorem elemM_ge (e : Elem) {one : Rat} (hone : 0 ≤ one) (hab : ∀ i ∈ e.isos, 0 ≤ i.abund)
    (lo : Rat) (hlo : ∀ i ∈ e.isos, lo ≤ (i.mass : Rat) / one) :
    CLe (C lo * toPS (Spec.elemPoly e one false)) (toPS (Spec.elemPoly e one true)) := by
  intro k
  rw [coeff_C_mul, coeff_toPS, coeff_toPS]
  rcases elemPoly_entry e one k with ⟨h, h'⟩ | ⟨i, hi', h, h'⟩
  · rw [h, h', mul_zero]
  · rw [h, h']
    exact mul_le_mul_of_nonneg_right (hlo i hi') (div_nonneg (by exact_mod_cast hab i hi') hone)

/-- the generating series of `aggProb` -/
noncomputable def probPS (c : List (Elem × Nat)) (one : Rat) : ℚ⟦X⟧ :=
  (c.map fun x => toPS (Spec.elemPoly x.1 one false) ^ x.2).prod

theorem probPS_nn (c : List (Elem × Nat)) {one : Rat} (hone : 0 ≤ one)
    (hab : ∀ x ∈ c, ∀ i ∈ x.1.isos, 0 ≤ i.abund) : NN (probPS c one) := by
  apply NN.list_prod
  intro A hA
  obtain ⟨x, hx, rfl⟩ := List.mem_map.1 hA
  exact (elemP_nn x.1 hone (hab x hx)).pow _

theorem exProb_eq_coeff (c : List (Elem × Nat)) (one : Rat) (deg i : Nat) (hi : i ≤ deg) :
    exProb c one deg i = coeff i (probPS c one) := by
  unfold exProb probPS
  rw [← coeff_toPS, coeff_toPS_aggProb c one deg i hi]

/-- every exact probability is non-negative when the abundances are -/
theorem exProb_nonneg (c : List (Elem × Nat)) {one : Rat} (hone : 0 ≤ one)
    (hab : ∀ x ∈ c, ∀ i ∈ x.1.isos, 0 ≤ i.abund) (deg i : Nat) (hi : i ≤ deg) :
    0 ≤ exProb c one deg i := by
  rw [exProb_eq_coeff c one deg i hi]
  exact probPS_nn c hone hab i

/-- one summand of `aggMass` lies between `lo · aggProb` and `hi · aggProb` -/
theorem massTerm_bounds (c : List (Elem × Nat)) {one : Rat} (hone : 0 ≤ one)
    (hab : ∀ x ∈ c, ∀ i ∈ x.1.isos, 0 ≤ i.abund) (lo hi : Elem → Rat)
    (hlo : ∀ x ∈ c, ∀ i ∈ x.1.isos, lo x.1 ≤ (i.mass : Rat) / one)
    (hhi : ∀ x ∈ c, ∀ i ∈ x.1.isos, (i.mass : Rat) / one ≤ hi x.1)
    (idx : Nat) (h : idx < c.length) (hn : c[idx].2 ≠ 0) (i : Nat) :
    lo c[idx].1 * coeff i (probPS c one) ≤
      coeff i (toPS (Spec.elemPoly c[idx].1 one true) * toPS (Spec.elemPoly c[idx].1 one false) ^ (c[idx].2 - 1)
        * ((c.eraseIdx idx).map fun y => toPS (Spec.elemPoly y.1 one false) ^ y.2).prod) ∧
    coeff i (toPS (Spec.elemPoly c[idx].1 one true) * toPS (Spec.elemPoly c[idx].1 one false) ^ (c[idx].2 - 1)
        * ((c.eraseIdx idx).map fun y => toPS (Spec.elemPoly y.1 one false) ^ y.2).prod) ≤
      hi c[idx].1 * coeff i (probPS c one) := by
  have hx : c[idx] ∈ c := List.getElem_mem h
  generalize hxe : c[idx] = x at hx hn ⊢
  have hP := elemP_nn x.1 hone (hab x hx)
  have hR : NN ((c.eraseIdx idx).map fun y => toPS (Spec.elemPoly y.1 one false) ^ y.2).prod := by
    apply NN.list_prod
    intro A hA
    obtain ⟨y, hy, rfl⟩ := List.mem_map.1 hA
    exact (elemP_nn y.1 hone (hab y (List.mem_of_mem_eraseIdx hy))).pow _
  have hprod : probPS c one = toPS (Spec.elemPoly x.1 one false) *
      toPS (Spec.elemPoly x.1 one false) ^ (x.2 - 1) *
      ((c.eraseIdx idx).map fun y => toPS (Spec.elemPoly y.1 one false) ^ y.2).prod := by
    unfold probPS
    rw [prod_map_eraseIdx (fun y : Elem × Nat => toPS (Spec.elemPoly y.1 one false) ^ y.2) c idx h,
      hxe, ← pow_succ']
    congr 3
    omega
  have key : ∀ a : Rat, a * coeff i (probPS c one) =
      coeff i (C a * toPS (Spec.elemPoly x.1 one false) *
        toPS (Spec.elemPoly x.1 one false) ^ (x.2 - 1) *
        ((c.eraseIdx idx).map fun y => toPS (Spec.elemPoly y.1 one false) ^ y.2).prod) := by
    intro a
    rw [hprod, mul_assoc (C a), mul_assoc (C a), coeff_C_mul, mul_assoc]
  constructor
  · rw [key]
    exact ((elemM_ge x.1 hone (hab x hx) (lo x.1) (hlo x hx)).mul_right (hP.pow _)).mul_right hR i
  · rw [key]
    exact ((elemM_le x.1 hone (hab x hx) (hi x.1) (hhi x hx)).mul_right (hP.pow _)).mul_right hR i

/-- `Σₑ nₑ · b(e)` for a per-element bound `b` -/
def massBound (b : Elem → Rat) (c : List (Elem × Nat)) : Rat :=
  (c.map fun x => (x.2 : Rat) * b x.1).sum

/-- **coefficient-wise bounds**: `(Σ nₑ·loₑ) · aggProb j ≤ aggMass j ≤ (Σ nₑ·hiₑ) · aggProb j`
    whenever every isotope mass of `e` lies in `[loₑ, hiₑ]` and the abundances are non-negative -/
theorem aggMass_bounds (c : List (Elem × Nat)) {one : Rat} (hone : 0 ≤ one)
    (hab : ∀ x ∈ c, ∀ i ∈ x.1.isos, 0 ≤ i.abund) (lo hi : Elem → Rat)
    (hlo : ∀ x ∈ c, ∀ i ∈ x.1.isos, lo x.1 ≤ (i.mass : Rat) / one)
    (hhi : ∀ x ∈ c, ∀ i ∈ x.1.isos, (i.mass : Rat) / one ≤ hi x.1)
    (deg j : Nat) (hj : j ≤ deg) :
    massBound lo c * exProb c one deg j ≤ exMass c one deg j ∧
      exMass c one deg j ≤ massBound hi c * exProb c one deg j := by
  have hM : exMass c one deg j =
      (c.zipIdx.map fun (p : (Elem × Nat) × Nat) =>
        if p.1.2 = 0 then (0 : Rat) else
          (p.1.2 : Rat) * coeff j
            (toPS (Spec.elemPoly p.1.1 one true) * toPS (Spec.elemPoly p.1.1 one false) ^ (p.1.2 - 1)
              * ((c.eraseIdx p.2).map fun y => toPS (Spec.elemPoly y.1 one false) ^ y.2).prod)).sum := by
    unfold exMass
    rw [← coeff_toPS]
    exact coeff_toPS_aggMass' c one deg j hj
  have hB : ∀ b : Elem → Rat, massBound b c * exProb c one deg j =
      (c.zipIdx.map fun p : (Elem × Nat) × Nat =>
        (p.1.2 : Rat) * (b p.1.1 * coeff j (probPS c one))).sum := by
    intro b
    rw [exProb_eq_coeff c one deg j hj, massBound, ← List.sum_map_mul_right]
    generalize coeff j (probPS c one) = Pj
    conv_lhs => rw [← List.zipIdx_map_fst 0 c]
    rw [List.map_map]
    congr 1
    apply List.map_congr_left
    intro p _
    simp only [Function.comp]
    ring
  have hterm : ∀ p ∈ c.zipIdx, ∀ (lo hi : Elem → Rat),
      (∀ x ∈ c, ∀ i ∈ x.1.isos, lo x.1 ≤ (i.mass : Rat) / one) →
      (∀ x ∈ c, ∀ i ∈ x.1.isos, (i.mass : Rat) / one ≤ hi x.1) →
      (p.1.2 : Rat) * (lo p.1.1 * coeff j (probPS c one)) ≤
        (if p.1.2 = 0 then (0 : Rat) else
          (p.1.2 : Rat) * coeff j
            (toPS (Spec.elemPoly p.1.1 one true) * toPS (Spec.elemPoly p.1.1 one false) ^ (p.1.2 - 1)
              * ((c.eraseIdx p.2).map fun y => toPS (Spec.elemPoly y.1 one false) ^ y.2).prod)) ∧
      (if p.1.2 = 0 then (0 : Rat) else
          (p.1.2 : Rat) * coeff j
            (toPS (Spec.elemPoly p.1.1 one true) * toPS (Spec.elemPoly p.1.1 one false) ^ (p.1.2 - 1)
              * ((c.eraseIdx p.2).map fun y => toPS (Spec.elemPoly y.1 one false) ^ y.2).prod)) ≤
        (p.1.2 : Rat) * (hi p.1.1 * coeff j (probPS c one)) := by
    rintro ⟨x, idx⟩ hp lo hi hlo hhi
    rw [List.mem_zipIdx_iff_getElem?] at hp
    obtain ⟨hlt, hget⟩ := List.getElem?_eq_some_iff.1 hp
    dsimp only
    by_cases hn : x.2 = 0
    · rw [if_pos hn, hn]
      simp
    · rw [if_neg hn]
      have hb := massTerm_bounds c hone hab lo hi hlo hhi idx hlt (by rw [hget]; exact hn) j
      rw [hget] at hb
      have hnn : (0 : Rat) ≤ (x.2 : Rat) := Nat.cast_nonneg _
      exact ⟨mul_le_mul_of_nonneg_left hb.1 hnn, mul_le_mul_of_nonneg_left hb.2 hnn⟩
  constructor
  · rw [hB lo, hM]
    exact List.sum_le_sum fun p hp => (hterm p hp lo hi hlo hhi).1
  · rw [hB hi, hM]
    exact List.sum_le_sum fun p hp => (hterm p hp lo hi hlo hhi).2

/-- **C09, mass range**: the centre mass of every variant with non-zero probability lies between
    `Σ nₑ · loₑ` and `Σ nₑ · hiₑ` (a convex combination of isotopologue masses) -/
theorem mz_in_range (c : List (Elem × Nat)) {one : Rat} (hone : 0 ≤ one)
    (hab : ∀ x ∈ c, ∀ i ∈ x.1.isos, 0 ≤ i.abund) (lo hi : Elem → Rat)
    (hlo : ∀ x ∈ c, ∀ i ∈ x.1.isos, lo x.1 ≤ (i.mass : Rat) / one)
    (hhi : ∀ x ∈ c, ∀ i ∈ x.1.isos, (i.mass : Rat) / one ≤ hi x.1)
    (deg j : Nat) (hj : j ≤ deg) (hp : exProb c one deg j ≠ 0) :
    massBound lo c ≤ exCentre c one deg j ∧ exCentre c one deg j ≤ massBound hi c := by
  have hpos : 0 < exProb c one deg j :=
    lt_of_le_of_ne (exProb_nonneg c hone hab deg j hj) (Ne.symm hp)
  obtain ⟨h1, h2⟩ := aggMass_bounds c hone hab lo hi hlo hhi deg j hj
  unfold exCentre
  exact ⟨(le_div_iff₀ hpos).2 h1, (div_le_iff₀ hpos).2 h2⟩

/-! ### the bounds instantiated: lightest and heaviest tabulated isotope -/

/-- mass of the first (lightest, when the masses increase) tabulated isotope -/
def lightest (e : Elem) : Int := (e.isos.head?.map (·.mass)).getD 0
/-- mass of the last (heaviest, when the masses increase) tabulated isotope -/
def heaviest (e : Elem) : Int := (e.isos.getLast?.map (·.mass)).getD 0

theorem lightest_le (e : Elem) (hinc : e.isos.Pairwise (fun a b => a.mass ≤ b.mass)) :
    ∀ i ∈ e.isos, lightest e ≤ i.mass := by
  unfold lightest
  cases hl : e.isos with
  | nil => intro i hi; cases hi
  | cons a t =>
    rw [hl] at hinc
    intro i hi
    simp only [List.head?_cons, Option.map_some, Option.getD_some]
    rcases List.mem_cons.1 hi with rfl | hi
    · exact le_refl _
    · exact (List.pairwise_cons.1 hinc).1 i hi

theorem le_heaviest (e : Elem) (hinc : e.isos.Pairwise (fun a b => a.mass ≤ b.mass)) :
    ∀ i ∈ e.isos, i.mass ≤ heaviest e := by
  unfold heaviest
  rcases List.eq_nil_or_concat e.isos with hl | ⟨t, a, hl⟩
  · rw [hl]; intro i hi; cases hi
  · rw [hl] at hinc ⊢
    intro i hi
    simp only [List.concat_eq_append, List.getLast?_append, List.getLast?_singleton, Option.some_or,
      Option.map_some, Option.getD_some] at hinc ⊢
    have hi' : i ∈ t ∨ i = a := by simpa using hi
    rcases hi' with hi | hi
    · exact (List.pairwise_append.1 hinc).2.2 i hi a List.mem_cons_self
    · rw [hi]

/-- **mass range, tabulated form**: with isotope masses listed in increasing order, the centre mass
    of every variant with non-zero probability lies between `Σ nₑ·(lightest isotope of e)` and
    `Σ nₑ·(heaviest isotope of e)` -/
theorem mz_in_range_sorted (c : List (Elem × Nat)) {one : Rat} (hone : 0 ≤ one)
    (hab : ∀ x ∈ c, ∀ i ∈ x.1.isos, 0 ≤ i.abund)
    (hinc : ∀ x ∈ c, x.1.isos.Pairwise (fun a b => a.mass ≤ b.mass))
    (deg j : Nat) (hj : j ≤ deg) (hp : exProb c one deg j ≠ 0) :
    massBound (fun e => (lightest e : Rat) / one) c ≤ exCentre c one deg j ∧
      exCentre c one deg j ≤ massBound (fun e => (heaviest e : Rat) / one) c := by
  apply mz_in_range c hone hab _ _ _ _ deg j hj hp
  · intro x hx i hi
    exact div_le_div_of_nonneg_right (by exact_mod_cast lightest_le x.1 (hinc x hx) i hi) hone
  · intro x hx i hi
    exact div_le_div_of_nonneg_right (by exact_mod_cast le_heaviest x.1 (hinc x hx) i hi) hone

/-- when the recorded monoisotopic mass is the first isotope's, the lower bound is the
    monoisotopic mass of the composition -/
theorem massBound_lightest (c : List (Elem × Nat)) (one : Rat)
    (hmm : ∀ x ∈ c, x.1.isos.head?.map (·.mass) = some x.1.mostMass) :
    massBound (fun e => (lightest e : Rat) / one) c = monoMassOf (toB c) one := by
  unfold massBound monoMassOf toB
  rw [List.map_map]
  congr 1
  apply List.map_congr_left
  intro x hx
  simp only [Function.comp, lightest, hmm x hx, Option.getD_some, Int.cast_natCast]
  ring

/-! ### strict positivity of the exact probabilities (`Dom`, positive abundances) -/

/-- non-negative coefficients, strictly positive ones up to degree `d` -/
def PosUpTo (d : Nat) (A : ℚ⟦X⟧) : Prop := NN A ∧ ∀ i, i ≤ d → 0 < coeff i A

theorem PosUpTo.one : PosUpTo 0 (1 : ℚ⟦X⟧) := by
  refine ⟨NN.one, ?_⟩
  intro i hi
  rw [Nat.le_zero.1 hi, coeff_one, if_pos rfl]
  exact one_pos

theorem PosUpTo.mul {d1 d2 : Nat} {A B : ℚ⟦X⟧} (ha : PosUpTo d1 A) (hb : PosUpTo d2 B) :
    PosUpTo (d1 + d2) (A * B) := by
  refine ⟨ha.1.mul hb.1, ?_⟩
  intro i hi
  rw [coeff_mul]
  apply Finset.sum_pos'
  · intro p _
    exact mul_nonneg (ha.1 _) (hb.1 _)
  · refine ⟨(min i d1, i - min i d1), ?_, ?_⟩
    · rw [Finset.mem_antidiagonal]
      omega
    · exact mul_pos (ha.2 _ (by omega)) (hb.2 _ (by omega))

theorem PosUpTo.pow {d : Nat} {A : ℚ⟦X⟧} (ha : PosUpTo d A) (n : Nat) : PosUpTo (d * n) (A ^ n) := by
  induction n with
  | zero => rw [pow_zero, Nat.mul_zero]; exact PosUpTo.one
  | succ n ih => rw [pow_succ, Nat.mul_succ]; exact ih.mul ha

/-- number of variants beyond the monoisotopic one, as a natural number (`Dom`: `= maxVariants`) -/
def spanVariants (c : List (Elem × Nat)) : Nat := (c.map fun x => (x.1.isos.length - 1) * x.2).sum

theorem spanVariants_eq (c : List (Elem × Nat)) (hdom : ∀ x ∈ c, Dom x.1) :
    (spanVariants c : Int) = maxVariants (toB c) := by
  induction c with
  | nil => rfl
  | cons x c ih =>
    have hx := hdom x List.mem_cons_self
    have hp := hx.length_pos
    have ih' := ih fun y hy => hdom y (List.mem_cons_of_mem _ hy)
    simp only [spanVariants, maxVariants, toB, List.map_cons, List.sum_cons, List.map_map] at ih' ⊢
    rw [← ih', hx.maxShift]
    push_cast
    rw [Nat.cast_sub hp]
    rfl

theorem elemP_pos {e : Elem} (h : Dom e) {one : Rat} (hone : 0 < one) (hab : ∀ i ∈ e.isos, 0 < i.abund) :
    PosUpTo (e.isos.length - 1) (toPS (Spec.elemPoly e one false)) := by
  refine ⟨elemP_nn e (le_of_lt hone) fun i hi => le_of_lt (hab i hi), ?_⟩
  intro k hk
  have hp := h.length_pos
  have hk' : k < e.isos.length := by omega
  rw [coeff_toPS, elemPoly_of_dom h, List.getD_eq_getElem _ _ (by simpa using hk')]
  simp only [List.getElem_map, Bool.false_eq_true, if_false, one_mul]
  exact div_pos (by exact_mod_cast hab _ (List.getElem_mem hk')) hone

theorem probPS_pos (c : List (Elem × Nat)) {one : Rat} (hone : 0 < one) (hdom : ∀ x ∈ c, Dom x.1)
    (hab : ∀ x ∈ c, ∀ i ∈ x.1.isos, 0 < i.abund) : PosUpTo (spanVariants c) (probPS c one) := by
  induction c with
  | nil => exact PosUpTo.one
  | cons x c ih =>
    have ih' := ih (fun y hy => hdom y (List.mem_cons_of_mem _ hy))
      (fun y hy => hab y (List.mem_cons_of_mem _ hy))
    unfold probPS spanVariants at ih' ⊢
    simp only [List.map_cons, List.prod_cons, List.sum_cons]
    exact ((elemP_pos (hdom x List.mem_cons_self) hone (hab x List.mem_cons_self)).pow _).mul ih'

/-- under `Dom` with positive abundances every variant up to `maxVariants` has positive probability -/
theorem exProb_pos (c : List (Elem × Nat)) {one : Rat} (hone : 0 < one) (hdom : ∀ x ∈ c, Dom x.1)
    (hab : ∀ x ∈ c, ∀ i ∈ x.1.isos, 0 < i.abund) (deg j : Nat) (hj : j ≤ deg)
    (hjV : (j : Int) ≤ maxVariants (toB c)) : 0 < exProb c one deg j := by
  rw [exProb_eq_coeff c one deg j hj]
  apply (probPS_pos c hone hdom hab).2
  have := spanVariants_eq c hdom
  omega

theorem exTotal_pos (c : List (Elem × Nat)) {one : Rat} (hone : 0 < one) (hdom : ∀ x ∈ c, Dom x.1)
    (hab : ∀ x ∈ c, ∀ i ∈ x.1.isos, 0 < i.abund) (deg : Nat) : 0 < exTotal c one deg := by
  unfold exTotal
  rw [List.range_succ_eq_map, List.map_cons, List.sum_cons]
  apply add_pos_of_pos_of_nonneg
  · exact exProb_pos c hone hdom hab deg 0 (Nat.zero_le _) (by
      have := maxVariants_toB_nonneg c hdom
      simpa using this)
  · apply List.sum_nonneg
    intro v hv
    obtain ⟨j, hj, rfl⟩ := List.mem_map.1 hv
    obtain ⟨k, hk, rfl⟩ := List.mem_map.1 hj
    rw [List.mem_range] at hk
    exact exProb_nonneg c (le_of_lt hone) (fun x hx i hi => le_of_lt (hab x hx i hi)) deg _ (by omega)

/-- **C09, range of the returned pattern**: for a composition over `Dom` elements with positive
    abundances and isotope masses in increasing order, every peak `brainVariants` returns has a
    positive intensity and an m/z between the charged monoisotopic mass `Σ nₑ·lightestₑ` and the
    charged mass `Σ nₑ·heaviestₑ` of the heaviest isotopologue. -/
theorem variants_mz_in_range (K : BrainConsts) (c : List (Elem × Nat)) (req : PeakReq) (z : Int)
    (carrier : Rat) (order : Nat) (H : ExactHyp K c req order) (hone : 0 < K.one)
    (hab : ∀ x ∈ c, ∀ i ∈ x.1.isos, 0 < i.abund)
    (hinc : ∀ x ∈ c, x.1.isos.Pairwise (fun a b => a.mass ≤ b.mass)) :
    ∃ peaks, brainVariants K (toB c) req z carrier = .ok peaks ∧
      ∀ p ∈ peaks, 0 < p.int ∧
        chargedMz (monoMassOf (toB c) K.one) z carrier ≤ p.mz ∧
        p.mz ≤ chargedMz (massBound (fun e => (heaviest e : Rat) / K.one) c) z carrier := by
  obtain ⟨js, _, hle, _, _, hbv, _⟩ := variants_exact K c req z carrier order H
  have hV0 := maxVariants_toB_nonneg c H.dom
  have hb := resolve_bounds K (toB c) hV0 req
  have ho := H.order_eq
  refine ⟨_, hbv, ?_⟩
  intro p hp
  obtain ⟨j, hj, rfl⟩ := List.mem_map.1 hp
  have hjo := hle j hj
  have hpos := exProb_pos c hone H.dom hab order j hjo (by omega)
  have hr := mz_in_range_sorted c (le_of_lt hone) (fun x hx i hi => le_of_lt (hab x hx i hi)) hinc
    order j hjo (ne_of_gt hpos)
  rw [massBound_lightest c K.one H.mostMass] at hr
  exact ⟨div_pos hpos (exTotal_pos c hone H.dom hab order), chargedMz_mono z carrier hr.1,
    chargedMz_mono z carrier hr.2⟩

/-- `variants_ratio` with the side condition discharged by positivity -/
theorem variants_ratio_pos (K : BrainConsts) (c : List (Elem × Nat)) (req : PeakReq) (z : Int)
    (carrier : Rat) (order : Nat) (H : ExactHyp K c req order) (hone : 0 < K.one)
    (hab : ∀ x ∈ c, ∀ i ∈ x.1.isos, 0 < i.abund) :
    ∃ peaks, brainVariants K (toB c) req z carrier = .ok peaks ∧
      ∀ p ∈ peaks, ∀ q ∈ peaks, ∃ i j, i ≤ order ∧ j ≤ order ∧
        p = exactPeak c K.one order z carrier i ∧ q = exactPeak c K.one order z carrier j ∧
        p.int / q.int = exProb c K.one order i / exProb c K.one order j :=
  variants_ratio K c req z carrier order H (ne_of_gt (exTotal_pos c hone H.dom hab order))

/-! ## 4. non-vacuity (the hand-made elements `exH`, `exQ` and the composition H₃Q₂ of Props/C03) -/

namespace C03ExactEx

theorem exComp_mem : ∀ x ∈ exComp, x = (exH, 3) ∨ x = (exQ, 2) := by
  intro x hx; simpa [exComp] using hx

/-- a variant of `exK` with a real cut (5 %) -/
def exK5 : BrainConsts := { exK with cut := 1 / 20 }

/-- the hypotheses of all the exactness theorems hold for H₃Q₂, any request, either set of constants -/
theorem exHyp (K : BrainConsts) (hK : K.one = 10) (req : PeakReq) :
    ExactHyp K exComp req (resolveOrder K (toB exComp) req).toNat := by
  apply ExactHyp.of_table
  · rw [hK]; norm_num
  · intro x hx
    rcases exComp_mem x hx with rfl | rfl
    · exact exH_dom
    · exact exQ_dom
  · intro x hx
    rcases exComp_mem x hx with rfl | rfl <;> decide
  · intro x hx
    rcases exComp_mem x hx with rfl | rfl <;> rfl
  · intro x hx
    rcases exComp_mem x hx with rfl | rfl <;> decide
  · decide

theorem exAbundPos : ∀ x ∈ exComp, ∀ i ∈ x.1.isos, 0 < i.abund := by
  intro x hx
  rcases exComp_mem x hx with rfl | rfl <;> decide

theorem exMassInc : ∀ x ∈ exComp, x.1.isos.Pairwise (fun a b => a.mass ≤ b.mass) := by
  intro x hx
  rcases exComp_mem x hx with rfl | rfl <;> decide

example : (resolveOrder exK (toB exComp) (.fixed 8)).toNat = 7 := by decide
example : maxVariants (toB exComp) = 7 := by decide

/-- the instance of `variants_exact` at H₃Q₂ with all 8 variants requested and a 5 % cut -/
example (z : Int) (carrier : Rat) :
    ∃ js : List Nat, js.Nodup ∧ (∀ j ∈ js, j ≤ 7) ∧ 0 ∈ js ∧
      (∀ j, j ≤ 7 → exK5.cut ≤ exProb exComp 10 7 j / exTotal exComp 10 7 → j ∈ js) ∧
      brainVariants exK5 (toB exComp) (.fixed 8) z carrier = .ok (js.map (exactPeak exComp 10 7 z carrier)) ∧
      (js.map (exactPeak exComp 10 7 z carrier)).Pairwise (fun a b => a.mz ≤ b.mz) :=
  variants_exact exK5 exComp (.fixed 8) z carrier 7 (exHyp exK5 rfl (.fixed 8))

/-- … and what it says, evaluated by the kernel: with the 5 % cut exactly the variants 0..3 survive
    (charge 1, carrier 1) -/
example :
    (match brainVariants exK5 (toB exComp) (.fixed 8) 1 1 with
      | .ok peaks => some peaks
      | _ => none) = some ([0, 1, 2, 3].map (exactPeak exComp 10 7 1 1)) := by decide +kernel

/-- without a cut all 8 exact peaks are returned, in order -/
example :
    (match brainVariants exK (toB exComp) (.fixed 8) 0 0 with
      | .ok peaks => some peaks
      | _ => none) = some (exactRaw exComp 10 7 0 0) := by decide +kernel

/-- the exact distribution of H₃Q₂ = coefficients of (0.9 + 0.1x)³ (0.6 + 0.3x + 0.1x²)² -/
example : (List.range 8).map (exProb exComp 10 7) =
    [6561 / 25000, 2187 / 6250, 25029 / 100000, 2097 / 20000, 279 / 10000, 213 / 50000,
      33 / 100000, 1 / 100000] := by decide +kernel

/-- the centre masses are pairwise distinct (hypothesis of `variants_distinct`), and lie between the
    monoisotopic mass 3·1 + 2·5 = 13 and the heaviest isotopologue 3·2 + 2·6.9 = 19.8 -/
example : (List.range 8).map (exCentre exComp 10 7) =
    [13, 563 / 40, 7752 / 515, 18667 / 1165, 2628 / 155, 1270 / 71, 1036 / 55, 99 / 5] := by
  decide +kernel

theorem exCentre_distinct : ∀ i j, i ≤ 7 → j ≤ 7 →
    exCentre exComp exK.one 7 i = exCentre exComp exK.one 7 j → i = j := by
  have h : ∀ i : Fin 8, ∀ j : Fin 8,
      exCentre exComp exK.one 7 i.1 = exCentre exComp exK.one 7 j.1 → i = j := by decide +kernel
  intro i j hi hj he
  have := h ⟨i, by omega⟩ ⟨j, by omega⟩ he
  exact congrArg Fin.val this

/-- the instance of `variants_distinct` -/
example (z : Int) (carrier : Rat) :
    ∃ peaks, brainVariants exK (toB exComp) (.fixed 8) z carrier = .ok peaks ∧ peaks.Nodup ∧
      ∀ p ∈ peaks, ∃! j, j ≤ 7 ∧ p = exactPeak exComp exK.one 7 z carrier j :=
  variants_distinct exK exComp (.fixed 8) z carrier 7 (exHyp exK rfl (.fixed 8)) exCentre_distinct

/-- the instance of `variants_mz_in_range`: every returned peak of H₃Q₂ (any request, charge,
    carrier) has positive intensity and m/z between the charged masses 13 and 19.8 -/
example (req : PeakReq) (z : Int) (carrier : Rat) :
    ∃ peaks, brainVariants exK (toB exComp) req z carrier = .ok peaks ∧
      ∀ p ∈ peaks, 0 < p.int ∧ chargedMz 13 z carrier ≤ p.mz ∧ p.mz ≤ chargedMz (99 / 5) z carrier := by
  have h := variants_mz_in_range exK exComp req z carrier _ (exHyp exK rfl req) (by decide +kernel)
    exAbundPos exMassInc
  have h1 : monoMassOf (toB exComp) exK.one = 13 := by decide +kernel
  have h2 : massBound (fun e => (heaviest e : Rat) / exK.one) exComp = 99 / 5 := by decide +kernel
  rw [h1, h2] at h
  exact h

/-- the instance of `variants_ratio_pos` -/
example (req : PeakReq) (z : Int) (carrier : Rat) :=
  variants_ratio_pos exK exComp req z carrier _ (exHyp exK rfl req) (by decide +kernel) exAbundPos

/-- single atom of `exQ`: the three tabulated isotopes, at their masses, with their abundances -/
example (z : Int) (carrier : Rat) :
    brainVariants exK (toB [(exQ, 1)]) (.fixed 3) z carrier =
      .ok (exQ.isos.map (isoPeak exQ exK.one z carrier)) :=
  single_atom_all exK exQ z carrier exQ_dom (by decide +kernel) (by decide) rfl (by decide) (by decide)
    (by decide +kernel)

example : exQ.isos.map (isoPeak exQ exK.one 0 0) =
    [⟨5, 3 / 5⟩, ⟨61 / 10, 3 / 10⟩, ⟨69 / 10, 1 / 10⟩] := by decide +kernel

example : Spec.aggProb [(exQ, 1)] 10 2 = [6 / 10, 3 / 10, 1 / 10] := by decide +kernel
example : Spec.aggProb [(exQ, 1)] 10 2 = Spec.elemPoly exQ 10 false :=
  aggProb_single exQ 10 2 (by decide)
example : Spec.aggMass [(exQ, 1)] 10 2 = Spec.elemPoly exQ 10 true :=
  aggMass_single exQ 10 2 (by decide)

end C03ExactEx

end Chem
