import ChemProofs.Props.C03Series
/-
C03 — scaling invariance of the series oracle.

The python oracle divides every element's `P_e` AND `M_e` by a non-zero constant (the constant term
of `P_e`) before evaluating the closed form of Props/C03Series.lean, and afterwards only uses
(i) the ratios `prob_j / prob_k` (equivalently `prob_j / Σ_k prob_k`) and (ii) the quotients
`massw_j / prob_j`.  Both are unchanged: the scaling multiplies both series by the same non-zero
constant `Π_e sc_e ^ n_e`.
-/
namespace Chem
namespace C03Series
open PowerSeries

/-- the constant `Π_e sc_e ^ n_e` -/
def scaleConst (sc : Elem → ℚ) (c : List (Elem × Nat)) : ℚ := (c.map fun x => sc x.1 ^ x.2).prod

/-- the scaled element series `sc_e • P_e`, `sc_e • M_e` (with `P`, `M` of Props/C03Series.lean) -/
noncomputable def Psc (sc : Elem → ℚ) (one : Rat) (e : Elem) : ℚ⟦X⟧ := C (sc e) * P one e
noncomputable def Msc (sc : Elem → ℚ) (one : Rat) (e : Elem) : ℚ⟦X⟧ := C (sc e) * M one e

/-- the closed forms evaluated on the scaled element series -/
noncomputable def probSeriesSc (sc : Elem → ℚ) (one : Rat) (c : List (Elem × Nat)) : ℚ⟦X⟧ :=
  probOf (Psc sc one) c
noncomputable def masswSeriesSc (sc : Elem → ℚ) (one : Rat) (c : List (Elem × Nat)) : ℚ⟦X⟧ :=
  masswOf (Psc sc one) (Msc sc one) c

theorem probSeries_eq_probOf (one : Rat) (c : List (Elem × Nat)) :
    probSeries one c = probOf (P one) c := rfl

theorem masswSeries_eq_masswOf (one : Rat) (c : List (Elem × Nat)) :
    masswSeries one c = masswOf (P one) (M one) c := rfl

theorem scaleConst_cons (sc : Elem → ℚ) (x : Elem × Nat) (c : List (Elem × Nat)) :
    scaleConst sc (x :: c) = sc x.1 ^ x.2 * scaleConst sc c := by
  unfold scaleConst
  rw [List.map_cons, List.prod_cons]

theorem scaleConst_ne_zero (sc : Elem → ℚ) (c : List (Elem × Nat)) (h : ∀ x ∈ c, sc x.1 ≠ 0) :
    scaleConst sc c ≠ 0 := by
  induction c with
  | nil => simp [scaleConst]
  | cons x c ih =>
    rw [scaleConst_cons]
    exact mul_ne_zero (pow_ne_zero _ (h x List.mem_cons_self))
      (ih fun y hy => h y (List.mem_cons_of_mem _ hy))

theorem probOf_cons (Pf : Elem → ℚ⟦X⟧) (x : Elem × Nat) (c : List (Elem × Nat)) :
    probOf Pf (x :: c) = Pf x.1 ^ x.2 * probOf Pf c := by
  unfold probOf
  rw [List.map_cons, List.prod_cons]

theorem masswOf_cons (Pf Mf : Elem → ℚ⟦X⟧) (x : Elem × Nat) (c : List (Elem × Nat)) :
    masswOf Pf Mf (x :: c) =
      (x.2 : ℚ⟦X⟧) * Pf x.1 ^ (x.2 - 1) * Mf x.1 * probOf Pf c +
        Pf x.1 ^ x.2 * masswOf Pf Mf c := by
  unfold masswOf
  rw [List.zipIdx_cons, List.zipIdx_succ, List.map_cons, List.sum_cons, List.map_map,
    ← List.sum_map_mul_left]
  dsimp only [Function.comp, List.eraseIdx_cons_zero, List.eraseIdx_cons_succ]
  congr 2
  apply List.map_congr_left
  intro p _
  unfold probOf
  simp only [Function.comp_apply, List.eraseIdx_cons_succ, List.map_cons, List.prod_cons]
  ring

/-- the product step / general statement for `prob`: scaling every `P_e` by `sc_e` multiplies
    `Π P_e^{n_e}` by `Π sc_e^{n_e}` -/
theorem probOf_scale (sc : Elem → ℚ) (Pf : Elem → ℚ⟦X⟧) (c : List (Elem × Nat)) :
    probOf (fun e => C (sc e) * Pf e) c = C (scaleConst sc c) * probOf Pf c := by
  induction c with
  | nil => simp [probOf, scaleConst]
  | cons x c ih =>
    rw [probOf_cons, probOf_cons, scaleConst_cons, ih, mul_pow, map_mul, map_pow]
    ring

/-- the same for `massw`: scaling every `(P_e, M_e)` by `sc_e` multiplies the mass-weighted closed
    form by the SAME constant `Π sc_e^{n_e}` -/
theorem masswOf_scale (sc : Elem → ℚ) (Pf Mf : Elem → ℚ⟦X⟧) (c : List (Elem × Nat)) :
    masswOf (fun e => C (sc e) * Pf e) (fun e => C (sc e) * Mf e) c =
      C (scaleConst sc c) * masswOf Pf Mf c := by
  induction c with
  | nil => simp [masswOf]
  | cons x c ih =>
    rw [masswOf_cons, masswOf_cons, scaleConst_cons, ih, probOf_scale, map_mul, map_pow]
    obtain ⟨e, n⟩ := x
    cases n with
    | zero => simp
    | succ k =>
      simp only [Nat.add_sub_cancel]
      ring

/-- both closed forms of Props/C03Series.lean are multiplied by the same constant -/
theorem probSeriesSc_eq (sc : Elem → ℚ) (one : Rat) (c : List (Elem × Nat)) :
    probSeriesSc sc one c = C (scaleConst sc c) * probSeries one c :=
  probOf_scale sc (P one) c

theorem masswSeriesSc_eq (sc : Elem → ℚ) (one : Rat) (c : List (Elem × Nat)) :
    masswSeriesSc sc one c = C (scaleConst sc c) * masswSeries one c :=
  masswOf_scale sc (P one) (M one) c

theorem coeff_probSeriesSc (sc : Elem → ℚ) (one : Rat) (c : List (Elem × Nat)) (j : Nat) :
    coeff j (probSeriesSc sc one c) = scaleConst sc c * coeff j (probSeries one c) := by
  rw [probSeriesSc_eq, coeff_C_mul]

theorem coeff_masswSeriesSc (sc : Elem → ℚ) (one : Rat) (c : List (Elem × Nat)) (j : Nat) :
    coeff j (masswSeriesSc sc one c) = scaleConst sc c * coeff j (masswSeries one c) := by
  rw [masswSeriesSc_eq, coeff_C_mul]

/-- (ii) the average mass of peak `j` is unchanged by the scaling -/
theorem mass_quotient_scale_invariant (sc : Elem → ℚ) (one : Rat) (c : List (Elem × Nat))
    (hsc : ∀ x ∈ c, sc x.1 ≠ 0) (j : Nat) :
    coeff j (masswSeriesSc sc one c) / coeff j (probSeriesSc sc one c) =
      coeff j (masswSeries one c) / coeff j (probSeries one c) := by
  rw [coeff_masswSeriesSc, coeff_probSeriesSc]
  exact mul_div_mul_left _ _ (scaleConst_ne_zero sc c hsc)

/-- (i) every ratio of two probabilities is unchanged by the scaling -/
theorem prob_ratio_scale_invariant (sc : Elem → ℚ) (one : Rat) (c : List (Elem × Nat))
    (hsc : ∀ x ∈ c, sc x.1 ≠ 0) (j k : Nat) :
    coeff j (probSeriesSc sc one c) / coeff k (probSeriesSc sc one c) =
      coeff j (probSeries one c) / coeff k (probSeries one c) := by
  rw [coeff_probSeriesSc, coeff_probSeriesSc]
  exact mul_div_mul_left _ _ (scaleConst_ne_zero sc c hsc)

/-- (i′) the normalised form the oracle actually uses: `prob_j / Σ_{k ∈ ks} prob_k` -/
theorem prob_normalised_scale_invariant (sc : Elem → ℚ) (one : Rat) (c : List (Elem × Nat))
    (hsc : ∀ x ∈ c, sc x.1 ≠ 0) (j : Nat) (ks : List Nat) :
    coeff j (probSeriesSc sc one c) / (ks.map fun k => coeff k (probSeriesSc sc one c)).sum =
      coeff j (probSeries one c) / (ks.map fun k => coeff k (probSeries one c)).sum := by
  have h : (ks.map fun k => coeff k (probSeriesSc sc one c)).sum =
      scaleConst sc c * (ks.map fun k => coeff k (probSeries one c)).sum := by
    rw [← List.sum_map_mul_left]
    refine congrArg List.sum (List.map_congr_left fun k _ => ?_)
    exact coeff_probSeriesSc sc one c k
  rw [h, coeff_probSeriesSc]
  exact mul_div_mul_left _ _ (scaleConst_ne_zero sc c hsc)

/-- combined with `aggProb_closed` / `aggMass_closed`: the specification's quotient
    `aggMass_j / aggProb_j` is the quotient of the SCALED oracle series -/
theorem spec_mass_quotient_scaled (sc : Elem → ℚ) (one : Rat) (c : List (Elem × Nat))
    (hsc : ∀ x ∈ c, sc x.1 ≠ 0) (d j : Nat) (hj : j ≤ d) :
    (Spec.aggMass c one d).getD j 0 / (Spec.aggProb c one d).getD j 0 =
      coeff j (masswSeriesSc sc one c) / coeff j (probSeriesSc sc one c) := by
  rw [aggMass_closed c one d j hj, aggProb_closed c one d j hj,
    mass_quotient_scale_invariant sc one c hsc j]

/-- single element: `prob' = c^n · P^n`, `massw' = c^n · n P^(n−1) M` -/
theorem single_scale (sc : Elem → ℚ) (one : Rat) (e : Elem) (n : Nat) :
    probSeriesSc sc one [(e, n)] = C (sc e ^ n) * P one e ^ n ∧
    masswSeriesSc sc one [(e, n)] = C (sc e ^ n) * ((n : ℚ⟦X⟧) * P one e ^ (n - 1) * M one e) := by
  have hK : scaleConst sc [(e, n)] = sc e ^ n := by simp [scaleConst]
  rw [probSeriesSc_eq, masswSeriesSc_eq, hK, (single one e n).1, (single one e n).2]
  exact ⟨rfl, rfl⟩

end C03Series
end Chem

