import ChemProofs.Lemmas.BrainSpecMass
/-
C03 — the closed form of the probability series and of the mass-weighted series used by the python
oracle is what `Spec.aggProb` / `Spec.aggMass` define.

Built on `coeff_toPS_aggProb` (Lemmas/BrainSpecPS.lean) and `coeff_toPS_aggMass'`
(Lemmas/BrainSpecMass.lean), which bridge the truncated list arithmetic of the specification to
`PowerSeries ℚ`.
-/
namespace Chem
namespace C03Series
open PowerSeries

/-! ## 1. the element series -/

/-- `Pₑ` : probability series of one atom of `e` (the spec's coefficient list, as a power series) -/
noncomputable def P (one : Rat) (e : Elem) : ℚ⟦X⟧ := toPS (Spec.elemPoly e one false)

/-- `Mₑ` : mass-weighted series of one atom of `e` -/
noncomputable def M (one : Rat) (e : Elem) : ℚ⟦X⟧ := toPS (Spec.elemPoly e one true)

/-- `Π_e P_e^{n_e}` -/
noncomputable def probSeries (one : Rat) (c : List (Elem × Nat)) : ℚ⟦X⟧ :=
  (c.map fun x => P one x.1 ^ x.2).prod

/-- `Σ_e n_e · P_e^{n_e−1} · M_e · Π_{e'≠e} P_{e'}^{n_{e'}}`; the sum runs over the positions of the
    composition, "the other elements" are the list with that position erased -/
noncomputable def masswSeries (one : Rat) (c : List (Elem × Nat)) : ℚ⟦X⟧ :=
  (c.zipIdx.map fun (p : (Elem × Nat) × Nat) =>
    (p.1.2 : ℚ⟦X⟧) * P one p.1.1 ^ (p.1.2 - 1) * M one p.1.1 * probSeries one (c.eraseIdx p.2)).sum

/-! ## 2. the specification equals the closed form, coefficient by coefficient -/

/-- (1) -/
theorem aggProb_closed (c : List (Elem × Nat)) (one : Rat) (d j : Nat) (hj : j ≤ d) :
    (Spec.aggProb c one d).getD j 0 = coeff j (probSeries one c) := by
  rw [← coeff_toPS, coeff_toPS_aggProb c one d j hj]
  rfl

/-- (2) -/
theorem aggMass_closed (c : List (Elem × Nat)) (one : Rat) (d j : Nat) (hj : j ≤ d) :
    (Spec.aggMass c one d).getD j 0 = coeff j (masswSeries one c) := by
  rw [← coeff_toPS, coeff_toPS_aggMass' c one d j hj]
  unfold masswSeries
  rw [map_list_sum, List.map_map]
  refine congrArg List.sum (List.map_congr_left ?_)
  intro p _
  dsimp only [Function.comp]
  have hcast : ((p.1.2 : ℕ) : ℚ⟦X⟧) = C ((p.1.2 : ℕ) : ℚ) := (map_natCast (C (R := ℚ)) _).symm
  by_cases hp : p.1.2 = 0
  · rw [if_pos hp, hp, Nat.cast_zero, zero_mul, zero_mul, zero_mul, map_zero]
  · rw [if_neg hp, hcast, mul_assoc (C _), mul_assoc (C _), coeff_C_mul]
    unfold probSeries P M
    congr 2
    ring

/-! ## 3. the closed form is the n-fold product: one factor per ATOM

`leib l` for a list of pairs `(Pₐ, Mₐ)` is `Σ_a M_a · Π_{b ≠ a} P_b` (Leibniz-style sum). -/

noncomputable def leib : List (ℚ⟦X⟧ × ℚ⟦X⟧) → ℚ⟦X⟧
  | [] => 0
  | x :: l => x.2 * (l.map Prod.fst).prod + x.1 * leib l

/-- `leib` really is the sum, over positions, of the `M` of that position times the `P` of all the
    other positions -/
theorem leib_eq_sum (l : List (ℚ⟦X⟧ × ℚ⟦X⟧)) :
    leib l = (l.zipIdx.map fun p => p.1.2 * ((l.eraseIdx p.2).map Prod.fst).prod).sum := by
  induction l with
  | nil => rfl
  | cons x l ih =>
    rw [leib, ih, List.zipIdx_cons, List.zipIdx_succ, List.map_cons, List.sum_cons, List.map_map,
      ← List.sum_map_mul_left]
    dsimp only [Function.comp, List.eraseIdx_cons_zero, List.eraseIdx_cons_succ]
    congr 2
    apply List.map_congr_left
    intro p _
    simp only [Function.comp_apply, List.eraseIdx_cons_succ, List.map_cons, List.prod_cons]
    ring

/-- the two-factor product rule -/
theorem leib_append (l₁ l₂ : List (ℚ⟦X⟧ × ℚ⟦X⟧)) :
    leib (l₁ ++ l₂) =
      leib l₁ * (l₂.map Prod.fst).prod + (l₁.map Prod.fst).prod * leib l₂ := by
  induction l₁ with
  | nil => simp [leib]
  | cons x l ih =>
    rw [List.cons_append, leib, leib, ih, List.map_append, List.prod_append, List.map_cons,
      List.prod_cons]
    ring

/-- `n` equal factors: `n · P^(n−1) · M` -/
theorem leib_replicate (n : Nat) (p m : ℚ⟦X⟧) :
    leib (List.replicate n (p, m)) = (n : ℚ⟦X⟧) * p ^ (n - 1) * m := by
  induction n with
  | zero => simp [leib]
  | succ n ih =>
    rw [List.replicate_succ, leib, ih, List.map_replicate, List.prod_replicate]
    cases n with
    | zero => simp
    | succ k =>
      simp only [Nat.add_sub_cancel, Nat.cast_add, Nat.cast_one]
      ring

theorem prod_replicate_fst (n : Nat) (p m : ℚ⟦X⟧) :
    ((List.replicate n (p, m)).map Prod.fst).prod = p ^ n := by
  rw [List.map_replicate, List.prod_replicate]

/-- the atoms of a composition, one entry per atom -/
def atoms (c : List (Elem × Nat)) : List Elem := c.flatMap fun x => List.replicate x.2 x.1

/-- the `(P, M)` pair of every atom -/
noncomputable def atomPairs (one : Rat) (c : List (Elem × Nat)) : List (ℚ⟦X⟧ × ℚ⟦X⟧) :=
  (atoms c).map fun e => (P one e, M one e)

theorem atomPairs_cons (one : Rat) (x : Elem × Nat) (c : List (Elem × Nat)) :
    atomPairs one (x :: c) = List.replicate x.2 (P one x.1, M one x.1) ++ atomPairs one c := by
  unfold atomPairs atoms
  rw [List.flatMap_cons, List.map_append, List.map_replicate]

/-- `Π_e P_e^{n_e}` is the product of one `P` per atom -/
theorem probSeries_eq_atoms (one : Rat) (c : List (Elem × Nat)) :
    probSeries one c = ((atomPairs one c).map Prod.fst).prod := by
  induction c with
  | nil => rfl
  | cons x c ih =>
    rw [atomPairs_cons, List.map_append, List.prod_append, prod_replicate_fst, ← ih]
    unfold probSeries
    rw [List.map_cons, List.prod_cons]

theorem masswSeries_cons (one : Rat) (x : Elem × Nat) (c : List (Elem × Nat)) :
    masswSeries one (x :: c) =
      (x.2 : ℚ⟦X⟧) * P one x.1 ^ (x.2 - 1) * M one x.1 * probSeries one c +
        P one x.1 ^ x.2 * masswSeries one c := by
  unfold masswSeries
  rw [List.zipIdx_cons, List.zipIdx_succ, List.map_cons, List.sum_cons, List.map_map,
    ← List.sum_map_mul_left]
  dsimp only [Function.comp, List.eraseIdx_cons_zero, List.eraseIdx_cons_succ]
  congr 2
  apply List.map_congr_left
  intro p _
  unfold probSeries
  simp only [Function.comp_apply, List.eraseIdx_cons_succ, List.map_cons, List.prod_cons]
  ring

/-- the closed form of the mass-weighted series is the Leibniz sum over all atoms -/
theorem masswSeries_eq_atoms (one : Rat) (c : List (Elem × Nat)) :
    masswSeries one c = leib (atomPairs one c) := by
  induction c with
  | nil => rfl
  | cons x c ih =>
    rw [masswSeries_cons, atomPairs_cons, leib_append, leib_replicate, prod_replicate_fst, ← ih,
      ← probSeries_eq_atoms]

/-- single element: `prob = P^n`, `massw = n · P^(n−1) · M` -/
theorem single (one : Rat) (e : Elem) (n : Nat) :
    probSeries one [(e, n)] = P one e ^ n ∧
    masswSeries one [(e, n)] = (n : ℚ⟦X⟧) * P one e ^ (n - 1) * M one e := by
  constructor
  · simp [probSeries]
  · rw [masswSeries_cons]
    simp [masswSeries, probSeries]

/-! ## 4. the element series are the isotope sums `Σ aᵢ x^(shiftᵢ − lo)` and `Σ aᵢ mᵢ x^(shiftᵢ − lo)` -/

/-- the lowest shift, as the specification computes it -/
def lo (e : Elem) : Int := (e.isos.map (·.shift)).foldl min 0

/-- the coefficient an isotope contributes: `aᵢ` or `mᵢ · aᵢ` (both in units of `one`) -/
def isoCoeff (one : Rat) (withMass : Bool) (i : Iso) : Rat :=
  (if withMass then (i.mass : Rat) / one else 1) * ((i.abund : Rat) / one)

/-- `Σ_iso coeff · x^(shift − lo)` -/
noncomputable def isoSeries (one : Rat) (e : Elem) (withMass : Bool) : ℚ⟦X⟧ :=
  (e.isos.map fun i => C (isoCoeff one withMass i) * X ^ (i.shift - lo e).toNat).sum

theorem foldl_min_le (l : List Int) (a : Int) :
    l.foldl min a ≤ a ∧ ∀ x ∈ l, l.foldl min a ≤ x := by
  induction l generalizing a with
  | nil => exact ⟨le_refl _, fun _ h => absurd h List.not_mem_nil⟩
  | cons b l ih =>
    rw [List.foldl_cons]
    obtain ⟨h1, h2⟩ := ih (min a b)
    refine ⟨le_trans h1 (min_le_left _ _), fun x hx => ?_⟩
    rcases List.mem_cons.1 hx with rfl | hx
    · exact le_trans h1 (min_le_right _ _)
    · exact h2 x hx

theorem le_foldl_max (l : List Int) (a : Int) :
    a ≤ l.foldl max a ∧ ∀ x ∈ l, x ≤ l.foldl max a := by
  induction l generalizing a with
  | nil => exact ⟨le_refl _, fun _ h => absurd h List.not_mem_nil⟩
  | cons b l ih =>
    rw [List.foldl_cons]
    obtain ⟨h1, h2⟩ := ih (max a b)
    refine ⟨le_trans (le_max_left _ _) h1, fun x hx => ?_⟩
    rcases List.mem_cons.1 hx with rfl | hx
    · exact le_trans (le_max_right _ _) h1
    · exact h2 x hx

theorem find_eq_sum (l : List Iso) (s : Int) (f : Iso → Rat)
    (hnd : l.Pairwise (fun a b => a.shift ≠ b.shift)) :
    (match l.find? (fun i => i.shift == s) with
      | some i => f i
      | none => 0) = (l.map fun i => if i.shift = s then f i else 0).sum := by
  induction l with
  | nil => rfl
  | cons a l ih =>
    rw [List.pairwise_cons] at hnd
    rw [List.map_cons, List.sum_cons, List.find?_cons]
    by_cases ha : a.shift = s
    · have hz : (l.map fun i => if i.shift = s then f i else 0).sum = 0 := by
        apply List.sum_eq_zero
        intro x hx
        obtain ⟨i, hi, rfl⟩ := List.mem_map.1 hx
        rw [if_neg]
        intro h
        exact hnd.1 i hi (ha.trans h.symm)
      have hb : (a.shift == s) = true := by simpa using ha
      rw [hb, if_pos ha, hz, add_zero]
    · have hb : (a.shift == s) = false := by simpa using ha
      rw [hb, if_neg ha, zero_add]
      exact ih hnd.2

/-- the specification's coefficient list of an element IS the isotope sum, provided no two
    isotopes of the element have the same shift -/
theorem elemPoly_eq_isoSeries (e : Elem) (one : Rat) (wm : Bool)
    (hnd : e.isos.Pairwise (fun a b => a.shift ≠ b.shift)) :
    toPS (Spec.elemPoly e one wm) = isoSeries one e wm := by
  ext k
  rw [coeff_toPS]
  unfold isoSeries
  rw [map_list_sum, List.map_map]
  have hlo := (foldl_min_le (e.isos.map (·.shift)) 0).2
  have hhi := (le_foldl_max (e.isos.map (·.shift)) 0).2
  unfold Spec.elemPoly
  simp only [List.getD_eq_getElem?_getD, List.getElem?_map]
  unfold lo
  generalize List.foldl max 0 (List.map (fun x => x.shift) e.isos) = hi at hhi ⊢
  generalize List.foldl min 0 (List.map (fun x => x.shift) e.isos) = lo at hlo ⊢
  have hlo' : ∀ i ∈ e.isos, lo ≤ i.shift := fun i hi => hlo _ (List.mem_map.2 ⟨i, hi, rfl⟩)
  have hhi' : ∀ i ∈ e.isos, i.shift ≤ hi := fun i h => hhi _ (List.mem_map.2 ⟨i, h, rfl⟩)
  by_cases hk : k < (hi - lo).toNat + 1
  · rw [List.getElem?_range hk]
    simp only [Option.map_some, Option.getD_some]
    have h := find_eq_sum e.isos (lo + Int.ofNat k) (isoCoeff one wm) hnd
    unfold isoCoeff at h ⊢
    refine Eq.trans h (congrArg List.sum (List.map_congr_left ?_))
    intro i hi
    dsimp only [Function.comp]
    rw [coeff_C_mul, coeff_X_pow]
    have := hlo' i hi
    generalize (if wm = true then (i.mass : Rat) / one else 1) * ((i.abund : Rat) / one) = cf
    by_cases hs : i.shift = lo + Int.ofNat k
    · have hk' : k = (i.shift - lo).toNat := by rw [hs]; simp
      rw [if_pos hs, if_pos hk', mul_one]
    · have hk' : ¬ k = (i.shift - lo).toNat := by
        intro hk'
        apply hs
        simp only [Int.ofNat_eq_natCast]
        omega
      rw [if_neg hs, if_neg hk', mul_zero]
  · rw [List.getElem?_eq_none (by simpa using hk)]
    simp only [Option.map_none, Option.getD_none]
    symm
    apply List.sum_eq_zero
    intro x hx
    obtain ⟨i, hi, rfl⟩ := List.mem_map.1 hx
    dsimp only [Function.comp]
    rw [coeff_C_mul, coeff_X_pow, if_neg, mul_zero]
    have := hlo' i hi
    have := hhi' i hi
    omega

/-- `Pₑ = Σ aᵢ x^(shiftᵢ − lo)` -/
theorem P_eq_isoSeries (one : Rat) (e : Elem)
    (hnd : e.isos.Pairwise (fun a b => a.shift ≠ b.shift)) : P one e = isoSeries one e false :=
  elemPoly_eq_isoSeries e one false hnd

/-- `Mₑ = Σ aᵢ mᵢ x^(shiftᵢ − lo)` -/
theorem M_eq_isoSeries (one : Rat) (e : Elem)
    (hnd : e.isos.Pairwise (fun a b => a.shift ≠ b.shift)) : M one e = isoSeries one e true :=
  elemPoly_eq_isoSeries e one true hnd

/-! ## 5. the final statement, entirely in terms of the isotope sums (what the oracle computes) -/

/-- `Π_e P_e^{n_e}` for an arbitrary assignment of series to elements -/
noncomputable def probOf (Pf : Elem → ℚ⟦X⟧) (c : List (Elem × Nat)) : ℚ⟦X⟧ :=
  (c.map fun x => Pf x.1 ^ x.2).prod

/-- `Σ_e n_e · P_e^{n_e−1} · M_e · Π_{e'≠e} P_{e'}^{n_{e'}}` for arbitrary series -/
noncomputable def masswOf (Pf Mf : Elem → ℚ⟦X⟧) (c : List (Elem × Nat)) : ℚ⟦X⟧ :=
  (c.zipIdx.map fun (p : (Elem × Nat) × Nat) =>
    (p.1.2 : ℚ⟦X⟧) * Pf p.1.1 ^ (p.1.2 - 1) * Mf p.1.1 * probOf Pf (c.eraseIdx p.2)).sum

theorem probOf_congr {Pf Pf' : Elem → ℚ⟦X⟧} (c : List (Elem × Nat))
    (h : ∀ x ∈ c, Pf x.1 = Pf' x.1) : probOf Pf c = probOf Pf' c := by
  unfold probOf
  refine congrArg List.prod (List.map_congr_left ?_)
  intro x hx
  rw [h x hx]

theorem masswOf_congr {Pf Pf' Mf Mf' : Elem → ℚ⟦X⟧} (c : List (Elem × Nat))
    (hP : ∀ x ∈ c, Pf x.1 = Pf' x.1) (hM : ∀ x ∈ c, Mf x.1 = Mf' x.1) :
    masswOf Pf Mf c = masswOf Pf' Mf' c := by
  unfold masswOf
  refine congrArg List.sum (List.map_congr_left ?_)
  intro p hp
  have hp' : p.1 ∈ c := List.fst_mem_of_mem_zipIdx (x := (p.1, p.2)) hp
  rw [hP p.1 hp', hM p.1 hp',
    probOf_congr (c.eraseIdx p.2) fun x hx => hP x (List.mem_of_mem_eraseIdx hx)]

/-- MAIN: for a composition whose elements have pairwise distinct isotope shifts, and every
    `j ≤ d`, the specification's `aggProb` / `aggMass` at `j` are the `j`-th coefficients of the
    oracle's closed forms built from `P_e = Σ aᵢ x^(shiftᵢ−lo)`, `M_e = Σ aᵢ mᵢ x^(shiftᵢ−lo)`. -/
theorem closed_form (c : List (Elem × Nat)) (one : Rat)
    (hnd : ∀ x ∈ c, x.1.isos.Pairwise (fun a b => a.shift ≠ b.shift)) (d j : Nat) (hj : j ≤ d) :
    (Spec.aggProb c one d).getD j 0 =
      coeff j (probOf (fun e => isoSeries one e false) c) ∧
    (Spec.aggMass c one d).getD j 0 =
      coeff j (masswOf (fun e => isoSeries one e false) (fun e => isoSeries one e true) c) := by
  have hP : ∀ x ∈ c, P one x.1 = (fun e => isoSeries one e false) x.1 :=
    fun x hx => P_eq_isoSeries one x.1 (hnd x hx)
  have hM : ∀ x ∈ c, M one x.1 = (fun e => isoSeries one e true) x.1 :=
    fun x hx => M_eq_isoSeries one x.1 (hnd x hx)
  refine ⟨?_, ?_⟩
  · rw [aggProb_closed c one d j hj, ← probOf_congr c hP]
    rfl
  · rw [aggMass_closed c one d j hj, ← masswOf_congr c hP hM]
    rfl

/-- the distinct-shift hypothesis holds for every element in the BRAIN domain `Dom` -/
theorem shifts_distinct_of_dom {e : Elem} (h : Dom e) :
    e.isos.Pairwise (fun a b => a.shift ≠ b.shift) := by
  rw [List.pairwise_iff_getElem]
  intro i j hi hj hij
  rw [h.shift i hi, h.shift j hj]
  omega

theorem closed_form_dom (c : List (Elem × Nat)) (one : Rat) (hdom : ∀ x ∈ c, Dom x.1)
    (d j : Nat) (hj : j ≤ d) :
    (Spec.aggProb c one d).getD j 0 =
      coeff j (probOf (fun e => isoSeries one e false) c) ∧
    (Spec.aggMass c one d).getD j 0 =
      coeff j (masswOf (fun e => isoSeries one e false) (fun e => isoSeries one e true) c) :=
  closed_form c one (fun x hx => shifts_distinct_of_dom (hdom x hx)) d j hj

end C03Series
end Chem
