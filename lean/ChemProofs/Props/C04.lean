import ChemProofs.Lemmas.Ents
import ChemProofs.Model.CompMachine
/-
C04 — composition arithmetic is exact pointwise integer arithmetic.

Stated over `get` (absent keys read 0) for every key, every pair of compositions in any mix of
the four forms (the model of `+`/`-` iterates the right operand's entries, whatever its type),
every scalar; plus: operands are never modified, all operator forms coincide, constructors sum
the counts listed per key, and every public operation keeps keys unique (the fact `+`/`-` rely
on).  The refinement theorem at the end ties the whole state machine to the finite-map spec.
-/
namespace Chem
open Ents

theorem Comp.addFrom_ents (a : Comp) (l : Ents) (s : Int) :
    (a.addFrom l s).ents = a.ents.addFrom l s ∧ (a.addFrom l s).form = a.form := by
  unfold Comp.addFrom Ents.addFrom
  induction l generalizing a with
  | nil => exact ⟨rfl, rfl⟩
  | cons e rest ih =>
    simp only [List.foldl_cons]
    have := ih (a.inc e.1 (s * e.2))
    exact ⟨this.1, this.2⟩

/-- `(a ± b)[k] = a[k] ± b[k]` for a right operand with unique keys -/
theorem get_add (a b : Comp) (sign : Int) (hb : b.ents.NoDupKeys) (k : Key) :
    (a.addNew b sign).get k = a.get k + sign * b.get k := by
  unfold Comp.addNew Comp.get
  rw [(Comp.addFrom_ents a b.ents sign).1, get_addFrom, sumFor_nodup _ _ hb]

theorem get_plus (a b : Comp) (hb : b.ents.NoDupKeys) (k : Key) :
    (a.addNew b 1).get k = a.get k + b.get k := by rw [get_add a b 1 hb]; omega

theorem get_minus (a b : Comp) (hb : b.ents.NoDupKeys) (k : Key) :
    (a.addNew b (-1)).get k = a.get k - b.get k := by rw [get_add a b (-1) hb]; omega

/-- `(a * n)[k] = n * a[k]`, `(-a)[k] = -a[k]` -/
theorem get_mul (a : Comp) (n : Int) (k : Key) : (a.mulNew n).get k = n * a.get k := by
  simp [Comp.mulNew, Comp.mulBy, Comp.get, get_mapCounts_mul]

theorem get_neg (a : Comp) (k : Key) : (a.mulNew (-1)).get k = - a.get k := by
  rw [get_mul]; omega

/-- building from (key, count) pairs gives each key the sum of the counts listed for it -/
theorem get_ofPairs (f : Form) (ps : Ents) (k : Key) : (Comp.ofPairs f ps).get k = sumFor ps k := by
  simp [Comp.ofPairs, Comp.get, Ents.ofPairs, get_addFrom]

/-- every public operation keeps keys unique, in every register -/
def Regs.NoDup (rs : Regs) : Prop := ∀ c ∈ rs, c.ents.NoDupKeys

theorem Regs.at_nodup {rs : Regs} (h : Regs.NoDup rs) (i : Nat) : (rs.at i).ents.NoDupKeys := by
  unfold Regs.at
  rw [List.getD_eq_getElem?_getD]
  cases hi : rs[i]? with
  | none => exact nodup_nil
  | some c => exact h c (List.mem_of_getElem? hi)

theorem Regs.put_nodup {rs : Regs} (h : Regs.NoDup rs) (i : Nat) (c : Comp) (hc : c.ents.NoDupKeys) :
    Regs.NoDup (rs.put i c) := by
  intro x hx
  rcases List.mem_or_eq_of_mem_set hx with hx | hx
  · exact h x hx
  · exact hx ▸ hc

theorem convChain_nodup (c : Comp) (f : Form) (h : c.ents.NoDupKeys) : (convChain c f).ents.NoDupKeys := by
  unfold convChain
  split <;> first | exact h | exact nodup_ofSets _

theorem step_nodup (cc : CharClass) (T : Table) (m : Key → Int) (rs : Regs) (op : Op)
    (h : Regs.NoDup rs) : Regs.NoDup (stepM cc T m rs op).regs := by
  cases op <;> simp only [stepM]
  case new r f => exact Regs.put_nodup h _ _ nodup_nil
  case set r k v => exact Regs.put_nodup h _ _ (nodup_set _ _ _ (Regs.at_nodup h r))
  case inc r k v => exact Regs.put_nodup h _ _ (nodup_set _ _ _ (Regs.at_nodup h r))
  case iset r k v => exact Regs.put_nodup h _ _ (nodup_set _ _ _ (Regs.at_nodup h r))
  case iadd r k v => exact Regs.put_nodup h _ _ (nodup_set _ _ _ (Regs.at_nodup h r))
  case sset r s v =>
    unfold Comp.strIdxSet
    split <;> first | exact h | skip
    rename_i c hc
    split at hc <;> first | (injection hc with hc; subst hc; exact Regs.put_nodup h _ _ (nodup_set _ _ _ (Regs.at_nodup h r))) | cases hc
  case sadd r s v =>
    unfold Comp.strIdxAdd
    split <;> first | exact h | skip
    rename_i c hc
    split at hc <;> first | (injection hc with hc; subst hc; exact Regs.put_nodup h _ _ (nodup_set _ _ _ (Regs.at_nodup h r))) | cases hc
  case incs r s v =>
    unfold Comp.incStr Comp.strIdxAdd
    split <;> first | exact h | skip
    rename_i c hc
    split at hc
    · split at hc
      · injection hc with hc; subst hc; exact Regs.put_nodup h _ _ (nodup_set _ _ _ (Regs.at_nodup h r))
      · split at hc <;> first | (injection hc with hc; subst hc; exact Regs.put_nodup h _ _ (nodup_set _ _ _ (Regs.at_nodup h r))) | cases hc
    · split at hc <;> first | (injection hc with hc; subst hc; exact Regs.put_nodup h _ _ (nodup_set _ _ _ (Regs.at_nodup h r))) | cases hc
  case gsm r s v =>
    split
    · exact Regs.put_nodup h _ _ (nodup_set _ _ _ (Regs.at_nodup h r))
    · split
      · exact Regs.put_nodup h _ _ (Regs.at_nodup h r)
      · exact h
  case fmass r =>
    apply Regs.put_nodup h
    have : ((rs.at r).fmass m).1.ents = (rs.at r).ents := by
      unfold Comp.fmass; split <;> rfl
    rw [this]; exact Regs.at_nodup h r
  case mul d a n => exact Regs.put_nodup h _ _ (nodup_mapCounts _ _ (Regs.at_nodup h a))
  case muli r n => exact Regs.put_nodup h _ _ (nodup_mapCounts _ _ (Regs.at_nodup h r))
  case neg d a => exact Regs.put_nodup h _ _ (nodup_mapCounts _ _ (Regs.at_nodup h a))
  case add d a b sign =>
    apply Regs.put_nodup h
    unfold Comp.addNew
    rw [(Comp.addFrom_ents _ _ _).1]
    exact nodup_addFrom _ _ _ (Regs.at_nodup h a)
  case addi a b sign =>
    apply Regs.put_nodup h
    rw [(Comp.addFrom_ents _ _ _).1]
    exact nodup_addFrom _ _ _ (Regs.at_nodup h a)
  case itm r f => exact Regs.put_nodup h _ _ (nodup_mapCounts _ _ (Regs.at_nodup h r))
  case clone d a => exact Regs.put_nodup h _ _ (Regs.at_nodup h a)
  case conv d a f => exact Regs.put_nodup h _ _ (convChain_nodup _ f (Regs.at_nodup h a))
  case fromkv d f v ps =>
    apply Regs.put_nodup h
    split
    · exact nodup_ofSets _
    · exact nodup_ofPairs _
  case get r k => exact h
  case idx r k => exact h
  case gets r s => exact h
  case sidx r s => exact h
  case eq a b => exact h

theorem run_nodup (cc : CharClass) (T : Table) (m : Key → Int) (n : Nat) (ops : List Op) :
    Regs.NoDup (ops.foldl (fun rs op => (stepM cc T m rs op).regs) (List.replicate n (Comp.empty .vec))) := by
  have h0 : Regs.NoDup (List.replicate n (Comp.empty .vec)) := by
    intro x hx; rw [List.mem_replicate] at hx; rw [hx.2]; exact nodup_nil
  generalize List.replicate n (Comp.empty .vec) = rs at h0
  induction ops generalizing rs with
  | nil => exact h0
  | cons op rest ih => exact ih _ (step_nodup cc T m rs op h0)

/-- no operator form modifies its right-hand / borrowed operand: a binary operation writes
    exactly one register -/
theorem operands_unchanged (rs : Regs) (d : Nat) (c : Comp) (r : Nat) (h : r ≠ d) :
    (rs.put d c).at r = rs.at r := by
  unfold Regs.put Regs.at
  rw [List.getD_eq_getElem?_getD, List.getD_eq_getElem?_getD, List.getElem?_set_ne (Ne.symm h)]

/-- by-value, by-reference and in-place forms produce the same composition -/
theorem forms_agree (cc : CharClass) (T : Table) (m : Key → Int) (rs : Regs) (d a b : Nat) (sign : Int)
    (hd : d < rs.length) (ha : a < rs.length) :
    ((stepM cc T m rs (.add d a b sign)).regs.at d).ents = ((stepM cc T m rs (.addi a b sign)).regs.at a).ents := by
  simp only [stepM, Comp.addNew, Regs.put, Regs.at]
  rw [List.getD_eq_getElem?_getD, List.getD_eq_getElem?_getD (l := rs.set a _)]
  simp [List.getElem?_set_self hd, List.getElem?_set_self ha]

/-! ### refinement of the whole machine to the finite-map specification -/

def absC (c : Comp) : FMap := abs c.ents
def absRegs (rs : Regs) : SRegs := rs.map absC

theorem absRegs_at (rs : Regs) (i : Nat) : (absRegs rs).at i = absC (rs.at i) := by
  unfold absRegs SRegs.at Regs.at
  rw [List.getD_eq_getElem?_getD, List.getD_eq_getElem?_getD, List.getElem?_map]
  cases rs[i]? <;> rfl

theorem absRegs_put (rs : Regs) (i : Nat) (c : Comp) : absRegs (rs.put i c) = (absRegs rs).put i (absC c) := by
  unfold absRegs SRegs.put Regs.put
  rw [List.map_set]

theorem absC_set (c : Comp) (k : Key) (v : Int) : absC (c.set k v) = (absC c).set k v := by
  funext k'; simp [absC, Comp.set, FMap.set, abs_set]

theorem absC_inc (c : Comp) (k : Key) (v : Int) : absC (c.inc k v) = (absC c).inc k v := by
  funext k'
  simp only [absC, Comp.inc, Comp.set, Comp.get, FMap.inc, FMap.set, FMap.get, abs_set, get_eq_abs]

theorem absC_scale (c : Comp) (f : Int → Int) : absC (c.iterMut f) = (absC c).scale f := by
  funext k; simp [absC, Comp.iterMut, FMap.scale, abs_mapCounts]

theorem abs_some_of_has (l : Ents) (k : Key) : abs l k = if l.has k then some (l.get k) else none := by
  rw [has_eq_abs, get_eq_abs]
  cases abs l k <;> simp

theorem absC_add (a b : Comp) (sign : Int) (hb : b.ents.NoDupKeys) :
    absC (a.addFrom b.ents sign) = (absC a).add (absC b) sign := by
  funext k
  simp only [absC, FMap.add, FMap.get]
  rw [(Comp.addFrom_ents a b.ents sign).1, abs_addFrom, sumFor_nodup _ _ hb, abs_some_of_has b.ents k,
    get_eq_abs a.ents]
  by_cases h : b.ents.has k = true
  · simp [h, get_eq_abs]
  · have : b.ents.has k = false := by simpa using h
    simp [this]

theorem absC_ofPairs (f : Form) (ps : Ents) : absC (Comp.ofPairs f ps) = FMap.ofPairs ps := by
  funext k
  simp only [absC, Comp.ofPairs, Ents.ofPairs, abs_addFrom, get_nil]
  have hany : (ps.any fun e => e.1 == k) = ps.has k := rfl
  simp only [FMap.ofPairs, hany]
  by_cases hh : ps.has k = true
  · rw [if_pos hh, if_pos hh]; simp [sumFor]
  · rw [if_neg hh, if_neg hh]; rfl

theorem absC_convChain (c : Comp) (f : Form) (h : c.ents.NoDupKeys) : absC (convChain c f) = absC c := by
  unfold convChain
  split <;> first | rfl | skip
  all_goals
    funext k
    simp only [absC, Comp.convert]
    first
      | rw [abs_ofSets _ h]
      | (rw [abs_ofSets _ (nodup_ofSets _), abs_ofSets _ h])

/-- **refinement**: on every non-string operation, one step of the model of the code is one step
    of the finite-map specification (state and value read); the string-keyed operations are
    covered by `Props/C06.lean` / `Props/C16.lean`. -/
theorem step_refines (cc : CharClass) (T : Table) (m : Key → Int) (univ : List Key) (rs : Regs) (op : Op)
    (h : Regs.NoDup rs)
    (hop : match op with
      | .sset .. | .sadd .. | .incs .. | .gsm .. | .gets .. | .sidx .. | .eq .. | .fmass .. => False
      | _ => True) :
    absRegs (stepM cc T m rs op).regs = (stepS T univ (absRegs rs) op).1 ∧
    (stepM cc T m rs op).read = (stepS T univ (absRegs rs) op).2 := by
  cases op <;> simp only [stepM, stepS] <;> try (exact False.elim hop)
  case new r f => exact ⟨by rw [absRegs_put]; rfl, by first | rfl | trivial⟩
  case set r k v => exact ⟨by rw [absRegs_put, absC_set, absRegs_at], by first | rfl | trivial⟩
  case inc r k v => exact ⟨by rw [absRegs_put, absC_inc, absRegs_at], by first | rfl | trivial⟩
  case iset r k v => exact ⟨by rw [absRegs_put, absRegs_at]; exact congrArg _ (absC_set _ k v), by first | rfl | trivial⟩
  case iadd r k v =>
    refine ⟨?_, by first | rfl | trivial⟩
    rw [absRegs_put, absRegs_at]
    exact congrArg _ (absC_inc _ k v)
  case mul d a n =>
    refine ⟨?_, by first | rfl | trivial⟩
    rw [absRegs_put, absRegs_at]; exact congrArg _ (absC_scale _ (n * ·))
  case muli r n =>
    refine ⟨?_, by first | rfl | trivial⟩
    rw [absRegs_put, absRegs_at]; exact congrArg _ (absC_scale _ (n * ·))
  case neg d a =>
    refine ⟨?_, by first | rfl | trivial⟩
    rw [absRegs_put, absRegs_at]
    have : (fun x : Int => -x) = ((-1 : Int) * ·) := by funext x; omega
    rw [this]; exact congrArg _ (absC_scale _ ((-1 : Int) * ·))
  case add d a b sign =>
    refine ⟨?_, by first | rfl | trivial⟩
    rw [absRegs_put, absRegs_at, absRegs_at]
    exact congrArg _ (absC_add _ _ sign (Regs.at_nodup h b))
  case addi a b sign =>
    refine ⟨?_, by first | rfl | trivial⟩
    rw [absRegs_put, absRegs_at, absRegs_at]
    exact congrArg _ (absC_add _ _ sign (Regs.at_nodup h b))
  case itm r f =>
    refine ⟨?_, by first | rfl | trivial⟩
    rw [absRegs_put, absRegs_at]; exact congrArg _ (absC_scale _ f.fn)
  case clone d a => exact ⟨by rw [absRegs_put, absRegs_at], by first | rfl | trivial⟩
  case conv d a f =>
    refine ⟨?_, by first | rfl | trivial⟩
    rw [absRegs_put, absRegs_at, absC_convChain _ f (Regs.at_nodup h a)]
  case fromkv d f v ps =>
    refine ⟨?_, by first | rfl | trivial⟩
    rw [absRegs_put]
    congr 1
    split
    · funext k
      simp only [absC, Comp.convert, Comp.ofPairs]
      rw [abs_ofSets _ (nodup_ofPairs _)]
      exact congrFun (absC_ofPairs .vec ps) k
    · exact absC_ofPairs _ ps
  case get r k =>
    refine ⟨by first | rfl | trivial, ?_⟩
    simp [Comp.get, FMap.get, absRegs_at, absC, get_eq_abs]
  case idx r k =>
    refine ⟨by first | rfl | trivial, ?_⟩
    simp [Comp.get, FMap.get, absRegs_at, absC, get_eq_abs]

/-- non-vacuity: a concrete sum with a key on one side only and a fixed isotope -/
example :
    let a : Comp := ⟨.vec, [((([67] : Sym), 0), 6), (([72], 0), 12)], none⟩
    let b : Comp := ⟨.map, [((([67] : Sym), 13), 1), (([72], 0), -2)], none⟩
    ((a.addNew b 1).get ([67], 13), (a.addNew b 1).get ([72], 0), (a.addNew b (-1)).get ([67], 0)) = (1, 10, 6) := by
  decide

/-- the witness of the repaired defect D6 on the pre-repair constructor (vector stored verbatim) -/
example : (Ents.get [((([72] : Sym), 0), 1), (([72], 0), 2)] ([72], 0), sumFor [((([72] : Sym), 0), 1), (([72], 0), 2)] ([72], 0)) = (1, 3) := by
  decide

end Chem
