/-
The i32 layer of C04.  The composition model (`Model/Comp.lean`) counts in unbounded `Int`; the real code counts in `i32`,
and C04 quantifies over operands "with magnitudes bounded so results fit in i32".  That is enough only if the code computes
no *intermediate* value that leaves i32 while the result fits.  This file lists, operator by operator, the values the code
computes for one key (read off `src/props.rs`, `src/composition_list.rs`, `src/composition_map.rs`) and proves which operators
have that property — and, by witness, which do not:

* `+`, `*`, unary `-`, `inc`: the only value computed is the result;
* `-` after commit 200fcbc (`count - other`): likewise.  Before it (`inc(k, -other)`): `-other` leaves i32 for
  `other = i32::MIN` while the difference fits — defect D31, found by asking this question, fixed;
* the (key, count) constructors fold the listed counts with `inc`: every running total is computed.  When the listed counts of
  a key have one sign the running totals are monotone and stay between 0 and the total; with mixed signs they can leave i32
  while the total fits — finding D32 (known, not repaired).
-/
namespace Chem

def InI32 (x : Int) : Prop := -2147483648 ≤ x ∧ x ≤ 2147483647

instance (x : Int) : Decidable (InI32 x) := by unfold InI32; exact inferInstance

/-- `inc`: `let i = self.get(k); self.set(k, i + count)` -/
def incValues (a c : Int) : List Int := [a + c]
/-- `a + b` per key of `b`: `inst.inc(k, v)` -/
def addValues (a b : Int) : List Int := incValues a b
/-- `a - b` per key of `b` (since 200fcbc): `let count = inst.get(k); inst.set(k, count - v)` -/
def subValues (a b : Int) : List Int := [a - b]
/-- `a - b` per key of `b` as it was: `inst.inc(k, -v)` -/
def subValuesOld (a b : Int) : List Int := (-b) :: incValues a (-b)
/-- `a * n`, `-a` per key: `*v *= scaler` (negation is `_mul_by(-1)`) -/
def mulValues (a n : Int) : List Int := [a * n]
/-- the constructors: one `inc` per listed count of the key, starting from an absent key (0) -/
def sumValues : Int → List Int → List Int
  | _, [] => []
  | acc, c :: cs => (acc + c) :: sumValues (acc + c) cs

theorem add_values_fit (a b : Int) (h : InI32 (a + b)) : ∀ x ∈ addValues a b, InI32 x := by
  intro x hx; simp [addValues, incValues] at hx; subst hx; exact h

theorem sub_values_fit (a b : Int) (h : InI32 (a - b)) : ∀ x ∈ subValues a b, InI32 x := by
  intro x hx; simp [subValues] at hx; subst hx; exact h

theorem mul_values_fit (a n : Int) (h : InI32 (a * n)) : ∀ x ∈ mulValues a n, InI32 x := by
  intro x hx; simp [mulValues] at hx; subst hx; exact h

/-- D31: operands and result in range, an intermediate value out of range -/
theorem subOld_overflows :
    ∃ a b, InI32 a ∧ InI32 b ∧ InI32 (a - b) ∧ ∃ x ∈ subValuesOld a b, ¬ InI32 x :=
  ⟨-5, -2147483648, by decide, by decide, by decide, 2147483648, by simp [subValuesOld], by decide⟩

/-- ... and this is the only way: the old form was safe whenever `b ≠ i32::MIN` -/
theorem subOld_fit_of_ne_min (a b : Int) (hb : InI32 b) (hne : b ≠ -2147483648) (h : InI32 (a - b)) :
    ∀ x ∈ subValuesOld a b, InI32 x := by
  intro x hx
  simp [subValuesOld, incValues] at hx
  unfold InI32 at *
  rcases hx with rfl | rfl <;> omega

theorem sumValues_last (acc : Int) (cs : List Int) (x : Int) (hx : x ∈ sumValues acc cs) :
    ∃ pre : List Int, pre ≠ [] ∧ (∃ suf, cs = pre ++ suf) ∧ x = acc + pre.foldl (· + ·) 0 := by
  induction cs generalizing acc with
  | nil => simp [sumValues] at hx
  | cons c cs ih =>
    simp only [sumValues, List.mem_cons] at hx
    rcases hx with rfl | hx
    · exact ⟨[c], by simp, ⟨cs, by simp⟩, by simp⟩
    · obtain ⟨pre, _, ⟨suf, hs⟩, he⟩ := ih (acc + c) hx
      refine ⟨c :: pre, by simp, ⟨suf, by simp [hs]⟩, ?_⟩
      have hf : ∀ (l : List Int) (s : Int), l.foldl (· + ·) s = s + l.foldl (· + ·) 0 := by
        intro l; induction l with
        | nil => intro s; simp
        | cons y ys ihy => intro s; simp only [List.foldl_cons]; rw [ihy (s + y), ihy (0 + y)]; omega
      simp only [List.foldl_cons]; rw [hf pre (0 + c)]; omega

/-- running totals of non-negative counts from a non-negative start are monotone: they lie between the start and the total -/
theorem sumValues_nonneg (acc : Int) (cs : List Int) (h0 : ∀ c ∈ cs, 0 ≤ c) :
    ∀ x ∈ sumValues acc cs, acc ≤ x ∧ x ≤ acc + cs.foldl (· + ·) 0 := by
  have hf : ∀ (l : List Int) (s : Int), l.foldl (· + ·) s = s + l.foldl (· + ·) 0 := by
    intro l; induction l with
    | nil => intro s; simp
    | cons y ys ihy => intro s; simp only [List.foldl_cons]; rw [ihy (s + y), ihy (0 + y)]; omega
  have hnn : ∀ (l : List Int), (∀ c ∈ l, 0 ≤ c) → 0 ≤ l.foldl (· + ·) 0 := by
    intro l; induction l with
    | nil => intro _; simp
    | cons y ys ihy =>
      intro h; simp only [List.foldl_cons]; rw [hf ys (0 + y)]
      have := ihy (fun c hc => h c (List.mem_cons_of_mem _ hc)); have := h y (List.mem_cons_self ..); omega
  induction cs generalizing acc with
  | nil => intro x hx; simp [sumValues] at hx
  | cons c cs ih =>
    intro x hx
    simp only [sumValues, List.mem_cons] at hx
    have hc : 0 ≤ c := h0 c (List.mem_cons_self ..)
    have hrest := hnn cs (fun d hd => h0 d (List.mem_cons_of_mem _ hd))
    simp only [List.foldl_cons]; rw [hf cs (0 + c)]
    rcases hx with rfl | hx
    · omega
    · have := ih (acc + c) (fun d hd => h0 d (List.mem_cons_of_mem _ hd)) x hx; omega

/-- the constructors are exact on lists of non-negative counts whose total fits -/
theorem sum_values_fit_nonneg (cs : List Int) (h0 : ∀ c ∈ cs, 0 ≤ c) (h : InI32 (cs.foldl (· + ·) 0)) :
    ∀ x ∈ sumValues 0 cs, InI32 x := by
  intro x hx
  have := sumValues_nonneg 0 cs h0 x hx
  unfold InI32 at *; omega

/-- D32: with mixed signs a running total leaves i32 although the total fits -/
theorem sum_values_overflow :
    ∃ cs : List Int, (∀ c ∈ cs, InI32 c) ∧ InI32 (cs.foldl (· + ·) 0) ∧ ∃ x ∈ sumValues 0 cs, ¬ InI32 x :=
  ⟨[2147483647, 1, -5], by decide, by decide, 2147483648, by simp [sumValues], by decide⟩

example : sumValues 0 [2147483647, 1, -5] = [2147483647, 2147483648, 2147483643] := by decide

end Chem
