import ChemProofs.Model.Formula
import ChemProofs.Spec.Grammar
namespace Chem
theorem placeholder_C05 : True := trivial
end Chem
