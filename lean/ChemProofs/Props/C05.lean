import ChemProofs.Model.Formula
import ChemProofs.Spec.Grammar
/-
Property C05 — panic-freedom (totality) of the formula parser model.

`parseFormula cc T s` (the Lean model of `FormulaParser::parse_formula_with_table_generic`)
never produces the `.panic` outcome, for every character class `cc`, every table `T` and every
text `s`.  In the model a panic has exactly two sources: a slice `&string[a..b]` with
`¬(a ≤ b ∧ b ≤ len)`, and exhaustion of the recursion fuel of `parseA`.  Both are excluded:

* `Inv p i` is an invariant of the twelve offsets of the parser state at character position `i`
  (by cases on the state); `pstep_safe` shows that one loop iteration started in `Inv p i`
  does not panic and re-establishes `Inv p' (i+1)`; `ploop_safe` lifts it to the loop and
  `pfinish_safe` to the end-of-input match;
* a group body is the slice `gs..ge` with `1 ≤ gs` and `ge < len`, hence at least two characters
  shorter than its parent, so `len + 1` levels of fuel always suffice (`parseA_no_panic`), and
  surplus fuel does not change the result (`parse_fuel`).

Main theorems: `parse_no_panic`, `parseA_no_panic`, `parse_fuel`.
-/
namespace Chem

/-- weakest-precondition style predicate: `r` is not a panic, and if it is `ok a` then `P a` -/
def Res.Safe {α} (r : Res α) (P : α → Prop) : Prop :=
  match r with
  | .ok a => P a
  | .err => True
  | .panic => False

theorem Res.Safe.ne_panic {α} {r : Res α} {P : α → Prop} (h : r.Safe P) : r ≠ .panic := by
  intro e; subst e; exact h

theorem Res.Safe.bind {α β} {r : Res α} {f : α → Res β} {P : α → Prop} {Q : β → Prop}
    (h : r.Safe P) (hf : ∀ a, P a → (f a).Safe Q) : (r.bind f).Safe Q := by
  cases r with
  | ok a => exact hf a h
  | err => trivial
  | panic => exact h.elim

theorem Res.Safe.mono {α} {r : Res α} {P Q : α → Prop}
    (h : r.Safe P) (hpq : ∀ a, P a → Q a) : r.Safe Q := by
  cases r with
  | ok a => exact hpq a h
  | err => trivial
  | panic => exact h.elim

theorem Res.safe_of_ne_panic {α} {r : Res α} (h : r ≠ .panic) : r.Safe (fun _ => True) := by
  cases r with
  | ok a => trivial
  | err => trivial
  | panic => exact (h rfl).elim

/-! ### the helpers -/

theorem slice_safe (s : List Nat) (a b : Nat) (hab : a ≤ b) (hb : b ≤ s.length) :
    (slice s a b).Safe (fun r => r.length = b - a) := by
  unfold slice
  rw [if_pos ⟨hab, hb⟩]
  show ((s.take b).drop a).length = b - a
  rw [List.length_drop, List.length_take, Nat.min_eq_left hb]

theorem lookupElem_safe (T : Table) (s : List Nat) (p : PState)
    (h1 : p.es ≤ p.ee) (h2 : p.ee ≤ s.length) :
    (lookupElem T s p).Safe (fun r => r.2 = { p with es := 0, ee := 0 }) := by
  unfold lookupElem
  refine (slice_safe s _ _ h1 h2).bind ?_
  intro sym _
  cases T.find? sym with
  | some e => exact rfl
  | none => trivial

theorem elemCount_safe (s : List Nat) (p : PState)
    (h1 : p.cs ≤ p.ce) (h2 : p.ce ≤ s.length) :
    (elemCount s p).Safe (fun r => r.2 = { p with cs := 0, ce := 0 }) := by
  unfold elemCount
  refine (slice_safe s _ _ h1 h2).bind ?_
  intro ds _
  cases parseI32 ds with
  | some e => exact rfl
  | none => trivial

theorem groupCount_safe (s : List Nat) (p : PState)
    (h1 : p.gcs ≤ p.gce) (h2 : p.gce ≤ s.length) :
    (groupCount s p).Safe (fun r => r.2 = { p with gcs := 0, gce := 0 }) := by
  unfold groupCount
  refine (slice_safe s _ _ h1 h2).bind ?_
  intro ds _
  cases parseI32 ds with
  | some e => exact rfl
  | none => trivial

theorem isoNumber_safe (s : List Nat) (p : PState)
    (h1 : p.is ≤ p.ie) (h2 : p.ie ≤ s.length) :
    (isoNumber s p).Safe (fun _ => True) := by
  unfold isoNumber
  refine (slice_safe s _ _ h1 h2).bind ?_
  intro ds _
  cases parseU16 ds with
  | some e => trivial
  | none => trivial

theorem mkKey_safe (e : Elem) (iso : Nat) : (mkKey e iso).Safe (fun _ => True) := by
  unfold mkKey
  split <;> trivial

/-- `afterTerm` either fails or moves to `element` (with `es := i`) or `group` (with `gs := i+1`),
    leaving every other offset alone -/
theorem afterTerm_safe (p : PState) (i c : Nat) (b : Bool) (u : Nat → Bool) :
    (afterTerm p i c b u).Safe (fun q =>
      (q.st = .element ∧ q.es = i ∧ q.is = p.is ∧ q.ie = p.ie) ∨
      (q.st = .group ∧ q.gs = i + 1 ∧ q.is = p.is ∧ q.ie = p.ie)) := by
  unfold afterTerm
  split
  · exact Or.inr ⟨rfl, rfl, rfl, rfl⟩
  · split
    · exact Or.inl ⟨rfl, rfl, rfl, rfl⟩
    · trivial

theorem flushElem_safe (T : Table) (s : List Nat) (p : PState) (acc : Ents)
    (h1 : p.es ≤ p.ee) (h2 : p.ee ≤ s.length) :
    (flushElem T s p acc).Safe (fun r => r.1 = { p with es := 0, ee := 0 }) := by
  unfold flushElem
  refine (lookupElem_safe T s p h1 h2).bind ?_
  rintro ⟨e, q⟩ hq
  exact hq

theorem flushIso_safe (T : Table) (s : List Nat) (p : PState) (acc : Ents)
    (h1 : p.es ≤ p.ee) (h2 : p.ee ≤ s.length) (h3 : p.is ≤ p.ie) (h4 : p.ie ≤ s.length) :
    (flushIso T s p acc).Safe (fun r => r.1 = { p with es := 0, ee := 0, is := 0, ie := 0 }) := by
  unfold flushIso
  refine (lookupElem_safe T s p h1 h2).bind ?_
  rintro ⟨e, q⟩ hq
  have hq : q = { p with es := 0, ee := 0 } := hq
  subst hq
  refine (isoNumber_safe s _ h3 h4).bind ?_
  intro iso _
  refine (mkKey_safe e iso).bind ?_
  intro k _
  exact rfl

theorem flushCount_safe (T : Table) (s : List Nat) (p : PState) (acc : Ents)
    (h1 : p.es ≤ p.ee) (h2 : p.ee ≤ s.length) (h3 : p.cs ≤ p.ce) (h4 : p.ce ≤ s.length)
    (h5 : p.ie = p.is ∨ (p.is ≤ p.ie ∧ p.ie ≤ s.length)) :
    (flushCount T s p acc).Safe (fun r =>
      r.1 = { p with es := 0, ee := 0, cs := 0, ce := 0, is := 0, ie := 0 }) := by
  unfold flushCount
  refine (elemCount_safe s p h3 h4).bind ?_
  rintro ⟨n, q⟩ hq
  have hq : q = { p with cs := 0, ce := 0 } := hq
  subst hq
  have hiso : (if ({ p with cs := 0, ce := 0 } : PState).ie != ({ p with cs := 0, ce := 0 } : PState).is
      then isoNumber s { p with cs := 0, ce := 0 } else Res.ok 0).Safe (fun _ => True) := by
    split
    · rename_i hne
      have hne : p.ie ≠ p.is := by simpa using hne
      rcases h5 with h5 | ⟨h5, h6⟩
      · exact (hne h5).elim
      · exact isoNumber_safe s _ h5 h6
    · trivial
  refine hiso.bind ?_
  intro iso _
  refine (lookupElem_safe T s { p with cs := 0, ce := 0 } h1 h2).bind ?_
  rintro ⟨e, q⟩ hq
  have hq : q = { p with cs := 0, ce := 0, es := 0, ee := 0 } := hq
  subst hq
  refine (mkKey_safe e iso).bind ?_
  intro k _
  exact rfl

/-! ### the offset invariant -/

/-- the invariant of the parser state before the character at position `i`
    (`i = s.length` after the loop) -/
def Inv (p : PState) (i : Nat) : Prop :=
  match p.st with
  | .new => p.ie = p.is
  | .element => p.es ≤ i ∧ p.ie = p.is
  | .isotope => p.es ≤ p.ee ∧ p.ee ≤ i ∧ p.is ≤ i
  | .isotopeToCount => p.es ≤ p.ee ∧ p.ee ≤ i ∧ p.is ≤ p.ie ∧ p.ie ≤ i
  | .count => p.es ≤ p.ee ∧ p.ee ≤ i ∧ p.cs ≤ i ∧ (p.ie = p.is ∨ (p.is ≤ p.ie ∧ p.ie ≤ i))
  | .group => 1 ≤ p.gs ∧ p.gs ≤ i ∧ p.ie = p.is
  | .groupToGroupCount => 1 ≤ p.gs ∧ p.gs ≤ p.ge ∧ p.ge < i ∧ p.ie = p.is
  | .groupCount => 1 ≤ p.gs ∧ p.gs ≤ p.ge ∧ p.ge < i ∧ p.gcs ≤ i ∧ p.ie = p.is

theorem inv_init : Inv {} 0 := rfl

/-- what `afterTerm` guarantees is enough for the invariant at the next position -/
theorem inv_of_afterTerm {p q : PState} {i : Nat} (hp : p.ie = p.is)
    (h : (q.st = .element ∧ q.es = i ∧ q.is = p.is ∧ q.ie = p.ie) ∨
      (q.st = .group ∧ q.gs = i + 1 ∧ q.is = p.is ∧ q.ie = p.ie)) : Inv q (i + 1) := by
  unfold Inv
  rcases h with ⟨h1, h2, h3, h4⟩ | ⟨h1, h2, h3, h4⟩
  · rw [h1]; dsimp only; omega
  · rw [h1]; dsimp only; omega

/-- the recursive parser does not panic on anything short enough to be a group body of `s` -/
def SubOK (sub : List Nat → Res Ents) (s : List Nat) : Prop :=
  ∀ b : List Nat, b.length + 2 ≤ s.length → sub b ≠ .panic

theorem body_safe (sub : List Nat → Res Ents) (s : List Nat) (hsub : SubOK sub s)
    (gs ge : Nat) (h1 : 1 ≤ gs) (h2 : gs ≤ ge) (h3 : ge < s.length) {β} (f : Ents → Res β)
    (Q : β → Prop) (hf : ∀ g, (f g).Safe Q) :
    ((slice s gs ge).bind fun body => (sub body).bind f).Safe Q := by
  refine (slice_safe s gs ge h2 (by omega)).bind ?_
  intro body hb
  have hb : body.length = ge - gs := hb
  refine (Res.safe_of_ne_panic (hsub body (by omega))).bind ?_
  intro g _
  exact hf g

/-! ### one loop iteration -/

theorem Res.Safe.ok_intro {α} {a : α} {P : α → Prop} (h : P a) : (Res.ok a).Safe P := h

/-- close a goal `(Res.ok (q, acc)).Safe (fun r => Inv r.1 j)` for a literal state `q` -/
local macro "inv_ok" : tactic =>
  `(tactic| (refine Res.Safe.ok_intro ?_; unfold Inv; dsimp only; omega))

theorem pstep_safe (cc : CharClass) (T : Table) (sub : List Nat → Res Ents) (s : List Nat)
    (p : PState) (acc : Ents) (i c : Nat)
    (hsub : SubOK sub s) (hinv : Inv p i) (hi : i < s.length) :
    (pstep cc T sub s p acc i c).Safe (fun r => Inv r.1 (i + 1)) := by
  obtain ⟨es, ee, is, ie, cs, ce, paren, gs, ge, gcs, gce, st⟩ := p
  cases st <;> unfold Inv at hinv <;> dsimp only at hinv <;> unfold pstep <;> dsimp only
  case new =>
    split
    · inv_ok
    · split
      · inv_ok
      · trivial
  case group =>
    split
    · split
      · inv_ok
      · inv_ok
    · split
      · inv_ok
      · inv_ok
  case element =>
    split
    · split
      · refine (flushElem_safe T s _ acc (by dsimp only; omega) (by dsimp only; omega)).bind ?_
        rintro ⟨q, acc'⟩ hq
        have hq : q = _ := hq
        subst hq
        inv_ok
      · inv_ok
    · split
      · inv_ok
      · split
        · inv_ok
        · split
          · refine (flushElem_safe T s _ acc (by dsimp only; omega) (by dsimp only; omega)).bind ?_
            rintro ⟨q, acc'⟩ hq
            have hq : q = _ := hq
            subst hq
            inv_ok
          · inv_ok
  case isotope =>
    split
    · inv_ok
    · split
      · trivial
      · inv_ok
  case count =>
    split
    · refine (flushCount_safe T s _ acc (by dsimp only; omega) (by dsimp only; omega)
        (by dsimp only; omega) (by dsimp only; omega) (by dsimp only; omega)).bind ?_
      rintro ⟨q, acc'⟩ hq
      have hq : q = _ := hq
      subst hq
      refine (afterTerm_safe _ i c true isUpperStart).bind ?_
      intro q hq
      exact inv_of_afterTerm rfl hq
    · inv_ok
  case isotopeToCount =>
    split
    · inv_ok
    · refine (flushIso_safe T s _ acc (by dsimp only; omega) (by dsimp only; omega)
        (by dsimp only; omega) (by dsimp only; omega)).bind ?_
      rintro ⟨q, acc'⟩ hq
      have hq : q = _ := hq
      subst hq
      refine (afterTerm_safe _ i c false isAsciiUpper).bind ?_
      intro q hq
      exact inv_of_afterTerm rfl hq
  case groupToGroupCount =>
    split
    · refine body_safe sub s hsub _ _ hinv.1 hinv.2.1 (by omega) _ _ ?_
      intro g
      refine (afterTerm_safe _ i c true isUpperStart).bind ?_
      intro q hq
      exact inv_of_afterTerm (by dsimp only; omega) hq
    · inv_ok
  case groupCount =>
    split
    · refine body_safe sub s hsub _ _ hinv.1 hinv.2.1 (by omega) _ _ ?_
      intro g
      refine (groupCount_safe s _ (by dsimp only; omega) (by dsimp only; omega)).bind ?_
      rintro ⟨n, q⟩ hq
      have hq : q = _ := hq
      subst hq
      refine (afterTerm_safe _ i c true isUpperStart).bind ?_
      intro q hq
      exact inv_of_afterTerm (by dsimp only; omega) hq
    · inv_ok

/-! ### the loop and the end-of-input match -/

theorem ploop_safe (cc : CharClass) (T : Table) (sub : List Nat → Res Ents) (s : List Nat)
    (hsub : SubOK sub s) :
    ∀ (rest : List Nat) (i : Nat) (p : PState) (acc : Ents), Inv p i → i + rest.length = s.length →
      (ploop cc T sub s rest i p acc).Safe (fun r => Inv r.1 s.length) := by
  intro rest
  induction rest with
  | nil =>
    intro i p acc hinv hlen
    have : i = s.length := by simpa using hlen
    subst this
    exact hinv
  | cons c rest ih =>
    intro i p acc hinv hlen
    have hlen' : i + (rest.length + 1) = s.length := by simpa using hlen
    unfold ploop
    refine (pstep_safe cc T sub s p acc i c hsub hinv (by omega)).bind ?_
    rintro ⟨q, acc'⟩ hq
    exact ih (i + 1) q acc' hq (by omega)

theorem pfinish_safe (T : Table) (sub : List Nat → Res Ents) (s : List Nat)
    (p : PState) (acc : Ents) (hsub : SubOK sub s) (hinv : Inv p s.length) :
    (pfinish T sub s p acc).Safe (fun _ => True) := by
  obtain ⟨es, ee, is, ie, cs, ce, paren, gs, ge, gcs, gce, st⟩ := p
  cases st <;> unfold Inv at hinv <;> dsimp only at hinv <;> unfold pfinish <;> dsimp only
  case new => trivial
  case group => trivial
  case isotope => trivial
  case element =>
    refine (flushElem_safe T s _ acc (by dsimp only; omega) (by dsimp only; omega)).bind ?_
    rintro ⟨q, acc'⟩ _
    trivial
  case count =>
    refine (flushCount_safe T s _ acc (by dsimp only; omega) (by dsimp only; omega)
      (by dsimp only; omega) (by dsimp only; omega) (by dsimp only; omega)).bind ?_
    rintro ⟨q, acc'⟩ _
    trivial
  case isotopeToCount =>
    refine (flushIso_safe T s _ acc (by dsimp only; omega) (by dsimp only; omega)
      (by dsimp only; omega) (by dsimp only; omega)).bind ?_
    rintro ⟨q, acc'⟩ _
    trivial
  case groupToGroupCount =>
    refine body_safe sub s hsub _ _ hinv.1 hinv.2.1 (by omega) _ _ ?_
    intro g
    trivial
  case groupCount =>
    refine body_safe sub s hsub _ _ hinv.1 hinv.2.1 (by omega) _ _ ?_
    intro g
    refine (groupCount_safe s _ (by dsimp only; omega) (by dsimp only; omega)).bind ?_
    rintro ⟨n, q⟩ _
    trivial

/-! ### the recursion: enough fuel -/

/-- one level of `parseA` is panic-free if the level below is panic-free on every possible
    group body -/
theorem parseA_step_safe (cc : CharClass) (T : Table) (sub : List Nat → Res Ents) (s : List Nat)
    (hsub : SubOK sub s) :
    ((ploop cc T sub s s 0 {} []).bind fun (p, acc) => pfinish T sub s p acc).Safe
      (fun _ => True) := by
  refine (ploop_safe cc T sub s hsub s 0 {} [] inv_init (by omega)).bind ?_
  rintro ⟨p, acc⟩ hp
  exact pfinish_safe T sub s p acc hsub hp

/-- with more fuel than characters the parser never panics: neither a slice out of range nor
    fuel exhaustion (a nested body is at least two characters shorter than its parent) -/
theorem parseA_no_panic (cc : CharClass) (T : Table) :
    ∀ (fuel : Nat) (s : List Nat), s.length < fuel → parseA cc T fuel s ≠ .panic := by
  intro fuel
  induction fuel with
  | zero => intro s h; omega
  | succ fuel ih =>
    intro s h
    unfold parseA
    refine (parseA_step_safe cc T (parseA cc T fuel) s ?_).ne_panic
    intro b hb
    exact ih b (by omega)

/-- **C05**: the formula parser never panics, whatever the character class, table and text -/
theorem parse_no_panic (cc : CharClass) (T : Table) (s : List Nat) : parseFormula cc T s ≠ .panic :=
  parseA_no_panic cc T (s.length + 1) s (Nat.lt_succ_self _)

/-- the same statement in positive form: the outcome is a value or an error value -/
theorem parse_ok_or_err (cc : CharClass) (T : Table) (s : List Nat) :
    (∃ e, parseFormula cc T s = .ok e) ∨ parseFormula cc T s = .err := by
  have h := parse_no_panic cc T s
  cases hr : parseFormula cc T s with
  | ok e => exact Or.inl ⟨e, rfl⟩
  | err => exact Or.inr rfl
  | panic => exact (h hr).elim

/-! ### surplus fuel is not observable -/

theorem Res.bind_congr_safe {α β} {r : Res α} {P : α → Prop} {f f' : α → Res β}
    (h : r.Safe P) (hf : ∀ a, P a → f a = f' a) : r.bind f = r.bind f' := by
  cases r with
  | ok a => exact hf a h
  | err => rfl
  | panic => rfl

/-- two recursive parsers that agree on everything short enough to be a group body of `s` -/
def SubAgree (sub sub' : List Nat → Res Ents) (s : List Nat) : Prop :=
  ∀ b : List Nat, b.length + 2 ≤ s.length → sub b = sub' b

theorem body_congr (sub sub' : List Nat → Res Ents) (s : List Nat) (hag : SubAgree sub sub' s)
    (gs ge : Nat) (h1 : 1 ≤ gs) (h2 : gs ≤ ge) (h3 : ge < s.length) {β} (f : Ents → Res β) :
    ((slice s gs ge).bind fun body => (sub body).bind f) =
      ((slice s gs ge).bind fun body => (sub' body).bind f) := by
  refine Res.bind_congr_safe (slice_safe s gs ge h2 (by omega)) ?_
  intro body hb
  have hb : body.length = ge - gs := hb
  rw [hag body (by omega)]

theorem pstep_congr (cc : CharClass) (T : Table) (sub sub' : List Nat → Res Ents) (s : List Nat)
    (p : PState) (acc : Ents) (i c : Nat)
    (hag : SubAgree sub sub' s) (hinv : Inv p i) (hi : i < s.length) :
    pstep cc T sub s p acc i c = pstep cc T sub' s p acc i c := by
  obtain ⟨es, ee, is, ie, cs, ce, paren, gs, ge, gcs, gce, st⟩ := p
  cases st <;> unfold Inv at hinv <;> dsimp only at hinv
  case groupToGroupCount =>
    unfold pstep; dsimp only
    split
    · exact body_congr sub sub' s hag _ _ hinv.1 hinv.2.1 (by omega) _
    · rfl
  case groupCount =>
    unfold pstep; dsimp only
    split
    · exact body_congr sub sub' s hag _ _ hinv.1 hinv.2.1 (by omega) _
    · rfl
  all_goals rfl

theorem pfinish_congr (T : Table) (sub sub' : List Nat → Res Ents) (s : List Nat)
    (p : PState) (acc : Ents) (hag : SubAgree sub sub' s) (hinv : Inv p s.length) :
    pfinish T sub s p acc = pfinish T sub' s p acc := by
  obtain ⟨es, ee, is, ie, cs, ce, paren, gs, ge, gcs, gce, st⟩ := p
  cases st <;> unfold Inv at hinv <;> dsimp only at hinv
  case groupToGroupCount =>
    unfold pfinish; dsimp only
    exact body_congr sub sub' s hag _ _ hinv.1 hinv.2.1 (by omega) _
  case groupCount =>
    unfold pfinish; dsimp only
    exact body_congr sub sub' s hag _ _ hinv.1 hinv.2.1 (by omega) _
  all_goals rfl

theorem ploop_congr (cc : CharClass) (T : Table) (sub sub' : List Nat → Res Ents) (s : List Nat)
    (hag : SubAgree sub sub' s) (hsub : SubOK sub s) :
    ∀ (rest : List Nat) (i : Nat) (p : PState) (acc : Ents), Inv p i → i + rest.length = s.length →
      ploop cc T sub s rest i p acc = ploop cc T sub' s rest i p acc := by
  intro rest
  induction rest with
  | nil => intro i p acc _ _; rfl
  | cons c rest ih =>
    intro i p acc hinv hlen
    have hlen' : i + (rest.length + 1) = s.length := by simpa using hlen
    unfold ploop
    rw [← pstep_congr cc T sub sub' s p acc i c hag hinv (by omega)]
    refine Res.bind_congr_safe (pstep_safe cc T sub s p acc i c hsub hinv (by omega)) ?_
    rintro ⟨q, acc'⟩ hq
    exact ih (i + 1) q acc' hq (by omega)

/-- any two fuel values above the length of the text give the same result -/
theorem parseA_fuel_irrel (cc : CharClass) (T : Table) :
    ∀ (n m : Nat) (s : List Nat), s.length < n → s.length < m →
      parseA cc T n s = parseA cc T m s := by
  intro n
  induction n with
  | zero => intro m s h; omega
  | succ n ih =>
    intro m s hn hm
    cases m with
    | zero => omega
    | succ m =>
      have hag : SubAgree (parseA cc T n) (parseA cc T m) s := by
        intro b hb
        exact ih m b (by omega) (by omega)
      have hsub : SubOK (parseA cc T n) s := by
        intro b hb
        exact parseA_no_panic cc T n b (by omega)
      unfold parseA
      rw [← ploop_congr cc T _ _ s hag hsub s 0 {} [] inv_init (by omega)]
      refine Res.bind_congr_safe (ploop_safe cc T _ s hsub s 0 {} [] inv_init (by omega)) ?_
      rintro ⟨p, acc⟩ hp
      exact pfinish_congr T _ _ s p acc hag hp

/-- the result does not depend on surplus fuel -/
theorem parse_fuel (cc : CharClass) (T : Table) (n : Nat) (s : List Nat) (h : s.length < n) :
    parseA cc T n s = parseFormula cc T s :=
  parseA_fuel_irrel cc T n (s.length + 1) s h (Nat.lt_succ_self _)

/-! ### non-vacuity: the parser computes, succeeds and fails on concrete inputs -/

/-- ASCII-only character class -/
def c05cc : CharClass := ⟨isAsciiAlpha, isAsciiDigit, isAsciiUpper⟩

/-- a three-element table: C (12, 13), H (1), O (16) -/
def c05T : Table :=
  [ { tkey := [67], sym := [67], isos := [⟨12, 12000000, 989300, 6, 0⟩, ⟨13, 13003355, 10700, 7, 1⟩],
      mostIso := 12, mostMass := 12000000, minShift := 0, maxShift := 1, elemNum := 6 },
    { tkey := [72], sym := [72], isos := [⟨1, 1007825, 999885, 0, 0⟩],
      mostIso := 1, mostMass := 1007825, minShift := 0, maxShift := 0, elemNum := 1 },
    { tkey := [79], sym := [79], isos := [⟨16, 15994915, 997570, 8, 0⟩],
      mostIso := 16, mostMass := 15994915, minShift := 0, maxShift := 0, elemNum := 8 } ]

/-- `C[13]H3(OH)2` -/
example : parseFormula c05cc c05T [67, 91, 49, 51, 93, 72, 51, 40, 79, 72, 41, 50] =
    .ok [(([67], 13), 1), (([72], 0), 5), (([79], 0), 2)] := by decide

/-- `C((O)2H)3` (nested groups: the recursion and its fuel are exercised) -/
example : parseFormula c05cc c05T [67, 40, 40, 79, 41, 50, 72, 41, 51] =
    .ok [(([67], 0), 1), (([79], 0), 6), (([72], 0), 3)] := by decide

/-- `C[14]` (carbon has no isotope 14 in this table), `X`, `(C`, `C)(` are error values -/
example : parseFormula c05cc c05T [67, 91, 49, 52, 93] = .err := by decide
example : parseFormula c05cc c05T [88] = .err := by decide
example : parseFormula c05cc c05T [40, 67] = .err := by decide
example : parseFormula c05cc c05T [67, 41, 40] = .err := by decide

/-- the `panic` outcome is reachable in the model (so `parse_no_panic` is not vacuous):
    a slice with bad offsets, and a nested group without fuel -/
example : slice [67, 72] 2 1 = .panic := by decide
example : parseA c05cc c05T 1 [40, 67, 41] = .panic := by decide

end Chem
