import ChemProofs.Props.C05Rejects
/-
C05 — named rejection theorems for the remaining items of the property's list:

(a) `reject_unknown_symbol`   : a formula that begins with a symbol which is not in the table is rejected;
(b) `reject_unknown_isotope`  : a formula that begins with `Sym[n]`, `n` not an isotope of `Sym` (and not 0), is rejected —
                                whatever follows;
(c) `reject_oversized_count`  : a formula that begins with `Sym<digits>` whose value exceeds `i32::MAX` is rejected;
(d) `reject_space`            : a string containing a blank is rejected (corollary of `reject_foreign_char`).

(a)–(c) are proved directly on the parser machine (no hypothesis on the table at all): the pending term is *doomed* — every
way the machine can complete it ends in an error value — and the rest of the text cannot rescue it.
-/
namespace Chem
open Spec

def NotOk {α} (r : Res α) : Prop := ∀ x, r ≠ .ok x

theorem NotOk.bind {α β} {r : Res α} {f : α → Res β} (h : ∀ a, r = .ok a → NotOk (f a)) : NotOk (r.bind f) := by
  intro x hx
  obtain ⟨a, ha, hf⟩ := Res.bind_ok_inv hx
  exact h a ha x hf

theorem NotOk.bind_left {α β} {r : Res α} {f : α → Res β} (h : NotOk r) : NotOk (r.bind f) :=
  NotOk.bind (fun a ha => absurd ha (h a))

theorem notOk_err {α} : NotOk (Res.err : Res α) := by intro x hx; cases hx

theorem err_of_notOk (cc : CharClass) (T : Table) (s : List Nat) (h : NotOk (parseFormula cc T s)) :
    parseFormula cc T s = .err := by
  cases hr : parseFormula cc T s with
  | ok e => exact (h e hr).elim
  | err => rfl
  | panic => exact (parse_no_panic cc T s hr).elim

/-- the pending element term cannot be completed: its symbol is not in the table, or its (closed) isotope bracket holds a
    number that is neither 0 nor an isotope of the element -/
structure Doomed (T : Table) (s : List Nat) (p : PState) : Prop where
  st : p.st = .isotope ∨ p.st = .isotopeToCount ∨ p.st = .count
  bad : ∀ sym e, slice s p.es p.ee = .ok sym → T.find? sym = some e →
    p.st ≠ .isotope ∧ p.ie ≠ p.is ∧
      ∃ ds, slice s p.is p.ie = .ok ds ∧ ∀ v, parseU16 ds = some v → v ≠ 0 ∧ e.iso? v = none

section
variable {cc : CharClass} {T : Table} {sub : List Nat → Res Ents} {s : List Nat}

theorem Doomed.flushIso {p : PState} (h : Doomed T s p) (acc : Ents) : NotOk (flushIso T s p acc) := by
  rintro ⟨p', acc'⟩ hx
  obtain ⟨sym, e, ds, v, hs, hf, hds, hv, hiso, _, _⟩ := flushIso_inv hx
  obtain ⟨_, _, ds', hds', hb⟩ := h.bad sym e hs hf
  rw [hds] at hds'; injection hds' with hds'; subst hds'
  obtain ⟨h0, hn⟩ := hb v hv
  rcases hiso with hiso | hiso
  · exact h0 hiso
  · rw [hn] at hiso; cases hiso

theorem Doomed.flushCount {p : PState} (h : Doomed T s p) (i : Nat) (acc : Ents) :
    NotOk (flushCount T s { p with ce := i } acc) := by
  rintro ⟨p', acc'⟩ hx
  obtain ⟨cds, n, sym, e, v, _, _, hs, hf, hv, hiso, _, _⟩ := flushCount_inv hx
  obtain ⟨_, hne, ds', hds', hb⟩ := h.bad sym e hs hf
  rcases hv with ⟨heq, _⟩ | ⟨_, ds, hds, hv⟩
  · exact hne heq
  · dsimp only at hds
    rw [hds] at hds'; injection hds' with hds'; subst hds'
    obtain ⟨h0, hn⟩ := hb v hv
    rcases hiso with hiso | hiso
    · exact h0 hiso
    · rw [hn] at hiso; cases hiso

theorem Doomed.step {p : PState} (h : Doomed T s p) (acc : Ents) (i c : Nat) :
    NotOk (pstep cc T sub s p acc i c) ∨ ∃ p' acc', pstep cc T sub s p acc i c = .ok (p', acc') ∧ Doomed T s p' := by
  rcases h.st with hst | hst | hst <;> unfold pstep <;> simp only [hst]
  · split
    · refine Or.inr ⟨_, _, rfl, ⟨Or.inr (Or.inl rfl), ?_⟩⟩
      intro sym e hs hf
      exact ((h.bad sym e hs hf).1 hst).elim
    · split
      · exact Or.inl notOk_err
      · exact Or.inr ⟨_, _, rfl, h⟩
  · split
    · refine Or.inr ⟨_, _, rfl, ⟨Or.inr (Or.inr rfl), ?_⟩⟩
      intro sym e hs hf
      obtain ⟨_, h2, h3⟩ := h.bad sym e hs hf
      exact ⟨by simp, h2, h3⟩
    · exact Or.inl (NotOk.bind_left (h.flushIso acc))
  · split
    · have hc := h.flushCount i acc
      rw [hst] at hc
      exact Or.inl (NotOk.bind_left hc)
    · exact Or.inr ⟨_, _, rfl, h⟩

theorem Doomed.run (rest : List Nat) : ∀ (i : Nat) (p : PState) (acc : Ents), Doomed T s p →
    ∀ p' acc', ploop cc T sub s rest i p acc = .ok (p', acc') → Doomed T s p' := by
  induction rest with
  | nil =>
    intro i p acc h p' acc' hl
    rw [ploop_nil] at hl
    injection hl with hl; injection hl with h1 h2
    exact h1 ▸ h
  | cons c rest ih =>
    intro i p acc h p' acc' hl
    rw [ploop_cons] at hl
    obtain ⟨⟨q, acc1⟩, hq, hl⟩ := Res.bind_ok_inv hl
    rcases h.step (cc := cc) (sub := sub) acc i c with hno | ⟨q', acc1', hq', hd⟩
    · exact (hno _ hq).elim
    · rw [hq] at hq'; injection hq' with hq'; injection hq' with h1 h2
      subst h1
      exact ih _ _ _ hd _ _ hl

theorem Doomed.finish {p : PState} (h : Doomed T s p) (acc : Ents) : NotOk (pfinish T sub s p acc) := by
  rcases h.st with hst | hst | hst <;> unfold pfinish <;> simp only [hst]
  · exact notOk_err
  · exact NotOk.bind_left (h.flushIso acc)
  · have hc := h.flushCount s.length acc
    rw [hst] at hc
    exact NotOk.bind_left hc

/-- once the machine has read a prefix and holds a doomed term, the whole text is rejected -/
theorem reject_of_doomed (cc : CharClass) (T : Table) (pre rest : List Nat) (p0 : PState) (acc0 : Ents)
    (hpre : ∀ sub, ploop cc T sub (pre ++ rest) pre 0 {} [] = .ok (p0, acc0))
    (hd : Doomed T (pre ++ rest) p0) : parseFormula cc T (pre ++ rest) = .err := by
  apply err_of_notOk
  intro ents h
  unfold parseFormula parseA at h
  obtain ⟨⟨p, acc⟩, hl, hf⟩ := Res.bind_ok_inv h
  rw [ploop_append_ok _ _ _ _ (hpre _)] at hl
  exact (Doomed.run rest _ _ _ hd _ _ hl).finish acc _ hf

end

/-! ### reading a symbol -/

theorem lower_inert {cc : CharClass} (hcc : cc.AsciiOK) {c : Nat} (h : isAsciiLower c = true) : inert cc c = true := by
  simp only [isAsciiLower, Bool.and_eq_true, decide_eq_true_eq] at h
  have hn : cc.numeric c = false := by
    rw [(hcc c (by omega)).2.1]
    simp only [isAsciiDigit, Bool.and_eq_false_iff, decide_eq_false_iff_not]; omega
  have hu : isAsciiUpper c = false := by
    simp only [isAsciiUpper, Bool.and_eq_false_iff, decide_eq_false_iff_not]; omega
  simp only [inert, hn, hu, Bool.not_false, Bool.true_and, Bool.and_eq_true, bne_iff_ne, ne_eq]
  omega

/-- the machine after an upper-case letter followed by lower-case letters: in `Element`, symbol start recorded -/
theorem ploop_symbol {cc : CharClass} (hcc : cc.AsciiOK) (T : Table) (sub : List Nat → Res Ents) (s : List Nat)
    (U : Nat) (lows : List Nat) (hU : isAsciiUpper U = true) (hl : ∀ c ∈ lows, isAsciiLower c = true) :
    ploop cc T sub s (U :: lows) 0 {} [] = .ok ({ st := .element }, []) := by
  have h1 : pstep cc T sub s {} [] 0 U = .ok ({ st := .element }, []) := by
    simp [pstep, isUpperStart_of_upper hU]
  rw [ploop_cons_ok cc T sub s h1]
  exact ploop_inert_elem cc T sub s _ rfl (fun c hc => lower_inert hcc (hl c hc))

/-! ### (b) an isotope the element does not have -/

/-- **(b)** a formula that begins with `Sym[digits]`, where the digits denote a number that is neither 0 nor an isotope of
    the element `Sym` (or do not fit `u16`), is rejected with an error value — whatever follows the bracket -/
theorem reject_unknown_isotope (cc : CharClass) (hcc : cc.AsciiOK) (T : Table) (U : Nat) (lows ids rest : List Nat)
    (hU : isAsciiUpper U = true) (hl : ∀ c ∈ lows, isAsciiLower c = true)
    (hids : ∀ c ∈ ids, isAsciiDigit c = true) (hne : ids ≠ [])
    (hbad : ∀ e v, T.find? (U :: lows) = some e → parseU16 ids = some v → v ≠ 0 ∧ e.iso? v = none) :
    parseFormula cc T ((U :: lows) ++ [91] ++ ids ++ [93] ++ rest) = .err := by
  let n := (U :: lows).length
  let p0 : PState := { ee := n, is := n + 1, ie := n + 1 + ids.length, st := .isotopeToCount }
  have hs : ((U :: lows) ++ [91] ++ ids ++ [93] ++ rest) = ((U :: lows) ++ [91] ++ ids ++ [93]) ++ rest := rfl
  apply reject_of_doomed cc T ((U :: lows) ++ [91] ++ ids ++ [93]) rest p0 []
  · intro sub
    generalize (U :: lows) ++ [91] ++ ids ++ [93] ++ rest = s
    have e : (U :: lows) ++ [91] ++ ids ++ [93] = (U :: lows) ++ (91 :: (ids ++ [93])) := by simp
    rw [e,
      ploop_append_ok cc T sub s (ploop_symbol hcc T sub s U lows hU hl),
      ploop_cons_ok cc T sub s (step_elem_lbr cc T sub s hcc _ rfl),
      ploop_append_ok cc T sub s (ploop_digits_iso cc T sub s hcc _ rfl hids),
      ploop_cons_ok cc T sub s (step_iso_rbr cc T sub s _ rfl), ploop_nil]
    simp only [p0, n, Nat.zero_add, List.length_cons]
  · refine ⟨Or.inr (Or.inl rfl), ?_⟩
    intro sym e hsl hf
    have h1 : sym = U :: lows :=
      slice_val (pre := []) (mid := U :: lows) (post := [91] ++ ids ++ [93] ++ rest) hsl (by simp) rfl (by simp [p0, n])
    subst h1
    refine ⟨by simp [p0], ?_, ids, ?_, fun v hv => hbad e v hf hv⟩
    · simp only [p0]
      have : 0 < ids.length := List.length_pos_iff.2 hne
      omega
    · exact slice_mid (pre := (U :: lows) ++ [91]) (mid := ids) (post := [93] ++ rest) (by simp) (by simp [p0, n])
        (by simp [p0, n])

theorem parseU16_natDigits_some (n v : Nat) (h : parseU16 (natDigits n) = some v) : v = n := by
  obtain ⟨d, ds, hd, hdig⟩ := natDigits_cons n
  have hv := digitsVal_natDigits n
  have h43 : d ≠ 43 := by
    simp only [isAsciiDigit, Bool.and_eq_true, decide_eq_true_eq] at hdig; omega
  unfold parseU16 at h
  rw [hd] at h hv
  split at h
  · rename_i heq; injection heq with h1 _; exact (h43 h1).elim
  · dsimp only at h
    rw [hv] at h
    dsimp only at h
    split at h
    · injection h with h; exact h.symm
    · cases h

/-- **(b), as the property words it**: `Sym[n]…` where the element has no isotope `n` (and `n ≠ 0`) is rejected -/
theorem reject_unknown_isotope_nat (cc : CharClass) (hcc : cc.AsciiOK) (T : Table) (U : Nat) (lows rest : List Nat)
    (e : Elem) (n : Nat) (hU : isAsciiUpper U = true) (hl : ∀ c ∈ lows, isAsciiLower c = true)
    (hf : T.find? (U :: lows) = some e) (hn : n ≠ 0) (hiso : e.iso? n = none) :
    parseFormula cc T ((U :: lows) ++ [91] ++ natDigits n ++ [93] ++ rest) = .err := by
  apply reject_unknown_isotope cc hcc T U lows (natDigits n) rest hU hl (natDigits_all_digit n) (natDigits_ne_nil n)
  intro e' v hf' hv
  rw [hf] at hf'; injection hf' with hf'; subst hf'
  rw [parseU16_natDigits_some n v hv]
  exact ⟨hn, hiso⟩

/-! ### (a) a symbol that is not in the table -/

/-- **(a)** a formula that begins with a symbol (an ASCII upper-case letter followed by lower-case letters) which is not in
    the table is rejected.  "The symbol ends there": the text ends, or goes on with an upper-case letter, a digit, `[`
    or `(`.  In particular (`rest = []`, or `rest` a count / an isotope bracket) every single term with an unknown symbol. -/
theorem reject_unknown_symbol (cc : CharClass) (hcc : cc.AsciiOK) (T : Table) (U : Nat) (lows rest : List Nat)
    (hU : isAsciiUpper U = true) (hl : ∀ c ∈ lows, isAsciiLower c = true)
    (hrest : ∀ c, rest.head? = some c → isAsciiUpper c = true ∨ isAsciiDigit c = true ∨ c = 91 ∨ c = 40)
    (hfind : T.find? (U :: lows) = none) :
    parseFormula cc T ((U :: lows) ++ rest) = .err := by
  have hslice : ∀ (post : List Nat) (q : PState), q.es = 0 → q.ee = (U :: lows).length →
      NotOk (lookupElem T ((U :: lows) ++ post) q) := by
    intro post q h1 h2
    unfold lookupElem
    rw [slice_mid (pre := []) (mid := U :: lows) (post := post) (by simp) (by simp [h1]) (by simp [h2])]
    simp only [Res.ok_bind, hfind]
    exact notOk_err
  have hflushE : ∀ (post : List Nat) (q : PState) (acc : Ents), q.es = 0 → q.ee = (U :: lows).length →
      NotOk (flushElem T ((U :: lows) ++ post) q acc) := by
    intro post q acc h1 h2
    unfold flushElem
    exact NotOk.bind_left (hslice post q h1 h2)
  have hdoom : ∀ (post : List Nat) (q : PState), q.es = 0 → q.ee = (U :: lows).length →
      (q.st = .isotope ∨ q.st = .isotopeToCount ∨ q.st = .count) → Doomed T ((U :: lows) ++ post) q := by
    intro post q h1 h2 h3
    refine ⟨h3, ?_⟩
    intro sym e hs hf
    exfalso
    have : lookupElem T ((U :: lows) ++ post) q = .ok (e, { q with es := 0, ee := 0 }) := by
      unfold lookupElem; rw [hs]; simp only [Res.ok_bind, hf]
    exact hslice post q h1 h2 _ this
  cases rest with
  | nil =>
    apply err_of_notOk
    intro ents h
    unfold parseFormula parseA at h
    obtain ⟨⟨p, acc⟩, hl', hf⟩ := Res.bind_ok_inv h
    rw [List.append_nil, ploop_symbol hcc T _ _ U lows hU hl] at hl'
    injection hl' with hl'; injection hl' with h1 h2
    subst h1; subst h2
    revert hf
    unfold pfinish
    simp only
    exact NotOk.bind_left (hflushE [] _ _ rfl (by simp)) ents
  | cons c rest' =>
    rcases hrest c rfl with hc | hc | hc | hc
    · -- an upper-case letter: the pending symbol is looked up at once
      apply err_of_notOk
      intro ents h
      unfold parseFormula parseA at h
      obtain ⟨⟨p, acc⟩, hl', hf⟩ := Res.bind_ok_inv h
      rw [ploop_append_ok _ _ _ _ (ploop_symbol hcc T _ _ U lows hU hl), ploop_cons] at hl'
      obtain ⟨x, hx, _⟩ := Res.bind_ok_inv hl'
      revert hx
      have ha : isAsciiAlpha c = true := by simp [isAsciiAlpha, hc]
      unfold pstep
      simp only [ha, hc, if_true]
      exact NotOk.bind_left (hflushE _ _ _ rfl (by simp)) x
    · have : (U :: lows) ++ c :: rest' = ((U :: lows) ++ [c]) ++ rest' := by simp
      rw [this]
      apply reject_of_doomed cc T ((U :: lows) ++ [c]) rest'
        { ee := (U :: lows).length, cs := (U :: lows).length, st := .count } []
      · intro sub
        rw [ploop_append_ok _ _ _ _ (ploop_symbol hcc T _ _ U lows hU hl),
          ploop_cons_ok _ _ _ _ (step_elem_digit cc T sub _ hcc _ rfl hc), ploop_nil]
        simp
      · rw [← this]; exact hdoom _ _ rfl rfl (Or.inr (Or.inr rfl))
    · subst hc
      have : (U :: lows) ++ 91 :: rest' = ((U :: lows) ++ [91]) ++ rest' := by simp
      rw [this]
      apply reject_of_doomed cc T ((U :: lows) ++ [91]) rest'
        { ee := (U :: lows).length, is := (U :: lows).length + 1, st := .isotope } []
      · intro sub
        rw [ploop_append_ok _ _ _ _ (ploop_symbol hcc T _ _ U lows hU hl),
          ploop_cons_ok _ _ _ _ (step_elem_lbr cc T sub _ hcc _ rfl), ploop_nil]
        simp
      · rw [← this]; exact hdoom _ _ rfl rfl (Or.inl rfl)
    · subst hc
      apply err_of_notOk
      intro ents h
      unfold parseFormula parseA at h
      obtain ⟨⟨p, acc⟩, hl', hf⟩ := Res.bind_ok_inv h
      rw [ploop_append_ok _ _ _ _ (ploop_symbol hcc T _ _ U lows hU hl), ploop_cons] at hl'
      obtain ⟨x, hx, _⟩ := Res.bind_ok_inv hl'
      revert hx
      have ha : isAsciiAlpha 40 = false := by decide
      have hn : cc.numeric 40 = false := by rw [(hcc 40 (by omega)).2.1]; rfl
      unfold pstep
      simp only [ha, hn]
      simp only [Bool.false_eq_true, if_false, beq_self_eq_true, if_true]
      exact NotOk.bind_left (hflushE _ _ _ rfl (by simp)) x

/-! ### (c) an oversized count -/

theorem parseI32_overflow (ds : List Nat) (v : Nat) (hv : digitsVal ds = some v) (hbig : 2147483647 < v) :
    parseI32 ds = none := by
  obtain ⟨hne, hall⟩ := digitsVal_some_all hv
  cases ds with
  | nil => exact (hne rfl).elim
  | cons d ds' =>
    have hd : isAsciiDigit d = true := by
      simp only [List.all_cons, Bool.and_eq_true] at hall; exact hall.1
    have h45 : d ≠ 45 ∧ d ≠ 43 := by
      simp only [isAsciiDigit, Bool.and_eq_true, decide_eq_true_eq] at hd; omega
    unfold parseI32
    split
    · rename_i heq; injection heq with h1 _; exact (h45.1 h1).elim
    · rename_i heq; injection heq with h1 _; exact (h45.2 h1).elim
    · rw [hv]
      have : ¬ v ≤ 2147483647 := by omega
      simp only [this, if_false]

/-- **(c)** a formula that begins with `Sym<digits>` where the digit string (the whole run of digits: the text ends there
    or goes on with a non-numeric character) has a value above `i32::MAX = 2147483647` is rejected -/
theorem reject_oversized_count (cc : CharClass) (hcc : cc.AsciiOK) (T : Table) (U : Nat) (lows ds rest : List Nat)
    (v : Nat) (hU : isAsciiUpper U = true) (hl : ∀ c ∈ lows, isAsciiLower c = true)
    (hv : digitsVal ds = some v) (hbig : 2147483647 < v)
    (hrest : ∀ c, rest.head? = some c → cc.numeric c = false) :
    parseFormula cc T ((U :: lows) ++ ds ++ rest) = .err := by
  have hpI := parseI32_overflow ds v hv hbig
  obtain ⟨hne, hall⟩ := digitsVal_some_all hv
  have hdig : ∀ c ∈ ds, isAsciiDigit c = true := by simpa using hall
  let n := (U :: lows).length
  let p0 : PState := { ee := n, cs := n, st := .count }
  -- the count is sliced and fails to parse, whatever the end offset handed over is, as long as it is the end of `ds`
  have hflush : ∀ acc, NotOk (flushCount T ((U :: lows) ++ ds ++ rest) { p0 with ce := n + ds.length } acc) := by
    intro acc
    unfold flushCount
    apply NotOk.bind_left
    unfold elemCount
    rw [slice_mid (pre := U :: lows) (mid := ds) (post := rest) rfl (by simp [p0, n]) (by simp [p0, n])]
    simp only [Res.ok_bind, hpI]
    exact notOk_err
  have hrun : ∀ sub, ploop cc T sub ((U :: lows) ++ ds ++ rest) ((U :: lows) ++ ds) 0 {} [] = .ok (p0, []) := by
    intro sub
    generalize (U :: lows) ++ ds ++ rest = s
    cases ds with
    | nil => exact (hne rfl).elim
    | cons d ds' =>
      rw [ploop_append_ok cc T sub s (ploop_symbol hcc T sub s U lows hU hl),
        ploop_cons_ok cc T sub s (step_elem_digit cc T sub s hcc _ rfl (hdig d (by simp))),
        ploop_digits_count cc T sub s hcc _ rfl (fun c hc => hdig c (List.mem_cons_of_mem _ hc))]
      simp [p0, n]
  apply err_of_notOk
  intro ents h
  unfold parseFormula parseA at h
  obtain ⟨⟨p, acc⟩, hl', hf⟩ := Res.bind_ok_inv h
  rw [ploop_append_ok _ _ _ _ (hrun _)] at hl'
  cases rest with
  | nil =>
    rw [ploop_nil] at hl'
    injection hl' with hl'; injection hl' with h1 h2
    subst h1; subst h2
    revert hf
    unfold pfinish
    simp only [p0]
    have := hflush []
    simp only [p0, n, List.append_nil, List.length_append, List.length_cons] at this ⊢
    exact NotOk.bind_left this ents
  | cons c rest' =>
    rw [ploop_cons] at hl'
    obtain ⟨x, hx, _⟩ := Res.bind_ok_inv hl'
    revert hx
    have hc : cc.numeric c = false := hrest c rfl
    unfold pstep
    simp only [p0, hc, Bool.not_false, if_true]
    have := hflush []
    simp only [p0, n, List.length_append, List.length_cons, Nat.zero_add] at this ⊢
    exact NotOk.bind_left this x

/-! ### (d) blanks -/

/-- **(d)** a string containing a blank is rejected, provided no table symbol contains a blank -/
theorem reject_space (cc : CharClass) (hcc : cc.AsciiOK) (T : Table)
    (hT : T.all (fun e => !e.tkey.contains 32) = true) (s : List Nat) (hs : 32 ∈ s) :
    parseFormula cc T s = .err := by
  apply reject_foreign_char cc hcc T s 32 ?_ hs
  unfold formulaChar
  have : T.any (fun e => e.tkey.contains 32) = false := by
    rw [List.any_eq_false]
    intro e he
    have := List.all_eq_true.1 hT e he
    simpa using this
  rw [this]; rfl

/-! ### non-vacuity: the theorems apply to concrete texts over the one-element table `rejT` (`H`, isotope 1) and agree
with the evaluation of the parser -/

example : parseFormula c05cc rejT ([88, 120] ++ [50]) = .err :=            -- `Xx2`
  reject_unknown_symbol c05cc rejCC_ok rejT 88 [120] [50] (by decide) (by decide) (by decide) (by decide)
example : parseFormula c05cc rejT [88, 120, 50] = .err := by decide
example : parseFormula c05cc rejT ([72] ++ [91] ++ natDigits 2 ++ [93] ++ [50, 72]) = .err :=   -- `H[2]2H`
  reject_unknown_isotope_nat c05cc rejCC_ok rejT 72 [] [50, 72] (rejT.headD default) 2 (by decide) (by decide) (by decide)
    (by decide) (by decide)
example : parseFormula c05cc rejT [72, 91, 50, 93, 50, 72] = .err := by decide
example : parseFormula c05cc rejT [72, 91, 49, 93, 50, 72] = .ok [(([72], 1), 2), (([72], 0), 1)] := by decide  -- `H[1]2H`
example : parseFormula c05cc rejT ([72] ++ [50, 49, 52, 55, 52, 56, 51, 54, 52, 56] ++ [72]) = .err :=   -- `H2147483648H`
  reject_oversized_count c05cc rejCC_ok rejT 72 [] _ [72] 2147483648 (by decide) (by decide) (by decide) (by decide) (by decide)
example : parseFormula c05cc rejT [72, 50, 49, 52, 55, 52, 56, 51, 54, 52, 55, 72] = .ok [(([72], 0), 2147483648)] := by
  decide                                                                                      -- `H2147483647H` is accepted
example : parseFormula c05cc rejT [72, 50, 32, 72] = .err :=
  reject_space c05cc rejCC_ok rejT (by decide) _ (by decide)

end Chem
