import ChemProofs.Props.C05Sound
/-
C05 — named consequences of `parse_no_panic` + `parse_sound`: the kinds of malformed text the property lists
are rejected with an error value.
-/
namespace Chem
open Spec

/-- characters that can occur in the text of a well-formed formula over `T` -/
def formulaChar (T : Table) (c : Nat) : Bool :=
  isAsciiDigit c || c == 91 || c == 93 || c == 40 || c == 41 || T.any (fun e => e.tkey.contains c)

/-- parenthesis balance: never negative, zero at the end -/
def balancedFrom : Nat → List Nat → Bool
  | d, [] => d == 0
  | d, c :: rest =>
    if c == 40 then balancedFrom (d + 1) rest
    else if c == 41 then (match d with | 0 => false | d' + 1 => balancedFrom d' rest)
    else balancedFrom d rest

def balanced (s : List Nat) : Bool := balancedFrom 0 s

/-- no table key contains a parenthesis (true of the compiled table; see `Inst/C05.lean`) -/
def noParenKeys (T : Table) : Bool := T.all (fun e => !e.tkey.contains 40 && !e.tkey.contains 41)

/-! ### structural facts about renderings of well-formed trees -/

theorem find_key {T : Table} {sym : Sym} {e : Elem} (h : T.find? sym = some e) :
    e ∈ T ∧ e.tkey = sym := by
  unfold Table.find? at h
  exact ⟨List.mem_of_find?_eq_some h, by simpa using List.find?_some h⟩

theorem wf_elem_inv {T : Table} {sym : Sym} {iso cnt : Option (List Nat)}
    (h : (RTerm.elem sym iso cnt).wf T = true) :
    ∃ e, T.find? sym = some e ∧ upperHead sym = true ∧ isoOKr e iso = true ∧ cntOK cnt = true := by
  rw [RTerm.wf] at h
  cases hf : T.find? sym with
  | none => simp [hf] at h
  | some e =>
    simp [hf] at h
    exact ⟨e, rfl, h.1.1, h.1.2, h.2⟩

theorem wf_group_inv {T : Table} {body : RTerms} {cnt : Option (List Nat)}
    (h : (RTerm.group body cnt).wf T = true) :
    body.nonEmpty = true ∧ body.wf T = true ∧ cntOK cnt = true := by
  rw [RTerm.wf] at h
  simp at h
  exact ⟨h.1.1, h.1.2, h.2⟩

theorem wf_cons_inv {T : Table} {t : RTerm} {ts : RTerms} (h : (RTerms.cons t ts).wf T = true) :
    t.wf T = true ∧ ts.wf T = true := by
  rw [RTerms.wf] at h
  simpa using h

/-- characters of an optional count are ASCII digits -/
theorem cnt_chars {cnt : Option (List Nat)} (h : cntOK cnt = true) :
    ∀ c ∈ rOpt cnt, isAsciiDigit c = true := by
  cases cnt with
  | none => simp [rOpt]
  | some ds =>
    simp [cntOK] at h
    intro c hc
    exact h.1.2 c (by simpa [rOpt] using hc)

/-- characters of an optional isotope bracket are ASCII digits or brackets -/
theorem iso_chars {e : Elem} {iso : Option (List Nat)} (h : isoOKr e iso = true) :
    ∀ c ∈ rIso iso, isAsciiDigit c = true ∨ c = 91 ∨ c = 93 := by
  cases iso with
  | none => simp [rIso]
  | some ds =>
    intro c hc
    simp [rIso] at hc
    rcases hc with hc | hc | hc
    · exact Or.inr (Or.inl hc)
    · simp [isoOKr] at h
      rcases h with h | h
      · subst h; simp at hc
      · exact Or.inl (h.1 c hc)
    · exact Or.inr (Or.inr hc)

/-- the "plain" characters: digits, brackets and characters of table keys -/
def plainChar (T : Table) (c : Nat) : Prop :=
  isAsciiDigit c = true ∨ c = 91 ∨ c = 93 ∨ ∃ e ∈ T, c ∈ e.tkey

theorem elem_chars {T : Table} {sym : Sym} {iso cnt : Option (List Nat)}
    (h : (RTerm.elem sym iso cnt).wf T = true) :
    ∀ c ∈ sym ++ rIso iso ++ rOpt cnt, plainChar T c := by
  obtain ⟨e, hf, _, hi, hcn⟩ := wf_elem_inv h
  obtain ⟨hm, hk⟩ := find_key hf
  intro c hc
  simp only [List.mem_append] at hc
  rcases hc with (hc | hc) | hc
  · exact Or.inr (Or.inr (Or.inr ⟨e, hm, hk ▸ hc⟩))
  · rcases iso_chars hi c hc with h | h | h
    · exact Or.inl h
    · exact Or.inr (Or.inl h)
    · exact Or.inr (Or.inr (Or.inl h))
  · exact Or.inl (cnt_chars hcn c hc)

theorem plainChar_formulaChar {T : Table} {c : Nat} (h : plainChar T c) : formulaChar T c = true := by
  unfold formulaChar
  rcases h with h | h | h | ⟨e, he, hc⟩
  · simp [h]
  · simp [h]
  · simp [h]
  · have : T.any (fun e => e.tkey.contains c) = true :=
      List.any_eq_true.mpr ⟨e, he, by simpa using hc⟩
    simp only [this, Bool.or_true]

theorem plainChar_noParen {T : Table} (hT : noParenKeys T = true) {c : Nat} (h : plainChar T c) :
    c ≠ 40 ∧ c ≠ 41 := by
  rcases h with h | h | h | ⟨e, he, hc⟩
  · simp [isAsciiDigit] at h; omega
  · omega
  · omega
  · have := List.all_eq_true.mp hT e he
    simp at this
    refine ⟨?_, ?_⟩
    · rintro rfl; exact this.1 hc
    · rintro rfl; exact this.2 hc

theorem cnt_noParen {cnt : Option (List Nat)} (h : cntOK cnt = true) :
    ∀ c ∈ rOpt cnt, c ≠ 40 ∧ c ≠ 41 := by
  intro c hc
  have := cnt_chars h c hc
  simp [isAsciiDigit] at this; omega

/-! #### every character is a formula character -/

mutual
  theorem RTerm.render_chars (T : Table) : ∀ t : RTerm, t.wf T = true →
      ∀ c ∈ t.render, formulaChar T c = true
    | .elem sym iso cnt, h, c, hc => by
      rw [RTerm.render] at hc
      exact plainChar_formulaChar (elem_chars h c hc)
    | .group body cnt, h, c, hc => by
      obtain ⟨_, hb, hcn⟩ := wf_group_inv h
      rw [RTerm.render] at hc
      simp only [List.mem_append, List.mem_singleton] at hc
      rcases hc with ((hc | hc) | hc) | hc
      · subst hc; simp [formulaChar]
      · exact RTerms.render_chars T body hb c hc
      · subst hc; simp [formulaChar]
      · simp [formulaChar, cnt_chars hcn c hc]
  theorem RTerms.render_chars (T : Table) : ∀ ts : RTerms, ts.wf T = true →
      ∀ c ∈ ts.render, formulaChar T c = true
    | .nil, _, c, hc => by simp [RTerms.render] at hc
    | .cons t ts, h, c, hc => by
      obtain ⟨h1, h2⟩ := wf_cons_inv h
      rw [RTerms.render] at hc
      rcases List.mem_append.mp hc with hc | hc
      · exact RTerm.render_chars T t h1 c hc
      · exact RTerms.render_chars T ts h2 c hc
end

/-! #### renderings are balanced -/

theorem balancedFrom_skip (d : Nat) : ∀ (l rest : List Nat), (∀ c ∈ l, c ≠ 40 ∧ c ≠ 41) →
    balancedFrom d (l ++ rest) = balancedFrom d rest
  | [], _, _ => rfl
  | c :: l, rest, h => by
    have hc := h c (by simp)
    have ih := balancedFrom_skip d l rest (fun x hx => h x (by simp [hx]))
    simp [balancedFrom, hc.1, hc.2, ih]

mutual
  theorem RTerm.render_balanced (T : Table) (hT : noParenKeys T = true) : ∀ t : RTerm, t.wf T = true →
      ∀ (d : Nat) (rest : List Nat), balancedFrom d (t.render ++ rest) = balancedFrom d rest
    | .elem sym iso cnt, h, d, rest => by
      rw [RTerm.render]
      exact balancedFrom_skip d _ rest (fun c hc => plainChar_noParen hT (elem_chars h c hc))
    | .group body cnt, h, d, rest => by
      obtain ⟨_, hb, hcn⟩ := wf_group_inv h
      have e : (RTerm.group body cnt).render ++ rest
          = 40 :: (body.render ++ (41 :: (rOpt cnt ++ rest))) := by
        rw [RTerm.render]; simp
      rw [e]
      simp only [balancedFrom, beq_self_eq_true, if_true]
      rw [RTerms.render_balanced T hT body hb (d + 1)]
      simp only [balancedFrom]
      simp only [show ((41 : Nat) == 40) = false from rfl, beq_self_eq_true, if_true]
      exact balancedFrom_skip d _ rest (cnt_noParen hcn)
  theorem RTerms.render_balanced (T : Table) (hT : noParenKeys T = true) : ∀ ts : RTerms, ts.wf T = true →
      ∀ (d : Nat) (rest : List Nat), balancedFrom d (ts.render ++ rest) = balancedFrom d rest
    | .nil, _, d, rest => by simp [RTerms.render]
    | .cons t ts, h, d, rest => by
      obtain ⟨h1, h2⟩ := wf_cons_inv h
      rw [RTerms.render, List.append_assoc, RTerm.render_balanced T hT t h1,
        RTerms.render_balanced T hT ts h2]
end

/-! #### no `()` in a rendering -/

/-- no `(` is immediately followed by `)` -/
def noEmptyGroup : List Nat → Bool
  | [] => true
  | c :: rest => !(c == 40 && rest.head? == some 41) && noEmptyGroup rest

theorem noEmptyGroup_skip : ∀ (l rest : List Nat), (∀ c ∈ l, c ≠ 40) →
    noEmptyGroup (l ++ rest) = noEmptyGroup rest
  | [], _, _ => rfl
  | c :: l, rest, h => by
    have hc := h c (by simp)
    have ih := noEmptyGroup_skip l rest (fun x hx => h x (by simp [hx]))
    simp [noEmptyGroup, hc, ih]

theorem noEmptyGroup_infix : ∀ (pre post : List Nat), noEmptyGroup (pre ++ [40, 41] ++ post) = false
  | [], post => by simp [noEmptyGroup]
  | c :: pre, post => by
    have ih := noEmptyGroup_infix pre post
    simp only [List.cons_append, noEmptyGroup, ih, Bool.and_false]

/-- the first character of a well-formed term is not `)` -/
theorem RTerm.render_head {T : Table} : ∀ t : RTerm, t.wf T = true →
    ∃ c l, t.render = c :: l ∧ c ≠ 41
  | .elem sym iso cnt, h => by
    obtain ⟨_, _, hu, _, _⟩ := wf_elem_inv h
    cases sym with
    | nil => simp [upperHead] at hu
    | cons c l =>
      refine ⟨c, l ++ rIso iso ++ rOpt cnt, by rw [RTerm.render]; simp, ?_⟩
      simp [upperHead, isAsciiUpper] at hu; omega
  | .group body cnt, _ => ⟨40, body.render ++ [41] ++ rOpt cnt, by rw [RTerm.render]; simp, by decide⟩

theorem RTerms.render_head {T : Table} : ∀ ts : RTerms, ts.nonEmpty = true → ts.wf T = true →
    ∃ c l, ts.render = c :: l ∧ c ≠ 41
  | .nil, hne, _ => by simp [RTerms.nonEmpty] at hne
  | .cons t ts, _, h => by
    obtain ⟨c, l, e, hc⟩ := RTerm.render_head t (wf_cons_inv h).1
    exact ⟨c, l ++ ts.render, by rw [RTerms.render, e]; simp, hc⟩

mutual
  theorem RTerm.render_noEmptyGroup (T : Table) (hT : noParenKeys T = true) : ∀ t : RTerm, t.wf T = true →
      ∀ rest : List Nat, noEmptyGroup (t.render ++ rest) = noEmptyGroup rest
    | .elem sym iso cnt, h, rest => by
      rw [RTerm.render]
      exact noEmptyGroup_skip _ rest (fun c hc => (plainChar_noParen hT (elem_chars h c hc)).1)
    | .group body cnt, h, rest => by
      obtain ⟨hne, hb, hcn⟩ := wf_group_inv h
      obtain ⟨c, l, e, hc⟩ := RTerms.render_head body hne hb
      have e1 : (RTerm.group body cnt).render ++ rest
          = 40 :: (body.render ++ (41 :: (rOpt cnt ++ rest))) := by
        rw [RTerm.render]; simp
      have hh : ((body.render ++ (41 :: (rOpt cnt ++ rest))).head? == some 41) = false := by
        rw [e]; simpa using hc
      rw [e1, noEmptyGroup, hh]
      rw [RTerms.render_noEmptyGroup T hT body hb]
      simp only [noEmptyGroup, show ((41 : Nat) == 40) = false from rfl, Bool.false_and, Bool.not_false,
        Bool.true_and]
      exact noEmptyGroup_skip _ rest (fun c hc => (cnt_noParen hcn c hc).1)
  theorem RTerms.render_noEmptyGroup (T : Table) (hT : noParenKeys T = true) : ∀ ts : RTerms, ts.wf T = true →
      ∀ rest : List Nat, noEmptyGroup (ts.render ++ rest) = noEmptyGroup rest
    | .nil, _, rest => by simp [RTerms.render]
    | .cons t ts, h, rest => by
      obtain ⟨h1, h2⟩ := wf_cons_inv h
      rw [RTerms.render, List.append_assoc, RTerm.render_noEmptyGroup T hT t h1,
        RTerms.render_noEmptyGroup T hT ts h2]
end

/-- an accepted text is the rendering of a well-formed tree; otherwise the outcome is an error value -/
theorem err_of_not_rendering (cc : CharClass) (hcc : cc.AsciiOK) (T : Table) (s : List Nat)
    (h : ∀ ts : RTerms, ts.wf T = true → ts.render = s → False) : parseFormula cc T s = .err := by
  cases hr : parseFormula cc T s with
  | ok ents =>
    obtain ⟨ts, _, hwf, hrd, _⟩ := parse_sound cc hcc T s ents hr
    exact (h ts hwf hrd).elim
  | err => rfl
  | panic => exact (parse_no_panic cc T s hr).elim

/-- whitespace, junk and non-ASCII characters: a string containing a character that is not a digit, a bracket,
    a parenthesis or a character of some table symbol is rejected with an error value -/
theorem reject_foreign_char (cc : CharClass) (hcc : cc.AsciiOK) (T : Table) (s : List Nat) (c : Nat)
    (hc : formulaChar T c = false) (hs : c ∈ s) : parseFormula cc T s = .err := by
  refine err_of_not_rendering cc hcc T s (fun ts hwf hrd => ?_)
  have := RTerms.render_chars T ts hwf c (hrd ▸ hs)
  simp [hc] at this

/-- unbalanced parentheses are rejected -/
theorem reject_unbalanced (cc : CharClass) (hcc : cc.AsciiOK) (T : Table) (hT : noParenKeys T = true)
    (s : List Nat) (h : balanced s = false) : parseFormula cc T s = .err := by
  refine err_of_not_rendering cc hcc T s (fun ts hwf hrd => ?_)
  have := RTerms.render_balanced T hT ts hwf 0 []
  rw [List.append_nil, hrd] at this
  simp [balanced, this, balancedFrom] at h

/-- an empty group `()` anywhere in the text is rejected -/
theorem reject_empty_group (cc : CharClass) (hcc : cc.AsciiOK) (T : Table) (hT : noParenKeys T = true)
    (pre post : List Nat) : parseFormula cc T (pre ++ [40, 41] ++ post) = .err := by
  refine err_of_not_rendering cc hcc T _ (fun ts hwf hrd => ?_)
  have := RTerms.render_noEmptyGroup T hT ts hwf []
  rw [List.append_nil, hrd, noEmptyGroup_infix] at this
  simp [noEmptyGroup] at this

/-- the empty string is rejected -/
theorem reject_empty (cc : CharClass) (T : Table) : parseFormula cc T [] = .err := by
  rfl

/-- a string that does not start with an ASCII upper-case letter or `(` is rejected -/
theorem reject_bad_start (cc : CharClass) (T : Table) (c : Nat) (rest : List Nat)
    (h1 : isAsciiUpper c = false) (h2 : c ≠ 40) : parseFormula cc T (c :: rest) = .err := by
  have hp : ∀ sub, pstep cc T sub (c :: rest) {} [] 0 c = .err := by
    intro sub
    simp [pstep, isUpperStart, h1, h2]
  simp [parseFormula, parseA, ploop, hp, Res.bind]

/-! ### non-vacuity: every hypothesis above is satisfiable, on a one-element table keyed `H` -/

/-- the table with the single element H (isotope 1) -/
def rejT : Table :=
  [ { tkey := [72], sym := [72], isos := [⟨1, 1007825, 999885, 0, 0⟩],
      mostIso := 1, mostMass := 1007825, minShift := 0, maxShift := 0, elemNum := 1 } ]

/-- the ASCII-only character class satisfies `AsciiOK` -/
theorem rejCC_ok : c05cc.AsciiOK := fun _ _ => ⟨rfl, rfl, rfl⟩

example : noParenKeys rejT = true := by decide
example : formulaChar rejT 32 = false := by decide          -- a blank
example : formulaChar rejT 233 = false := by decide         -- `é`
example : formulaChar rejT 72 = true := by decide           -- `H` is a formula character
example : (32 : Nat) ∈ [72, 32, 72] := by decide
example : balanced [40, 72] = false := by decide            -- `(H`
example : balanced [72, 41] = false := by decide            -- `H)`
example : balanced [41, 40] = false := by decide            -- `)(`
example : balanced [40, 72, 41, 50] = true := by decide     -- `(H)2`
example : isAsciiUpper 50 = false ∧ (50 : Nat) ≠ 40 := by decide   -- a text starting with `2`

/-- the conclusions are not trivially true either: well-formed texts are accepted … -/
example : parseFormula c05cc rejT [72, 50] = .ok [(([72], 0), 2)] := by decide
example : parseFormula c05cc rejT [40, 72, 41, 50] = .ok [(([72], 0), 2)] := by decide

/-- … and the theorems apply to (and agree with the evaluation of) concrete malformed texts -/
example : parseFormula c05cc rejT [72, 32, 72] = .err :=
  reject_foreign_char c05cc rejCC_ok rejT _ 32 (by decide) (by decide)
example : parseFormula c05cc rejT [40, 72] = .err :=
  reject_unbalanced c05cc rejCC_ok rejT (by decide) _ (by decide)
example : parseFormula c05cc rejT ([72] ++ [40, 41] ++ [50]) = .err :=
  reject_empty_group c05cc rejCC_ok rejT (by decide) [72] [50]
example : parseFormula c05cc rejT [50, 72] = .err :=
  reject_bad_start c05cc rejT 50 [72] (by decide) (by decide)
example : parseFormula c05cc rejT [72, 32, 72] = .err := by decide
example : parseFormula c05cc rejT [40, 72] = .err := by decide
example : parseFormula c05cc rejT [72, 40, 41, 50] = .err := by decide
example : parseFormula c05cc rejT [50, 72] = .err := by decide
example : parseFormula c05cc rejT [] = .err := by decide

end Chem
