import ChemProofs.Model.Formula
import ChemProofs.Spec.RawGrammar
import ChemProofs.Lemmas.Ents
import ChemProofs.Lemmas.Digits
import ChemProofs.Lemmas.PStep
import ChemProofs.Lemmas.Sound
import ChemProofs.Props.C05
/-
C05, converse direction — a composition is returned ONLY for a well-formed formula.

PROVED (no `sorry`; core Lean only; standard axioms only):

  theorem parse_sound (cc) (hcc : cc.AsciiOK) (T) (s ents) (h : parseFormula cc T s = .ok ents) :
      ∃ ts : Spec.RTerms, ts.nonEmpty = true ∧ ts.wf T = true ∧ ts.render = s ∧
        ents.NoDupKeys ∧ ∀ k, ents.get k = ts.denote T k

Structure:
  * `Lemmas/Sound.lean`: `RTerms.snoc` (+ `render_snoc`, `wf_snoc`, `denote_snoc`), inversion lemmas of the
    fallible helpers (`flushElem_inv`, `flushIso_inv`, `flushCount_inv`, …), digit strings
    (`cntOK_of_parse`, `isoOKr_of_parse`), and `Done T ts acc` (“`acc` is the denotation of the
    well-formed terms `ts`”) with `Done.snoc_elem` / `Done.snoc_group`.
  * here: `Reads cc T pre p acc` — the invariant of the machine after the prefix `pre` of the text: `pre` is
    the rendering of the terms flushed so far followed by the text of the term being read, the offsets
    of `p` delimiting its parts; `Closed T pre acc` — `pre` is exactly the rendering of a non-empty
    well-formed term list denoted by `acc`;
    the flush lemmas (`flushElem_closed`, `flushIso_closed`, `flushCount_closed`, `group_closed`,
    `groupCount_closed`), one step lemma per state (`step_new`, …, `step_groupCount`), `pstep_reads`,
    `ploop_reads`, `pfinish_closed`, `parseA_sound` (induction on the fuel).
-/
set_option linter.unusedSimpArgs false
namespace Chem
open Spec

/-! ## the invariant -/

/-- the bracket offsets in state `Count`: nothing pending, or a bracket `[d]` right after the symbol -/
def IsoPend (cc : CharClass) (p : PState) : Option (List Nat) → Prop
  | none => p.is = 0 ∧ p.ie = 0
  | some d => p.is = p.ee + 1 ∧ p.ie = p.is + d.length ∧ ∀ c ∈ d, cc.numeric c = true

/-- the machine has read `pre`: the terms `ts` are flushed into `acc`, the rest of `pre` is the text of
    the term being read, delimited by the offsets of `p` -/
def Reads (cc : CharClass) (T : Table) (pre : List Nat) (p : PState) (acc : Ents) : Prop :=
  ∃ ts : RTerms, Done T ts acc ∧
    match p.st with
    | .new => pre = ts.render ∧ p.is = 0 ∧ p.ie = 0
    | .element => ∃ sym, pre = ts.render ++ sym ∧ p.es = ts.render.length ∧ upperHead sym = true ∧
        p.is = 0 ∧ p.ie = 0
    | .isotope => ∃ sym ds, pre = ts.render ++ (sym ++ (91 :: ds)) ∧ p.es = ts.render.length ∧
        p.ee = p.es + sym.length ∧ upperHead sym = true ∧ p.is = p.ee + 1 ∧
        (∀ c ∈ ds, cc.numeric c = true)
    | .isotopeToCount => ∃ sym ds, pre = ts.render ++ (sym ++ (91 :: (ds ++ [93]))) ∧
        p.es = ts.render.length ∧ p.ee = p.es + sym.length ∧ upperHead sym = true ∧
        p.is = p.ee + 1 ∧ p.ie = p.is + ds.length ∧ (∀ c ∈ ds, cc.numeric c = true)
    | .count => ∃ sym iso ds, pre = ts.render ++ (sym ++ (rIso iso ++ ds)) ∧ p.es = ts.render.length ∧
        p.ee = p.es + sym.length ∧ upperHead sym = true ∧ p.cs = p.ee + (rIso iso).length ∧
        (∀ c ∈ ds, cc.numeric c = true) ∧ IsoPend cc p iso
    | .group => ∃ body, pre = ts.render ++ (40 :: body) ∧ p.gs = ts.render.length + 1 ∧
        p.is = 0 ∧ p.ie = 0
    | .groupToGroupCount => ∃ body, pre = ts.render ++ (40 :: (body ++ [41])) ∧
        p.gs = ts.render.length + 1 ∧ p.ge = p.gs + body.length ∧ p.is = 0 ∧ p.ie = 0
    | .groupCount => ∃ body ds, pre = ts.render ++ (40 :: (body ++ 41 :: ds)) ∧
        p.gs = ts.render.length + 1 ∧ p.ge = p.gs + body.length ∧ p.gcs = p.ge + 1 ∧
        (∀ c ∈ ds, cc.numeric c = true) ∧ p.is = 0 ∧ p.ie = 0

/-- `pre` is the rendering of a non-empty well-formed term list whose denotation is `acc` -/
def Closed (T : Table) (pre : List Nat) (acc : Ents) : Prop :=
  ∃ ts : RTerms, ts.nonEmpty = true ∧ Done T ts acc ∧ ts.render = pre

/-- the recursive parser is sound -/
def SubSound (T : Table) (sub : List Nat → Res Ents) : Prop :=
  ∀ b g, sub b = .ok g → Closed T b g

theorem upperHead_append {sym : Sym} (h : upperHead sym = true) (l : List Nat) :
    upperHead (sym ++ l) = true := by
  cases sym with
  | nil => cases h
  | cons c cs => exact h

theorem mem_snoc_numeric {cc : CharClass} {ds : List Nat} {c : Nat}
    (h : ∀ x ∈ ds, cc.numeric x = true) (hc : cc.numeric c = true) :
    ∀ x ∈ ds ++ [c], cc.numeric x = true := by
  intro x hx
  rcases List.mem_append.1 hx with hx | hx
  · exact h x hx
  · simp only [List.mem_singleton] at hx; subst hx; exact hc

theorem ok_pair_inj {α β} {a a' : α} {b b' : β} (h : (Res.ok (a, b) : Res (α × β)) = .ok (a', b')) :
    a = a' ∧ b = b' := by
  injection h with h
  injection h with h1 h2
  exact ⟨h1, h2⟩

/-! ## flushes close a term -/

section
variable {cc : CharClass} {T : Table} {sub : List Nat → Res Ents} {s : List Nat}

theorem flushElem_closed {ts : RTerms} {sym post : List Nat} {p p' : PState} {acc acc' : Ents}
    (hd : Done T ts acc) (hs : s = ts.render ++ (sym ++ post))
    (hes : p.es = ts.render.length) (hee : p.ee = p.es + sym.length) (hu : upperHead sym = true)
    (h : flushElem T s p acc = .ok (p', acc')) :
    p' = { p with es := 0, ee := 0 } ∧ Closed T (ts.render ++ sym) acc' := by
  obtain ⟨sym', e, hsl, hf, hp, hacc⟩ := flushElem_inv h
  have : sym' = sym := slice_val hsl hs hes (by omega)
  subst this
  refine ⟨hp, ts.snoc (.elem sym' none none), RTerms.nonEmpty_snoc _ _, ?_, ?_⟩
  · rw [hacc]
    exact hd.snoc_elem hf hu rfl rfl rfl rfl
  · rw [RTerms.render_snoc]
    simp [RTerm.render, rIso, rOpt]

theorem flushIso_closed (hcc : cc.AsciiOK) {ts : RTerms} {sym ds post : List Nat} {p p' : PState}
    {acc acc' : Ents}
    (hd : Done T ts acc) (hs : s = ts.render ++ (sym ++ (91 :: (ds ++ 93 :: post))))
    (hes : p.es = ts.render.length) (hee : p.ee = p.es + sym.length) (hu : upperHead sym = true)
    (his : p.is = p.ee + 1) (hie : p.ie = p.is + ds.length) (hnum : ∀ c ∈ ds, cc.numeric c = true)
    (h : flushIso T s p acc = .ok (p', acc')) :
    p' = { p with es := 0, ee := 0, is := 0, ie := 0 } ∧
      Closed T (ts.render ++ (sym ++ (91 :: (ds ++ [93])))) acc' := by
  obtain ⟨sym', e, ds', v, hsl, hf, hsl2, hv, hiso, hp, hacc⟩ := flushIso_inv h
  have : sym' = sym := slice_val hsl hs hes (by omega)
  subst this
  have : ds' = ds := slice_val (pre := ts.render ++ (sym' ++ [91])) (post := 93 :: post) hsl2
    (by rw [hs]; simp) (by simp; omega) (by simp; omega)
  subst this
  obtain ⟨hok, hval⟩ := isoOKr_of_parse hcc hnum hv hiso
  refine ⟨hp, ts.snoc (.elem sym' (some ds') none), RTerms.nonEmpty_snoc _ _, ?_, ?_⟩
  · rw [hacc]
    exact hd.snoc_elem hf hu hok hval rfl rfl
  · rw [RTerms.render_snoc]
    simp [RTerm.render, rIso, rOpt]

theorem flushCount_closed (hcc : cc.AsciiOK) {ts : RTerms} {sym ds post : List Nat}
    {iso : Option (List Nat)} {p p' : PState} {acc acc' : Ents}
    (hd : Done T ts acc) (hs : s = ts.render ++ (sym ++ (rIso iso ++ (ds ++ post))))
    (hes : p.es = ts.render.length) (hee : p.ee = p.es + sym.length) (hu : upperHead sym = true)
    (hcs : p.cs = p.ee + (rIso iso).length) (hce : p.ce = p.cs + ds.length)
    (hnum : ∀ c ∈ ds, cc.numeric c = true) (hpend : IsoPend cc p iso)
    (h : flushCount T s p acc = .ok (p', acc')) :
    p' = { p with cs := 0, ce := 0, es := 0, ee := 0, is := 0, ie := 0 } ∧
      Closed T (ts.render ++ (sym ++ (rIso iso ++ ds))) acc' := by
  obtain ⟨cds, n, sym', e, v, hsl1, hn, hsl, hf, hv, hiso, hp, hacc⟩ := flushCount_inv h
  have : sym' = sym := slice_val hsl hs hes (by omega)
  subst this
  have : cds = ds := slice_val (pre := ts.render ++ (sym' ++ rIso iso)) (post := post) hsl1
    (by rw [hs]; simp) (by simp; omega) (by simp; omega)
  subst this
  obtain ⟨hcok, hcval⟩ := cntOK_of_parse hcc hnum hn
  have key : isoOKr e iso = true ∧ isoVal iso = v := by
    cases iso with
    | none =>
      obtain ⟨h1, h2⟩ := hpend
      rcases hv with ⟨_, hv0⟩ | ⟨hne, _⟩
      · subst hv0; exact ⟨rfl, rfl⟩
      · exact absurd (by omega) hne
    | some d =>
      obtain ⟨h1, h2, h3⟩ := hpend
      rcases hv with ⟨heq, hv0⟩ | ⟨_, ds', hsl2, hv'⟩
      · have : d = [] := List.eq_nil_of_length_eq_zero (by omega)
        subst this; subst hv0
        exact isoOKr_empty e
      · have : ds' = d := slice_val (pre := ts.render ++ (sym' ++ [91])) (post := 93 :: (cds ++ post))
          hsl2 (by rw [hs]; simp [rIso]) (by simp; omega) (by simp; omega)
        subst this
        exact isoOKr_of_parse hcc h3 hv' hiso
  refine ⟨hp, ts.snoc (.elem sym' iso (some cds)), RTerms.nonEmpty_snoc _ _, ?_, ?_⟩
  · rw [hacc]
    exact hd.snoc_elem hf hu key.1 key.2 hcok hcval
  · rw [RTerms.render_snoc]
    simp [RTerm.render, rOpt]

theorem group_closed (hsub : SubSound T sub) {ts : RTerms} {body post b : List Nat} {gs ge : Nat}
    {acc g : Ents}
    (hd : Done T ts acc) (hs : s = ts.render ++ (40 :: (body ++ 41 :: post)))
    (hgs : gs = ts.render.length + 1) (hge : ge = gs + body.length)
    (hsl : slice s gs ge = .ok b) (hg : sub b = .ok g) :
    Closed T (ts.render ++ (40 :: (body ++ [41]))) (acc.addFrom g 1) := by
  have : b = body := slice_val (pre := ts.render ++ [40]) (post := 41 :: post) hsl
    (by rw [hs]; simp) (by simp; omega) (by simp; omega)
  subst this
  obtain ⟨bt, hne, hbd, hbr⟩ := hsub b g hg
  refine ⟨ts.snoc (.group bt none), RTerms.nonEmpty_snoc _ _, hd.snoc_group_one hbd hne, ?_⟩
  rw [RTerms.render_snoc]
  simp [RTerm.render, rOpt, hbr]

theorem groupCount_closed (hcc : cc.AsciiOK) (hsub : SubSound T sub) {ts : RTerms}
    {body ds post b : List Nat} {p p' : PState} {gs ge : Nat} {acc g : Ents} {n : Int}
    (hd : Done T ts acc) (hs : s = ts.render ++ (40 :: (body ++ 41 :: (ds ++ post))))
    (hgs : gs = ts.render.length + 1) (hge : ge = gs + body.length)
    (hgcs : p.gcs = ge + 1) (hgce : p.gce = p.gcs + ds.length)
    (hnum : ∀ c ∈ ds, cc.numeric c = true)
    (hsl : slice s gs ge = .ok b) (hg : sub b = .ok g) (hc : groupCount s p = .ok (n, p')) :
    p' = { p with gcs := 0, gce := 0 } ∧
      Closed T (ts.render ++ (40 :: (body ++ 41 :: ds))) (acc.addFrom (g.mapCounts (n * ·)) 1) := by
  have : b = body := slice_val (pre := ts.render ++ [40]) (post := 41 :: (ds ++ post)) hsl
    (by rw [hs]; simp) (by simp; omega) (by simp; omega)
  subst this
  obtain ⟨cds, hsl2, hn, hp⟩ := groupCount_inv hc
  have : cds = ds := slice_val (pre := ts.render ++ (40 :: (b ++ [41]))) (post := post) hsl2
    (by rw [hs]; simp) (by simp; omega) (by simp; omega)
  subst this
  obtain ⟨hcok, hcval⟩ := cntOK_of_parse hcc hnum hn
  obtain ⟨bt, hne, hbd, hbr⟩ := hsub b g hg
  refine ⟨hp, ts.snoc (.group bt (some cds)), RTerms.nonEmpty_snoc _ _,
    hd.snoc_group hbd hne hcok hcval, ?_⟩
  rw [RTerms.render_snoc]
  simp [RTerm.render, rOpt, hbr]

/-- after a closed term, `afterTerm` starts the next one -/
theorem afterTerm_reads {pre : List Nat} {q q' : PState} {acc : Ents} {c : Nat} {b : Bool}
    {upper : Nat → Bool} (hcl : Closed T pre acc) (hi : q.is = 0) (he : q.ie = 0)
    (hup : ∀ c, upper c = true → isAsciiUpper c = true)
    (h : afterTerm q pre.length c b upper = .ok q') : Reads cc T (pre ++ [c]) q' acc := by
  obtain ⟨ts, _, hd, hr⟩ := hcl
  unfold afterTerm at h
  split at h
  · rename_i h40
    have h40 : c = 40 := by simpa using h40
    injection h with h
    subst h h40
    refine ⟨ts, hd, ?_⟩
    dsimp only
    exact ⟨[], by rw [hr], by rw [hr], hi, he⟩
  · split at h
    · rename_i hu
      injection h with h
      subst h
      refine ⟨ts, hd, ?_⟩
      dsimp only
      exact ⟨[c], by rw [hr], by rw [hr], hup c hu, hi, he⟩
    · cases h

theorem isUpperStart_upper (c : Nat) (h : isUpperStart c = true) : isAsciiUpper c = true :=
  (upperStart_facts h).2.1

/-! ## one step of the machine, state by state -/

variable (s) in
theorem step_new {pre : List Nat} {c : Nat} {p p' : PState} {acc acc' : Ents}
    (hst : p.st = .new) (hr : Reads cc T pre p acc)
    (h : pstep cc T sub s p acc pre.length c = .ok (p', acc')) : Reads cc T (pre ++ [c]) p' acc' := by
  obtain ⟨es, ee, is, ie, cs, ce, paren, gs, ge, gcs, gce, st⟩ := p
  dsimp only at hst; subst hst
  obtain ⟨ts, hd, hr⟩ := hr
  dsimp only at hr
  obtain ⟨hpre, hi, he⟩ := hr
  unfold pstep at h; dsimp only at h
  split at h
  · rename_i hu
    obtain ⟨h1, h2⟩ := ok_pair_inj h
    subst h1 h2
    refine ⟨ts, hd, ?_⟩
    dsimp only
    exact ⟨[c], by rw [hpre], by rw [hpre], isUpperStart_upper c hu, hi, he⟩
  · split at h
    · rename_i h40
      have h40 : c = 40 := by simpa using h40
      obtain ⟨h1, h2⟩ := ok_pair_inj h
      subst h1 h2 h40
      refine ⟨ts, hd, ?_⟩
      dsimp only
      exact ⟨[], by rw [hpre], by rw [hpre], hi, he⟩
    · cases h

variable (s) in
theorem step_group {pre : List Nat} {c : Nat} {p p' : PState} {acc acc' : Ents}
    (hst : p.st = .group) (hr : Reads cc T pre p acc)
    (h : pstep cc T sub s p acc pre.length c = .ok (p', acc')) : Reads cc T (pre ++ [c]) p' acc' := by
  obtain ⟨es, ee, is, ie, cs, ce, paren, gs, ge, gcs, gce, st⟩ := p
  dsimp only at hst; subst hst
  obtain ⟨ts, hd, hr⟩ := hr
  dsimp only at hr
  obtain ⟨body, hpre, hgs, hi, he⟩ := hr
  unfold pstep at h; dsimp only at h
  split at h
  · rename_i h41
    have h41 : c = 41 := by simpa using h41
    subst h41
    split at h
    · obtain ⟨h1, h2⟩ := ok_pair_inj h
      subst h1 h2
      refine ⟨ts, hd, ?_⟩
      dsimp only
      refine ⟨body, by rw [hpre]; simp, hgs, ?_, hi, he⟩
      rw [hpre, hgs]; simp; omega
    · obtain ⟨h1, h2⟩ := ok_pair_inj h
      subst h1 h2
      refine ⟨ts, hd, ?_⟩
      dsimp only
      exact ⟨body ++ [41], by rw [hpre]; simp, hgs, hi, he⟩
  · split at h
    · obtain ⟨h1, h2⟩ := ok_pair_inj h
      subst h1 h2
      refine ⟨ts, hd, ?_⟩
      dsimp only
      exact ⟨body ++ [c], by rw [hpre]; simp, hgs, hi, he⟩
    · obtain ⟨h1, h2⟩ := ok_pair_inj h
      subst h1 h2
      refine ⟨ts, hd, ?_⟩
      dsimp only
      exact ⟨body ++ [c], by rw [hpre]; simp, hgs, hi, he⟩

variable (s) in
theorem step_isotope {pre : List Nat} {c : Nat} {p p' : PState} {acc acc' : Ents}
    (hst : p.st = .isotope) (hr : Reads cc T pre p acc)
    (h : pstep cc T sub s p acc pre.length c = .ok (p', acc')) : Reads cc T (pre ++ [c]) p' acc' := by
  obtain ⟨es, ee, is, ie, cs, ce, paren, gs, ge, gcs, gce, st⟩ := p
  dsimp only at hst; subst hst
  obtain ⟨ts, hd, hr⟩ := hr
  dsimp only at hr
  obtain ⟨sym, ds, hpre, hes, hee, hu, his, hnum⟩ := hr
  unfold pstep at h; dsimp only at h
  split at h
  · rename_i h93
    have h93 : c = 93 := by simpa using h93
    obtain ⟨h1, h2⟩ := ok_pair_inj h
    subst h1 h2 h93
    refine ⟨ts, hd, ?_⟩
    dsimp only
    refine ⟨sym, ds, by rw [hpre]; simp, hes, hee, hu, his, ?_, hnum⟩
    rw [hpre]; simp; omega
  · split at h
    · cases h
    · rename_i hn
      have hn : cc.numeric c = true := by simpa using hn
      obtain ⟨h1, h2⟩ := ok_pair_inj h
      subst h1 h2
      refine ⟨ts, hd, ?_⟩
      dsimp only
      exact ⟨sym, ds ++ [c], by rw [hpre]; simp, hes, hee, hu, his, mem_snoc_numeric hnum hn⟩

theorem step_element {pre rest : List Nat} {c : Nat} {p p' : PState} {acc acc' : Ents}
    (hs : s = pre ++ c :: rest)
    (hst : p.st = .element) (hr : Reads cc T pre p acc)
    (h : pstep cc T sub s p acc pre.length c = .ok (p', acc')) : Reads cc T (pre ++ [c]) p' acc' := by
  obtain ⟨es, ee, is, ie, cs, ce, paren, gs, ge, gcs, gce, st⟩ := p
  dsimp only at hst; subst hst
  obtain ⟨ts, hd, hr⟩ := hr
  dsimp only at hr
  obtain ⟨sym, hpre, hes, hu, hi, he⟩ := hr
  have hs' : s = ts.render ++ (sym ++ c :: rest) := by rw [hs, hpre]; simp
  have hlen : pre.length = es + sym.length := by rw [hpre, hes]; simp
  unfold pstep at h; dsimp only at h
  split at h
  · split at h
    · rename_i hup
      obtain ⟨⟨q, acc1⟩, hf, h⟩ := Res.bind_ok_inv h
      obtain ⟨hq, ts', hne, hd', hr'⟩ := flushElem_closed hd hs' hes hlen hu hf
      obtain ⟨h1, h2⟩ := ok_pair_inj h
      subst h1 h2 hq
      refine ⟨ts', hd', ?_⟩
      dsimp only
      exact ⟨[c], by rw [hr', hpre], by rw [hr', hpre], hup, hi, he⟩
    · obtain ⟨h1, h2⟩ := ok_pair_inj h
      subst h1 h2
      refine ⟨ts, hd, ?_⟩
      dsimp only
      exact ⟨sym ++ [c], by rw [hpre]; simp, hes, upperHead_append hu _, hi, he⟩
  · split at h
    · rename_i hn
      obtain ⟨h1, h2⟩ := ok_pair_inj h
      subst h1 h2
      refine ⟨ts, hd, ?_⟩
      dsimp only
      refine ⟨sym, none, [c], by rw [hpre]; simp [rIso], hes, hlen, hu, by simp [rIso], ?_, hi, he⟩
      intro x hx
      simp only [List.mem_singleton] at hx; subst hx; exact hn
    · split at h
      · rename_i h91
        have h91 : c = 91 := by simpa using h91
        obtain ⟨h1, h2⟩ := ok_pair_inj h
        subst h1 h2 h91
        refine ⟨ts, hd, ?_⟩
        dsimp only
        exact ⟨sym, [], by rw [hpre]; simp, hes, hlen, hu, rfl, by simp⟩
      · split at h
        · rename_i h40
          have h40 : c = 40 := by simpa using h40
          obtain ⟨⟨q, acc1⟩, hf, h⟩ := Res.bind_ok_inv h
          obtain ⟨hq, ts', hne, hd', hr'⟩ := flushElem_closed hd hs' hes hlen hu hf
          obtain ⟨h1, h2⟩ := ok_pair_inj h
          subst h1 h2 hq h40
          refine ⟨ts', hd', ?_⟩
          dsimp only
          exact ⟨[], by rw [hr', hpre], by rw [hr', hpre], hi, he⟩
        · obtain ⟨h1, h2⟩ := ok_pair_inj h
          subst h1 h2
          refine ⟨ts, hd, ?_⟩
          dsimp only
          exact ⟨sym ++ [c], by rw [hpre]; simp, hes, upperHead_append hu _, hi, he⟩

theorem step_count (hcc : cc.AsciiOK) {pre rest : List Nat} {c : Nat} {p p' : PState}
    {acc acc' : Ents} (hs : s = pre ++ c :: rest)
    (hst : p.st = .count) (hr : Reads cc T pre p acc)
    (h : pstep cc T sub s p acc pre.length c = .ok (p', acc')) : Reads cc T (pre ++ [c]) p' acc' := by
  obtain ⟨es, ee, is, ie, cs, ce, paren, gs, ge, gcs, gce, st⟩ := p
  dsimp only at hst; subst hst
  obtain ⟨ts, hd, hr⟩ := hr
  dsimp only at hr
  obtain ⟨sym, iso, ds, hpre, hes, hee, hu, hcs, hnum, hpend⟩ := hr
  unfold pstep at h; dsimp only at h
  split at h
  · obtain ⟨⟨q, acc1⟩, hf, h⟩ := Res.bind_ok_inv h
    have hs' : s = ts.render ++ (sym ++ (rIso iso ++ (ds ++ c :: rest))) := by rw [hs, hpre]; simp
    obtain ⟨hq, hcl⟩ := flushCount_closed hcc (p := ⟨es, ee, is, ie, cs, pre.length, paren, gs, ge, gcs, gce, .count⟩)
      hd hs' hes hee hu hcs (by dsimp only; rw [hpre]; simp; omega) hnum hpend hf
    rw [← hpre] at hcl
    obtain ⟨q', ha, h⟩ := Res.bind_ok_inv h
    obtain ⟨h1, h2⟩ := ok_pair_inj h
    subst h1 h2
    exact afterTerm_reads hcl (by rw [hq]) (by rw [hq]) isUpperStart_upper ha
  · rename_i hn
    have hn : cc.numeric c = true := by simpa using hn
    obtain ⟨h1, h2⟩ := ok_pair_inj h
    subst h1 h2
    refine ⟨ts, hd, ?_⟩
    dsimp only
    exact ⟨sym, iso, ds ++ [c], by rw [hpre]; simp, hes, hee, hu, hcs, mem_snoc_numeric hnum hn, hpend⟩

theorem step_isotopeToCount (hcc : cc.AsciiOK) {pre rest : List Nat} {c : Nat} {p p' : PState}
    {acc acc' : Ents} (hs : s = pre ++ c :: rest)
    (hst : p.st = .isotopeToCount) (hr : Reads cc T pre p acc)
    (h : pstep cc T sub s p acc pre.length c = .ok (p', acc')) : Reads cc T (pre ++ [c]) p' acc' := by
  obtain ⟨es, ee, is, ie, cs, ce, paren, gs, ge, gcs, gce, st⟩ := p
  dsimp only at hst; subst hst
  obtain ⟨ts, hd, hr⟩ := hr
  dsimp only at hr
  obtain ⟨sym, ds, hpre, hes, hee, hu, his, hie, hnum⟩ := hr
  unfold pstep at h; dsimp only at h
  split at h
  · rename_i hn
    obtain ⟨h1, h2⟩ := ok_pair_inj h
    subst h1 h2
    refine ⟨ts, hd, ?_⟩
    dsimp only
    refine ⟨sym, some ds, [c], by rw [hpre]; simp [rIso], hes, hee, hu, ?_, ?_, his, hie, hnum⟩
    · rw [hpre]; simp [rIso]; omega
    · intro x hx
      simp only [List.mem_singleton] at hx; subst hx; exact hn
  · obtain ⟨⟨q, acc1⟩, hf, h⟩ := Res.bind_ok_inv h
    have hs' : s = ts.render ++ (sym ++ (91 :: (ds ++ 93 :: (c :: rest)))) := by rw [hs, hpre]; simp
    obtain ⟨hq, hcl⟩ := flushIso_closed hcc hd hs' hes hee hu his hie hnum hf
    rw [← hpre] at hcl
    obtain ⟨q', ha, h⟩ := Res.bind_ok_inv h
    obtain ⟨h1, h2⟩ := ok_pair_inj h
    subst h1 h2
    exact afterTerm_reads hcl (by rw [hq]) (by rw [hq]) (fun _ hx => hx) ha

theorem step_g2gc (hsub : SubSound T sub) {pre rest : List Nat} {c : Nat} {p p' : PState}
    {acc acc' : Ents} (hs : s = pre ++ c :: rest)
    (hst : p.st = .groupToGroupCount) (hr : Reads cc T pre p acc)
    (h : pstep cc T sub s p acc pre.length c = .ok (p', acc')) : Reads cc T (pre ++ [c]) p' acc' := by
  obtain ⟨es, ee, is, ie, cs, ce, paren, gs, ge, gcs, gce, st⟩ := p
  dsimp only at hst; subst hst
  obtain ⟨ts, hd, hr⟩ := hr
  dsimp only at hr
  obtain ⟨body, hpre, hgs, hge, hi, he⟩ := hr
  unfold pstep at h; dsimp only at h
  split at h
  · obtain ⟨b, hsl, h⟩ := Res.bind_ok_inv h
    obtain ⟨g, hg, h⟩ := Res.bind_ok_inv h
    have hs' : s = ts.render ++ (40 :: (body ++ 41 :: (c :: rest))) := by rw [hs, hpre]; simp
    have hcl := group_closed hsub (acc := acc) hd hs' hgs hge hsl hg
    rw [← hpre] at hcl
    obtain ⟨q', ha, h⟩ := Res.bind_ok_inv h
    obtain ⟨h1, h2⟩ := ok_pair_inj h
    subst h1 h2
    exact afterTerm_reads hcl hi he isUpperStart_upper ha
  · rename_i hn
    have hn : cc.numeric c = true := by simpa using hn
    obtain ⟨h1, h2⟩ := ok_pair_inj h
    subst h1 h2
    refine ⟨ts, hd, ?_⟩
    dsimp only
    refine ⟨body, [c], by rw [hpre]; simp, hgs, hge, ?_, ?_, hi, he⟩
    · rw [hpre, hge, hgs]; simp; omega
    · intro x hx
      simp only [List.mem_singleton] at hx; subst hx; exact hn

theorem step_groupCount (hcc : cc.AsciiOK) (hsub : SubSound T sub) {pre rest : List Nat} {c : Nat}
    {p p' : PState} {acc acc' : Ents} (hs : s = pre ++ c :: rest)
    (hst : p.st = .groupCount) (hr : Reads cc T pre p acc)
    (h : pstep cc T sub s p acc pre.length c = .ok (p', acc')) : Reads cc T (pre ++ [c]) p' acc' := by
  obtain ⟨es, ee, is, ie, cs, ce, paren, gs, ge, gcs, gce, st⟩ := p
  dsimp only at hst; subst hst
  obtain ⟨ts, hd, hr⟩ := hr
  dsimp only at hr
  obtain ⟨body, ds, hpre, hgs, hge, hgcs, hnum, hi, he⟩ := hr
  unfold pstep at h; dsimp only at h
  split at h
  · obtain ⟨b, hsl, h⟩ := Res.bind_ok_inv h
    obtain ⟨g, hg, h⟩ := Res.bind_ok_inv h
    obtain ⟨⟨n, q⟩, hc, h⟩ := Res.bind_ok_inv h
    have hs' : s = ts.render ++ (40 :: (body ++ 41 :: (ds ++ c :: rest))) := by rw [hs, hpre]; simp
    obtain ⟨hq, hcl⟩ := groupCount_closed hcc hsub (acc := acc) hd hs' hgs hge hgcs
      (by dsimp only; rw [hpre, hgcs, hge, hgs]; simp; omega) hnum hsl hg hc
    rw [← hpre] at hcl
    obtain ⟨q', ha, h⟩ := Res.bind_ok_inv h
    obtain ⟨h1, h2⟩ := ok_pair_inj h
    subst h1 h2
    exact afterTerm_reads hcl (by rw [hq]; exact hi) (by rw [hq]; exact he) isUpperStart_upper ha
  · rename_i hn
    have hn : cc.numeric c = true := by simpa using hn
    obtain ⟨h1, h2⟩ := ok_pair_inj h
    subst h1 h2
    refine ⟨ts, hd, ?_⟩
    dsimp only
    exact ⟨body, ds ++ [c], by rw [hpre]; simp, hgs, hge, hgcs, mem_snoc_numeric hnum hn, hi, he⟩

/-! ## the loop, the end of input, the recursion -/

theorem pstep_reads (hcc : cc.AsciiOK) (hsub : SubSound T sub) {pre rest : List Nat} {c : Nat}
    {p p' : PState} {acc acc' : Ents} (hs : s = pre ++ c :: rest) (hr : Reads cc T pre p acc)
    (h : pstep cc T sub s p acc pre.length c = .ok (p', acc')) : Reads cc T (pre ++ [c]) p' acc' := by
  cases hst : p.st with
  | new => exact step_new s hst hr h
  | element => exact step_element hs hst hr h
  | isotope => exact step_isotope s hst hr h
  | isotopeToCount => exact step_isotopeToCount hcc hs hst hr h
  | count => exact step_count hcc hs hst hr h
  | group => exact step_group s hst hr h
  | groupToGroupCount => exact step_g2gc hsub hs hst hr h
  | groupCount => exact step_groupCount hcc hsub hs hst hr h

theorem ploop_reads (hcc : cc.AsciiOK) (hsub : SubSound T sub) :
    ∀ (rest pre : List Nat) (p p' : PState) (acc acc' : Ents), s = pre ++ rest →
      Reads cc T pre p acc → ploop cc T sub s rest pre.length p acc = .ok (p', acc') →
      Reads cc T s p' acc' := by
  intro rest
  induction rest with
  | nil =>
    intro pre p p' acc acc' hs hr h
    rw [ploop_nil] at h
    obtain ⟨h1, h2⟩ := ok_pair_inj h
    subst h1 h2
    rw [hs, List.append_nil]; exact hr
  | cons c rest ih =>
    intro pre p p' acc acc' hs hr h
    rw [ploop_cons] at h
    obtain ⟨⟨q, acc1⟩, hstep, h⟩ := Res.bind_ok_inv h
    have hr' := pstep_reads hcc hsub hs hr hstep
    refine ih (pre ++ [c]) q p' acc1 acc' (by rw [hs]; simp) hr' ?_
    simpa using h

theorem pfinish_closed (hcc : cc.AsciiOK) (hsub : SubSound T sub) {p : PState} {acc ents : Ents}
    (hr : Reads cc T s p acc) (h : pfinish T sub s p acc = .ok ents) : Closed T s ents := by
  obtain ⟨es, ee, is, ie, cs, ce, paren, gs, ge, gcs, gce, st⟩ := p
  obtain ⟨ts, hd, hr⟩ := hr
  cases st <;> dsimp only at hr <;> unfold pfinish at h <;> dsimp only at h
  case new => cases h
  case group => cases h
  case isotope => cases h
  case element =>
    obtain ⟨sym, hpre, hes, hu, hi, he⟩ := hr
    obtain ⟨⟨q, acc1⟩, hf, h⟩ := Res.bind_ok_inv h
    injection h with h; subst h
    have hs' : s = ts.render ++ (sym ++ []) := by rw [hpre]; simp
    obtain ⟨_, hcl⟩ := flushElem_closed hd hs' hes (by dsimp only; rw [hpre, hes]; simp) hu hf
    rw [hpre]; exact hcl
  case count =>
    obtain ⟨sym, iso, ds, hpre, hes, hee, hu, hcs, hnum, hpend⟩ := hr
    obtain ⟨⟨q, acc1⟩, hf, h⟩ := Res.bind_ok_inv h
    injection h with h; subst h
    have hs' : s = ts.render ++ (sym ++ (rIso iso ++ (ds ++ []))) := by rw [hpre]; simp
    obtain ⟨_, hcl⟩ := flushCount_closed hcc
      (p := ⟨es, ee, is, ie, cs, s.length, paren, gs, ge, gcs, gce, .count⟩)
      hd hs' hes hee hu hcs (by dsimp only; rw [hpre]; simp; omega) hnum hpend hf
    rw [hpre]; exact hcl
  case isotopeToCount =>
    obtain ⟨sym, ds, hpre, hes, hee, hu, his, hie, hnum⟩ := hr
    obtain ⟨⟨q, acc1⟩, hf, h⟩ := Res.bind_ok_inv h
    injection h with h; subst h
    have hs' : s = ts.render ++ (sym ++ (91 :: (ds ++ 93 :: []))) := by rw [hpre]
    obtain ⟨_, hcl⟩ := flushIso_closed hcc hd hs' hes hee hu his hie hnum hf
    rw [hpre]; exact hcl
  case groupToGroupCount =>
    obtain ⟨body, hpre, hgs, hge, hi, he⟩ := hr
    obtain ⟨b, hsl, h⟩ := Res.bind_ok_inv h
    obtain ⟨g, hg, h⟩ := Res.bind_ok_inv h
    injection h with h; subst h
    have hs' : s = ts.render ++ (40 :: (body ++ 41 :: [])) := by rw [hpre]
    have hcl := group_closed hsub (acc := acc) hd hs' hgs hge hsl hg
    rw [hpre]; exact hcl
  case groupCount =>
    obtain ⟨body, ds, hpre, hgs, hge, hgcs, hnum, hi, he⟩ := hr
    obtain ⟨b, hsl, h⟩ := Res.bind_ok_inv h
    obtain ⟨g, hg, h⟩ := Res.bind_ok_inv h
    obtain ⟨⟨n, q⟩, hc, h⟩ := Res.bind_ok_inv h
    injection h with h; subst h
    have hs' : s = ts.render ++ (40 :: (body ++ 41 :: (ds ++ []))) := by rw [hpre]; simp
    obtain ⟨_, hcl⟩ := groupCount_closed hcc hsub (acc := acc) hd hs' hgs hge hgcs
      (by dsimp only; rw [hpre, hgcs, hge, hgs]; simp; omega) hnum hsl hg hc
    rw [hpre]; exact hcl

end

theorem reads_init (cc : CharClass) (T : Table) : Reads cc T [] {} [] :=
  ⟨.nil, done_nil T, rfl, rfl, rfl⟩

/-- every level of the recursion is sound -/
theorem parseA_sound (cc : CharClass) (hcc : cc.AsciiOK) (T : Table) :
    ∀ fuel : Nat, SubSound T (parseA cc T fuel) := by
  intro fuel
  induction fuel with
  | zero => intro b g h; cases h
  | succ fuel ih =>
    intro b g h
    unfold parseA at h
    obtain ⟨⟨p, acc⟩, hl, hf⟩ := Res.bind_ok_inv h
    have hr := ploop_reads (s := b) hcc ih b [] {} p [] acc rfl (reads_init cc T) hl
    exact pfinish_closed hcc ih hr hf

/-- **C05, converse**: a composition is returned only for a well-formed formula, and it is the
    denotation of a syntax tree that renders to the input itself -/
theorem parse_sound (cc : CharClass) (hcc : cc.AsciiOK) (T : Table) (s : List Nat) (ents : Ents)
    (h : parseFormula cc T s = .ok ents) :
    ∃ ts : Spec.RTerms, ts.nonEmpty = true ∧ ts.wf T = true ∧ ts.render = s ∧
      ents.NoDupKeys ∧ ∀ k, ents.get k = ts.denote T k := by
  obtain ⟨ts, hne, hd, hr⟩ := parseA_sound cc hcc T (s.length + 1) s ents h
  exact ⟨ts, hne, hd.wf, hr, hd.nodup, hd.den⟩

end Chem
