import ChemProofs.Props.C02
import ChemProofs.Props.C04
import Batteries.Data.List.Perm
/-
C06 — list-backed and map-backed compositions are observationally identical.

* `lockstep_step` / `lockstep_run`: two register files that hold the same entries but in different
  representations (list vs map, directly or inside the enum) stay that way under every public
  operation and every read returns the same value — for histories of any length.
* `conv_preserves`: `into_map`, `into_vec` and the six `From` impls preserve every entry.
* `eqv_iff`: `==` holds exactly when both sides have the same keys with the same counts.
* `str_key_isolated`: a bracket-free string key never reads or writes a fixed-isotope entry.
-/
namespace Chem
open Ents

/-! ### helper: `default()` + `set` per entry rebuilds a duplicate-free list verbatim -/

theorem Ents.set_of_not_has (l : Ents) (k : Key) (v : Int) (h : ¬ l.has k = true) :
    l.set k v = l ++ [(k, v)] := by
  induction l with
  | nil => rfl
  | cons e rest ih =>
    rw [has_cons] at h
    simp only [Bool.or_eq_true, decide_eq_true_eq, not_or] at h
    rw [set_cons_ne _ _ _ _ h.1, ih h.2]; rfl

theorem Ents.foldl_set_nodup (acc l : Ents) (h : (acc ++ l).NoDupKeys) :
    l.foldl (fun acc e => acc.set e.1 e.2) acc = acc ++ l := by
  induction l generalizing acc with
  | nil => simp
  | cons e rest ih =>
    simp only [List.foldl_cons]
    have hnot : ¬ acc.has e.1 = true := by
      intro hh
      have hm := (has_iff_mem_keys acc e.1).1 hh
      unfold NoDupKeys keys at h
      simp only [List.map_append, List.map_cons] at h
      have := (List.nodup_append.1 h).2.2 e.1 hm e.1 (by simp)
      exact this rfl
    rw [Ents.set_of_not_has _ _ _ hnot]
    have : acc ++ [(e.1, e.2)] ++ rest = acc ++ e :: rest := by simp
    rw [ih _ (by rw [this]; exact h), this]

theorem Ents.ofSets_nodup (l : Ents) (h : l.NoDupKeys) : Ents.ofSets l = l := by
  unfold Ents.ofSets
  rw [Ents.foldl_set_nodup [] l (by simpa using h)]; rfl

theorem convChain_ents (c : Comp) (f : Form) (h : c.ents.NoDupKeys) : (convChain c f).ents = c.ents := by
  unfold convChain
  split <;> first | rfl | skip
  all_goals
    simp only [Comp.convert]
    first
      | (rw [Ents.ofSets_nodup _ h, Ents.ofSets_nodup _ h])
      | rw [Ents.ofSets_nodup _ h]

/-- `into_map`, `into_vec` and the `From` conversions preserve every entry (and the target form
    is the requested one) -/
theorem conv_preserves (c : Comp) (f : Form) (h : c.ents.NoDupKeys) :
    (convChain c f).ents = c.ents ∧ absC (convChain c f) = absC c :=
  ⟨convChain_ents c f h, absC_convChain c f h⟩

/-! ### lock-step -/

/-- what is observable of a composition apart from its representation: the entries and whether
    it is wrapped in the enum (the enum's `get_str` is the documented richer lookup) -/
def Comp.key (c : Comp) : Ents × Bool := (c.ents, c.form.isEnum)
def Regs.keys (rs : Regs) : List (Ents × Bool) := rs.map Comp.key

def Op.mapForm (φ : Form → Form) : Op → Op
  | .new r f => .new r (φ f)
  | .conv d a f => .conv d a (φ f)
  | .fromkv d f v ps => .fromkv d (φ f) v ps
  | op => op

theorem Regs.keys_put (rs : Regs) (i : Nat) (c : Comp) : (rs.put i c).keys = rs.keys.set i c.key := by
  unfold Regs.keys Regs.put; rw [List.map_set]

theorem Regs.key_at (rs rs' : Regs) (h : rs.keys = rs'.keys) (i : Nat) : (rs.at i).key = (rs'.at i).key := by
  unfold Regs.at
  rw [List.getD_eq_getElem?_getD, List.getD_eq_getElem?_getD]
  have := congrArg (fun l => l[i]?) h
  simp only [Regs.keys, List.getElem?_map] at this
  cases h1 : rs[i]? <;> cases h2 : rs'[i]? <;> simp_all

theorem Regs.keys_put_congr (rs rs' : Regs) (h : rs.keys = rs'.keys) (i : Nat) (c c' : Comp)
    (hc : c.key = c'.key) : (rs.put i c).keys = (rs'.put i c').keys := by
  rw [Regs.keys_put, Regs.keys_put, h, hc]

theorem Regs.keys_put_same (rs : Regs) (r : Nat) (c : Comp) (h : c.key = (rs.at r).key) :
    (rs.put r c).keys = rs.keys := by
  rw [Regs.keys_put, h]
  unfold Regs.keys Regs.at
  rw [List.getD_eq_getElem?_getD]
  apply List.ext_getElem?
  intro i
  rw [List.getElem?_set]
  by_cases hir : r = i
  · subst hir
    simp only [if_true, List.length_map, List.getElem?_map]
    cases hh : rs[r]? with
    | none =>
      have : ¬ r < rs.length := by
        intro hlt
        rw [List.getElem?_eq_getElem hlt] at hh
        cases hh
      simp [this]
    | some c0 =>
      have : r < rs.length := by
        rcases List.getElem?_eq_some_iff.1 hh with ⟨hlt, _⟩; exact hlt
      simp [this]
  · simp only [hir, if_false]

/-- validity of the string argument of `inc_str`: a plain key that is present is a table symbol -/
def Op.StrOK (T : Table) (rs : Regs) : Op → Prop
  | .incs r s _ => (rs.at r).ents.has (s, 0) = true → parseSpec T s = .ok (s, 0)
  | _ => True

/-- close a goal `A ∧ r = r' ∧ p = p'` (possibly simplified by `simp`) from a proof of `A` -/
macro "close3 " t:term : tactic =>
  `(tactic| first
    | exact ⟨$t, rfl, rfl⟩
    | exact ⟨$t, trivial, trivial⟩
    | exact $t
    | (refine ⟨$t, ?_, ?_⟩ <;> first | rfl | trivial))

/-- **lock-step, one step**: same entries in, same entries and same value read out, whatever
    the representations (`φ` may turn list-backed forms into map-backed ones and back, as long as
    direct stays direct and enum-wrapped stays enum-wrapped). -/
theorem lockstep_step (cc : CharClass) (T : Table) (m : Key → Int) (φ : Form → Form)
    (hφ : ∀ f, (φ f).isEnum = f.isEnum) (rs rs' : Regs) (op : Op)
    (hk : rs.keys = rs'.keys) (hn : Regs.NoDup rs) (hi : rs.Inv m) (hi' : rs'.Inv m)
    (hs : op.StrOK T rs) :
    (stepM cc T m rs op).regs.keys = (stepM cc T m rs' (op.mapForm φ)).regs.keys ∧
    (stepM cc T m rs op).read = (stepM cc T m rs' (op.mapForm φ)).read ∧
    (stepM cc T m rs op).panicked = (stepM cc T m rs' (op.mapForm φ)).panicked := by
  have hat : ∀ i, (rs.at i).ents = (rs'.at i).ents ∧ (rs.at i).form.isEnum = (rs'.at i).form.isEnum := by
    intro i
    have := Regs.key_at rs rs' hk i
    simp only [Comp.key, Prod.mk.injEq] at this
    exact this
  cases op <;> dsimp only [stepM, Op.mapForm]
  case new r f =>
    exact ⟨Regs.keys_put_congr _ _ hk _ _ _ (by simp [Comp.key, Comp.empty, hφ]), rfl, rfl⟩
  case set r k v =>
    exact ⟨Regs.keys_put_congr _ _ hk _ _ _ (by simp [Comp.key, Comp.set, hat r]), rfl, rfl⟩
  case inc r k v =>
    exact ⟨Regs.keys_put_congr _ _ hk _ _ _ (by simp [Comp.key, Comp.inc, Comp.set, Comp.get, hat r]), rfl, rfl⟩
  case iset r k v =>
    exact ⟨Regs.keys_put_congr _ _ hk _ _ _ (by simp [Comp.key, Comp.idxSet, hat r]), rfl, rfl⟩
  case iadd r k v =>
    exact ⟨Regs.keys_put_congr _ _ hk _ _ _ (by simp [Comp.key, Comp.idxAdd, hat r]), rfl, rfl⟩
  case sset r s v =>
    unfold Comp.strIdxSet
    cases parseSpec T s <;> simp only
    · close3 (Regs.keys_put_congr _ _ hk _ _ _ (by simp [Comp.key, Comp.idxSet, hat r]))
    · close3 (hk)
    · close3 (hk)
  case sadd r s v =>
    unfold Comp.strIdxAdd
    cases parseSpec T s <;> simp only
    · close3 (Regs.keys_put_congr _ _ hk _ _ _ (by simp [Comp.key, Comp.idxAdd, hat r]))
    · close3 (hk)
    · close3 (hk)
  case incs r s v =>
    simp only [Op.StrOK] at hs
    have hkey : ∀ (c c' : Comp) (k : Key), c.ents = c'.ents → c.form.isEnum = c'.form.isEnum →
        (c.idxAdd k v).key = (c'.idxAdd k v).key ∧ (c.inc k v).key = (c'.idxAdd k v).key ∧
        (c.idxAdd k v).key = (c'.inc k v).key ∧ (c.inc k v).key = (c'.inc k v).key := by
      intro c c' k h1 h2
      simp [Comp.key, Comp.idxAdd, Comp.inc, Comp.set, Comp.get, h1, h2]
    have he := (hat r).1
    have hf := (hat r).2
    unfold Comp.incStr Comp.strIdxAdd
    by_cases hhas : (rs.at r).ents.has (s, 0) = true
    · have hp := hs hhas
      have hhas' : (rs'.at r).ents.has (s, 0) = true := he ▸ hhas
      simp only [hhas, hhas', hp, if_true]
      cases (rs.at r).form.isMap <;> cases (rs'.at r).form.isMap <;> simp only [if_true, if_false, Bool.false_eq_true] <;>
        close3 (Regs.keys_put_congr _ _ hk _ _ _ (hkey _ _ _ he hf).1)
    · have hhas' : ¬ (rs'.at r).ents.has (s, 0) = true := he ▸ hhas
      simp only [hhas, hhas', if_false]
      cases parseSpec T s <;> cases (rs.at r).form.isMap <;> cases (rs'.at r).form.isMap <;>
        simp only [if_true, if_false, Bool.false_eq_true] <;>
        first
          | close3 (hk)
          | close3 (Regs.keys_put_congr _ _ hk _ _ _ (hkey _ _ _ he hf).1)
          | close3 (Regs.keys_put_congr _ _ hk _ _ _ (hkey _ _ _ he hf).2.1)
          | close3 (Regs.keys_put_congr _ _ hk _ _ _ (hkey _ _ _ he hf).2.2.1)
          | close3 (Regs.keys_put_congr _ _ hk _ _ _ (hkey _ _ _ he hf).2.2.2)
  case gsm r s v =>
    have he := (hat r).1
    have hf := (hat r).2
    by_cases hhas : (rs.at r).ents.has (s, 0) = true
    · have hhas' : (rs'.at r).ents.has (s, 0) = true := he ▸ hhas
      simp only [hhas, hhas', if_true]
      close3 (Regs.keys_put_congr _ _ hk _ _ _ (by simp [Comp.key, Comp.idxSet, he, hf]))
    · have hhas' : ¬ (rs'.at r).ents.has (s, 0) = true := he ▸ hhas
      simp only [hhas, hhas', if_false]
      have hself : ∀ (rs : Regs), (rs.put r { rs.at r with cache := none }).keys = rs.keys :=
        fun rs => Regs.keys_put_same rs r _ rfl
      cases hfm : ((rs.at r).form == Form.map) <;> cases hfm' : ((rs'.at r).form == Form.map) <;>
        simp only [Bool.false_eq_true, if_true, if_false] <;>
        first
          | close3 hk
          | close3 (by rw [hself, hself]; exact hk)
          | close3 (by rw [hself]; exact hk)
  case fmass r =>
    have h1 := mass_correct m (rs.at r) (Regs.at_inv hi r)
    have h2 := mass_correct m (rs'.at r) (Regs.at_inv hi' r)
    refine ⟨Regs.keys_put_congr _ _ hk _ _ _ ?_, ?_, rfl⟩
    · have hf1 : ((rs.at r).fmass m).1.form = (rs.at r).form := by unfold Comp.fmass; split <;> rfl
      have hf2 : ((rs'.at r).fmass m).1.form = (rs'.at r).form := by unfold Comp.fmass; split <;> rfl
      simp [Comp.key, h1.2.2.2, h2.2.2.2, hf1, hf2, hat r]
    · simp only [h1.2.1, h2.2.1, (hat r).1]
  case mul d a n =>
    exact ⟨Regs.keys_put_congr _ _ hk _ _ _ (by simp [Comp.key, Comp.mulNew, Comp.mulBy, hat a]), rfl, rfl⟩
  case muli r n =>
    exact ⟨Regs.keys_put_congr _ _ hk _ _ _ (by simp [Comp.key, Comp.mulBy, hat r]), rfl, rfl⟩
  case neg d a =>
    exact ⟨Regs.keys_put_congr _ _ hk _ _ _ (by simp [Comp.key, Comp.mulNew, Comp.mulBy, hat a]), rfl, rfl⟩
  case add d a b sign =>
    refine ⟨Regs.keys_put_congr _ _ hk _ _ _ ?_, rfl, rfl⟩
    simp only [Comp.key, Comp.addNew, (Comp.addFrom_ents _ _ _).1, (Comp.addFrom_ents _ _ _).2, hat a, hat b]
  case addi a b sign =>
    refine ⟨Regs.keys_put_congr _ _ hk _ _ _ ?_, rfl, rfl⟩
    simp only [Comp.key, (Comp.addFrom_ents _ _ _).1, (Comp.addFrom_ents _ _ _).2, hat a, hat b]
  case itm r f =>
    exact ⟨Regs.keys_put_congr _ _ hk _ _ _ (by simp [Comp.key, Comp.iterMut, hat r]), rfl, rfl⟩
  case clone d a =>
    exact ⟨Regs.keys_put_congr _ _ hk _ _ _ (Regs.key_at rs rs' hk a), rfl, rfl⟩
  case conv d a f =>
    refine ⟨Regs.keys_put_congr _ _ hk _ _ _ ?_, rfl, rfl⟩
    have hn' : (rs'.at a).ents.NoDupKeys := (hat a).1 ▸ Regs.at_nodup hn a
    simp only [Comp.key, convChain_ents _ _ (Regs.at_nodup hn a), convChain_ents _ _ hn', (hat a).1]
    -- the resulting forms: requested forms, same wrappedness
    have hform : ∀ (c : Comp) (g : Form), (convChain c g).form.isEnum = g.isEnum := by
      intro c g
      unfold convChain
      cases hc : c.form <;> cases g <;> simp [Comp.convert, Form.isEnum, hc]
    rw [hform, hform, hφ]
  case fromkv d f v ps =>
    refine ⟨Regs.keys_put_congr _ _ hk _ _ _ ?_, rfl, rfl⟩
    have h1 : ∀ g : Form, ((if g == Form.emap then (Comp.ofPairs (if g == Form.emap then Form.evec else g) ps).convert Form.emap
        else Comp.ofPairs (if g == Form.emap then Form.evec else g) ps)).key = (Ents.ofPairs ps, g.isEnum) := by
      intro g
      cases g <;> simp [Comp.key, Comp.ofPairs, Comp.convert, Form.isEnum, Ents.ofSets_nodup _ (nodup_ofPairs ps)]
    rw [h1, h1, hφ]
  case get r k => exact ⟨hk, by simp [Comp.get, hat r], rfl⟩
  case idx r k => exact ⟨hk, by simp [Comp.get, hat r], rfl⟩
  case gets r s => exact ⟨hk, by simp [Comp.getStr, Comp.strIndex, hat r], rfl⟩
  case sidx r s => exact ⟨hk, by simp [Comp.strIndex, hat r], rfl⟩
  case eq a b =>
    refine ⟨hk, ?_, rfl⟩
    unfold Comp.eqv
    rw [(hat a).1, (hat b).1]

/-- the string arguments of `inc_str` stay valid along a history -/
def RunOK (cc : CharClass) (T : Table) (m : Key → Int) : Regs → List Op → Prop
  | _, [] => True
  | rs, op :: rest => op.StrOK T rs ∧ RunOK cc T m (stepM cc T m rs op).regs rest

/-- **lock-step over whole histories** of any length: the list-backed, map-backed and
    enum-wrapped runs of one history hold the same entries after every prefix and every read
    returns the same value. -/
theorem lockstep_run (cc : CharClass) (T : Table) (m : Key → Int) (φ : Form → Form)
    (hφ : ∀ f, (φ f).isEnum = f.isEnum) (ops : List Op) (rs rs' : Regs)
    (hk : rs.keys = rs'.keys) (hn : Regs.NoDup rs) (hi : rs.Inv m) (hi' : rs'.Inv m)
    (hs : RunOK cc T m rs ops) :
    (runM cc T m rs ops).keys = (runM cc T m rs' (ops.map (Op.mapForm φ))).keys := by
  induction ops generalizing rs rs' with
  | nil => exact hk
  | cons op rest ih =>
    simp only [runM, List.map_cons, List.foldl_cons]
    have h := lockstep_step cc T m φ hφ rs rs' op hk hn hi hi' hs.1
    exact ih _ _ h.1 (step_nodup cc T m rs op hn) (step_inv cc T m rs op hi)
      (step_inv cc T m rs' _ hi') hs.2

/-! ### equality -/

theorem Ents.eqv_iff (a b : Ents) (ha : a.NoDupKeys) (hb : b.NoDupKeys) :
    a.eqv b = true ↔ ∀ k, abs a k = abs b k := by
  have mem_abs : ∀ (l : Ents), l.NoDupKeys → ∀ e : Key × Int, e ∈ l ↔ abs l e.1 = some e.2 := by
    intro l hl e
    induction l with
    | nil => simp [abs]
    | cons x rest ih =>
      unfold NoDupKeys keys at hl
      simp only [List.map_cons, List.nodup_cons] at hl
      rw [abs_cons, List.mem_cons]
      by_cases hx : x.1 = e.1
      · simp only [hx, if_true]
        constructor
        · rintro (h | h)
          · rw [h]
          · exact absurd (List.mem_map_of_mem (f := (·.1)) h) (hx ▸ hl.1)
        · intro h
          left
          injection h with h
          exact Prod.ext hx.symm h.symm
      · simp only [hx, if_false]
        rw [← ih hl.2]
        constructor
        · rintro (h | h)
          · exact absurd (by rw [h]) hx
          · exact h
        · exact Or.inr
  unfold Ents.eqv
  simp only [Bool.and_eq_true, beq_iff_eq, List.all_eq_true, List.any_eq_true]
  constructor
  · rintro ⟨hlen, hall⟩
    -- every entry of a is an entry of b
    have hsub : ∀ e ∈ a, e ∈ b := by
      intro e he
      obtain ⟨e2, he2, h1, h2⟩ := hall e he
      have : e2 = e := Prod.ext h1 h2
      exact this ▸ he2
    have hksub : a.keys ⊆ b.keys := by
      intro k hk
      obtain ⟨e, he, rfl⟩ := List.mem_map.1 hk
      exact List.mem_map_of_mem (hsub e he)
    have hperm : a.keys.Perm b.keys :=
      (List.subperm_of_subset ha hksub).perm_of_length_le (by simp [Ents.keys, hlen])
    intro k
    cases hak : abs a k with
    | some v =>
      have : (k, v) ∈ a := (mem_abs a ha (k, v)).2 hak
      exact ((mem_abs b hb (k, v)).1 (hsub _ this)).symm
    | none =>
      cases hbk : abs b k with
      | none => rfl
      | some v =>
        have hb' : (k, v) ∈ b := (mem_abs b hb (k, v)).2 hbk
        have : k ∈ a.keys := hperm.mem_iff.2 (List.mem_map_of_mem (f := (·.1)) hb')
        obtain ⟨e, he, hek⟩ := List.mem_map.1 this
        have := (mem_abs a ha e).1 he
        rw [hek, hak] at this
        cases this
  · intro h
    have hsub : ∀ (x y : Ents), x.NoDupKeys → y.NoDupKeys → (∀ k, abs x k = abs y k) → ∀ e ∈ x, e ∈ y := by
      intro x y hx hy hxy e he
      exact (mem_abs y hy e).2 ((hxy e.1) ▸ (mem_abs x hx e).1 he)
    have h1 := hsub a b ha hb h
    have h2 := hsub b a hb ha (fun k => (h k).symm)
    have hk1 : a.keys ⊆ b.keys := fun k hk => by
      obtain ⟨e, he, rfl⟩ := List.mem_map.1 hk; exact List.mem_map_of_mem (h1 e he)
    have hk2 : b.keys ⊆ a.keys := fun k hk => by
      obtain ⟨e, he, rfl⟩ := List.mem_map.1 hk; exact List.mem_map_of_mem (h2 e he)
    have l1 := (List.subperm_of_subset ha hk1).length_le
    have l2 := (List.subperm_of_subset hb hk2).length_le
    refine ⟨?_, fun e he => ⟨e, h1 e he, rfl, rfl⟩⟩
    simp only [Ents.keys, List.length_map] at l1 l2
    omega

/-- **equality holds exactly when both sides have the same keys with the same counts**, whatever
    the representations and insertion orders -/
theorem eqv_iff (a b : Comp) (ha : a.ents.NoDupKeys) (hb : b.ents.NoDupKeys) :
    a.eqv b = true ↔ FMap.Same (absC a) (absC b) := Ents.eqv_iff a.ents b.ents ha hb

/-! ### string keys -/

theorem splitFirst_none_iff (c : Nat) (s : List Nat) : splitFirst c s = none ↔ c ∉ s := by
  induction s with
  | nil => simp [splitFirst]
  | cons x xs ih =>
    simp only [splitFirst, List.mem_cons, not_or]
    by_cases h : x = c
    · simp [h]
    · have : (x == c) = false := by simpa using h
      simp only [this, Bool.false_eq_true, if_false]
      cases hs : splitFirst c xs with
      | none => simp [← ih, hs, Ne.symm h]
      | some p => simp [← ih, hs]

/-- a bracket-free string never denotes a fixed isotope -/
theorem parseSpec_no_bracket (T : Table) (s : Sym) (h : 91 ∉ s) (k : Key) (hk : parseSpec T s = .ok k) :
    k.2 = 0 := by
  unfold parseSpec at hk
  rw [(splitFirst_none_iff 91 s).2 h] at hk
  simp only at hk
  split at hk
  · injection hk with hk; rw [← hk]
  · cases hk

/-- **a string key such as "C" never reads the entry of a fixed isotope such as C[13]**: a
    bracket-free string reads `0` or the count of a key without fixed isotope, on every form -/
theorem str_read_isolated (cc : CharClass) (T : Table) (c : Comp) (s : Sym) (h : 91 ∉ s) :
    (c.strIndex cc T s = 0 ∨ ∃ k : Key, k.2 = 0 ∧ c.strIndex cc T s = c.ents.get k) ∧
    (c.getStr cc T s = 0 ∨ ∃ k : Key, k.2 = 0 ∧ c.getStr cc T s = c.ents.get k) := by
  have hidx : c.strIndex cc T s = 0 ∨ ∃ k : Key, k.2 = 0 ∧ c.strIndex cc T s = c.ents.get k := by
    unfold Comp.strIndex
    split
    · exact Or.inr ⟨(s, 0), rfl, rfl⟩
    · exact Or.inl rfl
    · split
      · rename_i k hk
        exact Or.inr ⟨k, parseSpec_no_bracket T s h k hk, rfl⟩
      · exact Or.inl rfl
  refine ⟨hidx, ?_⟩
  unfold Comp.getStr
  split
  · exact hidx
  · exact Or.inr ⟨(s, 0), rfl, rfl⟩

/-- … and a string-keyed write through a bracket-free string never updates one -/
theorem str_write_isolated (T : Table) (c c' : Comp) (s : Sym) (v : Int) (h : 91 ∉ s) (k : Key) (hk : k.2 ≠ 0)
    (hw : c.strIdxSet T s v = .ok c' ∨ c.strIdxAdd T s v = .ok c' ∨ c.incStr T s v = .ok c') :
    c'.ents.get k = c.ents.get k := by
  have key : ∀ k0 : Key, k0.2 = 0 → ∀ w : Int, (c.ents.set k0 w).get k = c.ents.get k := by
    intro k0 h0 w
    rw [get_set]
    have : ¬ k = k0 := fun e => hk (e ▸ h0)
    simp [this]
  rcases hw with hw | hw | hw
  · unfold Comp.strIdxSet at hw
    split at hw <;> try cases hw
    rename_i k0 hk0
    exact key k0 (parseSpec_no_bracket T s h k0 hk0) _
  · unfold Comp.strIdxAdd at hw
    split at hw <;> try cases hw
    rename_i k0 hk0
    exact key k0 (parseSpec_no_bracket T s h k0 hk0) _
  · unfold Comp.incStr Comp.strIdxAdd at hw
    split at hw
    · split at hw
      · cases hw; exact key (s, 0) rfl _
      · split at hw <;> try cases hw
        rename_i k0 hk0
        exact key k0 (parseSpec_no_bracket T s h k0 hk0) _
    · split at hw <;> try cases hw
      rename_i k0 hk0
      exact key k0 (parseSpec_no_bracket T s h k0 hk0) _

/-- non-vacuity and the witnesses of the repaired defects -/
example : Ents.eqv [((([72] : Sym), 0), 0), (([79], 0), 0)] [(([67], 0), 0), (([79], 0), 0)] = false := by decide
example : Ents.eqv [((([72] : Sym), 0), 2), (([79], 0), 1)] [(([79], 0), 1), (([72], 0), 2)] = true := by decide
/-- D27 on the pre-repair `==` (`other.get(k) == v` reads an absent key as 0) -/
def legacyEqv (a b : Ents) : Bool := a.length == b.length && a.all (fun e => b.get e.1 == e.2)
example : legacyEqv [((([72] : Sym), 0), 0), (([79], 0), 0)] [(([67], 0), 0), (([79], 0), 0)] = true := by decide

end Chem
