import ChemProofs.Props.C06Trace
/-
C06 — bridging the hypothesis `RunOK` of the lock-step theorems to "the keys come from the table".

`Key.InT T k`   : `k` is a table key — its symbol is bracket-free, is found in `T` under itself, and its isotope is 0 or an
                  isotope of that element.
`Regs.KeysIn`   : every key of every register is a table key.
`Op.KeysIn`     : the *typed* keys an operation carries (`set`/`inc`/`c[&k]`/`from_iter`) are table keys; string
                  operations carry no obligation: they create keys only by parsing against `T`.
`Table.Own T`   : every element of `T` is stored under its own symbol and that symbol has no '[' (instance: Inst/C06.lean).

`step_keysIn` : every operation preserves `Regs.KeysIn`;  `strOK_of_keysIn` : `KeysIn` gives the one-step hypothesis
`StrOK`;  `runOK_of_keysIn` : … and `RunOK` for whole histories;  `lockstep_trace_keys` / `lockstep_run_keys` : the lock-step
theorems with `RunOK` replaced by those hypotheses.
-/
namespace Chem
open Ents

/-- every element is stored under its own symbol, which contains no '[' -/
def Table.Own (T : Table) : Prop := ∀ e ∈ T, e.tkey = e.sym ∧ 91 ∉ e.sym

/-- `k` is a key of the table -/
def Key.InT (T : Table) (k : Key) : Prop :=
  91 ∉ k.1 ∧ ∃ e, T.find? k.1 = some e ∧ e.sym = k.1 ∧ (k.2 = 0 ∨ (e.iso? k.2).isSome = true)

def Ents.KeysIn (T : Table) (l : Ents) : Prop := ∀ k ∈ l.keys, Key.InT T k
def Regs.KeysIn (T : Table) (rs : Regs) : Prop := ∀ c ∈ rs, Ents.KeysIn T c.ents

def Op.KeysIn (T : Table) : Op → Prop
  | .set _ k _ | .inc _ k _ | .iset _ k _ | .iadd _ k _ => Key.InT T k
  | .fromkv _ _ _ ps => Ents.KeysIn T ps
  | _ => True

/-! ### the table side -/

theorem Table.find?_tkey (T : Table) (s : Sym) (e : Elem) (h : T.find? s = some e) : e.tkey = s ∧ e ∈ T := by
  unfold Table.find? at h
  exact ⟨by simpa using List.find?_some h, List.mem_of_find?_eq_some h⟩

/-- **whatever `parseSpec` accepts is a table key** -/
theorem parseSpec_inT (T : Table) (hT : T.Own) (s : Sym) (k : Key) (h : parseSpec T s = .ok k) : Key.InT T k := by
  unfold parseSpec at h
  split at h
  · split at h
    · rename_i e he
      injection h with h; subst h
      obtain ⟨h1, h2⟩ := T.find?_tkey _ _ he
      have ho := hT e h2
      refine ⟨ho.2, e, ?_, rfl, Or.inl rfl⟩
      rw [← ho.1, h1]; exact he
    · cases h
  · split at h
    · cases h
    · split at h
      · cases h
      · rename_i e he
        split at h
        · cases h
        · split at h
          · rename_i hiso
            injection h with h; subst h
            obtain ⟨h1, h2⟩ := T.find?_tkey _ _ he
            have ho := hT e h2
            refine ⟨ho.2, e, ?_, rfl, Or.inr hiso⟩
            rw [← ho.1, h1]; exact he
          · cases h

/-- a plain table key parses to itself -/
theorem parseSpec_of_inT (T : Table) (s : Sym) (h : Key.InT T (s, 0)) : parseSpec T s = .ok (s, 0) := by
  obtain ⟨hb, e, he, hs, _⟩ := h
  unfold parseSpec
  rw [(splitFirst_none_iff 91 s).2 hb]
  simp only at he hs ⊢
  rw [he]; simp only [hs]

/-! ### entries -/

theorem Ents.keysIn_nil (T : Table) : Ents.KeysIn T [] := by intro k hk; cases hk

theorem Ents.keysIn_set (T : Table) (l : Ents) (k : Key) (v : Int) (h : Ents.KeysIn T l) (hk : Key.InT T k) :
    Ents.KeysIn T (l.set k v) := by
  intro k' hk'
  rw [keys_set] at hk'
  split at hk'
  · exact h k' hk'
  · rcases List.mem_append.1 hk' with h1 | h1
    · exact h k' h1
    · rw [List.mem_singleton.1 h1]; exact hk

theorem Ents.keysIn_set_has (T : Table) (l : Ents) (k : Key) (v : Int) (h : Ents.KeysIn T l) (hk : l.has k = true) :
    Ents.KeysIn T (l.set k v) :=
  Ents.keysIn_set T l k v h (h k ((has_iff_mem_keys l k).1 hk))

theorem Ents.keysIn_mapCounts (T : Table) (l : Ents) (f : Int → Int) (h : Ents.KeysIn T l) :
    Ents.KeysIn T (l.mapCounts f) := by
  intro k hk; rw [keys_mapCounts] at hk; exact h k hk

theorem Ents.keysIn_addFrom (T : Table) (a b : Ents) (s : Int) (ha : Ents.KeysIn T a) (hb : Ents.KeysIn T b) :
    Ents.KeysIn T (a.addFrom b s) := by
  unfold Ents.addFrom
  induction b generalizing a with
  | nil => exact ha
  | cons e rest ih =>
    simp only [List.foldl_cons]
    apply ih
    · exact Ents.keysIn_set T a e.1 _ ha (hb e.1 (by simp [keys]))
    · intro k hk; exact hb k (by rw [keys_cons]; exact List.mem_cons_of_mem _ hk)

theorem Ents.keysIn_ofSets_aux (T : Table) (acc l : Ents) (ha : Ents.KeysIn T acc) (hl : Ents.KeysIn T l) :
    Ents.KeysIn T (l.foldl (fun acc e => acc.set e.1 e.2) acc) := by
  induction l generalizing acc with
  | nil => exact ha
  | cons e rest ih =>
    simp only [List.foldl_cons]
    apply ih
    · exact Ents.keysIn_set T acc e.1 _ ha (hl e.1 (by simp [keys]))
    · intro k hk; exact hl k (by rw [keys_cons]; exact List.mem_cons_of_mem _ hk)

theorem Ents.keysIn_ofSets (T : Table) (l : Ents) (hl : Ents.KeysIn T l) : Ents.KeysIn T (Ents.ofSets l) :=
  Ents.keysIn_ofSets_aux T [] l (Ents.keysIn_nil T) hl

theorem convChain_keysIn (T : Table) (c : Comp) (f : Form) (h : Ents.KeysIn T c.ents) :
    Ents.KeysIn T (convChain c f).ents := by
  unfold convChain
  split <;> first
    | exact h
    | exact Ents.keysIn_ofSets T _ h
    | exact Ents.keysIn_ofSets T _ (Ents.keysIn_ofSets T _ h)

/-! ### registers -/

theorem Regs.at_keysIn {T : Table} {rs : Regs} (h : Regs.KeysIn T rs) (i : Nat) : Ents.KeysIn T (rs.at i).ents := by
  unfold Regs.at
  rw [List.getD_eq_getElem?_getD]
  cases hi : rs[i]? with
  | none => exact Ents.keysIn_nil T
  | some c => exact h c (List.mem_of_getElem? hi)

theorem Regs.put_keysIn {T : Table} {rs : Regs} (h : Regs.KeysIn T rs) (i : Nat) (c : Comp)
    (hc : Ents.KeysIn T c.ents) : Regs.KeysIn T (rs.put i c) := by
  intro x hx
  rcases List.mem_or_eq_of_mem_set hx with hx | hx
  · exact h x hx
  · exact hx ▸ hc

/-- **every operation of the machine keeps all keys inside the table**, provided the operation's own typed keys are table
    keys (string operations create keys only by parsing against `T`) -/
theorem step_keysIn (cc : CharClass) (T : Table) (hT : T.Own) (m : Key → Int) (rs : Regs) (op : Op)
    (h : Regs.KeysIn T rs) (ho : op.KeysIn T) : Regs.KeysIn T (stepM cc T m rs op).regs := by
  cases op <;> simp only [stepM] <;> simp only [Op.KeysIn] at ho
  case new r f => exact Regs.put_keysIn h _ _ (Ents.keysIn_nil T)
  case set r k v => exact Regs.put_keysIn h _ _ (Ents.keysIn_set T _ _ _ (Regs.at_keysIn h r) ho)
  case inc r k v => exact Regs.put_keysIn h _ _ (Ents.keysIn_set T _ _ _ (Regs.at_keysIn h r) ho)
  case iset r k v => exact Regs.put_keysIn h _ _ (Ents.keysIn_set T _ _ _ (Regs.at_keysIn h r) ho)
  case iadd r k v => exact Regs.put_keysIn h _ _ (Ents.keysIn_set T _ _ _ (Regs.at_keysIn h r) ho)
  case sset r s v =>
    unfold Comp.strIdxSet
    split <;> first | exact h | skip
    rename_i c hc
    split at hc <;> first | (cases hc; done) | skip
    rename_i k hk
    injection hc with hc; subst hc
    exact Regs.put_keysIn h _ _ (Ents.keysIn_set T _ _ _ (Regs.at_keysIn h r) (parseSpec_inT T hT s k hk))
  case sadd r s v =>
    unfold Comp.strIdxAdd
    split <;> first | exact h | skip
    rename_i c hc
    split at hc <;> first | (cases hc; done) | skip
    rename_i k hk
    injection hc with hc; subst hc
    exact Regs.put_keysIn h _ _ (Ents.keysIn_set T _ _ _ (Regs.at_keysIn h r) (parseSpec_inT T hT s k hk))
  case incs r s v =>
    unfold Comp.incStr Comp.strIdxAdd
    split <;> first | exact h | skip
    rename_i c hc
    split at hc
    · split at hc
      · rename_i hhas
        injection hc with hc; subst hc
        exact Regs.put_keysIn h _ _ (Ents.keysIn_set_has T _ _ _ (Regs.at_keysIn h r) hhas)
      · split at hc <;> first | (cases hc; done) | skip
        rename_i k hk
        injection hc with hc; subst hc
        exact Regs.put_keysIn h _ _ (Ents.keysIn_set T _ _ _ (Regs.at_keysIn h r) (parseSpec_inT T hT s k hk))
    · split at hc <;> first | (cases hc; done) | skip
      rename_i k hk
      injection hc with hc; subst hc
      exact Regs.put_keysIn h _ _ (Ents.keysIn_set T _ _ _ (Regs.at_keysIn h r) (parseSpec_inT T hT s k hk))
  case gsm r s v =>
    split
    · rename_i hhas
      exact Regs.put_keysIn h _ _ (Ents.keysIn_set_has T _ _ _ (Regs.at_keysIn h r) hhas)
    · split
      · exact Regs.put_keysIn h _ _ (Regs.at_keysIn h r)
      · exact h
  case fmass r =>
    apply Regs.put_keysIn h
    have : ((rs.at r).fmass m).1.ents = (rs.at r).ents := by
      unfold Comp.fmass; split <;> rfl
    rw [this]; exact Regs.at_keysIn h r
  case mul d a n => exact Regs.put_keysIn h _ _ (Ents.keysIn_mapCounts T _ _ (Regs.at_keysIn h a))
  case muli r n => exact Regs.put_keysIn h _ _ (Ents.keysIn_mapCounts T _ _ (Regs.at_keysIn h r))
  case neg d a => exact Regs.put_keysIn h _ _ (Ents.keysIn_mapCounts T _ _ (Regs.at_keysIn h a))
  case add d a b sign =>
    apply Regs.put_keysIn h
    unfold Comp.addNew
    rw [(Comp.addFrom_ents _ _ _).1]
    exact Ents.keysIn_addFrom T _ _ _ (Regs.at_keysIn h a) (Regs.at_keysIn h b)
  case addi a b sign =>
    apply Regs.put_keysIn h
    rw [(Comp.addFrom_ents _ _ _).1]
    exact Ents.keysIn_addFrom T _ _ _ (Regs.at_keysIn h a) (Regs.at_keysIn h b)
  case itm r f => exact Regs.put_keysIn h _ _ (Ents.keysIn_mapCounts T _ _ (Regs.at_keysIn h r))
  case clone d a => exact Regs.put_keysIn h _ _ (Regs.at_keysIn h a)
  case conv d a f => exact Regs.put_keysIn h _ _ (convChain_keysIn T _ f (Regs.at_keysIn h a))
  case fromkv d f v ps =>
    apply Regs.put_keysIn h
    have hp : Ents.KeysIn T (Ents.ofPairs ps) := Ents.keysIn_addFrom T [] ps 1 (Ents.keysIn_nil T) ho
    split
    · exact Ents.keysIn_ofSets T _ hp
    · exact hp
  case get r k => exact h
  case idx r k => exact h
  case gets r s => exact h
  case sidx r s => exact h
  case eq a b => exact h

/-- **one step**: the hypothesis `StrOK` of `lockstep_step` follows from "the keys come from the table" -/
theorem strOK_of_keysIn (T : Table) (rs : Regs) (op : Op) (h : Regs.KeysIn T rs) : op.StrOK T rs := by
  cases op <;> simp only [Op.StrOK]
  case incs r s v =>
    intro hhas
    exact parseSpec_of_inT T s (Regs.at_keysIn h r _ ((has_iff_mem_keys _ _).1 hhas))

/-- **whole histories**: `RunOK` follows from "the initial keys and the typed keys of the history come from the table" -/
theorem runOK_of_keysIn (cc : CharClass) (T : Table) (hT : T.Own) (m : Key → Int) (ops : List Op) (rs : Regs)
    (h : Regs.KeysIn T rs) (ho : ∀ op ∈ ops, op.KeysIn T) : RunOK cc T m rs ops := by
  induction ops generalizing rs with
  | nil => trivial
  | cons op rest ih =>
    exact ⟨strOK_of_keysIn T rs op h,
      ih _ (step_keysIn cc T hT m rs op h (ho op (List.mem_cons_self ..)))
        (fun o hmem => ho o (List.mem_cons_of_mem _ hmem))⟩

/-- the invariant along a run -/
theorem run_keysIn (cc : CharClass) (T : Table) (hT : T.Own) (m : Key → Int) (ops : List Op) (rs : Regs)
    (h : Regs.KeysIn T rs) (ho : ∀ op ∈ ops, op.KeysIn T) : Regs.KeysIn T (runM cc T m rs ops) := by
  induction ops generalizing rs with
  | nil => exact h
  | cons op rest ih =>
    simp only [runM, List.foldl_cons]
    exact ih _ (step_keysIn cc T hT m rs op h (ho op (List.mem_cons_self ..)))
      (fun o hmem => ho o (List.mem_cons_of_mem _ hmem))

/-- `lockstep_trace` with `RunOK` replaced by "the keys come from the table" -/
theorem lockstep_trace_keys (cc : CharClass) (T : Table) (hT : T.Own) (m : Key → Int) (φ : Form → Form)
    (hφ : ∀ f, (φ f).isEnum = f.isEnum) (ops : List Op) (rs rs' : Regs)
    (hk : rs.keys = rs'.keys) (hn : Regs.NoDup rs) (hi : rs.Inv m) (hi' : rs'.Inv m)
    (hin : Regs.KeysIn T rs) (hops : ∀ op ∈ ops, op.KeysIn T) :
    traceM cc T m rs ops = traceM cc T m rs' (ops.map (Op.mapForm φ)) :=
  lockstep_trace cc T m φ hφ ops rs rs' hk hn hi hi' (runOK_of_keysIn cc T hT m ops rs hin hops)

/-- `lockstep_run` with `RunOK` replaced by "the keys come from the table" -/
theorem lockstep_run_keys (cc : CharClass) (T : Table) (hT : T.Own) (m : Key → Int) (φ : Form → Form)
    (hφ : ∀ f, (φ f).isEnum = f.isEnum) (ops : List Op) (rs rs' : Regs)
    (hk : rs.keys = rs'.keys) (hn : Regs.NoDup rs) (hi : rs.Inv m) (hi' : rs'.Inv m)
    (hin : Regs.KeysIn T rs) (hops : ∀ op ∈ ops, op.KeysIn T) :
    (runM cc T m rs ops).keys = (runM cc T m rs' (ops.map (Op.mapForm φ))).keys :=
  lockstep_run cc T m φ hφ ops rs rs' hk hn hi hi' (runOK_of_keysIn cc T hT m ops rs hin hops)

/-- from the empty register file: no hypothesis on the registers at all -/
theorem lockstep_trace_fresh (cc : CharClass) (T : Table) (hT : T.Own) (m : Key → Int) (φ : Form → Form)
    (hφ : ∀ f, (φ f).isEnum = f.isEnum) (ops : List Op) (n : Nat) (f f' : Form) (hf : f'.isEnum = f.isEnum)
    (hops : ∀ op ∈ ops, op.KeysIn T) :
    traceM cc T m (List.replicate n (Comp.empty f)) ops =
      traceM cc T m (List.replicate n (Comp.empty f')) (ops.map (Op.mapForm φ)) := by
  have hempty : ∀ g : Form, ∀ c ∈ List.replicate n (Comp.empty g), c = Comp.empty g :=
    fun g c hc => (List.mem_replicate.1 hc).2
  apply lockstep_trace_keys cc T hT m φ hφ ops _ _ _ _ _ _ _ hops
  · simp [Regs.keys, Comp.key, Comp.empty, hf]
  · intro c hc; rw [hempty f c hc]; exact nodup_nil
  · intro c hc; rw [hempty f c hc]; exact Or.inl rfl
  · intro c hc; rw [hempty f' c hc]; exact Or.inl rfl
  · intro c hc; rw [hempty f c hc]; exact Ents.keysIn_nil T

end Chem
