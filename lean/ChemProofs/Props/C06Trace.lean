import ChemProofs.Props.C06
/-
`lockstep_run` (Props/C06.lean) concludes that the two runs END with the same entries.  The property says more: the two
compositions are indistinguishable *through the public API* along the way — every value read and every panic.  That is the
statement below: the whole trace of observations (value read, panic flag) of the two runs is the same list.
-/
namespace Chem

/-- what a client observes along a history: per operation, the value read (if the operation reads) and whether it panicked -/
def traceM (cc : CharClass) (T : Table) (m : Key → Int) : Regs → List Op → List (Option Int × Bool)
  | _, [] => []
  | rs, op :: rest =>
    ((stepM cc T m rs op).read, (stepM cc T m rs op).panicked) :: traceM cc T m (stepM cc T m rs op).regs rest

/-- **lock-step over whole histories, observations included**: same reads, same panics, step by step, for histories of any
    length, under any relabelling of representations that keeps direct direct and enum-wrapped enum-wrapped -/
theorem lockstep_trace (cc : CharClass) (T : Table) (m : Key → Int) (φ : Form → Form)
    (hφ : ∀ f, (φ f).isEnum = f.isEnum) (ops : List Op) (rs rs' : Regs)
    (hk : rs.keys = rs'.keys) (hn : Regs.NoDup rs) (hi : rs.Inv m) (hi' : rs'.Inv m)
    (hs : RunOK cc T m rs ops) :
    traceM cc T m rs ops = traceM cc T m rs' (ops.map (Op.mapForm φ)) := by
  induction ops generalizing rs rs' with
  | nil => rfl
  | cons op rest ih =>
    simp only [traceM, List.map_cons]
    have h := lockstep_step cc T m φ hφ rs rs' op hk hn hi hi' hs.1
    rw [h.2.1, h.2.2]
    congr 1
    exact ih _ _ h.1 (step_nodup cc T m rs op hn) (step_inv cc T m rs op hi)
      (step_inv cc T m rs' _ hi') hs.2

end Chem
