import ChemProofs.Model.Formula
import ChemProofs.Spec.Grammar
import ChemProofs.Lemmas.Ents
/-
C07 — the displayed formula text is canonical (model of `to_formula`, `Model/Formula.lean`).

Proved here (core Lean only, no axioms beyond the standard ones):

* `keyLt_irrefl`, `keyLt_trans`, `keyLt_total`, `keyLt_asymm`:
  `keyLt` (symbol lexicographic, then isotope) is a strict total order on keys.
* `sortEnts_perm`: `sortEnts l` is a permutation of `l`.
* `sortEnts_sorted`: for duplicate-free keys, `sortEnts l` is strictly sorted by `keyLt`.
* `sorted_unique_of_mem` / `sorted_unique_of_perm`: a strictly sorted list is determined by its
  set of members (hence by its permutation class).
* `sortEnts_canonical`: duplicate-free permutations of each other sort to the same list.
* `mem_iff_abs`, `perm_of_same_map`: a duplicate-free entry list is determined, up to permutation,
  by its finite-map view `Ents.abs`.
* `sortEnts_of_same_map`: duplicate-free lists with the same finite-map view sort to the same list.
* `strIndex_of_same_map`: `Comp.strIndex` depends only on the finite-map view.
* `toFormula_canonical`: the displayed text depends only on the finite-map view of the
  composition (not on `form`, the cache, or the insertion order).
* non-vacuity examples by `decide`.
-/
namespace Chem

/-! ### `keyLt` is a strict total order -/

theorem lexLtSym_irrefl (a : List Nat) : keyLt.lexLtSym a a = false := by
  induction a with
  | nil => rfl
  | cons x xs ih => simp [keyLt.lexLtSym, ih]

theorem lexLtSym_trans {a b c : List Nat} :
    keyLt.lexLtSym a b = true → keyLt.lexLtSym b c = true → keyLt.lexLtSym a c = true := by
  induction a generalizing b c with
  | nil =>
    cases b with
    | nil => intro h; simp [keyLt.lexLtSym] at h
    | cons y ys =>
      cases c with
      | nil => intro _ h; simp [keyLt.lexLtSym] at h
      | cons z zs => intro _ _; rfl
  | cons x xs ih =>
    cases b with
    | nil => intro h; simp [keyLt.lexLtSym] at h
    | cons y ys =>
      cases c with
      | nil => intro _ h; simp [keyLt.lexLtSym] at h
      | cons z zs =>
        simp only [keyLt.lexLtSym]
        intro h1 h2
        by_cases hxy : x < y
        · by_cases hyz : y < z
          · have : x < z := by omega
            simp [this]
          · by_cases hzy : z < y
            · simp [hyz, hzy] at h2
            · have : y = z := by omega
              subst this
              simp [hxy]
        · by_cases hyx : y < x
          · simp [hxy, hyx] at h1
          · have : x = y := by omega
            subst this
            simp only [hxy, if_false] at h1
            by_cases hxz : x < z
            · simp [hxz]
            · by_cases hzx : z < x
              · simp [hxz, hzx] at h2
              · simp only [hxz, hzx, if_false] at h2 ⊢
                exact ih h1 h2

theorem lexLtSym_total (a b : List Nat) :
    a ≠ b → keyLt.lexLtSym a b = true ∨ keyLt.lexLtSym b a = true := by
  induction a generalizing b with
  | nil =>
    cases b with
    | nil => intro h; exact absurd rfl h
    | cons y ys => intro _; exact Or.inl rfl
  | cons x xs ih =>
    cases b with
    | nil => intro _; exact Or.inr rfl
    | cons y ys =>
      intro hne
      simp only [keyLt.lexLtSym]
      by_cases hxy : x < y
      · simp [hxy]
      · by_cases hyx : y < x
        · simp [hyx]
        · have : x = y := by omega
          subst this
          simp only [hxy, if_false]
          exact ih ys (fun h => hne (by rw [h]))

theorem lexLtSym_asymm {a b : List Nat} :
    keyLt.lexLtSym a b = true → keyLt.lexLtSym b a = false := by
  intro h
  cases h' : keyLt.lexLtSym b a
  · rfl
  · have := lexLtSym_trans h h'
    rw [lexLtSym_irrefl] at this
    exact absurd this (by decide)

theorem keyLt_iff (a b : Key) :
    keyLt a b = true ↔ (keyLt.lexLtSym a.1 b.1 = true ∨ (a.1 = b.1 ∧ a.2 < b.2)) := by
  simp [keyLt]

theorem keyLt_irrefl (a : Key) : keyLt a a = false := by
  cases h : keyLt a a
  · rfl
  · rw [keyLt_iff] at h
    rcases h with h | ⟨_, h⟩
    · rw [lexLtSym_irrefl] at h; exact absurd h (by decide)
    · omega

theorem keyLt_trans {a b c : Key} : keyLt a b = true → keyLt b c = true → keyLt a c = true := by
  rw [keyLt_iff, keyLt_iff, keyLt_iff]
  rintro (h1 | ⟨e1, h1⟩) (h2 | ⟨e2, h2⟩)
  · exact Or.inl (lexLtSym_trans h1 h2)
  · rw [← e2]; exact Or.inl h1
  · rw [e1]; exact Or.inl h2
  · exact Or.inr ⟨e1.trans e2, by omega⟩

theorem keyLt_total (a b : Key) : a ≠ b → keyLt a b = true ∨ keyLt b a = true := by
  intro hne
  rw [keyLt_iff, keyLt_iff]
  by_cases hs : a.1 = b.1
  · have hn : a.2 ≠ b.2 := fun h => hne (Prod.ext hs h)
    by_cases hlt : a.2 < b.2
    · exact Or.inl (Or.inr ⟨hs, hlt⟩)
    · exact Or.inr (Or.inr ⟨hs.symm, by omega⟩)
  · rcases lexLtSym_total a.1 b.1 hs with h | h
    · exact Or.inl (Or.inl h)
    · exact Or.inr (Or.inl h)

theorem keyLt_asymm {a b : Key} : keyLt a b = true → keyLt b a = false := by
  intro h
  cases h' : keyLt b a
  · rfl
  · have := keyLt_trans h h'
    rw [keyLt_irrefl] at this
    exact absurd this (by decide)

/-! ### `insertKey` / `sortEnts` -/

/-- strictly sorted by key -/
abbrev KeySorted (l : Ents) : Prop := List.Pairwise (fun a b => keyLt a.1 b.1 = true) l

theorem insertKey_perm (e : Key × Int) (l : Ents) : (insertKey e l).Perm (e :: l) := by
  induction l with
  | nil => exact List.Perm.refl _
  | cons y ys ih =>
    simp only [insertKey]
    split
    · exact List.Perm.refl _
    · exact (List.Perm.cons y ih).trans (List.Perm.swap e y ys)

theorem mem_insertKey (e x : Key × Int) (l : Ents) : x ∈ insertKey e l ↔ x = e ∨ x ∈ l := by
  rw [(insertKey_perm e l).mem_iff, List.mem_cons]

theorem foldl_insertKey_perm (l acc : Ents) :
    (l.foldl (fun acc e => insertKey e acc) acc).Perm (l ++ acc) := by
  induction l generalizing acc with
  | nil => exact List.Perm.refl _
  | cons e rest ih =>
    simp only [List.foldl_cons, List.cons_append]
    refine (ih (insertKey e acc)).trans ?_
    refine ((insertKey_perm e acc).append_left rest).trans ?_
    exact List.perm_middle

theorem sortEnts_perm (l : Ents) : (sortEnts l).Perm l := by
  have := foldl_insertKey_perm l []
  simpa [sortEnts] using this

theorem insertKey_sorted (e : Key × Int) (l : Ents) (hs : KeySorted l)
    (hne : ∀ y ∈ l, y.1 ≠ e.1) : KeySorted (insertKey e l) := by
  induction l with
  | nil => simp [insertKey, KeySorted]
  | cons y ys ih =>
    have hs' := List.pairwise_cons.1 hs
    simp only [insertKey]
    split
    · rename_i hlt
      refine List.pairwise_cons.2 ⟨?_, hs⟩
      intro z hz
      rcases List.mem_cons.1 hz with rfl | hz
      · exact hlt
      · exact keyLt_trans hlt (hs'.1 z hz)
    · rename_i hnlt
      have hye : keyLt y.1 e.1 = true := by
        rcases keyLt_total y.1 e.1 (hne y List.mem_cons_self) with h | h
        · exact h
        · exact absurd h hnlt
      refine List.pairwise_cons.2 ⟨?_, ih hs'.2 (fun z hz => hne z (List.mem_cons_of_mem _ hz))⟩
      intro z hz
      rcases (mem_insertKey e z ys).1 hz with rfl | hz
      · exact hye
      · exact hs'.1 z hz

theorem foldl_insertKey_sorted (l acc : Ents) (hs : KeySorted acc)
    (hnd : Ents.NoDupKeys (l ++ acc)) :
    KeySorted (l.foldl (fun acc e => insertKey e acc) acc) := by
  induction l generalizing acc with
  | nil => exact hs
  | cons e rest ih =>
    simp only [List.foldl_cons]
    unfold Ents.NoDupKeys Ents.keys at hnd
    simp only [List.cons_append, List.map_cons, List.nodup_cons, List.map_append,
      List.mem_append, List.mem_map, not_or, not_exists, not_and] at hnd
    apply ih
    · apply insertKey_sorted e acc hs
      intro y hy
      exact hnd.1.2 y hy
    · unfold Ents.NoDupKeys Ents.keys
      have hp : ((rest ++ insertKey e acc).map (·.1)).Perm (e.1 :: (rest ++ acc).map (·.1)) := by
        have h1 : (rest ++ insertKey e acc).Perm (e :: (rest ++ acc)) :=
          ((insertKey_perm e acc).append_left rest).trans List.perm_middle
        simpa using h1.map (·.1)
      rw [hp.nodup_iff, List.nodup_cons]
      refine ⟨?_, by simpa using hnd.2⟩
      simp only [List.map_append, List.mem_append, List.mem_map, not_or, not_exists, not_and]
      exact hnd.1

theorem sortEnts_sorted (l : Ents) (h : l.NoDupKeys) :
    List.Pairwise (fun a b => keyLt a.1 b.1 = true) (sortEnts l) := by
  unfold sortEnts
  apply foldl_insertKey_sorted l [] List.Pairwise.nil
  simpa using h

/-! ### uniqueness of strictly sorted lists -/

/-- a strictly sorted list is determined by its set of members -/
theorem sorted_unique_of_mem (l1 l2 : Ents) (h1 : KeySorted l1) (h2 : KeySorted l2)
    (hm : ∀ e, e ∈ l1 ↔ e ∈ l2) : l1 = l2 := by
  induction l1 generalizing l2 with
  | nil =>
    cases l2 with
    | nil => rfl
    | cons y ys => exact absurd ((hm y).2 List.mem_cons_self) (by simp)
  | cons x xs ih =>
    cases l2 with
    | nil => exact absurd ((hm x).1 List.mem_cons_self) (by simp)
    | cons y ys =>
      have p1 := List.pairwise_cons.1 h1
      have p2 := List.pairwise_cons.1 h2
      have hxy : x = y := by
        by_cases hxy : x = y
        · exact hxy
        · have hx : x ∈ ys := by
            rcases List.mem_cons.1 ((hm x).1 List.mem_cons_self) with h | h
            · exact absurd h hxy
            · exact h
          have hy : y ∈ xs := by
            rcases List.mem_cons.1 ((hm y).2 List.mem_cons_self) with h | h
            · exact absurd h.symm hxy
            · exact h
          have a1 := p1.1 y hy
          have a2 := p2.1 x hx
          rw [keyLt_asymm a1] at a2
          exact absurd a2 (by decide)
      subst hxy
      congr 1
      apply ih ys p1.2 p2.2
      intro e
      constructor
      · intro he
        rcases List.mem_cons.1 ((hm e).1 (List.mem_cons_of_mem _ he)) with h | h
        · have := p1.1 e he
          rw [h, keyLt_irrefl] at this
          exact absurd this (by decide)
        · exact h
      · intro he
        rcases List.mem_cons.1 ((hm e).2 (List.mem_cons_of_mem _ he)) with h | h
        · have := p2.1 e he
          rw [h, keyLt_irrefl] at this
          exact absurd this (by decide)
        · exact h

/-- two strictly sorted lists that are permutations of each other are equal -/
theorem sorted_unique_of_perm (l1 l2 : Ents) (h1 : KeySorted l1) (h2 : KeySorted l2)
    (hp : l1.Perm l2) : l1 = l2 :=
  sorted_unique_of_mem l1 l2 h1 h2 (fun _ => hp.mem_iff)

theorem NoDupKeys_of_perm {a b : Ents} (ha : a.NoDupKeys) (hp : a.Perm b) : b.NoDupKeys := by
  unfold Ents.NoDupKeys Ents.keys at *
  exact ((hp.map (·.1)).nodup_iff).1 ha

/-- **canonical**: duplicate-free permutations of each other sort to the same list -/
theorem sortEnts_canonical (a b : Ents) (ha : a.NoDupKeys) (hp : a.Perm b) :
    sortEnts a = sortEnts b :=
  sorted_unique_of_perm _ _ (sortEnts_sorted a ha) (sortEnts_sorted b (NoDupKeys_of_perm ha hp))
    (((sortEnts_perm a).trans hp).trans (sortEnts_perm b).symm)

/-! ### the finite-map view -/

/-- membership in a duplicate-free entry list is exactly the finite-map view -/
theorem mem_iff_abs (l : Ents) (h : l.NoDupKeys) (e : Key × Int) :
    e ∈ l ↔ Ents.abs l e.1 = some e.2 := by
  induction l with
  | nil => simp [Ents.abs]
  | cons x xs ih =>
    unfold Ents.NoDupKeys Ents.keys at h
    simp only [List.map_cons, List.nodup_cons, List.mem_map, not_exists, not_and] at h
    rw [Ents.abs_cons, List.mem_cons]
    by_cases hk : x.1 = e.1
    · rw [if_pos hk]
      constructor
      · rintro (rfl | hm)
        · rfl
        · exact absurd hk.symm (h.1 e hm)
      · intro hv
        left
        exact Prod.ext hk.symm (Option.some.inj hv).symm
    · rw [if_neg hk, ← ih h.2]
      constructor
      · rintro (rfl | hm)
        · exact absurd rfl hk
        · exact hm
      · exact Or.inr

theorem mem_iff_of_same_map (a b : Ents) (ha : a.NoDupKeys) (hb : b.NoDupKeys)
    (hsame : ∀ k, Ents.abs a k = Ents.abs b k) (e : Key × Int) : e ∈ a ↔ e ∈ b := by
  rw [mem_iff_abs a ha, mem_iff_abs b hb, hsame]

/-- **canonical, finite-map form**: duplicate-free lists denoting the same finite map sort to
    the same list -/
theorem sortEnts_of_same_map (a b : Ents) (ha : a.NoDupKeys) (hb : b.NoDupKeys)
    (hsame : ∀ k, Ents.abs a k = Ents.abs b k) : sortEnts a = sortEnts b := by
  apply sorted_unique_of_mem _ _ (sortEnts_sorted a ha) (sortEnts_sorted b hb)
  intro e
  rw [(sortEnts_perm a).mem_iff, (sortEnts_perm b).mem_iff]
  exact mem_iff_of_same_map a b ha hb hsame e

/-- duplicate-free lists denoting the same finite map are permutations of each other -/
theorem perm_of_same_map (a b : Ents) (ha : a.NoDupKeys) (hb : b.NoDupKeys)
    (hsame : ∀ k, Ents.abs a k = Ents.abs b k) : a.Perm b :=
  (sortEnts_perm a).symm.trans
    ((sortEnts_of_same_map a b ha hb hsame) ▸ (sortEnts_perm b))

/-! ### the displayed text is canonical -/

theorem get_of_same_map (a b : Ents) (hsame : ∀ k, Ents.abs a k = Ents.abs b k) (k : Key) :
    a.get k = b.get k := by
  rw [Ents.get_eq_abs, Ents.get_eq_abs, hsame]

/-- the string index reads only through the finite-map view -/
theorem strIndex_of_same_map (cc : CharClass) (T : Table) (c c' : Comp)
    (hsame : ∀ k, Ents.abs c.ents k = Ents.abs c'.ents k) (s : Sym) :
    c.strIndex cc T s = c'.strIndex cc T s := by
  unfold Comp.strIndex Ents.getStr
  split
  · exact get_of_same_map _ _ hsame _
  · rfl
  · split
    · exact get_of_same_map _ _ hsame _
    · rfl

/-- **display is canonical**: the text of `to_formula` depends only on the finite map a
    composition denotes — not on the representation `form`, the cache or the insertion order -/
theorem toFormula_canonical (cc : CharClass) (T : Table) (c c' : Comp)
    (h : c.ents.NoDupKeys) (h' : c'.ents.NoDupKeys)
    (hsame : ∀ k, Ents.abs c.ents k = Ents.abs c'.ents k) :
    toFormula cc T c = toFormula cc T c' := by
  unfold toFormula
  rw [strIndex_of_same_map cc T c c' hsame [67], strIndex_of_same_map cc T c c' hsame [72],
    sortEnts_of_same_map c.ents c'.ents h h' hsame]

/-! ### non-vacuity -/

-- O2 H5 C2 13C1 in two insertion orders: same sorted list
example :
    sortEnts [(([79], 0), 2), (([72], 0), 5), (([67], 0), 2), (([67], 13), 1)]
      = sortEnts [(([67], 13), 1), (([67], 0), 2), (([79], 0), 2), (([72], 0), 5)] := by decide

example :
    sortEnts [(([79], 0), 2), (([72], 0), 5), (([67], 0), 2), (([67], 13), 1)]
      = [(([67], 0), 2), (([67], 13), 1), (([72], 0), 5), (([79], 0), 2)] := by decide

-- "Na" < "O", and prefix order "N" < "Na"
example : sortEnts [(([79], 0), 1), (([78, 97], 0), 1), (([78], 0), 3)]
    = [(([78], 0), 3), (([78, 97], 0), 1), (([79], 0), 1)] := by decide

example : keyLt ([67], 0) ([67], 13) = true := by decide
example : keyLt ([67], 13) ([72], 0) = true := by decide

/-- ASCII character classes, for the concrete examples -/
def asciiCC : CharClass := ⟨isAsciiAlpha, isAsciiDigit, isAsciiUpper⟩

-- O2, H5, C2, 13C1 displayed: "C2H5C[13]1O2"  (both stores, either insertion order)
example :
    toFormula asciiCC [] ⟨.vec, [(([79], 0), 2), (([72], 0), 5), (([67], 0), 2), (([67], 13), 1)], none⟩
      = [67, 50, 72, 53, 67, 91, 49, 51, 93, 49, 79, 50] := by decide

example :
    toFormula asciiCC [] ⟨.emap, [(([67], 13), 1), (([67], 0), 2), (([79], 0), 2), (([72], 0), 5)], some 7⟩
      = [67, 50, 72, 53, 67, 91, 49, 51, 93, 49, 79, 50] := by decide

-- negative count and no carbon: "H-1Na1"
example : toFormula asciiCC [] ⟨.map, [(([78, 97], 0), 1), (([72], 0), -1)], none⟩
    = [72, 45, 49, 78, 97, 49] := by decide

-- the hypotheses of `toFormula_canonical` are satisfiable by genuinely different representations
example : toFormula asciiCC [] ⟨.vec, [(([79], 0), 2), (([72], 0), 5)], none⟩
    = toFormula asciiCC [] ⟨.emap, [(([72], 0), 5), (([79], 0), 2)], some 3⟩ := by
  apply toFormula_canonical
  · show List.Nodup _; decide
  · show List.Nodup _; decide
  · intro k
    simp only [Ents.abs_cons, Ents.abs_nil]
    by_cases h1 : k = ([79], 0)
    · subst h1; decide
    · by_cases h2 : k = ([72], 0)
      · subst h2; decide
      · have a : ¬ ([79], 0) = k := fun h => h1 h.symm
        have b : ¬ ([72], 0) = k := fun h => h2 h.symm
        simp [a, b]

end Chem
