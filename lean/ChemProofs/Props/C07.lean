import ChemProofs.Model.Formula
import ChemProofs.Spec.Grammar
import ChemProofs.Lemmas.Ents
import ChemProofs.Props.C01
/-
C07 — the displayed formula text is canonical (model of `to_formula`, `Model/Formula.lean`).

Proved here (core Lean only, no axioms beyond the standard ones):

* `keyLt_irrefl`, `keyLt_trans`, `keyLt_total`, `keyLt_asymm`:
  `keyLt` (symbol lexicographic, then isotope) is a strict total order on keys.
* `sortEnts_perm`: `sortEnts l` is a permutation of `l`.
* `sortEnts_sorted`: for duplicate-free keys, `sortEnts l` is strictly sorted by `keyLt`.
* `sorted_unique_of_mem` / `sorted_unique_of_perm`: a strictly sorted list is determined by its
  set of members (hence by its permutation class).
* `sortEnts_canonical`: duplicate-free permutations of each other sort to the same list.
* `mem_iff_abs`, `perm_of_same_map`: a duplicate-free entry list is determined, up to permutation,
  by its finite-map view `Ents.abs`.
* `sortEnts_of_same_map`: duplicate-free lists with the same finite-map view sort to the same list.
* `strIndex_of_same_map`: `Comp.strIndex` depends only on the finite-map view.
* `toFormula_canonical`: the displayed text depends only on the finite-map view of the
  composition (not on `form`, the cache, or the insertion order).
* non-vacuity examples by `decide`.

Second part — the displayed text round-trips through the parser (uses `Props/C01.lean`):

* Definitions: `isCHk` (plain C / plain H key), `headOf l` (the C entry, then the H entry, each only if
  its count is non-zero), `restOf l` (all other entries of `sortEnts l`), `displayEnts l = headOf l ++
  restOf l`, `termOf e = .elem sym (if iso = 0 then none else some iso) (some |count|)`,
  `astOf c = termsOf (displayEnts c.ents)`, `entText` (the text `toFormula` writes for one entry),
  `KeyOK T k` (the symbol is a table symbol stored under itself with `isUpperHead`; isotope 0, or
  ≤ 65535 and an isotope of that element) and the hypothesis bundle
  `Displayable T c` = `c.ents.NoDupKeys` ∧ every count in `(0, 2147483647]` ∧ every key `KeyOK`
  (both decidable).
* `quickCheck_C`, `quickCheck_H`: `quickCheckStr cc "C" = quickCheckStr cc "H" = .yes` follow from
  `cc.AsciiOK`, so `strIndex` of "C"/"H" is the entry lookup; no separate quick-check hypothesis is needed.
* `display_is_render`: for `Displayable T c` and `cc.AsciiOK`,
  `toFormula cc T c = (astOf c).render`, `WF T (astOf c)`, `astOf c ≠ .nil` when `c.ents ≠ []`,
  `∀ k, (astOf c).denote k = c.ents.get k`, and every key mentioned by `astOf c` is a key of `c`.
* `display_roundtrip` (and its corollary `roundtrip`, the statement of the task): with `SymbolsOK cc T`
  and `c.ents ≠ []`, `parseFormula cc T (toFormula cc T c) = .ok ents'` with `∀ k, ents'.get k =
  c.ents.get k`, `ents'.NoDupKeys` and `∀ k, Ents.abs ents' k = Ents.abs c.ents k`.
  `c.ents ≠ []` is necessary: the empty composition displays as "" and `parseFormula _ _ [] = .err`
  (example below).  Positivity is necessary: a negative count is displayed with `-`, which the parser
  rejects (example below).
* `display_parse_display`: parse ∘ display followed by display gives the same text again.
* `display_order`: (only `NoDupKeys` and `cc.AsciiOK` needed) the text is `"C…" ++ "H…" ++ rest`, the
  keys of `restOf c.ents` are `List.Pairwise keyLt` (strictly increasing by (symbol, isotope)) and are
  exactly the keys of `c` other than plain C and plain H (so `C[13]`, `H[2]` are among them).
* non-vacuity: a three-element table, a composition with a fixed-isotope entry `C[13]`; all hypotheses,
  the text "C2H5C[13]1O2", its parse, and the instantiated theorem are checked by `decide`.

NOT PROVED: nothing of the goal is left open.
-/
namespace Chem

/-! ### `keyLt` is a strict total order -/

theorem lexLtSym_irrefl (a : List Nat) : keyLt.lexLtSym a a = false := by
  induction a with
  | nil => rfl
  | cons x xs ih => simp [keyLt.lexLtSym, ih]

theorem lexLtSym_trans {a b c : List Nat} :
    keyLt.lexLtSym a b = true → keyLt.lexLtSym b c = true → keyLt.lexLtSym a c = true := by
  induction a generalizing b c with
  | nil =>
    cases b with
    | nil => intro h; simp [keyLt.lexLtSym] at h
    | cons y ys =>
      cases c with
      | nil => intro _ h; simp [keyLt.lexLtSym] at h
      | cons z zs => intro _ _; rfl
  | cons x xs ih =>
    cases b with
    | nil => intro h; simp [keyLt.lexLtSym] at h
    | cons y ys =>
      cases c with
      | nil => intro _ h; simp [keyLt.lexLtSym] at h
      | cons z zs =>
        simp only [keyLt.lexLtSym]
        intro h1 h2
        by_cases hxy : x < y
        · by_cases hyz : y < z
          · have : x < z := by omega
            simp [this]
          · by_cases hzy : z < y
            · simp [hyz, hzy] at h2
            · have : y = z := by omega
              subst this
              simp [hxy]
        · by_cases hyx : y < x
          · simp [hxy, hyx] at h1
          · have : x = y := by omega
            subst this
            simp only [hxy, if_false] at h1
            by_cases hxz : x < z
            · simp [hxz]
            · by_cases hzx : z < x
              · simp [hxz, hzx] at h2
              · simp only [hxz, hzx, if_false] at h2 ⊢
                exact ih h1 h2

theorem lexLtSym_total (a b : List Nat) :
    a ≠ b → keyLt.lexLtSym a b = true ∨ keyLt.lexLtSym b a = true := by
  induction a generalizing b with
  | nil =>
    cases b with
    | nil => intro h; exact absurd rfl h
    | cons y ys => intro _; exact Or.inl rfl
  | cons x xs ih =>
    cases b with
    | nil => intro _; exact Or.inr rfl
    | cons y ys =>
      intro hne
      simp only [keyLt.lexLtSym]
      by_cases hxy : x < y
      · simp [hxy]
      · by_cases hyx : y < x
        · simp [hyx]
        · have : x = y := by omega
          subst this
          simp only [hxy, if_false]
          exact ih ys (fun h => hne (by rw [h]))

theorem lexLtSym_asymm {a b : List Nat} :
    keyLt.lexLtSym a b = true → keyLt.lexLtSym b a = false := by
  intro h
  cases h' : keyLt.lexLtSym b a
  · rfl
  · have := lexLtSym_trans h h'
    rw [lexLtSym_irrefl] at this
    exact absurd this (by decide)

theorem keyLt_iff (a b : Key) :
    keyLt a b = true ↔ (keyLt.lexLtSym a.1 b.1 = true ∨ (a.1 = b.1 ∧ a.2 < b.2)) := by
  simp [keyLt]

theorem keyLt_irrefl (a : Key) : keyLt a a = false := by
  cases h : keyLt a a
  · rfl
  · rw [keyLt_iff] at h
    rcases h with h | ⟨_, h⟩
    · rw [lexLtSym_irrefl] at h; exact absurd h (by decide)
    · omega

theorem keyLt_trans {a b c : Key} : keyLt a b = true → keyLt b c = true → keyLt a c = true := by
  rw [keyLt_iff, keyLt_iff, keyLt_iff]
  rintro (h1 | ⟨e1, h1⟩) (h2 | ⟨e2, h2⟩)
  · exact Or.inl (lexLtSym_trans h1 h2)
  · rw [← e2]; exact Or.inl h1
  · rw [e1]; exact Or.inl h2
  · exact Or.inr ⟨e1.trans e2, by omega⟩

theorem keyLt_total (a b : Key) : a ≠ b → keyLt a b = true ∨ keyLt b a = true := by
  intro hne
  rw [keyLt_iff, keyLt_iff]
  by_cases hs : a.1 = b.1
  · have hn : a.2 ≠ b.2 := fun h => hne (Prod.ext hs h)
    by_cases hlt : a.2 < b.2
    · exact Or.inl (Or.inr ⟨hs, hlt⟩)
    · exact Or.inr (Or.inr ⟨hs.symm, by omega⟩)
  · rcases lexLtSym_total a.1 b.1 hs with h | h
    · exact Or.inl (Or.inl h)
    · exact Or.inr (Or.inl h)

theorem keyLt_asymm {a b : Key} : keyLt a b = true → keyLt b a = false := by
  intro h
  cases h' : keyLt b a
  · rfl
  · have := keyLt_trans h h'
    rw [keyLt_irrefl] at this
    exact absurd this (by decide)

/-! ### `insertKey` / `sortEnts` -/

/-- strictly sorted by key -/
abbrev KeySorted (l : Ents) : Prop := List.Pairwise (fun a b => keyLt a.1 b.1 = true) l

theorem insertKey_perm (e : Key × Int) (l : Ents) : (insertKey e l).Perm (e :: l) := by
  induction l with
  | nil => exact List.Perm.refl _
  | cons y ys ih =>
    simp only [insertKey]
    split
    · exact List.Perm.refl _
    · exact (List.Perm.cons y ih).trans (List.Perm.swap e y ys)

theorem mem_insertKey (e x : Key × Int) (l : Ents) : x ∈ insertKey e l ↔ x = e ∨ x ∈ l := by
  rw [(insertKey_perm e l).mem_iff, List.mem_cons]

theorem foldl_insertKey_perm (l acc : Ents) :
    (l.foldl (fun acc e => insertKey e acc) acc).Perm (l ++ acc) := by
  induction l generalizing acc with
  | nil => exact List.Perm.refl _
  | cons e rest ih =>
    simp only [List.foldl_cons, List.cons_append]
    refine (ih (insertKey e acc)).trans ?_
    refine ((insertKey_perm e acc).append_left rest).trans ?_
    exact List.perm_middle

theorem sortEnts_perm (l : Ents) : (sortEnts l).Perm l := by
  have := foldl_insertKey_perm l []
  simpa [sortEnts] using this

theorem insertKey_sorted (e : Key × Int) (l : Ents) (hs : KeySorted l)
    (hne : ∀ y ∈ l, y.1 ≠ e.1) : KeySorted (insertKey e l) := by
  induction l with
  | nil => simp [insertKey, KeySorted]
  | cons y ys ih =>
    have hs' := List.pairwise_cons.1 hs
    simp only [insertKey]
    split
    · rename_i hlt
      refine List.pairwise_cons.2 ⟨?_, hs⟩
      intro z hz
      rcases List.mem_cons.1 hz with rfl | hz
      · exact hlt
      · exact keyLt_trans hlt (hs'.1 z hz)
    · rename_i hnlt
      have hye : keyLt y.1 e.1 = true := by
        rcases keyLt_total y.1 e.1 (hne y List.mem_cons_self) with h | h
        · exact h
        · exact absurd h hnlt
      refine List.pairwise_cons.2 ⟨?_, ih hs'.2 (fun z hz => hne z (List.mem_cons_of_mem _ hz))⟩
      intro z hz
      rcases (mem_insertKey e z ys).1 hz with rfl | hz
      · exact hye
      · exact hs'.1 z hz

theorem foldl_insertKey_sorted (l acc : Ents) (hs : KeySorted acc)
    (hnd : Ents.NoDupKeys (l ++ acc)) :
    KeySorted (l.foldl (fun acc e => insertKey e acc) acc) := by
  induction l generalizing acc with
  | nil => exact hs
  | cons e rest ih =>
    simp only [List.foldl_cons]
    unfold Ents.NoDupKeys Ents.keys at hnd
    simp only [List.cons_append, List.map_cons, List.nodup_cons, List.map_append,
      List.mem_append, List.mem_map, not_or, not_exists, not_and] at hnd
    apply ih
    · apply insertKey_sorted e acc hs
      intro y hy
      exact hnd.1.2 y hy
    · unfold Ents.NoDupKeys Ents.keys
      have hp : ((rest ++ insertKey e acc).map (·.1)).Perm (e.1 :: (rest ++ acc).map (·.1)) := by
        have h1 : (rest ++ insertKey e acc).Perm (e :: (rest ++ acc)) :=
          ((insertKey_perm e acc).append_left rest).trans List.perm_middle
        simpa using h1.map (·.1)
      rw [hp.nodup_iff, List.nodup_cons]
      refine ⟨?_, by simpa using hnd.2⟩
      simp only [List.map_append, List.mem_append, List.mem_map, not_or, not_exists, not_and]
      exact hnd.1

theorem sortEnts_sorted (l : Ents) (h : l.NoDupKeys) :
    List.Pairwise (fun a b => keyLt a.1 b.1 = true) (sortEnts l) := by
  unfold sortEnts
  apply foldl_insertKey_sorted l [] List.Pairwise.nil
  simpa using h

/-! ### uniqueness of strictly sorted lists -/

/-- a strictly sorted list is determined by its set of members -/
theorem sorted_unique_of_mem (l1 l2 : Ents) (h1 : KeySorted l1) (h2 : KeySorted l2)
    (hm : ∀ e, e ∈ l1 ↔ e ∈ l2) : l1 = l2 := by
  induction l1 generalizing l2 with
  | nil =>
    cases l2 with
    | nil => rfl
    | cons y ys => exact absurd ((hm y).2 List.mem_cons_self) (by simp)
  | cons x xs ih =>
    cases l2 with
    | nil => exact absurd ((hm x).1 List.mem_cons_self) (by simp)
    | cons y ys =>
      have p1 := List.pairwise_cons.1 h1
      have p2 := List.pairwise_cons.1 h2
      have hxy : x = y := by
        by_cases hxy : x = y
        · exact hxy
        · have hx : x ∈ ys := by
            rcases List.mem_cons.1 ((hm x).1 List.mem_cons_self) with h | h
            · exact absurd h hxy
            · exact h
          have hy : y ∈ xs := by
            rcases List.mem_cons.1 ((hm y).2 List.mem_cons_self) with h | h
            · exact absurd h.symm hxy
            · exact h
          have a1 := p1.1 y hy
          have a2 := p2.1 x hx
          rw [keyLt_asymm a1] at a2
          exact absurd a2 (by decide)
      subst hxy
      congr 1
      apply ih ys p1.2 p2.2
      intro e
      constructor
      · intro he
        rcases List.mem_cons.1 ((hm e).1 (List.mem_cons_of_mem _ he)) with h | h
        · have := p1.1 e he
          rw [h, keyLt_irrefl] at this
          exact absurd this (by decide)
        · exact h
      · intro he
        rcases List.mem_cons.1 ((hm e).2 (List.mem_cons_of_mem _ he)) with h | h
        · have := p2.1 e he
          rw [h, keyLt_irrefl] at this
          exact absurd this (by decide)
        · exact h

/-- two strictly sorted lists that are permutations of each other are equal -/
theorem sorted_unique_of_perm (l1 l2 : Ents) (h1 : KeySorted l1) (h2 : KeySorted l2)
    (hp : l1.Perm l2) : l1 = l2 :=
  sorted_unique_of_mem l1 l2 h1 h2 (fun _ => hp.mem_iff)

theorem NoDupKeys_of_perm {a b : Ents} (ha : a.NoDupKeys) (hp : a.Perm b) : b.NoDupKeys := by
  unfold Ents.NoDupKeys Ents.keys at *
  exact ((hp.map (·.1)).nodup_iff).1 ha

/-- **canonical**: duplicate-free permutations of each other sort to the same list -/
theorem sortEnts_canonical (a b : Ents) (ha : a.NoDupKeys) (hp : a.Perm b) :
    sortEnts a = sortEnts b :=
  sorted_unique_of_perm _ _ (sortEnts_sorted a ha) (sortEnts_sorted b (NoDupKeys_of_perm ha hp))
    (((sortEnts_perm a).trans hp).trans (sortEnts_perm b).symm)

/-! ### the finite-map view -/

/-- membership in a duplicate-free entry list is exactly the finite-map view -/
theorem mem_iff_abs (l : Ents) (h : l.NoDupKeys) (e : Key × Int) :
    e ∈ l ↔ Ents.abs l e.1 = some e.2 := by
  induction l with
  | nil => simp [Ents.abs]
  | cons x xs ih =>
    unfold Ents.NoDupKeys Ents.keys at h
    simp only [List.map_cons, List.nodup_cons, List.mem_map, not_exists, not_and] at h
    rw [Ents.abs_cons, List.mem_cons]
    by_cases hk : x.1 = e.1
    · rw [if_pos hk]
      constructor
      · rintro (rfl | hm)
        · rfl
        · exact absurd hk.symm (h.1 e hm)
      · intro hv
        left
        exact Prod.ext hk.symm (Option.some.inj hv).symm
    · rw [if_neg hk, ← ih h.2]
      constructor
      · rintro (rfl | hm)
        · exact absurd rfl hk
        · exact hm
      · exact Or.inr

theorem mem_iff_of_same_map (a b : Ents) (ha : a.NoDupKeys) (hb : b.NoDupKeys)
    (hsame : ∀ k, Ents.abs a k = Ents.abs b k) (e : Key × Int) : e ∈ a ↔ e ∈ b := by
  rw [mem_iff_abs a ha, mem_iff_abs b hb, hsame]

/-- **canonical, finite-map form**: duplicate-free lists denoting the same finite map sort to
    the same list -/
theorem sortEnts_of_same_map (a b : Ents) (ha : a.NoDupKeys) (hb : b.NoDupKeys)
    (hsame : ∀ k, Ents.abs a k = Ents.abs b k) : sortEnts a = sortEnts b := by
  apply sorted_unique_of_mem _ _ (sortEnts_sorted a ha) (sortEnts_sorted b hb)
  intro e
  rw [(sortEnts_perm a).mem_iff, (sortEnts_perm b).mem_iff]
  exact mem_iff_of_same_map a b ha hb hsame e

/-- duplicate-free lists denoting the same finite map are permutations of each other -/
theorem perm_of_same_map (a b : Ents) (ha : a.NoDupKeys) (hb : b.NoDupKeys)
    (hsame : ∀ k, Ents.abs a k = Ents.abs b k) : a.Perm b :=
  (sortEnts_perm a).symm.trans
    ((sortEnts_of_same_map a b ha hb hsame) ▸ (sortEnts_perm b))

/-! ### the displayed text is canonical -/

theorem get_of_same_map (a b : Ents) (hsame : ∀ k, Ents.abs a k = Ents.abs b k) (k : Key) :
    a.get k = b.get k := by
  rw [Ents.get_eq_abs, Ents.get_eq_abs, hsame]

/-- the string index reads only through the finite-map view -/
theorem strIndex_of_same_map (cc : CharClass) (T : Table) (c c' : Comp)
    (hsame : ∀ k, Ents.abs c.ents k = Ents.abs c'.ents k) (s : Sym) :
    c.strIndex cc T s = c'.strIndex cc T s := by
  unfold Comp.strIndex Ents.getStr
  split
  · exact get_of_same_map _ _ hsame _
  · rfl
  · split
    · exact get_of_same_map _ _ hsame _
    · rfl

/-- **display is canonical**: the text of `to_formula` depends only on the finite map a
    composition denotes — not on the representation `form`, the cache or the insertion order -/
theorem toFormula_canonical (cc : CharClass) (T : Table) (c c' : Comp)
    (h : c.ents.NoDupKeys) (h' : c'.ents.NoDupKeys)
    (hsame : ∀ k, Ents.abs c.ents k = Ents.abs c'.ents k) :
    toFormula cc T c = toFormula cc T c' := by
  unfold toFormula
  rw [strIndex_of_same_map cc T c c' hsame [67], strIndex_of_same_map cc T c c' hsame [72],
    sortEnts_of_same_map c.ents c'.ents h h' hsame]

/-! ### non-vacuity -/

-- O2 H5 C2 13C1 in two insertion orders: same sorted list
example :
    sortEnts [(([79], 0), 2), (([72], 0), 5), (([67], 0), 2), (([67], 13), 1)]
      = sortEnts [(([67], 13), 1), (([67], 0), 2), (([79], 0), 2), (([72], 0), 5)] := by decide

example :
    sortEnts [(([79], 0), 2), (([72], 0), 5), (([67], 0), 2), (([67], 13), 1)]
      = [(([67], 0), 2), (([67], 13), 1), (([72], 0), 5), (([79], 0), 2)] := by decide

-- "Na" < "O", and prefix order "N" < "Na"
example : sortEnts [(([79], 0), 1), (([78, 97], 0), 1), (([78], 0), 3)]
    = [(([78], 0), 3), (([78, 97], 0), 1), (([79], 0), 1)] := by decide

example : keyLt ([67], 0) ([67], 13) = true := by decide
example : keyLt ([67], 13) ([72], 0) = true := by decide

/-- ASCII character classes, for the concrete examples -/
def asciiCC : CharClass := ⟨isAsciiAlpha, isAsciiDigit, isAsciiUpper⟩

-- O2, H5, C2, 13C1 displayed: "C2H5C[13]1O2"  (both stores, either insertion order)
example :
    toFormula asciiCC [] ⟨.vec, [(([79], 0), 2), (([72], 0), 5), (([67], 0), 2), (([67], 13), 1)], none⟩
      = [67, 50, 72, 53, 67, 91, 49, 51, 93, 49, 79, 50] := by decide

example :
    toFormula asciiCC [] ⟨.emap, [(([67], 13), 1), (([67], 0), 2), (([79], 0), 2), (([72], 0), 5)], some 7⟩
      = [67, 50, 72, 53, 67, 91, 49, 51, 93, 49, 79, 50] := by decide

-- negative count and no carbon: "H-1Na1"
example : toFormula asciiCC [] ⟨.map, [(([78, 97], 0), 1), (([72], 0), -1)], none⟩
    = [72, 45, 49, 78, 97, 49] := by decide

-- the hypotheses of `toFormula_canonical` are satisfiable by genuinely different representations
example : toFormula asciiCC [] ⟨.vec, [(([79], 0), 2), (([72], 0), 5)], none⟩
    = toFormula asciiCC [] ⟨.emap, [(([72], 0), 5), (([79], 0), 2)], some 3⟩ := by
  apply toFormula_canonical
  · show List.Nodup _; decide
  · show List.Nodup _; decide
  · intro k
    simp only [Ents.abs_cons, Ents.abs_nil]
    by_cases h1 : k = ([79], 0)
    · subst h1; decide
    · by_cases h2 : k = ([72], 0)
      · subst h2; decide
      · have a : ¬ ([79], 0) = k := fun h => h1 h.symm
        have b : ¬ ([72], 0) = k := fun h => h2 h.symm
        simp [a, b]

open Spec

/-! ## Display round-trip (C07, second part) -/

/-- is the key plain carbon `C` or plain hydrogen `H` (no fixed isotope)? -/
def isCHk (k : Key) : Bool := (k.1 == [67] || k.1 == [72]) && k.2 == 0

/-- the entries displayed after the `C`/`H` head: everything else, in canonical order -/
def restOf (l : Ents) : Ents := (sortEnts l).filter (fun e => !isCHk e.1)

/-- the `C` entry (if its count is non-zero) and then the `H` entry (likewise) -/
def headOf (l : Ents) : Ents :=
  (if l.get ([67], 0) != 0 then [(([67], 0), l.get ([67], 0))] else []) ++
  (if l.get ([72], 0) != 0 then [(([72], 0), l.get ([72], 0))] else [])

/-- the entries in display order -/
def displayEnts (l : Ents) : Ents := headOf l ++ restOf l

/-- one displayed entry as a term of the grammar: symbol, optional isotope, explicit count -/
def termOf (e : Key × Int) : Term :=
  .elem e.1.1 (if e.1.2 = 0 then none else some e.1.2) (some e.2.natAbs)

def termsOf : Ents → Terms
  | [] => .nil
  | e :: r => .cons (termOf e) (termsOf r)

/-- the abstract syntax of the displayed text -/
def astOf (c : Comp) : Terms := termsOf (displayEnts c.ents)

/-- the text of one entry, exactly as `toFormula` writes it -/
def entText (e : Key × Int) : List Nat :=
  if e.1.2 != 0 then e.1.1 ++ [91] ++ natDigits e.1.2 ++ [93] ++ intDigits e.2
  else e.1.1 ++ intDigits e.2

/-- a key the parser can read back: a table symbol beginning with an upper-case letter, stored under
    itself, and either no isotope or an isotope (≤ 65535) of that element -/
def KeyOK (T : Table) (k : Key) : Prop :=
  match T.find? k.1 with
  | some el => el.sym = k.1 ∧ isUpperHead k.1 = true ∧
      (k.2 = 0 ∨ (k.2 ≤ 65535 ∧ (el.iso? k.2).isSome = true))
  | none => False

instance (T : Table) (k : Key) : Decidable (KeyOK T k) := by
  unfold KeyOK
  cases T.find? k.1 <;> exact inferInstance

/-- the hypotheses on the composition -/
structure Displayable (T : Table) (c : Comp) : Prop where
  nodup : c.ents.NoDupKeys
  pos : ∀ e ∈ c.ents, 0 < e.2 ∧ e.2 ≤ 2147483647
  keys : ∀ e ∈ c.ents, KeyOK T e.1

instance (T : Table) (c : Comp) : Decidable (Displayable T c) :=
  if h1 : c.ents.keys.Nodup then
    if h2 : ∀ e ∈ c.ents, 0 < e.2 ∧ e.2 ≤ 2147483647 then
      if h3 : ∀ e ∈ c.ents, KeyOK T e.1 then isTrue ⟨h1, h2, h3⟩
      else isFalse (fun h => h3 h.keys)
    else isFalse (fun h => h2 h.pos)
  else isFalse (fun h => h1 h.nodup)

/-! ### the string index of "C" and "H" -/

theorem quickCheck_C (cc : CharClass) (hcc : cc.AsciiOK) : quickCheckStr cc [67] = .yes := by
  have ha : cc.alpha 67 = true := by rw [(hcc 67 (by decide)).1]; decide
  simp [quickCheckStr, byteLen, utf8Len, ha]

theorem quickCheck_H (cc : CharClass) (hcc : cc.AsciiOK) : quickCheckStr cc [72] = .yes := by
  have ha : cc.alpha 72 = true := by rw [(hcc 72 (by decide)).1]; decide
  simp [quickCheckStr, byteLen, utf8Len, ha]

theorem strIndex_of_yes (cc : CharClass) (T : Table) (c : Comp) (s : Sym)
    (h : quickCheckStr cc s = .yes) : c.strIndex cc T s = c.ents.get (s, 0) := by
  unfold Comp.strIndex
  rw [h]
  rfl

/-- the text, with the string indices resolved -/
theorem toFormula_eq_of_yes (cc : CharClass) (T : Table) (c : Comp)
    (hC : quickCheckStr cc [67] = .yes) (hH : quickCheckStr cc [72] = .yes) :
    toFormula cc T c =
      ((if c.ents.get ([67], 0) != 0 then 67 :: intDigits (c.ents.get ([67], 0)) else []) ++
       (if c.ents.get ([72], 0) != 0 then 72 :: intDigits (c.ents.get ([72], 0)) else [])) ++
      (restOf c.ents).flatMap entText := by
  unfold toFormula
  rw [strIndex_of_yes cc T c [67] hC, strIndex_of_yes cc T c [72] hH]
  rfl

theorem headOf_text (l : Ents) :
    (headOf l).flatMap entText =
      (if l.get ([67], 0) != 0 then 67 :: intDigits (l.get ([67], 0)) else []) ++
      (if l.get ([72], 0) != 0 then 72 :: intDigits (l.get ([72], 0)) else []) := by
  unfold headOf
  rw [List.flatMap_append]
  congr 1 <;> (split <;> simp [entText])

theorem toFormula_eq_flatMap (cc : CharClass) (T : Table) (c : Comp)
    (hC : quickCheckStr cc [67] = .yes) (hH : quickCheckStr cc [72] = .yes) :
    toFormula cc T c = (displayEnts c.ents).flatMap entText := by
  rw [toFormula_eq_of_yes cc T c hC hH, displayEnts, List.flatMap_append, headOf_text]

/-! ### membership -/

theorem isCHk_iff (k : Key) : isCHk k = true ↔ k = ([67], 0) ∨ k = ([72], 0) := by
  obtain ⟨s, i⟩ := k
  simp only [isCHk, Bool.and_eq_true, Bool.or_eq_true, beq_iff_eq, Prod.mk.injEq]
  constructor
  · rintro ⟨h | h, h2⟩
    · exact Or.inl ⟨h, h2⟩
    · exact Or.inr ⟨h, h2⟩
  · rintro (⟨h, h2⟩ | ⟨h, h2⟩)
    · exact ⟨Or.inl h, h2⟩
    · exact ⟨Or.inr h, h2⟩

theorem mem_of_get_ne_zero (l : Ents) (k : Key) (h : l.get k ≠ 0) : (k, l.get k) ∈ l := by
  unfold Ents.get at *
  cases hf : l.find? (fun e => e.1 == k) with
  | none => rw [hf] at h; exact absurd rfl h
  | some e =>
    have hm := List.mem_of_find?_eq_some hf
    have hk := List.find?_some hf
    simp only [beq_iff_eq] at hk
    have : (k, e.2) = e := by rw [← hk]
    simp only [this]
    exact hm

theorem mem_headOf {l : Ents} {e : Key × Int} (h : e ∈ headOf l) : e ∈ l ∧ isCHk e.1 = true := by
  unfold headOf at h
  rcases List.mem_append.1 h with h | h
  · split at h
    · rename_i hne
      simp only [List.mem_singleton] at h
      subst h
      exact ⟨mem_of_get_ne_zero l _ (by simpa using hne), rfl⟩
    · simp at h
  · split at h
    · rename_i hne
      simp only [List.mem_singleton] at h
      subst h
      exact ⟨mem_of_get_ne_zero l _ (by simpa using hne), rfl⟩
    · simp at h

theorem mem_restOf {l : Ents} {e : Key × Int} : e ∈ restOf l ↔ e ∈ l ∧ isCHk e.1 = false := by
  unfold restOf
  rw [List.mem_filter, (sortEnts_perm l).mem_iff]
  simp

theorem mem_displayEnts {l : Ents} {e : Key × Int} (h : e ∈ displayEnts l) : e ∈ l := by
  rcases List.mem_append.1 h with h | h
  · exact (mem_headOf h).1
  · exact (mem_restOf.1 h).1

/-! ### text of a term list -/

theorem intDigits_nonneg (n : Int) (h : 0 ≤ n) : intDigits n = natDigits n.natAbs := by
  unfold intDigits
  rw [if_neg (by omega)]

theorem render_termOf (e : Key × Int) (h : 0 ≤ e.2) : (termOf e).render = entText e := by
  unfold termOf entText
  rw [render_elem, intDigits_nonneg _ h]
  by_cases hz : e.1.2 = 0
  · simp [hz, isoR, renderCount]
  · simp [hz, isoR, renderCount]

theorem render_termsOf (l : Ents) (h : ∀ e ∈ l, 0 ≤ e.2) : (termsOf l).render = l.flatMap entText := by
  induction l with
  | nil => simp [termsOf, render_nil]
  | cons e r ih =>
    rw [termsOf, render_cons, render_termOf e (h e List.mem_cons_self),
      ih (fun x hx => h x (List.mem_cons_of_mem _ hx)), List.flatMap_cons]

/-! ### well-formedness of the term list -/

theorem wft_termOf (T : Table) (e : Key × Int) (hk : KeyOK T e.1)
    (hc : 0 < e.2 ∧ e.2 ≤ 2147483647) : WFt T (termOf e) := by
  unfold termOf
  simp only [WFt]
  unfold KeyOK at hk
  cases hf : T.find? e.1.1 with
  | none => rw [hf] at hk; exact hk.elim
  | some el =>
    rw [hf] at hk
    dsimp only at hk ⊢
    refine ⟨⟨hk.1, hk.2.1, ?_⟩, ?_⟩
    · by_cases hz : e.1.2 = 0
      · simp [hz, isoOK]
      · rw [if_neg hz]
        rcases hk.2.2 with h | h
        · exact absurd h hz
        · exact ⟨hz, h.1, h.2⟩
    · show e.2.natAbs ≤ 2147483647
      omega

theorem wf_termsOf (T : Table) (l : Ents) (hk : ∀ e ∈ l, KeyOK T e.1)
    (hc : ∀ e ∈ l, 0 < e.2 ∧ e.2 ≤ 2147483647) : WF T (termsOf l) := by
  induction l with
  | nil => simp [termsOf, WF]
  | cons e r ih =>
    simp only [termsOf, WF]
    exact ⟨wft_termOf T e (hk e List.mem_cons_self) (hc e List.mem_cons_self),
      ih (fun x hx => hk x (List.mem_cons_of_mem _ hx)) (fun x hx => hc x (List.mem_cons_of_mem _ hx))⟩

theorem termsOf_ne_nil (l : Ents) (h : l ≠ []) : termsOf l ≠ .nil := by
  cases l with
  | nil => exact absurd rfl h
  | cons e r => simp [termsOf]

/-! ### meaning of the term list -/

theorem denote_termOf (e : Key × Int) (k : Key) :
    (termOf e).denote k = if e.1 = k then (e.2.natAbs : Int) else 0 := by
  unfold termOf
  simp only [Term.denote]
  have h1 : (if e.1.2 = 0 then (none : Option Nat) else some e.1.2).getD 0 = e.1.2 := by
    split
    · rename_i h; simp [h]
    · rfl
  rw [h1]
  by_cases h : e.1 = k
  · subst h; simp
  · have : ¬ k = (e.1.1, e.1.2) := fun x => h x.symm
    simp [h, this]

theorem denote_termsOf (l : Ents) (h : ∀ e ∈ l, 0 ≤ e.2) (k : Key) :
    (termsOf l).denote k = Ents.sumFor l k := by
  induction l with
  | nil => simp [termsOf, Terms.denote, Ents.sumFor]
  | cons e r ih =>
    simp only [termsOf, Terms.denote]
    rw [denote_termOf, Ents.sumFor_cons, ih (fun x hx => h x (List.mem_cons_of_mem _ hx))]
    have := h e List.mem_cons_self
    split
    · omega
    · rfl

theorem mentioned_termsOf (l : Ents) : (termsOf l).mentioned = l.keys := by
  induction l with
  | nil => simp [termsOf, Terms.mentioned, Ents.keys]
  | cons e r ih =>
    simp only [termsOf, Terms.mentioned, termOf, Term.mentioned, ih, Ents.keys_cons]
    have h1 : (if e.1.2 = 0 then (none : Option Nat) else some e.1.2).getD 0 = e.1.2 := by
      split
      · rename_i h; simp [h]
      · rfl
    rw [h1]
    rfl

theorem sumFor_append (a b : Ents) (k : Key) :
    Ents.sumFor (a ++ b) k = Ents.sumFor a k + Ents.sumFor b k := by
  simp [Ents.sumFor, List.filter_append, List.map_append, List.sum_append]

theorem sumFor_filter_key (p : Key → Bool) (l : Ents) (k : Key) :
    Ents.sumFor (l.filter (fun e => p e.1)) k = if p k then Ents.sumFor l k else 0 := by
  induction l with
  | nil => simp [Ents.sumFor]
  | cons e r ih =>
    rw [List.filter_cons]
    by_cases hp : p e.1 = true
    · rw [if_pos hp, Ents.sumFor_cons, ih, Ents.sumFor_cons]
      by_cases he : e.1 = k
      · subst he; simp [hp]
      · simp [he]
    · rw [if_neg hp, ih, Ents.sumFor_cons]
      by_cases he : e.1 = k
      · subst he; simp [hp]
      · simp [he]

theorem sumFor_headOf (l : Ents) (k : Key) :
    Ents.sumFor (headOf l) k = if isCHk k then l.get k else 0 := by
  unfold headOf
  rw [sumFor_append]
  by_cases hC : k = ([67], 0)
  · subst hC
    have e1 : isCHk ([67], 0) = true := by decide
    simp only [e1, if_true]
    by_cases h1 : l.get ([67], 0) = 0
    · by_cases h2 : l.get ([72], 0) = 0
      · simp [h1, h2, Ents.sumFor]
      · simp [h1, h2, Ents.sumFor]
    · by_cases h2 : l.get ([72], 0) = 0
      · simp [h1, h2, Ents.sumFor]
      · simp [h1, h2, Ents.sumFor]
  · by_cases hH : k = ([72], 0)
    · subst hH
      have e1 : isCHk ([72], 0) = true := by decide
      simp only [e1, if_true]
      by_cases h1 : l.get ([67], 0) = 0
      · by_cases h2 : l.get ([72], 0) = 0
        · simp [h1, h2, Ents.sumFor]
        · simp [h1, h2, Ents.sumFor]
      · by_cases h2 : l.get ([72], 0) = 0
        · simp [h1, h2, Ents.sumFor]
        · simp [h1, h2, Ents.sumFor]
    · have e1 : isCHk k = false := by
        cases h : isCHk k
        · rfl
        · rcases (isCHk_iff k).1 h with h | h
          · exact absurd h hC
          · exact absurd h hH
      have a : ¬ ([67], 0) = k := fun h => hC h.symm
      have b : ¬ ([72], 0) = k := fun h => hH h.symm
      simp only [e1, Bool.false_eq_true, if_false]
      have s1 : ∀ v, Ents.sumFor [(([67], 0), v)] k = 0 := by
        intro v; rw [Ents.sumFor_cons]; simp [a, Ents.sumFor]
      have s2 : ∀ v, Ents.sumFor [(([72], 0), v)] k = 0 := by
        intro v; rw [Ents.sumFor_cons]; simp [b, Ents.sumFor]
      have s0 : Ents.sumFor [] k = 0 := rfl
      split <;> split <;> simp [s1, s2, s0]

/-- duplicate-free permutations of each other have the same finite-map view -/
theorem abs_of_perm (a b : Ents) (ha : a.NoDupKeys) (hp : a.Perm b) (k : Key) :
    Ents.abs a k = Ents.abs b k := by
  have hb := NoDupKeys_of_perm ha hp
  cases h : Ents.abs a k with
  | some v =>
    have : ((k, v) : Key × Int) ∈ a := (mem_iff_abs a ha (k, v)).2 h
    exact ((mem_iff_abs b hb (k, v)).1 (hp.mem_iff.1 this)).symm
  | none =>
    cases h' : Ents.abs b k with
    | none => rfl
    | some v =>
      have : ((k, v) : Key × Int) ∈ b := (mem_iff_abs b hb (k, v)).2 h'
      have := (mem_iff_abs a ha (k, v)).1 (hp.mem_iff.2 this)
      rw [h] at this
      cases this

theorem sumFor_displayEnts (l : Ents) (h : l.NoDupKeys) (k : Key) :
    Ents.sumFor (displayEnts l) k = l.get k := by
  unfold displayEnts
  rw [sumFor_append, sumFor_headOf]
  unfold restOf
  rw [sumFor_filter_key (fun k => !isCHk k) (sortEnts l) k]
  have hs : (sortEnts l).NoDupKeys := NoDupKeys_of_perm h (sortEnts_perm l).symm
  have hg : Ents.sumFor (sortEnts l) k = l.get k := by
    rw [Ents.sumFor_nodup _ _ hs, Ents.get_eq_abs, Ents.get_eq_abs,
      abs_of_perm _ _ hs (sortEnts_perm l)]
  cases hk : isCHk k
  · simp [hg]
  · simp

theorem get_nonneg (l : Ents) (h : ∀ e ∈ l, 0 < e.2) (k : Key) : 0 ≤ l.get k := by
  by_cases hz : l.get k = 0
  · omega
  · have := h _ (mem_of_get_ne_zero l k hz)
    exact Int.le_of_lt this

/-! ### the theorems -/

/-- **display is a rendering**: the displayed text of a composition (positive counts in `i32` range,
    distinct valid keys) is the text of the term list `astOf c` — `C`, then `H`, then every other entry
    in (symbol, isotope) order, each with its isotope (if fixed) and an explicit count —; that term
    list is well formed, non-empty when the composition is, and denotes exactly the composition. -/
theorem display_is_render (cc : CharClass) (hcc : cc.AsciiOK) (T : Table) (c : Comp)
    (hc : Displayable T c) :
    toFormula cc T c = (astOf c).render ∧ WF T (astOf c) ∧ (c.ents ≠ [] → astOf c ≠ .nil) ∧
      (∀ k, (astOf c).denote k = c.ents.get k) ∧ (∀ k ∈ (astOf c).mentioned, k ∈ c.ents.keys) := by
  have hpos : ∀ e ∈ displayEnts c.ents, 0 < e.2 ∧ e.2 ≤ 2147483647 :=
    fun e he => hc.pos e (mem_displayEnts he)
  have hnn : ∀ e ∈ displayEnts c.ents, 0 ≤ e.2 := fun e he => Int.le_of_lt (hpos e he).1
  refine ⟨?_, ?_, ?_, ?_, ?_⟩
  · rw [toFormula_eq_flatMap cc T c (quickCheck_C cc hcc) (quickCheck_H cc hcc)]
    exact (render_termsOf _ hnn).symm
  · exact wf_termsOf T _ (fun e he => hc.keys e (mem_displayEnts he)) hpos
  · intro hne
    apply termsOf_ne_nil
    obtain ⟨e, he⟩ := List.exists_mem_of_ne_nil _ hne
    intro hd
    by_cases hch : isCHk e.1 = true
    · have hg : c.ents.get e.1 ≠ 0 := by
        have h1 := (mem_iff_abs c.ents hc.nodup e).1 he
        rw [Ents.get_eq_abs, h1]
        have := (hc.pos e he).1
        simp only [Option.getD_some]
        omega
      have hs := sumFor_displayEnts c.ents hc.nodup e.1
      rw [hd] at hs
      exact hg hs.symm
    · have : e ∈ restOf c.ents := mem_restOf.2 ⟨he, by simpa using hch⟩
      have : e ∈ displayEnts c.ents := List.mem_append_right _ this
      rw [hd] at this
      simp at this
  · intro k
    unfold astOf
    rw [denote_termsOf _ hnn, sumFor_displayEnts _ hc.nodup]
  · intro k hk
    unfold astOf at hk
    rw [mentioned_termsOf] at hk
    obtain ⟨e, he, rfl⟩ := List.mem_map.1 hk
    exact List.mem_map.2 ⟨e, mem_displayEnts he, rfl⟩

theorem abs_none_of_not_mem (l : Ents) (k : Key) (h : k ∉ l.keys) : Ents.abs l k = none := by
  have h1 : l.has k = false := by
    cases hh : l.has k
    · rfl
    · exact absurd ((Ents.has_iff_mem_keys l k).1 hh) h
  rw [Ents.has_eq_abs] at h1
  cases ha : Ents.abs l k with
  | none => rfl
  | some v => rw [ha] at h1; cases h1

/-- **round trip**: the displayed text of a non-empty composition parses, and the parsed composition
    gives every key the count it had, has pairwise distinct keys, and has the same finite-map view. -/
theorem display_roundtrip (cc : CharClass) (hcc : cc.AsciiOK) (T : Table) (hT : SymbolsOK cc T)
    (c : Comp) (hc : Displayable T c) (hne : c.ents ≠ []) :
    ∃ ents', parseFormula cc T (toFormula cc T c) = .ok ents' ∧ (∀ k, ents'.get k = c.ents.get k) ∧
      ents'.NoDupKeys ∧ (∀ k, Ents.abs ents' k = Ents.abs c.ents k) := by
  obtain ⟨hr, hwf, hnil, hden, hment⟩ := display_is_render cc hcc T c hc
  obtain ⟨ents', hp, hget, hkeys⟩ := parse_render cc hcc T hT (astOf c) (hnil hne) hwf
  obtain ⟨ents2, hp2, hnd⟩ := parse_render_nodup cc hcc T hT (astOf c) (hnil hne) hwf
  have : ents2 = ents' := by
    rw [hp] at hp2
    injection hp2 with h
    exact h.symm
  subst this
  have hget' : ∀ k, ents2.get k = c.ents.get k := fun k => by rw [hget, hden]
  refine ⟨ents2, by rw [hr]; exact hp, hget', hnd, ?_⟩
  intro k
  by_cases hk : k ∈ c.ents.keys
  · obtain ⟨e, he, rfl⟩ := List.mem_map.1 hk
    have h1 := (mem_iff_abs c.ents hc.nodup e).1 he
    have h2 := hget' e.1
    rw [Ents.get_eq_abs, Ents.get_eq_abs, h1] at h2
    have hpos := (hc.pos e he).1
    rw [h1]
    cases ha : Ents.abs ents2 e.1 with
    | none => rw [ha] at h2; simp only [Option.getD_none, Option.getD_some] at h2; omega
    | some v => rw [ha] at h2; simp only [Option.getD_some] at h2; rw [h2]
  · rw [abs_none_of_not_mem c.ents k hk]
    apply abs_none_of_not_mem
    intro hk2
    exact hk (hment k (hkeys k hk2))

/-- the same, as the statement of the task: existence of the parse and agreement of all counts -/
theorem roundtrip (cc : CharClass) (hcc : cc.AsciiOK) (T : Table) (hT : SymbolsOK cc T)
    (c : Comp) (hc : Displayable T c) (hne : c.ents ≠ []) :
    ∃ ents', parseFormula cc T (toFormula cc T c) = .ok ents' ∧ ∀ k, ents'.get k = c.ents.get k := by
  obtain ⟨ents', h1, h2, _⟩ := display_roundtrip cc hcc T hT c hc hne
  exact ⟨ents', h1, h2⟩

/-- parsing the displayed text and displaying again gives the same text (any store form) -/
theorem display_parse_display (cc : CharClass) (hcc : cc.AsciiOK) (T : Table) (hT : SymbolsOK cc T)
    (c : Comp) (hc : Displayable T c) (hne : c.ents ≠ []) (f : Form) (cache : Option Int) :
    ∃ ents', parseFormula cc T (toFormula cc T c) = .ok ents' ∧
      toFormula cc T ⟨f, ents', cache⟩ = toFormula cc T c := by
  obtain ⟨ents', h1, _, hnd, habs⟩ := display_roundtrip cc hcc T hT c hc hne
  exact ⟨ents', h1, toFormula_canonical cc T ⟨f, ents', cache⟩ c hnd hc.nodup habs⟩

/-- **display order**: the text is the `C` entry (if its count is non-zero), then the `H` entry
    (likewise), then the remaining entries; the keys of the remaining entries are strictly increasing
    in (symbol, isotope) order, are exactly the keys of the composition other than plain `C` and plain
    `H` — so `C[13]` or `H[2]` are among them. -/
theorem display_order (cc : CharClass) (hcc : cc.AsciiOK) (T : Table) (c : Comp)
    (hnd : c.ents.NoDupKeys) :
    toFormula cc T c =
      (if c.ents.get ([67], 0) != 0 then 67 :: intDigits (c.ents.get ([67], 0)) else []) ++
      (if c.ents.get ([72], 0) != 0 then 72 :: intDigits (c.ents.get ([72], 0)) else []) ++
      (restOf c.ents).flatMap entText ∧
    List.Pairwise (fun a b => keyLt a b = true) (restOf c.ents).keys ∧
    (∀ k, k ∈ (restOf c.ents).keys ↔ k ∈ c.ents.keys ∧ k ≠ ([67], 0) ∧ k ≠ ([72], 0)) ∧
    (∀ e, e ∈ restOf c.ents ↔ e ∈ c.ents ∧ e.1 ≠ ([67], 0) ∧ e.1 ≠ ([72], 0)) := by
  have hmem : ∀ e, e ∈ restOf c.ents ↔ e ∈ c.ents ∧ e.1 ≠ ([67], 0) ∧ e.1 ≠ ([72], 0) := by
    intro e
    rw [mem_restOf]
    constructor
    · rintro ⟨h1, h2⟩
      refine ⟨h1, ?_, ?_⟩
      · intro h; rw [(isCHk_iff e.1).2 (Or.inl h)] at h2; cases h2
      · intro h; rw [(isCHk_iff e.1).2 (Or.inr h)] at h2; cases h2
    · rintro ⟨h1, h2, h3⟩
      refine ⟨h1, ?_⟩
      cases h : isCHk e.1
      · rfl
      · rcases (isCHk_iff e.1).1 h with h | h
        · exact absurd h h2
        · exact absurd h h3
  refine ⟨toFormula_eq_of_yes cc T c (quickCheck_C cc hcc) (quickCheck_H cc hcc), ?_, ?_, hmem⟩
  · unfold Ents.keys
    rw [List.pairwise_map]
    exact (sortEnts_sorted c.ents hnd).sublist List.filter_sublist
  · intro k
    constructor
    · intro hk
      obtain ⟨e, he, rfl⟩ := List.mem_map.1 hk
      have := (hmem e).1 he
      exact ⟨List.mem_map.2 ⟨e, this.1, rfl⟩, this.2⟩
    · rintro ⟨hk, h2⟩
      obtain ⟨e, he, rfl⟩ := List.mem_map.1 hk
      exact List.mem_map.2 ⟨e, (hmem e).2 ⟨he, h2⟩, rfl⟩

/-! ### non-vacuity of the round trip -/

/-- a three-element table: C (isotopes 12, 13), H (1, 2), O (16) -/
def tinyTable : Table :=
  [ { tkey := [67], sym := [67], isos := [⟨12, 12000000, 989300, 12, 0⟩, ⟨13, 13003355, 10700, 13, 1⟩],
      mostIso := 12, mostMass := 12000000, minShift := 0, maxShift := 1, elemNum := 6 },
    { tkey := [72], sym := [72], isos := [⟨1, 1007825, 999885, 1, 0⟩, ⟨2, 2014102, 115, 2, 1⟩],
      mostIso := 1, mostMass := 1007825, minShift := 0, maxShift := 1, elemNum := 1 },
    { tkey := [79], sym := [79], isos := [⟨16, 15994915, 1000000, 16, 0⟩],
      mostIso := 16, mostMass := 15994915, minShift := 0, maxShift := 0, elemNum := 8 } ]

/-- O2 H5 C2 and one fixed carbon-13, in insertion order -/
def tinyComp : Comp := ⟨.vec, [(([79], 0), 2), (([72], 0), 5), (([67], 13), 1), (([67], 0), 2)], none⟩

example : SymbolsOK asciiCC tinyTable := by decide
example : asciiCC.AsciiOK := fun _ _ => ⟨rfl, rfl, rfl⟩
example : Displayable tinyTable tinyComp := by decide

-- the term list: C2 H5 C[13]1 O2
example : astOf tinyComp =
    .cons (.elem [67] none (some 2)) (.cons (.elem [72] none (some 5))
      (.cons (.elem [67] (some 13) (some 1)) (.cons (.elem [79] none (some 2)) .nil))) := rfl

-- "C2H5C[13]1O2"
example : toFormula asciiCC tinyTable tinyComp = [67, 50, 72, 53, 67, 91, 49, 51, 93, 49, 79, 50] := by
  decide
example : toFormula asciiCC tinyTable tinyComp = (astOf tinyComp).render := by decide
example : WF tinyTable (astOf tinyComp) := by decide

-- the text parses back to the same entries (here in display order)
example : parseFormula asciiCC tinyTable (toFormula asciiCC tinyTable tinyComp)
    = .ok [(([67], 0), 2), (([72], 0), 5), (([67], 13), 1), (([79], 0), 2)] := by decide

-- the remaining entries of `display_order`: the fixed isotope C[13] sorts before O and after the head
example : (restOf tinyComp.ents).keys = [([67], 13), ([79], 0)] := by decide

-- the theorem applies to the example
example : ∃ ents', parseFormula asciiCC tinyTable (toFormula asciiCC tinyTable tinyComp) = .ok ents' ∧
    ∀ k, ents'.get k = tinyComp.ents.get k :=
  roundtrip asciiCC (fun _ _ => ⟨rfl, rfl, rfl⟩) tinyTable (by decide) tinyComp (by decide) (by decide)

-- the hypotheses matter: the empty composition displays as "" which is not a formula, and a
-- non-positive count displays with a sign the parser rejects
example : toFormula asciiCC tinyTable ⟨.vec, [], none⟩ = [] := by decide
example : parseFormula asciiCC tinyTable [] = .err := by decide
example : parseFormula asciiCC tinyTable (toFormula asciiCC tinyTable ⟨.vec, [(([72], 0), -1)], none⟩) = .err := by
  decide

end Chem
