import ChemProofs.Model.Brain
import ChemProofs.Spec.IsoDist
/-
C08 — purity of the caching pattern generator: a call on a reusable generator returns exactly what
the stateless function returns, whatever was requested from the generator before.

Main results
 * `psN_take`, `updatePowerSum_prefix`, `updatePowerSum_steps`, `updatePowerSum_canon`, `nextPowerSum_pad`:
   the Newton power sums are append-only and prefix-stable; zero padding of `esp` is invisible
 * `update_canon`      : `Phi.update` keeps canonical constants canonical; afterwards index `≤ order` is in range
 * `fromElement_canon` : the initial constants are canonical (elem and mass vectors have the same length)
 * `variantsWith_congr`: the peaks depend on the constants only through the power sums `1..order`
 * `step_sim`/`fold_sim`: `populateFromCache` simulates `populate` (same failure, or pointwise related constants)
 * `call_pure`, `call_inv`: one call from an invariant cache = stateless result; the invariant is kept
 * `history_pure` (`history_pure'`, `history_pure_anyfail`), `deterministic`
 The only hypothesis on the elements is `SymInj` (one table in which the symbol determines the element).
-/
namespace Chem

/-! ### 0. `Res` plumbing -/

theorem Res.bind_ok {α β} (a : α) (f : α → Res β) : (Res.ok a).bind f = f a := rfl
theorem Res.bind_err {α β} (f : α → Res β) : (Res.err : Res α).bind f = .err := rfl
theorem Res.bind_panic {α β} (f : α → Res β) : (Res.panic : Res α).bind f = .panic := rfl

theorem Res.bind_eq_ok {α β} {r : Res α} {f : α → Res β} {b : β} :
    r.bind f = .ok b ↔ ∃ a, r = .ok a ∧ f a = .ok b := by
  cases r with
  | ok a => simp only [Res.bind_ok]; constructor
            · intro h; exact ⟨a, rfl, h⟩
            · rintro ⟨a', h1, h2⟩; cases h1; exact h2
  | err => simp only [Res.bind_err]; constructor
           · intro h; cases h
           · rintro ⟨a', h1, _⟩; cases h1
  | panic => simp only [Res.bind_panic]; constructor
             · intro h; cases h
             · rintro ⟨a', h1, _⟩; cases h1

/-! ### 1. canonical power sums: prefix stability of `updatePowerSum` -/

/-- the `n` first Newton power sums of `esp` (reading `esp` beyond its end as 0) -/
def psN (esp : DVec) : Nat → DVec
  | 0 => []
  | n + 1 => psN esp n ++ [nextPowerSum esp (psN esp n) n]

/-- the `k`-th canonical power sum -/
def psAt (esp : DVec) (k : Nat) : Rat := nextPowerSum esp (psN esp k) k

theorem psN_length (esp : DVec) (n : Nat) : (psN esp n).length = n := by
  induction n with
  | zero => rfl
  | succ n ih => simp [psN, ih]

theorem psN_eq_map (esp : DVec) (n : Nat) : psN esp n = (List.range n).map (psAt esp) := by
  induction n with
  | zero => rfl
  | succ n ih => rw [List.range_succ, List.map_append, ← ih]; rfl

/-- prefixes agree: the first `n` power sums do not depend on how far the vector was extended -/
theorem psN_take (esp : DVec) {n m : Nat} (h : n ≤ m) : (psN esp m).take n = psN esp n := by
  rw [psN_eq_map, psN_eq_map, ← List.map_take, List.take_range, Nat.min_eq_left h]

theorem psN_getD (esp : DVec) {n k : Nat} (h : k < n) : (psN esp n).getD k 0 = psAt esp k := by
  rw [psN_eq_map]
  simp [List.getD_eq_getElem?_getD, h]

theorem getD_append_zeros (l : DVec) (m j : Nat) : (l ++ List.replicate m 0).getD j 0 = l.getD j 0 := by
  simp only [List.getD_eq_getElem?_getD]
  by_cases h : j < l.length
  · rw [List.getElem?_append_left h]
  · have h' : l.length ≤ j := Nat.le_of_not_lt h
    rw [List.getElem?_append_right h', List.getElem?_eq_none h']
    by_cases h2 : j - l.length < m
    · simp [h2]
    · simp [h2]

/-- zero padding of `esp` is invisible to the Newton recurrence -/
theorem nextPowerSum_pad (esp : DVec) (m : Nat) (ps : DVec) (k : Nat) :
    nextPowerSum (esp ++ List.replicate m 0) ps k = nextPowerSum esp ps k := by
  unfold nextPowerSum
  simp only [getD_append_zeros]

/-- `updatePowerSum` extends a canonical prefix to the canonical vector of the length of `esp`,
    in however many steps -/
theorem updatePowerSum_canon (esp0 esp : DVec)
    (hx : ∀ ps k, nextPowerSum esp ps k = nextPowerSum esp0 ps k) :
    ∀ (fuel : Nat) (ps : DVec), ps = psN esp0 ps.length → ps.length ≤ esp.length →
      esp.length - ps.length ≤ fuel → updatePowerSum esp fuel ps = psN esp0 esp.length := by
  intro fuel
  induction fuel with
  | zero =>
    intro ps hps hle hf
    have : ps.length = esp.length := by omega
    rw [updatePowerSum, ← this]; exact hps
  | succ fuel ih =>
    intro ps hps hle hf
    rw [updatePowerSum]
    by_cases hlt : ps.length < esp.length
    · rw [if_pos hlt]
      apply ih
      · rw [List.length_append, List.length_singleton, psN, ← hps, hx]
      · simp; omega
      · simp; omega
    · rw [if_neg hlt]
      have : ps.length = esp.length := by omega
      rw [← this]; exact hps

/-- from scratch, `updatePowerSum` computes the canonical vector -/
theorem updatePowerSum_nil (esp : DVec) {fuel : Nat} (h : esp.length ≤ fuel) :
    updatePowerSum esp fuel [] = psN esp esp.length :=
  updatePowerSum_canon esp esp (fun _ _ => rfl) fuel [] rfl (Nat.zero_le _) (by simpa using h)

/-- `phiCanon_prefix`: the first power sums do not depend on how far the vectors were extended -/
theorem updatePowerSum_prefix (esp : DVec) (m : Nat) :
    (updatePowerSum (esp ++ List.replicate m 0) (esp.length + m) []).take esp.length
      = updatePowerSum esp esp.length [] := by
  rw [updatePowerSum_nil esp (Nat.le_refl _),
    updatePowerSum_canon esp (esp ++ List.replicate m 0) (nextPowerSum_pad esp m) _ [] rfl (Nat.zero_le _)
      (by simp)]
  apply psN_take
  simp

/-- … nor on the number of steps in which they were extended -/
theorem updatePowerSum_steps (esp : DVec) (m : Nat) :
    updatePowerSum (esp ++ List.replicate m 0) m (updatePowerSum esp esp.length [])
      = updatePowerSum (esp ++ List.replicate m 0) (esp.length + m) [] := by
  rw [updatePowerSum_nil esp (Nat.le_refl _),
    updatePowerSum_canon esp (esp ++ List.replicate m 0) (nextPowerSum_pad esp m) (esp.length + m) [] rfl
      (Nat.zero_le _) (by simp)]
  apply updatePowerSum_canon esp _ (nextPowerSum_pad esp m)
  · rw [psN_length]
  · rw [psN_length]; simp
  · rw [psN_length]; simp

/-! ### 2. canonical constants -/

/-- `p` is `p0` extended: `esp` zero-padded, `ps` the canonical power sums of the same length -/
def PolyCanon (p0 p : PolyParams) : Prop :=
  (∃ m, p.esp = p0.esp ++ List.replicate m 0) ∧ p.ps = psN p0.esp p.esp.length

theorem PolyCanon.ps_length {p0 p : PolyParams} (h : PolyCanon p0 p) : p.ps.length = p.esp.length := by
  rw [h.2, psN_length]

/-- padding `esp` with zeros and running `newton_optimization` keeps the constants canonical -/
theorem newton_canon {p0 p : PolyParams} (h : PolyCanon p0 p) (pad : Nat) (o : Int) :
    PolyCanon p0 (PolyParams.newton { p with esp := p.esp ++ List.replicate pad 0 } o) ∧
    (PolyParams.newton { p with esp := p.esp ++ List.replicate pad 0 } o).esp
      = p.esp ++ List.replicate pad 0 := by
  obtain ⟨⟨m, hm⟩, hps⟩ := h
  have hlen : p.ps.length = p.esp.length := by rw [hps, psN_length]
  have hesp : p.esp ++ List.replicate pad 0 = p0.esp ++ List.replicate (m + pad) 0 := by
    rw [hm, List.append_assoc, List.replicate_append_replicate]
  unfold PolyParams.newton
  dsimp only
  by_cases h1 : p.ps.length < (p.esp ++ List.replicate pad 0).length
  · rw [if_pos h1]
    refine ⟨⟨⟨m + pad, hesp⟩, ?_⟩, rfl⟩
    dsimp only
    apply updatePowerSum_canon
    · intro ps k; rw [hesp, nextPowerSum_pad]
    · rw [hlen]; exact hps
    · exact Nat.le_of_lt h1
    · exact Nat.le_refl _
  · rw [if_neg h1]
    have h2 : ¬ (p.esp ++ List.replicate pad 0).length < p.ps.length := by
      rw [hlen]; simp
    rw [if_neg h2]
    refine ⟨⟨⟨m + pad, hesp⟩, ?_⟩, rfl⟩
    dsimp only
    have : (p.esp ++ List.replicate pad 0).length = p.esp.length := by
      simp at h1 ⊢; omega
    rw [this]; exact hps

/-- `CanonAt`: `φ` is what `Phi.fromElement e` produced, extended by some sequence of updates -/
def Canon (K : BrainConsts) (e : Elem) (φ : Phi) : Prop :=
  ∃ φ0, Phi.fromElement e K.one = .ok φ0 ∧ PolyCanon φ0.elem φ.elem ∧ PolyCanon φ0.mass φ.mass ∧
    φ.order ≤ (φ.elem.esp.length : Int) ∧ φ.mass.esp.length = φ.elem.esp.length

/-- `Phi.update` maps canonical constants to canonical constants, and afterwards every index
    `≤ order` is in range -/
theorem update_canon {K : BrainConsts} {e : Elem} {φ : Phi} (h : Canon K e φ) (o : Int) :
    Canon K e (φ.update o) ∧ o < ((φ.update o).elem.esp.length : Int) := by
  obtain ⟨φ0, h0, he, hm, hord, hlen⟩ := h
  unfold Phi.update
  by_cases h1 : o < φ.order
  · rw [if_pos h1]
    exact ⟨⟨φ0, h0, he, hm, hord, hlen⟩, by omega⟩
  · rw [if_neg h1]
    dsimp only
    have ne := newton_canon he (o + 1 - φ.order).toNat
      (((φ.elem.esp ++ List.replicate (o + 1 - φ.order).toNat (0 : Rat)).length : Nat) : Int)
    have nm := newton_canon hm (o + 1 - φ.order).toNat
      (((φ.elem.esp ++ List.replicate (o + 1 - φ.order).toNat (0 : Rat)).length : Nat) : Int)
    refine ⟨⟨φ0, h0, ne.1, nm.1, ?_, ?_⟩, ?_⟩
    · dsimp only; rw [ne.2]; exact Int.le_refl _
    · dsimp only; rw [ne.2, nm.2]; simp [hlen]
    · rw [ne.2]; simp; omega

/-! ### 3. the initial constants are canonical -/

/-- two outcomes of the same kind, related by `R` when both are values -/
def ResRel {α β} (R : α → β → Prop) : Res α → Res β → Prop
  | .ok a, .ok b => R a b
  | .err, .err => True
  | .panic, .panic => True
  | _, _ => False

theorem ResRel.bind {α β α' β'} {R : α → β → Prop} {S : α' → β' → Prop} {r1 : Res α} {r2 : Res β}
    {f : α → Res α'} {g : β → Res β'} (h : ResRel R r1 r2)
    (hfg : ∀ a b, R a b → ResRel S (f a) (g b)) : ResRel S (r1.bind f) (r2.bind g) := by
  cases r1 <;> cases r2 <;> simp only [ResRel] at h <;> first | exact hfg _ _ h | trivial

theorem ResRel.refl_eq {α} (r : Res α) : ResRel (fun a b => a = b) r r := by
  cases r <;> simp only [ResRel]

theorem ResRel.eq {α} {r1 r2 : Res α} (h : ResRel (fun a b => a = b) r1 r2) : r1 = r2 := by
  cases r1 <;> cases r2 <;> simp only [ResRel] at h <;> first | rfl | (rw [h])

theorem isoCoefLoop_len (e : Elem) (one : Rat) : ∀ (l : List Nat) (acc acc' : DVec),
    acc.length = acc'.length →
    ResRel (fun a b => a.length = b.length) (isoCoefLoop e false one l acc) (isoCoefLoop e true one l acc') := by
  intro l
  induction l with
  | nil => intro acc acc' h; simpa only [isoCoefLoop, ResRel] using h
  | cons i rest ih =>
    intro acc acc' h
    simp only [isoCoefLoop]
    split
    · trivial
    · split
      · exact ih _ _ h
      · rw [h]
        split
        · apply ih; simp [h]
        · split
          · apply ih; simp [h]
          · trivial

theorem vietes_length {c esp : DVec} (h : vietes c = .ok esp) : esp.length = c.length := by
  unfold vietes at h
  split at h
  · cases h
  · cases h; simp

theorem newton_init (esp : DVec) (o : Int) : PolyParams.newton ⟨esp, []⟩ o = ⟨esp, psN esp esp.length⟩ := by
  unfold PolyParams.newton
  dsimp only
  by_cases h : ([] : DVec).length < esp.length
  · rw [if_pos h]
    congr 1
    exact updatePowerSum_canon esp esp (fun _ _ => rfl) _ [] rfl (Nat.zero_le _) (Nat.le_refl _)
  · rw [if_neg h]
    have : esp = [] := by cases esp with
      | nil => rfl
      | cons a t => simp at h
    subst this
    rfl

theorem polyFromElement_shape {e : Elem} {b : Bool} {one : Rat} {p : PolyParams}
    (h : PolyParams.fromElement e b one = .ok p) :
    PolyCanon p p ∧ ∃ acc, isotopicCoefficients e b one = .ok acc ∧ p.esp.length = acc.length := by
  unfold PolyParams.fromElement at h
  obtain ⟨acc, hacc, h⟩ := Res.bind_eq_ok.mp h
  obtain ⟨esp, hesp, h⟩ := Res.bind_eq_ok.mp h
  rw [newton_init] at h
  cases h
  exact ⟨⟨⟨0, by simp⟩, rfl⟩, acc, hacc, vietes_length hesp⟩

/-- the requested order never exceeds the length of the coefficient vector the element produces
    (`max_neutron_shift ≤ len`).  Without it the stateless function can panic (index out of range)
    where a generator that has seen a larger request does not. -/
def ElemOK (K : BrainConsts) (e : Elem) : Prop :=
  ∀ φ0, Phi.fromElement e K.one = .ok φ0 → φ0.order ≤ (φ0.elem.esp.length : Int)

instance (K : BrainConsts) (e : Elem) : Decidable (ElemOK K e) :=
  match h : Phi.fromElement e K.one with
  | .ok φ0 =>
    if h2 : φ0.order ≤ (φ0.elem.esp.length : Int) then
      isTrue (by intro φ hφ; rw [h] at hφ; cases hφ; exact h2)
    else isFalse (fun hh => h2 (hh _ h))
  | .err => isTrue (by intro φ hφ; rw [h] at hφ; cases hφ)
  | .panic => isTrue (by intro φ hφ; rw [h] at hφ; cases hφ)

theorem fromElement_canon {K : BrainConsts} {e : Elem} {φ0 : Phi} (hok : ElemOK K e)
    (h : Phi.fromElement e K.one = .ok φ0) : Canon K e φ0 := by
  refine ⟨φ0, h, ?_, ?_, hok φ0 h, ?_⟩
  all_goals
    unfold Phi.fromElement at h
    obtain ⟨ec, hec, h⟩ := Res.bind_eq_ok.mp h
    obtain ⟨mc, hmc, h⟩ := Res.bind_eq_ok.mp h
    cases h
    dsimp only
  · exact (polyFromElement_shape hec).1
  · exact (polyFromElement_shape hmc).1
  · obtain ⟨_, a1, h1, l1⟩ := polyFromElement_shape hec
    obtain ⟨_, a2, h2, l2⟩ := polyFromElement_shape hmc
    have := isoCoefLoop_len e K.one (List.range ((e.maxShift - e.minShift).toNat + 1)) [] [] rfl
    unfold isotopicCoefficients at h1 h2
    rw [h1, h2] at this
    simp only [ResRel] at this
    omega

theorem fromElement_poly {e : Elem} {one : Rat} {φ0 : Phi} (h : Phi.fromElement e one = .ok φ0) :
    PolyCanon φ0.elem φ0.elem ∧ PolyCanon φ0.mass φ0.mass := by
  unfold Phi.fromElement at h
  obtain ⟨ec, hec, h⟩ := Res.bind_eq_ok.mp h
  obtain ⟨mc, hmc, h⟩ := Res.bind_eq_ok.mp h
  cases h
  exact ⟨(polyFromElement_shape hec).1, (polyFromElement_shape hmc).1⟩

/-- the part of the constants that is ever read -/
def Same (φ ψ : Phi) : Prop := φ.order = ψ.order ∧ φ.elem = ψ.elem ∧ φ.mass = ψ.mass

/-- the general invariant of one entry.  For an element with `ElemOK` the entry is canonical; for
    an element without it (the coefficient vector is shorter than `max_neutron_shift`) the entry is
    still the initial one — every call that would extend it fails (index out of range), see
    `bad_update_fail`, and a failed call stores nothing. -/
def CanonG (K : BrainConsts) (e : Elem) (φ : Phi) : Prop :=
  (ElemOK K e ∧ Canon K e φ) ∨ (¬ ElemOK K e ∧ ∃ φ0, Phi.fromElement e K.one = .ok φ0 ∧ Same φ φ0)

theorem fromElement_canonG {K : BrainConsts} {e : Elem} {φ0 : Phi} (h : Phi.fromElement e K.one = .ok φ0) :
    CanonG K e φ0 := by
  by_cases hok : ElemOK K e
  · exact .inl ⟨hok, fromElement_canon hok h⟩
  · exact .inr ⟨hok, φ0, h, rfl, rfl, rfl⟩

theorem CanonG.from {K : BrainConsts} {e : Elem} {φ : Phi} (h : CanonG K e φ) :
    ∃ φ0, Phi.fromElement e K.one = .ok φ0 := by
  rcases h with ⟨_, φ0, h0, _⟩ | ⟨_, φ0, h0, _⟩ <;> exact ⟨φ0, h0⟩

theorem update_same {φ ψ : Phi} (h : Same φ ψ) (o : Int) : Same (φ.update o) (ψ.update o) := by
  obtain ⟨h1, h2, h3⟩ := h
  unfold Phi.update
  rw [h1, h2, h3]
  split
  · exact ⟨h1, h2, h3⟩
  · exact ⟨rfl, rfl, rfl⟩

/-- the answer of one entry to `nth_element_power_sum(_mass)` -/
def ans (φ : Phi) (k : Nat) (b : Bool) : Res Rat :=
  let v := if b then φ.mass.ps else φ.elem.ps
  if k < v.length then .ok (v.getD k 0) else .panic

theorem nthPs_eq (c : IsoConstants) (s : Sym) (k : Nat) (b : Bool) :
    nthPs c s k b = match c.consts.find? (fun x => x.1 == s) with
      | none => .panic
      | some p => ans p.2 k b := by
  unfold nthPs IsoConstants.get ans
  cases c.consts.find? (fun x => x.1 == s) <;> rfl

theorem ans_same {φ ψ : Phi} (h : Same φ ψ) (k : Nat) (b : Bool) : ans φ k b = ans ψ k b := by
  unfold ans; rw [h.2.1, h.2.2]

/-- an element without `ElemOK`: any update that extends its initial constants leaves the power
    sums too short for the requested order, so the call fails -/
theorem bad_update_fail {K : BrainConsts} {e : Elem} {φ φ0 : Phi} (hnok : ¬ ElemOK K e)
    (h0 : Phi.fromElement e K.one = .ok φ0) (hs : Same φ φ0) {o : Int} (ho : ¬ o < φ.order) :
    1 ≤ o.toNat ∧ ans (φ.update o) o.toNat false = .panic := by
  have hbad : ¬ φ0.order ≤ (φ0.elem.esp.length : Int) := by
    intro hle; apply hnok; intro φ0' h'; rw [h0] at h'; cases h'; exact hle
  obtain ⟨h1, h2, h3⟩ := hs
  have hpc : PolyCanon φ0.elem φ.elem := by rw [h2]; exact (fromElement_poly h0).1
  have ne := newton_canon hpc (o + 1 - φ.order).toNat
      (((φ.elem.esp ++ List.replicate (o + 1 - φ.order).toNat (0 : Rat)).length : Nat) : Int)
  have hlen := ne.1.ps_length
  rw [ne.2] at hlen
  rw [← h2, ← h1] at hbad
  refine ⟨by omega, ?_⟩
  unfold Phi.update ans
  rw [if_neg ho]
  simp only [Bool.false_eq_true, if_false]
  rw [if_neg]
  rw [hlen]
  simp
  omega

/-! ### 4. the output depends only on the power sums of index `1..order` -/

/-- the two sets of constants answer every query the generator makes in the same way -/
def NthAgree (c1 c2 : IsoConstants) (c : BComp) (n : Nat) : Prop :=
  ∀ x ∈ c, ∀ k, 1 ≤ k → k ≤ n → ∀ b, nthPs c1 x.1.sym k b = nthPs c2 x.1.sym k b

theorem mapRes_congr {α β} {f g : α → Res β} : ∀ {l : List α}, (∀ x ∈ l, f x = g x) → mapRes f l = mapRes g l
  | [], _ => rfl
  | x :: xs, h => by
    simp only [mapRes]
    rw [h x (List.mem_cons_self), mapRes_congr (fun y hy => h y (List.mem_cons_of_mem _ hy))]

theorem phiFor_congr {c1 c2 : IsoConstants} {c : BComp} {n k : Nat} (h : NthAgree c1 c2 c n)
    (h1 : 1 ≤ k) (h2 : k ≤ n) : phiFor c1 c k = phiFor c2 c k := by
  unfold phiFor
  congr 1
  apply List.map_congr_left
  intro x hx
  rw [h x hx k h1 h2]

theorem phiMassFor_congr {c1 c2 : IsoConstants} {c : BComp} {n k : Nat} (h : NthAgree c1 c2 c n)
    (h1 : 1 ≤ k) (h2 : k ≤ n) {y : Elem × Int} (hy : y ∈ c) :
    phiMassFor c1 c y.1 k = phiMassFor c2 c y.1 k := by
  unfold phiMassFor
  have : (c.map fun x =>
      let coef : Int := if x.1.sym == y.1.sym && x.1.mostIso == y.1.mostIso then x.2 - 1 else x.2
      (nthPs c1 x.1.sym k false).bind fun v => Res.ok (v * (coef : Rat))) =
      (c.map fun x =>
      let coef : Int := if x.1.sym == y.1.sym && x.1.mostIso == y.1.mostIso then x.2 - 1 else x.2
      (nthPs c2 x.1.sym k false).bind fun v => Res.ok (v * (coef : Rat))) := by
    apply List.map_congr_left
    intro x hx
    dsimp only
    rw [h x hx k h1 h2]
  rw [this, h y hy k h1 h2]

theorem probabilityVector_congr {c1 c2 : IsoConstants} {c : BComp} {n : Nat} (h : NthAgree c1 c2 c n)
    (V : Int) (base : Rat) : probabilityVector c1 c n V base = probabilityVector c2 c n V base := by
  unfold probabilityVector
  rw [mapRes_congr (g := fun i => phiFor c2 c (i + 1))]
  intro i hi
  have := List.mem_range.mp hi
  exact phiFor_congr h (by omega) (by omega)

theorem centerMassVector_congr {c1 c2 : IsoConstants} {c : BComp} {n : Nat} (h : NthAgree c1 c2 c n)
    (V : Int) (base one : Rat) (prob : DVec) :
    centerMassVector c1 c n V base one prob = centerMassVector c2 c n V base one prob := by
  unfold centerMassVector
  rw [mapRes_congr (l := c) (g := fun (x : Elem × Int) =>
      (mapRes (fun i => phiMassFor c2 c x.1 (i + 1)) (List.range n)).bind fun phis =>
        .ok (x.1.sym, espOfPs (0 :: phis) V))]
  intro x hx
  rw [mapRes_congr (g := fun i => phiMassFor c2 c x.1 (i + 1))]
  intro i hi
  have := List.mem_range.mp hi
  exact phiMassFor_congr h (by omega) (by omega) hx

/-- `variantsWith_congr`: constants that agree on the power sums `1..order` of the composition's
    symbols (same value or same failure) give the same peaks -/
theorem variantsWith_congr (K : BrainConsts) {c1 c2 : IsoConstants} {c : BComp} {n : Nat}
    (h : NthAgree c1 c2 c n) (z : Int) (carrier : Rat) :
    variantsWith K c1 c n z carrier = variantsWith K c2 c n z carrier := by
  unfold variantsWith rawVariants
  dsimp only
  rw [probabilityVector_congr h]
  congr 2
  funext prob
  rw [centerMassVector_congr h]

/-! ### 5. the cache invariant and the simulation of `populate` by `populateFromCache` -/

/-- one table: the symbol determines the element -/
def SymInj (T : List Elem) : Prop := ∀ x ∈ T, ∀ y ∈ T, x.sym = y.sym → x = y

/-- a composition over the table -/
def CompOK (T : List Elem) (c : BComp) : Prop := ∀ x ∈ c, x.1 ∈ T

/-- every cached entry satisfies the entry invariant for the element of the table that carries its symbol -/
def CacheInv (K : BrainConsts) (T : List Elem) (cache : Cache) : Prop :=
  ∀ p ∈ cache, ∃ e ∈ T, e.sym = p.1 ∧ CanonG K e p.2

/-- pointwise relation of two lists of the same length -/
inductive All2 {α β} (R : α → β → Prop) : List α → List β → Prop
  | nil : All2 R [] []
  | cons {a b l1 l2} : R a b → All2 R l1 l2 → All2 R (a :: l1) (b :: l2)

def EntryRel (K : BrainConsts) (T : List Elem) (a b : Sym × Phi) : Prop :=
  a.1 = b.1 ∧ ∃ e ∈ T, e.sym = a.1 ∧ CanonG K e a.2 ∧ CanonG K e b.2

def SimOK (K : BrainConsts) (T : List Elem) (a : IsoConstants) (bc : IsoConstants × Cache) : Prop :=
  a.order = bc.1.order ∧ All2 (EntryRel K T) a.consts bc.1.consts ∧ CacheInv K T bc.2 ∧
    (∀ p ∈ bc.1.consts, ∀ q ∈ bc.2, q.1 ≠ p.1)

theorem forall2_find {R : Sym × Phi → Sym × Phi → Prop} (hk : ∀ a b, R a b → a.1 = b.1) (s : Sym) :
    ∀ {l1 l2 : List (Sym × Phi)}, All2 R l1 l2 →
      (l1.find? (fun x => x.1 == s) = none ∧ l2.find? (fun x => x.1 == s) = none) ∨
      ∃ a b, l1.find? (fun x => x.1 == s) = some a ∧ l2.find? (fun x => x.1 == s) = some b ∧ R a b := by
  intro l1 l2 h
  induction h with
  | nil => left; exact ⟨rfl, rfl⟩
  | @cons a b l1 l2 hab _ ih =>
    simp only [List.find?_cons]
    rw [← hk a b hab]
    cases hs : a.1 == s with
    | true => right; exact ⟨a, b, rfl, rfl, hab⟩
    | false => exact ih

theorem forall2_snoc {α β} {R : α → β → Prop} {a : α} {b : β} (hab : R a b) :
    ∀ {l1 : List α} {l2 : List β}, All2 R l1 l2 → All2 R (l1 ++ [a]) (l2 ++ [b]) := by
  intro l1 l2 h
  induction h with
  | nil => exact .cons hab .nil
  | cons h1 _ ih => exact .cons h1 ih

theorem forall2_map {α β α' β'} {R : α → β → Prop} {S : α' → β' → Prop} {f : α → α'} {g : β → β'}
    (hfg : ∀ a b, R a b → S (f a) (g b)) :
    ∀ {l1 : List α} {l2 : List β}, All2 R l1 l2 → All2 S (l1.map f) (l2.map g) := by
  intro l1 l2 h
  induction h with
  | nil => exact .nil
  | cons h1 _ ih => exact .cons (hfg _ _ h1) ih

theorem all2_right {α β} {R : α → β → Prop} : ∀ {l1 : List α} {l2 : List β}, All2 R l1 l2 →
    ∀ q ∈ l2, ∃ p ∈ l1, R p q := by
  intro l1 l2 h
  induction h with
  | nil => intro q hq; cases hq
  | cons h1 _ ih =>
    intro q hq
    rcases List.mem_cons.mp hq with rfl | hq
    · exact ⟨_, List.mem_cons_self, h1⟩
    · obtain ⟨p, hp, hr⟩ := ih q hq
      exact ⟨p, List.mem_cons_of_mem _ hp, hr⟩

theorem add_of_find_none {c : IsoConstants} {e : Elem} {one : Rat}
    (h : c.consts.find? (fun x => x.1 == e.sym) = none) :
    c.add e one = (Phi.fromElement e one).bind fun phi => .ok { c with consts := c.consts ++ [(e.sym, phi)] } := by
  unfold IsoConstants.add IsoConstants.get; rw [h]; rfl

theorem add_of_find_some {c : IsoConstants} {e : Elem} {one : Rat} {p : Sym × Phi}
    (h : c.consts.find? (fun x => x.1 == e.sym) = some p) : c.add e one = .ok c := by
  unfold IsoConstants.add IsoConstants.get; rw [h]; rfl

def stepS (K : BrainConsts) (acc : Res IsoConstants) (x : Elem × Int) : Res IsoConstants :=
  acc.bind fun cs => cs.add x.1 K.one

def stepC (K : BrainConsts) (acc : Res (IsoConstants × Cache)) (x : Elem × Int) : Res (IsoConstants × Cache) :=
  acc.bind fun (cs, cache) =>
      match Cache.checkout cache x.1.sym with
      | (some phi, cache') => .ok ({ cs with consts := cs.consts ++ [(x.1.sym, phi)] }, cache')
      | (none, cache') => (cs.add x.1 K.one).bind fun cs' => .ok (cs', cache')

theorem populate_eq (K : BrainConsts) (c : BComp) (order : Int) :
    populate K c order = (c.foldl (stepS K) (Res.ok ⟨[], order⟩)).bind fun cs => .ok cs.update := rfl

theorem populateFromCache_eq (K : BrainConsts) (c : BComp) (order : Int) (cache : Cache) :
    populateFromCache K c order cache =
      (c.foldl (stepC K) (Res.ok (⟨[], order⟩, cache))).bind fun (cs, cache) => .ok (cs.update, cache) := rfl

theorem step_sim {K : BrainConsts} {T : List Elem} (hT : SymInj T) {x : Elem × Int} (hx : x.1 ∈ T)
    {r1 : Res IsoConstants} {r2 : Res (IsoConstants × Cache)} (h : ResRel (SimOK K T) r1 r2) :
    ResRel (SimOK K T) (stepS K r1 x) (stepC K r2 x) := by
  unfold stepS stepC
  refine ResRel.bind h ?_
  rintro a ⟨b, ch⟩ ⟨hord, hf2, hinv, hdis⟩
  dsimp only at hord hf2 hinv hdis ⊢
  have hkey : ∀ a b, EntryRel K T a b → a.1 = b.1 := fun _ _ h => h.1
  cases hfind : ch.find? (fun y => y.1 == x.1.sym) with
  | some q =>
    have hco : Cache.checkout ch x.1.sym = (some q.2, ch.filter (fun y => !(y.1 == x.1.sym))) := by
      unfold Cache.checkout; rw [hfind]
    rw [hco]
    dsimp only
    have hq : q ∈ ch := List.mem_of_find?_eq_some hfind
    have hqs : q.1 = x.1.sym := by
      have := List.find?_some hfind
      exact eq_of_beq this
    obtain ⟨e', he'T, he's, hcan⟩ := hinv q hq
    have : e' = x.1 := hT e' he'T x.1 hx (he's.trans hqs)
    subst this
    obtain ⟨φ0, h0⟩ := hcan.from
    have hnone : a.consts.find? (fun y => y.1 == x.1.sym) = none := by
      rcases forall2_find hkey x.1.sym hf2 with h | ⟨a', b', _, hb', _⟩
      · exact h.1
      · exfalso
        have hb'm : b' ∈ b.consts := List.mem_of_find?_eq_some hb'
        have hb's : b'.1 = x.1.sym := by
          have := List.find?_some hb'
          exact eq_of_beq this
        exact hdis b' hb'm q hq (hqs.trans hb's.symm)
    rw [add_of_find_none hnone, h0]
    simp only [Res.bind_ok, ResRel]
    refine ⟨hord, ?_, ?_, ?_⟩
    · exact forall2_snoc ⟨rfl, x.1, hx, rfl, fromElement_canonG h0, hcan⟩ hf2
    · intro p hp
      exact hinv p (List.mem_filter.mp hp).1
    · intro p hp q' hq'
      have hq'' := List.mem_filter.mp hq'
      rcases List.mem_append.mp hp with hp | hp
      · exact hdis p hp q' hq''.1
      · have : p = (x.1.sym, q.2) := by simpa using hp
        subst this
        intro heq
        have := hq''.2
        dsimp only at heq
        rw [heq] at this
        simp at this
  | none =>
    have hco : Cache.checkout ch x.1.sym = (none, ch) := by
      unfold Cache.checkout; rw [hfind]
    rw [hco]
    dsimp only
    rcases forall2_find hkey x.1.sym hf2 with ⟨h1, h2⟩ | ⟨a', b', ha', hb', _⟩
    · rw [add_of_find_none h1, add_of_find_none h2]
      cases h0 : Phi.fromElement x.1 K.one with
      | ok φ0 =>
        simp only [Res.bind_ok, ResRel]
        have hcan := fromElement_canonG h0
        refine ⟨hord, forall2_snoc ⟨rfl, x.1, hx, rfl, hcan, hcan⟩ hf2, hinv, ?_⟩
        intro p hp q' hq'
        rcases List.mem_append.mp hp with hp | hp
        · exact hdis p hp q' hq'
        · have : p = (x.1.sym, φ0) := by simpa using hp
          subst this
          intro heq
          have := List.find?_eq_none.mp hfind q' hq'
          dsimp only at heq
          rw [heq] at this
          simp at this
      | err => simp only [Res.bind_err, ResRel]
      | panic => simp only [Res.bind_panic, ResRel]
    · rw [add_of_find_some ha', add_of_find_some hb']
      simp only [Res.bind_ok, ResRel]
      exact ⟨hord, hf2, hinv, hdis⟩

theorem fold_sim {K : BrainConsts} {T : List Elem} (hT : SymInj T) :
    ∀ {c : BComp}, CompOK T c → ∀ {r1 : Res IsoConstants} {r2 : Res (IsoConstants × Cache)},
      ResRel (SimOK K T) r1 r2 → ResRel (SimOK K T) (c.foldl (stepS K) r1) (c.foldl (stepC K) r2) := by
  intro c
  induction c with
  | nil => intro _ _ _ h; exact h
  | cons x xs ih =>
    intro hc r1 r2 h
    simp only [List.foldl_cons]
    exact ih (fun y hy => hc y (List.mem_cons_of_mem _ hy)) (step_sim hT (hc x List.mem_cons_self) h)

theorem add_order {c c' : IsoConstants} {e : Elem} {one : Rat} (h : c.add e one = .ok c') :
    c'.order = c.order := by
  unfold IsoConstants.add at h
  split at h
  · cases h; rfl
  · obtain ⟨phi, _, h⟩ := Res.bind_eq_ok.mp h
    cases h; rfl

theorem foldS_order (K : BrainConsts) : ∀ (c : BComp) (r : Res IsoConstants) (a : IsoConstants),
    c.foldl (stepS K) r = .ok a → ∃ a0, r = .ok a0 ∧ a.order = a0.order := by
  intro c
  induction c with
  | nil => intro r a h; exact ⟨a, h, rfl⟩
  | cons x xs ih =>
    intro r a h
    obtain ⟨a1, h1, ho⟩ := ih _ _ h
    unfold stepS at h1
    obtain ⟨a0, h0, h2⟩ := Res.bind_eq_ok.mp h1
    exact ⟨a0, h0, ho.trans (add_order h2)⟩

theorem add_keys {c c' : IsoConstants} {e : Elem} {one : Rat} (h : c.add e one = .ok c') :
    ∀ q ∈ c'.consts, q ∈ c.consts ∨ q.1 = e.sym := by
  unfold IsoConstants.add at h
  split at h
  · cases h; intro q hq; exact .inl hq
  · obtain ⟨phi, _, h⟩ := Res.bind_eq_ok.mp h
    cases h
    intro q hq
    rcases List.mem_append.mp hq with hq | hq
    · exact .inl hq
    · right
      have : q = (e.sym, phi) := by simpa using hq
      rw [this]

theorem stepC_keys {K : BrainConsts} {r : Res (IsoConstants × Cache)} {x : Elem × Int} {bc1 : IsoConstants × Cache}
    (h : stepC K r x = .ok bc1) :
    ∃ bc0, r = .ok bc0 ∧ ∀ q ∈ bc1.1.consts, q ∈ bc0.1.consts ∨ q.1 = x.1.sym := by
  unfold stepC at h
  obtain ⟨⟨b, ch⟩, h0, h⟩ := Res.bind_eq_ok.mp h
  refine ⟨(b, ch), h0, ?_⟩
  dsimp only at h ⊢
  cases hfind : ch.find? (fun y => y.1 == x.1.sym) with
  | some q =>
    have hco : Cache.checkout ch x.1.sym = (some q.2, ch.filter (fun y => !(y.1 == x.1.sym))) := by
      unfold Cache.checkout; rw [hfind]
    rw [hco] at h
    dsimp only at h
    cases h
    intro q' hq'
    rcases List.mem_append.mp hq' with hq' | hq'
    · exact .inl hq'
    · right
      have : q' = (x.1.sym, q.2) := by simpa using hq'
      rw [this]
  | none =>
    have hco : Cache.checkout ch x.1.sym = (none, ch) := by
      unfold Cache.checkout; rw [hfind]
    rw [hco] at h
    dsimp only at h
    obtain ⟨cs', hadd, h⟩ := Res.bind_eq_ok.mp h
    cases h
    exact add_keys hadd

theorem foldC_keys (K : BrainConsts) : ∀ (c : BComp) (r : Res (IsoConstants × Cache)) (bc : IsoConstants × Cache),
    c.foldl (stepC K) r = .ok bc →
      ∃ bc0, r = .ok bc0 ∧ ∀ q ∈ bc.1.consts, q ∈ bc0.1.consts ∨ ∃ x ∈ c, x.1.sym = q.1 := by
  intro c
  induction c with
  | nil => intro r bc h; exact ⟨bc, h, fun q hq => .inl hq⟩
  | cons x xs ih =>
    intro r bc h
    obtain ⟨bc1, h1, hk⟩ := ih _ _ h
    obtain ⟨bc0, h0, hk0⟩ := stepC_keys h1
    refine ⟨bc0, h0, ?_⟩
    intro q hq
    rcases hk q hq with hq1 | ⟨y, hy, hys⟩
    · rcases hk0 q hq1 with hq0 | hqs
      · exact .inl hq0
      · exact .inr ⟨x, List.mem_cons_self, hqs.symm⟩
    · exact .inr ⟨y, List.mem_cons_of_mem _ hy, hys⟩

/-! ### 6. one call: same peaks as the stateless function, and the invariant is kept -/

/-- what a canonical, sufficiently extended entry answers to `nthPs` -/
theorem canon_nth {K : BrainConsts} {e : Elem} {φ φ0 : Phi} (h : Canon K e φ)
    (h0 : Phi.fromElement e K.one = .ok φ0) {o : Int} (ho : o < (φ.elem.esp.length : Int))
    {k : Nat} (hk : k ≤ o.toNat) (hk1 : 1 ≤ k) (b : Bool) :
    ans φ k b = .ok (psAt (if b then φ0.mass.esp else φ0.elem.esp) k) := by
  obtain ⟨φ0', h0', he, hm, _, hlen⟩ := h
  rw [h0] at h0'
  cases h0'
  have hkl : k < φ.elem.esp.length := by omega
  unfold ans
  cases b with
  | true =>
    simp only [if_true]
    have : k < φ.mass.ps.length := by rw [hm.ps_length, hlen]; exact hkl
    rw [if_pos this, hm.2, psN_getD]
    rw [hlen]; exact hkl
  | false =>
    simp only [Bool.false_eq_true, if_false]
    have : k < φ.elem.ps.length := by rw [he.ps_length]; exact hkl
    rw [if_pos this, he.2, psN_getD _ hkl]

/-- two entries for the same element answer alike once both are updated to the same order -/
theorem pair_ans {K : BrainConsts} {e : Elem} {p q : Phi} (hp : CanonG K e p) (hq : CanonG K e q)
    (o : Int) {k : Nat} (hk1 : 1 ≤ k) (hk : k ≤ o.toNat) (b : Bool) :
    ans (p.update o) k b = ans (q.update o) k b := by
  rcases hp with ⟨_, cp⟩ | ⟨hn, φ0, h0, sp⟩
  · rcases hq with ⟨_, cq⟩ | ⟨hn, _⟩
    · obtain ⟨φ0, h0, -⟩ := id cp
      obtain ⟨cp', lp⟩ := update_canon cp o
      obtain ⟨cq', lq⟩ := update_canon cq o
      rw [canon_nth cp' h0 lp hk hk1 b, canon_nth cq' h0 lq hk hk1 b]
    · contradiction
  · rcases hq with ⟨hok, _⟩ | ⟨_, φ0', h0', sq⟩
    · contradiction
    · rw [h0] at h0'; cases h0'
      apply ans_same
      apply update_same
      exact ⟨sp.1.trans sq.1.symm, sp.2.1.trans sq.2.1.symm, sp.2.2.trans sq.2.2.symm⟩

theorem sim_nthAgree {K : BrainConsts} {T : List Elem} {a : IsoConstants} {bc : IsoConstants × Cache}
    (h : SimOK K T a bc) (c : BComp) : NthAgree a.update bc.1.update c a.order.toNat := by
  obtain ⟨hord, hf2, -, -⟩ := h
  intro x _ k hk1 hk b
  have hf2' : All2 (fun p q => p.1 = q.1 ∧ ans p.2 k b = ans q.2 k b) a.update.consts bc.1.update.consts := by
    unfold IsoConstants.update
    dsimp only
    refine forall2_map ?_ hf2
    rintro p q ⟨hpq, e, heT, hes, hp, hq⟩
    refine ⟨hpq, ?_⟩
    dsimp only
    rw [← hord]
    exact pair_ans hp hq _ hk1 hk b
  rw [nthPs_eq, nthPs_eq]
  rcases forall2_find (fun _ _ h => h.1) x.1.sym hf2' with ⟨h1, h2⟩ | ⟨p, q, hp, hq, -, hpq⟩
  · rw [h1, h2]
  · rw [hp, hq]
    exact hpq

def peaksOf (r : Res (List Peak × Cache)) : Res (List Peak) := r.bind fun p => .ok p.1

theorem sim_init {K : BrainConsts} {T : List Elem} {cache : Cache} (hinv : CacheInv K T cache) (o : Int) :
    ResRel (SimOK K T) (Res.ok ⟨[], o⟩) (Res.ok (⟨[], o⟩, cache)) := by
  simp only [ResRel]
  exact ⟨rfl, .nil, hinv, fun p hp => by cases hp⟩

/-- `call_pure`: from a cache that satisfies the invariant, a generator call returns the peaks (or
    the failure) of the stateless function -/
theorem call_pure {K : BrainConsts} {T : List Elem} (hT : SymInj T) {cache : Cache}
    (hinv : CacheInv K T cache) {c : BComp} (hc : CompOK T c) (req : PeakReq) (z : Int) (carrier : Rat) :
    peaksOf (generatorCall K cache c req z carrier) = brainVariants K c req z carrier := by
  unfold peaksOf generatorCall brainVariants
  dsimp only
  rw [populate_eq, populateFromCache_eq]
  have hs := fold_sim hT hc (sim_init hinv (resolveOrder K c req))
  have ho : ∀ a, c.foldl (stepS K) (Res.ok ⟨[], resolveOrder K c req⟩) = .ok a →
      a.order = resolveOrder K c req := by
    intro a ha
    obtain ⟨a0, h0, h1⟩ := foldS_order K c _ a ha
    cases h0; exact h1
  revert hs ho
  generalize c.foldl (stepS K) _ = r1
  generalize c.foldl (stepC K) _ = r2
  intro hs ho
  cases r1 <;> cases r2 <;> simp only [ResRel] at hs <;> try rfl
  rename_i a bc
  obtain ⟨b, ch⟩ := bc
  simp only [Res.bind_ok]
  have hag := sim_nthAgree hs c
  have hord : a.order = resolveOrder K c req := ho a rfl
  rw [hord] at hag
  rw [variantsWith_congr K hag]
  cases variantsWith K (IsoConstants.update b) c (resolveOrder K c req).toNat z carrier <;> rfl

/-! failure propagation: a successful call has read every power sum `1..order` of every symbol -/

theorem foldl_sum_ok : ∀ (l : List (Res Rat)) (init : Res Rat) (v : Rat),
    l.foldl (fun acc x => acc.bind fun a => x.bind fun b => .ok (a + b)) init = .ok v →
      (∃ a, init = .ok a) ∧ ∀ x ∈ l, ∃ b, x = .ok b := by
  intro l
  induction l with
  | nil => intro init v h; exact ⟨⟨v, h⟩, fun x hx => by cases hx⟩
  | cons y ys ih =>
    intro init v h
    simp only [List.foldl_cons] at h
    obtain ⟨⟨a', ha'⟩, hys⟩ := ih _ _ h
    obtain ⟨a, ha, h2⟩ := Res.bind_eq_ok.mp ha'
    obtain ⟨b, hb, _⟩ := Res.bind_eq_ok.mp h2
    refine ⟨⟨a, ha⟩, ?_⟩
    intro x hx
    rcases List.mem_cons.mp hx with rfl | hx
    · exact ⟨b, hb⟩
    · exact hys x hx

theorem mapRes_ok {α β} {f : α → Res β} : ∀ {l : List α} {ys : List β}, mapRes f l = .ok ys →
    ∀ x ∈ l, ∃ y, f x = .ok y := by
  intro l
  induction l with
  | nil => intro _ _ x hx; cases hx
  | cons a as ih =>
    intro ys h x hx
    simp only [mapRes] at h
    obtain ⟨y, hy, h⟩ := Res.bind_eq_ok.mp h
    obtain ⟨ys', hys', _⟩ := Res.bind_eq_ok.mp h
    rcases List.mem_cons.mp hx with rfl | hx
    · exact ⟨y, hy⟩
    · exact ih hys' x hx

theorem variantsWith_ok_nth {K : BrainConsts} {consts : IsoConstants} {c : BComp} {n : Nat} {z : Int}
    {carrier : Rat} {pk : List Peak} (h : variantsWith K consts c n z carrier = .ok pk) :
    ∀ x ∈ c, ∀ k, 1 ≤ k → k ≤ n → ∃ v, nthPs consts x.1.sym k false = .ok v := by
  intro x hx k hk1 hk
  unfold variantsWith rawVariants at h
  dsimp only at h
  obtain ⟨_, h, _⟩ := Res.bind_eq_ok.mp h
  obtain ⟨prob, h, _⟩ := Res.bind_eq_ok.mp h
  unfold probabilityVector at h
  obtain ⟨phis, h, _⟩ := Res.bind_eq_ok.mp h
  obtain ⟨y, hy⟩ := mapRes_ok h (k - 1) (List.mem_range.mpr (by omega))
  have hk' : k - 1 + 1 = k := by omega
  rw [hk'] at hy
  unfold phiFor sumRes at hy
  obtain ⟨_, hall⟩ := foldl_sum_ok _ _ _ hy
  obtain ⟨b, hb⟩ := hall _ (List.mem_map.mpr ⟨x, hx, rfl⟩)
  obtain ⟨v, hv, _⟩ := Res.bind_eq_ok.mp hb
  exact ⟨v, hv⟩

theorem receive_inv {K : BrainConsts} {T : List Elem} {ch : Cache} (hinv : CacheInv K T ch) {s : Sym} {φ : Phi}
    (h : ∃ e ∈ T, e.sym = s ∧ CanonG K e φ) : CacheInv K T (Cache.receive ch s φ) := by
  unfold Cache.receive
  split
  · intro p hp
    rcases List.mem_append.mp hp with hp | hp
    · exact hinv p hp
    · have : p = (s, φ) := by simpa using hp
      subst this; exact h
  · split
    · exact hinv
    · intro p hp
      obtain ⟨y, hy, rfl⟩ := List.mem_map.mp hp
      split
      · exact h
      · exact hinv y hy

theorem receive_fold_inv {K : BrainConsts} {T : List Elem} : ∀ (l : List (Sym × Phi)) {ch : Cache},
    CacheInv K T ch → (∀ q ∈ l, ∃ e ∈ T, e.sym = q.1 ∧ CanonG K e q.2) →
    CacheInv K T (l.foldl (fun ch x => Cache.receive ch x.1 x.2) ch) := by
  intro l
  induction l with
  | nil => intro ch h _; exact h
  | cons x xs ih =>
    intro ch h hl
    simp only [List.foldl_cons]
    exact ih (receive_inv h (hl x List.mem_cons_self)) (fun q hq => hl q (List.mem_cons_of_mem _ hq))

/-- `call_inv`: a successful call leaves a cache that satisfies the invariant -/
theorem call_inv {K : BrainConsts} {T : List Elem} (hT : SymInj T) {cache : Cache}
    (hinv : CacheInv K T cache) {c : BComp} (hc : CompOK T c) {req : PeakReq} {z : Int} {carrier : Rat}
    {peaks : List Peak} {cache' : Cache} (h : generatorCall K cache c req z carrier = .ok (peaks, cache')) :
    CacheInv K T cache' := by
  unfold generatorCall at h
  dsimp only at h
  rw [populateFromCache_eq] at h
  have hs := fold_sim hT hc (sim_init hinv (resolveOrder K c req))
  have ho : ∀ a, c.foldl (stepS K) (Res.ok ⟨[], resolveOrder K c req⟩) = .ok a →
      a.order = resolveOrder K c req := by
    intro a ha
    obtain ⟨a0, h0, h1⟩ := foldS_order K c _ a ha
    cases h0; exact h1
  have hkeys : ∀ bc, c.foldl (stepC K) (Res.ok (⟨[], resolveOrder K c req⟩, cache)) = .ok bc →
      ∀ q ∈ bc.1.consts, ∃ x ∈ c, x.1.sym = q.1 := by
    intro bc hbc q hq
    obtain ⟨bc0, h0, hk⟩ := foldC_keys K c _ bc hbc
    cases h0
    rcases hk q hq with hq0 | hx
    · cases hq0
    · exact hx
  revert hs h ho hkeys
  generalize c.foldl (stepS K) _ = r1
  generalize c.foldl (stepC K) _ = r2
  intro h hs ho hkeys
  cases r1 <;> cases r2 <;> simp only [ResRel] at hs <;> try (cases h; done)
  rename_i a bc
  obtain ⟨b, ch⟩ := bc
  simp only [Res.bind_ok] at h
  obtain ⟨pk, hvar, h⟩ := Res.bind_eq_ok.mp h
  cases h
  have hordA : a.order = resolveOrder K c req := ho a rfl
  have hkeys' := hkeys (b, ch) rfl
  obtain ⟨hord, hf2, hinv', -⟩ := hs
  dsimp only at hord hf2 hinv' hkeys'
  have hordB : b.order = resolveOrder K c req := hord.symm.trans hordA
  apply receive_fold_inv _ hinv'
  intro q hq
  unfold IsoConstants.update at hq
  obtain ⟨q0, hq0, rfl⟩ := List.mem_map.mp hq
  obtain ⟨p0, _, hpq, e, heT, hes, _, hcq⟩ := all2_right hf2 q0 hq0
  have hes' : e.sym = q0.1 := hes.trans hpq
  refine ⟨e, heT, hes', ?_⟩
  dsimp only
  rcases hcq with ⟨hok, hcan⟩ | ⟨hnok, φ0, h0, hsame⟩
  · exact .inl ⟨hok, (update_canon hcan _).1⟩
  · right
    refine ⟨hnok, φ0, h0, ?_⟩
    by_cases hlt : b.order < q0.2.order
    · unfold Phi.update; rw [if_pos hlt]; exact hsame
    · exfalso
      obtain ⟨x, hxc, hxs⟩ := hkeys' q0 hq0
      have hxe : x.1 = e := hT x.1 (hc x hxc) e heT (hxs.trans hes'.symm)
      obtain ⟨hk1, _⟩ := bad_update_fail hnok h0 hsame hlt
      rw [← hordB] at hvar
      obtain ⟨v, hv⟩ := variantsWith_ok_nth hvar x hxc b.order.toNat hk1 (Nat.le_refl _)
      rw [nthPs_eq] at hv
      cases hf : (IsoConstants.update b).consts.find? (fun y => y.1 == x.1.sym) with
      | none => rw [hf] at hv; cases hv
      | some q' =>
        rw [hf] at hv
        dsimp only at hv
        have hq'm : q' ∈ (IsoConstants.update b).consts := List.mem_of_find?_eq_some hf
        have hq's : q'.1 = x.1.sym := by
          have := List.find?_some hf
          exact eq_of_beq this
        unfold IsoConstants.update at hq'm
        obtain ⟨q1, hq1, rfl⟩ := List.mem_map.mp hq'm
        obtain ⟨p1, _, hpq1, e1, he1T, hes1, _, hcq1⟩ := all2_right hf2 q1 hq1
        have : e1 = e := hT e1 he1T e heT (by
          rw [hes1, hpq1]; dsimp only at hq's; rw [hq's, hxe])
        subst this
        rcases hcq1 with ⟨hok, _⟩ | ⟨_, φ0', h0', hsame1⟩
        · contradiction
        · rw [h0] at h0'; cases h0'
          have hlt1 : ¬ b.order < q1.2.order := by rw [hsame1.1, ← hsame.1]; exact hlt
          obtain ⟨_, hp⟩ := bad_update_fail hnok h0 hsame1 hlt1
          dsimp only at hv
          rw [hp] at hv
          cases hv

/-! ### 7. any history -/

abbrev Call := BComp × PeakReq × Int × Rat

/-- the cache after one more call: the new cache when the call succeeds, unchanged otherwise -/
def stepCache (K : BrainConsts) (cache : Cache) (q : Call) : Cache :=
  match generatorCall K cache q.1 q.2.1 q.2.2.1 q.2.2.2 with
  | .ok (_, cache') => cache'
  | _ => cache

/-- run the calls of `hist` in order from the empty cache -/
def runHist (K : BrainConsts) (hist : List Call) : Cache := hist.foldl (stepCache K) []

theorem stepCache_inv {K : BrainConsts} {T : List Elem} (hT : SymInj T) {cache : Cache}
    (hinv : CacheInv K T cache) {q : Call} (hq : CompOK T q.1) : CacheInv K T (stepCache K cache q) := by
  unfold stepCache
  split
  · rename_i h; exact call_inv hT hinv hq h
  · exact hinv

theorem foldCache_inv {K : BrainConsts} {T : List Elem} (hT : SymInj T) : ∀ (hist : List Call) {cache : Cache},
    CacheInv K T cache → (∀ q ∈ hist, CompOK T q.1) → CacheInv K T (hist.foldl (stepCache K) cache) := by
  intro hist
  induction hist with
  | nil => intro _ h _; exact h
  | cons q qs ih =>
    intro cache h hq
    simp only [List.foldl_cons]
    exact ih (stepCache_inv hT h (hq q List.mem_cons_self)) (fun r hr => hq r (List.mem_cons_of_mem _ hr))

theorem runHist_inv {K : BrainConsts} {T : List Elem} (hT : SymInj T) (hist : List Call)
    (hh : ∀ q ∈ hist, CompOK T q.1) : CacheInv K T (runHist K hist) :=
  foldCache_inv hT hist (fun p hp => by cases hp) hh

/-- `history_pure`: whatever was requested from the generator before, a call returns exactly what the
    stateless function returns (same peaks, or the same kind of failure) -/
theorem history_pure {K : BrainConsts} {T : List Elem} (hT : SymInj T) (hist : List Call)
    (hh : ∀ q ∈ hist, CompOK T q.1) {c : BComp} (hc : CompOK T c) (req : PeakReq) (z : Int) (carrier : Rat) :
    peaksOf (generatorCall K (runHist K hist) c req z carrier) = brainVariants K c req z carrier :=
  call_pure hT (runHist_inv hT hist hh) hc req z carrier

/-- the same, with the table left implicit: the elements that occur in the history and in the call -/
def histElems (hist : List Call) (c : BComp) : List Elem :=
  (hist.flatMap fun q => q.1.map (·.1)) ++ c.map (·.1)

theorem history_pure' {K : BrainConsts} (hist : List Call) (c : BComp)
    (hwf : SymInj (histElems hist c)) (req : PeakReq) (z : Int) (carrier : Rat) :
    peaksOf (generatorCall K (runHist K hist) c req z carrier) = brainVariants K c req z carrier := by
  apply history_pure hwf
  · intro q hq x hx
    unfold histElems
    apply List.mem_append_left
    exact List.mem_flatMap.mpr ⟨q, hq, List.mem_map.mpr ⟨x, hx, rfl⟩⟩
  · intro x hx
    unfold histElems
    apply List.mem_append_right
    exact List.mem_map.mpr ⟨x, hx, rfl⟩

/-- `deterministic`: the stateless function is a function of its arguments, and the result of a
    generator call does not depend on the cache contents at all beyond the invariant -/
theorem deterministic {K : BrainConsts} {T : List Elem} (hT : SymInj T) {cache1 cache2 : Cache}
    (h1 : CacheInv K T cache1) (h2 : CacheInv K T cache2) {c : BComp} (hc : CompOK T c)
    (req : PeakReq) (z : Int) (carrier : Rat) :
    peaksOf (generatorCall K cache1 c req z carrier) = peaksOf (generatorCall K cache2 c req z carrier) := by
  rw [call_pure hT h1 hc, call_pure hT h2 hc]

theorem brainVariants_fun {K : BrainConsts} {c c' : BComp} {req req' : PeakReq} {z z' : Int} {carrier carrier' : Rat}
    (h1 : c = c') (h2 : req = req') (h3 : z = z') (h4 : carrier = carrier') :
    brainVariants K c req z carrier = brainVariants K c' req' z' carrier' := by
  subst h1 h2 h3 h4; rfl

/-! the same when a failed call may lose cache entries (e.g. the constants checked out before a panic) -/

def stepCacheWith (K : BrainConsts) (onFail : Cache → Call → Cache) (cache : Cache) (q : Call) : Cache :=
  match generatorCall K cache q.1 q.2.1 q.2.2.1 q.2.2.2 with
  | .ok (_, cache') => cache'
  | _ => onFail cache q

theorem history_pure_anyfail {K : BrainConsts} {T : List Elem} (hT : SymInj T)
    (onFail : Cache → Call → Cache) (hfail : ∀ cache q, ∀ p ∈ onFail cache q, p ∈ cache)
    (hist : List Call) (hh : ∀ q ∈ hist, CompOK T q.1) {c : BComp} (hc : CompOK T c)
    (req : PeakReq) (z : Int) (carrier : Rat) :
    peaksOf (generatorCall K (hist.foldl (stepCacheWith K onFail) []) c req z carrier)
      = brainVariants K c req z carrier := by
  apply call_pure hT _ hc
  have : ∀ (hist : List Call) (cache : Cache), CacheInv K T cache → (∀ q ∈ hist, CompOK T q.1) →
      CacheInv K T (hist.foldl (stepCacheWith K onFail) cache) := by
    intro hist
    induction hist with
    | nil => intro _ h _; exact h
    | cons q qs ih =>
      intro cache h hq
      simp only [List.foldl_cons]
      apply ih _ _ (fun r hr => hq r (List.mem_cons_of_mem _ hr))
      unfold stepCacheWith
      split
      · rename_i hcall; exact call_inv hT h (hq q List.mem_cons_self) hcall
      · intro p hp; exact h p (hfail _ _ p hp)
  exact this hist [] (fun p hp => by cases hp) hh

/-! ### 8. non-vacuity: small hand-made elements, checked by kernel evaluation -/

instance (T : List Elem) : Decidable (SymInj T) := by unfold SymInj; infer_instance
instance (T : List Elem) (c : BComp) : Decidable (CompOK T c) := by unfold CompOK; infer_instance

namespace C08Ex

def K : BrainConsts :=
  { one := 1000000, lambdaFactor := 1800, maxIter := 255, guessCap := 300,
    guessFraction := 9999/10000, cut := 1/10000000000 }

/-- hydrogen-like: two isotopes -/
def H : Elem :=
  { tkey := [72], sym := [72], isos := [⟨1, 1007825, 999885, 1, 0⟩, ⟨2, 2014102, 115, 2, 1⟩],
    mostIso := 1, mostMass := 1007825, minShift := 0, maxShift := 1, elemNum := 1 }

/-- carbon-like: two isotopes (`elemNum` chosen so that the key walk of `isotopic_coefficients` meets them) -/
def X : Elem :=
  { tkey := [88], sym := [88], isos := [⟨12, 12000000, 989300, 12, 0⟩, ⟨13, 13003355, 10700, 13, 1⟩],
    mostIso := 12, mostMass := 12000000, minShift := 0, maxShift := 1, elemNum := 12 }

/-- a different element under the same symbol -/
def X' : Elem := { X with isos := [⟨12, 12000000, 500000, 12, 0⟩, ⟨13, 13003355, 500000, 13, 1⟩] }

/-- an element whose coefficient vector (length 1) is shorter than its `maxShift` (3) -/
def Bad : Elem :=
  { tkey := [66], sym := [66], isos := [⟨1, 1000000, 1000000, 1, 3⟩],
    mostIso := 1, mostMass := 1000000, minShift := 0, maxShift := 3, elemNum := 4 }

def T : List Elem := [H, X, Bad]

def hist1 : List Call := [([(H, 2)], .fixed 2, 0, 0), ([(X, 6), (H, 10)], .fixed 9, 2, 1)]
def hist2 : List Call := [([(X, 1), (H, 4)], .guess, 1, 1), ([(H, 1)], .fixed 1, 1, 1), ([(Bad, 4)], .fixed 1, 0, 0),
   ([(Bad, 4)], .fixed 3, 0, 0)]

example : SymInj T := by decide +kernel
example : ElemOK K H ∧ ElemOK K X ∧ ¬ ElemOK K Bad := by decide +kernel
example : ∀ q ∈ hist1 ++ hist2, CompOK T q.1 := by decide +kernel

/-- the two histories leave different caches … -/
example : (runHist K hist1).map (fun p => (p.1, p.2.order)) = [([88], 10), ([72], 9)] ∧
    (runHist K hist2).map (fun p => (p.1, p.2.order)) = [([88], 4), ([72], 4), ([66], 3)] := by decide +kernel

/-- … and the same call returns, after either, what the stateless function returns: three peaks -/
example : peaksOf (generatorCall K (runHist K hist1) [(X, 2), (H, 6)] (.fixed 3) 1 1)
    = brainVariants K [(X, 2), (H, 6)] (.fixed 3) 1 1 := by decide +kernel
example : peaksOf (generatorCall K (runHist K hist2) [(X, 2), (H, 6)] (.fixed 3) 1 1)
    = brainVariants K [(X, 2), (H, 6)] (.fixed 3) 1 1 := by decide +kernel
example : (brainVariants K [(X, 2), (H, 6)] (.fixed 3) 1 1).bind (fun pk => .ok pk.length) = .ok 3 := by
  decide +kernel

/-- an element without `ElemOK` stays unextended in the cache; the failing call fails either way -/
example : peaksOf (generatorCall K (runHist K hist2) [(Bad, 4)] (.fixed 3) 0 0) = .panic ∧
    brainVariants K [(Bad, 4)] (.fixed 3) 0 0 = .panic := by decide +kernel

/-- the instances above are instances of the theorem -/
example : peaksOf (generatorCall K (runHist K hist1) [(X, 2), (H, 6)] (.fixed 3) 1 1)
    = brainVariants K [(X, 2), (H, 6)] (.fixed 3) 1 1 :=
  history_pure (T := T) (by decide +kernel) hist1 (by decide +kernel) (by decide +kernel) _ _ _

/-- the hypothesis "the symbol determines the element" cannot be dropped: after a call with another
    element under the same symbol the generator answers with the wrong constants -/
example : peaksOf (generatorCall K (runHist K [([(X', 2)], .fixed 3, 1, 1)]) [(X, 2)] (.fixed 3) 1 1)
    ≠ brainVariants K [(X, 2)] (.fixed 3) 1 1 := by decide +kernel

end C08Ex

end Chem
