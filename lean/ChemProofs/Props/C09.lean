import ChemProofs.Model.Brain
import ChemProofs.Spec.IsoDist
namespace Chem
theorem placeholder_C09 : True := trivial
end Chem
